"""C05 translator, second part (source of $MIDGARD_REPO → lean/Midgard/Generated/EllipsoidArith.lean).

By `ast` over midgard/data/_position.py:

* `branches`   every `return` inside the binary operators `__add__`, `__sub__`, `__radd__`, `__rsub__` (and what
               `__iadd__`/`__isub__` delegate to) of `PositionArray`, `PosVelArray`, `PositionDeltaArray`,
               `PosVelDeltaArray`: the `isinstance(other, <Class>)` test it stands under, and for a factory call
               `<recv>.from_position(val=<l>.val ± <r>.val, other=<sel>)` / `from_position_delta` — the receiver
               (whose class the result has), the factory, the operand the attributes are taken from
               (`self`, `other`, `self.ref_pos`, `other.ref_pos`) and the value expression;
* `factories`  for `from_position` / `from_position_delta` of the four classes: what the constructor call inside
               passes as `ellipsoid=` resp. `ref_pos=` (`other.ellipsoid`, `other`, `other.ref_pos`).

Anything outside these shapes is recorded as `.opaque` (the theorems of Props/C05 then fail to check).
"""
from __future__ import annotations

import ast

from . import util

POSITION_PY = "midgard/data/_position.py"
CLASSES = {"PositionArray": ".position", "PosVelArray": ".posvel", "PositionDeltaArray": ".posDelta", "PosVelDeltaArray": ".posvelDelta"}
METHODS = {"__add__": ".add", "__sub__": ".sub", "__radd__": ".radd", "__rsub__": ".rsub"}
INPLACE = {"__iadd__": "__add__", "__isub__": "__sub__"}


def _sel(e: ast.AST) -> str:
    """self / other / self.ref_pos / other.ref_pos"""
    if isinstance(e, ast.Name) and e.id in ("self", "other"):
        return ".self" if e.id == "self" else ".other"
    if isinstance(e, ast.Attribute) and e.attr == "ref_pos" and isinstance(e.value, ast.Name) and e.value.id in ("self", "other"):
        return ".selfRef" if e.value.id == "self" else ".otherRef"
    return ".unknown"


def _recv(e: ast.AST) -> str:
    if isinstance(e, ast.Name):
        if e.id == "self":
            return ".ofSelf"
        if e.id == "other":
            return ".ofOther"
        if e.id in CLASSES:
            return f"(.named {CLASSES[e.id]})"
    return ".unknownRecv"


def _valexpr(e: ast.AST) -> str:
    """`self.val + other.val` → .lr true … (left operand, right operand, plus?)"""
    if isinstance(e, ast.BinOp) and isinstance(e.op, (ast.Add, ast.Sub)):
        def side(x):
            if isinstance(x, ast.Attribute) and x.attr == "val" and isinstance(x.value, ast.Name) and x.value.id in ("self", "other"):
                return x.value.id
            return None
        l, r = side(e.left), side(e.right)
        plus = "true" if isinstance(e.op, ast.Add) else "false"
        if (l, r) == ("self", "other"):
            return f"(.selfOther {plus})"
        if (l, r) == ("other", "self"):
            return f"(.otherSelf {plus})"
    return ".opaqueVal"


def _ret(node: ast.Return) -> str:
    v = node.value
    if isinstance(v, ast.Name) and v.id == "NotImplemented":
        return ".notImplemented"
    if v is None or (isinstance(v, ast.Constant) and v.value is None):
        return ".none"
    if isinstance(v, ast.Call) and isinstance(v.func, ast.Attribute) and v.func.attr in ("from_position", "from_position_delta"):
        kws = {k.arg: k.value for k in v.keywords}
        if set(kws) == {"val", "other"} and not v.args:
            fac = ".fromPosition" if v.func.attr == "from_position" else ".fromPositionDelta"
            return f"(.build {_recv(v.func.value)} {fac} {_sel(kws['other'])} {_valexpr(kws['val'])})"
    if isinstance(v, ast.Call) and isinstance(v.func, ast.Attribute) and isinstance(v.func.value, ast.Name) and v.func.value.id == "self" \
            and v.func.attr in METHODS and len(v.args) == 1 and isinstance(v.args[0], ast.Name) and v.args[0].id == "other":
        return f"delegate {METHODS[v.func.attr]}"
    return ".opaque"


def _test_class(t: ast.AST):
    if (isinstance(t, ast.Call) and isinstance(t.func, ast.Name) and t.func.id == "isinstance" and len(t.args) == 2
            and isinstance(t.args[0], ast.Name) and t.args[0].id == "other" and isinstance(t.args[1], ast.Name)):
        return CLASSES.get(t.args[1].id)
    return None


def _system_guard(t: ast.AST) -> bool:
    """`self.system != other.system`"""
    return (isinstance(t, ast.Compare) and len(t.ops) == 1 and isinstance(t.ops[0], ast.NotEq)
            and ast.unparse(t.left) == "self.system" and ast.unparse(t.comparators[0]) == "other.system")


def _walk_method(fn: ast.FunctionDef):
    """ordered list of (test-class or `none`, same-system-required, ret) — one entry per reachable `return`; the
    statements are walked in order, an `if isinstance(other, C)` / `elif` chain opens a test, `if self.system !=
    other.system: return NotImplemented` is the system guard, `try: return X except KeyError: return NotImplemented`
    is read as X (the KeyError arm is the unregistered-system case)"""
    out = []

    def body(stmts, test, guarded):
        """emit the returns reachable from `stmts` (executed in order) under the given `isinstance` test"""
        for k, st in enumerate(stmts):
            rest = stmts[k + 1:]
            if isinstance(st, ast.Expr) and isinstance(st.value, ast.Constant):
                continue  # docstring
            if isinstance(st, ast.Pass):
                continue
            if isinstance(st, ast.Return):
                out.append((test, guarded, _ret(st)))
                return  # rest unreachable
            if isinstance(st, ast.If):
                c = _test_class(st.test)
                if c is not None and test is None:
                    # the arm, followed by what comes after the whole `if` when the arm does not return; then the
                    # `elif`/`else` part (again followed by the rest) for objects that fail the test
                    body(list(st.body) + rest, c, guarded)
                    body(list(st.orelse) + rest, None, guarded)
                    return
                if _system_guard(st.test) and len(st.body) == 1 and isinstance(st.body[0], ast.Return) \
                        and _ret(st.body[0]) == ".notImplemented" and not st.orelse:
                    guarded = True
                    continue
                out.append((test, guarded, ".opaque"))
                return
            if isinstance(st, ast.Try) and len(st.body) == 1 and isinstance(st.body[0], ast.Return) and len(st.handlers) == 1 \
                    and isinstance(st.handlers[0].type, ast.Name) and st.handlers[0].type.id == "KeyError" \
                    and len(st.handlers[0].body) == 1 and isinstance(st.handlers[0].body[0], ast.Return) \
                    and _ret(st.handlers[0].body[0]) == ".notImplemented" and not st.orelse and not st.finalbody:
                out.append((test, guarded, _ret(st.body[0])))
                return
            out.append((test, guarded, ".opaque"))
            return
        out.append((test, guarded, ".none"))  # falls off the end: returns None

    body(list(fn.body), None, False)
    return out


def _classes(tree):
    return {n.name: n for n in tree.body if isinstance(n, ast.ClassDef)}


def branches(source: str):
    tree = ast.parse(source)
    cl = _classes(tree)
    rows = []
    for cname, ctag in CLASSES.items():
        node = cl.get(cname)
        if node is None:
            continue
        for fn in node.body:
            if isinstance(fn, ast.FunctionDef) and fn.name in METHODS:
                for test, guarded, ret in _walk_method(fn):
                    ret = ".opaque" if ret.startswith("delegate") else ret
                    rows.append((ctag, METHODS[fn.name], "none" if test is None else f"(some {test})", "true" if guarded else "false", ret))
    # `__iadd__` / `__isub__` (defined once in PosBase): what they delegate to
    inplace = []
    for n in tree.body:
        if isinstance(n, ast.ClassDef):
            for fn in n.body:
                if isinstance(fn, ast.FunctionDef) and fn.name in INPLACE:
                    rets = [r for _, _, r in _walk_method(fn)]
                    want = f"delegate {METHODS[INPLACE[fn.name]]}"
                    inplace.append((n.name, fn.name, rets == [want]))
    return rows, inplace


def factories(source: str):
    """(class, factory, what the constructor call passes on) for from_position / from_position_delta"""
    tree = ast.parse(source)
    cl = _classes(tree)
    rows = []
    for cname, ctag in CLASSES.items():
        node = cl.get(cname)
        if node is None:
            continue
        for fn in node.body:
            if not (isinstance(fn, ast.FunctionDef) and fn.name in ("from_position", "from_position_delta")):
                continue
            fac = ".fromPosition" if fn.name == "from_position" else ".fromPositionDelta"
            calls = [r.value for r in ast.walk(fn) if isinstance(r, ast.Return) and isinstance(r.value, ast.Call)]
            what = ".opaqueFwd"
            if len(calls) == 1:
                c = calls[0]
                f = c.func
                # _SYSTEMS[<family>][other.system](val, ellipsoid=other.ellipsoid | ref_pos=other | ref_pos=other.ref_pos, **attrs)
                fam = None
                if isinstance(f, ast.Subscript) and isinstance(f.value, ast.Subscript) and isinstance(f.value.value, ast.Name) \
                        and f.value.value.id == "_SYSTEMS" and ast.unparse(f.slice) == "other.system":
                    k = f.value.slice
                    if isinstance(k, ast.Constant) and k.value in CLASSES:
                        fam = CLASSES[k.value]
                    elif ast.unparse(k) == "cls.cls_name":
                        fam = ".ofCls"
                kws = {k.arg: k.value for k in c.keywords if k.arg is not None}
                star = [k for k in c.keywords if k.arg is None]
                pos_ok = len(c.args) == 1 and isinstance(c.args[0], ast.Name) and c.args[0].id == "val"
                if fam and pos_ok and len(star) == 1 and ast.unparse(star[0].value) == "attrs":
                    if set(kws) == {"ellipsoid"} and ast.unparse(kws["ellipsoid"]) == "other.ellipsoid":
                        what = f"(.ellipsoidOfArg {fam if fam != '.ofCls' else ctag})" if fam != ".ofCls" else ".ellipsoidOfArgCls"
                    elif set(kws) == {"ref_pos"} and ast.unparse(kws["ref_pos"]) == "other":
                        what = ".refIsArg" if fam == ".ofCls" else ".opaqueFwd"
                    elif set(kws) == {"ref_pos"} and ast.unparse(kws["ref_pos"]) == "other.ref_pos":
                        what = ".refIsArgRef" if fam == ".ofCls" else ".opaqueFwd"
            rows.append((ctag, fac, what))
    return rows


# ------------------------------------------------------------------------------------------------
# constructor calls of position objects *outside* _position.py that build a position from a position

EXTERNAL_MODULES = ("midgard/data/fieldtypes/position.py", "midgard/data/fieldtypes/posvel.py", "midgard/data/dataset.py",
                    "midgard/math/plate_motion.py", "midgard/math/transformation.py", "midgard/math/rotation.py")
CTOR_NAMES = ("Position", "PosVel")


def external_sites():
    """(module, function, keep/drop/bad/fresh): every call `Position(…)` / `PosVel(…)` / `PositionArray.create(…)` /
    `PosVelArray.create(…)` in the listed modules.  `keep`: passes `ellipsoid=<expr>.ellipsoid`; `fresh`: no argument of
    the call mentions an existing position object's data (`<x>.data`, `.val`, `.pos`) — a position built from raw numbers,
    where the constructor default is the documented behaviour; `drop`: built from a position object without
    forwarding its ellipsoid; `bad`: forwards something else"""
    rows = []
    for mod in EXTERNAL_MODULES:
        path = util.REPO / mod
        if not path.exists():
            continue
        tree = ast.parse(path.read_text())
        for fn in ast.walk(tree):
            if not isinstance(fn, (ast.FunctionDef, ast.AsyncFunctionDef)):
                continue
            for c in ast.walk(fn):
                if not isinstance(c, ast.Call):
                    continue
                f = c.func
                is_ctor = (isinstance(f, ast.Name) and f.id in CTOR_NAMES) or \
                          (isinstance(f, ast.Attribute) and f.attr in CTOR_NAMES and isinstance(f.value, ast.Name) and f.value.id == "position") or \
                          (isinstance(f, ast.Attribute) and f.attr == "create" and isinstance(f.value, ast.Name) and f.value.id in ("PositionArray", "PosVelArray"))
                if not is_ctor:
                    continue
                kws = {k.arg: k.value for k in c.keywords if k.arg}
                if "ellipsoid" in kws:
                    v = kws["ellipsoid"]
                    fwd = "keep" if (isinstance(v, ast.Attribute) and v.attr == "ellipsoid") else "bad"
                else:
                    mentions = any(isinstance(n, ast.Attribute) and n.attr in ("data", "val", "pos", "trs", "llh") for a in list(c.args) + list(kws.values()) for n in ast.walk(a))
                    fwd = "drop" if mentions else "fresh"
                rows.append((mod, fn.name, fwd))
    return rows


# ------------------------------------------------------------------------------------------------
# `_trs2llh`: the selection between pole branch and Halley branch (boolean-mask assignments), and `empty_from` of deltas

TRANSFORMATION_PY = "midgard/math/transformation.py"
_SEL_VALUES = {"tmp_lat": ".tmpLat", "tmp_height": ".tmpHeight", "pi / 2": ".halfPi", "absz - ellipsoid.b": ".poleHeight"}
_SEL_INIT = {"np.zeros(len(trs)) if trs.ndim == 2 else 0": ".zero"}
_PI_DEF = "np.ones(len(trs)) * np.pi if trs.ndim == 2 else np.pi"


def _mask_of(e: ast.AST):
    """`pole_idx` → .pole, `~pole_idx` → .notPole"""
    if isinstance(e, ast.Name) and e.id == "pole_idx":
        return ".pole"
    if isinstance(e, ast.UnaryOp) and isinstance(e.op, ast.Invert) and isinstance(e.operand, ast.Name) and e.operand.id == "pole_idx":
        return ".notPole"
    return None


def _sel_stmt(st: ast.stmt, mask_ctx=None):
    """one statement that stores into `lat` / `height` → Lean `SelStmt` (or None if it does not touch them)"""
    tg = {"lat": ".lat", "height": ".height"}
    stores = [n.id for n in ast.walk(st) if isinstance(n, ast.Name) and isinstance(n.ctx, ast.Store) and n.id in tg]
    sub_stores = [n.value.id for n in ast.walk(st) if isinstance(n, ast.Subscript) and isinstance(n.ctx, ast.Store)
                  and isinstance(n.value, ast.Name) and n.value.id in tg]
    if not stores and not sub_stores:
        return None
    if isinstance(st, ast.Assign) and len(st.targets) == 1:
        t, v = st.targets[0], st.value
        if isinstance(t, ast.Name) and t.id in tg:
            src = ast.unparse(v)
            if src in _SEL_INIT and mask_ctx is None:
                return f"(.assign {tg[t.id]} .all {_SEL_INIT[src]})"
            if src in _SEL_VALUES and mask_ctx is not None:
                return f"(.assign {tg[t.id]} {mask_ctx} {_SEL_VALUES[src]})"
            return ".opaque"
        if isinstance(t, ast.Subscript) and isinstance(t.value, ast.Name) and t.value.id in tg and mask_ctx is None:
            m = _mask_of(t.slice)
            # the right-hand side is `<value>[<the same mask>]`
            if m and isinstance(v, ast.Subscript) and _mask_of(v.slice) == m and ast.unparse(v.value) in _SEL_VALUES:
                return f"(.assign {tg[t.value.id]} {m} {_SEL_VALUES[ast.unparse(v.value)]})"
            return ".opaque"
    if isinstance(st, ast.AugAssign) and isinstance(st.op, ast.Mult) and isinstance(st.target, ast.Name) and st.target.id in tg \
            and ast.unparse(st.value) == "np.sign(z)" and mask_ctx is None:
        return f"(.mulSign {tg[st.target.id]})"
    return ".opaque"


def selection_programs():
    """the statements of `_trs2llh` that store into `lat` / `height`, in execution order, once for `trs.ndim == 2` and once
    for a single position; plus the order of `np.stack((…)).T` and whether `pi` is `np.pi` in both shapes"""
    tree = ast.parse((util.REPO / TRANSFORMATION_PY).read_text())
    fn = next((n for n in tree.body if isinstance(n, ast.FunctionDef) and n.name == "_trs2llh"), None)
    if fn is None:
        return [".opaque"], [".opaque"], [], False
    prog2, prog1, stack, pi_ok = [], [], [], False
    for st in fn.body:
        if isinstance(st, ast.Assign) and len(st.targets) == 1 and isinstance(st.targets[0], ast.Name) and st.targets[0].id == "pi":
            pi_ok = ast.unparse(st.value) == _PI_DEF
            continue
        if isinstance(st, ast.If) and ast.unparse(st.test) == "trs.ndim == 2":
            for b in st.body:
                r = _sel_stmt(b)
                prog2.append(r if r is not None else ".opaque")
            # the single-position arm: `if pole_idx: … else: …` of plain assignments
            arm = st.orelse
            if len(arm) == 1 and isinstance(arm[0], ast.If) and _mask_of(arm[0].test) == ".pole":
                for b in arm[0].body:
                    r = _sel_stmt(b, ".pole")
                    prog1.append(r if r is not None else ".opaque")
                for b in arm[0].orelse:
                    r = _sel_stmt(b, ".notPole")
                    prog1.append(r if r is not None else ".opaque")
            else:
                prog1.append(".opaque")
            continue
        if isinstance(st, ast.Return):
            v = st.value
            if (isinstance(v, ast.Attribute) and v.attr == "T" and isinstance(v.value, ast.Call) and ast.unparse(v.value.func) == "np.stack"
                    and len(v.value.args) == 1 and isinstance(v.value.args[0], ast.Tuple)):
                stack = [ast.unparse(e) for e in v.value.args[0].elts]
            continue
        r = _sel_stmt(st)
        if r is not None:
            prog2.append(r)
            prog1.append(r)
        elif any(isinstance(n, (ast.If, ast.For, ast.While, ast.Try)) for n in ast.walk(st)):
            prog2.append(".opaque")   # control flow the extractor does not know
            prog1.append(".opaque")
    return prog2, prog1, stack, pi_ok


def resolve_rule(fname: str):
    """the ellipsoid resolution of a public wrapper (`trs2llh` / `llh2trs`) as an order of preference, and whether the
    resolved name is what the kernel call receives.  Understood:
      `if ellipsoid is None: ellipsoid = X.ellipsoid if hasattr(X, "ellipsoid") else GRS80`   → explicit, carried, default
      `ellipsoid = getattr(X, "ellipsoid", ellipsoid) or GRS80`                                  → carried, explicit, default
      `ellipsoid = ellipsoid or getattr(X, "ellipsoid", GRS80)` / `… or GRS80`                   → explicit, carried, default
    anything else that stores into `ellipsoid` → [] (not understood)"""
    tree = ast.parse((util.REPO / TRANSFORMATION_PY).read_text())
    fn = next((n for n in tree.body if isinstance(n, ast.FunctionDef) and n.name == fname), None)
    if fn is None or len(fn.args.args) != 2 or fn.args.args[1].arg != "ellipsoid":
        return [], False
    x = fn.args.args[0].arg
    default_none = len(fn.args.defaults) == 1 and isinstance(fn.args.defaults[0], ast.Constant) and fn.args.defaults[0].value is None
    stores = [st for st in fn.body if any(isinstance(n, ast.Name) and n.id == "ellipsoid" and isinstance(n.ctx, ast.Store) for n in ast.walk(st))]
    order = []
    if default_none and len(stores) == 1:
        src = ast.unparse(stores[0])
        carried = f"{x}.ellipsoid if hasattr({x}, 'ellipsoid') else GRS80"
        if src == f"if ellipsoid is None:\n    ellipsoid = {carried}":
            order = [".explicitArg", ".carried", ".default"]
        elif src == f"ellipsoid = getattr({x}, 'ellipsoid', ellipsoid) or GRS80":
            order = [".carried", ".explicitArg", ".default"]
        elif src in (f"ellipsoid = ellipsoid or getattr({x}, 'ellipsoid', GRS80)", f"ellipsoid = ellipsoid or getattr({x}, 'ellipsoid', None) or GRS80"):
            order = [".explicitArg", ".carried", ".default"]
    # the kernel call: `return _<fname>(<x>, ellipsoid).copy()` (or without `.copy()`)
    kernel = False
    for st in fn.body:
        if isinstance(st, ast.Return):
            kernel = ast.unparse(st.value) in (f"_{fname}({x}, ellipsoid).copy()", f"_{fname}({x}, ellipsoid)")
    return order, kernel


def cache_invalidation():
    """`PosBase.__setattr__` / `__setitem__`: does *every* attribute assignment (so also `pos.ellipsoid = E`) and every item
    assignment drop the cached conversions before anything else happens?  True only for the shapes
    `def __setattr__(self, key, value): self.clear_cache(); …` (first statement, unconditional) and
    `def __setitem__(self, key, item): self._clear_dependent_caches(); …` / `self.clear_cache(); …`"""
    tree = ast.parse((util.REPO / POSITION_PY).read_text())
    cl = _classes(tree)
    node = cl.get("PosBase")
    res = {"__setattr__": False, "__setitem__": False}
    overridden = []
    for cname, c in cl.items():
        for fn in c.body:
            if isinstance(fn, ast.FunctionDef) and fn.name in res:
                if cname != "PosBase":
                    overridden.append((cname, fn.name))
                    continue
                body = [st for st in fn.body if not (isinstance(st, ast.Expr) and isinstance(st.value, ast.Constant))]
                if body and isinstance(body[0], ast.Expr) and isinstance(body[0].value, ast.Call):
                    src = ast.unparse(body[0].value)
                    if fn.name == "__setattr__":
                        res[fn.name] = src == "self.clear_cache()"
                    else:
                        res[fn.name] = src in ("self._clear_dependent_caches()", "self.clear_cache()")
    # `_clear_dependent_caches` clears the object's own cache
    own = False
    for fn in (node.body if node else []):
        if isinstance(fn, ast.FunctionDef) and fn.name == "_clear_dependent_caches":
            own = any(isinstance(n, ast.Call) and ast.unparse(n) == "self.clear_cache()" for n in ast.walk(fn))
    return res["__setattr__"], res["__setitem__"] and own, not overridden


def delta_empty_from():
    """`PositionDeltaArray.empty_from` (inherited by PosVelDeltaArray): the `ellipsoid=` of the NaN reference position"""
    tree = ast.parse((util.REPO / POSITION_PY).read_text())
    cl = _classes(tree)
    rows = []
    for cname in ("PositionDeltaArray", "PosVelDeltaArray"):
        node = cl.get(cname)
        for fn in (node.body if node else []):
            if isinstance(fn, ast.FunctionDef) and fn.name == "empty_from":
                what = "bad"
                for c in ast.walk(fn):
                    if isinstance(c, ast.Call):
                        kws = {k.arg: k.value for k in c.keywords if k.arg}
                        if "ellipsoid" in kws and "ref_pos" not in kws:
                            what = "keep" if ast.unparse(kws["ellipsoid"]) == "other.ref_pos.ellipsoid" else "bad"
                        elif "ellipsoid" in kws:
                            what = "bad"
                            break
                rows.append((CLASSES[cname], what))
    return rows


def render() -> str:
    src = (util.REPO / POSITION_PY).read_text()
    rows, inplace = branches(src)
    facs = factories(src)
    out = [
        "/- GENERATED by translator/extract_c05.py (ast over midgard/data/_position.py) — do not edit. -/",
        "import Midgard.Model.EllArith",
        "namespace Midgard.Generated.EllipsoidArith",
        "open Midgard.Geo",
        "",
        "/-- every `return` of the binary operators of the four position classes, in source order:",
        "class, method, the `isinstance(other, …)` test it stands under, whether `self.system != other.system → NotImplemented`",
        "precedes it, what is returned -/",
        "def branches : List Branch := [",
        ",\n".join(f"  ⟨{c}, {m}, {t}, {g}, {r}⟩" for c, m, t, g, r in rows),
        "]",
        "",
        "/-- `from_position` / `from_position_delta`: what the constructor call inside hands on -/",
        "def factories : List FactorySite := [",
        ",\n".join(f"  ⟨{c}, {f}, {w}⟩" for c, f, w in facs),
        "]",
        "",
        "/-- `__iadd__` / `__isub__` are defined once (PosBase) and delegate to `__add__` / `__sub__` -/",
        "def inplaceDelegates : Bool := " + ("true" if inplace and all(ok for *_, ok in inplace) and
                                               sorted((c, m) for c, m, _ in inplace) == [("PosBase", "__iadd__"), ("PosBase", "__isub__")] else "false"),
        "",
        "/-- constructor calls of position objects outside `_position.py` (fieldtypes, dataset, math): module, function, and",
        "whether `ellipsoid=<source>.ellipsoid` is forwarded (`fresh`: built from raw numbers, no source position) -/",
        "def externalSites : List (String × String × ExtFwd) := [",
        ",\n".join(f"  ({util.lean_str(m)}, {util.lean_str(f)}, .{w})" for m, f, w in external_sites()),
        "]",
        "",
        "/-- `empty_from` of the difference classes: the `ellipsoid=` of the NaN reference position (`keep` = `other.ref_pos.ellipsoid`) -/",
        "def deltaEmptyFrom : List (ACls × ExtFwd) := [" + ", ".join(f"({c}, .{w})" for c, w in delta_empty_from()) + "]",
        "",
        "/-- `PosBase.__setattr__` drops the cached conversions on every attribute assignment (first statement, unconditional);",
        "`__setitem__` on every item assignment; no subclass overrides either -/",
        "def setattrClearsCache : Bool := " + ("true" if cache_invalidation()[0] and cache_invalidation()[2] else "false"),
        "def setitemClearsCache : Bool := " + ("true" if cache_invalidation()[1] and cache_invalidation()[2] else "false"),
        "",
        "end Midgard.Generated.EllipsoidArith",
        "",
    ]
    return "\n".join(out)


def render_select() -> str:
    prog2, prog1, stack, pi_ok = selection_programs()
    out = [
        "/- GENERATED by translator/extract_c05.py (ast over midgard/math/transformation.py `_trs2llh`) — do not edit. -/",
        "import Midgard.Model.GeoSelect",
        "namespace Midgard.Generated.TrsSelect",
        "open Midgard.Geo",
        "",
        "/-- the statements of `_trs2llh` that store into `lat` / `height`, in execution order, for `trs.ndim == 2` -/",
        "def prog2d : List SelStmt := [" + ", ".join(prog2) + "]",
        "",
        "/-- … and for a single position (`trs.ndim == 1`) -/",
        "def prog1d : List SelStmt := [" + ", ".join(prog1) + "]",
        "",
        "/-- the columns of the result, `np.stack((…)).T` -/",
        "def stackOrder : List String := [" + ", ".join(util.lean_str(x) for x in stack) + "]",
        "",
        "/-- `pi` is `np.pi` (broadcast over the rows when `trs.ndim == 2`) -/",
        "def piIsPi : Bool := " + ("true" if pi_ok else "false"),
        "",
        "/-- the ellipsoid resolution of the public wrappers, as an order of preference, and: the kernel receives the resolved one -/",
        "def resolveTrs2llh : List ResSrc := [" + ", ".join(resolve_rule("trs2llh")[0]) + "]",
        "def resolveLlh2trs : List ResSrc := [" + ", ".join(resolve_rule("llh2trs")[0]) + "]",
        "def kernelGetsResolved : Bool := " + ("true" if resolve_rule("trs2llh")[1] and resolve_rule("llh2trs")[1] else "false"),
        "",
        "end Midgard.Generated.TrsSelect",
        "",
    ]
    return "\n".join(out)


def write_all() -> dict:
    return {"EllipsoidArith.lean": util.write_if_changed("EllipsoidArith.lean", render()),
            "TrsSelect.lean": util.write_if_changed("TrsSelect.lean", render_select())}


if __name__ == "__main__":
    print(render())
