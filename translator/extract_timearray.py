"""C04: mechanism facts of TimeBase.__getitem__ / __array_finalize__ read off the AST of
midgard/data/_time.py → Generated/TimeArrayMech.lean

clearsSideChannel  : __getitem__ resets both _jd1_sliced and _jd2_sliced to None in a `finally`
                     that encloses every return (so the side channel never outlives the call)
finalizeReadsSliced: __array_finalize__ still reads _jd1_sliced/_jd2_sliced from the parent
tupleIndexHandled  : __getitem__ derives the jd index for tuple indices (no isinstance-tuple bypass)
hashReads          : every attribute of `self` that __hash__ reads (self.X, getattr(self, "X"), self.__dict__ counts as "__dict__")
hashPure           : __hash__ is an expression of those attributes only (names used: self, hash, str, AttributeError; no
                     assignment, no attribute store, no call of anything but hash/str/.tobytes)
eqCompares         : what __eq__ demands to be equal for True: "__class__" when the guard is exactly
                     isinstance(other, self.__class__), and every X of a conjunct np.all(self.X == other.X) of the value returned
eqShapeGuard       : every X of a guard `if np.shape(self.X) != np.shape(other.X): return False`
                     (a source that is not of this form gives empty lists, and the theorems that need them no longer check)
"""
import ast
from .util import REPO, write_if_changed


def _is_set_none(stmt, name):
    # super().__setattr__("<name>", None)
    if not isinstance(stmt, ast.Expr) or not isinstance(stmt.value, ast.Call):
        return False
    c = stmt.value
    if not (isinstance(c.func, ast.Attribute) and c.func.attr == "__setattr__"):
        return False
    if len(c.args) != 2:
        return False
    a0, a1 = c.args
    return isinstance(a0, ast.Constant) and a0.value == name and isinstance(a1, ast.Constant) and a1.value is None


def extract():
    src = (REPO / "midgard" / "data" / "_time.py").read_text()
    tree = ast.parse(src)
    cls = next(n for n in tree.body if isinstance(n, ast.ClassDef) and n.name == "TimeBase")
    fns = {n.name: n for n in cls.body if isinstance(n, ast.FunctionDef)}
    gi = fns.get("__getitem__")
    clears = False
    tuple_ok = False
    if gi is not None:
        # every Return must be inside a Try whose finalbody clears both names
        good_try = [t for t in ast.walk(gi) if isinstance(t, ast.Try)
                    and any(_is_set_none(s, "_jd1_sliced") for s in t.finalbody)
                    and any(_is_set_none(s, "_jd2_sliced") for s in t.finalbody)]
        inside = set()
        for t in good_try:
            for s in t.body:
                for n in ast.walk(s):
                    if isinstance(n, ast.Return):
                        inside.add(id(n))
        rets = [n for n in ast.walk(gi) if isinstance(n, ast.Return)]
        clears = bool(rets) and all(id(r) in inside for r in rets)
        # the stores of the sliced parts must not be guarded by `if not isinstance(item, tuple)`
        guarded = False
        for n in ast.walk(gi):
            if isinstance(n, ast.If):
                t = ast.unparse(n.test)
                if "isinstance(item, tuple)" in t and t.strip().startswith("not"):
                    if any("_jd1_sliced" in ast.unparse(b) for b in n.body):
                        guarded = True
        tuple_ok = not guarded and "_jd1_sliced" in ast.unparse(gi)
    fin = fns.get("__array_finalize__")
    reads = fin is not None and "_jd1_sliced" in ast.unparse(fin) and "_jd2_sliced" in ast.unparse(fin)
    return clears, reads, tuple_ok


def _self_attr(n, who="self"):
    return n.attr if isinstance(n, ast.Attribute) and isinstance(n.value, ast.Name) and n.value.id == who else None


def extract_hash_eq():
    src = (REPO / "midgard" / "data" / "_time.py").read_text()
    tree = ast.parse(src)
    cls = next(n for n in tree.body if isinstance(n, ast.ClassDef) and n.name == "TimeBase")
    fns = {n.name: n for n in cls.body if isinstance(n, ast.FunctionDef)}
    hash_reads, hash_pure = [], False
    h = fns.get("__hash__")
    if h is not None:
        reads = set()
        pure = not h.decorator_list and [a.arg for a in h.args.args] == ["self"]
        for n in ast.walk(h):
            a = _self_attr(n)
            if a is not None:
                reads.add(a)
                if not isinstance(n.ctx, ast.Load):
                    pure = False
            if isinstance(n, ast.Call):
                f = n.func
                if isinstance(f, ast.Name) and f.id in ("getattr", "hasattr") and n.args and isinstance(n.args[0], ast.Name) \
                        and n.args[0].id == "self" and len(n.args) > 1 and isinstance(n.args[1], ast.Constant):
                    reads.add(str(n.args[1].value))
                ok = (isinstance(f, ast.Name) and f.id in ("hash", "str")) or (isinstance(f, ast.Attribute) and f.attr == "tobytes")
                if not ok:
                    pure = False
            if isinstance(n, ast.Name) and n.id not in ("self", "hash", "str", "AttributeError"):
                pure = False
            if isinstance(n, (ast.Assign, ast.AugAssign, ast.AnnAssign, ast.NamedExpr, ast.Global, ast.Nonlocal, ast.Delete,
                              ast.Lambda, ast.Await, ast.Yield, ast.YieldFrom, ast.Import, ast.ImportFrom, ast.With)):
                pure = False
        hash_reads, hash_pure = sorted(reads), pure and bool(reads)
    eq_compares, eq_shape = [], []
    e = fns.get("__eq__")
    if e is not None and [a.arg for a in e.args.args] == ["self", "other"] and len(e.body) == 1 and isinstance(e.body[0], ast.If):
        top = e.body[0]
        guard_cls = ast.unparse(top.test) == "isinstance(other, self.__class__)"
        else_ok = len(top.orelse) == 1 and ast.unparse(top.orelse[0]) == "return NotImplemented"
        body = list(top.body)
        ok = else_ok and body and isinstance(body[-1], ast.Return)
        shape = []
        for st in body[:-1]:
            m = None
            if isinstance(st, ast.If) and not st.orelse and len(st.body) == 1 and ast.unparse(st.body[0]) == "return False" \
                    and isinstance(st.test, ast.Compare) and len(st.test.ops) == 1 and isinstance(st.test.ops[0], ast.NotEq):
                l, r = st.test.left, st.test.comparators[0]
                if all(isinstance(x, ast.Call) and ast.unparse(x.func) == "np.shape" and len(x.args) == 1 for x in (l, r)):
                    a, b = _self_attr(l.args[0]), _self_attr(r.args[0], "other")
                    if a is not None and a == b:
                        m = a
            if m is None:
                ok = False
            else:
                shape.append(m)
        cmp = []
        if ok:
            v = body[-1].value
            conj = v.values if isinstance(v, ast.BoolOp) and isinstance(v.op, ast.And) else [v]
            for c in conj:
                m = None
                if isinstance(c, ast.Call) and ast.unparse(c.func) == "np.all" and len(c.args) == 1 and isinstance(c.args[0], ast.Compare) \
                        and len(c.args[0].ops) == 1 and isinstance(c.args[0].ops[0], ast.Eq):
                    a, b = _self_attr(c.args[0].left), _self_attr(c.args[0].comparators[0], "other")
                    if a is not None and a == b:
                        m = a
                if m is None:
                    ok = False
                else:
                    cmp.append(m)
        if ok:
            eq_compares = (["__class__"] if guard_cls else []) + cmp
            eq_shape = shape
    return hash_reads, hash_pure, eq_compares, eq_shape


def generate() -> bool:
    clears, reads, tuple_ok = extract()
    hash_reads, hash_pure, eq_compares, eq_shape = extract_hash_eq()
    b = lambda x: "true" if x else "false"
    ls = lambda l: "[" + ", ".join('"' + x.replace('"', "") + '"' for x in l) + "]"
    text = f"""/- GENERATED by translator/extract_timearray.py from /repo — do not edit -/
namespace Midgard.Generated.TimeArrayMech

/-- `TimeBase.__getitem__` clears `_jd1_sliced` and `_jd2_sliced` in a `finally` around every return -/
def clearsSideChannel : Bool := {b(clears)}

/-- `__array_finalize__` reads the side channel from the parent -/
def finalizeReadsSliced : Bool := {b(reads)}

/-- tuple indices set the side channel too (jd index = first entry of the tuple) -/
def tupleIndexHandled : Bool := {b(tuple_ok)}

/-- every attribute of `self` that `TimeBase.__hash__` reads -/
def hashReads : List String := {ls(hash_reads)}

/-- `__hash__` is an expression of those attributes and nothing else (no memo, no other state) -/
def hashPure : Bool := {b(hash_pure)}

/-- what `TimeBase.__eq__` demands to be equal: the class (`isinstance(other, self.__class__)`) and every `X` of a
conjunct `np.all(self.X == other.X)` -/
def eqCompares : List String := {ls(eq_compares)}

/-- every `X` of a guard `if np.shape(self.X) != np.shape(other.X): return False` -/
def eqShapeGuard : List String := {ls(eq_shape)}

end Midgard.Generated.TimeArrayMech
"""
    return write_if_changed("TimeArrayMech.lean", text)


if __name__ == "__main__":
    print(extract(), extract_hash_eq(), "changed" if generate() else "unchanged")
