"""C19 translator: the table-like parts of midgard/config/config.py and midgard/dev/console.py as Lean.

  * ConfigurationEntry._BOOLEAN_STATES (import)
  * Configuration.FILE_WIDTH, default key_width of as_str / entry_as_str (import + inspect)
  * the regular expression of _replace (ast: first argument of re.finditer)
  * the exception classes caught around the own lookup and around the fallback lookup in Configuration.get (ast)
  * the textwrap options entry_as_str passes to console.fill (ast of the fill_args dict)
  * the characters `.list` replaces before splitting (ast of the `list` property)
"""
from __future__ import annotations

import ast
import inspect
import os
from pathlib import Path

OUT = Path(__file__).resolve().parent.parent / "lean" / "Midgard" / "Generated" / "ConfigTables.lean"


def q(s: str) -> str:
    out = []
    for ch in s:
        if ch == "\\":
            out.append("\\\\")
        elif ch == '"':
            out.append('\\"')
        elif ch == "\n":
            out.append("\\n")
        elif ch == "\t":
            out.append("\\t")
        else:
            out.append(ch)
    return '"' + "".join(out) + '"'


def _names(node):
    if node is None:
        return ["<bare>"]
    if isinstance(node, ast.Tuple):
        return [ast.unparse(e).split(".")[-1] for e in node.elts]
    return [ast.unparse(node).split(".")[-1]]


def extract() -> dict:
    from midgard.config import config as C

    src = inspect.getsource(C)
    tree = ast.parse(src)
    t = {}
    t["bool"] = [(k, bool(v)) for k, v in C.ConfigurationEntry._BOOLEAN_STATES.items()]
    t["file_width"] = int(C.Configuration.FILE_WIDTH)
    t["key_width"] = int(inspect.signature(C.Configuration.as_str).parameters["key_width"].default)
    t["entry_key_width"] = int(inspect.signature(C.ConfigurationEntry.entry_as_str).parameters["key_width"].default)
    t["regex"] = "?"
    t["get_outer"], t["get_inner"] = [], []
    t["fill_args"] = []
    t["list_replace"] = []
    for node in ast.walk(tree):
        if isinstance(node, ast.FunctionDef) and node.name == "_replace":
            for c in ast.walk(node):
                if isinstance(c, ast.Call) and ast.unparse(c.func) == "re.finditer" and isinstance(c.args[0], ast.Constant):
                    t["regex"] = c.args[0].value
        if isinstance(node, ast.ClassDef) and node.name == "Configuration":
            for f in node.body:
                if isinstance(f, ast.FunctionDef) and f.name == "get":
                    tries = [n for n in ast.walk(f) if isinstance(n, ast.Try)]
                    if tries:
                        outer = tries[0]
                        t["get_outer"] = sorted(n for h in outer.handlers for n in _names(h.type))
                        inner = [n for h in outer.handlers for n in ast.walk(h) if isinstance(n, ast.Try)]
                        if inner:
                            t["get_inner"] = sorted(n for h in inner[0].handlers for n in _names(h.type))
        if isinstance(node, ast.ClassDef) and node.name == "ConfigurationEntry":
            for f in node.body:
                if isinstance(f, ast.FunctionDef) and f.name == "entry_as_str":
                    for c in ast.walk(f):
                        if isinstance(c, ast.Assign) and ast.unparse(c.targets[0]) == "fill_args" and isinstance(c.value, ast.Call):
                            t["fill_args"] = sorted((k.arg, ast.unparse(k.value)) for k in c.value.keywords)
                if isinstance(f, ast.FunctionDef) and f.name == "list" and any(
                        ast.unparse(d) == "property" for d in f.decorator_list):
                    for c in ast.walk(f):
                        if isinstance(c, ast.Call) and isinstance(c.func, ast.Attribute) and c.func.attr == "replace":
                            t["list_replace"] = [a.value for a in c.args if isinstance(a, ast.Constant)]
    # typed accessors: default patterns and formats, the registered enumerations
    E = C.ConfigurationEntry
    t["fmt_date"], t["fmt_datetime"] = C.FMT_date, C.FMT_datetime
    t["date_default"] = inspect.signature(E.as_date).parameters["format"].default
    t["datetime_default"] = inspect.signature(E.as_datetime).parameters["format"].default
    t["split_defaults"] = [
        ("as_list.split_re", inspect.signature(E.as_list).parameters["split_re"].default),
        ("as_tuple.split_re", inspect.signature(E.as_tuple).parameters["split_re"].default),
        ("as_dict.item_split_re", inspect.signature(E.as_dict).parameters["item_split_re"].default),
        ("as_dict.key_value_split_re", inspect.signature(E.as_dict).parameters["key_value_split_re"].default),
    ]
    t["maxsplit_defaults"] = [(n, int(inspect.signature(getattr(E, n)).parameters["maxsplit"].default))
                              for n in ("as_list", "as_tuple", "as_dict")]
    from midgard.collections import enums

    t["enums"] = [(name, [(k, v.name) for k, v in cls.__members__.items()]) for name, cls in enums._ENUMS.items()]
    return t


def render(t: dict) -> str:
    L = [
        "/- GENERATED by translator/extract_config.py from midgard/config/config.py — do not edit. -/",
        "namespace Midgard.Generated.ConfigTables",
        "",
        "/-- `ConfigurationEntry._BOOLEAN_STATES` in dict order -/",
        "def booleanStates : List (String × Bool) := ["
        + ", ".join(f"({q(k)}, {'true' if v else 'false'})" for k, v in t["bool"]) + "]",
        "",
        f"def fileWidth : Nat := {t['file_width']}",
        f"def keyWidth : Nat := {t['key_width']}",
        f"def entryKeyWidth : Nat := {t['entry_key_width']}",
        "",
        "/-- the pattern `_replace` hands to `re.finditer` -/",
        f"def replaceRegex : String := {q(t['regex'])}",
        "",
        "/-- exception classes caught around the own lookup / around the fallback lookup in `Configuration.get` -/",
        "def getOuterCatches : List String := [" + ", ".join(q(x) for x in t["get_outer"]) + "]",
        "def getInnerCatches : List String := [" + ", ".join(q(x) for x in t["get_inner"]) + "]",
        "",
        "/-- keyword arguments of `console.fill` in `entry_as_str` -/",
        "def fillArgs : List (String × String) := [" + ", ".join(f"({q(a)}, {q(b)})" for a, b in t["fill_args"]) + "]",
        "",
        "/-- arguments of the `str.replace` in the `list` accessor -/",
        "def listReplace : List String := [" + ", ".join(q(x) for x in t["list_replace"]) + "]",
        "",
        "/-- `FMT_date`, `FMT_datetime` and the default `format` of `as_date` / `as_datetime` -/",
        f"def fmtDate : String := {q(t['fmt_date'])}",
        f"def fmtDatetime : String := {q(t['fmt_datetime'])}",
        f"def asDateDefault : String := {q(t['date_default'])}",
        f"def asDatetimeDefault : String := {q(t['datetime_default'])}",
        "",
        "/-- default regular expressions / `maxsplit` of `as_list`, `as_tuple`, `as_dict` -/",
        "def splitDefaults : List (String × String) := [" + ", ".join(f"({q(a)}, {q(b)})" for a, b in t["split_defaults"]) + "]",
        "def maxsplitDefaults : List (String × Nat) := [" + ", ".join(f"({q(a)}, {b})" for a, b in t["maxsplit_defaults"]) + "]",
        "",
        "/-- `midgard.collections.enums._ENUMS`: registered name → `__members__` as (name, name of the member it stands for) -/",
        "def enumTable : List (String × List (String × String)) := [",
        ",\n".join("  (" + q(n) + ", [" + ", ".join(f"({q(a)}, {q(b)})" for a, b in ms) + "])" for n, ms in t["enums"]),
        "]",
        "",
        "end Midgard.Generated.ConfigTables",
        "",
    ]
    return "\n".join(L)


def write() -> bool:
    text = render(extract())
    if OUT.exists() and OUT.read_text() == text:
        return False
    tmp = OUT.with_suffix(".lean.tmp%d" % os.getpid())
    tmp.write_text(text)
    tmp.replace(OUT)
    return True


if __name__ == "__main__":
    import sys

    sys.path.insert(0, os.environ.get("MIDGARD_REPO", "/repo"))
    print("changed" if write() else "unchanged", OUT)
