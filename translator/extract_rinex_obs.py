"""C11: column tables of midgard/parsers/rinex3_obs.py and rinex2_obs.py
-> Generated/Rinex3ObsCols.lean, Generated/Rinex2ObsCols.lean"""
from .extract_parserdefs import emit, walk
from .util import write_if_changed


def main() -> bool:
    from midgard.parsers.rinex2_obs import Rinex2Parser
    from midgard.parsers.rinex3_obs import Rinex3Parser

    a = write_if_changed("Rinex3ObsCols.lean", emit("Rinex3ObsCols", "midgard/parsers/rinex3_obs.py", walk(Rinex3Parser)))
    b = write_if_changed("Rinex2ObsCols.lean", emit("Rinex2ObsCols", "midgard/parsers/rinex2_obs.py", walk(Rinex2Parser)))
    return a or b


if __name__ == "__main__":
    print("changed" if main() else "unchanged")
