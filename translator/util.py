"""helpers shared by the translators (source of /repo → lean/Midgard/Generated/*.lean)"""
import os
from fractions import Fraction
from pathlib import Path

VERIF = Path(__file__).resolve().parent.parent
GEN = VERIF / "lean" / "Midgard" / "Generated"
REPO = Path(os.environ.get("MIDGARD_REPO", "/repo"))


def rat(q) -> str:
    """Lean term of a rational"""
    q = Fraction(q)
    if q.denominator == 1:
        return f"({q.numerator} : Rat)"
    return f"(({q.numerator} : Rat) / {q.denominator})"


def dec(text: str) -> Fraction:
    """exact value of a decimal literal as printed in a source/data file"""
    return Fraction(text.strip())


def lean_str(s: str) -> str:
    out = []
    for ch in s:
        if ch == "\\":
            out.append("\\\\")
        elif ch == '"':
            out.append('\\"')
        elif ch == "\n":
            out.append("\\n")
        elif ch == "\t":
            out.append("\\t")
        elif ord(ch) < 32 or ord(ch) > 126:
            out.append("\\u{%x}" % ord(ch))
        else:
            out.append(ch)
    return '"' + "".join(out) + '"'


def write_if_changed(name: str, text: str) -> bool:
    """atomically (re)write Generated/<name>; returns True if the content changed"""
    GEN.mkdir(parents=True, exist_ok=True)
    p = GEN / name
    if p.exists() and p.read_text() == text:
        return False
    tmp = p.with_suffix(".tmp%d" % os.getpid())
    tmp.write_text(text)
    tmp.replace(p)
    return True
