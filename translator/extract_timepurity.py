"""C03 (`ops_pure`): every in-place operation of midgard/data/_time.py on an object that the function did not create itself,
read off the Python `ast` of the tree under test → lean/Midgard/Generated/TimePurity.lean

For every function / method the scan follows which local names may *alias* a parameter (or something reachable from one):
a parameter itself, `p.attr`, `p[...]` (a view), `np.asarray(p)`, `p.view(..)`, `p.T`, `p.reshape(..)`, `getattr(p, ..)`,
`a if c else p`, `a or p` — anything else (arithmetic, other calls, literals) is a fresh object.  It then lists

* kind `aug`   — `x += …`, `x *= …`, … with x a parameter / alias (on an ndarray this writes into the caller's buffer) or
                 `x[..] += …`, `x.attr += …` below one;
* kind `store` — `x[...] = …` below a parameter / alias;
* kind `out`   — a call with `out=<parameter/alias>`;
* kind `call`  — a mutating method (`sort fill resize put itemset setfield partition byteswap append extend insert pop remove
                 clear update add setdefault`) on a parameter / alias, or `np.copyto / np.put / np.place / np.putmask /
                 np.<ufunc>.at` with one as first argument;
* kind `flags` — `x.flags.writeable = <v>` / `x.setflags(write=<v>)` below a parameter / alias (detail = the value);
* kind `attr`  — `x.name = …` with x a parameter other than `self`/`cls` (or below one);
* kind `return`— a `return` whose value (or one element of a returned tuple) may *be* a parameter other than `self`/`cls` or a
                 view of one, un-copied: the caller's object is handed on under another name.  detail = `to_jds` for the
                 `_to_jds` / `to_jds` methods of the format classes — what they return is stored as the `jd1`/`jd2` of a time
                 object and frozen by `TimeBase.__new__`, so an entry there means: the caller's array comes back read-only and
                 the "immutable" time changes when the caller reuses the array — and `other` elsewhere.

Aliasing is not an in-place write, so the `return` class is an obligation of its own (Props/C03 `no_aliasing_constructor`:
no `return`/`to_jds` entry) and the switch `aliases` of the epoch-constructor heap model (`ctorTimeH`).
Entries whose root parameter is named `memo` (the deepcopy protocol of `subset`, `insert`, `__deepcopy__`) are marked root=memo.
The obligations of Props/C03 over this table: no `aug/store/out/call/attr` entry outside the memo protocol, and every `flags`
entry only *freezes* (`False`).  The heap model of `Model/TimeArrays.lean` takes `writesOperand` from this table.
"""
from __future__ import annotations

import ast
from typing import Dict, List, Optional, Set, Tuple

from .util import REPO, write_if_changed, lean_str

TIME = "midgard/data/_time.py"
VIEW_CALLS = {"np.asarray", "np.asanyarray", "np.atleast_1d", "np.atleast_2d", "np.ravel", "np.squeeze", "np.broadcast_to", "np.transpose",
              "np.reshape", "np.ascontiguousarray", "np.array_split", "np.expand_dims", "getattr", "_read_only"}
VIEW_METHODS = {"view", "reshape", "ravel", "squeeze", "transpose", "swapaxes", "astype_view"}
MUTATING_METHODS = {"sort", "fill", "resize", "put", "itemset", "setfield", "partition", "byteswap", "append", "extend", "insert", "pop",
                    "remove", "clear", "update", "add", "setdefault", "discard", "popitem"}
MUTATING_FUNCS = {"np.copyto", "np.put", "np.place", "np.putmask", "np.put_along_axis", "np.fill_diagonal"}


def dotted(e: ast.AST) -> Optional[str]:
    if isinstance(e, ast.Name):
        return e.id
    if isinstance(e, ast.Attribute):
        b = dotted(e.value)
        return None if b is None else b + "." + e.attr
    return None


def roots(e: ast.AST, alias: Dict[str, Set[str]]) -> Set[str]:
    """the parameters an expression's value may alias (empty: a fresh object)"""
    if isinstance(e, ast.Name):
        return set(alias.get(e.id, ()))
    if isinstance(e, (ast.Attribute, ast.Subscript, ast.Starred)):
        return roots(e.value, alias)
    if isinstance(e, ast.IfExp):
        return roots(e.body, alias) | roots(e.orelse, alias)
    if isinstance(e, ast.BoolOp):
        out: Set[str] = set()
        for v in e.values:
            out |= roots(v, alias)
        return out
    if isinstance(e, ast.NamedExpr):
        return roots(e.value, alias)
    if isinstance(e, ast.Call):
        f = dotted(e.func)
        if f in VIEW_CALLS and e.args:
            return roots(e.args[0], alias)
        if isinstance(e.func, ast.Attribute) and e.func.attr in VIEW_METHODS:
            return roots(e.func.value, alias)
        return set()
    return set()        # literals (a new list / tuple / dict is a fresh container), arithmetic, other calls


def scan_function(qual: str, fn: ast.FunctionDef) -> List[Tuple[str, str, str, str, str]]:
    """[(function, kind, target text, detail, root parameter)]"""
    a = fn.args
    params = [x.arg for x in a.posonlyargs + a.args + a.kwonlyargs] + ([a.vararg.arg] if a.vararg else []) + ([a.kwarg.arg] if a.kwarg else [])
    alias: Dict[str, Set[str]] = {p: {p} for p in params}
    # alias propagation to a fixed point over all assignments of the body (flow-insensitive: sound for "may alias")
    own = [n for n in ast.walk(fn) if not isinstance(n, (ast.FunctionDef, ast.AsyncFunctionDef, ast.Lambda)) or n is fn]
    changed = True
    while changed:
        changed = False
        for n in ast.walk(fn):
            pairs: List[Tuple[ast.AST, ast.AST]] = []
            if isinstance(n, ast.Assign):
                for t in n.targets:
                    if isinstance(t, (ast.Tuple, ast.List)) and isinstance(n.value, (ast.Tuple, ast.List)) and len(t.elts) == len(n.value.elts):
                        pairs += list(zip(t.elts, n.value.elts))
                    elif isinstance(t, (ast.Tuple, ast.List)):
                        pairs += [(x, n.value) for x in t.elts]
                    else:
                        pairs.append((t, n.value))
            elif isinstance(n, ast.AnnAssign) and n.value is not None:
                pairs.append((n.target, n.value))
            elif isinstance(n, (ast.For, ast.comprehension)):
                for x in ast.walk(n.target):
                    if isinstance(x, ast.Name):
                        pairs.append((x, n.iter))
            elif isinstance(n, ast.withitem) and n.optional_vars is not None:
                pairs.append((n.optional_vars, n.context_expr))
            for t, v in pairs:
                if isinstance(t, ast.Name):
                    r = roots(v, alias)
                    if not r <= alias.get(t.id, set()):
                        alias.setdefault(t.id, set()).update(r)
                        changed = True
    out: List[Tuple[str, str, str, str, str]] = []

    def rep(kind: str, target: ast.AST, detail: str, rs: Set[str]):
        for r in sorted(rs):
            out.append((qual, kind, ast.unparse(target), detail, r))

    for n in ast.walk(fn):
        if isinstance(n, ast.AugAssign):
            rs = roots(n.target, alias)
            if rs:
                rep("aug", n.target, type(n.op).__name__, rs)
        elif isinstance(n, (ast.Assign, ast.AnnAssign)):
            targets = n.targets if isinstance(n, ast.Assign) else [n.target]
            flat: List[ast.AST] = []
            for t in targets:
                flat += list(t.elts) if isinstance(t, (ast.Tuple, ast.List)) else [t]
            for t in flat:
                if isinstance(t, ast.Subscript):
                    rs = roots(t.value, alias)
                    if rs:
                        rep("store", t, "", rs)
                elif isinstance(t, ast.Attribute):
                    rs = roots(t.value, alias)
                    if not rs:
                        continue
                    if t.attr == "writeable" and isinstance(t.value, ast.Attribute) and t.value.attr == "flags":
                        rep("flags", t, ast.unparse(n.value) if n.value is not None else "", rs)
                    elif rs - {"self", "cls"} or not isinstance(t.value, ast.Name):
                        rep("attr", t, "", rs)
                    else:
                        rep("selfattr", t, "", rs)
        elif isinstance(n, ast.Return) and n.value is not None:
            elts = list(n.value.elts) if isinstance(n.value, (ast.Tuple, ast.List)) else [n.value]
            where = "to_jds" if fn.name in ("_to_jds", "to_jds") else "other"
            for e in elts:
                rs = roots(e, alias) - {"self", "cls"}
                if rs:
                    rep("return", e, where, rs)
        elif isinstance(n, ast.Delete):
            for t in n.targets:
                if isinstance(t, (ast.Subscript, ast.Attribute)):
                    rs = roots(t.value, alias)
                    if rs:
                        rep("store", t, "del", rs)
        elif isinstance(n, ast.Call):
            for k in n.keywords:
                if k.arg == "out":
                    rs = roots(k.value, alias)
                    if rs:
                        rep("out", k.value, dotted(n.func) or ast.unparse(n.func), rs)
            f = dotted(n.func)
            if isinstance(n.func, ast.Attribute):
                recv = n.func.value
                if n.func.attr == "setflags":
                    rs = roots(recv, alias)
                    if rs:
                        w = next((ast.unparse(k.value) for k in n.keywords if k.arg == "write"), ast.unparse(n.args[0]) if n.args else "")
                        rep("flags", recv, w, rs)
                elif n.func.attr in MUTATING_METHODS and not (
                        n.func.attr == "partition" and n.args and isinstance(n.args[0], ast.Constant) and isinstance(n.args[0].value, str)):
                    # (`s.partition("sep")` with a string separator is str.partition, which returns new strings)
                    rs = roots(recv, alias)
                    if rs:
                        rep("call", n.func, "", rs)
                elif n.func.attr == "at" and f and f.startswith("np.") and n.args:
                    rs = roots(n.args[0], alias)
                    if rs:
                        rep("call", n.func, "", rs)
            if f in MUTATING_FUNCS and n.args:
                rs = roots(n.args[0], alias)
                if rs:
                    rep("call", n.func, "", rs)
    return out


def scan() -> List[Tuple[str, str, str, str, str]]:
    import warnings

    with warnings.catch_warnings():
        warnings.simplefilter("ignore")
        tree = ast.parse((REPO / TIME).read_text())
    out: List[Tuple[str, str, str, str, str]] = []

    def visit(node: ast.AST, prefix: str):
        for ch in getattr(node, "body", []):
            if isinstance(ch, ast.ClassDef):
                visit(ch, prefix + ch.name + ".")
            elif isinstance(ch, (ast.FunctionDef, ast.AsyncFunctionDef)):
                out.extend(scan_function(prefix + ch.name, ch))

    visit(tree, "")
    seen, uniq = set(), []
    for e in out:
        if e not in seen:
            seen.add(e)
            uniq.append(e)
    return uniq


OPERATOR_NAMES = ("__add__", "__sub__", "__radd__", "__rsub__", "__iadd__", "__isub__", "__neg__", "__pos__", "__mul__", "__rmul__",
                  "__truediv__", "__rtruediv__", "__array_ufunc__", "__array_priority__")


def operator_table() -> List[Tuple[str, str, str]]:
    """(class, operator method, what its body is) for every arithmetic special method defined in a class of _time.py:
    `refuses` = the body (after the docstring) is the single statement `return NotImplemented`, `computes` = anything else"""
    import warnings

    with warnings.catch_warnings():
        warnings.simplefilter("ignore")
        tree = ast.parse((REPO / TIME).read_text())
    out = []
    for node in ast.walk(tree):
        if not isinstance(node, ast.ClassDef):
            continue
        for ch in node.body:
            name = None
            if isinstance(ch, (ast.FunctionDef, ast.AsyncFunctionDef)) and ch.name in OPERATOR_NAMES:
                body = list(ch.body)
                if body and isinstance(body[0], ast.Expr) and isinstance(body[0].value, ast.Constant) and isinstance(body[0].value.value, str):
                    body = body[1:]
                refuses = len(body) == 1 and isinstance(body[0], ast.Return) and isinstance(body[0].value, ast.Name) \
                    and body[0].value.id == "NotImplemented"
                out.append((node.name, ch.name, "refuses" if refuses else "computes"))
            elif isinstance(ch, ast.Assign):
                for t in ch.targets:
                    if isinstance(t, ast.Name) and t.id in OPERATOR_NAMES:
                        out.append((node.name, t.id, "assigned " + ast.unparse(ch.value)))
    return out


HEADER = '''/- GENERATED by translator/extract_timepurity.py from the Python `ast` of the tree under test — do not edit.
Every in-place operation of midgard/data/_time.py on an object the function did not create itself (see the translator). -/

namespace Midgard.Generated.TimePurity

/-- one in-place operation: function, kind (aug | store | out | call | flags | attr | selfattr | return), target text, detail, the
parameter it may alias -/
structure InPlace where
  fn : String
  kind : String
  target : String
  detail : String
  root : String
  deriving Repr, DecidableEq
'''


def generate() -> Tuple[bool, dict]:
    try:
        entries = scan()
        err = None
    except (OSError, SyntaxError) as ex:
        entries, err = [], str(ex)
    lines = [HEADER]
    if err is not None:
        lines.append(f"-- NOT TRANSLATED: {err[:300]}")
    else:
        lines.append("def inplace : List InPlace := [")
        lines.append(",\n".join("  ⟨" + ", ".join(lean_str(x) for x in e) + "⟩" for e in entries))
        lines.append("]")
    try:
        ops = operator_table()
        lines.append("\n/-- every arithmetic special method defined in a class of `_time.py`: (class, method, refuses | computes | assigned …) -/")
        lines.append("def operators : List (String × String × String) := [")
        lines.append(",\n".join("  (" + ", ".join(lean_str(x) for x in o) + ")" for o in ops))
        lines.append("]")
    except (OSError, SyntaxError) as ex:
        lines.append(f"-- NOT TRANSLATED (operators): {str(ex)[:300]}")
    lines.append("\nend Midgard.Generated.TimePurity\n")
    return write_if_changed("TimePurity.lean", "\n".join(lines)), {"entries": len(entries), "error": err}


if __name__ == "__main__":
    print(generate())
    for e in scan():
        print(e)
