"""C20: tables of the numeric helpers → Generated/C20Tables.lean

* the length / time / angle units the library uses (every `Unit.<a>2<b>`, `Unit("a", "b")`,
  `unit=`/`Unit.register` string found in midgard/**/*.py, plus the SI core list below), each with
  its **exact** factor to the pint root unit (meter, second, radian) as `q · π^k`, k ∈ {0, 1}.
  The factor is computed symbolically from the *text* of the definition files pint loads
  (pint/default_en.txt, pint/constants_en.txt, midgard/math/unit.txt): decimal literals are read
  as exact decimals, `π` stays a symbol.  pint itself only keeps doubles; its double is compared
  with `float(q)·math.pi**k` (returned as `checks` for the harness).
  Trusted: pint's name resolution (prefix / alias / plural → canonical name) and this reader's
  understanding of the `name = expression = aliases` grammar for the handful of definitions used.
* the rotation poles of every plate of every plate-motion model (decimal value of the stored double,
  shortest round-trip form) with the exact factor from the pole's unit to radian per year
* the plate table printed in the comment block above `nnr_morvel56` (lat, lon, rate) — the
  documentation the stored cartesian values were derived from
* the interpolator registry
"""
from __future__ import annotations

import ast
import math
import re
from fractions import Fraction
from pathlib import Path

from .util import REPO, lean_str, rat, write_if_changed

ROOTS = {"meter": 0, "second": 1, "radian": 2}
DIMNAME = {0: "length", 1: "time", 2: "angle"}

# units every check run includes whether or not the source mentions them today (SI core + the
# angle/time units of the property's quantifier); the source scan adds the rest
ALWAYS = ["meter", "m", "km", "kilometer", "millimeter", "mm", "centimeter", "decimeter", "micrometer",
          "Megameter", "Mm", "inch", "foot", "mile", "nautical_mile", "angstrom",
          "second", "s", "sec", "secs", "seconds", "millisecond", "microsecond", "nanosecond", "picosecond",
          "minute", "minutes", "hour", "hours", "day", "days", "week", "julian_year", "year", "century",
          "radian", "rad", "degree", "deg", "degrees", "radians", "arcminute", "arcsecond", "arcsec",
          "milliarcsecond", "milliarcsec", "mas", "turn"]


# --------------------------------------------------------------------------------------------
# symbolic reading of pint definition text


class Sym:
    """coeff · π^pik · Π root^exp"""

    __slots__ = ("c", "k", "u")

    def __init__(self, c=Fraction(1), k=0, u=None):
        self.c, self.k, self.u = Fraction(c), k, dict(u or {})

    def mul(self, o, sign=1):
        u = dict(self.u)
        for n, e in o.u.items():
            u[n] = u.get(n, 0) + sign * e
            if u[n] == 0:
                del u[n]
        if sign == 1:
            return Sym(self.c * o.c, self.k + o.k, u)
        return Sym(self.c / o.c, self.k - o.k, u)

    def pow(self, n: int):
        return Sym(self.c ** n, self.k * n, {a: e * n for a, e in self.u.items()})


NUM = re.compile(r"(?<![A-Za-z_])(\d+\.?\d*(?:[eE][+-]?\d+)?|\.\d+(?:[eE][+-]?\d+)?)")


class Defs:
    def __init__(self, ureg, files):
        self.ureg = ureg
        self.units = {}     # canonical name -> expression text
        self.prefixes = {}  # prefix name -> expression text
        self.base = set()
        for f in files:
            self._load(Path(f))
        self.cache = {}

    def _load(self, path: Path):
        for raw in path.read_text(encoding="utf-8").splitlines():
            line = raw.split("#")[0].strip()
            if not line or line.startswith("@") or "=" not in line:
                continue
            parts = [p.strip() for p in line.split("=")]
            name, expr = parts[0], parts[1]
            if name.endswith("-"):
                self.prefixes[name[:-1]] = expr
                continue
            if name.startswith("["):
                continue
            if expr.startswith("["):       # base unit:  meter = [length] = m ;  radian = [] = rad
                self.base.add(name)
                self.units[name] = None
            else:
                self.units[name] = expr
            # constants are written  `pi = 3.14… = π`: remember symbols/aliases as names too
            for alias in parts[2:]:
                if alias and alias != "_" and alias not in self.units:
                    self.units[alias] = ("alias", name)

    def name(self, token: str) -> Sym:
        """a unit name as written by a user (prefix/alias/plural allowed) → exact Sym"""
        if token in ("pi", "π"):
            return Sym(1, 1)
        if token in self.cache:
            return self.cache[token]
        cands = self.ureg.parse_unit_name(token)
        if not cands:
            raise KeyError(token)
        prefix, uname, _suffix = cands[0]
        s = self.canonical(uname)
        if prefix:
            s = s.mul(self.expr(self.prefixes[prefix]))
        self.cache[token] = s
        return s

    def canonical(self, uname: str) -> Sym:
        d = self.units.get(uname, KeyError)
        if d is KeyError:
            raise KeyError(uname)
        if d is None:
            return Sym(1, 0, {uname: 1})
        if isinstance(d, tuple):
            return self.canonical(d[1])
        return self.expr(d)

    def expr(self, text: str) -> Sym:
        src = NUM.sub(lambda m: f"N('{m.group(1)}')", text.replace("π", "pi").replace("^", "**"))
        # pint allows "a per b" and implicit products with blanks; the definitions we read use * and /
        src = re.sub(r"\bper\b", "/", src)
        return self._ev(ast.parse(src, mode="eval").body)

    def _ev(self, n) -> Sym:
        if isinstance(n, ast.BinOp):
            if isinstance(n.op, ast.Mult):
                return self._ev(n.left).mul(self._ev(n.right))
            if isinstance(n.op, ast.Div):
                return self._ev(n.left).mul(self._ev(n.right), -1)
            if isinstance(n.op, ast.Pow):
                e = self._ev(n.right)
                if e.u or e.k or e.c.denominator != 1:
                    raise ValueError("non-integer power")
                return self._ev(n.left).pow(int(e.c))
        if isinstance(n, ast.UnaryOp) and isinstance(n.op, ast.USub):
            s = self._ev(n.operand)
            return Sym(-s.c, s.k, s.u)
        if isinstance(n, ast.Call) and getattr(n.func, "id", "") == "N":
            return Sym(Fraction(n.args[0].value))
        if isinstance(n, ast.Name):
            return self.name(n.id)
        raise ValueError("unsupported definition syntax: " + ast.dump(n))


# --------------------------------------------------------------------------------------------
# which units does the library use


def scan_tokens(repo: Path):
    toks = []
    pat_attr = re.compile(r"\bUnit\.([A-Za-z_]+?)2([A-Za-z_]+)\b")
    pat_cls = re.compile(r"\bcls\.([A-Za-z_]+?)2([A-Za-z_]+)\b")
    pat_call = re.compile(r"\bUnit\(\s*[\"']([^\"']+)[\"']\s*(?:,\s*[\"']([^\"']+)[\"'])?\s*\)")
    pat_to = re.compile(r"\.to\(\s*[\"']([^\"']+)[\"']\s*\)")
    pat_unit = re.compile(r"\bunit\s*=\s*\(?\s*((?:[\"'][^\"']*[\"']\s*,?\s*)+)\)?")
    pat_reg = re.compile(r"Unit\.register\(\s*\(?\s*((?:[\"'][^\"']*[\"']\s*,?\s*)+)")
    for f in sorted((repo / "midgard").rglob("*.py")):
        try:
            text = f.read_text(encoding="utf-8")
        except Exception:
            continue
        for m in pat_attr.finditer(text):
            toks += [m.group(1), m.group(2)]
        if f.name == "unit.py":
            for m in pat_cls.finditer(text):
                toks += [m.group(1), m.group(2)]
        for m in pat_call.finditer(text):
            toks += re.findall(r"[A-Za-z_]+", m.group(1)) + re.findall(r"[A-Za-z_]+", m.group(2) or "")
        for m in pat_to.finditer(text):
            toks += re.findall(r"[A-Za-z_]+", m.group(1))
        for pat in (pat_unit, pat_reg):
            for m in pat.finditer(text):
                for s in re.findall(r"[\"']([^\"']*)[\"']", m.group(1)):
                    toks += re.findall(r"[A-Za-z_]+", s)
    seen, out = set(), []
    for t in toks:
        if t not in seen and t not in ("per", "_to_"):
            seen.add(t)
            out.append(t)
    return out


def extract():
    import pint

    from midgard.math.unit import Unit
    from midgard.collections import plate_motion_models as pmm
    from midgard.math import interpolation

    ureg = Unit._ureg
    pdir = Path(pint.__file__).parent
    defs = Defs(ureg, [pdir / "constants_en.txt", pdir / "default_en.txt", REPO / "midgard" / "math" / "unit.txt"])

    names, seen = [], set()
    for tok in ALWAYS + scan_tokens(REPO):
        if tok in seen or "2" in tok:
            continue
        seen.add(tok)
        try:
            fac, root = ureg.get_root_units(tok)
        except Exception:
            continue
        root = dict(root._units)
        if len(root) != 1:
            continue
        (rname, rexp), = root.items()
        if rname not in ROOTS or rexp != 1:
            continue
        names.append((tok, ROOTS[rname], float(fac), rname))

    units, checks, problems = [], [], []
    for tok, dim, fac, rname in names:
        try:
            s = defs.name(tok)
        except Exception as e:  # definition text this reader does not understand
            problems.append(f"{tok}: cannot read definition exactly ({type(e).__name__}: {e})")
            continue
        want = {} if rname == "radian" else {rname: 1}
        got = {k: v for k, v in s.u.items() if k != "radian"} if rname == "radian" else s.u
        if got != want or s.k not in (0, 1) or s.c <= 0:
            problems.append(f"{tok}: exact reading has units {s.u} / π^{s.k}, registry says {rname}")
            continue
        units.append((tok, dim, s.c, s.k))
        checks.append((tok, fac, float(s.c) * math.pi ** s.k))

    # ---- plate poles
    poles = []
    for mname, model in pmm._PLATE_MOTION_MODELS.items():
        for plate, pole in model.poles.items():
            try:
                src = defs.expr(pole.unit)
                dst = defs.expr("radian per year")
                f = src.mul(dst, -1)
                ok = not {k: v for k, v in f.u.items() if k != "radian"} and f.k in (0, 1)
            except Exception:
                ok = False
            if not ok:
                problems.append(f"pole {mname}/{plate}: unit {pole.unit!r} not readable as an angular rate")
                continue
            poles.append((mname, plate, [Fraction(repr(float(getattr(pole, a)))) for a in ("wx", "wy", "wz")], f.c, f.k))

    # ---- documentation table above nnr_morvel56 (lat lon rate per plate), as decimals
    doc = []
    text = (REPO / "midgard" / "collections" / "plate_motion_models.py").read_text(encoding="utf-8")
    for m in re.finditer(r"^#\s+(.+?)\s{2,}([a-z]{2})\s+([−\-]?\d+\.\d+)\s+([−\-]?\d+\.\d+)\s+(\d+\.\d+)\s+±", text, re.M):
        full, ab, lat, lon, w = m.groups()
        doc.append((full.strip(), ab, Fraction(lat.replace("−", "-")), Fraction(lon.replace("−", "-")), Fraction(w)))

    interps = interpolation.interpolators()
    return units, checks, poles, doc, interps, problems


DOP_GUARD_DOCUMENTED = "not np.isfinite(np.linalg.cond(Q))"


def dop_guard():
    """the test with which compute_dops refuses a geometry (`if <test>: ... return None, None, None, None, None`), read
    from the source: (normalised source text, condition-number limit or None, problems).  Recognised forms:
    `not np.isfinite(np.linalg.cond(Q))` - no finite limit, only a design of infinite condition number is refused - and
    `np.linalg.cond(Q) > <number>` - that limit."""
    import ast

    src = (REPO / "midgard" / "gnss" / "compute_dops.py").read_text(encoding="utf-8")
    tests = []
    for node in ast.walk(ast.parse(src)):
        if isinstance(node, ast.If):
            for st in node.body:
                if isinstance(st, ast.Return) and isinstance(st.value, ast.Tuple) and st.value.elts and \
                        all(isinstance(e, ast.Constant) and e.value is None for e in st.value.elts):
                    tests.append(node.test)
    if len(tests) != 1:
        return "<%d tests>" % len(tests), None, [f"compute_dops: {len(tests)} guards returning None found, expected one"]
    text = ast.unparse(tests[0])
    if text == DOP_GUARD_DOCUMENTED:
        return text, None, []
    m = re.fullmatch(r"np\.linalg\.cond\(Q\) > ([0-9.eE+]+)", text)
    if m:
        return text, Fraction(m.group(1)), []
    return text, None, [f"compute_dops: the singularity test `{text}` is not a test of the condition number of Q"]


def sun_constants():
    """the constants of the two angles of planetary_motion.gsdtime_sun that are rational in the date, as the exact decimals
    written in the source: (epoch offset of jd, vl0, vl rate, gstr0, gstr rate), problems"""
    src = (REPO / "midgard" / "math" / "planetary_motion.py").read_text(encoding="utf-8")
    num = r"([0-9][0-9_]*\.?[0-9_]*)"
    m0 = re.search(r"jd = time\.mjd_int - " + num, src)
    m1 = re.search(r"vl = np\.mod\(" + num + r" \+ " + num + r" \* jd, 360\)", src)
    m2 = re.search(r"gstr = np\.mod\(" + num + r" \+ " + num + r" \* jd \+ 360 \* frac \+ 180, 360\)", src)
    m3 = re.search(r"frac = time\.jd_frac\b", src)
    if not (m0 and m1 and m2 and m3):
        return None, ["planetary_motion.gsdtime_sun: the lines defining jd / frac / vl / gstr no longer have the form "
                      "`np.mod(c0 + rate * jd [+ 360 * frac + 180], 360)`"]
    f = lambda t: Fraction(t.replace("_", ""))   # noqa: E731
    return (f(m0.group(1)), f(m1.group(1)), f(m1.group(2)), f(m2.group(1)), f(m2.group(2))), []


def generate():
    """writes Generated/C20Tables.lean; returns (changed, info) with info for the harness"""
    units, checks, poles, doc, interps, problems = extract()
    o = ["/- GENERATED by translator/extract_c20.py from /repo — do not edit -/", "",
         "namespace Midgard.Generated.C20", "",
         "/-- one unit: `dim` 0 length (root meter), 1 time (second), 2 angle (radian);",
         "factor to the root unit is `q` (or `q·π` when `pi`) -/",
         "structure UnitRow where", "  name : String", "  dim : Nat", "  q : Rat", "  pi : Bool",
         "  deriving DecidableEq, Repr", "",
         "def units : List UnitRow := ["]
    o.append(",\n".join(f"  ⟨{lean_str(n)}, {d}, {rat(c)}, {'true' if k else 'false'}⟩" for n, d, c, k in units))
    o += ["]", "",
          "/-- rotation pole as stored (unit of the source) and the factor `uq·π^upi` to radian per year -/",
          "structure PoleRow where", "  model : String", "  plate : String", "  wx : Rat", "  wy : Rat", "  wz : Rat",
          "  uq : Rat", "  upi : Bool", "  deriving DecidableEq, Repr", "",
          "def poles : List PoleRow := ["]
    o.append(",\n".join(
        f"  ⟨{lean_str(m)}, {lean_str(p)}, {rat(w[0])}, {rat(w[1])}, {rat(w[2])}, {rat(c)}, {'true' if k else 'false'}⟩"
        for m, p, w, c, k in poles))
    gtext, glimit, gproblems = dop_guard()
    problems = problems + gproblems
    o += ["]", "", "def interpolators : List String := [" + ", ".join(lean_str(s) for s in interps) + "]", "",
          "/-- the test with which `compute_dops` refuses a geometry (returns `None` x 5), as written in the source -/",
          "def dopGuardSource : String := " + lean_str(gtext), "",
          "/-- the limit that test puts on the condition number of `HᵀH` (`none`: no finite limit - only a design whose",
          "condition number is not finite, i.e. a singular one, is refused) -/",
          "def dopCondLimit : Option Rat := " + ("none" if glimit is None else f"some ({rat(glimit)})"), "",
          "/-- `gsdtime_sun`: `jd = mjd_int - sunEpoch`, `vl = mod(sunVl0 + sunVlRate*jd, 360)`,",
          "`gstr = mod(sunGst0 + sunGstRate*jd + 360*frac + 180, 360)` - the decimals of the source -/"]
    sun, sproblems = sun_constants()
    problems = problems + sproblems
    for nm, v in zip(("sunEpoch", "sunVl0", "sunVlRate", "sunGst0", "sunGstRate"), sun or (0, 0, 0, 0, 0)):
        o.append(f"def {nm} : Rat := {rat(v)}")
    o += ["", "end Midgard.Generated.C20", ""]
    changed = write_if_changed("C20Tables.lean", "\n".join(o))
    return changed, {"units": units, "checks": checks, "poles": poles, "doc": doc, "interpolators": interps,
                     "problems": problems, "dop_guard": (gtext, glimit), "sun": sun}


if __name__ == "__main__":
    ch, info = generate()
    print("changed" if ch else "unchanged", len(info["units"]), "units", len(info["poles"]), "poles", info["problems"])
