#!/venv/bin/python
"""C17 translator: line layouts of the writers and column tables of the matching parsers.

Writes lean/Midgard/Generated/WriterLayouts.lean from $MIDGARD_REPO (default /repo), by `ast` and
`string.Formatter().parse` only (nothing of midgard is imported, except DATA_TYPES which is read by ast too):

  rows       every string passed to `<fid>.write(...)` in midgard/writers/*.py that is a `"...".format(...)`
             call or an f-string with at least one replacement field: the sequence of literal texts and cells
             `(expression text, fill, align, width, precision, type)`; specs the model does not cover
             (`e`/`E`, datetime `%`-specs, nested `{}`) are kept as kind `other`
  DATA_TYPES name, width, precision, type of midgard/writers/sinex_tms.py (the cell format of each column of
             TIMESERIES/DATA) and DATA_FIELD_TYPES order
  parser tables   `delimiter=` / `names=` tuples of parsers/bernese_crd.py and bernese_clu.py, the
             `SinexField(name, start_col, …)` tables of parsers/sinex_tms.py (ref coordinate, columns),
             the fixed column dict of parsers/bernese_sta.py
  estimate parameter keys of sinex_tms (name → meta keys), to expose duplicated dictionary keys
"""
from __future__ import annotations

import ast
import json
import os
import pathlib
import string
import sys
import warnings
from typing import Any, Dict, List, Optional, Tuple

REPO = pathlib.Path(os.environ.get("MIDGARD_REPO", "/repo"))
VERIF = pathlib.Path(__file__).resolve().parent.parent
OUT = VERIF / "lean" / "Midgard" / "Generated" / "WriterLayouts.lean"
WRITERS = ["bernese_abb", "bernese_clu", "bernese_crd", "bernese_sta", "bernese_vel", "csv_", "gamit_apr_eq",
           "gamit_station_info", "gipsyx_site_info", "sinex_tms"]


def parse_file(p: pathlib.Path) -> ast.Module:
    with warnings.catch_warnings():
        warnings.simplefilter("ignore")
        return ast.parse(p.read_text(), filename=str(p))


def parse_spec(spec: str) -> Dict[str, Any]:
    """Python format-spec mini language: [[fill]align][sign][#][0][width][,][.precision][type]"""
    s = spec
    out = {"fill": " ", "align": "", "width": 0, "prec": -1, "type": "", "ok": True}
    if len(s) >= 2 and s[1] in "<>^=":
        out["fill"], out["align"], s = s[0], s[1], s[2:]
    elif s and s[0] in "<>^=":
        out["align"], s = s[0], s[1:]
    if s and s[0] in "+- ":
        out["ok"] = False
        s = s[1:]
    if s and s[0] == "#":
        out["ok"] = False
        s = s[1:]
    if s and s[0] == "0":
        out["fill"], s = "0", s[1:]
        out["ok"] = False
    w = ""
    while s and s[0].isdigit():
        w, s = w + s[0], s[1:]
    out["width"] = int(w) if w else 0
    if s and s[0] in ",_":
        out["ok"] = False
        s = s[1:]
    if s and s[0] == ".":
        s = s[1:]
        pr = ""
        while s and s[0].isdigit():
            pr, s = pr + s[0], s[1:]
        out["prec"] = int(pr) if pr else 0
    out["type"] = s
    if s not in ("", "s", "d", "f"):
        out["ok"] = False
    if out["align"] in ("^", "=") or out["fill"] != " ":
        out["ok"] = False
    return out


def cells_of_format_string(fmt: str) -> List[Dict[str, Any]]:
    cells = []
    for lit, field, spec, conv in string.Formatter().parse(fmt):
        if lit:
            cells.append({"lit": lit})
        if field is not None:
            sp = parse_spec(spec or "")
            if conv or "{" in (spec or ""):
                sp["ok"] = False
            cells.append({"name": field, **sp})
    return cells


def cells_of_fstring(node: ast.JoinedStr) -> List[Dict[str, Any]]:
    cells = []
    for v in node.values:
        if isinstance(v, ast.Constant):
            if v.value:
                cells.append({"lit": v.value})
        elif isinstance(v, ast.FormattedValue):
            spec = ""
            ok = True
            if v.format_spec is not None:
                if all(isinstance(x, ast.Constant) for x in v.format_spec.values):
                    spec = "".join(x.value for x in v.format_spec.values)
                else:
                    ok = False
                    spec = ast.unparse(v.format_spec)
            sp = parse_spec(spec) if ok else {"fill": " ", "align": "", "width": 0, "prec": -1, "type": "", "ok": False}
            if v.conversion != -1:
                sp["ok"] = False
            name = ast.unparse(v.value)
            if name.endswith(".yyyydddsssss") and spec == "" and sp["ok"]:
                # Time.yyyydddsssss is always the 14 characters YYYY:DDD:SSSSS - a fixed-width text cell
                sp.update({"width": 14, "type": "s"})
            cells.append({"name": name, **sp})
    return cells


def flatten_concat(e: ast.AST) -> Optional[List[ast.AST]]:
    """implicit/explicit concatenation of string pieces"""
    if isinstance(e, ast.BinOp) and isinstance(e.op, ast.Add):
        a, b = flatten_concat(e.left), flatten_concat(e.right)
        return None if a is None or b is None else a + b
    if isinstance(e, (ast.JoinedStr, ast.Constant)):
        return [e]
    return None


def rows_of_writer(name: str) -> List[Dict[str, Any]]:
    p = REPO / "midgard" / "writers" / f"{name}.py"
    tree = parse_file(p)
    rows = []
    for n in ast.walk(tree):
        if isinstance(n, ast.Call) and isinstance(n.func, ast.Attribute) and n.func.attr == "write" and n.args:
            a = n.args[0]
            cells = None
            if isinstance(a, ast.Call) and isinstance(a.func, ast.Attribute) and a.func.attr == "format" \
                    and isinstance(a.func.value, ast.Constant) and isinstance(a.func.value.value, str):
                cells = cells_of_format_string(a.func.value.value)
            else:
                parts = flatten_concat(a)
                if parts is not None and any(isinstance(x, ast.JoinedStr) for x in parts):
                    cells = []
                    for x in parts:
                        if isinstance(x, ast.JoinedStr):
                            cells += cells_of_fstring(x)
                        elif isinstance(x.value, str) and x.value:
                            cells.append({"lit": x.value})
            if cells and any("name" in c for c in cells):
                # merge adjacent literals
                merged: List[Dict[str, Any]] = []
                for c in cells:
                    if "lit" in c and merged and "lit" in merged[-1]:
                        merged[-1] = {"lit": merged[-1]["lit"] + c["lit"]}
                    else:
                        merged.append(c)
                rows.append({"writer": name, "line": n.lineno, "cells": merged})
    return rows


def fold_constant(expr: ast.AST) -> Optional[str]:
    """the text of a replacement field whose expression has no names and no calls (`'-' * 80`)"""
    if any(isinstance(x, (ast.Name, ast.Call, ast.Attribute, ast.Subscript, ast.Lambda)) for x in ast.walk(expr)):
        return None
    try:
        v = eval(compile(ast.Expression(expr), "<const>", "eval"), {"__builtins__": {}}, {})
    except Exception:
        return None
    return v if isinstance(v, str) else None


def header_of_writer(name: str) -> Optional[Dict[str, Any]]:
    """the text `_get_header(...)` returns (written first by the Bernese writers): cells of the returned f-string;
    replacement fields without format spec whose expression is a constant are folded into the literal text"""
    tree = parse_file(REPO / "midgard" / "writers" / f"{name}.py")
    for fn in ast.walk(tree):
        if isinstance(fn, ast.FunctionDef) and fn.name == "_get_header":
            for n in ast.walk(fn):
                if isinstance(n, ast.Return) and n.value is not None:
                    parts = flatten_concat(n.value)
                    if parts is None:
                        return None
                    cells: List[Dict[str, Any]] = []
                    for x in parts:
                        if isinstance(x, ast.JoinedStr):
                            for v in x.values:
                                if isinstance(v, ast.FormattedValue) and v.format_spec is None and v.conversion == -1:
                                    c = fold_constant(v.value)
                                    if c is not None:
                                        cells.append({"lit": c})
                                        continue
                                cells += cells_of_fstring(ast.JoinedStr(values=[v]))
                        elif isinstance(x.value, str) and x.value:
                            cells.append({"lit": x.value})
                    merged: List[Dict[str, Any]] = []
                    for c in cells:
                        if "lit" in c and merged and "lit" in merged[-1]:
                            merged[-1] = {"lit": merged[-1]["lit"] + c["lit"]}
                        else:
                            merged.append(c)
                    return {"writer": name, "line": n.lineno, "cells": merged}
    return None


def const_tuple(e: ast.AST):
    try:
        return ast.literal_eval(e)
    except Exception:
        return None


def parser_genfromtxt_table(name: str) -> Dict[str, Any]:
    tree = parse_file(REPO / "midgard" / "parsers" / f"{name}.py")
    for n in ast.walk(tree):
        if isinstance(n, ast.Call) and isinstance(n.func, ast.Name) and n.func.id == "dict":
            kw = {k.arg: k.value for k in n.keywords}
            if "delimiter" in kw and "names" in kw:
                return {"names": list(const_tuple(kw["names"])), "delimiter": list(const_tuple(kw["delimiter"])),
                        "dtype": list(const_tuple(kw["dtype"])) if "dtype" in kw else [],
                        "skip_header": const_tuple(kw["skip_header"]) if "skip_header" in kw else 0,
                        "comments": const_tuple(kw["comments"]) if "comments" in kw else "#",
                        "autostrip": bool(const_tuple(kw["autostrip"])) if "autostrip" in kw else False}
    return {"names": [], "delimiter": [], "dtype": [], "skip_header": 0, "comments": "#", "autostrip": False}


def sinex_fields(fn_name: str) -> List[Tuple[str, int]]:
    tree = parse_file(REPO / "midgard" / "parsers" / "sinex_tms.py")
    for n in ast.walk(tree):
        if isinstance(n, ast.FunctionDef) and n.name == fn_name:
            out = []
            for c in ast.walk(n):
                if isinstance(c, ast.Call) and isinstance(c.func, ast.Name) and c.func.id == "SinexField":
                    a0, a1 = const_tuple(c.args[0]), const_tuple(c.args[1])
                    out.append((a0, a1))
            return out
    return []


def tms_parser_field_def() -> List[Tuple[str, str]]:
    """`field_def` of SinexTmsParser.as_dataset: TIMESERIES/DATA column (lower case) -> dataset field it is stored as;
    every key written in the source, in order"""
    tree = parse_file(REPO / "midgard" / "parsers" / "sinex_tms.py")
    out: List[Tuple[str, str]] = []
    for n in ast.walk(tree):
        if isinstance(n, ast.Assign) and len(n.targets) == 1 and isinstance(n.targets[0], ast.Name) \
                and n.targets[0].id == "field_def" and isinstance(n.value, ast.Dict):
            for k, v in zip(n.value.keys, n.value.values):
                kk = const_tuple(k)
                if isinstance(kk, str) and isinstance(v, ast.Call) and v.args:
                    f = const_tuple(v.args[0])
                    if isinstance(f, str):
                        out.append((kk, f))
    return out


def sta_fields(parser: str = "bernese_sta") -> List[Tuple[str, int, int]]:
    tree = parse_file(REPO / "midgard" / "parsers" / f"{parser}.py")
    for n in ast.walk(tree):
        if isinstance(n, ast.Dict):
            keys = [const_tuple(k) for k in n.keys if k is not None]
            if "fields" in keys:
                v = n.values[keys.index("fields")]
                d = const_tuple(v)
                if isinstance(d, dict) and "station" in d:
                    return [(k, a, (b if b is not None else 100000)) for k, (a, b) in d.items()]
    return []


def data_types() -> Tuple[List[Tuple[str, Dict[str, Any]]], List[Tuple[str, str]], List[Tuple[str, List[str]]], List[str]]:
    tree = parse_file(REPO / "midgard" / "writers" / "sinex_tms.py")
    dts, dft, est, dup = [], [], [], []
    for n in tree.body:
        if isinstance(n, ast.Assign) and isinstance(n.targets[0], ast.Name):
            tn = n.targets[0].id
            v = n.value
            if tn == "DATA_TYPES" and isinstance(v, ast.Dict):
                for k, val in zip(v.keys, v.values):
                    if isinstance(val, ast.Call) and len(val.args) >= 2:
                        dts.append((const_tuple(k), parse_spec(const_tuple(val.args[1]))))
            if tn in ("DATA_FIELD_TYPES", "ESTIMATE_PARAMETER_FIELD_TYPES") and isinstance(v, ast.Call) and v.args \
                    and isinstance(v.args[0], ast.Dict):
                d = v.args[0]
                seen = set()
                for k, val in zip(d.keys, d.values):
                    kk = const_tuple(k)
                    if tn == "DATA_FIELD_TYPES":
                        dft.append((kk, const_tuple(val)))
                    else:
                        keys = const_tuple(val.args[0]) if isinstance(val, ast.Call) and val.args else ()
                        est.append((kk, list(keys)))
                        if kk in seen:
                            dup.append(kk)
                        seen.add(kk)
    return dts, dft, est, dup


def plate_def() -> List[Tuple[str, str]]:
    tree = parse_file(REPO / "midgard" / "writers" / "bernese_vel.py")
    for n in ast.walk(tree):
        if isinstance(n, ast.Assign) and isinstance(n.targets[0], ast.Name) and n.targets[0].id == "plate_def":
            d = const_tuple(n.value)
            if isinstance(d, dict):
                return list(d.items())
    return []


def ls(s: str) -> str:
    out = '"'
    for ch in s:
        if ch == "\\":
            out += "\\\\"
        elif ch == '"':
            out += '\\"'
        elif ch == "\n":
            out += "\\n"
        elif ch == "\t":
            out += "\\t"
        else:
            out += ch
    return out + '"'


def lean_cell(c: Dict[str, Any]) -> str:
    if "lit" in c:
        return f".lit {ls(c['lit'])}"
    if not c["ok"]:
        return f".other {ls(c['name'])}"
    al = {"": "none", "<": "some .left", ">": "some .right"}[c["align"]]
    pr = "none" if c["prec"] < 0 else f"some {c['prec']}"
    ty = {"": ".any", "s": ".str", "d": ".int", "f": ".fix"}[c["type"]]
    return f".fld {ls(c['name'])} ⟨{al}, {c['width']}, {pr}, {ty}⟩"


def lean_dtype(d: str) -> str:
    if d == "f8":
        return ".f8"
    if d[:1] == "U" and d[1:].isdigit():
        return f".u {int(d[1:])}"
    raise ValueError(f"dtype {d!r} of a genfromtxt parser is outside the model")


def lean_char(c: str) -> str:
    if len(c) != 1 or not c.isprintable() or c in "'\\":
        raise ValueError(f"comment marker {c!r} of a genfromtxt parser is outside the model")
    return f"'{c}'"


def lean_list(items: List[str], indent: str = "  ") -> str:
    if not items:
        return "[]"
    return "[\n" + ",\n".join(indent + i for i in items) + "]"


def generate() -> Tuple[str, Dict[str, Any]]:
    rows = []
    for w in WRITERS:
        rows += rows_of_writer(w)
    headers = [h for h in (header_of_writer(w) for w in WRITERS) if h is not None]
    dts, dft, est, dup = data_types()
    crd = parser_genfromtxt_table("bernese_crd")
    clu = parser_genfromtxt_table("bernese_clu")
    refc = sinex_fields("timeseries_ref_coordinate")
    cols = sinex_fields("timeseries_columns")
    sta = sta_fields()
    sta52 = sta_fields("bernese_sta_v52")
    o = []
    o.append("/-\nGENERATED by translator/extract_writers.py from the working tree of midgard - do not edit.\n"
             "Line layouts of the writers (every formatted string written to a file) and the column tables of the\n"
             "matching parsers.\n-/\nimport Midgard.Model.WriterCells\n\nnamespace Midgard.Generated.WriterLayouts\n"
             "open Midgard.WriterCells\n")
    o.append("structure Row where\n  writer : String\n  line : Nat\n  cells : List Cell\n  deriving Repr\n")
    o.append("def rows : List Row := " + lean_list(
        [f"⟨{ls(r['writer'])}, {r['line']}, [{', '.join(lean_cell(c) for c in r['cells'])}]⟩" for r in rows]) + "\n")
    o.append("/-- the text `_get_header(...)` of a writer returns (the first thing written), as cells -/\n"
             "def headers : List Row := " + lean_list(
        [f"⟨{ls(r['writer'])}, {r['line']}, [{', '.join(lean_cell(c) for c in r['cells'])}]⟩" for r in headers]) + "\n")
    o.append("/-- `DATA_TYPES` of writers/sinex_tms.py: the cell format of every TIMESERIES/DATA column -/\n"
             "def dataTypes : List (String × Spec) := " + lean_list(
        [f"({ls(k)}, ⟨{ {'': 'none', '<': 'some .left', '>': 'some .right'}[sp['align']] }, {sp['width']}, "
         f"{'none' if sp['prec'] < 0 else 'some ' + str(sp['prec'])}, { {'': '.any', 's': '.str', 'd': '.int', 'f': '.fix'}[sp['type']] }⟩)"
         for k, sp in dts if sp["ok"]]) + "\n")
    o.append("def dataTypesUnmodelled : List String := " + lean_list([ls(k) for k, sp in dts if not sp["ok"]]) + "\n")
    o.append("/-- `DATA_FIELD_TYPES` (column order of TIMESERIES/DATA) -/\n"
             "def dataFieldTypes : List (String × String) := " + lean_list([f"({ls(k)}, {ls(v)})" for k, v in dft]) + "\n")
    o.append("/-- `ESTIMATE_PARAMETER_FIELD_TYPES`: every key written in the source, in order (a dict literal silently keeps\n"
             "only the last of two equal keys) -/\n"
             "def estimateKeys : List (String × List String) := " + lean_list(
        [f"({ls(k)}, [{', '.join(ls(x) for x in v)}])" for k, v in est]) + "\n")
    o.append("def crdParserNames : List String := " + lean_list([ls(x) for x in crd["names"]]))
    o.append(f"def crdParserWidths : List Nat := {crd['delimiter']}")
    o.append(f"def crdParserSkipHeader : Nat := {crd['skip_header']}")
    o.append("def crdParserDtypes : List Dtype := [" + ", ".join(lean_dtype(x) for x in crd["dtype"]) + "]")
    o.append("def crdParserComment : Char := " + lean_char(crd["comments"]))
    o.append("def crdParserAutostrip : Bool := " + str(crd["autostrip"]).lower() + "\n")
    o.append("def cluParserNames : List String := " + lean_list([ls(x) for x in clu["names"]]))
    o.append(f"def cluParserWidths : List Nat := {clu['delimiter']}")
    o.append(f"def cluParserSkipHeader : Nat := {clu['skip_header']}")
    o.append("def cluParserDtypes : List Dtype := [" + ", ".join(lean_dtype(x) for x in clu["dtype"]) + "]")
    o.append("def cluParserComment : Char := " + lean_char(clu["comments"]))
    o.append("def cluParserAutostrip : Bool := " + str(clu["autostrip"]).lower() + "\n")
    o.append("/-- SinexField(name, start_col) of parsers/sinex_tms.py TIMESERIES/REF_COORDINATE -/\n"
             "def tmsRefCoordFields : List (String × Nat) := " + lean_list([f"({ls(a)}, {b})" for a, b in refc]) + "\n")
    o.append("def tmsColumnsFields : List (String × Nat) := " + lean_list([f"({ls(a)}, {b})" for a, b in cols]) + "\n")
    o.append("/-- `field_def` of SinexTmsParser.as_dataset (parsers/sinex_tms.py): TIMESERIES/DATA column, lower case -> the\n"
             "dataset field the column is stored as; every key written in the source, in order -/\n"
             "def tmsParserFieldDef : List (String × String) := " + lean_list([f"({ls(a)}, {ls(b)})" for a, b in tms_parser_field_def()]) + "\n")
    o.append("/-- fixed columns of parsers/bernese_sta.py (TYPE 002); an open end is 100000 -/\n"
             "def staParserFields : List (String × Nat × Nat) := " + lean_list([f"({ls(a)}, {b}, {c})" for a, b, c in sta]) + "\n")
    o.append("/-- fixed columns of parsers/bernese_sta_v52.py (TYPE 002); an open end is 100000 -/\n"
             "def staV52ParserFields : List (String × Nat × Nat) := " + lean_list([f"({ls(a)}, {b}, {c})" for a, b, c in sta52]) + "\n")
    o.append("/-- `plate_def` of writers/bernese_vel.py -/\n"
             "def velPlateDef : List (String × String) := " + lean_list([f"({ls(a)}, {ls(b)})" for a, b in plate_def()]) + "\n")
    o.append("end Midgard.Generated.WriterLayouts\n")
    info = {"headers": headers, "rows": rows, "data_types": dts, "data_field_types": dft, "estimate": est, "estimate_duplicates": dup,
            "crd": crd, "clu": clu, "refc": refc, "cols": cols, "sta": sta}
    return "\n".join(o), info


def main(write: bool = True) -> Dict[str, Any]:
    text, info = generate()
    if write:
        OUT.parent.mkdir(parents=True, exist_ok=True)
        old = OUT.read_text() if OUT.exists() else None
        if old != text:
            tmp = OUT.with_suffix(f".tmp{os.getpid()}")
            tmp.write_text(text)
            tmp.replace(OUT)
        info["changed"] = old != text
    return info


if __name__ == "__main__":
    i = main(write="--dry" not in sys.argv)
    print(len(i["rows"]), "rows;", "duplicates:", i["estimate_duplicates"])
    for r in i["rows"]:
        print(r["writer"], r["line"], sum(1 for c in r["cells"] if "name" in c), "fields",
              [c["name"] for c in r["cells"] if "name" in c and not c["ok"]])
