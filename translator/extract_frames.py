"""Frame-property translator (C06): the local-frame properties of `midgard/data/_position.py` and the six `delta_*`
conversions of `midgard/math/transformation.py`, read off the Python `ast` of the tree under test and written as Lean
definitions over *position objects* → lean/Midgard/Generated/SourceFrames.lean.

Unlike the scalar kernels of `extract_exprs.py` these functions are written with NumPy helpers and with attribute
chains on position objects (`self.pos.llh.val.T`, `self.trs.direction_to(other.trs)`, `trs.ref_pos.trs2enu @ trs.mat`).
What matters for property C06 is *which object's* coordinates enter where (the frame of the observer vs. the target, the
frame of the delta's `ref_pos`), and which columns / projections are taken.  The translator therefore evaluates the
expressions symbolically over a small typed object language:

  kinds   S (scalar), V3, M3, V6, M6, Row/Col (of a vector), Obj (a position object: a Lean `PosObj` — Cartesian
          coordinates `.trs`, velocity `.vel`, geodetic `.lat`/`.lon`), Delta (the argument of a `delta_*` function)
  Obj     carries the *view* it is seen in (`own` system, `trs`, `llh`) and the part (`pos`/`vel`): `.trs`, `.pos`,
          `.vel`, `.llh`, `.to_system(X.system)` change view/part, `.val` is defined on a `trs` view (→ `.trs`/`.vel`) and
          on an `llh` view (→ `PosObj.llhVal`: lat, lon, height), `lat, lon, _ = <Obj>.llh.val.T` gives `.lat`, `.lon`;
          `self.other` is the second parameter `other`.  `vector_to/distance_to/direction_to` and `vector/distance/
          direction` work in the observer's *own* system: they are translated once per registered position system
          (`…Src` for an observer given in trs, `…LlhSrc` for one given in llh)
  calls   rotation.enu2trs/trs2enu, nputil.take(M, k) (column k), nputil.row(a) @ nputil.col(b) (dot product),
          nputil.norm, nputil.unit_vector, nputil.col(scalar) under `/`, np.cross, np.stack((a, b, c), axis=-2) (rows),
          np.squeeze / `(M @ col)[..., 0]` / `(row @ col)[..., 0, 0]`, np.arctan2, np.arcsin, np.pi, np.zeros(M.shape), np.block([[A, B], [C, D]]), `M @ col`,
          `.T` / `.transpose(0, 2, 1)` of a matrix, and methods / properties of the classes listed in FRAMES (a
          reference to the generated definition of that method, receiver and argument passed on, views checked)
  bodies  docstring, `name = expr`, `a, b, _ = expr`, `return expr`, the cache idiom
          (`if "<key>" not in self._cache: …; self._cache["<key>"] = expr` + `return self._cache["<key>"]`),
          `if self.other is None: raise …` (skipped), `if isinstance(other, PositionArray): return A else: …` (A),
          `if self.ndim == 1: X else: Y` (both branches must give the same term)

Anything else is a translation error: the definition is left out, the tie theorem `Props.C06.source_frame_*` that
mentions it no longer checks, and the check reports the broken tie.  The translator never guesses.
"""
from __future__ import annotations

import ast
from typing import Dict, List, Optional, Tuple

from .extract_exprs import Untranslatable, dotted, find_function
from .util import REPO, write_if_changed

POSF = "midgard/data/_position.py"
TRF = "midgard/math/transformation.py"


class T:
    """a typed term"""

    def __init__(self, lean: str, kind: str, view: str = "", part: str = "", of: Optional["T"] = None):
        self.lean, self.kind, self.view, self.part, self.of = lean, kind, view, part, of

    def obj(self, **kw) -> "T":
        d = dict(lean=self.lean, kind="Obj", view=self.view, part=self.part)
        d.update(kw)
        return T(**d)


# name of the method / property → where it is defined, the Lean name, result kind, whether it takes / uses `other`,
# and the view the receiver (and argument) must be seen in
FRAMES: Dict[str, dict] = {
    "enu2trs": dict(cls="PositionArray", lean="enu2trsSrc", kind="M3", form="cached"),
    "trs2enu": dict(cls="PositionArray", lean="trs2enuSrc", kind="M3", form="cached"),
    "enu_east": dict(cls="PositionArray", lean="enuEastSrc", kind="V3"),
    "enu_north": dict(cls="PositionArray", lean="enuNorthSrc", kind="V3"),
    "enu_up": dict(cls="PositionArray", lean="enuUpSrc", kind="V3"),
    "vector_to": dict(cls="PositionArray", lean="vectorToSrc", kind="V3", arg=True, views=("trs", "llh")),
    "distance_to": dict(cls="PositionArray", lean="distanceToSrc", kind="S", arg=True, views=("trs", "llh")),
    "direction_to": dict(cls="PositionArray", lean="directionToSrc", kind="V3", arg=True, views=("trs", "llh")),
    "azimuth_to": dict(cls="PositionArray", lean="azimuthToSrc", kind="S", arg=True),
    "elevation_to": dict(cls="PositionArray", lean="elevationToSrc", kind="S", arg=True),
    "zenith_distance_to": dict(cls="PositionArray", lean="zenithDistanceToSrc", kind="S", arg=True),
    "azimuth": dict(cls="PositionArray", lean="azimuthSrc", kind="S", form="cached", other=True),
    "elevation": dict(cls="PositionArray", lean="elevationSrc", kind="S", form="cached", other=True),
    "zenith_distance": dict(cls="PositionArray", lean="zenithDistanceSrc", kind="S", form="cached", other=True),
    # the three below (and the *_to methods they call) are differences of the coordinates in the *own* system of the
    # observer: one definition per registered position system (trs: Cartesian; llh: `…LlhSrc`, geodetic coordinates)
    "vector": dict(cls="PositionArray", lean="vectorSrc", kind="V3", other=True, views=("trs", "llh")),
    "distance": dict(cls="PositionArray", lean="distanceSrc", kind="S", form="cached", other=True, views=("trs", "llh")),
    "direction": dict(cls="PositionArray", lean="directionSrc", kind="V3", form="cached", other=True, views=("trs", "llh")),
    "trs2acr": dict(cls="PosVelArray", lean="trs2acrSrc", kind="M3", form="cached"),
    "acr2trs": dict(cls="PosVelArray", lean="acr2trsSrc", kind="M3", form="cached"),
    "unit_vector": dict(cls="PosBase", inline=True),
}
ORDER = ["enu2trs", "trs2enu", "enu_east", "enu_north", "enu_up", "vector_to", "distance_to", "direction_to", "azimuth_to",
         "elevation_to", "zenith_distance_to", "azimuth", "elevation", "zenith_distance", "vector", "distance", "direction",
         "trs2acr", "acr2trs"]

DELTAS = [  # function of transformation.py, Lean name, the parameter, vector kind
    ("delta_trs2enu", "deltaTrs2EnuSrc", "trs", "V3"), ("delta_enu2trs", "deltaEnu2TrsSrc", "enu", "V3"),
    ("delta_trs2enu_posvel", "deltaTrs2EnuPosVelSrc", "trs", "V6"), ("delta_enu2trs_posvel", "deltaEnu2TrsPosVelSrc", "enu", "V6"),
    ("delta_trs2acr_posvel", "deltaTrs2AcrPosVelSrc", "trs", "V6"), ("delta_acr2trs_posvel", "deltaAcr2TrsPosVelSrc", "acr", "V6"),
]


def lean_name(spec: dict, view: str) -> str:
    """`vectorToSrc` for an observer seen in trs, `vectorToLlhSrc` for one seen in llh"""
    return spec["lean"] if view in ("own", "trs") else spec["lean"][:-3] + view.capitalize() + "Src"


class Ev:
    def __init__(self, tree_pos: ast.Module, where: str, env: Dict[str, T], other: Optional[T]):
        self.tree, self.where, self.env, self.other = tree_pos, where, dict(env), other
        self.lets: List[str] = []

    def fail(self, e, why):
        raise Untranslatable(f"{self.where}: {why}: `{ast.unparse(e) if isinstance(e, ast.AST) else e}`")

    # ------------------------------------------------------------------ references to other translated definitions
    def ref(self, name: str, recv: T, arg: Optional[T], e) -> T:
        spec = FRAMES[name]
        if spec.get("inline"):
            fn = find_function(self.tree, spec["cls"] + "." + name)
            sub = Ev(self.tree, f"{self.where} → {name}", {"self": recv}, self.other)
            val = sub.body(fn.body, None)
            if sub.lets:
                self.fail(e, "inlined property with local bindings")
            return val
        want = recv.view if recv.view in spec.get("views", ()) else spec.get("view", "own" if "views" not in spec else "one of " + "/".join(spec["views"]))
        if recv.kind != "Obj" or recv.view != want or recv.part not in ("", "pos"):
            self.fail(e, f"`{name}` is translated for a receiver seen in its {want} system, here it is seen in {recv.view or '?'}{'/' + recv.part if recv.part else ''}")
        args = [recv.lean]
        if spec.get("arg"):
            if arg is None or arg.kind != "Obj" or arg.view != want or arg.part not in ("", "pos"):
                self.fail(e, f"argument of `{name}` must be a position object seen in its {want} system")
            args.append(arg.lean)
        elif spec.get("other"):
            if self.other is None:
                self.fail(e, f"`{name}` needs the `other` of the object, which is not available here")
            if recv.lean != "self":
                self.fail(e, f"`{name}` of an object whose `other` is not known")
            args.append(self.other.lean)
        return T("(" + " ".join([lean_name(spec, want)] + args) + ")", spec["kind"])

    # ------------------------------------------------------------------ expressions
    def attr(self, base: T, a: str, e) -> T:
        if base.kind == "Obj":
            if a == "trs":
                return base.obj(view="trs")
            if a == "llh":
                return base.obj(view="llh")
            if a in ("pos", "vel"):
                if base.part not in ("", a) or (a == "vel" and base.part == "pos"):
                    self.fail(e, "part of a part")
                return base.obj(part=a)
            if a == "other":
                if base.lean != "self" or self.other is None:
                    self.fail(e, "`other` of an object other than the receiver")
                return self.other
            if a == "system":
                return T(base.view, "System")
            if a == "ndim":
                return T("ndim", "Ndim")
            if a == "val":
                if base.view == "trs":
                    return T(f"{base.lean}.{'vel' if base.part == 'vel' else 'trs'}", "V3")
                if base.view == "llh" and base.part in ("", "pos"):
                    return T(base.lean, "LLHval")
                self.fail(e, "`.val` of an object seen in its own system (the coordinates depend on the system)")
            if a in FRAMES:
                return self.ref(a, base, None, e)
            self.fail(e, "attribute of a position object outside the translated fragment")
        if base.kind == "Delta":
            if a == "ref_pos":
                return T("refPos", "Obj", view="own")
            if a == "mat":
                return T(base.lean, "Col", of=T(base.lean, base.view))
            self.fail(e, "attribute of a delta outside the translated fragment")
        if base.kind == "M3" and a == "T":
            return T(f"(M3.transpose {base.lean})", "M3")
        if base.kind == "M3" and a == "shape":
            return T("", "ShapeM3")
        if base.kind == "LLHval" and a == "T":
            return T(base.lean, "LLHcols")
        self.fail(e, f"attribute `{a}` of a {base.kind}")

    def ex(self, e: ast.AST) -> T:
        if isinstance(e, ast.Name):
            if e.id in self.env:
                return self.env[e.id]
            self.fail(e, "name that is neither a parameter nor bound by a straight-line assignment")
        if isinstance(e, ast.Constant) and isinstance(e.value, (int, float)) and not isinstance(e.value, bool):
            v = e.value
            return T({0: "0", 1: "1", 2: "(1 + 1)"}.get(v, f"({float(v)!r} : α)") if v == int(v) else f"({v!r} : α)", "S")
        d = dotted(e)
        if d == "np.pi":
            return T("Trig.pi", "S")
        if isinstance(e, ast.Attribute):
            return self.attr(self.ex(e.value), e.attr, e)
        if isinstance(e, ast.UnaryOp) and isinstance(e.op, ast.USub):
            x = self.ex(e.operand)
            if x.kind == "S":
                return T(f"(-{x.lean})", "S")
            self.fail(e, "negation of a non-scalar")
        if isinstance(e, ast.BinOp):
            a, b = self.ex(e.left), self.ex(e.right)
            if isinstance(e.op, ast.MatMult):
                if a.kind == "Row" and b.kind == "Col" and a.of.kind == "V3" and b.of.kind == "V3":
                    return T(f"(V3.dot {a.of.lean} {b.of.lean})", "S")
                if a.kind == "M3" and b.kind == "Col" and b.of.kind == "V3":
                    return T("", "Col", of=T(f"(M3.mulVec {a.lean} {b.of.lean})", "V3"))
                if a.kind == "M6" and b.kind == "Col" and b.of.kind == "V6":
                    return T("", "Col", of=T(f"(M6.mulVec {a.lean} {b.of.lean})", "V6"))
                self.fail(e, f"matrix product of {a.kind} and {b.kind}")
            if isinstance(e.op, ast.Sub):
                if a.kind == b.kind == "LLHval":      # coordinates in the llh system: (lat, lon, height)
                    return T(f"(V3.sub (PosObj.llhVal {a.lean}) (PosObj.llhVal {b.lean}))", "V3")
                if a.kind == b.kind == "V3":
                    return T(f"(V3.sub {a.lean} {b.lean})", "V3")
                if a.kind == b.kind == "S":
                    return T(f"({a.lean} - {b.lean})", "S")
            if isinstance(e.op, ast.Div):
                if a.kind == "V3" and b.kind == "ColS":
                    return T(f"(V3.sdiv {a.lean} {b.lean})", "V3")
                if a.kind == b.kind == "S":
                    return T(f"({a.lean} / {b.lean})", "S")
            self.fail(e, f"operator on {a.kind} and {b.kind}")
        if isinstance(e, ast.Subscript):
            # dropping the matrix axes of a product: `(M @ col)[..., 0]` is the vector, `(row @ col)[..., 0, 0]` the number
            base, idx = self.ex(e.value), ast.unparse(e.slice)
            if idx == "(..., 0)" and base.kind == "Col":
                return base.of
            if idx == "(..., 0, 0)" and base.kind == "S":
                return base
            self.fail(e, f"subscript of a {base.kind}")
        if isinstance(e, ast.Call):
            return self.call(e)
        self.fail(e, "expression form")

    def call(self, e: ast.Call) -> T:
        f = dotted(e.func)
        kw = {k.arg: k.value for k in e.keywords}
        args = e.args
        if f in ("rotation.enu2trs", "rotation.trs2enu") and len(args) == 2 and not kw:
            a, b = self.ex(args[0]), self.ex(args[1])
            if a.kind == b.kind == "S":
                return T(f"({f.split('.')[1]} {a.lean} {b.lean})", "M3")
            self.fail(e, "arguments")
        if f == "nputil.take" and len(args) == 2 and not kw and isinstance(args[1], ast.Constant) and args[1].value in (0, 1, 2):
            m = self.ex(args[0])
            if m.kind == "M3":      # np.take(m, k, axis=last): entry k of every row — column k
                return T(f"(M3.col{args[1].value + 1} {m.lean})", "V3")
            self.fail(e, "nputil.take of a non-matrix")
        if f in ("nputil.row", "nputil.col") and len(args) == 1 and not kw:
            v = self.ex(args[0])
            if v.kind in ("V3", "V6"):
                return T("", "Row" if f.endswith("row") else "Col", of=v)
            if v.kind == "S" and f.endswith("col"):
                return T(v.lean, "ColS")
            self.fail(e, f"{f} of a {v.kind}")
        if f == "np.squeeze" and len(args) == 1 and not kw:
            v = self.ex(args[0])
            if v.kind == "Col":
                return v.of
            if v.kind in ("S", "V3", "V6"):
                return v
            self.fail(e, f"np.squeeze of a {v.kind}")
        if f in ("nputil.norm", "nputil.unit_vector") and len(args) == 1 and not kw:
            v = self.ex(args[0])
            if v.kind == "V3":
                return T(f"(V3.norm {v.lean})", "S") if f.endswith("norm") else T(f"(V3.unit {v.lean})", "V3")
            self.fail(e, f"{f} of a {v.kind}")
        if f == "np.cross" and len(args) == 2 and not kw:
            a, b = self.ex(args[0]), self.ex(args[1])
            if a.kind == b.kind == "V3":
                return T(f"(V3.cross {a.lean} {b.lean})", "V3")
            self.fail(e, "np.cross of non-vectors")
        if f == "np.stack" and len(args) == 1 and isinstance(args[0], ast.Tuple) and len(args[0].elts) == 3 and set(kw) == {"axis"} \
                and ast.unparse(kw["axis"]) == "-2":
            rows = [self.ex(x) for x in args[0].elts]
            if all(r.kind == "V3" for r in rows):
                return T("(⟨" + ", ".join(r.lean for r in rows) + "⟩ : M3 α)", "M3")
            self.fail(e, "np.stack of non-vectors")
        if f in ("np.arctan2", "np.arcsin") and not kw and len(args) == (2 if f.endswith("2") else 1):
            xs = [self.ex(a) for a in args]
            if all(x.kind == "S" for x in xs):
                return T("(" + ("Trig.atan2 " if f.endswith("2") else "Trig.asin ") + " ".join(x.lean for x in xs) + ")", "S")
            self.fail(e, "arguments")
        if f == "np.zeros" and len(args) == 1 and not kw and self.ex(args[0]).kind == "ShapeM3":
            return T("M3.zero", "M3")
        if f == "np.block" and len(args) == 1 and not kw and isinstance(args[0], ast.List) and len(args[0].elts) == 2 \
                and all(isinstance(r, ast.List) and len(r.elts) == 2 for r in args[0].elts):
            bl = [self.ex(x) for r in args[0].elts for x in r.elts]
            if all(b.kind == "M3" for b in bl):
                return T("(⟨" + ", ".join(b.lean for b in bl) + "⟩ : M6 α)", "M6")
            self.fail(e, "np.block of non-matrices")
        if isinstance(e.func, ast.Attribute):
            recv = self.ex(e.func.value)
            m = e.func.attr
            if recv.kind == "M3" and m == "transpose" and [ast.unparse(a) for a in args] == ["0", "2", "1"] and not kw:
                return T(f"(M3.transpose {recv.lean})", "M3")
            if recv.kind == "Obj" and m == "to_system" and len(args) == 1 and not kw:
                s = self.ex(args[0])
                if s.kind == "System":
                    return recv.obj(view=s.lean)
                self.fail(e, "to_system of something that is not the system of a known object")
            if recv.kind == "Obj" and m in FRAMES and FRAMES[m].get("arg") and len(args) == 1 and not kw:
                return self.ref(m, recv, self.ex(args[0]), e)
        self.fail(e, "call")

    # ------------------------------------------------------------------ statements
    def bind(self, name: str, val: T):
        if val.kind in ("S", "V3", "M3", "V6", "M6"):
            self.lets.append(f"  let {name} := {val.lean}")
            self.env[name] = T(name, val.kind)
        else:
            self.env[name] = val

    def body(self, stmts: List[ast.stmt], cache_key: Optional[str]) -> T:
        """value of a function body (`cache_key`: the value stored under that key of `self._cache`)"""
        result: Optional[T] = None
        for st in stmts:
            if isinstance(st, ast.Expr) and isinstance(st.value, ast.Constant) and isinstance(st.value.value, str):
                continue
            if result is not None:
                self.fail(st, "statement after the result")
            if isinstance(st, ast.If) and ast.unparse(st.test) == "self.other is None" and not st.orelse \
                    and all(isinstance(x, ast.Raise) for x in st.body):
                continue
            if isinstance(st, ast.If) and ast.unparse(st.test) == "isinstance(other, PositionArray)" \
                    and len(st.body) == 1 and isinstance(st.body[0], ast.Return):
                result = self.ex(st.body[0].value)          # the other branch (`other.direction_from(self)`) is not a position
                continue
            if isinstance(st, ast.If) and cache_key is not None and ast.unparse(st.test) == f"{cache_key!r} not in self._cache" and not st.orelse:
                stored = self.cache_block(st.body, cache_key)
                self.env["__cached__"] = stored
                continue
            if isinstance(st, ast.Assign) and len(st.targets) == 1 and isinstance(st.targets[0], ast.Name):
                self.bind(st.targets[0].id, self.ex(st.value))
                continue
            if isinstance(st, ast.Assign) and len(st.targets) == 1 and isinstance(st.targets[0], ast.Tuple):
                self.unpack(st)
                continue
            if isinstance(st, ast.Return):
                if cache_key is not None and ast.unparse(st.value) == f"self._cache[{cache_key!r}]" and "__cached__" in self.env:
                    result = self.env["__cached__"]
                else:
                    result = self.ex(st.value)
                continue
            self.fail(st, "statement form")
        if result is None:
            self.fail(stmts[-1], "no result")
        return result

    def unpack(self, st: ast.Assign):
        tg = st.targets[0].elts
        v = self.ex(st.value)
        if v.kind == "LLHcols" and len(tg) == 3 and all(isinstance(x, ast.Name) for x in tg) and tg[2].id == "_":
            self.bind(tg[0].id, T(f"{v.lean}.lat", "S"))
            self.bind(tg[1].id, T(f"{v.lean}.lon", "S"))
            return
        self.fail(st, "tuple assignment")

    def cache_block(self, stmts: List[ast.stmt], key: str) -> T:
        stored: Optional[T] = None
        for st in stmts:
            if stored is not None:
                self.fail(st, "statement after the value was stored")
            if isinstance(st, ast.Assign) and len(st.targets) == 1 and ast.unparse(st.targets[0]) == f"self._cache[{key!r}]":
                stored = self.ex(st.value)
            elif isinstance(st, ast.If) and ast.unparse(st.test) == "self.ndim == 1" and st.orelse:
                a = Ev(self.tree, self.where, self.env, self.other)
                b = Ev(self.tree, self.where, self.env, self.other)
                va, vb = a.cache_block(st.body, key), b.cache_block(st.orelse, key)
                if va.lean != vb.lean or a.lets != b.lets:
                    self.fail(st, f"the (k,) branch stores {va.lean} but the (n,k) branch {vb.lean}")
                self.lets += a.lets
                stored = va
            elif isinstance(st, ast.Assign) and len(st.targets) == 1 and isinstance(st.targets[0], ast.Name):
                self.bind(st.targets[0].id, self.ex(st.value))
            elif isinstance(st, ast.Assign) and len(st.targets) == 1 and isinstance(st.targets[0], ast.Tuple):
                self.unpack(st)
            elif isinstance(st, ast.Expr) and isinstance(st.value, ast.Constant):
                continue
            else:
                self.fail(st, "statement form inside the cache block")
        if stored is None:
            self.fail(stmts[0], f"nothing stored under {key!r}")
        return stored


KIND = {"S": "α", "V3": "V3 α", "M3": "M3 α", "V6": "V6 α", "M6": "M6 α"}


def translate_frame(tree: ast.Module, name: str, view: Optional[str] = None) -> str:
    spec = FRAMES[name]
    fn = find_function(tree, spec["cls"] + "." + name)
    view = view or spec.get("view", "own")
    env = {"self": T("self", "Obj", view=view)}
    other = None
    params = "(self : PosObj α)"
    if spec.get("arg"):
        if [a.arg for a in fn.args.args] != ["self", "other"]:
            raise Untranslatable(f"{POSF}:{name}: parameters are not (self, other)")
        env["other"] = T("other", "Obj", view=view)
        params = "(self other : PosObj α)"
    elif spec.get("other"):
        other = T("other", "Obj", view=view)
        params = "(self other : PosObj α)"
    ev = Ev(tree, f"{POSF}:{spec['cls']}.{name}", env, other)
    val = ev.body(fn.body, name if spec.get("form") == "cached" else None)
    if val.kind != spec["kind"]:
        raise Untranslatable(f"{POSF}:{name}: the result is a {val.kind}, expected {spec['kind']}")
    seen = "" if view == "own" else f" (receiver{' and argument' if spec.get('arg') else ''} given in {view})"
    doc = f"/-- `{POSF}` `{spec['cls']}.{name}`{seen}" + ("; `other` is `self.other`" if spec.get("other") else "") + " -/"
    return "\n".join([doc, f"def {lean_name(spec, view)} {params} : {KIND[spec['kind']]} :="] + ev.lets + ["  " + val.lean])


def translate_delta(tree_pos: ast.Module, tree_trf: ast.Module, func: str, lean: str, param: str, kind: str) -> str:
    fn = find_function(tree_trf, func)
    if [a.arg for a in fn.args.args] != [param]:
        raise Untranslatable(f"{TRF}:{func}: parameter is not `{param}`")
    var = "d" if kind == "V3" else "w"
    ev = Ev(tree_pos, f"{TRF}:{func}", {param: T(var, "Delta", view=kind)}, None)
    val = ev.body(fn.body, None)
    if val.kind != kind:
        raise Untranslatable(f"{TRF}:{func}: the result is a {val.kind}, expected {kind}")
    doc = f"/-- `{TRF}` `{func}`: `refPos` is `{param}.ref_pos`, `{var}` one row of `{param}` -/"
    return "\n".join([doc, f"def {lean} (refPos : PosObj α) ({var} : {KIND[kind]}) : {KIND[kind]} :="] + ev.lets + ["  " + val.lean])


HEADER = '''/- GENERATED by translator/extract_frames.py from the Python `ast` of the tree under test — do not edit.
The local-frame properties of midgard/data/_position.py and the delta conversions of midgard/math/transformation.py as
functions of position objects (`PosObj`: what these functions read from a position — Cartesian coordinates, velocity,
geodetic latitude and longitude): which object's frame, which column, which projection (see the translator). -/
import Midgard.Model.Frames

namespace Midgard.Generated.Frames
open Midgard.Geo

section
variable {α : Type} [Add α] [Sub α] [Mul α] [Div α] [Neg α] [Zero α] [One α] [Trig α]
'''


def generate() -> Tuple[bool, dict]:
    defs, done, failed = [], [], []
    try:
        tree_pos = ast.parse((REPO / POSF).read_text())
        tree_trf = ast.parse((REPO / TRF).read_text())
    except (OSError, SyntaxError) as ex:
        tree_pos = tree_trf = None
        failed.append(f"source not readable: {ex}")
    if tree_pos is not None:
        for name, view in [(n, v) for n in ORDER for v in FRAMES[n].get("views", (None,))]:
            lean = lean_name(FRAMES[name], view or "own")
            try:
                defs.append(translate_frame(tree_pos, name, view))
                done.append(lean)
            except Untranslatable as ex:
                failed.append(f"{lean}: {ex}")
                defs.append(f"-- NOT TRANSLATED `{lean}`: {str(ex)[:300]}")
        for func, lean, param, kind in DELTAS:
            try:
                defs.append(translate_delta(tree_pos, tree_trf, func, lean, param, kind))
                done.append(lean)
            except Untranslatable as ex:
                failed.append(f"{lean}: {ex}")
                defs.append(f"-- NOT TRANSLATED `{lean}`: {str(ex)[:300]}")
    text = HEADER + "\n" + "\n\n".join(defs) + "\n\nend\n\nend Midgard.Generated.Frames\n"
    changed = write_if_changed("SourceFrames.lean", text)
    return changed, {"translated": done, "not_translated": failed}


if __name__ == "__main__":
    ch, info = generate()
    print("changed" if ch else "unchanged", info)
