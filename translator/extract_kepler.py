"""C07 — the parts of `transformation.trs2kepler` / `kepler2trs` that `extract_exprs.py` leaves out, read off the `ast`:

* the `np.einsum` contractions of `trs2kepler` (`"i, i"` for one state, `"ij, ij->i"` for an array): the subscripts are
  expanded over the three components of the contracted axis;
* the `omega < 0` wrap of `trs2kepler`: the scalar branch (`if omega < 0: omega += 2 * np.pi`) and the boolean-mask
  assignment of the array branch (`omega[omega < 0] += 2 * np.pi`, per element): comparison operator, threshold and the
  added constant are taken from the source;
* the assembly of `kepler2trs`: `(PQW @ np.expand_dims(x.T, axis=x.ndim))[..., 0]` (or `np.squeeze(…)` of it) for `R` and `V` (matrix times column
  vector, written out entry by entry) and the order of `np.hstack((R, V))`.

Output: lean/Midgard/Generated/KeplerShape.lean (namespace Midgard.Generated.KepSrc).  Anything outside the expected
shape of these statements raises `Untranslatable` (the check then reports the source tie as broken).
"""
from __future__ import annotations

import ast

from .util import REPO, write_if_changed

SRC = "midgard/math/transformation.py"
COMP = ["x", "y", "z"]


class Untranslatable(Exception):
    pass


def _func(tree, name):
    for n in tree.body:
        if isinstance(n, ast.FunctionDef) and n.name == name:
            return n
    raise Untranslatable(f"function {name} not found")


def _is_attr(n, base, attr):
    return isinstance(n, ast.Attribute) and n.attr == attr and isinstance(n.value, ast.Name) and n.value.id == base


def _is_np(n, fn):
    return isinstance(n, ast.Call) and _is_attr(n.func, "np", fn)


# ------------------------------------------------------------------ scalar expressions (constants of the wrap)
def expr(n) -> str:
    if isinstance(n, ast.Constant) and isinstance(n.value, int) and not isinstance(n.value, bool):
        return f"({n.value} : α)"
    if isinstance(n, ast.Constant) and isinstance(n.value, float):
        return f"({n.value!r} : α)"
    if _is_attr(n, "np", "pi"):
        return "Trig.pi"
    if isinstance(n, ast.BinOp) and type(n.op) in (ast.Add, ast.Sub, ast.Mult, ast.Div):
        op = {ast.Add: "+", ast.Sub: "-", ast.Mult: "*", ast.Div: "/"}[type(n.op)]
        return f"({expr(n.left)} {op} {expr(n.right)})"
    if isinstance(n, ast.UnaryOp) and isinstance(n.op, ast.USub):
        return f"(-{expr(n.operand)})"
    raise Untranslatable(f"expression {ast.dump(n)[:80]}")


CMP = {ast.Lt: "<", ast.LtE: "≤", ast.Gt: ">", ast.GtE: "≥"}


def compare(n, var) -> str:
    """`var <op> const`"""
    if not (isinstance(n, ast.Compare) and len(n.ops) == 1 and type(n.ops[0]) in CMP and isinstance(n.left, ast.Name) and n.left.id == var):
        raise Untranslatable(f"comparison {ast.dump(n)[:80]}")
    thr = n.comparators[0]
    t = "0" if isinstance(thr, ast.Constant) and thr.value == 0 and not isinstance(thr.value, bool) else expr(thr)
    return f"{var} {CMP[type(n.ops[0])]} {t}"


AUG = {ast.Add: "+", ast.Sub: "-"}


# ------------------------------------------------------------------ einsum
def einsum_term(call, lhs_names) -> str:
    """the sum-of-products an `np.einsum(subscripts, a, b)` call stands for, one output element; the contracted axis has the
    three components x, y, z"""
    if not (_is_np(call, "einsum") and len(call.args) == 3 and isinstance(call.args[0], ast.Constant) and isinstance(call.args[0].value, str)):
        raise Untranslatable("einsum call")
    sub = call.args[0].value.replace(" ", "")
    ins, _, out = sub.partition("->")
    ops = ins.split(",")
    if len(ops) != 2:
        raise Untranslatable(f"einsum subscripts {sub!r}")
    summed = [c for c in dict.fromkeys(ops[0] + ops[1]) if c not in out]
    if "->" not in sub:
        # implicit mode: letters that occur once, in alphabetical order, are the output
        outl = "".join(sorted(c for c in set(ins.replace(",", "")) if (ops[0] + ops[1]).count(c) == 1))
        summed = [c for c in dict.fromkeys(ops[0] + ops[1]) if c not in outl]
        out = outl
    if len(summed) != 1 or any(o[-1:] != summed[0] or o.count(summed[0]) != 1 for o in ops):
        raise Untranslatable(f"einsum subscripts {sub!r}: exactly one contracted letter, the last axis of both operands")
    if any(o[:-1] != out for o in ops):
        raise Untranslatable(f"einsum subscripts {sub!r}: the remaining letters are the rows of both operands and of the result")
    names = []
    for a in call.args[1:]:
        if not (isinstance(a, ast.Attribute) and isinstance(a.value, ast.Name) and a.value.id == "trs" and a.attr in lhs_names):
            raise Untranslatable("einsum operands")
        names.append(lhs_names[a.attr])
    terms = [f"({names[0]}.{c} * {names[1]}.{c})" for c in COMP]
    return f"(({terms[0]} + {terms[1]}) + {terms[2]})", sub


def trs2kepler_parts(fn):
    ein = {}
    wrap = {}
    for st in fn.body:
        if not (isinstance(st, ast.If) and isinstance(st.test, ast.Compare) and _is_attr(st.test.left, "trs", "ndim")
                and isinstance(st.test.ops[0], ast.Eq) and st.test.comparators[0].value == 1):
            continue
        one, many = st.body, st.orelse
        if len(one) == 1 and isinstance(one[0], ast.Assign) and _is_np(one[0].value, "einsum"):
            if not (len(many) == 1 and isinstance(many[0], ast.Assign) and _is_np(many[0].value, "einsum")):
                raise Untranslatable("einsum branches")
            ein["1d"] = einsum_term(one[0].value, {"pos": "p", "vel": "v"})
            ein["row"] = einsum_term(many[0].value, {"pos": "p", "vel": "v"})
        elif len(one) == 1 and isinstance(one[0], ast.If):
            inner = one[0]
            if not (len(inner.body) == 1 and isinstance(inner.body[0], ast.AugAssign) and not inner.orelse
                    and isinstance(inner.body[0].target, ast.Name) and type(inner.body[0].op) in AUG):
                raise Untranslatable("scalar wrap")
            var = inner.body[0].target.id
            wrap["scalar"] = (var, compare(inner.test, var), AUG[type(inner.body[0].op)], expr(inner.body[0].value))
            if not (len(many) == 1 and isinstance(many[0], ast.AugAssign) and isinstance(many[0].target, ast.Subscript)
                    and isinstance(many[0].target.value, ast.Name) and many[0].target.value.id == var and type(many[0].op) in AUG):
                raise Untranslatable("mask wrap")
            wrap["mask"] = (var, compare(many[0].target.slice, var), AUG[type(many[0].op)], expr(many[0].value))
    if set(ein) != {"1d", "row"} or set(wrap) != {"scalar", "mask"}:
        raise Untranslatable(f"trs2kepler: einsum {sorted(ein)}, wrap {sorted(wrap)}")
    return ein, wrap


# ------------------------------------------------------------------ kepler2trs assembly
def _column_dropped(v):
    """`np.squeeze(X)` (until /repo 60f7c07) or `X[..., 0]` (since: only the column axis of the product goes, an array of
    one state keeps its row): the product X whose column vector is read as a vector"""
    if _is_np(v, "squeeze") and len(v.args) == 1:
        return v.args[0]
    if isinstance(v, ast.Subscript) and ast.unparse(v.slice) == "(..., 0)":
        return v.value
    return None


def kepler2trs_parts(fn):
    rot = {}
    order = None
    for st in fn.body:
        if isinstance(st, ast.Assign) and len(st.targets) == 1 and isinstance(st.targets[0], ast.Name) and _column_dropped(st.value) is not None:
            m = _column_dropped(st.value)
            if not (isinstance(m, ast.BinOp) and isinstance(m.op, ast.MatMult) and isinstance(m.left, ast.Name) and _is_np(m.right, "expand_dims")):
                raise Untranslatable("PQW @ expand_dims(...)")
            col = m.right
            x = col.args[0]
            if not (isinstance(x, ast.Attribute) and x.attr == "T" and isinstance(x.value, ast.Name)):
                raise Untranslatable("expand_dims(x.T, ...)")
            ax = [k.value for k in col.keywords if k.arg == "axis"]
            if not (len(ax) == 1 and _is_attr(ax[0], x.value.id, "ndim")):
                raise Untranslatable("expand_dims(..., axis=x.ndim)")
            rot[st.targets[0].id] = (m.left.id, x.value.id)
        if isinstance(st, ast.Return) and _is_np(st.value, "hstack"):
            t = st.value.args[0]
            if not (isinstance(t, ast.Tuple) and all(isinstance(e, ast.Name) for e in t.elts)):
                raise Untranslatable("hstack((R, V))")
            order = [e.id for e in t.elts]
    if order is None or len(order) != 2 or any(o not in rot for o in order) or len({rot[o][0] for o in order}) != 1:
        raise Untranslatable(f"kepler2trs: {rot} {order}")
    return rot, order


def matvec(mat: str, vec: str) -> str:
    rows = []
    for r in ("r1", "r2", "r3"):
        t = [f"({mat}.{r}.{c} * {vec}.{c})" for c in COMP]
        rows.append(f"(({t[0]} + {t[1]}) + {t[2]})")
    return "⟨" + ", ".join(rows) + "⟩"


# ------------------------------------------------------------------ output
def generate() -> str:
    tree = ast.parse((REPO / SRC).read_text())
    ein, wrap = trs2kepler_parts(_func(tree, "trs2kepler"))
    rot, order = kepler2trs_parts(_func(tree, "kepler2trs"))

    def wrapdef(name, w, doc):
        var, cond, op, val = w
        return (f"/-- `{SRC}` `trs2kepler`: {doc} -/\n"
                f"def {name} ({var} : α) : α :=\n  if {cond} then {var} {op} {val} else {var}\n")

    mat = rot[order[0]][0]
    vecs = [rot[o][1] for o in order]
    out = [
        "/- GENERATED by translator/extract_kepler.py from the Python `ast` of the tree under test — do not edit.",
        "The einsum contractions and the `omega` wrap of `transformation.trs2kepler`, the matrix–vector products and the",
        "`hstack` order of `transformation.kepler2trs`. -/",
        "import Midgard.Model.Vec3",
        "",
        "namespace Midgard.Generated.KepSrc",
        "open Midgard.Geo",
        "",
        "section",
        "variable {α : Type} [Add α] [Sub α] [Mul α] [Div α] [Neg α] [Zero α] [One α] [OfNat α 2] [OfScientific α]",
        "  [LT α] [LE α] [DecidableRel (α := α) (· < ·)] [DecidableRel (α := α) (· ≤ ·)] [Trig α]",
        "",
        f"/-- `{SRC}` `trs2kepler`: `np.einsum({ein['1d'][1]!r}, trs.pos, trs.vel)` (one state) -/",
        f"def einsumStateSrc (p v : V3 α) : α :=\n  {ein['1d'][0]}\n",
        f"/-- `{SRC}` `trs2kepler`: one element of `np.einsum({ein['row'][1]!r}, trs.pos, trs.vel)` (array of states) -/",
        f"def einsumRowSrc (p v : V3 α) : α :=\n  {ein['row'][0]}\n",
        wrapdef("omegaWrapScalarSrc", wrap["scalar"], "`if trs.ndim == 1: if omega … : omega … `"),
        wrapdef("omegaWrapMaskSrc", wrap["mask"], "one element under `omega[omega …] … ` (array of states)"),
        f"/-- `{SRC}` `kepler2trs`: `np.squeeze({mat} @ np.expand_dims(x.T, axis=x.ndim))`, one state -/",
        f"def rotateSrc ({mat} : M3 α) (x : V3 α) : V3 α :=\n  {matvec(mat, 'x')}\n",
        f"/-- `{SRC}` `kepler2trs`: `np.hstack(({order[0]}, {order[1]}))` with `{order[0]}`, `{order[1]}` the products for `{vecs[0]}`, `{vecs[1]}` -/",
        # parameters in alphabetical order of the source names, components in the order of the hstack
        f"def assembleSrc ({mat} : M3 α) ({' '.join(sorted(vecs))} : V3 α) : V6 α :=\n  ⟨rotateSrc {mat} {vecs[0]}, rotateSrc {mat} {vecs[1]}⟩\n",
        "end",
        "",
        "end Midgard.Generated.KepSrc",
        "",
    ]
    return "\n".join(out)


def write_all():
    return {"KeplerShape.lean": write_if_changed("KeplerShape.lean", generate())}


if __name__ == "__main__":
    print(generate())
