#!/venv/bin/python
"""C16 translator: process-wide mutable state reachable from parsing, and the plug-in name lists.

Writes lean/Midgard/Generated/ParserEffects.lean from the working tree in $MIDGARD_REPO (default /repo).

Static part (`ast`, nothing is executed):
  scan set = midgard/parsers/*.py, midgard/dev/plugins.py, midgard/writers/__init__.py,
             midgard/data/fieldtypes/__init__.py and the transitive closure of their `midgard.*` imports;
  cells    = module-level and class-level names bound to a mutable container (literal, comprehension,
             dict()/list()/set()/defaultdict()/…), attributes set on function objects (`func.cache = list()`),
             mutable default arguments, names declared `global` in a function, functions decorated with
             `lru_cache`/`cache`;
  for every cell the write sites inside function bodies (subscript store/delete, mutating method call,
  augmented assignment, `global` + assignment, rebinding of a function attribute) and the read sites;
  a cell with at least one run-time write site is an *effect*; the Lean obligation is
  `effects ⊆ cells that have an independence lemma` (Props/C16.lean).
  level    = where the object lives: module, class, function (function attribute, default argument, lru_cache),
             closure (a mutable local of a decorator that the wrapper it returns keeps using: one object per decorated
             function for the whole process), instance;
  escape sites = places inside function bodies where a module-/class-/closure-level mutable object itself (not an
             element, not a copy) is returned, assigned, stored in a container or handed to a call that is not a pure
             consumer - from there on it can be reached (and changed) through a parser's result;
  instance cells = every attribute bound or mutated through `self` in the classes of midgard/parsers, with: bound in
             `__init__` of the class or an ancestor / created later (by which method), whether the name falls back to a
             class-level mutable object (mutation through `self` would then change the class), whether the bound value is a
             shared object (module/class cell or a mutable default argument).
  file-write sites inside midgard/parsers (open(..., "w"/"a"/"x"/"+"), write_text, write_bytes, unlink,
  rename, replace, rmdir, mkdir, touch, shutil.*, os.remove …) - the obligation is that there are none.

Dynamic part (the translator really loads every listed plug-in, in a subprocess with the tree under test
first on sys.path): names of parsers / writers / field types as the library lists them, and the kind each one
resolves to (`parserClass`, `parserFactory`, `writerFunction`, `fieldTypeClass`, or `broken`).
"""
from __future__ import annotations

import ast
import json
import os
import pathlib
import subprocess
import sys
import warnings
from typing import Dict, List, Optional, Set, Tuple

REPO = pathlib.Path(os.environ.get("MIDGARD_REPO", "/repo"))
VERIF = pathlib.Path(__file__).resolve().parent.parent
OUT = VERIF / "lean" / "Midgard" / "Generated" / "ParserEffects.lean"

MUT_CALLS = {"dict", "list", "set", "defaultdict", "OrderedDict", "Counter", "deque", "bytearray", "ChainMap"}
MUT_METHODS = {"append", "extend", "insert", "pop", "popitem", "remove", "clear", "update", "setdefault", "add",
               "discard", "sort", "reverse", "appendleft", "popleft", "__setitem__", "__delitem__",
               "difference_update", "intersection_update", "symmetric_difference_update"}
CACHE_DECOS = {"lru_cache", "cache"}
GUARDS = {"not self.file_path.exists()", "not self.file_path.exists() or self.file_path.stat().st_size == 0"}
FILE_WRITE_METHODS = {"write_text", "write_bytes", "unlink", "rename", "replace", "rmdir", "mkdir", "touch",
                      "remove", "rmtree", "move", "copy", "copyfile", "copy2", "truncate", "chmod", "symlink_to",
                      "makedirs", "removedirs"}


def is_mutable_expr(e: ast.AST) -> bool:
    if isinstance(e, (ast.Dict, ast.List, ast.Set, ast.ListComp, ast.DictComp, ast.SetComp)):
        return True
    if isinstance(e, ast.Call):
        f = e.func
        n = f.id if isinstance(f, ast.Name) else (f.attr if isinstance(f, ast.Attribute) else None)
        return n in MUT_CALLS
    return False


def modname(p: pathlib.Path) -> str:
    parts = list(p.relative_to(REPO).with_suffix("").parts)
    if parts[-1] == "__init__":
        parts = parts[:-1]
    return ".".join(parts)


def path_of(m: str) -> Optional[pathlib.Path]:
    p = REPO / (m.replace(".", "/") + ".py")
    if p.exists():
        return p
    p = REPO / m.replace(".", "/") / "__init__.py"
    return p if p.exists() else None


def parse(p: pathlib.Path) -> ast.Module:
    with warnings.catch_warnings():
        warnings.simplefilter("ignore")
        return ast.parse(p.read_text(), filename=str(p))


def midgard_imports(tree: ast.Module, mod: str, is_pkg: bool) -> Set[str]:
    out: Set[str] = set()
    for n in ast.walk(tree):
        if isinstance(n, ast.Import):
            for a in n.names:
                if a.name.split(".")[0] == "midgard":
                    out.add(a.name)
        elif isinstance(n, ast.ImportFrom):
            base = n.module or ""
            if n.level:
                pk = mod.split(".") if is_pkg else mod.split(".")[:-1]
                pk = pk[: len(pk) - (n.level - 1)]
                base = ".".join(pk + ([base] if base else []))
            if base.split(".")[0] == "midgard":
                out.add(base)
                for a in n.names:
                    out.add(base + "." + a.name)
    return out


def scan_set() -> Dict[str, pathlib.Path]:
    seen: Dict[str, pathlib.Path] = {}
    todo = [modname(p) for p in sorted((REPO / "midgard" / "parsers").glob("*.py"))]
    todo += ["midgard.dev.plugins", "midgard.writers", "midgard.data.fieldtypes", "midgard.files.files",
             "midgard.files.dependencies"]
    # every module of the packages parsers are built from, imported by a parser today or not: a new cache there is one
    # import away from a parser
    for pkg in ("gnss", "files", "dev"):
        todo += [modname(p) for p in sorted((REPO / "midgard" / pkg).glob("*.py"))]
    while todo:
        m = todo.pop()
        if m in seen:
            continue
        p = path_of(m)
        if p is None:
            continue
        seen[m] = p
        todo.extend(midgard_imports(parse(p), m, p.name == "__init__.py"))
    return seen


def module_level_imports(tree: ast.Module, mod: str, is_pkg: bool) -> Set[str]:
    """midgard imports executed when the module is imported (not those inside function bodies)"""
    out: Set[str] = set()

    def visit(node):
        for c in ast.iter_child_nodes(node):
            if isinstance(c, (ast.FunctionDef, ast.AsyncFunctionDef, ast.Lambda)):
                continue
            if isinstance(c, (ast.Import, ast.ImportFrom)):
                m = ast.Module(body=[c], type_ignores=[])
                out.update(midgard_imports(m, mod, is_pkg))
            visit(c)

    visit(tree)
    return out


def plugin_import_closure() -> Dict[str, List[str]]:
    pk = REPO / "midgard" / "parsers"
    stems = sorted(p.stem for p in pk.glob("*.py") if not p.stem.startswith("_"))
    direct: Dict[str, Set[str]] = {}
    for st in stems:
        imps = module_level_imports(parse(pk / f"{st}.py"), f"midgard.parsers.{st}", False)
        d = set()
        for i in imps:
            parts = i.split(".")
            if parts[:2] == ["midgard", "parsers"] and len(parts) >= 3 and parts[2] in stems and parts[2] != st:
                d.add(parts[2])
        direct[st] = d
    clo: Dict[str, List[str]] = {}
    for st in stems:
        seen: Set[str] = set()
        todo = list(direct[st])
        while todo:
            x = todo.pop()
            if x in seen or x == st:
                continue
            seen.add(x)
            todo.extend(direct[x])
        clo[st] = sorted(seen)
    return clo


PURE_CONSUMERS = {"len", "sorted", "list", "dict", "tuple", "set", "frozenset", "iter", "enumerate", "zip", "sum", "min", "max",
                  "any", "all", "str", "repr", "print", "isinstance", "bool", "reversed", "map", "filter", "array", "asarray",
                  "join", "format", "OrderedDict", "deepcopy", "type", "id", "hash"}


def escape_how(n: ast.AST, parent: Dict[int, ast.AST]) -> Optional[str]:
    """how the object a bare reference `n` denotes leaves the expression it stands in (None: it does not - it is only
    indexed, iterated, compared, unpacked, formatted, copied by a pure consumer, or its attribute/method is used)"""
    pa = parent.get(id(n))
    if pa is None:
        return None
    if isinstance(pa, ast.Attribute) and pa.value is n:
        return None
    if isinstance(pa, ast.Subscript):
        return None if pa.value is n else "index"
    if isinstance(pa, (ast.Compare, ast.BoolOp, ast.UnaryOp, ast.FormattedValue, ast.JoinedStr, ast.Starred, ast.Expr, ast.Delete,
                       ast.Assert, ast.BinOp)):
        return None
    if isinstance(pa, (ast.If, ast.While, ast.IfExp)) and pa.test is n:
        return None
    if isinstance(pa, (ast.For, ast.AsyncFor, ast.comprehension)) and pa.iter is n:
        return None
    if isinstance(pa, ast.keyword):
        if pa.arg is None:
            return None  # **cell: unpacked into a new mapping
        call = parent.get(id(pa))
        return f"argument {pa.arg}= of {ast.unparse(call.func) if isinstance(call, ast.Call) else '?'}"
    if isinstance(pa, ast.Call):
        if pa.func is n:
            return None
        fn = pa.func
        nm = fn.id if isinstance(fn, ast.Name) else (fn.attr if isinstance(fn, ast.Attribute) else "")
        if nm in PURE_CONSUMERS:
            return None
        return f"argument of {ast.unparse(fn)}"
    if isinstance(pa, ast.Return):
        return "returned"
    if isinstance(pa, (ast.Yield, ast.YieldFrom)):
        return "yielded"
    if isinstance(pa, (ast.Assign, ast.AnnAssign, ast.AugAssign, ast.NamedExpr)):
        if getattr(pa, "value", None) is n:
            tg = pa.targets[0] if isinstance(pa, ast.Assign) else pa.target
            return f"bound to {ast.unparse(tg)}"
        return None
    if isinstance(pa, (ast.Dict, ast.List, ast.Tuple, ast.Set)):
        return "stored in a container literal"
    if isinstance(pa, ast.withitem):
        return None
    return f"used in {type(pa).__name__}"


class Cell:
    def __init__(self, cid: str, kind: str, line: int):
        self.id = cid
        self.kind = kind
        self.line = line
        self.writes: List[str] = []  # "qualname:line"
        self.reads: List[str] = []
        self.escapes: List[str] = []  # "qualname:line:how"

    @property
    def level(self) -> str:
        return {"module": "module", "global": "module", "class": "class", "funcattr": "function", "default": "function",
                "lrucache": "function", "closure": "closure"}[self.kind]


def root_name(e: ast.AST) -> Optional[Tuple[str, List[str]]]:
    """`a.b.c[...]` → ("a", ["b", "c"])"""
    attrs: List[str] = []
    while True:
        if isinstance(e, ast.Attribute):
            attrs.append(e.attr)
            e = e.value
        elif isinstance(e, ast.Subscript):
            e = e.value
        elif isinstance(e, ast.Call):
            return None
        elif isinstance(e, ast.Name):
            return e.id, attrs[::-1]
        else:
            return None


class ModuleScan:
    def __init__(self, mod: str, path: pathlib.Path):
        self.mod = mod
        self.path = path
        self.tree = parse(path)
        self.cells: Dict[str, Cell] = {}
        self.module_names: Dict[str, str] = {}  # local name → cell id
        self.class_attrs: Dict[str, Dict[str, str]] = {}  # class → attr → cell id
        self.funcattr: Dict[str, str] = {}  # attr name → cell id (attributes set on function objects)
        self.file_writes: List[str] = []
        self.closure_cells: Dict[Tuple[str, str], str] = {}  # (outer function, local name) → cell id
        self.decorator_names: Set[str] = set()  # names used in decorator position in this module
        self.inst: Dict[str, Dict[str, Dict]] = {}  # class → attribute → {"bind": [(method, line)], "mut": […], "alias": bool, "lazy": […]}
        self.collect_cells()
        self.collect_uses()
        if self.mod.startswith("midgard.parsers"):
            self.collect_instance_cells()

    def cross_module_class_writes(self, by_attr: Dict[str, List["Cell"]], bases: Dict[str, Set[str]]):
        """`self.<attr>` / `cls.<attr>` mutated in a class of this module where <attr> is a class-level mutable
        object of an ancestor class defined in *another* scanned module (classes and bases are matched by simple
        name across the scan set - an over-approximation)"""
        own = {a for d in self.class_attrs.values() for a in d}

        def ancestors(c: str) -> Set[str]:
            seen: Set[str] = set()
            todo = [c]
            while todo:
                x = todo.pop()
                for b in bases.get(x, ()):
                    if b not in seen:
                        seen.add(b)
                        todo.append(b)
            return seen

        for cls in [n for n in ast.walk(self.tree) if isinstance(n, ast.ClassDef)]:
            anc = ancestors(cls.name)
            for f in [n for n in ast.walk(cls) if isinstance(n, (ast.FunctionDef, ast.AsyncFunctionDef))]:
                assigned_in_init = set()
                for n in ast.walk(f):
                    targets = []
                    if isinstance(n, (ast.Assign, ast.AugAssign, ast.AnnAssign)):
                        ts = n.targets if isinstance(n, ast.Assign) else [n.target]
                        for t in ts:
                            targets += list(t.elts) if isinstance(t, (ast.Tuple, ast.List)) else [t]
                        targets = [t for t in targets if isinstance(t, ast.Subscript)]
                    elif isinstance(n, ast.Delete):
                        targets = [t for t in n.targets if isinstance(t, ast.Subscript)]
                    elif isinstance(n, ast.Call) and isinstance(n.func, ast.Attribute) and n.func.attr in MUT_METHODS:
                        targets = [n.func.value]
                    for t in targets:
                        r = root_name(t)
                        if r and r[0] in ("self", "cls") and r[1] and r[1][0] in by_attr and r[1][0] not in own:
                            for c in by_attr[r[1][0]]:
                                if c.id.split(":")[1].split(".")[0] not in anc:
                                    continue
                                c.writes.append(f"{self.mod}:{cls.name}.{f.name}:{n.lineno}")

    def classify_file_writes(self) -> Tuple[List[str], List[str]]:
        """(unguarded, guarded) - a site is *guarded* when its function is a method that is called in this module
        only inside the body of `if not self.file_path.exists() [or … st_size == 0]:` (download of a missing or
        empty input; a file with content is never touched)."""
        guarded_calls: Dict[str, int] = {}
        all_calls: Dict[str, int] = {}
        for n in ast.walk(self.tree):
            if isinstance(n, ast.Call) and isinstance(n.func, ast.Attribute) and isinstance(n.func.value, ast.Name) \
                    and n.func.value.id == "self":
                all_calls[n.func.attr] = all_calls.get(n.func.attr, 0) + 1
        for n in ast.walk(self.tree):
            if isinstance(n, ast.If) and ast.unparse(n.test) in GUARDS:
                for s in n.body:
                    for c in ast.walk(s):
                        if isinstance(c, ast.Call) and isinstance(c.func, ast.Attribute) \
                                and isinstance(c.func.value, ast.Name) and c.func.value.id == "self":
                            guarded_calls[c.func.attr] = guarded_calls.get(c.func.attr, 0) + 1
        ung, gua = [], []
        for qual, line, what in self.file_writes:
            meth = qual.split(".")[-1]
            text = f"{self.mod}:{qual}:{what}"
            if "." in qual and all_calls.get(meth, 0) > 0 and all_calls.get(meth) == guarded_calls.get(meth):
                gua.append(text)
            else:
                ung.append(text)
        return ung, gua

    def add(self, local: str, kind: str, line: int) -> Cell:
        cid = f"{self.mod}:{local}"
        c = self.cells.get(cid)
        if c is None:
            c = self.cells[cid] = Cell(cid, kind, line)
        return c

    # ---- cells
    def collect_cells(self):
        for n in self.tree.body:
            self.top_stmt(n)
        for n in ast.walk(self.tree):
            if isinstance(n, (ast.FunctionDef, ast.AsyncFunctionDef)):
                self.func_cells(n)

    def top_stmt(self, n: ast.stmt):
        if isinstance(n, (ast.Assign, ast.AnnAssign)):
            targets = n.targets if isinstance(n, ast.Assign) else [n.target]
            if n.value is not None and is_mutable_expr(n.value):
                for t in targets:
                    if isinstance(t, ast.Name):
                        self.module_names[t.id] = self.add(t.id, "module", n.lineno).id
        elif isinstance(n, ast.ClassDef):
            for s in n.body:
                if isinstance(s, (ast.Assign, ast.AnnAssign)):
                    targets = s.targets if isinstance(s, ast.Assign) else [s.target]
                    if s.value is not None and is_mutable_expr(s.value):
                        for t in targets:
                            if isinstance(t, ast.Name):
                                c = self.add(f"{n.name}.{t.id}", "class", s.lineno)
                                self.class_attrs.setdefault(n.name, {})[t.id] = c.id
        elif isinstance(n, (ast.If, ast.Try)):
            for s in ast.iter_child_nodes(n):
                if isinstance(s, ast.stmt):
                    self.top_stmt(s)

    def func_cells(self, f: ast.FunctionDef):
        # mutable defaults
        args = f.args
        pos = args.posonlyargs + args.args
        mdefs = [(a, d) for a, d in zip(pos[len(pos) - len(args.defaults):], args.defaults) if is_mutable_expr(d)]
        mdefs += [(a, d) for a, d in zip(args.kwonlyargs, args.kw_defaults) if d is not None and is_mutable_expr(d)]
        for a, d in mdefs:
            c = self.add(f"{f.name}(default {a.arg})", "default", d.lineno)
            # the default object escapes (stored on self / another name) or is mutated in place: it is then one
            # object shared by every call that omits the argument
            for n in ast.walk(f):
                if isinstance(n, (ast.Assign, ast.AnnAssign)) and isinstance(n.value, ast.Name) and n.value.id == a.arg:
                    c.writes.append(f"{f.name}:{n.lineno}:aliased")
                elif isinstance(n, ast.Call) and isinstance(n.func, ast.Attribute) and n.func.attr in MUT_METHODS:
                    r = root_name(n.func.value)
                    if r and r[0] == a.arg:
                        c.writes.append(f"{f.name}:{n.lineno}")
                elif isinstance(n, (ast.Assign, ast.AugAssign)):
                    for t in (n.targets if isinstance(n, ast.Assign) else [n.target]):
                        if isinstance(t, ast.Subscript):
                            r = root_name(t)
                            if r and r[0] == a.arg:
                                c.writes.append(f"{f.name}:{n.lineno}")
        # caching decorators
        for d in f.decorator_list:
            e = d.func if isinstance(d, ast.Call) else d
            n = e.id if isinstance(e, ast.Name) else (e.attr if isinstance(e, ast.Attribute) else None)
            if n in CACHE_DECOS:
                c = self.add(f"{f.name}@{n}", "lrucache", f.lineno)
                c.writes.append(f"{f.name}:{f.lineno}")
                c.reads.append(f"{f.name}:{f.lineno}")
                # a memo is transparent only for a function of its arguments: flag bodies that look at the file system,
                # the clock, the environment or a module-level mutable object
                for x in ast.walk(f):
                    if isinstance(x, ast.Call):
                        fn = x.func
                        nm = fn.id if isinstance(fn, ast.Name) else (fn.attr if isinstance(fn, ast.Attribute) else "")
                        if nm in {"open", "read_text", "read_bytes", "exists", "stat", "now", "today", "getenv", "glob", "iterdir",
                                  "urlopen", "time", "listdir", "is_file"}:
                            c.escapes.append(f"{f.name}:{x.lineno}:memoised function calls {ast.unparse(fn)}")
        local_funcs = {a.arg for a in pos + args.kwonlyargs}
        for n in ast.walk(f):
            # global declarations
            if isinstance(n, ast.Global):
                for name in n.names:
                    c = self.add(name, "global", n.lineno)
                    self.module_names[name] = c.id
            # attributes set on a function object: `<param or def name>.<attr> = …` where the value is mutable
            if isinstance(n, ast.Assign) and is_mutable_expr(n.value):
                for t in n.targets:
                    if isinstance(t, ast.Attribute) and isinstance(t.value, ast.Name) and t.value.id != "self" \
                            and t.value.id != "cls" and t.value.id in local_funcs:
                        c = self.add(f"{f.name}.<{t.value.id}>.{t.attr}", "funcattr", n.lineno)
                        self.funcattr[(f.name, t.value.id, t.attr)] = c.id
        for d in f.decorator_list:
            e = d.func if isinstance(d, ast.Call) else d
            dn = e.id if isinstance(e, ast.Name) else (e.attr if isinstance(e, ast.Attribute) else None)
            if dn:
                self.decorator_names.add(dn)
        self.closure_cells_of(f)

    def closure_cells_of(self, f: ast.FunctionDef):
        """mutable locals of `f` that a nested function keeps using (writes / reads / escapes counted inside the nested
        functions only - that is the code that runs later, once per call of the wrapper)"""
        nested = [n for n in ast.walk(f) if n is not f and isinstance(n, (ast.FunctionDef, ast.AsyncFunctionDef, ast.Lambda))]
        if not nested:
            return
        inner_nodes = {id(x) for g in nested for x in ast.walk(g)}
        own: Dict[str, int] = {}
        for n in ast.walk(f):
            if id(n) in inner_nodes:
                continue
            if isinstance(n, (ast.Assign, ast.AnnAssign)) and n.value is not None and is_mutable_expr(n.value):
                for t in (n.targets if isinstance(n, ast.Assign) else [n.target]):
                    if isinstance(t, ast.Name):
                        own[t.id] = n.lineno
        for name, line in own.items():
            users = []
            for g in nested:
                gargs = g.args
                glocals = {a.arg for a in gargs.posonlyargs + gargs.args + gargs.kwonlyargs}
                glocals |= {x.id for x in ast.walk(g) if isinstance(x, ast.Name) and isinstance(x.ctx, ast.Store)}
                nonlocal_ = {nm for x in ast.walk(g) if isinstance(x, ast.Nonlocal) for nm in x.names}
                if name in glocals and name not in nonlocal_:
                    continue
                if any(isinstance(x, ast.Name) and x.id == name for x in ast.walk(g)):
                    users.append(g)
            if not users:
                continue
            c = self.add(f"{f.name}.<closure>.{name}", "closure", line)
            self.closure_cells[(f.name, name)] = c.id
            for g in users:
                gq = f"{f.name}.{getattr(g, 'name', '<lambda>')}"
                parent = {id(ch): pa for pa in ast.walk(g) for ch in ast.iter_child_nodes(pa)}
                for x in ast.walk(g):
                    if isinstance(x, ast.Name) and x.id == name:
                        pa = parent.get(id(x))
                        if isinstance(x.ctx, ast.Store) or (isinstance(pa, ast.Subscript) and isinstance(pa.ctx, (ast.Store, ast.Del)) and pa.value is x):
                            c.writes.append(f"{gq}:{x.lineno}")
                        elif isinstance(pa, ast.Attribute) and pa.attr in MUT_METHODS and isinstance(parent.get(id(pa)), ast.Call):
                            c.writes.append(f"{gq}:{x.lineno}")
                        else:
                            site = f"{gq}:{x.lineno}"
                            if site not in c.reads:
                                c.reads.append(site)
                        how = escape_how(x, parent)
                        if how and isinstance(x.ctx, ast.Load):
                            c.escapes.append(f"{gq}:{x.lineno}:{how}")

    # ---- instance cells of parser classes
    def collect_instance_cells(self):
        in_class = set()
        groups = []
        for cls in [n for n in self.tree.body if isinstance(n, ast.ClassDef)]:
            ms_ = [n for n in ast.walk(cls) if isinstance(n, (ast.FunctionDef, ast.AsyncFunctionDef))]
            in_class |= {id(m) for m in ms_}
            groups.append((cls.name, [m for m in cls.body if isinstance(m, (ast.FunctionDef, ast.AsyncFunctionDef))]))
        # functions outside classes that take `self` (decorator wrappers such as parser_cache's): pseudo class "*"
        loose = [n for n in ast.walk(self.tree) if isinstance(n, (ast.FunctionDef, ast.AsyncFunctionDef)) and id(n) not in in_class
                 and any(a.arg == "self" for a in n.args.posonlyargs + n.args.args)]
        if loose:
            groups.append(("*", loose))
        for cname, methods in groups:
            rec = self.inst.setdefault(cname, {})
            for m in methods:
                mut_defaults = {a.arg for a, d in zip((m.args.posonlyargs + m.args.args)[len(m.args.posonlyargs + m.args.args) - len(m.args.defaults):], m.args.defaults) if is_mutable_expr(d)}
                for n in ast.walk(m):
                    if isinstance(n, (ast.Assign, ast.AnnAssign, ast.AugAssign)):
                        targets = n.targets if isinstance(n, ast.Assign) else [n.target]
                        flat = []
                        for t in targets:
                            flat += list(t.elts) if isinstance(t, (ast.Tuple, ast.List)) else [t]
                        for t in flat:
                            if isinstance(t, ast.Attribute) and isinstance(t.value, ast.Name) and t.value.id == "self":
                                r = rec.setdefault(t.attr, {"bind": [], "mut": [], "alias": False, "lazy": []})
                                r["bind"].append((m.name, n.lineno))
                                v = getattr(n, "value", None)
                                if isinstance(v, ast.Name) and v.id in mut_defaults:
                                    r["alias"] = True
                                elif isinstance(v, (ast.Name, ast.Attribute)) and self.resolve_bare(v) is not None:
                                    r["alias"] = True
                            elif isinstance(t, ast.Subscript):
                                rn = root_name(t)
                                if rn and rn[0] == "self" and rn[1]:
                                    r = rec.setdefault(rn[1][0], {"bind": [], "mut": [], "alias": False, "lazy": []})
                                    r["mut"].append((m.name, n.lineno))
                    elif isinstance(n, ast.Call) and isinstance(n.func, ast.Attribute):
                        rn = root_name(n.func.value)
                        if n.func.attr in MUT_METHODS and rn and rn[0] == "self" and rn[1]:
                            if rn[1][0] == "__dict__":
                                if n.func.attr == "setdefault" and n.args and isinstance(n.args[0], ast.Constant) and len(rn[1]) == 1:
                                    r = rec.setdefault(str(n.args[0].value), {"bind": [], "mut": [], "alias": False, "lazy": []})
                                    r["lazy"].append((m.name, n.lineno))
                                    r["mut"].append((m.name, n.lineno))
                            else:
                                r = rec.setdefault(rn[1][0], {"bind": [], "mut": [], "alias": False, "lazy": []})
                                r["mut"].append((m.name, n.lineno))
                        if isinstance(n.func.value, ast.Name) and n.func.value.id == "setattr":
                            pass
                    if isinstance(n, ast.Call) and isinstance(n.func, ast.Name) and n.func.id == "setattr" and n.args \
                            and isinstance(n.args[0], ast.Name) and n.args[0].id == "self":
                        nm = str(n.args[1].value) if len(n.args) > 1 and isinstance(n.args[1], ast.Constant) else "<dynamic>"
                        r = rec.setdefault(nm, {"bind": [], "mut": [], "alias": False, "lazy": []})
                        r["bind"].append((m.name, n.lineno))

    def resolve_bare(self, e: ast.AST) -> Optional[str]:
        """the cell a bare reference (`NAME`, `self.X`, `cls.X`, `Class.X`) denotes, None for anything else"""
        r = root_name(e)
        if r is None:
            return None
        name, attrs = r
        if isinstance(e, ast.Name) and not attrs:
            return self.module_names.get(name)
        if isinstance(e, ast.Attribute) and len(attrs) == 1 and isinstance(e.value, ast.Name):
            if name in ("self", "cls"):
                for cn, d in self.class_attrs.items():
                    if attrs[0] in d:
                        return d[attrs[0]]
            if name in self.class_attrs and attrs[0] in self.class_attrs[name]:
                return self.class_attrs[name][attrs[0]]
        return None

    # ---- uses
    def collect_uses(self):
        for n in self.tree.body:
            if isinstance(n, (ast.FunctionDef, ast.AsyncFunctionDef)):
                self.uses_in_func(n, n.name, None)
            elif isinstance(n, ast.ClassDef):
                for s in ast.walk(n):
                    if isinstance(s, (ast.FunctionDef, ast.AsyncFunctionDef)):
                        self.uses_in_func(s, f"{n.name}.{s.name}", n.name)

    def resolve(self, e: ast.AST, fname: str, cls: Optional[str], globals_declared: Set[str],
                local_names: Set[str]) -> Optional[str]:
        r = root_name(e)
        if r is None:
            return None
        name, attrs = r
        if name in ("self", "cls") and attrs:
            # class-level attribute reached through the instance/class; look in every class of this module
            # (inheritance inside the module is resolved by name only)
            for cn, d in self.class_attrs.items():
                if attrs[0] in d:
                    return d[attrs[0]]
            return None
        if name in self.class_attrs and attrs and attrs[0] in self.class_attrs[name]:
            return self.class_attrs[name][attrs[0]]
        if attrs:
            key = (fname.split(".")[-1], name, attrs[0])
            for (fn, pn, an), cid in self.funcattr.items():
                if pn == name and an == attrs[0]:
                    return cid
        if name in self.module_names and (name not in local_names or name in globals_declared):
            return self.module_names[name]
        return None

    def uses_in_func(self, f: ast.FunctionDef, qual: str, cls: Optional[str]):
        globals_declared: Set[str] = set()
        local_names: Set[str] = {a.arg for a in f.args.posonlyargs + f.args.args + f.args.kwonlyargs}
        if f.args.vararg:
            local_names.add(f.args.vararg.arg)
        if f.args.kwarg:
            local_names.add(f.args.kwarg.arg)
        for n in ast.walk(f):
            if isinstance(n, ast.Global):
                globals_declared.update(n.names)
        for n in ast.walk(f):
            if isinstance(n, ast.Name) and isinstance(n.ctx, ast.Store) and n.id not in globals_declared:
                local_names.add(n.id)

        def w(e, line):
            cid = self.resolve(e, qual, cls, globals_declared, local_names)
            if cid:
                self.cells[cid].writes.append(f"{qual}:{line}")

        for n in ast.walk(f):
            if isinstance(n, (ast.Assign, ast.AugAssign, ast.AnnAssign)):
                targets = n.targets if isinstance(n, ast.Assign) else [n.target]
                for t in targets:
                    for tt in (t.elts if isinstance(t, (ast.Tuple, ast.List)) else [t]):
                        if isinstance(tt, ast.Subscript):
                            w(tt, n.lineno)
                        elif isinstance(tt, ast.Attribute):
                            # rebinding / mutating `X.attr` where X.attr is a cell
                            w(tt, n.lineno)
                        elif isinstance(tt, ast.Name) and tt.id in globals_declared:
                            w(tt, n.lineno)
                        elif isinstance(tt, ast.Name) and isinstance(n, ast.AugAssign) and tt.id in globals_declared:
                            w(tt, n.lineno)
            elif isinstance(n, ast.Delete):
                for t in n.targets:
                    if isinstance(t, (ast.Subscript, ast.Attribute)):
                        w(t, n.lineno)
            elif isinstance(n, ast.Call) and isinstance(n.func, ast.Attribute):
                if n.func.attr in MUT_METHODS:
                    w(n.func.value, n.lineno)
                if n.func.attr in FILE_WRITE_METHODS and self.mod.startswith("midgard.parsers"):
                    # `.replace`/`.copy`/`.remove`/`.move` on strings/lists/arrays are ubiquitous; count them only
                    # for receivers that are paths or file-system modules (by the root name of the receiver)
                    recv = ast.unparse(n.func.value)
                    r = root_name(n.func.value)
                    last = (r[1][-1] if r and r[1] else (r[0] if r else "")).lower()
                    pathish = bool(r) and (r[0] in {"shutil", "os", "files", "pathlib"} or last.endswith("path")
                                           or last in {"fid", "path"})
                    if n.func.attr in {"replace", "copy", "remove", "move", "rename"} and not pathish:
                        pass
                    else:
                        self.file_writes.append((qual, n.lineno, f"{recv}.{n.func.attr}"))
            if isinstance(n, ast.Call):
                fn = n.func
                nm = fn.id if isinstance(fn, ast.Name) else (fn.attr if isinstance(fn, ast.Attribute) else "")
                if nm == "open" and self.mod.startswith("midgard.parsers"):
                    mode = None
                    if len(n.args) >= 2 and isinstance(n.args[1], ast.Constant):
                        mode = n.args[1].value
                    for k in n.keywords:
                        if k.arg == "mode":
                            mode = k.value.value if isinstance(k.value, ast.Constant) else "?"
                    if mode is not None and (not isinstance(mode, str) or any(c in mode for c in "wax+?")):
                        self.file_writes.append((qual, n.lineno, f"open(mode={mode!r})"))
        # reads: any Load of a cell name inside this function
        for n in ast.walk(f):
            if isinstance(n, (ast.Name, ast.Attribute)) and isinstance(getattr(n, "ctx", None), ast.Load):
                cid = self.resolve(n, qual, cls, globals_declared, local_names)
                if cid:
                    site = f"{qual}:{n.lineno}"
                    if site not in self.cells[cid].reads:
                        self.cells[cid].reads.append(site)
        parent = {id(ch): pa for pa in ast.walk(f) for ch in ast.iter_child_nodes(pa)}
        for n in ast.walk(f):
            if isinstance(n, (ast.Name, ast.Attribute)) and isinstance(getattr(n, "ctx", None), ast.Load):
                if isinstance(n, ast.Name) and (n.id in local_names and n.id not in globals_declared):
                    continue
                cid = self.resolve_bare(n)
                if cid and self.cells[cid].kind in ("module", "global", "class"):
                    how = escape_how(n, parent)
                    if how:
                        self.cells[cid].escapes.append(f"{qual}:{n.lineno}:{how}")


# -------------------------------------------------------------------------------------------------
# dynamic part: load every listed plug-in in a subprocess

LOADER = r"""
import sys, json, inspect, warnings, io, contextlib
sys.path.insert(0, sys.argv[1])
warnings.filterwarnings("ignore")
out = {}
def kind_parser(fn, Parser):
    # advertised use: parsers.parse_file(name, path) calls plugin(file_path=path, encoding=None) and then
    # .parse() on what comes back - so the plug-in must accept exactly that call and yield a Parser
    try:
        inspect.signature(fn).bind(file_path="x", encoding=None)
    except (TypeError, ValueError):
        return "broken"
    if inspect.isclass(fn):
        return "parserClass" if issubclass(fn, Parser) else "broken"
    if inspect.isfunction(fn):
        ann = fn.__annotations__.get("return")
        if inspect.isclass(ann) and issubclass(ann, Parser):
            return "parserFactory"
        return "broken"
    return "broken"
with contextlib.redirect_stdout(io.StringIO()):
    try:
        from midgard.dev import plugins
        from midgard import parsers, writers
        from midgard.data import fieldtypes
        from midgard.data.fieldtypes._fieldtype import FieldType
        import pathlib
        for label, pkg, lister in (("parsers", "midgard.parsers", parsers.names), ("writers", "midgard.writers", writers.names),
                                   ("fieldtypes", "midgard.data.fieldtypes", fieldtypes.names)):
            rows = []
            try:
                names = list(lister())
                err = ""
            except BaseException as e:
                names, err = [], f"{type(e).__name__}: {e}"
            for n in names:
                try:
                    pl = plugins.get(pkg, n)
                    fn = pl.function
                    if label == "parsers":
                        k = kind_parser(fn, parsers.Parser)
                    elif label == "writers":
                        k = "writerFunction" if inspect.isfunction(fn) else "broken"
                    else:
                        k = "fieldTypeClass" if inspect.isclass(fn) and issubclass(fn, FieldType) and hasattr(fn, "dtype") \
                            and fieldtypes.function(n) is fn else "broken"
                    mod = fn.__module__
                    if mod != f"{pkg}.{n}":
                        k = "broken"
                    rows.append([n, k])
                except BaseException as e:
                    rows.append([n, "broken"])
            pkgdir = pathlib.Path(sys.modules[pkg].__file__).parent
            stems = sorted(p.stem for p in pkgdir.glob("*.py") if not p.stem.startswith("_"))
            out[label] = {"rows": rows, "list_error": err, "stems": stems}
    except BaseException as e:
        out["fatal"] = f"{type(e).__name__}: {e}"
print(json.dumps(out))
"""


def load_plugins() -> Dict:
    p = subprocess.run([sys.executable, "-c", LOADER, str(REPO)], capture_output=True, text=True, timeout=300)
    last = p.stdout.strip().splitlines()[-1] if p.stdout.strip() else ""
    try:
        return json.loads(last)
    except Exception:
        return {"fatal": (p.stderr or p.stdout)[-400:]}


# -------------------------------------------------------------------------------------------------


def lean_str(s: str) -> str:
    return '"' + s.replace("\\", "\\\\").replace('"', '\\"') + '"'


def lean_list(items: List[str], indent: str = "  ") -> str:
    if not items:
        return "[]"
    return "[\n" + ",\n".join(indent + i for i in items) + "]"


def generate() -> Tuple[str, Dict]:
    mods = scan_set()
    cells: List[Cell] = []
    file_writes: List[str] = []
    guarded_sites: List[str] = []
    scans = [ModuleScan(m, mods[m]) for m in sorted(mods)]
    by_attr: Dict[str, List[Cell]] = {}
    for ms in scans:
        for c in ms.cells.values():
            if c.kind == "class":
                by_attr.setdefault(c.id.rsplit(".", 1)[-1], []).append(c)
    bases: Dict[str, Set[str]] = {}
    for ms in scans:
        for n in ast.walk(ms.tree):
            if isinstance(n, ast.ClassDef):
                for b in n.bases:
                    bn = b.id if isinstance(b, ast.Name) else (b.attr if isinstance(b, ast.Attribute) else None)
                    if bn:
                        bases.setdefault(n.name, set()).add(bn)
    for ms in scans:
        ms.cross_module_class_writes(by_attr, bases)
        cells += list(ms.cells.values())
        u, g = ms.classify_file_writes()
        file_writes += u
        guarded_sites += g
    closure = plugin_import_closure()
    cells.sort(key=lambda c: c.id)
    effects = [c for c in cells if c.writes]
    plug = load_plugins()
    # closure cells are process-wide only when the outer function runs at import time: used as a decorator somewhere
    deco = set()
    for ms in scans:
        deco |= ms.decorator_names
    cells = [c for c in cells if c.kind != "closure" or c.id.split(":")[1].split(".")[0] in deco]
    effects = [c for c in cells if c.writes]
    rows = []
    for c in cells:
        rows.append(f"⟨{lean_str(c.id)}, .{c.kind}, .{c.level}, {len(c.writes)}, {len(c.reads)}, {len(c.escapes)}⟩")
    # instance cells of the parser classes
    cls_mod: Dict[str, str] = {}
    for ms in scans:
        for cn in ms.inst:
            cls_mod.setdefault(cn, ms.mod)
    class_cells_by_class: Dict[str, Set[str]] = {}
    for ms in scans:
        for cn, d in ms.class_attrs.items():
            class_cells_by_class.setdefault(cn, set()).update(d)

    def mro(cn: str) -> List[str]:
        seen, todo = [], [cn]
        while todo:
            x = todo.pop(0)
            if x in seen:
                continue
            seen.append(x)
            todo.extend(sorted(bases.get(x, ())))
        return seen

    inst_rows = []
    inst_info = {}
    for ms in scans:
        for cn, attrs in sorted(ms.inst.items()):
            chain = mro(cn)
            for attr, r in sorted(attrs.items()):
                ctor = any(any(m == "__init__" for m, _ in sc.inst.get(a, {}).get(attr, {"bind": []})["bind"])
                           for a in chain for sc in scans if a in sc.inst)
                created = sorted({m for m, _ in r["bind"] + r["lazy"] if m != "__init__"})
                shadows = (not ctor) and any(attr in class_cells_by_class.get(a, ()) for a in chain)
                rid = f"{ms.mod}:{cn}.self.{attr}"
                inst_rows.append(f"⟨{lean_str(rid)}, {'true' if ctor else 'false'}, {lean_str(','.join(created))}, "
                                 f"{'true' if shadows else 'false'}, {'true' if r['alias'] else 'false'}⟩")
                inst_info[rid] = {"ctor": ctor, "created_in": created, "shadows_class_cell": shadows, "alias_of_shared": r["alias"]}
    out = []
    out.append("/-\nGENERATED by translator/extract_effects.py from the working tree of midgard - do not edit.\n"
               "Process-wide mutable state of the modules reachable from parsing (static `ast` scan), the per-object state of\n"
               "the parser classes, and the plug-in name lists with the kind every listed name resolves to (each one was\n"
               "really loaded).\n-/")
    out.append("namespace Midgard.Generated.ParserEffects\n")
    out.append("inductive CellKind where\n  | module | «class» | funcattr | default | global | lrucache | closure\n  deriving DecidableEq, Repr\n")
    out.append("/-- where the object lives: one per module, per class, per function object (attribute, default argument, memo),\n"
               "per decorated function (closure of a decorator), per parser object -/\n"
               "inductive Level where\n  | module | «class» | function | closure | «instance»\n  deriving DecidableEq, Repr\n")
    out.append("structure CellRow where\n  id : String\n  kind : CellKind\n  level : Level\n  writeSites : Nat\n  readSites : Nat\n"
               "  /-- sites where the object itself is returned / bound / stored / handed to a call that is no pure consumer;\n"
               "  for a memo: calls by which the memoised function looks at something that is not an argument -/\n"
               "  escapeSites : Nat\n  deriving DecidableEq, Repr\n")
    out.append("/-- an attribute bound or mutated through `self` in a class of midgard/parsers -/\n"
               "structure InstRow where\n  id : String\n  /-- bound in `__init__` of the class or an ancestor -/\n  ctorInit : Bool\n"
               "  /-- the other methods that bind / create it -/\n  createdIn : String\n"
               "  /-- not bound in `__init__` and the name is a class-level mutable object of the class or an ancestor -/\n"
               "  shadowsClassCell : Bool\n  /-- bound to a module-level or class-level object or a mutable default argument -/\n"
               "  aliasOfShared : Bool\n  deriving DecidableEq, Repr\n")
    out.append("inductive PluginKind where\n  | parserClass | parserFactory | writerFunction | fieldTypeClass | broken\n  deriving DecidableEq, Repr\n")
    out.append(f"/-- modules scanned: {len(mods)} -/\ndef scannedModules : Nat := {len(mods)}\n")
    out.append("/-- every mutable process-wide object found (constant tables included) -/\ndef cells : List CellRow := "
               + lean_list([r.replace(".class,", ".«class»,") for r in rows]) + "\n")
    out.append("/-- per-object state of the parser classes -/\ndef instanceCells : List InstRow := " + lean_list(inst_rows) + "\n")
    for c in cells:
        if c.escapes:
            out.append(f"-- {c.id}: escapes {', '.join(c.escapes[:6])}{' …' if len(c.escapes) > 6 else ''}")
    out.append("")
    out.append("/-- cells with at least one write site inside a function body: state that changes at run time -/\n"
               "def effects : List String := " + lean_list([lean_str(c.id) for c in effects]) + "\n")
    for c in effects:
        out.append(f"-- {c.id}: writes {', '.join(c.writes[:6])}{' …' if len(c.writes) > 6 else ''}")
    out.append("")
    out.append("/-- statements inside midgard/parsers that could modify an existing file -/\n"
               "def fileWriteSites : List String := " + lean_list([lean_str(s) for s in file_writes]) + "\n")
    out.append("/-- file-creating statements reached only under `if not self.file_path.exists() [or size == 0]:`\n"
               "(download of a missing or empty input); they cannot touch a file that has content -/\n"
               "def guardedCreateSites : List String := " + lean_list([lean_str(s) for s in guarded_sites]) + "\n")
    out.append("/-- for every parser plug-in module: the plug-in modules of the same package its import executes\n"
               "(module-level imports, transitively) -/\n"
               "def parserImportClosure : List (String × List String) := "
               + lean_list([f"({lean_str(k)}, [{', '.join(lean_str(x) for x in v)}])" for k, v in sorted(closure.items()) if v]) + "\n")
    for label, lname in (("parsers", "parserPlugins"), ("writers", "writerPlugins"), ("fieldtypes", "fieldTypePlugins")):
        d = plug.get(label, {"rows": [], "list_error": plug.get("fatal", "loader failed"), "stems": []})
        out.append(f"def {lname} : List (String × PluginKind) := "
                   + lean_list([f"({lean_str(n)}, .{k})" for n, k in d["rows"]]) + "\n")
        out.append(f"/-- error raised by the library's own `names()` (empty when it worked) -/\n"
                   f"def {lname}ListError : String := {lean_str(d['list_error'])}\n")
        out.append(f"/-- non-underscore .py files of the package directory -/\n"
                   f"def {lname}Files : List String := " + lean_list([lean_str(s) for s in d["stems"]]) + "\n")
    out.append("end Midgard.Generated.ParserEffects\n")
    info = {"cells": len(cells), "effects": [c.id for c in effects], "file_writes": file_writes, "plugins": plug,
            "guarded_sites": guarded_sites, "closure": closure, "all_cells": {c.id: c.kind for c in cells},
            "levels": {c.id: c.level for c in cells}, "escapes": {c.id: c.escapes for c in cells if c.escapes},
            "instance_cells": inst_info, "class_bases": {k: sorted(v) for k, v in bases.items()},
            "effect_sites": {c.id: {"writes": c.writes, "reads": c.reads, "kind": c.kind} for c in effects}}
    return "\n".join(out), info


def main(write: bool = True) -> Dict:
    text, info = generate()
    if write:
        OUT.parent.mkdir(parents=True, exist_ok=True)
        old = OUT.read_text() if OUT.exists() else None
        if old != text:
            tmp = OUT.with_suffix(f".tmp{os.getpid()}")
            tmp.write_text(text)
            tmp.replace(OUT)
            info["changed"] = True
        else:
            info["changed"] = False
    return info


if __name__ == "__main__":
    i = main(write="--dry" not in sys.argv)
    print(json.dumps({k: v for k, v in i.items() if k != "plugins"}, indent=1))
    for k, v in i["plugins"].items():
        if isinstance(v, dict):
            print(k, len(v["rows"]), "broken:", [r for r in v["rows"] if r[1] == "broken"], v["list_error"])
        else:
            print(k, v)
