"""Source-expression translator (C05, C06, C07): the arithmetic of the analytic kernels, read off the Python `ast` of the
tree under test and written as Lean definitions → lean/Midgard/Generated/SourceExprs.lean.

What is translated: *straight-line* numeric code — top-level `name = expression` statements of a function body (tuple
assignments element-wise) and the array literal / expression it returns — over `+ - * / **`, unary minus, float and
integer literals, comparisons, `np.cos/sin/sqrt/arctan/arctan2/arcsin/abs/sign`, `np.pi`, matrix literals and `@`.
Names that are function inputs are declared per function below (`params`); a name bound inside control flow, or an
expression form not listed here, is a translation error (the check then reports a broken tie and searches for a
failing input): the translator never guesses.

What is *not* translated (stays hand-modelled and tied by the correspondence): NumPy shape handling (`.T`, `np.stack`,
boolean-mask assignment, `_roll_axes`), the pole branch selection of `_trs2llh`, the `omega < 0` wrap of `trs2kepler`.

The theorems `Props.C05/C06/C07.source_*` state that these generated definitions are, over the reals, equal to the
definitions of the hand-written models every other theorem is about.
"""
from __future__ import annotations

import ast
import textwrap
from pathlib import Path
from typing import Dict, List, Optional, Tuple

from .util import REPO, write_if_changed


class Untranslatable(Exception):
    pass


CALLS = {
    "np.cos": ("Trig.cos", 1), "np.sin": ("Trig.sin", 1), "np.sqrt": ("Trig.sqrt", 1), "np.arctan": ("Trig.atan", 1),
    "np.arcsin": ("Trig.asin", 1), "np.arctan2": ("Trig.atan2", 2), "np.abs": ("absOf", 1), "np.sign": ("signOf", 1),
    "np.floor": ("HasFloor.floor", 1),
}


# wrappers that do not change the value of an element (array construction, axis bookkeeping, the read-only flag)
IDENTITY_CALLS = ("np.array", "_roll_axes", "np.asarray", "_read_only")


def dotted(e: ast.AST) -> Optional[str]:
    if isinstance(e, ast.Name):
        return e.id
    if isinstance(e, ast.Attribute):
        b = dotted(e.value)
        return None if b is None else b + "." + e.attr
    return None


class Tr:
    """expression translator for one function: `env` maps Python names / dotted attribute chains to Lean terms"""

    def __init__(self, env: Dict[str, str], where: str):
        self.env = dict(env)
        self.where = where

    def fail(self, e: ast.AST, why: str):
        raise Untranslatable(f"{self.where}: {why}: `{ast.unparse(e)}`")

    def num(self, v, e) -> str:
        if isinstance(v, bool):
            self.fail(e, "boolean literal")
        if isinstance(v, int):
            if v == 0:
                return "0"
            if v == 1:
                return "1"
            if v == 2:
                return "(1 + 1)"
            return f"({v}.0 : α)"
        if isinstance(v, float):
            r = repr(v)
            if "inf" in r or "nan" in r:
                self.fail(e, "non-finite literal")
            if "e" not in r and "." not in r:
                r += ".0"
            return f"({r} : α)"
        self.fail(e, "literal of unsupported type")

    def ex(self, e: ast.AST) -> str:
        if isinstance(e, (ast.Subscript, ast.Attribute, ast.Call)) and ast.unparse(e) in self.env:
            return self.env[ast.unparse(e)]      # a declared input written as a subscript / attribute chain / call
        d = dotted(e)
        if d is not None:
            if d in self.env:
                return self.env[d]
            if d == "np.pi":
                return "Trig.pi"
            self.fail(e, "name that is neither an input nor bound by a straight-line assignment")
        if isinstance(e, ast.Constant):
            return self.num(e.value, e)
        if isinstance(e, ast.UnaryOp) and isinstance(e.op, ast.USub):
            return f"(-{self.ex(e.operand)})"
        if isinstance(e, ast.UnaryOp) and isinstance(e.op, ast.UAdd):
            return self.ex(e.operand)
        if isinstance(e, ast.BinOp):
            if isinstance(e.op, ast.Pow):
                if isinstance(e.right, ast.Constant) and isinstance(e.right.value, int) and 2 <= e.right.value <= 4:
                    b = self.ex(e.left)
                    return "(" + " * ".join([b] * e.right.value) + ")"
                self.fail(e, "power with an exponent other than the literals 2, 3, 4")
            if isinstance(e.op, ast.MatMult):
                return f"(M3.mul {self.ex(e.left)} {self.ex(e.right)})"
            op = {ast.Add: "+", ast.Sub: "-", ast.Mult: "*", ast.Div: "/"}.get(type(e.op))
            if op is None:
                self.fail(e, "operator")
            return f"({self.ex(e.left)} {op} {self.ex(e.right)})"
        if isinstance(e, ast.Compare) and len(e.ops) == 1:
            op = {ast.LtE: "≤", ast.Lt: "<", ast.GtE: "≥", ast.Gt: ">"}.get(type(e.ops[0]))
            if op is None:
                self.fail(e, "comparison")
            return f"(decide ({self.ex(e.left)} {op} {self.ex(e.comparators[0])}))"
        if isinstance(e, ast.Call):
            f = dotted(e.func)
            if f in CALLS and len(e.args) == CALLS[f][1] and not e.keywords:
                return "(" + CALLS[f][0] + " " + " ".join(self.ex(a) for a in e.args) + ")"
            if f in self.env and not e.keywords:       # a declared function (e.g. rotation.R3 → R3src)
                return "(" + self.env[f] + " " + " ".join(self.ex(a) for a in e.args) + ")"
            if f in IDENTITY_CALLS and len(e.args) == 1 and not e.keywords:
                return self.ex(e.args[0])
            self.fail(e, "call")
        if isinstance(e, (ast.List, ast.Tuple)):
            if len(e.elts) == 3 and all(isinstance(x, (ast.List, ast.Tuple)) and len(x.elts) == 3 for x in e.elts):
                rows = ["⟨" + ", ".join(self.ex(c) for c in r.elts) + "⟩" for r in e.elts]
                return "(⟨" + ", ".join(rows) + "⟩ : M3 α)"
            if len(e.elts) == 3:
                return "(⟨" + ", ".join(self.ex(c) for c in e.elts) + "⟩ : V3 α)"
            if isinstance(e, ast.Tuple) and len(e.elts) == 2:
                return "(" + ", ".join(self.ex(c) for c in e.elts) + ")"
            self.fail(e, "array literal that is neither 3 nor 3x3")
        self.fail(e, "expression form")


def find_function(tree: ast.Module, qual: str) -> ast.FunctionDef:
    node: ast.AST = tree
    for part in qual.split("."):
        nxt = None
        for ch in getattr(node, "body", []):
            if isinstance(ch, (ast.FunctionDef, ast.ClassDef)) and ch.name == part:
                nxt = ch
        if nxt is None:
            raise Untranslatable(f"{qual}: not found in the source")
        node = nxt
    if not isinstance(node, ast.FunctionDef):
        raise Untranslatable(f"{qual}: not a function")
    return node


def flatten(body: List[ast.stmt], static: Dict[str, str]) -> List[ast.stmt]:
    """resolve `if <input> == "<literal>": … else: …` for the inputs whose value the spec fixes (`static`)"""
    out: List[ast.stmt] = []
    for st in body:
        if isinstance(st, ast.If) and isinstance(st.test, ast.Compare) and len(st.test.ops) == 1 \
                and isinstance(st.test.ops[0], ast.Eq) and ast.unparse(st.test.left) in static \
                and isinstance(st.test.comparators[0], ast.Constant):
            taken = st.body if static[ast.unparse(st.test.left)] == st.test.comparators[0].value else st.orelse
            out += flatten(taken, static)
            if any(isinstance(x, ast.Return) for x in out):
                break
        elif isinstance(st, ast.If) and ast.unparse(st.test) in static and isinstance(static[ast.unparse(st.test)], bool):
            # a test whose outcome the spec fixes (operand kinds, "val2 is None", the scale guard)
            out += flatten(st.body if static[ast.unparse(st.test)] else st.orelse, static)
            if any(isinstance(x, ast.Return) for x in out):
                break
        else:
            out.append(st)
    return out


def straight_line(fn: ast.FunctionDef, static: Optional[Dict[str, str]] = None) -> Tuple[List[Tuple[str, ast.AST]], Optional[ast.AST], set]:
    """top-level single assignments in order, the returned expression, and the names bound anywhere else"""
    binds: List[Tuple[str, ast.AST]] = []
    ret = None
    body = flatten(fn.body, static or {})
    fn = ast.FunctionDef(name=fn.name, args=fn.args, body=body, decorator_list=[], lineno=0, col_offset=0)
    for st in fn.body:
        if isinstance(st, ast.Assign) and len(st.targets) == 1:
            t = st.targets[0]
            if isinstance(t, ast.Name):
                binds.append((t.id, st.value))
                continue
            if isinstance(t, ast.Tuple) and isinstance(st.value, ast.Tuple) and len(t.elts) == len(st.value.elts) \
                    and all(isinstance(x, ast.Name) for x in t.elts):
                binds += [(x.id, v) for x, v in zip(t.elts, st.value.elts)]
                continue
            if isinstance(t, ast.Tuple) and len(t.elts) == 2 and all(isinstance(x, ast.Name) for x in t.elts) \
                    and isinstance(st.value, ast.Call) and dotted(st.value.func) == "np.divmod" and len(st.value.args) == 2 \
                    and isinstance(st.value.args[1], ast.Constant) and st.value.args[1].value == 1:
                # q, r = np.divmod(x, 1)  ≡  q = floor(x); r = x - floor(x)
                x = st.value.args[0]
                fl = ast.Call(func=ast.Attribute(value=ast.Name(id="np"), attr="floor"), args=[x], keywords=[])
                binds += [(t.elts[0].id, fl), (t.elts[1].id, ast.BinOp(left=x, op=ast.Sub(), right=fl))]
                continue
        if isinstance(st, ast.Return) and ret is None:
            ret = st.value
    elsewhere = set()
    for st in fn.body:
        if isinstance(st, (ast.If, ast.For, ast.While, ast.With, ast.Try)):
            for n in ast.walk(st):
                if isinstance(n, (ast.Assign, ast.AugAssign)):
                    for t in (n.targets if isinstance(n, ast.Assign) else [n.target]):
                        elsewhere.update(target_names(t))
        if isinstance(st, ast.AugAssign) and isinstance(st.target, ast.Name):
            elsewhere.add(st.target.id)
    return binds, ret, elsewhere


def target_names(t: ast.AST) -> set:
    """the variables an assignment target binds or mutates (`lat[~pole_idx] = …` mutates `lat`, reads `pole_idx`)"""
    if isinstance(t, ast.Name):
        return {t.id}
    if isinstance(t, (ast.Tuple, ast.List)):
        out = set()
        for x in t.elts:
            out |= target_names(x)
        return out
    if isinstance(t, (ast.Subscript, ast.Attribute, ast.Starred)):
        return target_names(t.value)
    return set()


def names_in(e: ast.AST, leaves=()) -> List[str]:
    out = []

    def rec(x):
        if isinstance(x, (ast.Subscript, ast.Attribute, ast.Call)) and ast.unparse(x) in leaves:
            return
        d = dotted(x)
        if d is not None:
            out.append(d)
            return
        if isinstance(x, ast.Call):
            f = dotted(x.func)
            if f is not None:
                out.append("call:" + f)
            for a in x.args:
                rec(a)
            return
        for ch in ast.iter_child_nodes(x):
            rec(ch)

    rec(e)
    return out


def translate_function(src: str, tree: ast.Module, spec: dict) -> str:
    """one Lean definition: `def <lean> (params…) : <type> := let … ; <result>`"""
    fn = find_function(tree, spec["func"])
    binds, ret, elsewhere = straight_line(fn, spec.get("static"))
    where = f"{src}:{spec['func']}" + ("" if not spec.get("static") else " " + str(spec["static"]))
    env = {}                              # python name / dotted chain / subscript text → Lean parameter name
    for k, v in spec["params"].items():
        try:
            k = ast.unparse(ast.parse(k, mode="eval").body)     # the spelling `ast.unparse` gives (quotes, blanks)
        except SyntaxError:
            pass
        env[k] = v
    tr = Tr(env, where)
    outputs = spec["outputs"]            # python variable names, or "return"
    bound = {n for n, _ in binds}
    # the variables needed: dependency closure from the outputs through *all* straight-line bindings of a name
    # (a name may be bound again: Lean's `let` shadows exactly as the Python assignment does)
    needed: set = set()

    def need(name: str, via: str):
        if name.startswith("call:"):
            f = name[5:]
            if f in CALLS or f in env or f in IDENTITY_CALLS:
                return
            raise Untranslatable(f"{where}: call of `{f}` (in {via}) is outside the translated fragment")
        if (name in env and (name not in bound or name not in spec.get("rebind_params", ()))) or name == "np.pi":
            return
        if name in bound:
            if name in elsewhere and name not in spec.get("first_binding_only", ()):
                raise Untranslatable(f"{where}: `{name}` is also assigned inside control flow")
            if name not in needed:
                needed.add(name)
                for n, v in binds:
                    if n == name:
                        for m in names_in(v, env):
                            if m != name:
                                need(m, name)
            return
        raise Untranslatable(f"{where}: `{name}` (in {via}) is neither an input nor bound by a straight-line assignment")

    if "compare-in-return" in outputs:
        cmp_ = None if ret is None else next((n for n in ast.walk(ret) if isinstance(n, ast.Compare)), None)
        if cmp_ is None:
            raise Untranslatable(f"{where}: no comparison in the returned expression")
        ret = cmp_
        outputs = ["return" if o == "compare-in-return" else o for o in outputs]
    for o in outputs:
        if o == "binop-result":
            continue
        if o == "return":
            if ret is None:
                raise Untranslatable(f"{where}: no return statement")
            for m in names_in(ret, env):
                need(m, "return")
        else:
            need(o, "output")
    lets = []
    for n, v in binds:
        if n not in needed:
            continue
        lean_n = spec.get("rename", {}).get(n, n)
        if n in spec.get("rebind_params", ()):
            lean_n = spec["params"][n]          # the assignment shadows the input under the input's Lean name
        lets.append(f"  let {lean_n} := {tr.ex(v)}")
        tr.env[n] = lean_n
    if outputs == ["binop-result"]:
        # what an arithmetic operator returns: NotImplemented, or `<receiver>.from_jds(jd1, jd2, …)` — the kind of the
        # result is the receiver's (`self`, `other`, or the TimeDeltaArray class looked up in _SCALES)
        if ret is None:
            raise Untranslatable(f"{where}: no return statement")
        if isinstance(ret, ast.Name) and ret.id == "NotImplemented":
            result = "none"
        elif isinstance(ret, ast.Call) and isinstance(ret.func, ast.Attribute) and ret.func.attr == "from_jds" and len(ret.args) >= 2:
            rcv = ast.unparse(ret.func.value)
            if rcv == "self":
                is_delta = spec["self_kind"] == "delta"
            elif rcv == "other":
                is_delta = spec["other_kind"] == "delta"
            elif "TimeDeltaArray" in rcv:
                is_delta = True
            elif "TimeArray" in rcv:
                is_delta = False
            else:
                raise Untranslatable(f"{where}: receiver of from_jds not understood: `{rcv}`")
            for a in ret.args[:2]:
                for m in names_in(a, env):
                    need(m, "return")
            lets = []
            for n, v in binds:
                if n in needed:
                    lets.append(f"  let {n} := {tr.ex(v)}")
                    tr.env[n] = n
            result = f"some ({'true' if is_delta else 'false'}, {tr.ex(ret.args[0])}, {tr.ex(ret.args[1])})"
        else:
            raise Untranslatable(f"{where}: return value not understood: `{ast.unparse(ret)}`")
        params = " ".join(dict.fromkeys(v for v in spec["params"].values() if v.isidentifier()))
        doc = f"/-- `{src}` `{spec['func']}` with {spec.get('static')}: the result (is it a duration, jd1, jd2) or `none` for NotImplemented -/"
        head = f"def {spec['lean']} ({params} : α) : {spec['type']} :="
        return "\n".join([doc, head] + lets + ["  " + result])
    outs = [tr.ex(ret) if o == "return" else tr.env[o] for o in outputs]
    result = outs[0] if len(outs) == 1 else "(" + ", ".join(outs) + ")"
    params = " ".join(dict.fromkeys(v for v in spec["params"].values() if v.isidentifier() and v not in spec.get("funs", ())))
    funs = spec.get("fun_params", "")
    doc = f"/-- `{src}` `{spec['func']}`: " + ", ".join(outputs) + " -/"
    head = f"def {spec['lean']} {funs}{'(' + params + ' : α) ' if params else ''}: {spec['type']} :="
    return "\n".join([doc, head] + lets + ["  " + result])


ROT = "midgard/math/rotation.py"
TRF = "midgard/math/transformation.py"
ELL = "midgard/math/ellipsoid.py"
POS = "midgard/data/position.py"

CS = {"cosA": "cosA", "sinA": "sinA", "zero": "0", "one": "1"}
LL = {"coslat": "coslat", "coslon": "coslon", "sinlat": "sinlat", "sinlon": "sinlon", "zero": "0"}

SPECS = [
    # --- rotation.py: the matrix literals, from the cosine and sine of the angle
    *[dict(src=ROT, func=f, lean=f + "src", params=CS, outputs=["return"], type="M3 α") for f in ("R1", "R2", "R3", "dR1", "dR2", "dR3")],
    dict(src=ROT, func="enu2trs", lean="enu2trsSrc", params=LL, outputs=["return"], type="M3 α"),
    dict(src=ROT, func="trs2enu", lean="trs2enuSrc", params=LL, outputs=["return"], type="M3 α"),
    # --- ellipsoid.py
    dict(src=ELL, func="Ellipsoid.b", lean="ellBsrc", params={"self.a": "a", "self.f": "f"}, outputs=["return"], type="α"),
    dict(src=ELL, func="Ellipsoid.e2", lean="ellE2src", params={"self.a": "a", "self.b": "b"}, outputs=["return"], type="α"),
    dict(src=ELL, func="Ellipsoid.eps", lean="ellEpsSrc", params={"self.e2": "e2"}, outputs=["return"], type="α"),
    # --- transformation._llh2trs
    dict(src=TRF, func="_llh2trs", lean="llh2trsSrc",
         params={"ellipsoid.a": "a", "ellipsoid.f": "f", "coslat": "coslat", "sinlat": "sinlat", "coslon": "coslon", "sinlon": "sinlon", "height": "height"},
         outputs=["x", "y", "z"], type="α × α × α"),
    # --- transformation._trs2llh: the Halley step, the height formula, the pole test, the longitude
    dict(src=TRF, func="_trs2llh", lean="halleySrc",
         params={"ellipsoid.a": "a", "ellipsoid.e2": "e2", "p": "p", "absz": "absz"}, outputs=["s1", "cc"], type="α × α"),
    dict(src=TRF, func="_trs2llh", lean="halleyHeightSrc",
         params={"ellipsoid.a": "a", "ellipsoid.e2": "e2", "p": "p", "absz": "absz", "s1": "s1", "cc": "cc"}, outputs=["tmp_height"], type="α"),
    dict(src=TRF, func="_trs2llh", lean="halleyLatSrc", params={"s1": "s1", "cc": "cc"}, outputs=["tmp_lat"], type="α"),
    dict(src=TRF, func="_trs2llh", lean="poleTestSrc", params={"ellipsoid.a": "a", "p2": "p2"}, outputs=["pole_idx"], type="Bool"),
    dict(src=TRF, func="_trs2llh", lean="p2Src", params={"x": "x", "y": "y"}, outputs=["p2"], type="α"),
    dict(src=TRF, func="_trs2llh", lean="lonSrc", params={"x": "x", "y": "y"}, outputs=["lon"], type="α"),
    # --- transformation.trs2kepler (before the `omega < 0` wrap), from the norms, the unit normal and r·v
    dict(src=TRF, func="trs2kepler", lean="trs2keplerSrc",
         params={"r_norm": "rN", "v_norm": "vN", "h_norm": "hN", "h_x": "hx", "h_y": "hy", "h_z": "hz", "einsum": "rv",
                 "constant.GM": "GM", "trs.pos.x": "px", "trs.pos.y": "py", "trs.pos.z": "pz"},
         outputs=["a", "e", "i", "Omega", "omega", "E"], first_binding_only=("omega",), rename={"omega": "omega0"},
         type="α × α × α × α × α × α"),
    # --- transformation.kepler2trs
    dict(src=TRF, func="kepler2trs", lean="kepler2trsOrbSrc",
         params={"kepler.a": "a", "kepler.e": "e", "kepler.E": "E", "constant.GM": "GM", "zero": "0"},
         outputs=["r_orb", "v_orb"], type="V3 α × V3 α"),
    dict(src=TRF, func="kepler2trs", lean="kepler2trsPqwSrc",
         params={"kepler.Omega": "Omega", "kepler.i": "i", "kepler.omega": "omega", "rotation.R3": "R3", "rotation.R1": "R1"},
         fun_params="(R1 R3 : α → M3 α) ", funs=("R1", "R3"), outputs=["PQW"], type="M3 α"),
    # --- position.KeplerPosVel.M / .f
    dict(src=POS, func="KeplerPosVel.M", lean="meanAnomalySrc", params={"self.kepler.e": "e0", "self.kepler.E": "E0"}, outputs=["return"], type="α"),
    dict(src=POS, func="KeplerPosVel.f", lean="trueAnomalySrc", params={"self.kepler.e": "e0", "self.kepler.E": "E0"}, outputs=["return"], type="α"),
]

TIME = "midgard/data/_time.py"
ROWP = {'_TAIUTC["offset"][idx]': "offset", '_TAIUTC["ref_epoch"][idx]': "ref", '_TAIUTC["factor"][idx]': "factor",
        "time.mjd": "mjd", "Unit.seconds2day": "s2d"}
TCGP = {"time.jd1": "jd1", "time.jd2": "jd2", "constant.T_0_jd1": "t0jd1", "constant.T_0_jd2": "t0jd2", "constant.L_G": "lG"}


def _hop(fn: str, arg: str) -> dict:
    return dict(src=TIME, group="time", func=fn, lean=fn.lstrip("_") + "Src",
                params={f"{arg}.jd1": "jd1", f"{arg}.jd2": "jd2", f"delta_tai_utc({arg})": "dTaiUtc", f"delta_tai_tt({arg})": "dTaiTt",
                        f"delta_tcg_tt({arg})": "dTcgTt", f"delta_gps_tai({arg})": "dGpsTai"},
                outputs=["return"], type="α × α")


SPECS += [
    # --- _time.py: TAI-UTC from one table row (UTC argument; TAI argument with the closed-form inverse), the row
    # starts expressed in TAI, the test "this row has started", the constant offsets, TCG-TT, and the eight hops
    dict(src=TIME, group="time", func="delta_tai_utc", static={"time.scale": "utc"}, lean="deltaTaiUtcOfUtcSrc", params=ROWP, outputs=["return"], type="α"),
    dict(src=TIME, group="time", func="delta_tai_utc", static={"time.scale": "tai"}, lean="deltaTaiUtcOfTaiSrc", params=ROWP, outputs=["return"], type="α"),
    dict(src=TIME, group="time", func="delta_tai_utc", static={"time.scale": "tai"}, lean="rowStartDeltaSrc",
         params={'_TAIUTC["start"]': "start", '_TAIUTC["offset"]': "offset", '_TAIUTC["ref_epoch"]': "ref", '_TAIUTC["factor"]': "factor",
                 "Unit.seconds2day": "s2d"}, outputs=["start_delta"], type="α"),
    dict(src=TIME, group="time", func="_taiutc_idx", lean="rowStartedSrc",
         params={"np.asarray(jd1, dtype=float)[..., None]": "jd1", "np.asarray(jd2, dtype=float)[..., None]": "jd2", '_TAIUTC["start"]': "start",
                 "start_delta": "startDelta", "_TAIUTC_TOLERANCE": "tol"}, outputs=["compare-in-return"], type="Bool"),
    dict(src=TIME, group="time", func="delta_tai_tt", static={"time.scale": "tt"}, lean="deltaTaiTtOfTtSrc", params={"Unit.seconds2day": "s2d"}, outputs=["return"], type="α"),
    dict(src=TIME, group="time", func="delta_tai_tt", static={"time.scale": "tai"}, lean="deltaTaiTtOfTaiSrc", params={"Unit.seconds2day": "s2d"}, outputs=["return"], type="α"),
    dict(src=TIME, group="time", func="delta_gps_tai", static={"time.scale": "gps"}, lean="deltaGpsTaiOfGpsSrc", params={"Unit.seconds2day": "s2d"}, outputs=["return"], type="α"),
    dict(src=TIME, group="time", func="delta_gps_tai", static={"time.scale": "tai"}, lean="deltaGpsTaiOfTaiSrc", params={"Unit.seconds2day": "s2d"}, outputs=["return"], type="α"),
    dict(src=TIME, group="time", func="delta_tcg_tt", static={"time.scale": "tt"}, lean="deltaTcgTtOfTtSrc", params=TCGP, outputs=["return"], type="α"),
    dict(src=TIME, group="time", func="delta_tcg_tt", static={"time.scale": "tcg"}, lean="deltaTcgTtOfTcgSrc", params=TCGP, outputs=["return"], type="α"),
    _hop("_utc2tai", "utc"), _hop("_tai2utc", "tai"), _hop("_tai2tt", "tai"), _hop("_tt2tai", "tt"),
    _hop("_tt2tcg", "tt"), _hop("_tcg2tt", "tcg"), _hop("_gps2tai", "gps"), _hop("_tai2gps", "tai"),
]

OPP = {"self.jd1": "a1", "self.jd2": "a2", "other.jd1": "b1", "other.jd2": "b2"}


def _binop(cls: str, op: str, other: str, lean: str, mixed: bool = False) -> dict:
    """one branch of an arithmetic operator of TimeArray / TimeDeltaArray: operand kinds fixed, scale guard fixed"""
    static = {"self.scale != other.scale": mixed, "isinstance(other, TimeDeltaArray)": other == "delta", "isinstance(other, TimeArray)": other == "time"}
    return dict(src=TIME, group="time", func=f"{cls}.{op}", lean=lean, static=static, params=OPP, outputs=["binop-result"],
                self_kind="time" if cls == "TimeArray" else "delta", other_kind=other, type="Option (Bool × α × α)")


DFP = {"val": "v", "val2": "v2", "Unit.second2day": "s2d", "Unit.day2second": "d2s", "jd1": "jd1", "jd2": "jd2"}
SPECS += [
    # --- _time.py: the arithmetic operators (which parts each result part is built from; what is refused)
    _binop("TimeArray", "__add__", "delta", "timeAddDeltaSrc"), _binop("TimeArray", "__add__", "time", "timeAddTimeSrc"),
    _binop("TimeArray", "__sub__", "delta", "timeSubDeltaSrc"), _binop("TimeArray", "__sub__", "time", "timeSubTimeSrc"),
    _binop("TimeDeltaArray", "__add__", "delta", "deltaAddDeltaSrc"), _binop("TimeDeltaArray", "__add__", "time", "deltaAddTimeSrc"),
    _binop("TimeDeltaArray", "__sub__", "delta", "deltaSubDeltaSrc"), _binop("TimeDeltaArray", "__sub__", "time", "deltaSubTimeSrc"),
    _binop("TimeArray", "__add__", "delta", "timeAddMixedSrc", mixed=True), _binop("TimeArray", "__sub__", "delta", "timeSubMixedSrc", mixed=True),
    _binop("TimeDeltaArray", "__add__", "time", "deltaAddMixedSrc", mixed=True), _binop("TimeDeltaArray", "__sub__", "delta", "deltaSubMixedSrc", mixed=True),
    # --- the duration formats: value(s) → (jd1, jd2) and back
    *[dict(src=TIME, group="time", func=f"{c}._to_jds", lean=l + "ToJdsSrc", static={"val2 is None": False},
           params={k: v for k, v in DFP.items() if k in ("val", "val2", "Unit.second2day")}, rebind_params=("val", "val2"), outputs=["return"], type="α × α")
      for c, l in (("TimeDeltaJD", "deltaJd"), ("TimeDeltaDay", "deltaDay"), ("TimeDeltaSec", "deltaSec"))],
    *[dict(src=TIME, group="time", func=f"{c}._from_jds", lean=l + "FromJdsSrc",
           params={k: v for k, v in DFP.items() if k in ("jd1", "jd2", "Unit.day2second")}, outputs=["return"], type="α")
      for c, l in (("TimeDeltaJD", "deltaJd"), ("TimeDeltaDay", "deltaDay"), ("TimeDeltaSec", "deltaSec"))],
]

GPSF = {"scale != 'gps'": False, "np.any(jd1 + jd2 < cls._jd19800106)": False, "val2 is not None": False, "isinstance(val, cls.WeekSec)": False,
        "val2 is None and val.size == 0": False, "val2 is None and val.size > 0": False, "val2 is None": False}
SPECS += [
    # --- _time.py, the numeric time formats (C02): value(s) → (jd1, jd2) and back; jd_int / jd_frac
    dict(src=TIME, group="time", func="TimeJD._to_jds", lean="jdToJdsSrc", static=GPSF, params={"val": "v", "val2": "v2"}, rebind_params=("val",), outputs=["return"], type="α × α"),
    dict(src=TIME, group="time", func="TimeJD._from_jds", lean="jdFromJdsSrc", params={"jd1": "jd1", "jd2": "jd2"}, outputs=["return"], type="α"),
    dict(src=TIME, group="time", func="TimeMJD._to_jds", lean="mjdToJdsSrc", static=GPSF, params={"val": "v", "val2": "v2", "cls._mjd0": "mjd0"}, rebind_params=("val",), outputs=["return"], type="α × α"),
    dict(src=TIME, group="time", func="TimeMJD._from_jds", lean="mjdFromJdsSrc", params={"jd1": "jd1", "jd2": "jd2", "cls._mjd0": "mjd0"}, outputs=["return"], type="α"),
    dict(src=TIME, group="time", func="TimeGPSWeekSec._to_jds", lean="wsToJdsSrc", static=GPSF,
         params={"val": "week0", "val2": "sec0", "cls.day2seconds": "d2s", "Unit.week2days": "w2d", "cls._jd19800106": "jdGps0"}, outputs=["return"], type="α × α"),
    dict(src=TIME, group="time", func="TimeGPSWeekSec._from_jds", lean="wsFromJdsSrc", static=GPSF,
         params={"jd1": "jd1", "jd2": "jd2", "cls.day2seconds": "d2s", "cls.week2days": "w2d", "cls._jd19800106": "jdGps0"}, outputs=["wwww", "gpssec", "wd"], type="α × α × α"),
    dict(src=TIME, group="time", func="TimeGPSSec._to_jds", lean="gsToJdsSrc", static=GPSF,
         params={"val": "v", "Unit.second2day": "s2d", "cls._jd19800106": "jdGps0"}, outputs=["return"], type="α × α"),
    dict(src=TIME, group="time", func="TimeGPSSec._from_jds", lean="gsFromJdsSrc", static=GPSF,
         params={"jd1": "jd1", "jd2": "jd2", "Unit.day2second": "d2s", "cls._jd19800106": "jdGps0"}, outputs=["return"], type="α"),
    dict(src=TIME, group="time", func="TimeJulianYear._to_jds", lean="jyToJdsSrc", static=GPSF,
         params={"val": "v", "cls._j2000": "j2000", "cls._jd2000": "jd2000", "Unit.julian_year2day": "jy2d"}, outputs=["return"], type="α × α"),
    dict(src=TIME, group="time", func="TimeJulianYear._from_jds", lean="jyFromJdsSrc",
         params={"jd1": "jd1", "jd2": "jd2", "cls._j2000": "j2000", "cls._jd2000": "jd2000", "Unit.day2julian_year": "d2jy"}, outputs=["return"], type="α"),
    dict(src=TIME, group="time", func="TimeArray._jd_delta", lean="jdDeltaSrc", params={"self.jd1": "jd1", "self.jd2": "jd2"}, outputs=["return"], type="α"),
    dict(src=TIME, group="time", func="TimeArray.jd_int", lean="jdIntSrc", params={"self.jd1": "jd1", "self._jd_delta": "delta"}, outputs=["return"], type="α"),
    dict(src=TIME, group="time", func="TimeArray.jd_frac", lean="jdFracSrc", params={"self.jd2": "jd2", "self._jd_delta": "delta"}, outputs=["return"], type="α"),
]

HEADERS = {
    "geo": ('SourceExprs.lean', '''/- GENERATED by translator/extract_exprs.py from the Python `ast` of the tree under test — do not edit.
Every definition is the arithmetic of one function of midgard/math/rotation.py, transformation.py, ellipsoid.py or
midgard/data/position.py, statement by statement (see the translator for the fragment that is translated). -/
import Midgard.Model.Vec3

namespace Midgard.Generated.Src
open Midgard.Geo

section
variable {α : Type} [Add α] [Sub α] [Mul α] [Div α] [Neg α] [Zero α] [One α] [OfScientific α]
  [LT α] [LE α] [DecidableRel (α := α) (· < ·)] [DecidableRel (α := α) (· ≤ ·)] [Trig α]
''', "Midgard.Generated.Src"),
    "time": ('SourceExprsTime.lean', '''/- GENERATED by translator/extract_exprs.py from the Python `ast` of the tree under test — do not edit.
Every definition is the arithmetic of one function (one branch of it, where the function branches on the scale) of
midgard/data/_time.py, statement by statement (see the translator for the fragment that is translated). -/

namespace Midgard.Generated.SrcTime

/-- `np.floor` -/
class HasFloor (α : Type) where
  floor : α → α

instance : HasFloor Rat := ⟨fun q => (q.floor : Rat)⟩

section
variable {α : Type} [Add α] [Sub α] [Mul α] [Div α] [Neg α] [Zero α] [One α] [OfScientific α]
  [LT α] [LE α] [DecidableRel (α := α) (· < ·)] [DecidableRel (α := α) (· ≤ ·)] [HasFloor α]
''', "Midgard.Generated.SrcTime"),
}


def generate() -> Tuple[bool, dict]:
    """returns (changed, info); a function that cannot be translated is recorded and its definition left out — the
    tie theorem that mentions it then fails to check, which the property's check reports"""
    trees: Dict[str, ast.Module] = {}
    defs: Dict[str, List[str]] = {g: [] for g in HEADERS}
    failed, done = [], []
    for spec in SPECS:
        src = spec["src"]
        g = spec.get("group", "geo")
        try:
            if src not in trees:
                trees[src] = ast.parse((REPO / src).read_text())
            defs[g].append(translate_function(src, trees[src], spec))
            done.append(spec["lean"])
        except (Untranslatable, OSError, SyntaxError) as ex:
            failed.append(f"{spec['lean']}: {ex}")
            defs[g].append(f"-- NOT TRANSLATED `{spec['lean']}`: {str(ex)[:300]}")
    changed = False
    for g, (fname, header, ns) in HEADERS.items():
        text = header + "\n" + "\n\n".join(defs[g]) + f"\n\nend\n\nend {ns}\n"
        changed |= write_if_changed(fname, text)
    return changed, {"translated": done, "not_translated": failed}


if __name__ == "__main__":
    ch, info = generate()
    print("changed" if ch else "unchanged", info)
