"""C08: mechanism facts of the process-wide caches read off the source (AST) → Generated/CacheMech.lean

groups   raw   : trs2llh / llh2trs (explicit HashArray + lru_cache'd private function + public wrapper)
         rot   : enu2trs / trs2enu (@nputil.hashable @lru_cache())
         time  : TimeBase._to_scale (lru_cache keyed on self through __hash__/__eq__)
For each group the five flags of Model/CacheMachine.lean and the lru maxsize; plus the list of every
lru_cache-decorated callable under midgard/math and midgard/data (a new cache is a new obligation) and, for the
self-keyed caches of TimeBase/TimeArray, which of them read `self.fmt` (directly or through self[...]) without
having it in their key.
"""
import ast
from pathlib import Path
from .util import REPO, write_if_changed, lean_str


def _parse(rel):
    return ast.parse((REPO / rel).read_text())


def _func(tree, name, cls=None):
    body = tree.body
    if cls:
        body = next(n for n in tree.body if isinstance(n, ast.ClassDef) and n.name == cls).body
    return next((n for n in body if isinstance(n, ast.FunctionDef) and n.name == name), None)


def _lru_maxsize(fn):
    for d in fn.decorator_list:
        src = ast.unparse(d)
        if "lru_cache" in src:
            if isinstance(d, ast.Call):
                for kw in d.keywords:
                    if kw.arg == "maxsize":
                        return ast.literal_eval(kw.value)
                if d.args:
                    return ast.literal_eval(d.args[0])
            return 128
    return None


def _returns_copy(fn):
    rets = [n for n in ast.walk(fn) if isinstance(n, ast.Return) and n.value is not None]
    if not rets:
        return False
    ok = True
    for r in rets:
        s = ast.unparse(r.value)
        if not (".copy()" in s):
            ok = False
    return ok


def extract():
    npu = _parse("midgard/math/nputil.py")
    tra = _parse("midgard/math/transformation.py")
    rot = _parse("midgard/math/rotation.py")
    tim = _parse("midgard/data/_time.py")

    heq = _func(npu, "__eq__", "HashArray")
    heq_s = ast.unparse(heq) if heq else ""
    key_shape_hash = "shape" in heq_s
    hfin = _func(npu, "__array_finalize__", "HashArray")
    freeze_arg = hfin is not None and "obj.flags.writeable" in ast.unparse(hfin)
    hnew = _func(npu, "__new__", "HashArray")
    key_copy = hnew is not None and ".copy()" in ast.unparse(hnew)
    hashable = _func(npu, "hashable")
    wrapper = next((n for n in ast.walk(hashable) if isinstance(n, ast.FunctionDef) and n.name == "wrapper"), None) if hashable else None
    rot_copy = wrapper is not None and _returns_copy(wrapper)

    # the ellipsoid is part of the key through the dataclass-generated __eq__/__hash__: they must look at every field
    ellt = _parse("midgard/math/ellipsoid.py")
    ecls = next((n for n in ellt.body if isinstance(n, ast.ClassDef) and n.name == "Ellipsoid"), None)
    ell_key_complete = False
    if ecls is not None:
        deco = " ".join(ast.unparse(d) for d in ecls.decorator_list)
        fields = [n for n in ecls.body if isinstance(n, ast.AnnAssign)]
        partial = any(n.value is not None and ("compare=False" in ast.unparse(n.value) or "hash=False" in ast.unparse(n.value)) for n in fields)
        custom = any(isinstance(n, ast.FunctionDef) and n.name in ("__eq__", "__hash__") for n in ecls.body)
        ell_key_complete = ("dataclass" in deco and "eq=False" not in deco and "frozen=True" in deco and not partial and not custom
                            and {"a", "f_inv"} <= {n.target.id for n in fields if isinstance(n.target, ast.Name)})
    raw = {}
    for pub, priv in (("trs2llh", "_trs2llh"), ("llh2trs", "_llh2trs")):
        fpub, fpriv = _func(tra, pub), _func(tra, priv)
        raw[pub] = dict(
            keyShape=key_shape_hash,
            keyTag=fpriv is not None and [a.arg for a in fpriv.args.args] == [a for a in [fpriv.args.args[0].arg, "ellipsoid"]]
            and f"{priv}(" in ast.unparse(fpub) and "ellipsoid)" in ast.unparse(fpub) and ell_key_complete,
            copyOut=fpub is not None and _returns_copy(fpub),
            frozenOut=False,
            freezeArg=freeze_arg,
            cap=_lru_maxsize(fpriv) if fpriv else 0,
        )
    rotg = {}
    for name in ("enu2trs", "trs2enu"):
        f = _func(rot, name)
        decos = [ast.unparse(d) for d in f.decorator_list] if f else []
        rotg[name] = dict(keyShape=key_shape_hash, keyTag=True, copyOut=rot_copy and any("hashable" in d for d in decos),
                          frozenOut=False, freezeArg=freeze_arg, cap=_lru_maxsize(f) if f else 0)
    teq = _func(tim, "__eq__", "TimeBase")
    tsc = _func(tim, "_to_scale", "TimeBase")
    tpub = _func(tim, "to_scale", "TimeBase")
    tnew = _func(tim, "__new__", "TimeBase")
    time = dict(
        keyShape=teq is not None and "np.shape" in ast.unparse(teq),
        # the key must tell apart the format of the receiver (argument of _to_scale) and its scale: __eq__ accepts its own scale class only
        keyTag=tsc is not None and "fmt" in [a.arg for a in tsc.args.args] and tpub is not None and "self._to_scale(scale, self.fmt)" in ast.unparse(tpub)
        and _lru_maxsize(tpub) is None and teq is not None and "if isinstance(other, self.__class__):" in ast.unparse(teq),
        copyOut=False,
        frozenOut=tnew is not None and "obj.flags.writeable = False" in ast.unparse(tnew),
        freezeArg=False,
        cap=_lru_maxsize(tsc) if tsc else 0,
    )

    # results of the cached formats / properties of time objects are protected in place: `_read_only` clears the writeable flag of the
    # very array it is given (not of a view of it) and does so for every member of a tuple result
    ro = _func(tim, "_read_only")
    ro_ok = False
    if ro is not None:
        rebinds = [n for n in ast.walk(ro) if isinstance(n, (ast.Assign, ast.AugAssign, ast.AnnAssign))
                   and any(isinstance(t, ast.Name) for t in (n.targets if isinstance(n, ast.Assign) else [n.target]))]
        src = ast.unparse(ro)
        ro_ok = (not rebinds and "value.flags.writeable = False" in src and "isinstance(value, tuple)" in src
                 and "for v in value:\n            _read_only(v)" in src and src.rstrip().endswith("return value"))
    time["resultsFrozenInPlace"] = ro_ok
    # every lru_cache'd callable under math/ and data/
    cached = []
    for path in sorted(list((REPO / "midgard" / "math").glob("*.py")) + list((REPO / "midgard" / "data").glob("*.py"))):
        tree = ast.parse(path.read_text())
        for node in ast.walk(tree):
            if isinstance(node, ast.ClassDef):
                for f in node.body:
                    if isinstance(f, ast.FunctionDef) and _lru_maxsize(f) is not None:
                        cached.append(f"{path.stem}.{node.name}.{f.name}")
        for f in tree.body:
            if isinstance(f, ast.FunctionDef) and _lru_maxsize(f) is not None:
                cached.append(f"{path.stem}.{f.name}")
    # self-keyed caches on TimeBase/TimeArray/TimeDeltaArray that depend on self.fmt without keying it
    fmt_dep = []
    for cname in ("TimeBase", "TimeArray", "TimeDeltaArray"):
        cls = next(n for n in tim.body if isinstance(n, ast.ClassDef) and n.name == cname)
        for f in cls.body:
            if isinstance(f, ast.FunctionDef) and _lru_maxsize(f) is not None:
                args = [a.arg for a in f.args.args]
                if args[:1] != ["self"]:
                    continue
                src = ast.unparse(f)
                uses_fmt = "self.fmt" in src or "self[" in src or "return self\n" in src + "\n" or src.rstrip().endswith("return self")
                if uses_fmt and "fmt" not in args[1:]:
                    fmt_dep.append(f"{cname}.{f.name}")
    # per-object caches of position arrays (PosBase)
    pos = _parse("midgard/data/_position.py")
    setitem = _func(pos, "__setitem__", "PosBase")
    clr = _func(pos, "_clear_dependent_caches", "PosBase")
    share = _func(pos, "_share_memory_with", "PosBase")
    setattr_ = _func(pos, "__setattr__", "PosBase")
    transitive = (setitem is not None and "_clear_dependent_caches" in ast.unparse(setitem) and clr is not None
                  and "_clear_dependent_caches(seen)" in ast.unparse(clr) and "self.clear_cache()" in ast.unparse(clr))
    links = share is not None and "rows.add_dependency(self)" in ast.unparse(share) and "self.add_dependency(rows)" in ast.unparse(share)
    getitems = [_func(pos, "__getitem__", c) for c in ("PositionArray", "PositionDeltaArray")]
    links = links and all(g is not None and "_share_memory_with(rows)" in ast.unparse(g) and "_sliced" not in ast.unparse(g) for g in getitems)
    refreg = setattr_ is not None and "ref_pos" in ast.unparse(setattr_) and "add_dependency" in ast.unparse(setattr_)
    # __setattr__: replacing / removing an attachment drops the caches of the dependents before it unregisters
    prop = False
    if setattr_ is not None:
        for node in ast.walk(setattr_):
            if isinstance(node, ast.If) and ast.unparse(node.test) == "prev_attr_value is not None":
                body = [ast.unparse(b) for b in node.body]
                prop = bool(body) and body[0] == "self._clear_dependent_caches()"
    obj = dict(transitive=transitive, viewsLinked=links, refPos=refreg, setattrPropagates=prop)
    return raw, rotg, time, sorted(cached), sorted(fmt_dep), key_copy, obj


POS_FILE = "midgard/data/_position.py"
MUTATOR_NAMES = {"__setitem__", "__setattr__", "__delitem__", "__delattr__"}


def _is_self_cache(node):
    return isinstance(node, ast.Attribute) and node.attr == "_cache" and isinstance(node.value, ast.Name) and node.value.id == "self"


def _first_real_stmt(fn):
    body = [b for b in fn.body if not (isinstance(b, ast.Expr) and isinstance(b.value, ast.Constant) and isinstance(b.value.value, str))]
    return body[0] if body else None


def extract_position_tables():
    """tables about the per-object caches of midgard/data/_position.py, one row per site:
    cache_writes  every store into `self._cache` (subscript assignment, setdefault, update): class, function, key, parameters of
                  the function besides self
    attr_writes   every attribute store on `self` (`self.x = …`, `setattr(self, …)`, `super().__setattr__(…)`,
                  `object.__setattr__(self, …)`, `self.__dict__[…] = …`): class, function, attribute, how
    mutators      every method that changes the contents or an attribute in place (`__setitem__`, `__setattr__`, `__delitem__`,
                  `__delattr__`, property setters): class, function, does it drop the cache(s) before anything else
    """
    tree = _parse(POS_FILE)
    cache_writes, attr_writes, mutators = [], [], []
    for cls in [n for n in tree.body if isinstance(n, ast.ClassDef)]:
        for fn in [f for f in cls.body if isinstance(f, ast.FunctionDef)]:
            params = [a.arg for a in fn.args.posonlyargs + fn.args.args + fn.args.kwonlyargs][1:]
            if fn.args.vararg:
                params.append("*" + fn.args.vararg.arg)
            if fn.args.kwarg:
                params.append("**" + fn.args.kwarg.arg)
            for node in ast.walk(fn):
                targets = []
                if isinstance(node, ast.Assign):
                    targets = node.targets
                elif isinstance(node, (ast.AugAssign, ast.AnnAssign)):
                    targets = [node.target]
                for t in targets:
                    for tt in (t.elts if isinstance(t, (ast.Tuple, ast.List)) else [t]):
                        if isinstance(tt, ast.Subscript) and _is_self_cache(tt.value):
                            cache_writes.append((cls.name, fn.name, ast.unparse(tt.slice), params))
                        elif isinstance(tt, ast.Attribute) and isinstance(tt.value, ast.Name) and tt.value.id == "self":
                            attr_writes.append((cls.name, fn.name, tt.attr, "assign"))
                        elif (isinstance(tt, ast.Subscript) and isinstance(tt.value, ast.Attribute) and tt.value.attr == "__dict__"
                              and isinstance(tt.value.value, ast.Name) and tt.value.value.id == "self"):
                            attr_writes.append((cls.name, fn.name, ast.unparse(tt.slice), "__dict__"))
                if isinstance(node, ast.Call):
                    f = node.func
                    if isinstance(f, ast.Attribute) and f.attr in ("setdefault", "update", "__setitem__") and _is_self_cache(f.value):
                        cache_writes.append((cls.name, fn.name, ast.unparse(node.args[0]) if node.args else "?", params))
                    if isinstance(f, ast.Name) and f.id == "setattr" and node.args and isinstance(node.args[0], ast.Name) and node.args[0].id == "self":
                        attr_writes.append((cls.name, fn.name, ast.unparse(node.args[1]), "setattr"))
                    if isinstance(f, ast.Attribute) and f.attr == "__setattr__" and not (isinstance(f.value, ast.Name) and f.value.id == "self"):
                        # super().__setattr__(name, value) / object.__setattr__(self, name, value): bypasses PosBase.__setattr__
                        args = node.args[1:] if (isinstance(f.value, ast.Name) and f.value.id in ("object", "np", "ndarray")) or "ndarray" in ast.unparse(f.value) else node.args
                        attr_writes.append((cls.name, fn.name, ast.unparse(args[0]) if args else "?", "bypass"))
                    if isinstance(f, ast.Attribute) and f.attr in ("update", "__setitem__") and ast.unparse(f.value) in ("self.__dict__", "vars(self)"):
                        attr_writes.append((cls.name, fn.name, ast.unparse(node.args[0]) if node.args else "?", "__dict__"))
            is_setter = any(isinstance(d, ast.Attribute) and d.attr in ("setter", "deleter") for d in fn.decorator_list)
            if fn.name in MUTATOR_NAMES or is_setter:
                first = _first_real_stmt(fn)
                src = ast.unparse(first) if first is not None else ""
                clears = src in ("self._clear_dependent_caches()", "self.clear_cache()")
                mutators.append((cls.name, fn.name, clears))
            # ndarray methods that change the contents in place, overridden through the factory `_changing_in_place(name)`:
            # the inner function is the body of each of them
            if fn.name == "_changing_in_place":
                inner = next((n for n in fn.body if isinstance(n, ast.FunctionDef)), None)
                first = _first_real_stmt(inner) if inner is not None else None
                clears = first is not None and ast.unparse(first) == "self._clear_dependent_caches()"
                for node in cls.body:
                    if (isinstance(node, ast.Assign) and isinstance(node.value, ast.Call) and isinstance(node.value.func, ast.Name)
                            and node.value.func.id == "_changing_in_place" and len(node.targets) == 1 and isinstance(node.targets[0], ast.Name)):
                        mutators.append((cls.name, node.targets[0].id, clears and ast.literal_eval(node.value.args[0]) == node.targets[0].id))
            if fn.name == "__array_function__":
                # NumPy functions writing into the array (first argument of np.copyto / np.place / np.putmask, dst=, out=)
                src = ast.unparse(fn)
                mutators.append((cls.name, fn.name, "super().__array_function__(func, types, args, kwargs)" in src and "'out'" in src and "'dst'" in src
                                 and "np.copyto" in src and "np.place" in src and "np.putmask" in src and "array._clear_dependent_caches()" in src))
            if fn.name == "__array_wrap__":
                # NumPy calls it on the out= array of a ufunc: it must drop the caches when the array wrapped is the array itself
                src = ast.unparse(fn)
                mutators.append((cls.name, fn.name, "if array is self:\n        self._clear_dependent_caches()" in src))
    return sorted(set((c, f, k, tuple(ps)) for c, f, k, ps in cache_writes)), sorted(set(attr_writes)), sorted(set(mutators))


def extract_finalize_linked():
    """every __array_finalize__ links the new array with the arrays it uses the memory of (before it copies the attributes), every
    constructor does so for the values it is given, and the 1-d .pos/.vel of the PosVel classes do so for their receiver"""
    tree = _parse(POS_FILE)
    helper = _func(tree, "_link_shared_memory", "PosBase")
    ok = helper is not None and "source._share_memory_with(self)" in ast.unparse(helper) and "getattr(source, 'base', None)" in ast.unparse(helper)
    n_fin = n_new = 0
    for cls in [n for n in tree.body if isinstance(n, ast.ClassDef)]:
        for fn in [f for f in cls.body if isinstance(f, ast.FunctionDef)]:
            src = ast.unparse(fn)
            if fn.name == "__array_finalize__":
                n_fin += 1
                ok = ok and "self._link_shared_memory(obj)" in src
            if fn.name == "__new__":
                n_new += 1
                ok = ok and "obj._link_shared_memory(val)" in src
            if fn.name in ("pos", "vel") and "_cache" in src and "self.val[" in src:
                ok = ok and f"self._cache['{fn.name}']._link_shared_memory(self)" in src
    return bool(ok and n_fin >= 1 and n_new >= 1)


def _flags(d):
    b = lambda x: "true" if x else "false"
    return f"⟨{b(d['keyShape'])}, {b(d['keyTag'])}, {b(d['copyOut'])}, {b(d['frozenOut'])}, {b(d['freezeArg'])}, {int(d['cap'] or 0)}⟩"


def generate() -> bool:
    raw, rotg, time, cached, fmt_dep, key_copy, obj = extract()
    out = ["/- GENERATED by translator/extract_cache.py from /repo — do not edit -/", "import Midgard.Model.CacheMachine", "import Midgard.Model.ObjCache", "",
           "namespace Midgard.Generated.CacheMech", "open Midgard.CacheMachine Midgard.ObjCache.Table", ""]
    for k, d in raw.items():
        out.append(f"def {k} : Flags := {_flags(d)}")
    for k, d in rotg.items():
        out.append(f"def {k} : Flags := {_flags(d)}")
    out.append(f"def toScale : Flags := {_flags(time)}")
    out.append("/-- `_time._read_only` freezes the array it is given, and every member of a tuple result, in place -/")
    out.append(f"def timeResultsFrozenInPlace : Bool := {'true' if time['resultsFrozenInPlace'] else 'false'}")
    out.append("")
    out.append("/-- HashArray copies a writable argument (the cache key cannot change under the caller's hands) -/")
    out.append(f"def keyCopied : Bool := {'true' if key_copy else 'false'}")
    out.append("")
    out.append("/-- every lru_cache-decorated callable under midgard/math and midgard/data -/")
    out.append("def cachedCallables : List String := [" + ", ".join(lean_str(c) for c in cached) + "]")
    out.append("")
    out.append("/-- self-keyed caches of the time classes whose result carries `self.fmt` although the key does not -/")
    out.append("def fmtDependentSelfKeyed : List String := [" + ", ".join(lean_str(c) for c in fmt_dep) + "]")
    b = lambda x: "true" if x else "false"
    out += ["", "/-- PosBase.__setitem__ clears the caches of all direct and indirect dependents -/",
            f"def objTransitive : Bool := {b(obj['transitive'])}",
            "/-- rows taken by basic indexing are registered with their parent and vice versa; no `_sliced` side channel -/",
            f"def objViewsLinked : Bool := {b(obj['viewsLinked'])}",
            "/-- a position delta is registered as depending on its ref_pos -/",
            f"def objRefPosRegistered : Bool := {b(obj['refPos'])}",
            "/-- replacing or removing an attached object clears the caches of all (direct and indirect) dependents first -/",
            f"def objSetattrPropagates : Bool := {b(obj['setattrPropagates'])}",
            "/-- arrays NumPy makes through __array_finalize__ only (view, reshape, .T, arr[...], arr[:, :]), arrays constructed from a",
            "position array and the 1-d .pos/.vel are linked with every position array they use the memory of -/",
            f"def objFinalizeLinked : Bool := {b(extract_finalize_linked())}"]
    cw, aw, mu = extract_position_tables()
    out += ["", "/-- every store into a per-object `_cache` of _position.py: class, function, key expression, parameters besides self -/",
            "def cacheWrites : List CacheWrite := ["]
    out += ["  " + ",\n  ".join(f"⟨{lean_str(c)}, {lean_str(f)}, {lean_str(k)}, [" + ", ".join(lean_str(p_) for p_ in ps) + "]⟩" for c, f, k, ps in cw) + "]"]
    out += ["", "/-- every attribute store on `self` in _position.py: class, function, attribute (expression), how -/",
            "def attrWrites : List AttrWrite := ["]
    out += ["  " + ",\n  ".join(f"⟨{lean_str(c)}, {lean_str(f)}, {lean_str(a)}, {lean_str(h)}⟩" for c, f, a, h in aw) + "]"]
    out += ["", "/-- every method of _position.py that changes contents or attributes in place: class, function, drops the caches first -/",
            "def mutators : List Mutator := ["]
    out += ["  " + ",\n  ".join(f"⟨{lean_str(c)}, {lean_str(f)}, {b(cl)}⟩" for c, f, cl in mu) + "]"]
    out += ["", "end Midgard.Generated.CacheMech", ""]
    return write_if_changed("CacheMech.lean", "\n".join(out))


if __name__ == "__main__":
    print(extract())
    for t in extract_position_tables():
        for row in t:
            print(row)
    print("finalize linked:", extract_finalize_linked())
    print("changed" if generate() else "unchanged")
