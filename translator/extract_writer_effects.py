#!/venv/bin/python
"""C17 translator (2): what the writers assign to, through their arguments and their module-level tables.

Writes lean/Midgard/Generated/WriterEffects.lean from $MIDGARD_REPO (default /repo) by `ast` only (nothing is imported).

For each of the ten writer modules:
  roots      the parameters of the registered writer function (`@plugins.register`; all of them: dataset, site
             information, `fields` / option dictionaries, paths, texts) and the module-level names bound to a mutable
             container (dict / list / set / OrderedDict literal or call);
  taint      a flow-sensitive pass over every function body, statement by statement: a name bound to an expression that
             *reaches into* a tainted object (the name itself, attribute, subscript, `.get()/.items()/.values()/.keys()`,
             `sorted/enumerate/zip/list/reversed/iter/next` of it, a loop variable over it, a conditional expression or
             `or`/`and` of it) is tainted; a name bound to a copy (`deepcopy(x)`, `copy(x)`, `x.copy()`, `dict(x)`,
             `list(x)`, `OrderedDict(x)`, a comprehension, a literal, arithmetic, a string) is clean from there on; after
             `if`/`for`/`while`/`try`/`with` the taint is the union of the branches; `self.<attr> = tainted` taints the
             attribute for the whole class; a call of a function / method / class of the same module with a tainted
             argument taints the parameter (fixpoint over the module);
  effects    inside any function: assignment / augmented assignment / `del` whose target is an attribute or subscript of a
             tainted object, and calls of a mutating method on it (`append`, `update`, `pop`, … and the Dataset mutators
             `add_*`, `subset`, `extend`, `merge_with`, `update_from`, `rename`, …).

The Lean obligation (`writers_assign_nothing_on_inputs`, Props/C17.lean) is `writerEffects = []`.  The analysis is
validated dynamically on every run: harness/c17.py digests every argument and every module-level container before and
after each writer call.
"""
from __future__ import annotations

import ast
import os
import pathlib
import sys
import warnings
from typing import Dict, List, Optional, Set, Tuple

REPO = pathlib.Path(os.environ.get("MIDGARD_REPO", "/repo"))
VERIF = pathlib.Path(__file__).resolve().parent.parent
OUT = VERIF / "lean" / "Midgard" / "Generated" / "WriterEffects.lean"
WRITERS = ["bernese_abb", "bernese_clu", "bernese_crd", "bernese_sta", "bernese_vel", "csv_", "gamit_apr_eq",
           "gamit_station_info", "gipsyx_site_info", "sinex_tms"]

MUT_CALLS = {"dict", "list", "set", "defaultdict", "OrderedDict", "Counter", "deque"}
MUT_METHODS = {"append", "extend", "insert", "pop", "popitem", "remove", "clear", "update", "setdefault", "add", "discard",
               "sort", "reverse", "appendleft", "popleft", "__setitem__", "__delitem__", "move_to_end", "fill", "resize",
               # midgard Dataset / collections
               "add_float", "add_text", "add_time", "add_position", "add_position_delta", "add_posvel", "add_posvel_delta",
               "add_sigma", "add_bool", "add_collection", "add_time_delta", "subset", "merge_with", "update_from",
               "rename", "vars_update", "write", "write_as"}
# `write`/`write_as` on a dataset are mutating the *file system*, not the input; on a file handle they are the output:
MUT_METHODS -= {"write", "write_as"}
PASS_THROUGH_CALLS = {"sorted", "enumerate", "zip", "reversed", "iter", "next", "getattr", "attrgetter", "itemgetter"}
PASS_THROUGH_METHODS = {"get", "items", "values", "keys", "setdefault", "pop"}
COPY_CALLS = {"deepcopy", "copy", "dict", "list", "set", "tuple", "OrderedDict", "str", "int", "float", "len", "bool"}
COPY_METHODS = {"copy", "upper", "lower", "strip", "format", "strftime", "split", "join", "replace", "tolist", "astype"}


def parse(p: pathlib.Path) -> ast.Module:
    with warnings.catch_warnings():
        warnings.simplefilter("ignore")
        return ast.parse(p.read_text(), filename=str(p))


def is_mutable_expr(e: ast.AST) -> bool:
    if isinstance(e, (ast.Dict, ast.List, ast.Set, ast.DictComp, ast.ListComp, ast.SetComp)):
        return True
    if isinstance(e, ast.Call):
        f = e.func
        n = f.id if isinstance(f, ast.Name) else f.attr if isinstance(f, ast.Attribute) else None
        return n in MUT_CALLS
    return False


class Module:
    def __init__(self, name: str):
        self.name = name
        self.tree = parse(REPO / "midgard" / "writers" / f"{name}.py")
        self.funcs: Dict[str, ast.FunctionDef] = {}  # qualified: f, Class.m
        self.classes: Dict[str, ast.ClassDef] = {}
        self.module_cells: Set[str] = set()
        self.entry: Optional[str] = None
        for n in self.tree.body:
            if isinstance(n, ast.FunctionDef):
                self.funcs[n.name] = n
                if any("register" in ast.unparse(d) for d in n.decorator_list):
                    self.entry = n.name
            elif isinstance(n, ast.ClassDef):
                self.classes[n.name] = n
                for m in n.body:
                    if isinstance(m, ast.FunctionDef):
                        self.funcs[f"{n.name}.{m.name}"] = m
            elif isinstance(n, ast.Assign) and is_mutable_expr(n.value):
                for t in n.targets:
                    if isinstance(t, ast.Name):
                        self.module_cells.add(t.id)
            elif isinstance(n, ast.AnnAssign) and n.value is not None and is_mutable_expr(n.value) and isinstance(n.target, ast.Name):
                self.module_cells.add(n.target.id)
        # taint state shared over the fixpoint
        self.param_taint: Dict[str, Dict[str, str]] = {q: {} for q in self.funcs}  # func -> {param: origin}
        self.attr_taint: Dict[str, Dict[str, str]] = {c: {} for c in self.classes}  # class -> {attr: origin}
        self.effects: Dict[Tuple[str, int, str], Tuple[str, str]] = {}
        self.changed = True

    # ---- expressions
    def origin(self, e: ast.AST, env: Dict[str, str], cls: Optional[str]) -> Optional[str]:
        """the root (input parameter / module table) the value of `e` reaches into, or None for a fresh / immutable value"""
        if isinstance(e, ast.Name):
            if e.id in env:
                return env[e.id]
            if e.id in self.module_cells:
                return f"module:{e.id}"
            return None
        if isinstance(e, ast.Attribute):
            if isinstance(e.value, ast.Name) and e.value.id == "self" and cls:
                return self.attr_taint[cls].get(e.attr)
            return self.origin(e.value, env, cls)
        if isinstance(e, ast.Subscript):
            return self.origin(e.value, env, cls)
        if isinstance(e, ast.Starred):
            return self.origin(e.value, env, cls)
        if isinstance(e, ast.IfExp):
            return self.origin(e.body, env, cls) or self.origin(e.orelse, env, cls)
        if isinstance(e, ast.BoolOp):
            for v in e.values:
                o = self.origin(v, env, cls)
                if o:
                    return o
            return None
        if isinstance(e, ast.NamedExpr):
            return self.origin(e.value, env, cls)
        if isinstance(e, ast.Call):
            f = e.func
            if isinstance(f, ast.Name):
                if f.id in COPY_CALLS:
                    return None
                if f.id in PASS_THROUGH_CALLS:
                    for a in e.args:
                        o = self.origin(a, env, cls)
                        if o:
                            return o
                return None
            if isinstance(f, ast.Attribute):
                if f.attr in COPY_METHODS:
                    return None
                if f.attr in PASS_THROUGH_METHODS:
                    return self.origin(f.value, env, cls)
                if isinstance(f.value, ast.Call) and isinstance(f.value.func, ast.Name) and f.value.func.id in PASS_THROUGH_CALLS:
                    return self.origin(f.value, env, cls)
            return None
        if isinstance(e, (ast.Tuple, ast.List)):
            for v in e.elts:
                o = self.origin(v, env, cls)
                if o:
                    return o
        return None

    def bind(self, target: ast.AST, org: Optional[str], env: Dict[str, str], cls: Optional[str], q: str, line: int):
        if isinstance(target, ast.Name):
            if org:
                env[target.id] = org
            else:
                env.pop(target.id, None)
        elif isinstance(target, (ast.Tuple, ast.List)):
            for t in target.elts:
                self.bind(t, org, env, cls, q, line)
        elif isinstance(target, ast.Attribute) and isinstance(target.value, ast.Name) and target.value.id == "self" and cls:
            if org and self.attr_taint[cls].get(target.attr) != org:
                self.attr_taint[cls].setdefault(target.attr, org)
                self.changed = True
        elif isinstance(target, (ast.Attribute, ast.Subscript)):
            o = self.origin(target.value, env, cls)
            if o:
                self.effect(q, line, "assign", ast.unparse(target), o)
        elif isinstance(target, ast.Starred):
            self.bind(target.value, org, env, cls, q, line)

    def effect(self, q: str, line: int, kind: str, text: str, org: str):
        self.effects[(q, line, kind)] = (text, org)

    # ---- calls inside the module
    def callee(self, f: ast.AST, cls: Optional[str]) -> Optional[Tuple[str, int]]:
        """qualified name of a function of this module that `f(...)` calls, and how many leading parameters are bound
        implicitly (`self`)"""
        if isinstance(f, ast.Name):
            if f.id in self.funcs:
                return f.id, 0
            if f.id in self.classes and f"{f.id}.__init__" in self.funcs:
                return f"{f.id}.__init__", 1
        if isinstance(f, ast.Attribute) and isinstance(f.value, ast.Name):
            if f.value.id == "self" and cls and f"{cls}.{f.attr}" in self.funcs:
                fn = self.funcs[f"{cls}.{f.attr}"]
                static = any(isinstance(d, ast.Name) and d.id == "staticmethod" for d in fn.decorator_list)
                return f"{cls}.{f.attr}", 0 if static else 1
            if f.value.id in self.classes and f"{f.value.id}.{f.attr}" in self.funcs:
                return f"{f.value.id}.{f.attr}", 0
        return None

    def visit_calls(self, node: ast.AST, env: Dict[str, str], cls: Optional[str], q: str):
        for c in ast.walk(node):
            if not isinstance(c, ast.Call):
                continue
            f = c.func
            if isinstance(f, ast.Attribute) and f.attr in MUT_METHODS:
                o = self.origin(f.value, env, cls)
                if o:
                    self.effect(q, c.lineno, f"call .{f.attr}()", ast.unparse(f.value), o)
            tgt = self.callee(f, cls)
            if tgt:
                name, skip = tgt
                fn = self.funcs[name]
                params = [a.arg for a in fn.args.posonlyargs + fn.args.args][skip:]
                for i, a in enumerate(c.args):
                    if i < len(params):
                        o = self.origin(a, env, cls)
                        if o and params[i] not in self.param_taint[name]:
                            self.param_taint[name][params[i]] = o
                            self.changed = True
                for k in c.keywords:
                    if k.arg:
                        o = self.origin(k.value, env, cls)
                        if o and k.arg not in self.param_taint[name]:
                            self.param_taint[name][k.arg] = o
                            self.changed = True

    # ---- statements
    def block(self, stmts: List[ast.stmt], env: Dict[str, str], cls: Optional[str], q: str):
        for s in stmts:
            if isinstance(s, (ast.FunctionDef, ast.ClassDef)):
                continue
            if isinstance(s, ast.Assign):
                self.visit_calls(s.value, env, cls, q)
                org = self.origin(s.value, env, cls)
                for t in s.targets:
                    self.bind(t, org, env, cls, q, s.lineno)
            elif isinstance(s, ast.AnnAssign) and s.value is not None:
                self.visit_calls(s.value, env, cls, q)
                self.bind(s.target, self.origin(s.value, env, cls), env, cls, q, s.lineno)
            elif isinstance(s, ast.AugAssign):
                self.visit_calls(s.value, env, cls, q)
                if isinstance(s.target, (ast.Attribute, ast.Subscript)):
                    o = self.origin(s.target.value, env, cls)
                    if o:
                        self.effect(q, s.lineno, "augassign", ast.unparse(s.target), o)
                elif isinstance(s.target, ast.Name) and s.target.id in env:
                    self.effect(q, s.lineno, "augassign", s.target.id, env[s.target.id])
            elif isinstance(s, ast.Delete):
                for t in s.targets:
                    if isinstance(t, (ast.Attribute, ast.Subscript)):
                        o = self.origin(t.value, env, cls)
                        if o:
                            self.effect(q, s.lineno, "del", ast.unparse(t), o)
            elif isinstance(s, (ast.For, ast.AsyncFor)):
                self.visit_calls(s.iter, env, cls, q)
                for _ in range(2):
                    self.bind(s.target, self.origin(s.iter, env, cls), env, cls, q, s.lineno)
                    e2 = dict(env)
                    self.block(s.body, e2, cls, q)
                    for k, v in e2.items():
                        env.setdefault(k, v)
                self.block(s.orelse, env, cls, q)
            elif isinstance(s, ast.While):
                self.visit_calls(s.test, env, cls, q)
                for _ in range(2):
                    e2 = dict(env)
                    self.block(s.body, e2, cls, q)
                    for k, v in e2.items():
                        env.setdefault(k, v)
            elif isinstance(s, ast.If):
                self.visit_calls(s.test, env, cls, q)
                e1, e2 = dict(env), dict(env)
                self.block(s.body, e1, cls, q)
                self.block(s.orelse, e2, cls, q)
                env.clear()
                env.update(e2)
                for k, v in e1.items():
                    env.setdefault(k, v)
            elif isinstance(s, (ast.With, ast.AsyncWith)):
                for it in s.items:
                    self.visit_calls(it.context_expr, env, cls, q)
                    if it.optional_vars is not None:
                        self.bind(it.optional_vars, self.origin(it.context_expr, env, cls), env, cls, q, s.lineno)
                self.block(s.body, env, cls, q)
            elif isinstance(s, ast.Try):
                self.block(s.body, env, cls, q)
                for h in s.handlers:
                    self.block(h.body, env, cls, q)
                self.block(s.orelse, env, cls, q)
                self.block(s.finalbody, env, cls, q)
            else:
                self.visit_calls(s, env, cls, q)

    def run(self):
        if self.entry:
            fn = self.funcs[self.entry]
            for a in fn.args.posonlyargs + fn.args.args + fn.args.kwonlyargs:
                self.param_taint[self.entry][a.arg] = f"arg:{a.arg}"
        rounds = 0
        while self.changed and rounds < 12:
            self.changed = False
            rounds += 1
            self.effects.clear()
            for q, fn in self.funcs.items():
                cls = q.split(".")[0] if "." in q else None
                env = dict(self.param_taint[q])
                self.block(fn.body, env, cls, q)


def ls(s: str) -> str:
    return '"' + s.replace("\\", "\\\\").replace('"', '\\"').replace("\n", "\\n") + '"'


def generate() -> Tuple[str, Dict]:
    rows, roots, cells = [], [], []
    for w in WRITERS:
        m = Module(w)
        m.run()
        for (q, line, kind), (text, org) in sorted(m.effects.items(), key=lambda kv: (kv[0][1], kv[0][0], kv[0][2])):
            rows.append((w, q, line, kind, text, org))
        if m.entry:
            fn = m.funcs[m.entry]
            roots += [(w, f"arg:{a.arg}") for a in fn.args.posonlyargs + fn.args.args + fn.args.kwonlyargs]
        else:
            roots.append((w, "no-registered-function"))
        roots += [(w, f"module:{c}") for c in sorted(m.module_cells)]
        cells.append((w, len(m.funcs), sum(len(v) for v in m.param_taint.values()), sum(len(v) for v in m.attr_taint.values())))
    o = ["/-\nGENERATED by translator/extract_writer_effects.py from the working tree of midgard - do not edit.\n"
         "Assignments, deletions and mutating calls of the ten writers whose target is reachable from an argument of the\n"
         "writer function or from a module-level table (flow-sensitive `ast` taint analysis).\n-/\n"
         "namespace Midgard.Generated.WriterEffects\n",
         "structure Effect where\n  writer : String\n  function : String\n  line : Nat\n  kind : String\n  target : String\n"
         "  /-- the argument (`arg:<name>`) or module table (`module:<name>`) the target reaches into -/\n  root : String\n"
         "  deriving DecidableEq, Repr\n",
         "/-- every site where a writer assigns to / deletes from / calls a mutating method on an object it was given or a\n"
         "module-level table -/\ndef writerEffects : List Effect := [" +
         ",\n  ".join(f"⟨{ls(w)}, {ls(q)}, {line}, {ls(kind)}, {ls(text)}, {ls(org)}⟩" for w, q, line, kind, text, org in rows) + "]\n",
         "/-- the roots of the analysis: arguments of the registered writer functions and module-level mutable tables -/\n"
         "def writerRoots : List (String × String) := [\n  " + ",\n  ".join(f"({ls(w)}, {ls(r)})" for w, r in roots) + "]\n",
         "/-- per writer: functions analysed, parameters reached by an argument / table, `self` attributes reached -/\n"
         "def writerReach : List (String × Nat × Nat × Nat) := [\n  " +
         ",\n  ".join(f"({ls(w)}, {a}, {b}, {c})" for w, a, b, c in cells) + "]\n",
         "end Midgard.Generated.WriterEffects\n"]
    return "\n".join(o), {"effects": rows, "roots": roots, "reach": cells}


def main(write: bool = True) -> Dict:
    text, info = generate()
    if write:
        OUT.parent.mkdir(parents=True, exist_ok=True)
        old = OUT.read_text() if OUT.exists() else None
        if old != text:
            tmp = OUT.with_suffix(f".tmp{os.getpid()}")
            tmp.write_text(text)
            tmp.replace(OUT)
        info["changed"] = old != text
    return info


if __name__ == "__main__":
    i = main(write="--dry" not in sys.argv)
    for r in i["effects"]:
        print("EFFECT", r)
    print(len(i["roots"]), "roots;", i["reach"])
