"""C15: column tables of midgard/parsers/antex.py -> Generated/AntexCols.lean"""
from .extract_parserdefs import emit, walk
from .util import write_if_changed


def main() -> bool:
    from midgard.parsers.antex import AntexParser

    rows = walk(AntexParser)
    return write_if_changed("AntexCols.lean", emit("AntexCols", "midgard/parsers/antex.py", rows))


if __name__ == "__main__":
    print("changed" if main() else "unchanged")
