"""C01: the *control flow* of midgard/data/_time.py that the expression translator (extract_exprs.py) leaves out, read off
the Python `ast` of the tree under test and written as Lean definitions → lean/Midgard/Generated/SourceTimeFlow.lean

* `_taiutc_idx`          — the row selection `np.maximum(np.sum(<row has started>, axis=-1) - 1, 0)`: the integer expression
                           around the count of true flags, and the broadcasting pattern (epochs get a new last axis, the table
                           columns run along it, the sum reduces that axis);
* `delta_tai_utc`        — with which arguments each branch calls `_taiutc_idx` (which parts of the time, which shift of the
                           row starts);
* `_find_conversion_hops`— the breadth-first search statement by statement: initial queue and visited set, the early return,
                           `while queue`, which end of the queue is popped, the neighbour list comprehension (registry order,
                           filter), the body of the `for` (order of the target test and the visited test, what is added to the
                           visited set, where the new entry is put in the queue), the `raise` after the loop;
* `TimeBase.to_scale` / `_to_scale` — identity for the own scale, a registered direct hop first, otherwise the searched
                           route, and the fold of the hop functions along it.

The fragment is small and closed: anything that is not recognised is a translation error, the definition is left out, and the
theorems `source_row_selection`, `source_route_search`, `source_to_scale` of Props/C01 (which say that these definitions are
equal to the hand-written model for every table, registry, scale pair and bound) no longer check.
"""
from __future__ import annotations

import ast
import warnings
from typing import Dict, List, Optional, Tuple

from .util import REPO, write_if_changed
from .extract_exprs import find_function, flatten, dotted, Untranslatable

TIME = "midgard/data/_time.py"


def fail(where: str, why: str, node: Optional[ast.AST] = None):
    raise Untranslatable(f"{where}: {why}" + (f": `{ast.unparse(node)}`" if node is not None else ""))


def body_of(fn: ast.FunctionDef) -> List[ast.stmt]:
    """statements without the docstring"""
    b = list(fn.body)
    if b and isinstance(b[0], ast.Expr) and isinstance(b[0].value, ast.Constant) and isinstance(b[0].value.value, str):
        b = b[1:]
    return b


# ----------------------------------------------------------------------------------------------------------------------
# the list fragment (queue / visited set / hop lists)


class LTr:
    """expressions over scales, hops (pairs) and lists of them"""

    def __init__(self, env: Dict[str, str], where: str):
        self.env = dict(env)
        self.where = where

    def ex(self, e: ast.AST) -> str:
        if isinstance(e, ast.Name):
            if e.id in self.env:
                return self.env[e.id]
            fail(self.where, "name that is not bound in the translated fragment", e)
        if isinstance(e, ast.Subscript) and ast.unparse(e) in self.env:
            return self.env[ast.unparse(e)]
        if isinstance(e, ast.Tuple):
            return "(" + ", ".join(self.ex(x) for x in e.elts) + ")"
        if isinstance(e, ast.List):
            return "[" + ", ".join(self.ex(x) for x in e.elts) + "]"
        if isinstance(e, ast.Call) and dotted(e.func) == "set" and not e.args and not e.keywords:
            return "[]"      # a set is used for membership only: modelled as the list of its elements in insertion order
        if isinstance(e, ast.BinOp) and isinstance(e.op, ast.Add):
            if not (isinstance(e.left, ast.List) or isinstance(e.right, ast.List)):
                fail(self.where, "`+` whose operands are not visibly lists", e)
            return f"({self.ex(e.left)} ++ {self.ex(e.right)})"
        if isinstance(e, ast.Compare) and len(e.ops) == 1:
            a, b = self.ex(e.left), self.ex(e.comparators[0])
            op = e.ops[0]
            if isinstance(op, ast.Eq):
                return f"(decide ({a} = {b}))"
            if isinstance(op, ast.NotEq):
                return f"(!(decide ({a} = {b})))"
            if isinstance(op, ast.In):
                return f"({b}.contains {a})"
            if isinstance(op, ast.NotIn):
                return f"(!({b}.contains {a}))"
        if isinstance(e, ast.UnaryOp) and isinstance(e.op, ast.Not):
            return f"(!{self.ex(e.operand)})"
        fail(self.where, "expression form", e)


def names_used(e: ast.AST) -> set:
    return {n.id for n in ast.walk(e) if isinstance(n, ast.Name)}


def translate_find_hops(tree: ast.Module) -> List[str]:
    where = f"{TIME}:_find_conversion_hops"
    fn = find_function(tree, "_find_conversion_hops")
    params = [a.arg for a in fn.args.args]
    if len(params) != 2:
        fail(where, "expected the parameters (cls, hop)")
    p_cls, p_hop = params
    body = body_of(fn)
    # --- start_scale, target_scale = hop
    st = body[0] if body else None
    if not (isinstance(st, ast.Assign) and len(st.targets) == 1 and isinstance(st.targets[0], ast.Tuple) and len(st.targets[0].elts) == 2
            and all(isinstance(x, ast.Name) for x in st.targets[0].elts) and isinstance(st.value, ast.Name) and st.value.id == p_hop):
        fail(where, "first statement is not `start, target = hop`", st)
    v_start, v_target = (x.id for x in st.targets[0].elts)
    # --- the while loop and what comes before / after it
    wi = next((i for i, s in enumerate(body) if isinstance(s, ast.While)), None)
    if wi is None:
        fail(where, "no `while` loop")
    wh: ast.While = body[wi]
    if not isinstance(wh.test, ast.Name) or wh.orelse:
        fail(where, "loop condition is not the truth value of the queue", wh.test)
    v_queue = wh.test.id
    after = body[wi + 1:]
    if not (len(after) == 1 and isinstance(after[0], ast.Raise)):
        fail(where, "the loop is not followed by a single `raise`")
    # state variables: the queue and the (single) other container mutated in the loop
    mutated = []
    for n in ast.walk(wh):
        if isinstance(n, ast.Call) and isinstance(n.func, ast.Attribute) and isinstance(n.func.value, ast.Name) \
                and n.func.attr in ("add", "append", "insert", "pop", "remove", "discard", "clear", "extend", "update"):
            if n.func.value.id not in mutated:
                mutated.append(n.func.value.id)
        if isinstance(n, (ast.AugAssign, ast.Delete)):
            fail(where, "augmented assignment / del inside the loop", n)
    others = [m for m in mutated if m != v_queue]
    if len(others) != 1:
        fail(where, f"expected the queue and one visited container to be mutated in the loop, found {mutated}")
    v_vis = others[0]
    STATE = f"({v_queue}, {v_vis})"
    # --- statements before the loop
    tr = LTr({v_start: v_start, v_target: v_target, p_hop: p_hop}, where)
    head: List[str] = [f"  let {p_hop} := ({v_start}, {v_target})"]
    seen_init = set()
    for s in body[1:wi]:
        if isinstance(s, ast.Assign) and len(s.targets) == 1 and isinstance(s.targets[0], ast.Name):
            name = s.targets[0].id
            ty = "Q" if name == v_queue else "List Hop" if name == v_vis else None
            if ty is None:
                fail(where, "assignment to a name that is not the queue or the visited set before the loop", s)
            head.append(f"  let {name} : {ty} := {tr.ex(s.value)}")
            tr.env[name] = name
            seen_init.add(name)
        elif isinstance(s, ast.If) and not s.orelse and len(s.body) == 1 and isinstance(s.body[0], ast.Return):
            head.append(f"  if {tr.ex(s.test)} then some {tr.ex(s.body[0].value)} else")
        else:
            fail(where, "statement before the loop", s)
    if seen_init != {v_queue, v_vis}:
        fail(where, "queue and visited set are not both initialised before the loop")
    # --- loop body: pop, then one `for`
    wb = wh.body
    if len(wb) != 2 or not isinstance(wb[1], ast.For):
        fail(where, "loop body is not `x = queue.pop(…)` followed by one `for`")
    pop = wb[0]
    if not (isinstance(pop, ast.Assign) and len(pop.targets) == 1 and isinstance(pop.targets[0], ast.Tuple) and len(pop.targets[0].elts) == 2
            and all(isinstance(x, ast.Name) for x in pop.targets[0].elts) and isinstance(pop.value, ast.Call)
            and isinstance(pop.value.func, ast.Attribute) and pop.value.func.attr == "pop" and dotted(pop.value.func.value) == v_queue
            and not pop.value.keywords):
        fail(where, "first statement of the loop is not `a, b = queue.pop(…)`", pop)
    v_from, v_hops = (x.id for x in pop.targets[0].elts)
    args = pop.value.args
    if len(args) == 1 and isinstance(args[0], ast.Constant) and args[0].value == 0:
        popper = "popFront"
    elif len(args) == 0 or (len(args) == 1 and isinstance(args[0], ast.UnaryOp) and isinstance(args[0].op, ast.USub)
                            and isinstance(args[0].operand, ast.Constant) and args[0].operand.value == 1):
        popper = "popBack"
    else:
        fail(where, "pop index other than 0 / -1", pop)
    fr: ast.For = wb[1]
    if not isinstance(fr.target, ast.Name) or fr.orelse:
        fail(where, "`for` target", fr.target)
    v_to = fr.target.id
    # --- the neighbour list: [t for f, t in _CONVERSIONS[cls] if f == from_scale]
    it = fr.iter
    if not (isinstance(it, ast.ListComp) and len(it.generators) == 1):
        fail(where, "`for` does not iterate over one list comprehension", it)
    g = it.generators[0]
    if not (isinstance(g.target, ast.Tuple) and len(g.target.elts) == 2 and all(isinstance(x, ast.Name) for x in g.target.elts)
            and ast.unparse(g.iter) == f"_CONVERSIONS[{p_cls}]" and not g.is_async):
        fail(where, "comprehension is not over the pairs of `_CONVERSIONS[cls]`", it)
    c_f, c_t = (x.id for x in g.target.elts)
    ctr = LTr({c_f: "ft.1", c_t: "ft.2", v_from: v_from, v_target: v_target}, where)
    succs = "conv"
    for cond in g.ifs:
        succs = f"({succs}.filter (fun ft => {ctr.ex(cond)}))"
    succs = f"({succs}.map (fun ft => {ctr.ex(it.elt)}))"
    # --- the body of the `for`
    btr = LTr({v_target: v_target, v_from: v_from, v_hops: v_hops, v_to: v_to, v_queue: v_queue, v_vis: v_vis}, where)

    def mutation(s: ast.stmt, ind: str) -> str:
        if not (isinstance(s, ast.Expr) and isinstance(s.value, ast.Call) and isinstance(s.value.func, ast.Attribute)
                and isinstance(s.value.func.value, ast.Name) and not s.value.keywords):
            fail(where, "statement inside a conditional block of the `for` body", s)
        obj, meth, a = s.value.func.value.id, s.value.func.attr, s.value.args
        if obj not in (v_queue, v_vis):
            fail(where, "method call on something that is not the queue or the visited set", s)
        if meth in ("add", "append") and len(a) == 1:
            return f"{ind}let {obj} := {obj} ++ [{btr.ex(a[0])}]"
        if meth == "insert" and len(a) == 2 and isinstance(a[0], ast.Constant) and a[0].value == 0:
            return f"{ind}let {obj} := [{btr.ex(a[1])}] ++ {obj}"
        fail(where, "container operation", s)

    fb: List[str] = [f"  let {v_queue} := st.1", f"  let {v_vis} := st.2"]
    for s in fr.body:
        if isinstance(s, ast.Assign) and len(s.targets) == 1 and isinstance(s.targets[0], ast.Name):
            n = s.targets[0].id
            if n in (v_queue, v_vis, v_target, v_from, v_hops, v_to):
                fail(where, "re-binding of a loop variable in the `for` body", s)
            fb.append(f"  let {n} := {btr.ex(s.value)}")
            btr.env[n] = n
        elif isinstance(s, ast.If) and not s.orelse and len(s.body) == 1 and isinstance(s.body[0], ast.Return):
            fb.append(f"  if {btr.ex(s.test)} then .ret {btr.ex(s.body[0].value)} else")
        elif isinstance(s, ast.If) and not s.orelse:
            fb.append(f"  let {STATE} := if {btr.ex(s.test)} then")
            fb += [mutation(x, "      ") for x in s.body]
            fb += [f"      {STATE}", f"    else {STATE}"]
        elif isinstance(s, ast.Expr):
            fb.append(mutation(s, "  "))
        else:
            fail(where, "statement in the `for` body", s)
    fb.append(f"  .next {STATE}")
    out = [
        "/-- state of the search loop: the queue of (scale reached, hops that lead there) and the visited hops -/",
        "abbrev Q := List (Scale × List Hop)", "",
        f"/-- `{TIME}` `_find_conversion_hops`: body of the `for` over the neighbours of one queue entry -/",
        f"def findHopsForBodySrc ({v_target} {v_from} : Scale) ({v_hops} : List Hop) ({v_to} : Scale) (st : Q × List Hop) :",
        "    Step (List Hop) (Q × List Hop) :=", *fb, "",
        f"/-- `{TIME}` `_find_conversion_hops`: body of the `while` (pop one entry, scan its neighbours in registry order) -/",
        f"def findHopsWhileBodySrc (conv : List Hop) ({v_target} : Scale) (st : Q × List Hop) : Step (List Hop) (Q × List Hop) :=",
        f"  let {v_queue} := st.1", f"  let {v_vis} := st.2",
        f"  match {popper} {v_queue} with",
        f"  | none => .next {STATE}",
        f"  | some (({v_from}, {v_hops}), {v_queue}) =>",
        f"    forReturn (findHopsForBodySrc {v_target} {v_from} {v_hops}) {succs} {STATE}", "",
        f"/-- `{TIME}` `_find_conversion_hops` (at most `fuel` iterations of the `while`; `none` = the `raise` after the loop) -/",
        f"def findHopsSrc (conv : List Hop) ({v_start} {v_target} : Scale) (fuel : Nat) : Option (List Hop) :=",
        *head,
        f"  whileReturn (fun st => !st.1.isEmpty) (findHopsWhileBodySrc conv {v_target}) fuel {STATE}",
    ]
    return out


# ----------------------------------------------------------------------------------------------------------------------
# to_scale / _to_scale


def translate_to_scale(tree: ast.Module) -> List[str]:
    where = f"{TIME}:TimeBase.to_scale/_to_scale"
    ts = body_of(find_function(tree, "TimeBase.to_scale"))
    first = ts[0] if ts else None
    if not (isinstance(first, ast.If) and not first.orelse and len(first.body) == 1 and isinstance(first.body[0], ast.Return)
            and ast.unparse(first.body[0].value) == "self" and isinstance(first.test, ast.Compare) and len(first.test.ops) == 1
            and isinstance(first.test.ops[0], ast.Eq)
            and {ast.unparse(first.test.left), ast.unparse(first.test.comparators[0])} == {"scale", "self.scale"}):
        fail(where, "to_scale does not start with `if scale == self.scale: return self`", first)
    last = ts[-1]
    if not (len(ts) == 2 and isinstance(last, ast.Return) and isinstance(last.value, ast.Call) and ast.unparse(last.value.func) == "self._to_scale"
            and last.value.args and ast.unparse(last.value.args[0]) == "scale"):
        fail(where, "to_scale does not end with `return self._to_scale(scale, …)`", last)
    b = body_of(find_function(tree, "TimeBase._to_scale"))
    # leading guards (unknown scale → raise; the `None` time) do not concern epochs of registered scales
    i = 0
    while i < len(b) and isinstance(b[i], ast.If) and not b[i].orelse and (
            all(isinstance(x, (ast.Raise, ast.Assign)) for x in b[i].body) and any(isinstance(x, ast.Raise) for x in b[i].body)
            or "None" in ast.unparse(b[i].test)):
        i += 1
    rest = b[i:]
    if len(rest) != 6:
        fail(where, f"_to_scale: expected hop / direct / memo / init / for / return after the guards, found {len(rest)} statements")
    s_hop, s_direct, s_memo, s_init, s_for, s_ret = rest
    if not (isinstance(s_hop, ast.Assign) and ast.unparse(s_hop) == "hop = (self.scale, scale)"):
        fail(where, "_to_scale: `hop = (self.scale, scale)`", s_hop)

    def hop_call(st: ast.stmt, hop_var: str, arg: str) -> bool:
        return isinstance(st, ast.Assign) and ast.unparse(st) == f"jd1, jd2 = _CONVERSIONS[self.cls_name][{hop_var}]({arg})"

    def from_jds_try(st: ast.stmt, target: Optional[str], scale_expr: str) -> bool:
        """try: <target =|return> self._scales()[<scale>].from_jds(jd1, jd2, fmt)  except ValueError: the same with "jd" """
        if not (isinstance(st, ast.Try) and len(st.body) == 1 and len(st.handlers) == 1 and len(st.handlers[0].body) == 1
                and not st.orelse and not st.finalbody):
            return False
        for s, f in ((st.body[0], "fmt"), (st.handlers[0].body[0], "'jd'")):
            v = s.value if isinstance(s, (ast.Return, ast.Assign)) else None
            if v is None or ast.unparse(v) != f"self._scales()[{scale_expr}].from_jds(jd1, jd2, {f})":
                return False
            if target is None and not isinstance(s, ast.Return):
                return False
            if target is not None and not (isinstance(s, ast.Assign) and ast.unparse(s.targets[0]) == target):
                return False
        return True

    if not (isinstance(s_direct, ast.If) and not s_direct.orelse and ast.unparse(s_direct.test) == "hop in _CONVERSIONS[self.cls_name]"
            and len(s_direct.body) == 2 and hop_call(s_direct.body[0], "hop", "self") and from_jds_try(s_direct.body[1], None, "scale")):
        fail(where, "_to_scale: the registered direct hop", s_direct)
    if not (isinstance(s_memo, ast.If) and not s_memo.orelse
            and ast.unparse(s_memo.test) == "hop not in _CONVERSION_HOPS.setdefault(self.cls_name, {})" and len(s_memo.body) == 1
            and ast.unparse(s_memo.body[0]) == "_CONVERSION_HOPS[self.cls_name][hop] = _find_conversion_hops(self.cls_name, hop)"):
        fail(where, "_to_scale: memoised call of _find_conversion_hops(self.cls_name, hop)", s_memo)
    if not (isinstance(s_init, ast.Assign) and ast.unparse(s_init) == "converted_time = self"):
        fail(where, "_to_scale: `converted_time = self`", s_init)
    if not (isinstance(s_for, ast.For) and not s_for.orelse and ast.unparse(s_for.target) == "one_hop"
            and ast.unparse(s_for.iter) == "_CONVERSION_HOPS[self.cls_name][hop]" and len(s_for.body) == 2
            and hop_call(s_for.body[0], "one_hop", "converted_time") and from_jds_try(s_for.body[1], "converted_time", "one_hop[-1]")):
        fail(where, "_to_scale: the fold over the hops", s_for)
    if not (isinstance(s_ret, ast.Return) and ast.unparse(s_ret.value) == "converted_time"):
        fail(where, "_to_scale: `return converted_time`", s_ret)
    return [
        f"/-- `{TIME}` `TimeBase.to_scale` + `_to_scale` on the two-part date: own scale → `self`; a registered direct hop; otherwise",
        "the hops found by `_find_conversion_hops`, each registered function applied to the result of the previous one",
        "(`from_jds(jd1, jd2, fmt)` stores the two parts it is given).  `hopFn` = `_CONVERSIONS[cls].get`. -/",
        "def toScaleSrc (conv : List Hop) (hopFn : Hop → Option (JD → JD)) (self_scale scale : Scale) (fuel : Nat) (self : JD) : Option JD :=",
        "  if (decide (scale = self_scale)) then some self else",
        "  let hop := (self_scale, scale)",
        "  if (conv.contains hop) then (hopFn hop).map (fun f => f self) else",
        "  (findHopsSrc conv hop.1 hop.2 fuel).bind (fun route =>",
        "    route.foldlM (fun converted_time one_hop => (hopFn one_hop).map (fun f => f converted_time)) self)", "",
        f"/-- the same, the hops only -/",
        "def toScaleRouteSrc (conv : List Hop) (self_scale scale : Scale) (fuel : Nat) : Option (List Hop) :=",
        "  if (decide (scale = self_scale)) then some [] else",
        "  let hop := (self_scale, scale)",
        "  if (conv.contains hop) then some [hop] else",
        "  findHopsSrc conv hop.1 hop.2 fuel",
    ]


# ----------------------------------------------------------------------------------------------------------------------
# _taiutc_idx and its two call sites


def translate_row_selection(tree: ast.Module) -> List[str]:
    where = f"{TIME}:_taiutc_idx"
    fn = find_function(tree, "_taiutc_idx")
    params = [a.arg for a in fn.args.args]
    defaults = {p: d for p, d in zip(params[len(params) - len(fn.args.defaults):], fn.args.defaults)}
    if len(params) != 3:
        fail(where, "expected the parameters (jd1, jd2, start_delta)")
    p1, p2, p3 = params
    b = body_of(fn)
    ret = next((s for s in b if isinstance(s, ast.Return)), None)
    if ret is None or b[-1] is not ret:
        fail(where, "no final return")
    binds = {}
    for s in b[:-1]:
        if isinstance(s, ast.Assign) and len(s.targets) == 1 and isinstance(s.targets[0], ast.Name):
            binds[s.targets[0].id] = s.value
        else:
            fail(where, "statement", s)
    found = {"cmp": None}

    def iex(e: ast.AST) -> str:
        if isinstance(e, ast.Constant) and isinstance(e.value, int) and not isinstance(e.value, bool):
            return str(e.value) if e.value >= 0 else f"({e.value})"
        if isinstance(e, ast.BinOp) and isinstance(e.op, (ast.Add, ast.Sub)):
            return f"({iex(e.left)} {'+' if isinstance(e.op, ast.Add) else '-'} {iex(e.right)})"
        if isinstance(e, ast.Call) and dotted(e.func) in ("np.maximum", "np.minimum") and len(e.args) == 2 and not e.keywords:
            return f"({'max' if dotted(e.func) == 'np.maximum' else 'min'} {iex(e.args[0])} {iex(e.args[1])})"
        if isinstance(e, ast.Call) and dotted(e.func) == "np.sum" and len(e.args) == 1:
            kw = {k.arg: k.value for k in e.keywords}
            if set(kw) != {"axis"} or ast.unparse(kw["axis"]) != "-1":
                fail(where, "np.sum without axis=-1 (the row axis is the last one)", e)
            c = e.args[0]
            if isinstance(c, ast.Name) and c.id in binds:
                c = binds[c.id]
            if not isinstance(c, ast.Compare) or found["cmp"] is not None:
                fail(where, "np.sum of something that is not one comparison", e)
            found["cmp"] = c
            return "(countTrue flags)"
        fail(where, "index expression", e)

    idx = iex(ret.value)
    if found["cmp"] is None:
        fail(where, "no count of started rows in the return value", ret.value)
    # broadcasting: every occurrence of the epoch parameters carries a new last axis; the table column has none
    cmp_names = [found["cmp"]] + [v for v in binds.values()]
    for e in cmp_names:
        parents = {}
        for n in ast.walk(e):
            for ch in ast.iter_child_nodes(n):
                parents[ch] = n
        for n in ast.walk(e):
            if isinstance(n, ast.Name) and n.id in (p1, p2):
                call = parents.get(n)
                sub = parents.get(call)
                if not (isinstance(call, ast.Call) and dotted(call.func) == "np.asarray" and isinstance(sub, ast.Subscript)
                        and ast.unparse(sub.slice) == "(..., None)"):
                    fail(where, f"`{n.id}` used without the new last axis `[..., None]`", e)
            if isinstance(n, ast.Subscript) and ast.unparse(n.value) == "_TAIUTC" and isinstance(parents.get(n), ast.Subscript):
                fail(where, "table column subscripted inside the row test", e)
    out = [f"/-- `{TIME}` `_taiutc_idx`: the returned index, from the flags \"row has started\" of one epoch against every table",
           "row in table order (the epochs get a new last axis, the table columns run along it, `np.sum(…, axis=-1)` counts) -/",
           "def taiutcIdxSrc (flags : List Bool) : Int :=", f"  {idx}", ""]
    # --- the two call sites in delta_tai_utc
    dfn = find_function(tree, "delta_tai_utc")
    for scale, lean in (("utc", "rowIndexOfUtcSrc"), ("tai", "rowIndexOfTaiSrc")):
        w2 = f"{TIME}:delta_tai_utc[{scale}]"
        stmts = flatten(body_of(dfn), {"time.scale": scale})
        calls = [s for s in stmts if isinstance(s, ast.Assign) and isinstance(s.value, ast.Call) and dotted(s.value.func) == "_taiutc_idx"]
        anyidx = [n for s in stmts for n in ast.walk(s) if isinstance(n, ast.Call) and dotted(n.func) and "taiutc_idx" in dotted(n.func)]
        if len(calls) != 1 or len(anyidx) != 1 or not (len(calls[0].targets) == 1 and ast.unparse(calls[0].targets[0]) == "idx"):
            fail(w2, "expected exactly one `idx = _taiutc_idx(…)`")
        call = calls[0].value
        actual = dict(defaults)
        for p, a in zip(params, call.args):
            actual[p] = a
        for k in call.keywords:
            actual[k.arg] = k.value
        if set(actual) != set(params):
            fail(w2, "arguments of _taiutc_idx", call)
        bound_before = {t.id for s in stmts[:stmts.index(calls[0])] if isinstance(s, ast.Assign) for t in s.targets if isinstance(t, ast.Name)}

        def aex(e: ast.AST) -> str:
            u = ast.unparse(e)
            if u == "time.jd1":
                return "jd1"
            if u == "time.jd2":
                return "jd2"
            if u == "start_delta" and "start_delta" in bound_before:
                return "(SrcTime.rowStartDeltaSrc r.1 r.2.1 r.2.2.1 r.2.2.2 s2d)"    # translated by extract_exprs from the same branch
            if isinstance(e, ast.Constant) and isinstance(e.value, (int, float)) and not isinstance(e.value, bool):
                return f"({float(e.value)!r} : Rat)"
            if isinstance(e, ast.BinOp) and isinstance(e.op, (ast.Add, ast.Sub)):
                return f"({aex(e.left)} {'+' if isinstance(e.op, ast.Add) else '-'} {aex(e.right)})"
            fail(w2, "argument of _taiutc_idx", e)

        out += [f"/-- `{TIME}` `delta_tai_utc`, branch time.scale == {scale!r}: `idx`, with the arguments this branch passes to `_taiutc_idx`",
                "(`rows` = the table columns start, offset, ref_epoch, factor) -/",
                f"def {lean} (rows : List (Rat × Rat × Rat × Rat)) (tol s2d jd1 jd2 : Rat) : Int :=",
                f"  taiutcIdxSrc (rows.map (fun r => SrcTime.rowStartedSrc {aex(actual[p1])} {aex(actual[p2])} r.1 {aex(actual[p3])} tol))", ""]
    return out[:-1]


# ----------------------------------------------------------------------------------------------------------------------
# every place a scale is registered, from the `ast` of the whole package (C01 goal: nothing registered is outside a theorem)


def registry_sites() -> List[Tuple[str, str, str, List[Tuple[str, str, str]]]]:
    """(file, class, base classes, [(from, to, function)]) for every `@register_scale(...)` in midgard/**/*.py"""
    sites = []
    for path in sorted((REPO / "midgard").rglob("*.py")):
        try:
            with warnings.catch_warnings():
                warnings.simplefilter("ignore")
                tree = ast.parse(path.read_text())
        except (SyntaxError, UnicodeDecodeError):
            continue
        for node in ast.walk(tree):
            if not isinstance(node, ast.ClassDef):
                continue
            for d in node.decorator_list:
                if isinstance(d, ast.Call) and dotted(d.func) in ("register_scale", "_time.register_scale"):
                    scale = None
                    for s in node.body:
                        if isinstance(s, ast.Assign) and len(s.targets) == 1 and ast.unparse(s.targets[0]) == "scale" and isinstance(s.value, ast.Constant):
                            scale = s.value.value
                    hops = []
                    for k in d.keywords:
                        if k.arg in ("convert_to", "convert_from") and isinstance(k.value, ast.Call) and dotted(k.value.func) == "dict":
                            for kk in k.value.keywords:
                                hops.append((scale, kk.arg, ast.unparse(kk.value)) if k.arg == "convert_to" else (kk.arg, scale, ast.unparse(kk.value)))
                        elif k.arg in ("convert_to", "convert_from") and isinstance(k.value, ast.Dict):
                            for kk, vv in zip(k.value.keys, k.value.values):
                                key = kk.value if isinstance(kk, ast.Constant) else ast.unparse(kk)
                                hops.append((scale, key, ast.unparse(vv)) if k.arg == "convert_to" else (key, scale, ast.unparse(vv)))
                        else:
                            hops.append(("?", "?", ast.unparse(k.value)))
                    sites.append((str(path.relative_to(REPO)), node.name, ",".join(ast.unparse(x) for x in node.bases), str(scale), hops))
    return sites


HEADER = '''/- GENERATED by translator/extract_timeflow.py from the Python `ast` of the tree under test — do not edit.
The control flow of midgard/data/_time.py around the arithmetic of Generated/SourceExprsTime.lean: row selection, route
search, the route `to_scale` takes and its fold of the hop functions (see the translator for the fragment). -/
import Midgard.Model.TimeSearch
import Midgard.Generated.SourceExprsTime

namespace Midgard.Generated.SrcFlow
open Midgard.TimeScale Midgard.TimeScale.Flow Midgard.TimeArith
set_option linter.unusedVariables false
'''


def generate() -> Tuple[bool, dict]:
    from .util import lean_str

    failed, done = [], []
    parts: List[str] = []
    try:
        tree = ast.parse((REPO / TIME).read_text())
    except (OSError, SyntaxError) as ex:
        tree = None
        failed.append(f"{TIME}: {ex}")
    if tree is not None:
        for name, f in (("row selection", translate_row_selection), ("route search", translate_find_hops), ("to_scale", translate_to_scale)):
            try:
                parts.append("\n".join(f(tree)))
                done.append(name)
            except Untranslatable as ex:
                failed.append(f"{name}: {ex}")
                parts.append(f"-- NOT TRANSLATED ({name}): {str(ex)[:300]}")
            except Exception as ex:       # an `ast` shape the matcher did not foresee is a translation error, not a crash
                failed.append(f"{name}: {type(ex).__name__}: {ex}")
                parts.append(f"-- NOT TRANSLATED ({name}): {type(ex).__name__}: {str(ex)[:300]}")
    sites = registry_sites()
    reg = ["/-- every `@register_scale(…)` in midgard/**/*.py: (file, class, bases, scale, [(from, to, function)]) -/",
           "def registerSites : List (String × String × String × String × List (String × String × String)) := ["]
    reg.append(",\n".join("  (" + ", ".join(lean_str(x) for x in (f, c, bs, sc)) + ", ["
                          + ", ".join("(" + ", ".join(lean_str(str(y)) for y in h) + ")" for h in hops) + "])" for f, c, bs, sc, hops in sites))
    reg.append("]")
    text = HEADER + "\n" + "\n\n".join(parts + ["\n".join(reg)]) + "\n\nend Midgard.Generated.SrcFlow\n"
    return write_if_changed("SourceTimeFlow.lean", text), {"translated": done, "not_translated": failed, "register_sites": len(sites)}


if __name__ == "__main__":
    print(generate())
