import Midgard.Core.Proto

/-! One line in, one line out.  Unknown or malformed commands answer `bad-op`
(never a default value).  The line `flush` answers `flushed` and flushes stdout. -/
namespace Driver

partial def loop (handle : List String → Option String) (hin hout : IO.FS.Stream) : IO Unit := do
  let line ← hin.getLine
  if line.isEmpty then return ()
  let l := (line.dropEndWhile (fun c => c == '\n' || c == '\r')).toString
  if l == "flush" then
    hout.putStrLn "flushed"
    hout.flush
  else
    hout.putStrLn ((handle (Midgard.Proto.tokens l)).getD "bad-op")
  loop handle hin hout

def run (handle : List String → Option String) : IO Unit := do
  let hin ← IO.getStdin
  let hout ← IO.getStdout
  loop handle hin hout
  hout.flush

end Driver
