import Driver.Loop
import Midgard.Model.Numeric

/-! Driver for C20: line protocol over `Midgard.Numeric` (see harness/c20.py). -/
namespace Driver.C20
open Midgard.Proto Midgard.Numeric Midgard.Generated.C20

/-- `a,b;c,d` → rows -/
def parseRows? (s : String) : Option (List (List Rat)) :=
  if s = "[]" then some [] else (s.splitOn ";").mapM parseRats?

def showRows (r : List (List Rat)) : String :=
  if r.isEmpty then "[]" else ";".intercalate (r.map showRats)

def showErr : Err → String
  | .shape => "shape" | .window => "window" | .short => "short" | .unsorted => "unsorted"
  | .below => "below" | .above => "above" | .solver => "solver"

def showSF (x : SF) : String := s!"{showBool x.neg} {showRat x.mag}"

def parseSat? : List Rat → Option Sat
  | [a, b, c, d] => some ⟨a, b, c, d⟩
  | _ => none

def showExc : Except Err (List (List Rat)) → String
  | .ok r => "ok " ++ showRows r
  | .error e => "err " ++ showErr e

def handle : List String → Option String
  | ["c20", "nunits"] => some (toString units.length ++ " " ++ toString poles.length)
  | ["c20", "unit", a, b, p] => do
    let p ← parseRat? p
    match conv a b p with
    | none => pure "unknown"
    | some none => pure "dim"
    | some (some q) => pure ("ok " ++ showRat q)
  | ["c20", "rad2dms", p, n, m] => do
    let p ← parseRat? p; let n ← parseBool? n; let m ← parseRat? m
    let (d, mi, s) := radToDms p ⟨n, m⟩
    pure s!"{showSF d} {showRat mi} {showRat s}"
  | ["c20", "deg2dms", p, n, m] => do
    let p ← parseRat? p; let n ← parseBool? n; let m ← parseRat? m
    let (d, mi, s) := degToDms p ⟨n, m⟩
    pure s!"{showSF d} {showRat mi} {showRat s}"
  | ["c20", "dms2rad", p, n, m, mi, s] => do
    let p ← parseRat? p; let n ← parseBool? n; let m ← parseRat? m
    let mi ← parseRat? mi; let s ← parseRat? s
    pure (showSF (dmsToRad p ⟨n, m⟩ mi s))
  | ["c20", "dms2deg", p, n, m, mi, s] => do
    let p ← parseRat? p; let n ← parseBool? n; let m ← parseRat? m
    let mi ← parseRat? mi; let s ← parseRat? s
    pure (showSF (dmsToDeg p ⟨n, m⟩ mi s))
  | ["c20", "hms2rad", p, n, m, mi, s] => do
    let p ← parseRat? p; let n ← parseBool? n; let m ← parseRat? m
    let mi ← parseRat? mi; let s ← parseRat? s
    match hmsToRad p ⟨n, m⟩ mi s with
    | none => pure "neg-hours"
    | some r => pure (showSF r)
  | ["c20", "lagrange", w, be, srt, s, dim, xs, rows, xnew] => do
    let w ← w.toNat?; let be ← parseBool? be; let srt ← parseBool? srt
    let s ← parseRat? s; let dim ← dim.toNat?
    let xs ← parseRats? xs; let rows ← parseRows? rows; let xnew ← parseRats? xnew
    pure (showExc (lagrange xs rows dim w be srt s xnew))
  | ["c20", "lagderiv", w, be, srt, s, dim, xs, rows, xnew, dx] => do
    let w ← w.toNat?; let be ← parseBool? be; let srt ← parseBool? srt
    let s ← parseRat? s; let dim ← dim.toNat?; let dx ← parseRat? dx
    let xs ← parseRats? xs; let rows ← parseRows? rows; let xnew ← parseRats? xnew
    match lagrangeDeriv xs rows dim w be srt s xnew dx with
    | .error e => pure ("err " ++ showErr e)
    | .ok (v, d) => pure ("ok " ++ showRows v ++ " " ++ showRows d)
  | ["c20", "barycentric", dim, xs, rows, xnew] => do
    let dim ← dim.toNat?
    let xs ← parseRats? xs; let rows ← parseRows? rows; let xnew ← parseRats? xnew
    pure (showExc (barycentric xs rows dim xnew))
  | ["c20", "nakspline", dim, xs, rows, xnew] => do
    let dim ← dim.toNat?
    let xs ← parseRats? xs; let rows ← parseRows? rows; let xnew ← parseRats? xnew
    pure (showExc (nakSpline xs rows dim xnew))
  | ["c20", "regulargrid", xs, ys, grid, px, py] => do
    let xs ← parseRats? xs; let ys ← parseRats? ys; let grid ← parseRows? grid
    let px ← parseRats? px; let py ← parseRats? py
    match regularGrid xs ys grid (px.zip py) with
    | .error e => pure ("err " ++ showErr e)
    | .ok r => pure ("ok " ++ showRats r)
  | ["c20", "bicubic", xs, ys, grid, px, py] => do
    let xs ← parseRats? xs; let ys ← parseRats? ys; let grid ← parseRows? grid
    let px ← parseRats? px; let py ← parseRats? py
    match (px.zip py).mapM (fun p => bicubicAt xs ys grid p.1 p.2) with
    | none => pure "err solver"
    | some r => pure ("ok " ++ showRats r)
  | ["c20", "sun", mjd, frac] => do
    let mjd ← parseRat? mjd; let frac ← parseRat? frac
    let jd := mjd - sunEpoch
    pure s!"{showRat (sunMeanLongitude sunVl0 sunVlRate jd)} {showRat (gmstAngle sunGst0 sunGstRate jd frac)}"
  | ["c20", "deriv", kind, dim, xs, rows, xnew, dx] => do
    let dim ← dim.toNat?; let dx ← parseRat? dx
    let xs ← parseRats? xs; let rows ← parseRows? rows; let xnew ← parseRats? xnew
    let f ← (match kind with
      | "spline" => some (nakSpline xs rows dim)
      | "barycentric" => some (barycentric xs rows dim)
      | "linear" => some (linear xs rows dim)
      | _ => none)
    match interpDeriv f xnew dx with
    | .error e => pure ("err " ++ showErr e)
    | .ok (v, d) => pure ("ok " ++ showRows v ++ " " ++ showRows d)
  | ["c20", "normsq", rows] => do
    let rows ← parseRows? rows
    pure (showRats (rows.map normSq))
  | ["c20", "unitvec", ns, rows] => do
    let ns ← parseRats? ns; let rows ← parseRows? rows
    pure (showRows (List.zipWith unitVector rows ns))
  | ["c20", "take", i, rows] => do
    let i ← i.toNat?; let rows ← parseRows? rows
    pure (showRats (takeLast rows i))
  | ["c20", "linear", dim, xs, rows, xnew] => do
    let dim ← dim.toNat?
    let xs ← parseRats? xs; let rows ← parseRows? rows; let xnew ← parseRats? xnew
    pure (showExc (linear xs rows dim xnew))
  | ["c20", "dopguard"] =>
    some (s!"{String.ofList (dopGuardSource.toList.map (fun c => if c = ' ' then '_' else c))} " ++
      (match dopCondLimit with | none => "none" | some l => showRat l))
  | ["c20", "dops", cond, sats] => do
    let cond ← parseRat? cond
    let rows ← parseRows? sats
    let sats ← rows.mapM parseSat?
    match computeDopsGuarded dopCondLimit cond sats with
    | none => pure "singular"
    | some d => pure s!"ok {showRat d.gdop2} {showRat d.pdop2} {showRat d.tdop2} {showRat d.hdop2} {showRat d.vdop2}"
  | ["c20", "plate", model, plate, p, x, y, z] => do
    let p ← parseRat? p; let x ← parseRat? x; let y ← parseRat? y; let z ← parseRat? z
    match plateVelocity model plate p ⟨x, y, z⟩ with
    | none => pure "unknown"
    | some v => pure s!"ok {showRat v.x} {showRat v.y} {showRat v.z}"
  | ["c20", "tocart", cl, sl, co, so, w] => do
    let cl ← parseRat? cl; let sl ← parseRat? sl; let co ← parseRat? co; let so ← parseRat? so; let w ← parseRat? w
    let v := toCartesianQ cl sl co so w
    pure s!"{showRat v.x} {showRat v.y} {showRat v.z} {showRat (omegaSq v)}"
  | ["c20", "linreg", rej, f, it, xs, ys] => do
    let rej ← parseBool? rej; let f ← parseRat? f; let it ← it.toNat?
    let xs ← parseRats? xs; let ys ← parseRats? ys
    match linreg xs ys rej f it with
    | none => pure "degenerate"
    | some (fit, kx, ky) =>
      let st := fitStats fit kx ky
      pure s!"ok {showRat fit.icpt} {showRat fit.slope} {showRats kx} {showRat st.rms2} {showRat st.rSquare} {showRat st.slopeVar} {showRat st.icptVar}"
  | _ => none

end Driver.C20

def main : IO Unit := Driver.run Driver.C20.handle
