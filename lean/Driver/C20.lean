import Driver.Loop

/-! Driver for C20: placeholder until the model is written. -/
namespace Driver.C20

def handle : List String → Option String
  | _ => none

end Driver.C20

def main : IO Unit := Driver.run Driver.C20.handle
