import Driver.Loop
import Midgard.Model.RinexNav
import Midgard.Generated.RinexNavCols

/-! Driver for C12 (RINEX navigation).

    c12 rinex3_nav   <x> <hexfile>       whole file through the RINEX 3 model
    c12 rinex2_nav   <ext-char> <hexfile>   (system from the last character of the file extension)
    c12 rinex212_nav <ext-char> <hexfile>
    c12 float <hex>                      `_float`

Answers: JSON list of `[hex name, kind, values]`, kind `f` (exact rationals / null), `s` (hex text),
`t` (exact GPS seconds).  `RAISES` = the model says the real code raises. -/
namespace Driver.C12
open Midgard.Proto Midgard.Text Midgard.RinexNav

def showCellJ : Cell → String
  | .num q => "\"" ++ showRat q ++ "\""
  | .none => "null"
  | .str s => "\"" ++ encodeHex (asString s) ++ "\""
  | .time q => "\"" ++ showRat q ++ "\""

def kindOf (k : String) (vs : List Cell) : String :=
  if k = "time" ∨ k = "toe" ∨ k = "transmission_time" then "t"
  else if vs.any (fun c => match c with | .str _ => true | _ => false) then "s" else "f"

def showCols (d : Cols) : String :=
  "[" ++ ",".intercalate (d.map fun (k, vs) =>
    "[\"" ++ encodeHex k ++ "\",\"" ++ kindOf k vs ++ "\",[" ++ ",".intercalate (vs.map showCellJ) ++ "]]") ++ "]"

def systemOfExt : String → Option String
  | "n" => some "G" | "g" => some "R" | "l" => some "E" | _ => Option.none

def handle : List String → Option String
  | ["c12", "rinex3_nav", _, h] => do
    let t ← (decodeHex? h).map ofString
    pure ((parseV3 Midgard.Generated.RinexNav.v3 t).elim "RAISES" showCols)
  | ["c12", "rinex2_nav", x, h] => do
    let t ← (decodeHex? h).map ofString
    let s ← systemOfExt x
    pure ((parseV2 Midgard.Generated.RinexNav.v2 s t).elim "RAISES" showCols)
  | ["c12", "rinex212_nav", x, h] => do
    let t ← (decodeHex? h).map ofString
    let s ← systemOfExt x
    pure ((parseV2 Midgard.Generated.RinexNav.v212 s t).elim "RAISES" showCols)
  | ["c12", "float", h] => do
    let t ← (decodeHex? h).map ofString
    pure ((floatField t).elim "RAISES" showRat)
  | _ => Option.none

end Driver.C12

def main : IO Unit := Driver.run Driver.C12.handle
