import Driver.Loop
import Midgard.Model.RinexNav
import Midgard.Model.RinexNavDispatch
import Midgard.Generated.RinexNavCols
import Midgard.Spec.RinexNavFile
import Midgard.Spec.RinexNavPost

/-! Driver for C12 (RINEX navigation).

    c12 rinex3_nav   <x> <hexfile>       whole file through the RINEX 3 model
    c12 rinex2_nav   <ext-char> <hexfile>   (system from the last character of the file extension)
    c12 rinex212_nav <ext-char> <hexfile>
    c12 float <hex>                      `_float`
    c12 rinex_nav <hexname> <hexfile>    the dispatcher `parsers.parse_file("rinex_nav", path)` (`parseNav`): a function of
                                         the file name and the current content → {"parser":…,"cols":…} | RAISES
    c12 sysname <2|212> <hexname>        `_get_system_from_file_extension` of the RINEX 2.x parsers → system | RAISES

    c12 model3 <tokens of an abstract file>   → {"wf":…,"thm":…,"text":<hex of render3 F>,"cols":…}: the abstract
                                         file of `Spec/RinexNavFile.lean` rendered by the spec writer, read by
                                         `accumV3` and compared with `expectedState` (`thm` = the instance of
                                         `file_records_v3`), then post-processed by `postV3` (`cols`); `rows` = the same
                                         columns computed record by record with `postSem` (Spec/RinexNavPost.lean), `post` =
                                         the compiled instance of `post_record` (cols and rows agree name by name)
    c12 model2 <parser> <tokens>           the same through `render2` / `accumV2` / `postV2` (RINEX 2 GPS files,
                                         `file_records_v2`; satsys and systext are not printed)
      wire: version ftype satsys systext (hex)  n n×(content label)  n n×item
            item = N sys prn zero y mo d h mi s c1 c2 c3 6×(a b c d cut) a b n n×spare cut
                 | S sys prn y mo d h mi s c1 c2 c3 n n×(n n×cell cut)
            cell = _ (blank) | x:lead:neg:m:e

Answers: JSON list of `[hex name, kind, values]`, kind `f` (exact rationals / null), `s` (hex text),
`t` (exact GPS seconds).  `RAISES` = the model says the real code raises. -/
namespace Driver.C12
open Midgard.Proto Midgard.Text Midgard.RinexNav

def showCellJ : Cell → String
  | .num q => "\"" ++ showRat q ++ "\""
  | .none => "null"
  | .str s => "\"" ++ encodeHex (asString s) ++ "\""
  | .time q => "\"" ++ showRat q ++ "\""

def kindOf (k : String) (vs : List Cell) : String :=
  if k = "time" ∨ k = "toe" ∨ k = "transmission_time" then "t"
  else if vs.any (fun c => match c with | .str _ => true | _ => false) then "s" else "f"

def showCols (d : Cols) : String :=
  "[" ++ ",".intercalate (d.map fun (k, vs) =>
    "[\"" ++ encodeHex k ++ "\",\"" ++ kindOf k vs ++ "\",[" ++ ",".intercalate (vs.map showCellJ) ++ "]]") ++ "]"

def systemOfExt : String → Option String
  | "n" => some "G" | "g" => some "R" | "l" => some "E" | _ => Option.none


namespace Wire
open Midgard.Spec.RinexNavFile

abbrev P := StateT (List String) Option

def tok : P String := fun ts => match ts with | t :: r => some (t, r) | [] => Option.none
def hex : P Str := do let t ← tok; (decodeHex? t).map ofString
def chr : P Char := do match (← hex) with | [c] => pure c | _ => failure
def nat : P Nat := do let t ← tok; t.toNat?
def bool : P Bool := do let t ← tok; parseBool? t
def many {α} (p : P α) : Nat → P (List α)
  | 0 => pure []
  | n + 1 => do let a ← p; let r ← many p n; pure (a :: r)
def counted {α} (p : P α) : P (List α) := do let n ← nat; many p n

def num19 : P Num19 := do
  let t ← tok
  if t = "_" then pure .blank else
  match t.splitOn ":" with
  | [x, lead, neg, m, e] => do
    let xc ← match x.toList with | [c] => pure c | _ => failure
    let l ← parseBool? lead; let n ← parseBool? neg
    let mm ← m.toNat?; let ee ← e.toInt?
    pure (.sci xc l n mm ee)
  | _ => failure

def row4 : P Row4 := do
  let a ← num19; let b ← num19; let c ← num19; let d ← num19; let cut ← bool
  pure ⟨a, b, c, d, cut⟩

def item : P Item := do
  match (← tok) with
  | "N" => do
    let sys ← chr; let prn ← nat; let z ← bool
    let y ← nat; let mo ← nat; let d ← nat; let h ← nat; let mi ← nat; let s ← nat
    let c1 ← num19; let c2 ← num19; let c3 ← num19
    let o1 ← row4; let o2 ← row4; let o3 ← row4; let o4 ← row4; let o5 ← row4; let o6 ← row4
    let a ← num19; let b ← num19; let spare ← counted num19; let cut ← bool
    pure (.nav ⟨sys, prn, z, y, mo, d, h, mi, s, c1, c2, c3, o1, o2, o3, o4, o5, o6, ⟨a, b, spare, cut⟩⟩)
  | "S" => do
    let sys ← chr; let prn ← nat
    let y ← nat; let mo ← nat; let d ← nat; let h ← nat; let mi ← nat; let s ← nat
    let c1 ← num19; let c2 ← num19; let c3 ← num19
    let rows ← counted (do let cells ← counted num19; let cut ← bool; pure (cells, cut))
    pure (.skip ⟨sys, prn, y, mo, d, h, mi, s, c1, c2, c3, rows⟩)
  | _ => failure

def file : P NavFile := do
  let v ← hex; let t ← hex; let sys ← chr; let st ← hex
  let hl ← counted (do let c ← hex; let l ← hex; pure (⟨c, l⟩ : HLine))
  let items ← counted item
  pure ⟨v, t, sys, st, hl, items⟩

end Wire

def handle : List String → Option String
  | ["c12", "rinex3_nav", _, h] => do
    let t ← (decodeHex? h).map ofString
    pure ((parseV3Text Midgard.Generated.RinexNav.v3 t).elim "RAISES" showCols)
  | ["c12", "rinex2_nav", x, h] => do
    let t ← (decodeHex? h).map ofString
    let s ← systemOfExt x
    pure ((parseV2Text Midgard.Generated.RinexNav.v2 s t).elim "RAISES" showCols)
  | ["c12", "rinex212_nav", x, h] => do
    let t ← (decodeHex? h).map ofString
    let s ← systemOfExt x
    pure ((parseV2Text Midgard.Generated.RinexNav.v212 s t).elim "RAISES" showCols)
  | "c12" :: "model3" :: toks => do
    let (f, rest) ← Wire.file toks
    if !rest.isEmpty then failure
    let text := Midgard.Spec.RinexNavFile.render3 f
    let acc := accumV3 Midgard.Generated.RinexNav.v3 text
    let thm := decide (acc = some ([f.satSys], Midgard.Spec.RinexNavFile.expectedState f.items))
    let cols := acc.bind fun (sys, st) => postV3 Midgard.Generated.RinexNav.v3 sys st
    -- `post_record`: the same columns computed record by record (`postSem`)
    let rows := Midgard.Props.C12.postRows3 (asString [f.satSys]) (Midgard.Spec.RinexNavFile.supported f.items)
    let post := Midgard.Props.C12.sameCols (Midgard.Props.C12.outKeys Midgard.Generated.RinexNav.v3) cols rows
    pure ("{\"wf\":" ++ (if f.wf then "true" else "false") ++ ",\"thm\":" ++ (if thm then "true" else "false") ++
      ",\"post\":" ++ (if post then "true" else "false") ++
      ",\"text\":\"" ++ encodeHex (asString text) ++ "\",\"cols\":" ++ (cols.elim "\"RAISES\"" showCols) ++
      ",\"rows\":" ++ (rows.elim "\"RAISES\"" showCols) ++ "}")
  | "c12" :: "model2" :: parser :: toks => do
    let T ← match parser with
      | "rinex2_nav" => some Midgard.Generated.RinexNav.v2
      | "rinex212_nav" => some Midgard.Generated.RinexNav.v212
      | _ => Option.none
    let (f, rest) ← Wire.file toks
    if !rest.isEmpty then failure
    let text := Midgard.Spec.RinexNavFile.render2 f
    let acc := accumV2 T "G" text
    let thm := decide (acc = some (Midgard.Spec.RinexNavFile.expectedState f.items))
    let cols := acc.bind fun st => postV2 T "G" st
    -- `post_record_v2`: the same columns computed record by record (`postSem2`)
    let rows := Midgard.Props.C12.postRows2 T "G" (Midgard.Spec.RinexNavFile.supported f.items)
    let post := Midgard.Props.C12.sameCols (Midgard.Props.C12.outKeys T) cols rows
    pure ("{\"wf\":" ++ (if f.wf2 then "true" else "false") ++ ",\"thm\":" ++ (if thm then "true" else "false") ++
      ",\"post\":" ++ (if post then "true" else "false") ++
      ",\"text\":\"" ++ encodeHex (asString text) ++ "\",\"cols\":" ++ (cols.elim "\"RAISES\"" showCols) ++
      ",\"rows\":" ++ (rows.elim "\"RAISES\"" showCols) ++ "}")
  | ["c12", "rinex_nav", n, h] => do
    let name ← (decodeHex? n).map ofString
    let t ← (decodeHex? h).map ofString
    pure ((parseNavText Midgard.Generated.RinexNav.v3 Midgard.Generated.RinexNav.v2 Midgard.Generated.RinexNav.v212
        Midgard.Generated.RinexNav.v2SysExt Midgard.Generated.RinexNav.v212SysExt name t).elim "RAISES"
      fun (p, d) => "{\"parser\":\"" ++ p.name ++ "\",\"cols\":" ++ showCols d ++ "}")
  | ["c12", "sysname", which, n] => do
    let name ← (decodeHex? n).map ofString
    let r ← match which with
      | "2" => some (systemOfName2 Midgard.Generated.RinexNav.v2SysExt name)
      | "212" => some (systemOfName212 Midgard.Generated.RinexNav.v212SysExt name)
      | _ => Option.none
    pure (r.elim "RAISES" fun s => "=" ++ s)
  | ["c12", "float", h] => do
    let t ← (decodeHex? h).map ofString
    pure ((floatField t).elim "RAISES" showRat)
  | _ => Option.none

end Driver.C12

def main : IO Unit := Driver.run Driver.C12.handle
