import Driver.Loop

/-! Driver for C12: placeholder until the model is written. -/
namespace Driver.C12

def handle : List String → Option String
  | _ => none

end Driver.C12

def main : IO Unit := Driver.run Driver.C12.handle
