import Driver.Loop

/-! Driver for C18: placeholder until the model is written. -/
namespace Driver.C18

def handle : List String → Option String
  | _ => none

end Driver.C18

def main : IO Unit := Driver.run Driver.C18.handle
