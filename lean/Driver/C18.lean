import Driver.Loop
import Midgard.Model.SiteInfo

/-!
Driver for C18.  One query per line:

  c18 consts
  c18 norm <stations>
  c18 q <kind> <source> <module|all> <get|hist> <stations> <date>

  kind      snx | ssc
  source    E (empty dict) | station ('|' station)*
            snx station   keyhex:ANT:RCV:ECC:SID:EPO:EST
                          ANT/RCV/ECC  - (block absent) | [] | start~stop~tag(,…)
                          SID          - | tag
                          EPO          - | [] | soln~start~stop~tag(,…)
                          EST          - | [] | soln~pname~tag(,…)
            ssc station   keyhex:tag:PV        PV  [] | soln~start~stop~tag(,…)
            dates are integer microseconds after datetime.min, `-` is None
  stations  T<hex>  (comma separated text)  |  L<hex>,<hex>…  |  L[]  (container)  |  O<hex>,<hex>… | O[]  (one-shot iterable)
  date      - (no date) | last | integer
-/
namespace Driver.C18
open Midgard.Proto Midgard.SiteInfo

def strOfHex? (s : String) : Option Str := (decodeHex? s).map (fun t => t.toList.map Char.toNat)
def hexOfStr (s : Str) : String := encodeHex (String.ofList (s.map Char.ofNat))

def parseOptDate? (s : String) : Option (Option Date) := parseOpt? parseInt? s

def parseItems? {α} (f : List String → Option α) (s : String) : Option (Option (List α)) :=
  if s = "-" then some none
  else if s = "[]" then some (some [])
  else ((s.splitOn ",").mapM (fun it => f (it.splitOn "~"))).map some

def parseRaw? : List String → Option Raw
  | [a, b, t] => do
    let a ← parseOptDate? a; let b ← parseOptDate? b; let t ← t.toNat?
    pure ⟨a, b, t⟩
  | _ => none

def parseEpoch? : List String → Option Epoch
  | [s, a, b, t] => do
    let s ← s.toNat?; let r ← parseRaw? [a, b, t]
    pure ⟨s, r⟩
  | _ => none

def parseEst? : List String → Option Est
  | [s, p, t] => do
    let s ← s.toNat?; let p ← p.toNat?; let t ← t.toNat?
    pure ⟨s, p, t⟩
  | _ => none

def parseSnxStation? (s : String) : Option (Str × SnxStation) :=
  match s.splitOn ":" with
  | [k, ant, rcv, ecc, sid, epo, est] => do
    let k ← strOfHex? k
    let ant ← parseItems? parseRaw? ant
    let rcv ← parseItems? parseRaw? rcv
    let ecc ← parseItems? parseRaw? ecc
    let sid ← parseOpt? String.toNat? sid
    let epo ← parseItems? parseEpoch? epo
    let est ← parseItems? parseEst? est
    pure (k, ⟨ant, rcv, ecc, sid, epo, est⟩)
  | _ => none

def parseSscStation? (s : String) : Option (Str × SscStation) :=
  match s.splitOn ":" with
  | [k, tag, pv] => do
    let k ← strOfHex? k
    let tag ← tag.toNat?
    let pv ← parseItems? (fun l => (parseEpoch? l).map (fun e => (e.soln, e.raw))) pv
    let pv ← pv
    pure (k, ⟨tag, pv⟩)
  | _ => none

def parseSource? (kind src : String) : Option Source :=
  let sts := if src = "E" then [] else src.splitOn "|"
  match kind with
  | "snx" => (sts.mapM parseSnxStation?).map Source.snx
  | "ssc" => (sts.mapM parseSscStation?).map Source.ssc
  | _ => none

def parseStations? (s : String) : Option Stations :=
  if s.startsWith "T" then (strOfHex? (s.drop 1).toString).map Stations.text
  else if s = "L[]" then some (.list [])
  else if s.startsWith "L" then (((s.drop 1).toString.splitOn ",").mapM strOfHex?).map Stations.list
  else none

/-- the argument as given: `T` text, `L` a container that can be iterated again, `O` a one-shot iterable -/
def parseStationsArg? (s : String) : Option StationsArg :=
  if s.startsWith "T" then (strOfHex? (s.drop 1).toString).map StationsArg.text
  else if s = "L[]" then some (.iter (.reiterable []))
  else if s = "O[]" then some (.iter (.oneShot []))
  else if s.startsWith "L" then (((s.drop 1).toString.splitOn ",").mapM strOfHex?).map (fun l => .iter (.reiterable l))
  else if s.startsWith "O" then (((s.drop 1).toString.splitOn ",").mapM strOfHex?).map (fun l => .iter (.oneShot l))
  else none

def parseDate? (s : String) : Option (Option DateQ) :=
  if s = "-" then some none
  else if s = "last" then some (some .last)
  else (parseInt? s).map (fun d => some (.at d))

def parseModule? : String → Option Module
  | "antenna" => some .antenna | "eccentricity" => some .eccentricity
  | "identifier" => some .identifier | "receiver" => some .receiver
  | "site_coord" => some .siteCoord | _ => none

def showModule : Module → String
  | .antenna => "antenna" | .eccentricity => "eccentricity" | .identifier => "identifier"
  | .receiver => "receiver" | .siteCoord => "site_coord"

def showErr : Err → String
  | .missing => "E:missing" | .key => "E:key" | .index => "E:index"

def showEntry (e : Entry) : String :=
  let p := if e.params.isEmpty then "" else
    "{" ++ ",".intercalate (e.params.map (fun (a, b) => s!"{a}>{b}")) ++ "}"
  s!"T{e.tag}{p}"

def showVal : Val → String
  | .none => "N"
  | .entry e => showEntry e
  | .ident t => s!"I{t}"
  | .hist none => "HN"
  | .hist (some l) =>
    "H[" ++ ",".intercalate (l.map (fun h => s!"{h.key.1}~{h.key.2}~{showEntry h.entry}")) ++ "]"

def showDict {α} (f : α → String) (d : List (Str × α)) : String :=
  if d.isEmpty then "{}" else ";".intercalate (d.map (fun (k, v) => s!"{hexOfStr k}={f v}"))

def showMods (l : List (Module × Val)) : String :=
  "/".intercalate (l.map (fun (m, v) => s!"{showModule m}:{showVal v}"))

def handle : List String → Option String
  | ["c18", "consts"] => some s!"{dmin} {dmax}"
  | ["c18", "norm", st] => do
    let st ← parseStations? st
    pure (showList hexOfStr (normStations st))
  | ["c18", "q", kind, src, md, op, st, date] => do
    let src ← parseSource? kind src
    let st ← parseStationsArg? st
    let date ← parseDate? date
    match md, op with
    | "all", "get" =>
      match siteInfoGetArg src st date with
      | .error e => pure (showErr e)
      | .ok d => pure (showDict showMods d)
    | "all", "hist" =>
      match siteInfoGetHistoryArg src st with
      | .error e => pure (showErr e)
      | .ok d => pure (showDict showMods d)
    | _, _ =>
      let m ← parseModule? md
      let r ← match op with
        | "get" => some (moduleGetArg m src st date)
        | "hist" => some (moduleGetHistoryArg m src st)
        | _ => none
      match r with
      | .error e => pure (showErr e)
      | .ok d => pure (showDict showVal d)
  | _ => none

end Driver.C18

def main : IO Unit := Driver.run Driver.C18.handle
