import Driver.Loop
import Driver.DatasetProto

/-! Driver for C09: `c09 run <units> <time conversions> <op> | <op> | …` (see `Driver/DatasetProto.lean`). -/
namespace Driver.C09
open Midgard.Proto Midgard.Dataset Driver.DS

def handle : List String → Option String
  | "c09" :: "run" :: units :: conv :: rest => do
    let us ← parseUnits? units
    let cv ← parseConv? conv
    pure (" || ".intercalate (runOps { units := { us with conv := cv } } (splitOps rest)))
  | _ => none

end Driver.C09

def main : IO Unit := Driver.run Driver.C09.handle
