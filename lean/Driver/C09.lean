import Driver.Loop

/-! Driver for C09: placeholder until the model is written. -/
namespace Driver.C09

def handle : List String → Option String
  | _ => none

end Driver.C09

def main : IO Unit := Driver.run Driver.C09.handle
