import Driver.Loop

/-! Driver for C05: placeholder until the model is written. -/
namespace Driver.C05

def handle : List String → Option String
  | _ => none

end Driver.C05

def main : IO Unit := Driver.run Driver.C05.handle
