import Driver.GeoWire
import Midgard.Model.Geodetic
import Midgard.Generated.Ellipsoids
import Midgard.Generated.EllipsoidFlow

/-! Driver for C05: ellipsoid parameters (`Rat` and `Float`), `trs2llh` / `llh2trs` (`Float`), and the
ellipsoid attribute-flow machine over the regenerated constructor-call table. -/
namespace Driver.C05
open Midgard.Proto Midgard.Geo Driver.GeoWire

def ellQ? (name : String) : Option (Ellipsoid Rat) :=
  (Midgard.Generated.Ellipsoids.table.find? (·.1 == name)).map (·.2)

def ellF? (name : String) : Option (Ellipsoid Float) :=
  (ellQ? name).map (fun r => ⟨ratToFloat r.a, r.fInv.map ratToFloat⟩)

def ellIndex? (name : String) : Option Nat :=
  Midgard.Generated.Ellipsoids.table.findIdx? (·.1 == name)

def ellName (i : Option Nat) : String :=
  match i with
  | none => "?"
  | some k => ((Midgard.Generated.Ellipsoids.table[k]?).map (·.1)).getD "?"

def parseOp? : String → Option Op
  | "convert" => some .convert | "sliceRow" => some .sliceRow | "fancy" => some .fancy
  | "subset" => some .subset | "addDelta" => some .addDelta | "deepcopy" => some .deepcopy
  | "posOf" => some .posOf | "emptyFrom" => some .emptyFrom | "insert" => some .insert
  | _ => none

def parseCls? : String → Option PCls
  | "position" => some .position | "posvel" => some .posvel | _ => none

def showCls : PCls → String
  | .position => "position" | .posvel => "posvel"

def handle : List String → Option String
  | ["c05", "ell", name] => do
    let E ← ellQ? name
    pure s!"{showRat E.a} {showOpt showRat E.fInv}"
  | ["c05", "getitemkinds"] =>
    pure (showList id Midgard.Generated.EllipsoidFlow.getitemCtorKinds)
  | ["c05", "ellnames"] =>
    pure (showList id (Midgard.Generated.Ellipsoids.table.map (·.1)))
  | ["c05", "q", "params", name] => do
    let E ← ellQ? name
    pure s!"{showRat E.f} {showRat E.b} {showRat E.e2}"
  | ["c05", "f", "params", name] => do
    let E ← ellF? name
    pure s!"{Wire.render E.f} {Wire.render E.b} {Wire.render E.e2}"
  | "c05" :: "f" :: "trs2llh" :: name :: rest => do
    let E ← ellF? name
    match ← parseAll? (α := Float) rest with
    | [x, y, z] =>
      let g := trs2llh E ⟨x, y, z⟩
      pure s!"{Wire.render g.lat} {Wire.render g.lon} {Wire.render g.h}"
    | _ => none
  | "c05" :: "f" :: "llh2trs" :: name :: rest => do
    let E ← ellF? name
    match ← parseAll? (α := Float) rest with
    | [lat, lon, h] => pure (showV3 (llh2trs E ⟨lat, lon, h⟩))
    | _ => none
  | "c05" :: "f" :: "llh2trsCS" :: name :: rest => do
    let E ← ellF? name
    match ← parseAll? (α := Float) rest with
    | [cl, sl, co, so, h] => pure (showV3 (llh2trsCS E cl sl co so h))
    | _ => none
  | "c05" :: "f" :: "halley" :: name :: rest => do
    let E ← ellF? name
    match ← parseAll? (α := Float) rest with
    | [p, absz] =>
      let sc := halley E p absz
      pure s!"{Wire.render sc.1} {Wire.render sc.2}"
    | _ => none
  | ["c05", "flow", cls, name, ops] => do
    let c ← parseCls? cls
    let i ← ellIndex? name
    let ops ← parseList? parseOp? ops
    let tbl := Midgard.Generated.EllipsoidFlow.sites
    let r := Midgard.Geo.run tbl ⟨c, some i⟩ ops
    let used := convertedOn tbl ⟨c, some i⟩ ops
    pure s!"{showCls r.cls} {ellName r.ell} {showList ellName used}"
  | ["c05", "flowstep", cls, name, op] => do
    let c ← parseCls? cls
    let i ← ellIndex? name
    let o ← parseOp? op
    let r := step Midgard.Generated.EllipsoidFlow.sites ⟨c, some i⟩ o
    pure s!"{showCls r.cls} {ellName r.ell}"
  | _ => none

end Driver.C05

def main : IO Unit := Driver.run Driver.C05.handle
