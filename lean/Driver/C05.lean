import Driver.GeoWire
import Midgard.Model.Geodetic
import Midgard.Generated.Ellipsoids
import Midgard.Generated.EllipsoidFlow
import Midgard.Model.EllArith
import Midgard.Model.GeoSelect
import Midgard.Generated.TrsSelect
import Midgard.Generated.EllipsoidArith

/-! Driver for C05: ellipsoid parameters (`Rat` and `Float`), `trs2llh` / `llh2trs` (`Float`), and the
ellipsoid attribute-flow machine over the regenerated constructor-call table. -/
namespace Driver.C05
open Midgard.Proto Midgard.Geo Driver.GeoWire

def ellQ? (name : String) : Option (Ellipsoid Rat) :=
  (Midgard.Generated.Ellipsoids.table.find? (·.1 == name)).map (·.2)

def ellF? (name : String) : Option (Ellipsoid Float) :=
  (ellQ? name).map (fun r => ⟨ratToFloat r.a, r.fInv.map ratToFloat⟩)

def ellIndex? (name : String) : Option Nat :=
  Midgard.Generated.Ellipsoids.table.findIdx? (·.1 == name)

def ellName (i : Option Nat) : String :=
  match i with
  | none => "?"
  | some k => ((Midgard.Generated.Ellipsoids.table[k]?).map (·.1)).getD "?"

def parseOp? : String → Option Op
  | "convert" => some .convert | "sliceRow" => some .sliceRow | "fancy" => some .fancy
  | "subset" => some .subset | "addDelta" => some .addDelta | "deepcopy" => some .deepcopy
  | "posOf" => some .posOf | "emptyFrom" => some .emptyFrom | "insert" => some .insert
  | _ => none

def parseCls? : String → Option PCls
  | "position" => some .position | "posvel" => some .posvel | _ => none

def showCls : PCls → String
  | .position => "position" | .posvel => "posvel"

/-! arithmetic: operands on the wire are `pos:<class>:<ellipsoid>` and `delta:<class>:<class of ref_pos>:<ellipsoid of ref_pos>` -/

def parseACls? : String → Option ACls
  | "position" => some .position | "posvel" => some .posvel
  | "posDelta" => some .posDelta | "posvelDelta" => some .posvelDelta | _ => none

def showACls : ACls → String
  | .position => "position" | .posvel => "posvel" | .posDelta => "posDelta" | .posvelDelta => "posvelDelta"

def parseOperand? (s : String) : Option Operand :=
  match s.splitOn ":" with
  | ["pos", c, e] => do
    let c ← parseACls? c
    let i ← ellIndex? e
    pure (.pos ⟨c, some i⟩)
  | ["delta", c, rc, e] => do
    let c ← parseACls? c
    let rc ← parseACls? rc
    let i ← ellIndex? e
    pure (.delta c ⟨rc, some i⟩)
  | _ => none

def showOperand : Operand → String
  | .pos p => s!"pos:{showACls p.cls}:{ellName p.ell}"
  | .delta c r => s!"delta:{showACls c}:{showACls r.cls}:{ellName r.ell}"

def showVal : ValLR → String
  | .lr true => "L+R" | .lr false => "L-R" | .rl true => "R+L" | .rl false => "R-L" | .opaqueVal => "?"

def showOutcome : Outcome → String
  | .value o v => s!"value {showOperand o} {showVal v}"
  | .notImplemented => "NotImplemented" | .typeError => "TypeError" | .none => "None"
  | .error => "AttributeError" | .opaque => "opaque"

def parseBool? : String → Option Bool
  | "1" => some true | "0" => some false | _ => none

/-- `un:<op>` or `wd:<plus 0/1>:<delta on the left 0/1>:<ellipsoid of the difference's ref_pos>` -/
def parseHOp? (s : String) : Option HOp :=
  match s.splitOn ":" with
  | ["un", o] => (parseOp? o).map .un
  | ["wd", p, l, e] => do
    let p ← parseBool? p
    let l ← parseBool? l
    let i ← ellIndex? e
    pure (.withDelta p l (some i))
  | ["rt", e] => (ellIndex? e).map (fun i => .retag (some i))
  | ["pk"] => some .poke
  | _ => none

def handle : List String → Option String
  | ["c05", "arith", plus, same, l, r] => do
    let plus ← parseBool? plus
    let same ← parseBool? same
    let l ← parseOperand? l
    let r ← parseOperand? r
    let o := binop Midgard.Generated.EllipsoidArith.branches Midgard.Generated.EllipsoidArith.factories plus same l r
    pure s!"{showOutcome o} | spec {if wellTyped l r then showOutcome (specBinop plus l r) else "-"}"
  | ["c05", "hflow", cls, name, ops] => do
    let c ← parseCls? cls
    let i ← ellIndex? name
    let ops ← parseList? parseHOp? ops
    match hrun Midgard.Generated.EllipsoidFlow.sites Midgard.Generated.EllipsoidArith.branches
        Midgard.Generated.EllipsoidArith.factories ⟨c, some i⟩ ops with
    | some r =>
      let ans := hanswered Midgard.Generated.EllipsoidFlow.sites Midgard.Generated.EllipsoidArith.branches
        Midgard.Generated.EllipsoidArith.factories Midgard.Generated.EllipsoidArith.setattrClearsCache
        Midgard.Generated.EllipsoidArith.setitemClearsCache ⟨c, some i⟩ none ops
      pure s!"{showCls r.cls} {ellName r.ell} {showList (fun a => ellName a.on ++ (if a.current then "" else "!stale")) ans}"
    | none => pure "failed"
  | ["c05", "ell", name] => do
    let E ← ellQ? name
    pure s!"{showRat E.a} {showOpt showRat E.fInv}"
  | ["c05", "getitemkinds"] =>
    pure (showList id Midgard.Generated.EllipsoidFlow.getitemCtorKinds)
  | ["c05", "ellnames"] =>
    pure (showList id (Midgard.Generated.Ellipsoids.table.map (·.1)))
  | ["c05", "q", "params", name] => do
    let E ← ellQ? name
    pure s!"{showRat E.f} {showRat E.b} {showRat E.e2}"
  | ["c05", "f", "params", name] => do
    let E ← ellF? name
    pure s!"{Wire.render E.f} {Wire.render E.b} {Wire.render E.e2}"
  | "c05" :: "f" :: "trs2llh" :: name :: rest => do
    let E ← ellF? name
    match ← parseAll? (α := Float) rest with
    | [x, y, z] =>
      let g := trs2llh E ⟨x, y, z⟩
      pure s!"{Wire.render g.lat} {Wire.render g.lon} {Wire.render g.h}"
    | _ => none
  | "c05" :: "f" :: "trs2llhsel" :: dim :: name :: rest => do
    -- `_trs2llh` with the branch selection statements regenerated from the source (`2d`: arrays, `1d`: a single position)
    let E ← ellF? name
    let prog ← (match dim with
      | "2d" => some Midgard.Generated.TrsSelect.prog2d
      | "1d" => some Midgard.Generated.TrsSelect.prog1d
      | _ => none)
    match ← parseAll? (α := Float) rest with
    | [x, y, z] =>
      let g := trs2llhVia prog E ⟨x, y, z⟩
      pure s!"{Wire.render g.lat} {Wire.render g.lon} {Wire.render g.h}"
    | _ => none
  | ["c05", "resolve", fn, explicit, carried] => do
    -- which ellipsoid `transformation.<fn>(arr, ellipsoid=explicit)` evaluates on when `arr` carries `carried` (`-`: none)
    let order ← (match fn with
      | "trs2llh" => some Midgard.Generated.TrsSelect.resolveTrs2llh
      | "llh2trs" => some Midgard.Generated.TrsSelect.resolveLlh2trs
      | _ => none)
    let opt (s : String) : Option (Option Nat) := if s == "-" then some none else (ellIndex? s).map some
    let e ← opt explicit
    let c ← opt carried
    pure (match resolveEllipsoid order e c with | some i => ellName (some i) | none => "?")
  | "c05" :: "f" :: "toffset" :: name :: rest => do
    let E ← ellF? name
    match ← parseAll? (α := Float) rest with
    | [p, z] => pure (Wire.render (tangentialOffsetOf E p z))
    | _ => none
  | "c05" :: "f" :: "llh2trs" :: name :: rest => do
    let E ← ellF? name
    match ← parseAll? (α := Float) rest with
    | [lat, lon, h] => pure (showV3 (llh2trs E ⟨lat, lon, h⟩))
    | _ => none
  | "c05" :: "f" :: "llh2trsCS" :: name :: rest => do
    let E ← ellF? name
    match ← parseAll? (α := Float) rest with
    | [cl, sl, co, so, h] => pure (showV3 (llh2trsCS E cl sl co so h))
    | _ => none
  | "c05" :: "f" :: "halley" :: name :: rest => do
    let E ← ellF? name
    match ← parseAll? (α := Float) rest with
    | [p, absz] =>
      let sc := halley E p absz
      pure s!"{Wire.render sc.1} {Wire.render sc.2}"
    | _ => none
  | ["c05", "flow", cls, name, ops] => do
    let c ← parseCls? cls
    let i ← ellIndex? name
    let ops ← parseList? parseOp? ops
    let tbl := Midgard.Generated.EllipsoidFlow.sites
    let r := Midgard.Geo.run tbl ⟨c, some i⟩ ops
    let used := convertedOn tbl ⟨c, some i⟩ ops
    pure s!"{showCls r.cls} {ellName r.ell} {showList ellName used}"
  | ["c05", "flowstep", cls, name, op] => do
    let c ← parseCls? cls
    let i ← ellIndex? name
    let o ← parseOp? op
    let r := step Midgard.Generated.EllipsoidFlow.sites ⟨c, some i⟩ o
    pure s!"{showCls r.cls} {ellName r.ell}"
  | _ => none

end Driver.C05

def main : IO Unit := Driver.run Driver.C05.handle
