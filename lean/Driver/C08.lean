import Driver.Loop

/-! Driver for C08: placeholder until the model is written. -/
namespace Driver.C08

def handle : List String → Option String
  | _ => none

end Driver.C08

def main : IO Unit := Driver.run Driver.C08.handle
