import Driver.Loop
import Midgard.Model.CacheMachine
import Midgard.Model.ObjCache
import Midgard.Generated.CacheMech

/-! Driver for C08: one line = one whole history of the cache machine.
`c08 run <group> <op> <op> …`  with group ∈ trs2llh | llh2trs | enu2trs | trs2enu | toScale
(flags from the regenerated `CacheMech`) or `f:<5 bits>:<cap>`. -/
namespace Driver.C08
open Midgard.Proto Midgard.CacheMachine

def parseShape? : String → Option Shape
  | "s3" => some .s3 | "s13" => some .s13 | "sn3" => some .sn3 | "s0" => some .s0 | "s1" => some .s1 | _ => none

def showShape : Shape → String
  | .s3 => "s3" | .s13 => "s13" | .sn3 => "sn3" | .s0 => "s0" | .s1 => "s1"

def parseFlags? (s : String) : Option Flags :=
  match s with
  | "trs2llh" => some Midgard.Generated.CacheMech.trs2llh
  | "llh2trs" => some Midgard.Generated.CacheMech.llh2trs
  | "enu2trs" => some Midgard.Generated.CacheMech.enu2trs
  | "trs2enu" => some Midgard.Generated.CacheMech.trs2enu
  | "toScale" => some Midgard.Generated.CacheMech.toScale
  | _ =>
    match s.splitOn ":" with
    | ["f", bits, cap] =>
      match bits.toList.map (· == '1'), cap.toNat? with
      | [a, b, c, d, e], some n => some ⟨a, b, c, d, e, n⟩
      | _, _ => none
    | _ => none

def parseOp? (tok : String) : Option Op :=
  match tok.splitOn ":" with
  | ["create", v, sh, tag] => do pure (.create (← v.toNat?) (← parseShape? sh) (← tag.toNat?))
  | ["call", fn, a] => do pure (.call (← fn.toNat?) (← a.toNat?))
  | ["write", k, j] => do pure (.write (← k.toNat?) (← j.toNat?))
  | ["mutate", a, v] => do pure (.mutate (← a.toNat?) (← v.toNat?))
  | _ => none

def showContent : Content → String
  | .app fn v sh tag => s!"app.{fn}.{v}.{showShape sh}.{tag}"
  | .junk n => s!"junk.{n}"

def showOut : Out → String
  | .created => "C"
  | .result c w h => s!"R:{showContent c}:{showBool w}:{showBool h}"
  | .wrote => "W"
  | .refused => "X"
  | .mutated => "M"
  | .bad => "B"

/-! second machine: per-object caches.  `c08 obj <src|tv bits> <op> …` -/
namespace O
open Midgard.ObjCache

def parseNats? (s : String) : Option (List Nat) :=
  if s = "[]" then some [] else (s.splitOn ",").mapM (·.toNat?)

def parseOp? (tok : String) : Option Midgard.ObjCache.Op :=
  match tok.splitOn ":" with
  | ["create", vals] => do pure (.create (← parseNats? vals))
  | ["view", p, rows] => do pure (.view (← p.toNat?) (← parseNats? rows))
  | ["take", p, rows] => do pure (.take (← p.toNat?) (← parseNats? rows))
  | ["setother", p, "-"] => do pure (.setOther (← p.toNat?) none)
  | ["setother", p, q] => do pure (.setOther (← p.toNat?) (some (← q.toNat?)))
  | ["setitem", p, k, v] => do pure (.setItem (← p.toNat?) (← k.toNat?) (← v.toNat?))
  | ["readconv", p] => do pure (.readConv (← p.toNat?))
  | ["readder", p] => do pure (.readDer (← p.toNat?))
  | _ => none

def showNats (l : List Nat) : String := Midgard.Proto.showList toString l

def showOut : Midgard.ObjCache.Out → String
  | .done => "D"
  | .conv s => "C:" ++ showNats s
  | .der a b => "R:" ++ showNats a ++ ":" ++ showNats b
  | .bad => "B"

def parseFlags? (s : String) : Option Midgard.ObjCache.Flags :=
  if s = "src" then
    some ⟨Midgard.Generated.CacheMech.objTransitive, Midgard.Generated.CacheMech.objViewsLinked⟩
  else match s.toList.map (· == '1') with
    | [a, b] => some ⟨a, b⟩
    | _ => none

end O

def handle : List String → Option String
  | "c08" :: "objcount" :: fl :: ops => do
    let fl ← O.parseFlags? fl
    let ops ← ops.mapM O.parseOp?
    pure (toString (Midgard.ObjCache.run fl {} ops).1.objs.length)
  | "c08" :: "obj" :: fl :: ops => do
    let fl ← O.parseFlags? fl
    let ops ← ops.mapM O.parseOp?
    pure ("|".intercalate ((Midgard.ObjCache.run fl {} ops).2.map O.showOut))
  | "c08" :: "run" :: fl :: ops => do
    let fl ← parseFlags? fl
    let ops ← ops.mapM parseOp?
    pure ("|".intercalate ((Midgard.CacheMachine.run fl {} ops).2.map showOut))
  | ["c08", "flags", fl] => do
    let fl ← parseFlags? fl
    pure s!"{showBool fl.keyShape}{showBool fl.keyTag}{showBool fl.copyOut}{showBool fl.frozenOut}{showBool fl.freezeArg}:{fl.cap}"
  | _ => none

end Driver.C08

def main : IO Unit := Driver.run Driver.C08.handle
