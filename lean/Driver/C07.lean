import Driver.GeoWire
import Midgard.Model.Kepler
import Midgard.Model.PosCache
import Midgard.Generated.PositionSystems

/-! Driver for C07: `trs2kepler`, `kepler2trs`, mean and true anomaly at `Float`;
the algebraic core `kepler2trsCore` also at `Rat`. -/
namespace Driver.C07
open Midgard.Proto Midgard.Geo Driver.GeoWire

def showKep (k : Kep Float) : String :=
  s!"{Wire.render k.a} {Wire.render k.e} {Wire.render k.i} {Wire.render k.Omega} {Wire.render k.omega} {Wire.render k.E}"

section Alg
variable {α : Type} [Wire α] [Add α] [Sub α] [Mul α] [Div α] [Neg α] [Zero α] [One α]

def handleAlg : List String → Option String
  | "k2tcore" :: rest => do
    match ← parseAll? (α := α) rest with
    | [a, e, fac, g, cO, sO, ci, si, cw, sw, cE, sE] =>
      pure (showV6 (kepler2trsCore a e fac g cO sO ci si cw sw cE sE))
    | _ => none
  | _ => none

end Alg

def handleF : List String → Option String
  | "kepler2trs" :: rest => do
    match ← parseAll? (α := Float) rest with
    | [gm, a, e, i, bigO, w, bigE] => pure (showV6 (kepler2trs gm ⟨a, e, i, bigO, w, bigE⟩))
    | _ => none
  | "trs2kepler" :: rest => do
    match ← parseAll? (α := Float) rest with
    | [gm, x, y, z, vx, vy, vz] => pure (showKep (trs2kepler gm ⟨⟨x, y, z⟩, ⟨vx, vy, vz⟩⟩))
    | _ => none
  | "M" :: rest => do
    match ← parseAll? (α := Float) rest with
    | [e, bigE] => pure (Wire.render (meanAnomaly e bigE))
    | _ => none
  | "f" :: rest => do
    match ← parseAll? (α := Float) rest with
    | [e, bigE] => pure (Wire.render (trueAnomaly e bigE))
    | _ => none
  | _ => none

/-! `c07 hist <op> …`: a history of conversions, views and in-place writes on the model store
(`Model/PosCache.lean`) with symbolic array values.  Answer: after every operation
`<id handed out> | <sys>:<cached conversion>:<dependents>,…` (one entry per object), then ` || ` and the value
term of every object at the end. -/
section Hist
open Midgard.Geo.PosCache

def parseOp (st : Store Term) (tok : String) : Option (Op Term) :=
  match tok.splitOn ":" with
  | ["n", "t", l] => l.toNat?.map fun n => .new .trs (.lit n)
  | ["n", "k", l] => l.toNat?.map fun n => .new .kepler (.lit n)
  | ["c", o] => o.toNat?.map fun o => .toSys o (st.obj o).sys.other
  | ["o", o] => o.toNat?.map fun o => .toSys o (st.obj o).sys
  | ["v", o, k] => o.toNat?.map fun o => .view o k
  | ["t", o, k] => o.toNat?.map fun o => .take o k
  | ["s", o, k, l] => do
    let o ← o.toNat?
    let n ← l.toNat?
    pure (.set o k (.lit n))
  | _ => none

/-- the dependents are shown as a set, in increasing order -/
def showObj (n : Nat) (o : Obj) : String :=
  let c := match o.cache with
    | some c => toString c
    | none => "-"
  s!"{o.sys.tok}:{c}:{".".intercalate (((List.range n).filter fun j => o.deps.contains j).map toString)}"

def snapshot (st : Store Term) : String :=
  ",".intercalate ((List.range st.n).map fun i => showObj st.n (st.obj i))

def histLoop : Store Term → List String → List String → Option (Store Term × List String)
  | st, [], acc => some (st, acc.reverse)
  | st, tok :: rest, acc => do
    let op ← parseOp st tok
    let r := step st op
    let ret := match r.2 with
      | some i => toString i
      | none => "-"
    histLoop r.1 rest (s!"{ret} | {snapshot r.1}" :: acc)

def handleHist (toks : List String) : Option String := do
  let (st, steps) ← histLoop (empty (.lit 0)) toks []
  let terms := (List.range st.n).map fun i => (contents st i).render
  pure (" ; ".intercalate steps ++ " || " ++ " ; ".intercalate terms)

end Hist

def handle : List String → Option String
  | "c07" :: "hist" :: toks => handleHist toks
  | ["c07", "gm"] => some (showRat Midgard.Generated.PositionSystems.GM)
  | "c07" :: "q" :: rest => handleAlg (α := Rat) rest
  | "c07" :: "f" :: rest => (handleAlg (α := Float) rest).orElse (fun _ => handleF rest)
  | _ => none

end Driver.C07

def main : IO Unit := Driver.run Driver.C07.handle
