import Driver.GeoWire
import Midgard.Model.Kepler
import Midgard.Generated.PositionSystems

/-! Driver for C07: `trs2kepler`, `kepler2trs`, mean and true anomaly at `Float`;
the algebraic core `kepler2trsCore` also at `Rat`. -/
namespace Driver.C07
open Midgard.Proto Midgard.Geo Driver.GeoWire

def showKep (k : Kep Float) : String :=
  s!"{Wire.render k.a} {Wire.render k.e} {Wire.render k.i} {Wire.render k.Omega} {Wire.render k.omega} {Wire.render k.E}"

section Alg
variable {α : Type} [Wire α] [Add α] [Sub α] [Mul α] [Div α] [Neg α] [Zero α] [One α]

def handleAlg : List String → Option String
  | "k2tcore" :: rest => do
    match ← parseAll? (α := α) rest with
    | [a, e, fac, g, cO, sO, ci, si, cw, sw, cE, sE] =>
      pure (showV6 (kepler2trsCore a e fac g cO sO ci si cw sw cE sE))
    | _ => none
  | _ => none

end Alg

def handleF : List String → Option String
  | "kepler2trs" :: rest => do
    match ← parseAll? (α := Float) rest with
    | [gm, a, e, i, bigO, w, bigE] => pure (showV6 (kepler2trs gm ⟨a, e, i, bigO, w, bigE⟩))
    | _ => none
  | "trs2kepler" :: rest => do
    match ← parseAll? (α := Float) rest with
    | [gm, x, y, z, vx, vy, vz] => pure (showKep (trs2kepler gm ⟨⟨x, y, z⟩, ⟨vx, vy, vz⟩⟩))
    | _ => none
  | "M" :: rest => do
    match ← parseAll? (α := Float) rest with
    | [e, bigE] => pure (Wire.render (meanAnomaly e bigE))
    | _ => none
  | "f" :: rest => do
    match ← parseAll? (α := Float) rest with
    | [e, bigE] => pure (Wire.render (trueAnomaly e bigE))
    | _ => none
  | _ => none

def handle : List String → Option String
  | ["c07", "gm"] => some (showRat Midgard.Generated.PositionSystems.GM)
  | "c07" :: "q" :: rest => handleAlg (α := Rat) rest
  | "c07" :: "f" :: rest => (handleAlg (α := Float) rest).orElse (fun _ => handleF rest)
  | _ => none

end Driver.C07

def main : IO Unit := Driver.run Driver.C07.handle
