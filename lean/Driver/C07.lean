import Driver.Loop

/-! Driver for C07: placeholder until the model is written. -/
namespace Driver.C07

def handle : List String → Option String
  | _ => none

end Driver.C07

def main : IO Unit := Driver.run Driver.C07.handle
