import Driver.Loop

/-! Driver for C19: placeholder until the model is written. -/
namespace Driver.C19

def handle : List String → Option String
  | _ => none

end Driver.C19

def main : IO Unit := Driver.run Driver.C19.handle
