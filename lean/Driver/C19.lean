import Driver.Loop
import Midgard.Model.Config
import Midgard.Model.ConfigTyped
import Midgard.Generated.ConfigTables
import Midgard.Proofs.ConfigDoc

/-!
Driver for C19.  One *history* per line:  `c19 run op op op …` answers one token per op.
Three configurations live in the world: 0 (`main`), 1 (`fb`) and 2 (`fb2`); `L:1` makes 1 the fallback of 0,
`K:1` makes 2 the fallback of 1 (so that 0 has a fallback chain of length 2 when both are set).
Text fields are hex (`.` = empty), `-` is None.

 mutating ops (answer `ok`, `err:<kind>`, for O also `;unused=<hex,…>`)
  U:cfg:sec:key:val:profile:source:allownew:meta      meta  - | k=v;k=v   (v `~` = None)
  D:cfg:sec|-:allownew:k=v,k=v                         update_from_dict
  O:cfg:profile|-:allownew:opt,opt                     update_from_options
  S:cfg:fromcfg:fromsec:sec|-:allownew                 update_from_config_section
  F:cfg:allownew:casesensitive:source:text             update_from_file (text of the file; DEFAULT, __replace__, __vars__ sections incl.)
  P:cfg:-|[]|p,p,~                                     profiles setter
  M:cfg:-|name                                         master_section setter
  L:0|1                                                fallback link 0 -> 1
  K:0|1                                                fallback link 1 -> 2
  V:cfg:k=v,k=v                                        update_vars
  X:cfg:name                                           del cfg[name]
  C:cfg                                                cfg.clear()
  N                                                    nothing (the caller changed, in place, an object a getter handed out)
 queries
  g:cfg:key:value|-:section|-:default|-                cfg.get
  G:cfg:key:value|-:section|-:default|-:callvars:rdefault|-
                                                       e = cfg.get(…): key, e.str, e.source, position in the fallback chain of the
                                                       configuration whose variables e holds, e.replaced, e.replace(default=rdefault,
                                                       **callvars), and .list/.dict/.bool/.int of e.replaced
  I:cfg:section:key:callvars:rdefault|-                e = cfg[section][key]: the same observations
  i:cfg:name                                           cfg[name]
  e:cfg:key:section|-                                  cfg.exists
  s:cfg                                                cfg.sources
  v:cfg                                                flattened view
  p:cfg                                                cfg.profiles
  w:cfg:width                                          cfg.as_str(width)
  r:cfg:width                                          view of Configuration.read_from_file(written file), then `|` and
                                                       its per-profile store  profile>view|profile>view…
  t:cfg:width                                          `WfText` (the hypothesis of `text_roundtrip`) of the view at that width
 pure
  a:kind:value                                         entry.<kind>   kind = list|tuple|dict|bool|int
  x:value:vars:callvars:default|-                      entry.replace(default, **callvars) with cfg vars
  A:list|tuple:pattern:maxsplit:value                  entry.as_list / as_tuple (split_re=pattern, maxsplit=…)
  A:dict:itempattern:kvpattern:maxsplit:value          entry.as_dict(item_split_re, key_value_split_re, maxsplit)
  A:float:value   A:date:value   A:datetime:value      entry.float (num/den | inf | -inf | nan), .date, .datetime (µs since 2000-01-01)
  A:path:home:value                                    str(entry.path) with $HOME = home
  A:enum:name:value                                    entry.as_enum(name).name
-/
namespace Driver.C19
open Midgard.Proto Midgard.Config

structure World where
  c0 : Cfg
  c1 : Cfg
  c2 : Cfg
  linked : Bool
  linked2 : Bool

def World.get (w : World) (i : Nat) : Cfg := if i = 0 then w.c0 else if i = 1 then w.c1 else w.c2
def World.set (w : World) (i : Nat) (c : Cfg) : World :=
  if i = 0 then { w with c0 := c } else if i = 1 then { w with c1 := c } else { w with c2 := c }
/-- the configuration followed by its fallback configurations -/
def World.chain (w : World) (i : Nat) : List Cfg :=
  let ch1 := if w.linked2 then [w.c1, w.c2] else [w.c1]
  if i = 0 then (if w.linked then w.c0 :: ch1 else [w.c0]) else if i = 1 then ch1 else [w.c2]

def hx (s : String) : String := encodeHex s
def unhx? (s : String) : Option String := decodeHex? s
def optHex? (s : String) : Option (Option String) := if s = "-" then some none else (unhx? s).map some
def bool? (s : String) : Option Bool := if s = "1" then some true else if s = "0" then some false else none
def idx? (s : String) : Option Nat :=
  if s = "0" then some 0 else if s = "1" then some 1 else if s = "2" then some 2 else none

def kvs? (s : String) (sep : String) : Option (List (String × Option String)) :=
  if s = "-" || s = "[]" then some [] else
  (s.splitOn sep).mapM fun it =>
    match it.splitOn "=" with
    | [k, v] => do
      let k ← unhx? k
      let v ← if v = "~" then some none else (unhx? v).map some
      pure (k, v)
    | _ => none

def kvsStr? (s : String) : Option (List (String × String)) :=
  (kvs? s ",").map (fun l => l.map (fun (k, v) => (k, v.getD "None")))

def hexList? (s : String) : Option (List String) :=
  if s = "[]" || s = "-" then some [] else (s.splitOn ",").mapM unhx?

def showErr : Err → String
  | .missingSection => "missingSection" | .missingEntry => "missingEntry"
  | .missingConfiguration => "missingConfiguration" | .index => "index" | .value => "value"
  | .recursion => "recursion" | .key => "key"

def showMeta (m : List (String × Option String)) : String :=
  if m.isEmpty then "" else
  "{" ++ ";".intercalate (m.map fun (k, v) => s!"{hx k}={(v.map hx).getD "~"}") ++ "}"

def showEntry (withSource : Bool) (k : String) (e : Entry) : String :=
  s!"{hx k}={hx e.value}" ++ (if withSource then s!"@{hx e.source}" else "") ++ showMeta e.metas

def showSection (withSource : Bool) (n : String) (s : Section) : String :=
  s!"{hx n}[" ++ ",".intercalate (s.map fun (k, e) => showEntry withSource k e) ++ "]"

def showView (withSource : Bool) (secs : Sections) : String :=
  if secs.isEmpty then "{}" else "/".intercalate (secs.map fun (n, s) => showSection withSource n s)

/-- `_profile_sections`: profile (`~` = None) `>` its sections -/
def showStore (ps : List (Profile × Sections)) : String :=
  "|".intercalate (ps.map fun (p, secs) => (p.map hx).getD "~" ++ ">" ++ showView false secs)

def mutRes (e : Option Err) : String := match e with | none => "ok" | some e => s!"err:{showErr e}"

/-- sort strings (for sets) -/
def sortStrs (l : List String) : List String := (l.toArray.qsort (· < ·)).toList

def showR : Except RErr String → String
  | .ok s => hx s
  | .error .recursion => "!recursion"
  | .error .unsupportedSpec => "unsupported-spec"

/-- what the harness looks at on an entry that a lookup handed back: `.replaced`, `.replace(default, **callvars)` and the
typed accessors of the replaced entry -/
def showLook (d : Nat) (k : String) (e : Entry) (r0 rx : Except RErr String) : String :=
  let acc := match r0 with
    | .ok s =>
      showList hx (asList s) ++ ":" ++ showList (fun (k, x) => s!"{hx k}={hx x}") (asDict s) ++ ":" ++
      (match asBool s with | .ok b => showBool b | .error _ => "!value") ++ ":" ++
      (match asInt s with | .ok n => toString n | .error _ => "!value")
    | .error _ => "-:-:-:-"
  s!"ok:{hx k}:{hx e.value}:{hx e.source}:{d}:{showR r0}:{showR rx}:{acc}"

def step (w : World) (op : String) : Option (World × String) :=
  match op.splitOn ":" with
  | ["U", c, sec, key, val, prof, src, an, mt] => do
    let i ← idx? c; let sec ← unhx? sec; let key ← unhx? key; let val ← unhx? val
    let prof ← optHex? prof; let src ← unhx? src; let an ← bool? an; let mt ← kvs? mt ";"
    match (w.get i).update ⟨sec, key, val, prof, src, mt, an⟩ with
    | .ok c' => pure (w.set i c', "ok")
    | .error e => pure (w, s!"err:{showErr e}")
  | ["D", c, sec, an, d] => do
    let i ← idx? c; let sec ← optHex? sec; let an ← bool? an; let d ← kvsStr? d
    let (c', e) := (w.get i).updateFromDict d sec "dictionary" an
    pure (w.set i c', mutRes e)
  | ["O", c, prof, an, opts] => do
    let i ← idx? c; let prof ← optHex? prof; let an ← bool? an; let opts ← hexList? opts
    let (c', e, unused) := (w.get i).updateFromOptions opts prof "command line" an
    let tail := match e with
      | none => ";unused=" ++ showList hx (sortStrs unused)
      | some _ => ""
    pure (w.set i c', mutRes e ++ tail)
  | ["S", c, fc, fsec, sec, an] => do
    let i ← idx? c; let j ← idx? fc; let fsec ← unhx? fsec; let sec ← optHex? sec; let an ← bool? an
    let other ← dget? (w.get j).sections fsec
    let (c', e) := (w.get i).updateFromSection fsec other sec an
    pure (w.set i c', mutRes e)
  | ["F", c, an, cs, src, text] => do
    let i ← idx? c; let an ← bool? an; let cs ← bool? cs; let src ← unhx? src; let text ← unhx? text
    match (w.get i).updateFromFile text src an cs with
    | .error _ => pure (w, "err:ini")
    | .ok (c', e) => pure (w.set i c', match e with
        | none => "ok"
        | some (.cfg e) => s!"err:{showErr e}"
        | some (.replace .recursion) => "err:recursion"
        | some (.replace .unsupportedSpec) => "unsupported-spec")
  | ["P", c, ps] => do
    let i ← idx? c
    let vals : Option (List Profile) ←
      if ps = "-" then some none
      else if ps = "[]" then some (some [])
      else ((ps.splitOn ",").mapM (fun p => if p = "~" then some none else (unhx? p).map some)).map some
    pure (w.set i ((w.get i).setProfiles vals), "ok")
  | ["M", c, m] => do
    let i ← idx? c; let m ← optHex? m
    pure (w.set i { w.get i with master := m }, "ok")
  | ["L", b] => do
    let b ← bool? b
    pure ({ w with linked := b }, "ok")
  | ["K", b] => do
    let b ← bool? b
    pure ({ w with linked2 := b }, "ok")
  | ["X", c, name] => do
    let i ← idx? c; let name ← unhx? name
    match (w.get i).delSection name with
    | .ok c' => pure (w.set i c', "ok")
    | .error e => pure (w, s!"err:{showErr e}")
  | ["C", c] => do
    let i ← idx? c
    pure (w.set i (w.get i).clear, "ok")
  | ["N"] => pure (w, "ok")
  | ["V", c, d] => do
    let i ← idx? c; let d ← kvsStr? d
    pure (w.set i ((w.get i).updateVars d), "ok")
  | ["g", c, key, val, sec, dflt] => do
    let i ← idx? c; let key ← unhx? key; let val ← optHex? val; let sec ← optHex? sec; let dflt ← optHex? dflt
    match get (w.chain i) key val sec dflt with
    | .ok (k, e) => pure (w, s!"ok:{hx k}:{hx e.value}:{hx e.source}")
    | .error e => pure (w, s!"err:{showErr e}")
  | ["G", c, key, val, sec, dflt, cv, rd] => do
    let i ← idx? c; let key ← unhx? key; let val ← optHex? val; let sec ← optHex? sec; let dflt ← optHex? dflt
    let cv ← kvsStr? cv; let rd ← optHex? rd
    match getReplaced (w.chain i) key val sec dflt [] none, getReplaced (w.chain i) key val sec dflt cv rd with
    | .ok (d, k, e, r0), .ok (_, _, _, rx) => pure (w, showLook d k e r0 rx)
    | .error e, _ => pure (w, s!"err:{showErr e}")
    | _, .error e => pure (w, s!"err:{showErr e}")
  | ["I", c, sec, key, cv, rd] => do
    let i ← idx? c; let sec ← unhx? sec; let key ← unhx? key; let cv ← kvsStr? cv; let rd ← optHex? rd
    match itemReplaced (w.chain i) sec key [] none, itemReplaced (w.chain i) sec key cv rd with
    | .ok (d, e, r0), .ok (_, _, rx) => pure (w, showLook d key e r0 rx)
    | .error e, _ => pure (w, s!"err:{showErr e}")
    | _, .error e => pure (w, s!"err:{showErr e}")
  | ["i", c, name] => do
    let i ← idx? c; let name ← unhx? name
    match getItem (w.chain i) name with
    | .ok (.sect n s) => pure (w, "sect:" ++ showSection false n s)
    | .ok (.entry k e) => pure (w, s!"entry:{hx k}:{hx e.value}")
    | .error e => pure (w, s!"err:{showErr e}")
  | ["e", c, key, sec] => do
    let i ← idx? c; let key ← unhx? key; let sec ← optHex? sec
    match cfgExists (w.chain i) key sec with
    | .ok b => pure (w, showBool b)
    | .error e => pure (w, s!"err:{showErr e}")
  | ["s", c] => do
    let i ← idx? c
    pure (w, showList hx (sortStrs (w.get i).sources))
  | ["v", c] => do
    let i ← idx? c
    pure (w, showView true (w.get i).sections)
  | ["p", c] => do
    let i ← idx? c
    pure (w, showList (fun p => (p.map hx).getD "~") (w.get i).profiles)
  | ["w", c, width] => do
    let i ← idx? c; let width ← width.toNat?
    pure (w, hx (asStr width 30 (w.get i).sections))
  | ["r", c, width] => do
    let i ← idx? c; let width ← width.toNat?
    let text := asStr width 30 (w.get i).sections ++ "\n"
    match (Cfg.new "reread").updateFromText text "F" true false with
    | .error _ => pure (w, "err:ini")
    | .ok (c', e) => pure (w, match e with
        | none => showView false c'.sections ++ "|" ++ showStore c'.profileSections
        | some e => s!"err:{showErr e}")
  | ["t", c, width] => do
    let i ← idx? c; let width ← width.toNat?
    pure (w, showBool (Midgard.Proofs.ConfigText.WfText true width 30 (w.get i).sections))
  | ["a", kind, v] => do
    let v ← unhx? v
    match kind with
    | "list" => pure (w, showList hx (asList v))
    | "tuple" => pure (w, showList hx (asList v))
    | "dict" => pure (w, showList (fun (k, x) => s!"{hx k}={hx x}") (asDict v))
    | "bool" => pure (w, match asBool v with | .ok b => showBool b | .error e => s!"err:{showErr e}")
    | "int" => pure (w, match asInt v with | .ok n => toString n | .error e => s!"err:{showErr e}")
    | _ => none
  | ["A", kind, pat, ms, v] => do
    let pat ← unhx? pat; let ms ← ms.toNat?; let v ← unhx? v
    if kind != "list" && kind != "tuple" then none else
    match parseClass? pat with
    | none => pure (w, "unsupported-pattern")
    | some cc => pure (w, showList hx (asListRe cc ms v))
  | ["A", "dict", ipat, kpat, ms, v] => do
    let ipat ← unhx? ipat; let kpat ← unhx? kpat; let ms ← ms.toNat?; let v ← unhx? v
    match parseClass? ipat, parseClass? kpat with
    | some ic, some kc =>
      match asDictRe ic kc ms v with
      | .ok d => pure (w, showList (fun (k, x) => s!"{hx k}={hx x}") d)
      | .error e => pure (w, s!"err:{showErr e}")
    | _, _ => pure (w, "unsupported-pattern")
  | ["A", "float", v] => do
    let v ← unhx? v
    match asFloat v with
    | .ok (.finite q) => pure (w, s!"{q.num}/{q.den}")
    | .ok (.inf neg) => pure (w, if neg then "-inf" else "inf")
    | .ok .nan => pure (w, "nan")
    | .error e => pure (w, s!"err:{showErr e}")
  | ["A", "date", v] => do
    let v ← unhx? v
    match asDate v with
    | .ok dt => pure (w, toString dt)
    | .error e => pure (w, s!"err:{showErr e}")
  | ["A", "datetime", v] => do
    let v ← unhx? v
    match asDatetime v with
    | .ok dt => pure (w, toString dt)
    | .error e => pure (w, s!"err:{showErr e}")
  | ["A", "path", home, v] => do
    let home ← unhx? home; let v ← unhx? v
    match asPath home v with
    | some p => pure (w, hx p)
    | none => pure (w, "unsupported-pattern")
  | ["A", "enum", name, v] => do
    let name ← unhx? name; let v ← unhx? v
    match asEnum Midgard.Generated.ConfigTables.enumTable name v with
    | .ok m => pure (w, hx m)
    | .error .unknownEnum => pure (w, "err:unknownEnum")
    | .error .value => pure (w, "err:value")
  | ["x", v, vars, callvars, dflt] => do
    let v ← unhx? v; let vars ← kvsStr? vars; let callvars ← kvsStr? callvars; let dflt ← optHex? dflt
    match entryReplace vars callvars dflt v with
    | .ok s => pure (w, "ok:" ++ hx s)
    | .error .recursion => pure (w, "err:recursion")
    | .error .unsupportedSpec => pure (w, "unsupported-spec")
  | _ => none

def runOps (w : World) : List String → List String → Option (List String)
  | [], acc => some acc.reverse
  | op :: t, acc =>
    match step w op with
    | none => none
    | some (w', out) => runOps w' t (out :: acc)

def handle : List String → Option String
  | "c19" :: "run" :: ops =>
    (runOps ⟨Cfg.new "main", Cfg.new "fb", Cfg.new "fb2", false, false⟩ ops []).map (fun outs => " ".intercalate outs)
  | _ => none

end Driver.C19

def main : IO Unit := Driver.run Driver.C19.handle
