import Driver.Loop
import Midgard.Model.Antex
import Midgard.Spec.Antex14

/-! Driver for C15: `c15 parse <hex text>` (the parser model) and `c15 render <records>` (the
ANTEX 1.4 spec renderer). -/
namespace Driver.C15
open Midgard.Proto Midgard.Text Midgard.Antex Midgard.ChainParser

def hx (s : Str) : String := encodeHex (asString s)

def rats (l : List Rat) : String := ",".intercalate (l.map showRat)

def showErr : Err → String
  | .notUnique => "ERR:not-unique"
  | .other => "ERR:other"

def itemTokens (path : String) (k : Str) : Item → List String
  | .text s => [s!"{path}|{asString k}=T:{hx s}"]
  | .date us => [s!"{path}|{asString k}=D:{us}"]
  | .now => [s!"{path}|{asString k}=D:now"]
  | .grid deg => [s!"{path}|{asString k}=Qdeg:{rats deg}"]
  | .freq f =>
    let p := s!"{path}|f{hx k}"
    [s!"{p}|neu=Q:{rats f.neu}", s!"{p}|noazi=Q:{rats f.noazi}"] ++
    match f.azi with
    | none => []
    | some rows =>
      let cols := (rows.head?.map List.length).getD 0
      [s!"{p}|azi=G:{rows.length}x{cols}:{rats rows.flatten}"]

def showState (s : State) : String :=
  let m := s.metaText.map fun (k, v) => s!"m|{k}=T:{hx v}"
  let c := match s.comments with
    | none => []
    | some cs => [s!"m|comment=L:{",".intercalate (cs.map hx)}"]
  let d := s.data.flatMap fun (ant, dict) =>
    dict.flatMap fun (k, v) =>
      match k, v with
      | .date us, .entry e => e.flatMap fun (kk, i) => itemTokens s!"d|{hx ant}|s{us}" kk i
      | .str kk, .item i => itemTokens s!"d|{hx ant}|r" kk i
      | .date us, .item _ => [s!"d|{hx ant}|s{us}=BAD:item"]
      | .str kk, .entry _ => [s!"d|{hx ant}|r|{hx kk}=BAD:entry"]
  " ".intercalate (m ++ c ++ d)

def parseRecord? (tok : String) : Option (String × List Str) :=
  match tok.splitOn ":" with
  | [k, cells] =>
    if cells = "" then some (k, [])
    else do
      let cs ← (cells.splitOn ",").mapM decodeHex?
      pure (k, cs.map String.toList)
  | _ => none

def handle : List String → Option String
  | ["c15", "parse", h] => do
    let text ← decodeHex? h
    match parseText text.toList with
    | .ok s => pure (showState s)
    | .error e => pure (showErr e)
  | "c15" :: "render" :: recs => do
    let rs ← recs.mapM parseRecord?
    let text ← Midgard.Spec.Antex14.renderFile rs
    pure (hx text)
  | _ => none

end Driver.C15

def main : IO Unit := Driver.run Driver.C15.handle
