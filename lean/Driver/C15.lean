import Driver.Loop

/-! Driver for C15: placeholder until the model is written. -/
namespace Driver.C15

def handle : List String → Option String
  | _ => none

end Driver.C15

def main : IO Unit := Driver.run Driver.C15.handle
