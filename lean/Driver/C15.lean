import Driver.Loop
import Midgard.Model.Antex
import Midgard.Spec.Antex14
import Midgard.Spec.AntexFile

/-! Driver for C15: `c15 parse <hex text>` (the parser model), `c15 render <records>` (the
ANTEX 1.4 spec renderer) and

`c15 model <tokens of an abstract file>` → `wf=<0|1> thm=<0|1> text=<hex of render F> ;; <parse of that text>`: the abstract
file `F` of `Spec/AntexFile.lean` is rendered (`render F`), parsed by the model (`parseText`) and compared with
`calibrations F` (`thm` = the instance of `Props.C15.file_roundtrip` evaluates to true).
Wire format (blank separated; texts hex, `-` = absent):
  ver sys pcv refant refserial  n n×comment  n n×comment  nAnt nAnt×ant  n n×inert
  ant   := typ code sat cospar dazi zen1 zen2 dzen numfreq date date  nF nF×freq  nR nR×(code sec)  nD nD×(n n×inert)
  date  := - | d y mo d h mi sec
  freq  := code sec (- | r sec)
  sec   := north east up  n n×val  nRows nRows×(azimuth n n×val)
  inert := c text | m method agency num date | s code | b -/
namespace Driver.C15
open Midgard.Proto Midgard.Text Midgard.Antex Midgard.ChainParser

def hx (s : Str) : String := encodeHex (asString s)

def rats (l : List Rat) : String := ",".intercalate (l.map showRat)

def showErr : Err → String
  | .notUnique => "ERR:not-unique"
  | .other => "ERR:other"

def itemTokens (path : String) (k : Str) : Item → List String
  | .text s => [s!"{path}|{asString k}=T:{hx s}"]
  | .date us => [s!"{path}|{asString k}=D:{us}"]
  | .now => [s!"{path}|{asString k}=D:now"]
  | .grid deg => [s!"{path}|{asString k}=Qdeg:{rats deg}"]
  | .freq f =>
    let p := s!"{path}|f{hx k}"
    [s!"{p}|neu=Q:{rats f.neu}", s!"{p}|noazi=Q:{rats f.noazi}"] ++
    match f.azi with
    | none => []
    | some rows =>
      let cols := (rows.head?.map List.length).getD 0
      [s!"{p}|azi=G:{rows.length}x{cols}:{rats rows.flatten}"]

def showState (s : State) : String :=
  let m := s.metaText.map fun (k, v) => s!"m|{k}=T:{hx v}"
  let c := match s.comments with
    | none => []
    | some cs => [s!"m|comment=L:{",".intercalate (cs.map hx)}"]
  let d := s.data.flatMap fun (ant, dict) =>
    dict.flatMap fun (k, v) =>
      match k, v with
      | .date us, .entry e => e.flatMap fun (kk, i) => itemTokens s!"d|{hx ant}|s{us}" kk i
      | .str kk, .item i => itemTokens s!"d|{hx ant}|r" kk i
      | .date us, .item _ => [s!"d|{hx ant}|s{us}=BAD:item"]
      | .str kk, .entry _ => [s!"d|{hx ant}|r|{hx kk}=BAD:entry"]
  " ".intercalate (m ++ c ++ d)

def parseRecord? (tok : String) : Option (String × List Str) :=
  match tok.splitOn ":" with
  | [k, cells] =>
    if cells = "" then some (k, [])
    else do
      let cs ← (cells.splitOn ",").mapM decodeHex?
      pure (k, cs.map String.toList)
  | _ => none

namespace Wire
open Midgard.Spec.AntexFile Midgard.Decimal

abbrev P := StateT (List String) Option

def tok : P String := fun ts => match ts with | t :: r => some (t, r) | [] => Option.none
def hex : P Str := do let t ← tok; (decodeHex? t).map String.toList
def nat : P Nat := do let t ← tok; t.toNat?
def many {α} (p : P α) : Nat → P (List α)
  | 0 => pure []
  | n + 1 => do let a ← p; let r ← many p n; pure (a :: r)
def counted {α} (p : P α) : P (List α) := do let n ← nat; many p n

/-- a number cell: the value is what the printed text denotes (0 when it denotes nothing: then `wf` is false) -/
def num : P NumCell := do let t ← hex; pure ⟨t, (parseFloat t).getD 0⟩
def intc : P IntCell := do let t ← hex; pure ⟨t, (parseInt? t).getD 0⟩

def date : P (Option DateM) := do
  match (← tok) with
  | "-" => pure Option.none
  | "d" =>
    let y ← intc; let mo ← intc; let d ← intc; let h ← intc; let mi ← intc; let s ← num
    pure (some ⟨y, mo, d, h, mi, s, (datetimeMinutes? y.val mo.val d.val h.val mi.val).getD 0⟩)
  | _ => failure

def sec : P SecM := do
  let n ← num; let e ← num; let u ← num
  let noazi ← counted num
  let rows ← counted (do let az ← hex; let vs ← counted num; pure (az, vs))
  pure ⟨n, e, u, noazi, rows⟩

def freq : P FreqM := do
  let code ← hex
  let body ← sec
  match (← tok) with
  | "-" => pure ⟨code, body, Option.none⟩
  | "r" => do let r ← sec; pure ⟨code, body, some r⟩
  | _ => failure

def inert : P Inert := do
  match (← tok) with
  | "c" => do let t ← hex; pure (.comment t)
  | "m" => do let a ← hex; let b ← hex; let c ← hex; let d ← hex; pure (.meth a b c d)
  | "s" => do let c ← hex; pure (.sinex c)
  | "b" => pure .blank
  | _ => failure

def ant : P AntM := do
  let typ ← hex; let code ← hex; let sat ← hex; let cospar ← hex
  let dazi ← num; let z1 ← num; let z2 ← num; let dz ← num
  let nf ← hex
  let vf ← date; let vu ← date
  let freqs ← counted freq
  let rms ← counted (do let c ← hex; let b ← sec; pure (c, b))
  let deco ← counted (counted inert)
  pure ⟨typ, code, sat, cospar, dazi, z1, z2, dz, nf, vf, vu, freqs, rms, deco⟩

def file : P FileM := do
  let ver ← hex; let sys ← hex; let pcv ← hex; let ra ← hex; let rs ← hex
  let c1 ← counted hex; let c2 ← counted hex
  let ants ← counted ant
  let tr ← counted inert
  pure ⟨ver, sys, pcv, ra, rs, c1, c2, ants, tr⟩

end Wire

def handle : List String → Option String
  | ["c15", "parse", h] => do
    let text ← decodeHex? h
    match parseText text.toList with
    | .ok s => pure (showState s)
    | .error e => pure (showErr e)
  | "c15" :: "render" :: recs => do
    let rs ← recs.mapM parseRecord?
    let text ← Midgard.Spec.Antex14.renderFile rs
    pure (hx text)
  | "c15" :: "model" :: toks => do
    let (F, rest) ← Wire.file toks
    if !rest.isEmpty then failure
    let text := Midgard.Spec.AntexFile.render F
    let parsed := parseText text
    let thm := match parsed, Midgard.Spec.AntexFile.calibrations F with
      | .ok a, .ok b => decide (a = b)
      | .error a, .error b => decide (a = b)
      | _, _ => false
    let b (x : Bool) : String := if x then "1" else "0"
    pure (s!"wf={b F.wf} thm={b thm} text={hx text} ;; " ++
      (match parsed with
       | .ok s => showState s
       | .error e => showErr e))
  | _ => none

end Driver.C15

def main : IO Unit := Driver.run Driver.C15.handle
