import Driver.Loop

/-! Driver for C04: placeholder until the model is written. -/
namespace Driver.C04

def handle : List String → Option String
  | _ => none

end Driver.C04

def main : IO Unit := Driver.run Driver.C04.handle
