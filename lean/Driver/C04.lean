import Driver.Loop
import Midgard.Model.TimeArrayHist
import Midgard.Generated.TimeArrayMech

/-! Driver for C04: one line = one whole history.
`c04 run <clear:0|1|src> F:<base>:<n>:<cls>:<fmt> … | <op> <op> … [| i:j i:j …]`  (ops are `:`-separated tokens)
`src` takes the mechanism flag read off the source by the translator.
Answer: `<out>|<out>… # <hooks>|<hooks>… # <eq><samehashkey> …` — what every operation returned, the `__array_finalize__`
calls it made, and for every requested pair of heap positions whether the arrays are `==` and whether everything
`__hash__` reads agrees (both by the attribute lists generated from the source). -/
namespace Driver.C04
open Midgard.Proto Midgard.TimeArrayHist

def optInt? (s : String) : Option (Option Int) := if s = "_" then some none else (s.toInt?).map some

def parseSel? : List String → Option Sel
  | ["s", a, b, c] => do
    let a ← optInt? a; let b ← optInt? b; let c ← c.toInt?
    pure (.slice a b c)
  | ["m", bits] => some (.mask (bits.toList.map (· == '1')))
  | ["m"] => some (.mask [])
  | ["i", l] => (parseInts? l).map .idx
  | _ => none

def parseOp? (tok : String) : Option Op :=
  match tok.splitOn ":" with
  | ["getint", t, i] => do pure (.getInt (← t.toNat?) (← i.toInt?))
  | "getsel" :: t :: rest => do pure (.getSel (← t.toNat?) (← parseSel? rest))
  | ["view", t] => do pure (.view (← t.toNat?))
  | ["copy", t] => do pure (.copy (← t.toNat?))
  | "subset" :: t :: rest => do pure (.subset (← t.toNat?) (← parseSel? rest))
  | ["insert", a, p, b] => do pure (.insert (← a.toNat?) (← p.toInt?) (← b.toNat?))
  | ["scale", t, c] => do pure (.scale (← t.toNat?) (← c.toNat?))
  | ["getbad", t, "n", i] => do pure (.getBad (← t.toNat?) (.int (← i.toInt?)))
  | "getbad" :: t :: rest => do pure (.getBad (← t.toNat?) (.sel (← parseSel? rest)))
  | ["getell", t, i] => do pure (.getEll (← t.toNat?) (← i.toInt?))
  | ["same", t] => do pure (.same (← t.toNat?))
  | ["refused", t, f] => do
    let f ← match f with
      | "flatten" => some Refused.flatten | "astype" => some Refused.astype
      | "unique" => some Refused.unique | "sort" => some Refused.sort | _ => none
    pure (.refused (← t.toNat?) f)
  | ["concat", ts, ap] => do
    pure (.concat (← (← parseInts? ts).mapM (fun i => if i < 0 then none else some i.toNat)) (← parseBool? ap))
  | ["iter", t] => do pure (.iter (← t.toNat?))
  | ["set", t] => do pure (.set (← t.toNat?))
  | _ => none

def showNats (l : List Nat) : String := showList toString l

def showObs (o : Obs) : String :=
  s!"{showBool o.scalar}:{showNats o.vals}:{showNats o.jd1}:{showNats o.jd2}:{o.cls}:{o.fmt}"

def showOut : Out → String
  | .arr o => "A:" ++ showObs o
  | .many os => "M:" ++ ";".intercalate (os.map showObs)
  | .error => "E"
  | .plain v => "P:" ++ showNats v

def showHook : Hook → String
  | .plain => "P"
  | .parent t ho => s!"T{t}{if ho then "h" else "n"}"

def showHooks (l : List Hook) : String := if l.isEmpty then "-" else ",".intercalate (l.map showHook)

def parsePair? (tok : String) : Option (Nat × Nat) :=
  match tok.splitOn ":" with
  | [i, j] => do pure (← i.toNat?, ← j.toNat?)
  | _ => none

open Midgard.Generated.TimeArrayMech in
def showPair (h : Heap) (p : Nat × Nat) : Option String := do
  let a ← h[p.1]?
  let b ← h[p.2]?
  pure (showBool (pyEq eqShapeGuard eqCompares a b) ++ showBool (hashKey hashReads a == hashKey hashReads b))

def parseFresh? (tok : String) : Option Arr :=
  match tok.splitOn ":" with
  | ["F", b, n] => do pure (fresh (← b.toNat?) (← n.toNat?))
  | ["F", b, n, c, f] => do pure (fresh (← b.toNat?) (← n.toNat?) (← c.toNat?) (← f.toNat?))
  | _ => none

def handle : List String → Option String
  | "c04" :: "run" :: clear :: rest => do
    let clear ← if clear = "src" then some Midgard.Generated.TimeArrayMech.clearsSideChannel else parseBool? clear
    let (fr, ops) := rest.span (· ≠ "|")
    let heap ← fr.mapM parseFresh?
    let (ops, pairs) := (ops.drop 1).span (· ≠ "|")
    let ops ← ops.mapM parseOp?
    let pairs ← (pairs.drop 1).mapM parsePair?
    let r := Midgard.TimeArrayHist.run clear heap ops
    let eqs ← pairs.mapM (showPair r.heap)
    pure ("|".intercalate (r.outs.map showOut) ++ " # " ++ "|".intercalate (r.hooks.map showHooks) ++ " # " ++ " ".intercalate eqs)
  | _ => none

end Driver.C04

def main : IO Unit := Driver.run Driver.C04.handle
