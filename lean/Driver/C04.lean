import Driver.Loop
import Midgard.Model.TimeArrayHist
import Midgard.Generated.TimeArrayMech

/-! Driver for C04: one line = one whole history.
`c04 run <clear:0|1|src> F:<base>:<n> … | <op> <op> …`  (ops are `:`-separated tokens)
`src` takes the mechanism flag read off the source by the translator. -/
namespace Driver.C04
open Midgard.Proto Midgard.TimeArrayHist

def optInt? (s : String) : Option (Option Int) := if s = "_" then some none else (s.toInt?).map some

def parseSel? : List String → Option Sel
  | ["s", a, b, c] => do
    let a ← optInt? a; let b ← optInt? b; let c ← c.toInt?
    pure (.slice a b c)
  | ["m", bits] => some (.mask (bits.toList.map (· == '1')))
  | ["m"] => some (.mask [])
  | ["i", l] => (parseInts? l).map .idx
  | _ => none

def parseOp? (tok : String) : Option Op :=
  match tok.splitOn ":" with
  | ["getint", t, i] => do pure (.getInt (← t.toNat?) (← i.toInt?))
  | "getsel" :: t :: rest => do pure (.getSel (← t.toNat?) (← parseSel? rest))
  | ["view", t] => do pure (.view (← t.toNat?))
  | ["copy", t] => do pure (.copy (← t.toNat?))
  | "subset" :: t :: rest => do pure (.subset (← t.toNat?) (← parseSel? rest))
  | ["insert", a, p, b] => do pure (.insert (← a.toNat?) (← p.toInt?) (← b.toNat?))
  | ["scale", t] => do pure (.scale (← t.toNat?))
  | ["iter", t] => do pure (.iter (← t.toNat?))
  | ["set", t] => do pure (.set (← t.toNat?))
  | _ => none

def showNats (l : List Nat) : String := showList toString l

def showObs (o : Obs) : String :=
  s!"{showBool o.scalar}:{showNats o.vals}:{showNats o.jd1}:{showNats o.jd2}"

def showOut : Out → String
  | .arr o => "A:" ++ showObs o
  | .many os => "M:" ++ ";".intercalate (os.map showObs)
  | .error => "E"

def parseFresh? (tok : String) : Option Arr :=
  match tok.splitOn ":" with
  | ["F", b, n] => do pure (fresh (← b.toNat?) (← n.toNat?))
  | _ => none

def handle : List String → Option String
  | "c04" :: "run" :: clear :: rest => do
    let clear ← if clear = "src" then some Midgard.Generated.TimeArrayMech.clearsSideChannel else parseBool? clear
    let (fr, ops) := rest.span (· ≠ "|")
    let heap ← fr.mapM parseFresh?
    let ops ← (ops.drop 1).mapM parseOp?
    pure ("|".intercalate ((Midgard.TimeArrayHist.run clear heap ops).2.map showOut))
  | _ => none

end Driver.C04

def main : IO Unit := Driver.run Driver.C04.handle
