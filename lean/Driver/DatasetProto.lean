import Midgard.Core.Proto
import Midgard.Model.DatasetOps
import Midgard.Model.DatasetRecords

/-!
Driver for C09.  One line = one whole history:

  `c09 run <units> <time conversions | -> <op> | <op> | …`

answers, per operation, `ok:<out>:<observation of the whole world>` or `ERR:<enum>` (the history
stops at the first error), joined by ` || `.

Encodings (no blanks inside a token): rows `r;r;r` (`[]` if none), a row `s,s,s`, a scalar
`n<rat>` | `nan` | `t<hex>` | `b0` | `b1`; an `obj` may end with the tag `<scale>/<format>` of a time; a path `a.b.c`; a reference `o<k>` | `f<d>:<path>` | `-`;
an index `m0110` | `i1,-2`; the unit table `from>to=rat,…` or `-`; `diff <d> <e> <r> <index fields a,b | -> <copy_self 0|1>
<copy_other 0|1>` puts `ds[d].difference(ds[e], …)` into slot `r`.
-/
namespace Driver.DS
open Midgard.Proto Midgard.Dataset

def parseKind? : String → Option Kind
  | "bool" => some .bool | "float" => some .float | "text" => some .text
  | "time" => some .time | "time_delta" => some .timeDelta | "sigma" => some .sigma
  | "position" => some .position | "posvel" => some .posvel
  | "position_delta" => some .positionDelta | "posvel_delta" => some .posvelDelta
  | _ => none

def showKind : Kind → String
  | .bool => "bool" | .float => "float" | .text => "text" | .time => "time"
  | .timeDelta => "time_delta" | .sigma => "sigma" | .position => "position" | .posvel => "posvel"
  | .positionDelta => "position_delta" | .posvelDelta => "posvel_delta"

def parseScalar? (s : String) : Option Scalar :=
  if s == "nan" then some .nan
  else if s == "b0" then some (.bool false)
  else if s == "b1" then some (.bool true)
  else if s.startsWith "n" then (parseRat? (s.drop 1).toString).map .num
  else if s.startsWith "t" then (decodeHex? (s.drop 1).toString).map .txt
  else none

def showScalar : Scalar → String
  | .num q => "n" ++ showRat q
  | .nan => "nan"
  | .txt s => "t" ++ encodeHex s
  | .bool b => if b then "b1" else "b0"

def parseRow? (s : String) : Option Row := (s.splitOn ",").mapM parseScalar?
def parseRows? (s : String) : Option (List Row) :=
  if s == "[]" then some [] else (s.splitOn ";").mapM parseRow?
def showRow (r : Row) : String := ",".intercalate (r.map showScalar)
def showRows (rs : List Row) : String := if rs.isEmpty then "[]" else ";".intercalate (rs.map showRow)

def parsePath? (s : String) : Option Path := if s.isEmpty then none else some (s.splitOn ".")

def parseRef? (s : String) : Option (Option Ref) :=
  if s == "-" then some none
  else if s.startsWith "o" then ((s.drop 1).toString.toNat?).map (fun k => some (.tab k))
  else if s.startsWith "f" then
    match (s.drop 1).toString.splitOn ":" with
    | [d, p] => match d.toNat?, parsePath? p with
      | some d, some p => some (some (.fld d p))
      | _, _ => none
    | _ => none
  else none

def parseIndex? (s : String) : Option Index :=
  if s.startsWith "m" then
    ((s.drop 1).toString.toList.mapM (fun c => if c == '1' then some true else if c == '0' then some false else none)).map .mask
  else if s == "i" then some (.ints [])
  else if s.startsWith "i" then (((s.drop 1).toString.splitOn ",").mapM String.toInt?).map .ints
  else none

def parseUnits? (s : String) : Option Units :=
  if s == "-" then some {} else
  ((s.splitOn ",").mapM (fun (e : String) => match e.splitOn "=" with
    | [ft, q] => match ft.splitOn ">", parseRat? q with
      | [f, t], some q => some (f, t, q)
      | _, _ => none
    | _ => none)).map (fun t => { table := t })

/-- the time conversion table: `<from tag>><to tag>><row>=<row>&…` or `-` -/
def parseConv? (s : String) : Option Conv :=
  if s == "-" then some [] else
  (s.splitOn "&").mapM (fun (e : String) => match e.splitOn "=" with
    | [k, v] => match k.splitOn ">", parseRow? v with
      | [f, t, r], some v => (parseRow? r).map (fun r => ((f, t, r), v))
      | _, _ => none
    | _ => none)

def parseOptStr (s : String) : Option String := if s == "-" then none else some s

def parseFilters? (s : String) : Option (List (Path × Scalar)) :=
  if s == "-" then some [] else
  (s.splitOn "&").mapM (fun e => match e.splitOn "=" with
    | [p, v] => match parsePath? p, parseScalar? v with
      | some p, some v => some (p, v)
      | _, _ => none
    | _ => none)

def parseNats? (s : String) : Option (List Nat) :=
  if s == "-" then some [] else (s.splitOn ",").mapM String.toNat?

def parseOp? : List String → Option Op
  | ["new", d, n] => do pure (.new (← d.toNat?) (← n.toNat?))
  | ["obj", k, ndim, cols, rows, o, r] => do
    pure (.obj (← parseKind? k) (← ndim.toNat?) (← cols.toNat?) (← parseRows? rows) (← parseRef? o) (← parseRef? r) "")
  | ["obj", k, ndim, cols, rows, o, r, tag] => do
    pure (.obj (← parseKind? k) (← ndim.toNat?) (← cols.toNat?) (← parseRows? rows) (← parseRef? o) (← parseRef? r) tag)
  | ["add", d, p, k, v, u, l] => do
    let v ← parseRef? v
    pure (.add (← d.toNat?) (← parsePath? p) (← parseKind? k) (← v) (parseOptStr u) (← l.toNat?))
  | ["addcoll", d, p, l] => do pure (.addColl (← d.toNat?) (← parsePath? p) (← l.toNat?))
  | ["del", d, p] => do pure (.del (← d.toNat?) (← parsePath? p))
  | ["subset", d, i] => do pure (.subset (← d.toNat?) (← parseIndex? i))
  | ["extend", d, e] => do pure (.extend (← d.toNat?) (← e.toNat?))
  | ["merge", d, es, sb] => do
    pure (.merge (← d.toNat?) (← parseNats? es) (if sb == "-" then none else parsePath? sb))
  | ["filter", d, fl] => do pure (.filterSubset (← d.toNat?) (← parseFilters? fl))
  | ["unique", d, p] => do pure (.unique (← d.toNat?) (← parsePath? p))
  | ["diff", d, e, r, ib, cs, co] => do
    pure (.difference (← d.toNat?) (← e.toNat?) (← r.toNat?) (if ib == "-" then none else some (ib.splitOn ","))
      (cs == "1") (co == "1"))
  | _ => none

/-! ### Observation: the whole world with objects numbered in first-visit order -/

def showOptUnit : Option (List String) → String
  | none => "-"
  | some us => "+".intercalate us

/-- render object `o`; `seen` is the list of objects already numbered -/
def renderObj (h : Heap) : Nat → Nat → List Nat → String × List Nat
  | 0, _, seen => ("?", seen)
  | fuel + 1, o, seen =>
    match seen.idxOf? o with
    | some i => (s!"#{i}", seen)
    | none =>
      let k := seen.length
      let seen := seen ++ [o]
      match h[o]? with
      | none => ("!", seen)
      | some ob =>
        let (so, seen) := match ob.other with
          | none => ("-", seen)
          | some a => renderObj h fuel a seen
        let (sr, seen) := match ob.refPos with
          | none => ("-", seen)
          | some a => renderObj h fuel a seen
        (s!"#{k}\{{showKind ob.kind};{ob.ndim};{ob.cols};{showRows ob.rows}|o={so}|r={sr}{if ob.tag.isEmpty then "" else "|g=" ++ ob.tag}}", seen)

def renderField (h : Heap) : Field → List Nat → String × List Nat
  | .leaf n k o no u l, seen =>
    let (so, seen) := renderObj h (h.length + 1) o seen
    (s!"L({n};{showKind k};{no};{showOptUnit u};{l};{so})", seen)
  | .coll n no l fs, seen =>
    let (sf, seen) := renderFields fs seen
    (s!"C({n};{no};{l};[{sf}])", seen)
where renderFields : List Field → List Nat → String × List Nat
  | [], seen => ("", seen)
  | f :: fs, seen =>
    let (a, seen) := renderField h f seen
    let (b, seen) := renderFields fs seen
    (if b.isEmpty then a else a ++ "," ++ b, seen)

def renderWorld (w : W) : String :=
  let rec go : List (Option DS) → Nat → List Nat → List String
    | [], _, _ => []
    | none :: rest, i, seen => go rest (i + 1) seen
    | some d :: rest, i, seen =>
      let (sf, seen) := renderField.renderFields w.heap d.fields seen
      s!"D{i}({d.numObs};[{sf}])" :: go rest (i + 1) seen
  "".intercalate (go w.ds 0 [])

def showErr : Err → String
  | .index => "index" | .value => "value" | .unit => "unit" | .attribute => "attribute"
  | .fieldExists => "fieldExists" | .fuel => "fuel" | .dangling => "dangling" | .unsupported => "unsupported"

def showOut : Out → String
  | .none => "-"
  | .mask m => "m" ++ String.ofList (m.map (fun b => if b then '1' else '0'))
  | .vals v => "v" ++ showRow v

/-- split the token list at the `|` tokens -/
def splitOps (ts : List String) : List (List String) :=
  let (cur, acc) := ts.foldl (fun (p : List String × List (List String)) t =>
    if t == "|" then ([], p.2 ++ [p.1]) else (p.1 ++ [t], p.2)) ([], [])
  (acc ++ [cur]).filter (fun l => !l.isEmpty)

/-- For an `extend d e` whose two datasets consist of plain columns only (bool / float / text at any depth):
the columns of the **list-of-records `extend`** (`aExtendFields`, the heap-free specification) evaluated on the
state *before* the operation, as `x<dotted name>=<rows>/…`; the harness compares them with the dataset the real
code produced.  `-` otherwise. -/
def recordsOut (w : W) : Op → Option String
  | .extend d e =>
    match w.getDs d, w.getDs e with
    | .ok x, .ok y =>
      if Field.plain.plainL x.fields && Field.plain.plainL y.fields then
        match aExtendFields w.units x.numObs y.numObs (absField.absFields w.heap x.fields) (absField.absFields w.heap y.fields) with
        | some cols => some ("x" ++ "/".intercalate ((aLeaves.aLeavesL cols).map (fun p => p.1 ++ "=" ++ showRows p.2)))
        | none => some "x!"
      else
        -- other kinds: is this the situation of the listed finding (one array under a name the other dataset lacks and
        -- under a name it has)?  `s1` / `s0`, compared with the same question asked of the real datasets
        some (if splitSharing x.fields y.fields then "s1" else "s0")
    | _, _ => none
  | _ => none

/-- the scale / format tag of a top-level field (`""` if it is no time) -/
def fieldTag (h : Heap) (x : DS) (n : String) : String :=
  match getField x.fields n with
  | some (.leaf _ _ o _ _ _) => (h[o]?.map (·.tag)).getD ""
  | _ => ""

/-- outside the modelled fragment of `difference`: index fields that are times of different scale / format in the
two datasets (their values are not comparable: `intersect1d` compares datetimes with floats) -/
def indexTagsDiffer (w : W) : Op → Bool
  | .difference d e _ (some names) _ _ =>
    match w.getDs d, w.getDs e with
    | .ok x, .ok y => names.any (fun n => fieldTag w.heap x n != fieldTag w.heap y n)
    | _, _ => false
  | _ => false

/-- an operation prefixed with the token `q` (set-up) answers `ok:-:~` without rendering the world -/
def runOps (w : W) : List (List String) → List String
  | [] => []
  | ts :: rest =>
    let (quiet, ts) := match ts with
      | "q" :: r => (true, r)
      | r => (false, r)
    match parseOp? ts with
    | none => ["bad-op"]
    | some op =>
      if indexTagsDiffer w op then ["ERR:unsupported"] else
      match step w op with
      | .error e => ["ERR:" ++ showErr e]
      | .ok (w', out) =>
        (if quiet then "ok:-:~" else s!"ok:{(recordsOut w op).getD (showOut out)}:{renderWorld w'}") :: runOps w' rest

end Driver.DS
