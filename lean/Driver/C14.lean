import Driver.Loop
import Midgard.Model.SinexFile
import Midgard.Generated.SinexBlocks
import Midgard.Spec.Sinex202

/-! Driver for C14 (SINEX).

    c14 base <i,j,k…|all> <hexfile>     base-class parser declaring the listed `baseBlocks` (in that order)
    c14 site|disc|events|tro|tms <hexfile>
    c14 ws <hexline>…                                 whitespace mode of `SinexTmsParser.parse_lines`
    c14 cut <starts> <total> <hexline>…               fixed-width cutting + autostrip alone
    c14 lines <table> <blockIdx> <total> <hexline>…   `parse_lines` on single lines
    c14 epoch <hex> / c14 cell <conv> <hex>           one converter

Answers are JSON (text hex-encoded, numbers as exact `num/den` strings). `RAISES` = the model says
the real code raises. -/
namespace Driver.C14
open Midgard.Proto Midgard.Text Midgard.Sinex Midgard.Generated.Sinex

def hx (s : Str) : String := "\"" ++ encodeHex (asString s) ++ "\""
def hxs (s : String) : String := "\"" ++ encodeHex s ++ "\""

def showCell : Cell → String
  | .str s => "{\"s\":" ++ hx s ++ "}"
  | .int i => "{\"i\":\"" ++ toString i ++ "\"}"
  | .flt (some q) => "{\"f\":\"" ++ showRat q ++ "\"}"
  | .flt Option.none => "{\"f\":\"nan\"}"
  | .none => "null"
  | .dt o s => "{\"d\":[" ++ toString o ++ "," ++ toString s ++ "]}"
  | .tup l => "{\"t\":[" ++ ",".intercalate (l.map hx) ++ "]}"

partial def showVal : Val → String
  | .cell c => showCell c
  | .col cs => "[" ++ ",".intercalate (cs.map showCell) ++ "]"
  | .mat m => "{\"m\":[" ++ ",".intercalate (m.map fun r => "[" ++ ",".intercalate (r.map fun q => "\"" ++ showRat q ++ "\"") ++ "]") ++ "]}"
  | .list vs => "[" ++ ",".intercalate (vs.map showVal) ++ "]"
  | .dict kvs => "{\"o\":[" ++ ",".intercalate (kvs.map fun (k, v) => "[" ++ hxs k ++ "," ++ showVal v ++ "]") ++ "]}"

def showResult (hdr : Row) (data : Val) : String :=
  "{\"meta\":" ++ showVal (metaVal hdr) ++ ",\"data\":" ++ showVal data ++ "}"

def decodeText (h : String) : Option Str := (decodeHex? h).map ofString

def pickBlocks (sel : String) : Option (List BlockDef) :=
  if sel = "all" then some baseBlocks
  else do
    let idx ← parseList? (fun s => s.toNat?) sel
    idx.mapM fun i => baseBlocks[i]?

def sortTop (d : List (String × Val)) : List (String × Val) :=
  d.mergeSort fun a b => !(b.1 < a.1)

def showRes : Option Result → String
  | Option.none => "RAISES"
  | some r => showResult r.hdr r.data

def showResSorted : Option Result → String
  | some ⟨h, .dict d⟩ => showResult h (.dict (sortTop d))
  | r => showRes r

def tableOf : String → Option (List BlockDef)
  | "base" => some baseBlocks | "site" => some siteBlocks | "disc" => some discBlocks
  | "events" => some eventsBlocks | "tro" => some troBlocks | "tms" => some tmsBlocks
  | _ => Option.none

def convOf : String → Option Conv
  | "epoch" => some .epoch | "exponent" => some .exponent | "dms2deg" => some .dms2deg
  | "yyyydddsssss" => some .yyyydddsssss | "tuple" => some .tuple | "none" => some .none | "utf8" => some .utf8
  | _ => Option.none

def showKind : Midgard.Spec.Sinex.Kind → String
  | .text => "text" | .int => "int" | .flt => "flt" | .epoch => "epoch" | .exp => "exp"
  | .dms => "dms" | .tup => "tup" | .epoch4 => "epoch4"

def showSFields (fs : List Midgard.Spec.Sinex.SField) : String :=
  "[" ++ ",".intercalate (fs.map fun f =>
    "[\"" ++ f.name ++ "\"," ++ toString f.start ++ "," ++ toString f.width ++ ",\"" ++ showKind f.kind ++ "\"]") ++ "]"

def showSBlocks (bs : List Midgard.Spec.Sinex.SBlock) : String :=
  "[" ++ ",".intercalate (bs.map fun b => "[\"" ++ b.marker ++ "\"," ++ showSFields b.fields ++ "]") ++ "]"

def specJson : String :=
  "{\"header\":" ++ showSFields Midgard.Spec.Sinex.header ++ ",\"official\":" ++ showSBlocks Midgard.Spec.Sinex.official ++
  ",\"unofficial\":" ++ showSBlocks Midgard.Spec.Sinex.unofficial ++ ",\"tro\":" ++ showSBlocks Midgard.Spec.Sinex.tro ++ "}"

def handle : List String → Option String
  | ["c14", "spec"] => some specJson
  | ["c14", "markers"] => some (",".intercalate (baseBlocks.map (·.marker)))
  | ["c14", "base", sel, h] => do
    let bs ← pickBlocks sel; let t ← decodeText h
    pure (showRes (parseBaseFile baseHeader bs t))
  | ["c14", "site", h] => do pure (showRes (parseSiteFile siteHeader siteBlocks (← decodeText h)))
  | ["c14", "disc", h] => do pure (showRes (parseDiscFile discHeader discBlocks (← decodeText h)))
  | ["c14", "events", h] => do pure (showRes (parseDiscFile eventsHeader eventsBlocks (← decodeText h)))
  | ["c14", "tro", h] => do pure (showResSorted (parseTroFile troHeader troBlocks (← decodeText h)))
  | ["c14", "tms", h] => do pure (showRes (parseTmsFile tmsHeader tmsBlocks (← decodeText h)))
  | "c14" :: "ws" :: hs => do
    -- whitespace mode of genfromtxt: the token rows (`RAISES` when the rows are ragged)
    let ls ← hs.mapM decodeText
    pure (match wsRows ls with
      | Option.none => "RAISES"
      | some rows => "[" ++ ",".intercalate (rows.map fun r => "[" ++ ",".intercalate (r.map hx) ++ "]") ++ "]")
  | "c14" :: "cut" :: starts :: total :: hs => do
    -- fixed-width cutting alone: the stripped pieces of every line for the given start columns
    let st ← parseList? (fun s => s.toNat?) starts; let total ← total.toNat?
    let ls ← hs.mapM decodeText
    let fs : List FieldDef := st.map fun c => ⟨"f" ++ toString c, c, .obj, .none⟩
    pure ("[" ++ ",".intercalate (((ls.filter fun l => !(dropComment l).isEmpty).map (cutLine fs total)).map fun r =>
      "[" ++ ",".intercalate (r.map hx) ++ "]") ++ "]")
  | "c14" :: "lines" :: tbl :: bi :: total :: hs => do
    let T ← tableOf tbl; let b ← T[← bi.toNat?]?; let total ← total.toNat?
    let ls ← hs.mapM decodeText
    pure (showVal (.list ((parseLines b.fields total ls).map rowVal)))
  | ["c14", "cell", c, dt, h] => do
    let c ← convOf c; let t ← decodeText h
    let d : DType := if dt = "f8" then .f8 else if dt = "i8" then .i8
      else if dt.startsWith "U" then .u ((dt.drop 1).toNat?.getD 0) else .obj
    pure (showCell (convertCell ⟨"x", 0, d, c⟩ t))
  | _ => Option.none

end Driver.C14

def main : IO Unit := Driver.run Driver.C14.handle
