import Driver.Loop

/-! Driver for C14: placeholder until the model is written. -/
namespace Driver.C14

def handle : List String → Option String
  | _ => none

end Driver.C14

def main : IO Unit := Driver.run Driver.C14.handle
