import Driver.Loop
import Midgard.Model.TimeFormats
import Midgard.Generated.TimeScaleTables

/-! Driver for C02: the time-format model (decimal year uses the regenerated TAI-UTC table).  `fromjds` / `tojds` answer
through `fromJdsF` / `toJdsF` of `Model/TimeFormats.lean` (the functions `roundtrip_all` / `same_instant` are about),
`shaped` through `toJdsShaped`, `wsin` through `wsToJdsIn`. -/
namespace Driver.C02
open Midgard.Proto Midgard.TimeArith Midgard.TimeFormat
open Midgard.Generated.TimeScale (taiutc consts)

def parseScale? : String → Option Scale
  | "utc" => some .utc | "tai" => some .tai | "gps" => some .gps
  | "tt" => some .tt | "tcg" => some .tcg | _ => none

def fmt? : String → Option Fmt
  | "jd" => some .jd | "mjd" => some .mjd | "datetime" => some .datetime | "gps_ws" => some .gps_ws
  | "gps_seconds" => some .gps_seconds | "jyear" => some .jyear | "decimalyear" => some .decimalyear
  | "isot" => some (.text .isot) | "iso" => some (.text .iso) | "yday" => some (.text .yday) | "date" => some (.text .date)
  | "yydddsssss" => some (.text .yyddd) | "yyyydddsssss" => some (.text .yyyyddd) | _ => none

def showJD (j : JD) : String := s!"{showRat j.jd1} {showRat j.jd2}"

/-- a value of format `F` from its protocol token(s) -/
def val? (F : Fmt) (v v2 : String) : Option Val :=
  match F with
  | .datetime => (parseInt? v).map .dt
  | .gps_ws => do let a ← parseRat? v; let b ← parseRat? v2; pure (.ws ⟨a, b, 0⟩)
  | .text _ => (decodeHex? v).map fun s => .text s.toList
  | _ => (parseRat? v).map .num

def showVal : Val → String
  | .num x => showRat x
  | .dt d => toString d
  | .ws w => s!"{showRat w.week} {showRat w.seconds} {showRat w.day}"
  | .text s => encodeHex (String.ofList s)

def showOut : Option JdsOut → String
  | none => "err"
  | some (.one j) => "one " ++ showJD j
  | some (.many js) => "many" ++ String.join (js.map fun j => " " ++ showJD j)

def toJds (F : Fmt) (scale : Scale) (v : String) (v2 : String) : Option String := do
  -- the two-part inputs (val, val2) of jd, mjd, datetime
  if v2 ≠ "-" ∧ F ≠ .gps_ws then
    match F with
    | .jd => let a ← parseRat? v; let b ← parseRat? v2; pure (showJD (jdToJds a b))
    | .mjd => let a ← parseRat? v; let b ← parseRat? v2; pure (showJD (mjdToJds a b))
    | .datetime => let a ← parseInt? v; let b ← parseInt? v2; pure (showJD (dtToJds (a + b)))
    | _ => pure "err"     -- `val2 should be None`
  else if F = .decimalyear then
    -- the constructor with every refusal (`dyConstruct`; `dyConstruct_ok`: an accepted value is what `toJdsF` gives)
    let x ← parseRat? v
    match dyConstruct taiutc consts.tol scale x with
    | .ok j => pure (showJD j)
    | .valueError => pure "err"
    | .overflow => pure "overflow"
  else
    let x ← val? F v v2
    match toJdsF taiutc consts.tol F scale x with
    | some j => pure (showJD j)
    | none => pure "err"

def fromJds (F : Fmt) (scale : Scale) (j : JD) : String :=
  match fromJdsF taiutc consts.tol F scale j with
  | some x => showVal x
  | none => "err"

/-- tokens `k x₁ … xₙ` (`k` = scalar | list | ndarray), each `xᵢ` one value token (gps_ws: `week,seconds`) -/
def shaped? (F : Fmt) (toks : List String) : Option (Shaped Val) :=
  let one (t : String) : Option Val :=
    match F with
    | .gps_ws => match t.splitOn "," with
      | [a, b] => val? F a b
      | _ => none
    | _ => val? F t "-"
  match toks with
  | ["scalar", t] => (one t).map .scalar
  | "list" :: ts => (ts.mapM one).map .list
  | "ndarray" :: ts => (ts.mapM one).map .ndarray
  | _ => none

def pairs? (ts : List String) : Option (List (Rat × Rat)) :=
  ts.mapM fun t => match t.splitOn "," with
    | [a, b] => do let x ← parseRat? a; let y ← parseRat? b; pure (x, y)
    | _ => none

def rows? (ts : List String) : Option (List (List Rat)) :=
  ts.mapM fun t => (t.splitOn ",").mapM parseRat?

def wsIn? : List String → Option WsIn
  | ["weeksec", "scalar", t] => (pairs? [t]).bind fun l => l.head?.map fun p => .weeksec (.scalar p)
  | "weeksec" :: "ndarray" :: ts => (pairs? ts).map fun l => .weeksec (.ndarray l)
  | ["pair", "scalar", t] => (pairs? [t]).bind fun l => l.head?.map fun p => .pair (.scalar p)
  | "pair" :: "list" :: ts => (pairs? ts).map fun l => .pair (.list l)
  | "pair" :: "ndarray" :: ts => (pairs? ts).map fun l => .pair (.ndarray l)
  | "arr1" :: ts => (ts.mapM parseRat?).map .arr1
  | "arr2" :: n :: ts => do let k ← n.toNat?; let r ← rows? ts; pure (.arr2 k r)
  | ["other"] => some .other
  | _ => none

def handle : List String → Option String
  | ["c02", "tojds", fmt, scale, v, v2] => do
    let s ← parseScale? scale; let F ← fmt? fmt
    toJds F s v v2
  | ["c02", "fromjds", fmt, scale, a, b] => do
    let s ← parseScale? scale; let F ← fmt? fmt; let a ← parseRat? a; let b ← parseRat? b
    pure (fromJds F s ⟨a, b⟩)
  | ["c02", "jdintfrac", a, b] => do
    let a ← parseRat? a; let b ← parseRat? b
    pure s!"{showRat (jdInt ⟨a, b⟩)} {showRat (jdFrac ⟨a, b⟩)}"
  | ["c02", "year2days", scale, y] => do
    let s ← parseScale? scale; let y ← parseInt? y
    pure (showRat (year2days taiutc consts.tol y s))
  | "c02" :: "shaped" :: fmt :: scale :: toks => do
    let s ← parseScale? scale; let F ← fmt? fmt; let v ← shaped? F toks
    pure (showOut (toJdsShaped taiutc consts.tol F s v))
  | "c02" :: "wsin" :: scale :: toks => do
    let s ← parseScale? scale; let i ← wsIn? toks
    pure (showOut (wsToJdsIn s i))
  | ["c02", "utctext", fmt, a, b] => do
    -- the text of the UTC label of a TAI epoch (C01's `tai2utc`, then the text format)
    let F ← fmt? fmt; let a ← parseRat? a; let b ← parseRat? b
    let u := Midgard.TimeScale.tai2utc taiutc consts.tol ⟨a, b⟩
    pure (showJD u ++ " " ++ fromJds F .utc u)
  | _ => none

end Driver.C02

def main : IO Unit := Driver.run Driver.C02.handle
