import Driver.Loop

/-! Driver for C02: placeholder until the model is written. -/
namespace Driver.C02

def handle : List String → Option String
  | _ => none

end Driver.C02

def main : IO Unit := Driver.run Driver.C02.handle
