import Driver.Loop
import Midgard.Model.TimeText
import Midgard.Generated.TimeScaleTables

/-! Driver for C02: the time-format model (decimal year uses the regenerated TAI-UTC table). -/
namespace Driver.C02
open Midgard.Proto Midgard.TimeArith Midgard.TimeFormat
open Midgard.Generated.TimeScale (taiutc consts)

def parseScale? : String → Option Scale
  | "utc" => some .utc | "tai" => some .tai | "gps" => some .gps
  | "tt" => some .tt | "tcg" => some .tcg | _ => none

def textFmt? : String → Option TextFmt
  | "isot" => some .isot | "iso" => some .iso | "yday" => some .yday | "date" => some .date
  | "yydddsssss" => some .yyddd | "yyyydddsssss" => some .yyyyddd | _ => none

def showJD (j : JD) : String := s!"{showRat j.jd1} {showRat j.jd2}"

def toJds (fmt : String) (scale : Scale) (v : String) (v2 : String) : Option String := do
  match fmt with
  | "jd" =>
    let a ← parseRat? v; let b ← if v2 = "-" then some 0 else parseRat? v2
    pure (showJD (jdToJds a b))
  | "mjd" =>
    let a ← parseRat? v; let b ← if v2 = "-" then some 0 else parseRat? v2
    pure (showJD (mjdToJds a b))
  | "datetime" =>
    let a ← parseInt? v; let b ← if v2 = "-" then some 0 else parseInt? v2
    pure (showJD (dtToJds (a + b)))
  | "gps_ws" =>
    if scale ≠ .gps then pure "err" else
    let a ← parseRat? v; let b ← parseRat? v2
    pure (showJD (wsToJds a b))
  | "gps_seconds" =>
    if scale ≠ .gps ∨ v2 ≠ "-" then pure "err" else
    let a ← parseRat? v
    pure (showJD (gsToJds a))
  | "jyear" =>
    if v2 ≠ "-" then pure "err" else
    let a ← parseRat? v
    pure (showJD (jyToJds a))
  | "decimalyear" =>
    if v2 ≠ "-" then pure "err" else
    let a ← parseRat? v
    pure (showJD (dyToJds taiutc consts.tol scale a))
  | _ =>
    let f ← textFmt? fmt
    if v2 ≠ "-" then pure "err" else
    let s ← decodeHex? v
    match textToJds f s.toList with
    | some j => pure (showJD j)
    | none => pure "err"

def fromJds (fmt : String) (scale : Scale) (j : JD) : Option String := do
  match fmt with
  | "jd" => pure (showRat (jdFromJds j))
  | "mjd" => pure (showRat (mjdFromJds j))
  | "datetime" => pure (toString (dtFromJds j))
  | "gps_ws" =>
    if scale ≠ .gps then pure "err" else
    match wsFromJds j with
    | some w => pure s!"{showRat w.week} {showRat w.seconds} {showRat w.day}"
    | none => pure "err"
  | "gps_seconds" =>
    if scale ≠ .gps then pure "err" else
    match gsFromJds j with
    | some x => pure (showRat x)
    | none => pure "err"
  | "jyear" => pure (showRat (jyFromJds j))
  | "decimalyear" => pure (showRat (dyFromJds taiutc consts.tol scale j))
  | _ =>
    let f ← textFmt? fmt
    pure (encodeHex (String.ofList (textFromJds f j)))

def handle : List String → Option String
  | ["c02", "tojds", fmt, scale, v, v2] => do
    let s ← parseScale? scale
    toJds fmt s v v2
  | ["c02", "fromjds", fmt, scale, a, b] => do
    let s ← parseScale? scale; let a ← parseRat? a; let b ← parseRat? b
    fromJds fmt s ⟨a, b⟩
  | ["c02", "jdintfrac", a, b] => do
    let a ← parseRat? a; let b ← parseRat? b
    pure s!"{showRat (jdInt ⟨a, b⟩)} {showRat (jdFrac ⟨a, b⟩)}"
  | _ => none

end Driver.C02

def main : IO Unit := Driver.run Driver.C02.handle
