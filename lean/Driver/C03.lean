import Driver.Loop
import Midgard.Model.TimeArith
import Midgard.Model.TimePurityFlag

namespace Driver.C03
open Midgard.Proto Midgard.TimeArith

def parseFmt? : String → Option DFmt
  | "jd" => some .jd | "days" => some .days | "seconds" => some .seconds
  | "timedelta" => some .timedelta | _ => none

def parseScale? : String → Option Scale
  | "utc" => some .utc | "tai" => some .tai | "gps" => some .gps
  | "tt" => some .tt | "tcg" => some .tcg | _ => none

def parseKind? : String → Option Kind
  | "time" => some .time | "delta" => some .delta | _ => none

def parseOp? : String → Option Op
  | "add" => some .add | "sub" => some .sub | _ => none

def showJD (j : JD) : String := s!"{showRat j.jd1} {showRat j.jd2}"

def parseRatList? (s : String) : Option (List Rat) :=
  if s = "" then some [] else (s.splitOn ",").mapM parseRat?

/-- an operand `s:j1:j2` (scalar) or `a:j1,j1,…:j2,j2,…` (array) -/
def parseVal? (s : String) : Option Val :=
  match s.splitOn ":" with
  | ["s", a, b] => do let a ← parseRat? a; let b ← parseRat? b; pure (.scalar ⟨a, b⟩)
  | ["a", as, bs] => do
    let as ← parseRatList? as; let bs ← parseRatList? bs
    if as.length = bs.length then pure (.array (List.zipWith JD.mk as bs)) else none
  | _ => none

def showRatList (l : List Rat) : String := ",".intercalate (l.map showRat)

def showVal : Val → String
  | .scalar j => s!"s:{showRat j.jd1}:{showRat j.jd2}"
  | .array js => s!"a:{showRatList (js.map (·.jd1))}:{showRatList (js.map (·.jd2))}"

def showKind : Kind → String | .time => "time" | .delta => "delta"

def showHeap (h : Heap) : String :=
  ";".intercalate (h.map (fun c => s!"{showRatList c.data}/{if c.writable then "w" else "r"}"))

/-- put an operand on the heap: arrays into two buffers with the given flag -/
def place (h : Heap) (w : Bool) : Val → Heap × Part × Part
  | .scalar j => (h, .imm j.jd1, .imm j.jd2)
  | .array js => (h ++ [⟨js.map (·.jd1), w⟩, ⟨js.map (·.jd2), w⟩], .ref h.length, .ref (h.length + 1))

/-- a constructor argument `s:x` or `a:x,x,…` into one caller-owned (writable) buffer -/
def placeCol (h : Heap) (s : String) : Option (Heap × Part) :=
  match s.splitOn ":" with
  | ["s", a] => do let a ← parseRat? a; pure (h, .imm a)
  | ["a", as] => do let as ← parseRatList? as; pure (h ++ [⟨as, true⟩], .ref h.length)
  | _ => none

def showResH (h : Heap) : ResH → String
  | .notImplemented => "NI"
  | .shapeError => "SHAPE"
  | .badOperand => "BAD"
  | .ok o => match h.readVal o.p1 o.p2 with
    | some v => s!"{showKind o.kind} {showVal v}"
    | none => "BAD"

/-- an operand of the `+`/`-` expression: `plain0` / `plain1` (a Python number, zero or not) or `kind;scale;value` -/
def parseOperand? (s : String) : Option Operand :=
  if s = "plain0" then some (.plain true) else if s = "plain1" then some (.plain false) else
  match s.splitOn ";" with
  | [k, sc, v] => do let k ← parseKind? k; let sc ← parseScale? sc; let v ← parseVal? v; pure (.obj k sc v)
  | _ => none

def showScale : Scale → String
  | .utc => "utc" | .tai => "tai" | .gps => "gps" | .tt => "tt" | .tcg => "tcg"

def showResP : ResP → String
  | .typeError => "TYPE" | .attributeError => "ATTR" | .shapeError => "SHAPE"
  | .ok k s v => s!"{showKind k} {showScale s} {showVal v}"

def handle : List String → Option String
  | ["c03", "tojds", f, v, v2] => do
    let f ← parseFmt? f; let v ← parseRat? v; let v2 ← parseRat? v2
    pure (showJD (f.toJds v v2))
  | ["c03", "fromjds", f, a, b] => do
    let f ← parseFmt? f; let a ← parseRat? a; let b ← parseRat? b
    pure (showRat (f.fromJds ⟨a, b⟩))
  | ["c03", "neg", f, v, v2] => do
    let f ← parseFmt? f; let v ← parseRat? v; let v2 ← parseRat? v2
    pure (showJD (dNeg f v v2))
  | ["c03", "binop", op, ka, sa, a1, a2, kb, sb, b1, b2] => do
    let op ← parseOp? op
    let ka ← parseKind? ka; let sa ← parseScale? sa
    let a1 ← parseRat? a1; let a2 ← parseRat? a2
    let kb ← parseKind? kb; let sb ← parseScale? sb
    let b1 ← parseRat? b1; let b2 ← parseRat? b2
    match binop op ka sa ⟨a1, a2⟩ kb sb ⟨b1, b2⟩ with
    | .notImplemented => pure "NI"
    | .ok .time j => pure s!"time {showJD j}"
    | .ok .delta j => pure s!"delta {showJD j}"
  | ["c03", "varr", op, ka, sa, a, kb, sb, b] => do
    -- the operator on scalar / array operands (NumPy broadcasting)
    let op ← parseOp? op
    let ka ← parseKind? ka; let sa ← parseScale? sa; let a ← parseVal? a
    let kb ← parseKind? kb; let sb ← parseScale? sb; let b ← parseVal? b
    match binopV op ka sa a kb sb b with
    | .notImplemented => pure "NI"
    | .shapeError => pure "SHAPE"
    | .ok k v => pure s!"{showKind k} {showVal v}"
  | ["c03", "hbinop", op, ka, sa, a, kb, sb, b] => do
    -- the same on the heap: operands in frozen buffers; answer = result | all buffers afterwards | buffers that existed before
    let op ← parseOp? op
    let ka ← parseKind? ka; let sa ← parseScale? sa; let a ← parseVal? a
    let kb ← parseKind? kb; let sb ← parseScale? sb; let b ← parseVal? b
    let (h1, a1, a2) := place [] false a
    let (h2, b1, b2) := place h1 false b
    let (h3, r) := binopH h2 op ⟨ka, sa, a1, a2⟩ ⟨kb, sb, b1, b2⟩
    pure s!"{showResH h3 r} | {showHeap (h3.take h2.length)} | {h3.length - h2.length}"
  | ["c03", "hctor", f, sc, val, val2] => do
    -- a duration constructor on the heap: the caller's arrays in writable buffers; `writes` from the regenerated purity table
    let f ← parseFmt? f; let sc ← parseScale? sc
    let (h1, p1) ← placeCol [] val
    let (h2, p2) ← (if val2 = "none" then some (h1, none) else (placeCol h1 val2).map (fun x => (x.1, some x.2)))
    let (h3, r) := ctorH srcWrites h2 f sc p1 p2
    pure s!"{showResH h3 r} | {showHeap (h3.take h2.length)} | {h3.length - h2.length}"
  | ["c03", "htime", f, sc, val, val2] => do
    -- an epoch constructor (fmt jd | mjd) on the heap: the caller's arrays in writable buffers; `aliases` from the regenerated
    -- purity table; answer = result | buffers that existed before, afterwards | number of new buffers | do the result's parts
    -- lie in the caller's buffers
    let split ← (if f = "jd" then some splitMidnight else if f = "mjd" then some splitMjd else none)
    let sc ← parseScale? sc
    let (h1, p1) ← placeCol [] val
    let (h2, p2) ← (if val2 = "none" then some (h1, none) else (placeCol h1 val2).map (fun x => (x.1, some x.2)))
    let (h3, r) := ctorTimeH srcAliases split h2 sc p1 p2
    let shared := match r with
      | .ok o => (match o.p1 with | .ref a => decide (a < h2.length) | _ => false) || (match o.p2 with | .ref a => decide (a < h2.length) | _ => false)
      | _ => false
    pure s!"{showResH h3 r} | {showHeap (h3.take h2.length)} | {h3.length - h2.length} | {if shared then "shared" else "fresh"}"
  | ["c03", "py", op, a, b] => do
    -- the whole `a + b` / `a - b` expression with Python's dispatch; the reflected methods as the regenerated table has them
    let op ← parseOp? op; let a ← parseOperand? a; let b ← parseOperand? b
    pure (showResP (pyBinop srcReflRefuses op a b))
  | "c03" :: "pysum" :: ds => do
    let ds ← ds.mapM parseOperand?
    match pySum srcReflRefuses ds with
    | none => pure "ZERO"
    | some r => pure (showResP r)
  | _ => none

end Driver.C03

def main : IO Unit := Driver.run Driver.C03.handle
