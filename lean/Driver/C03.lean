import Driver.Loop
import Midgard.Model.TimeArith

namespace Driver.C03
open Midgard.Proto Midgard.TimeArith

def parseFmt? : String → Option DFmt
  | "jd" => some .jd | "days" => some .days | "seconds" => some .seconds
  | "timedelta" => some .timedelta | _ => none

def parseScale? : String → Option Scale
  | "utc" => some .utc | "tai" => some .tai | "gps" => some .gps
  | "tt" => some .tt | "tcg" => some .tcg | _ => none

def parseKind? : String → Option Kind
  | "time" => some .time | "delta" => some .delta | _ => none

def parseOp? : String → Option Op
  | "add" => some .add | "sub" => some .sub | _ => none

def showJD (j : JD) : String := s!"{showRat j.jd1} {showRat j.jd2}"

def handle : List String → Option String
  | ["c03", "tojds", f, v, v2] => do
    let f ← parseFmt? f; let v ← parseRat? v; let v2 ← parseRat? v2
    pure (showJD (f.toJds v v2))
  | ["c03", "fromjds", f, a, b] => do
    let f ← parseFmt? f; let a ← parseRat? a; let b ← parseRat? b
    pure (showRat (f.fromJds ⟨a, b⟩))
  | ["c03", "neg", f, v, v2] => do
    let f ← parseFmt? f; let v ← parseRat? v; let v2 ← parseRat? v2
    pure (showJD (dNeg f v v2))
  | ["c03", "binop", op, ka, sa, a1, a2, kb, sb, b1, b2] => do
    let op ← parseOp? op
    let ka ← parseKind? ka; let sa ← parseScale? sa
    let a1 ← parseRat? a1; let a2 ← parseRat? a2
    let kb ← parseKind? kb; let sb ← parseScale? sb
    let b1 ← parseRat? b1; let b2 ← parseRat? b2
    match binop op ka sa ⟨a1, a2⟩ kb sb ⟨b1, b2⟩ with
    | .notImplemented => pure "NI"
    | .ok .time j => pure s!"time {showJD j}"
    | .ok .delta j => pure s!"delta {showJD j}"
  | _ => none

end Driver.C03

def main : IO Unit := Driver.run Driver.C03.handle
