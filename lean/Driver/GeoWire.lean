import Driver.Loop
import Midgard.Model.Vec3

/-! Wire format shared by the C05/C06/C07 drivers.

`q`-mode numbers are exact rationals `num/den`; `f`-mode numbers are IEEE doubles written as the
decimal value of their 64-bit pattern (`struct.pack('<d')` on the Python side), so no decimal
printing/parsing of floats is ever involved. -/
namespace Driver.GeoWire
open Midgard.Proto Midgard.Geo

class Wire (α : Type) where
  parse? : String → Option α
  render : α → String

instance : Wire Rat := ⟨parseRat?, showRat⟩

instance : Wire Float :=
  ⟨fun s => s.toNat?.bind (fun n => if n < 2 ^ 64 then some (Float.ofBits n.toUInt64) else none),
   fun x => toString x.toBits.toNat⟩

variable {α : Type} [Wire α]

def parseAll? (l : List String) : Option (List α) := l.mapM Wire.parse?

def showV3 (v : V3 α) : String := s!"{Wire.render v.x} {Wire.render v.y} {Wire.render v.z}"
def showM3 (m : M3 α) : String := s!"{showV3 m.r1} {showV3 m.r2} {showV3 m.r3}"
def showV6 (w : V6 α) : String := s!"{showV3 w.p} {showV3 w.v}"

/-- exact conversion of a rational whose denominator is a power of two and whose numerator fits a
double (every rational that *is* a double) -/
def ratToFloat (q : Rat) : Float := Float.ofInt q.num / Float.ofNat q.den

end Driver.GeoWire
