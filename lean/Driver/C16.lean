import Driver.Loop
import Midgard.Model.Purity

/-! Driver for C16.

  c16 obstypes <shared|local> <pre> <lines>     header parse with the function-level list `pre`
        lines / pre: comma separated `hex(sys):hex(t1);hex(t2)…` (`[]` = none, `.` = empty text)
        → `err <cachelen>` | `ok <hex(sys)=hex(t);…,…|-> <cachelen>`
  c16 cover <hex(cell id)>                      → memo | registry | sink | none
  c16 effects                                   → number of effect cells, number covered
  c16 trusted                                   → the cells covered as `sink` (trusted, not proved), comma separated
  c16 reg <q1,q2,…>                             questions `g:name` (get) / `l:name` (load) / `e:name` (exists) in order from
        an empty registry
        → `<found|missing>,… keys=<sorted registered names>`
-/
namespace Driver.C16
open Midgard.Proto Midgard.Purity Midgard.Generated.ParserEffects

def parseTxt? (s : String) : Option Str := (decodeHex? s).map String.toList

def parseLine? (s : String) : Option ObsLine :=
  match s.splitOn ":" with
  | [a, b] => do
    let sys ← parseTxt? a
    let ts ← if b = "" then some [] else (b.splitOn ";").mapM parseTxt?
    pure ⟨sys, ts⟩
  | _ => none

def showTxt (s : Str) : String := encodeHex (String.ofList s)

def showObs (h : ObsTypes) : String :=
  if h.isEmpty then "-" else
  ",".intercalate (h.map fun p => showTxt p.1 ++ "=" ++ ";".intercalate (p.2.map showTxt))

def parseMech? : String → Option CacheMech
  | "shared" => some .shared
  | "local" => some .local
  | _ => none

def showCover : Option Cover → String
  | some .memo => "memo" | some .registry => "registry" | some .sink => "sink" | none => "none"

def parserNames : List String := parserPlugins.map (·.1)

def defn (n : String) : Option String := if n ∈ parserNames then some n else none

def closureOf (n : String) : List String := (parserImportClosure.lookup n).getD []

def insertSorted (x : String) : List String → List String
  | [] => [x]
  | y :: r => if x ≤ y then x :: y :: r else y :: insertSorted x r

def sortStrings (l : List String) : List String := l.foldr insertSorted []

/-- one question: `g:name` (get), `l:name` (load), `e:name` (exists); a bare name is a `get`.  All three
answer "found" iff the plug-in is registered afterwards and leave the same registry. -/
def regStep (reg : List (String × String)) (q : String) : Bool × List (String × String) :=
  let n := if q.startsWith "g:" || q.startsWith "l:" || q.startsWith "e:" then (q.drop 2).toString else q
  if q.startsWith "e:" then regExists defn closureOf reg n
  else let r := regGet defn closureOf reg n; (r.1.isSome, r.2)

def regRun (names : List String) : List Bool × List (String × String) :=
  names.foldl (fun (acc : List Bool × List (String × String)) q =>
    let r := regStep acc.2 q
    (acc.1 ++ [r.1], r.2)) ([], [])

def handle : List String → Option String
  | ["c16", "obstypes", m, pre, lines] => do
    let m ← parseMech? m
    let pre ← parseList? parseLine? pre
    let lines ← parseList? parseLine? lines
    let r := parseHeader m pre lines
    match r.1 with
    | none => pure s!"err {r.2.length}"
    | some h => pure s!"ok {showObs h} {r.2.length}"
  | ["c16", "cover", c] => do
    let c ← decodeHex? c
    pure (showCover (coverOf c))
  | ["c16", "trusted"] => some (",".intercalate trustedCells)
  | ["c16", "effects"] =>
    some s!"{effects.length} {(effects.filter fun e => (coverOf e).isSome).length}"
  | ["c16", "reg", names] => do
    let ns ← parseList? some names
    let r := regRun ns
    pure (",".intercalate (r.1.map fun b => if b then "found" else "missing") ++ " keys=" ++
      ",".intercalate (sortStrings (regKeys r.2)))
  | _ => none

end Driver.C16

def main : IO Unit := Driver.run Driver.C16.handle
