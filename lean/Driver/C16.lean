import Driver.Loop

/-! Driver for C16: placeholder until the model is written. -/
namespace Driver.C16

def handle : List String → Option String
  | _ => none

end Driver.C16

def main : IO Unit := Driver.run Driver.C16.handle
