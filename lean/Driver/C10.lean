import Driver.Loop
import Driver.DatasetProto
import Midgard.Model.H5Dataset

/-!
Driver for C10.

  `c10 rt <units> <op> | <op> | … | write <d> <level>`
      builds the world with the C09 operations, writes dataset `d` at `level` into the abstract
      store, reads it back and answers `ok:<rendering of the dataset read back>`,
      `ERR:w:<enum>` (the write raised) or `ERR:r:<enum>` (the read raised).
  `c10 restrict <units> <ops> | write <d> <level>`
      answers the rendering of the original dataset restricted to the fields of that level.
  `c10 info <units> <ops> | write <d> <level>`
      answers `W:<T|F>|<tags>`: whether the dataset satisfies the model's `Writable` (the hypothesis of
      `Props.C10.read_write`), and which branches of the model's write / read this dataset takes (the
      write branches are read off the file — one array group per `writeArr` call —, the read branches
      come from an instrumented twin of `readDS` whose result is compared with the model's here:
      `twin-mismatch` if they ever differ).
  `c10 codec <meta tokens>`
      answers the rendering of `decode (encode meta)`, `unsavable` when `encode` refuses.

Meta tokens (prefix form): `L n` / `T n` / `S n` followed by n items, `D n` followed by n key/value
pairs; atoms `i<int>` `f<rat>` `nan` `inf` `ninf` `s<hex>` `bT` `bF` `none`.
-/
namespace Driver.C10
open Midgard.Proto Midgard.Dataset Midgard.H5 Midgard.H5Attr Driver.DS

/-- run the set-up operations (all must succeed) -/
def build (w : W) : List (List String) → Option W
  | [] => some w
  | ts :: rest =>
    let ts := match ts with
      | "q" :: r => r
      | r => r
    match parseOp? ts with
    | none => none
    | some op =>
      match step w op with
      | .error _ => none
      | .ok (w', _) => build w' rest

def renderDS (h : Heap) (d : DS) : String :=
  let (sf, _) := renderField.renderFields h d.fields []
  s!"D0({d.numObs};[{sf}])"

def splitLast {α} : List α → Option (List α × α)
  | [] => none
  | [x] => some ([], x)
  | x :: xs => (splitLast xs).map (fun (i, l) => (x :: i, l))

/-! ### meta tokens -/

def parseAtom? (s : String) : Option Atom :=
  if s == "nan" then some .nan
  else if s == "inf" then some .inf
  else if s == "ninf" then some .ninf
  else if s == "none" then some .none
  else if s == "bT" then some (.bool true)
  else if s == "bF" then some (.bool false)
  else if s.startsWith "i" then ((s.drop 1).toString.toInt?).map .int
  else if s.startsWith "f" then (parseRat? (s.drop 1).toString).map .flt
  else if s.startsWith "s" then (decodeHex? (s.drop 1).toString).map .str
  else none

mutual
partial def parseMeta : List String → Option (Meta × List String)
  | "L" :: n :: rest => do let n ← n.toNat?; let (xs, r) ← parseMetas n rest; pure (.list xs, r)
  | "T" :: n :: rest => do let n ← n.toNat?; let (xs, r) ← parseMetas n rest; pure (.tuple xs, r)
  | "S" :: n :: rest => do let n ← n.toNat?; let (xs, r) ← parseMetas n rest; pure (.set xs, r)
  | "D" :: n :: rest => do
    let n ← n.toNat?
    let (xs, r) ← parseMetas (2 * n) rest
    let rec pairs : List Meta → List (Meta × Meta)
      | k :: v :: t => (k, v) :: pairs t
      | _ => []
    pure (.dict (pairs xs), r)
  | a :: rest => do let a ← parseAtom? a; pure (.atom a, rest)
  | [] => none
partial def parseMetas : Nat → List String → Option (List Meta × List String)
  | 0, ts => some ([], ts)
  | n + 1, ts => do
    let (x, r) ← parseMeta ts
    let (xs, r') ← parseMetas n r
    pure (x :: xs, r')
end

def showAtom : Atom → String
  | .int i => s!"i{i}"
  | .flt q => "f" ++ showRat q
  | .nan => "nan" | .inf => "inf" | .ninf => "ninf" | .none => "none"
  | .str s => "s" ++ encodeHex s
  | .bool b => if b then "bT" else "bF"

partial def showMeta : Meta → String
  | .atom a => showAtom a
  | .list xs => s!"L {xs.length}" ++ String.join (xs.map (fun x => " " ++ showMeta x))
  | .tuple xs => s!"T {xs.length}" ++ String.join (xs.map (fun x => " " ++ showMeta x))
  | .set xs => s!"S {xs.length}" ++ String.join (xs.map (fun x => " " ++ showMeta x))
  | .dict kvs => s!"D {kvs.length}" ++ String.join (kvs.map (fun (k, v) => " " ++ showMeta k ++ " " ++ showMeta v))


/-! ### which branches a round trip takes (coverage of the generator; not part of the model) -/

/-- the `writeArr` branch every array group of the file was made by -/
partial def grpTags (depth : Nat) : Grp → List String
  | .mk a payload subs =>
    match payload with
    | none => "w:collection" :: subs.flatMap (fun e => grpTags depth e.2)
    | some ob =>
      let own :=
        match attrName ob.kind, a.ref with
        | none, _ => if ob.kind.registers then "w:plain-time" else "w:plain"
        | some _, some name =>
          if name.getLastD "" == "other" || name.getLastD "" == "ref_pos" then "w:named->embedded-object"
          else if name.length > 1 then "w:named->nested-field" else "w:named->top-field"
        | some _, none => if subs.isEmpty then "w:no-attachment" else s!"w:embedded-depth={depth + 1}"
      own :: subs.flatMap (fun e => grpTags (depth + 1) e.2)

abbrev T := List String

def readArrT (file : File) : Nat → Grp → RSt → T → M (Nat × RSt × T)
  | 0, _, _, _ => .error .fuel
  | fuel + 1, .mk a payload subs, s, tr =>
    match payload with
    | none => .error .dangling
    | some ob =>
      match attrName ob.kind with
      | none =>
        let (o, s1) := s.alloc ob
        .ok (o, (if ob.kind == .time || ob.kind == .timeDelta then s1.set a.fieldname o else s1),
          tr ++ [if ob.kind.registers then "r:plain-time" else "r:plain"])
      | some nm =>
        let named := a.ref.isSome
        let refR : M (Option Nat × RSt × T) :=
          match refTarget file a subs nm with
          | none => .ok (none, s, tr ++ ["r:no-attachment"])
          | some (name, og) =>
            match s.memo.lookup name with
            | some o => .ok (some o, s, tr ++ [if named then "r:named-hit(read-before)" else "r:embedded-hit(read-before)"])
            | none =>
              match og with
              | none => .error .attribute
              | some g =>
                match readArrT file fuel g s (tr ++ [if named then "r:named-miss(read-now)" else "r:embedded-miss(read-now)"]) with
                | .error e => .error e
                | .ok (o, s', tr') => .ok (some o, s'.set name o, tr')
        match refR with
        | .error e => .error e
        | .ok (r, s1, tr1) =>
          if ob.kind.isDelta && r.isNone then .error .unsupported else
          let (o, s2) := s1.alloc (ob.withRef r)
          .ok (o, s2.set a.fieldname o, tr1)

def readMembersT (rd : Option Kind → Grp → RSt → T → M (Field × RSt × T)) :
    List (String × Option Kind) → List (String × Grp) → RSt → T → M (List Field × RSt × T)
  | [], _, s, tr => .ok ([], s, tr)
  | (nm, ty) :: rest, subs, s, tr =>
    match subs.lookup nm with
    | none => .error .attribute
    | some g =>
      match rd ty g s tr with
      | .error e => .error e
      | .ok (f, s1, tr1) =>
        match readMembersT rd rest subs s1 tr1 with
        | .error e => .error e
        | .ok (fs, s2, tr2) => .ok (f :: fs, s2, tr2)

def readFieldT (file : File) (fa : Nat) : Nat → Option Kind → Grp → RSt → T → M (Field × RSt × T)
  | 0, _, _, _, _ => .error .fuel
  | _ + 1, some k, .mk a p subs, s, tr =>
    let r : M (Nat × RSt × T) := match s.memo.lookup a.fieldname with
      | some o => .ok (o, s, tr ++ ["f:leaf-memo-hit(read-before-through-a-reference)"])
      | none => readArrT file fa (.mk a p subs) s (tr ++ ["f:leaf-read"])
    match r with
    | .error e => .error e
    | .ok (o, s', tr') => .ok (.leaf (lastName a.fieldname) k o (objLen s'.heap o) (readUnit a.unit) a.level, s', tr')
  | depth + 1, none, .mk a _ subs, s, tr =>
    match readMembersT (readFieldT file fa depth) a.members subs s (tr ++ [if a.members.isEmpty then "f:collection-empty" else "f:collection"]) with
    | .error e => .error e
    | .ok (fs, s', tr') => .ok (.coll (lastName a.fieldname) file.numObs a.level fs, s', tr')

def readTopT (file : File) (fa fd : Nat) : List (String × Option Kind) → RSt → T → M (List Field × RSt × T)
  | [], s, tr => .ok ([], s, tr)
  | (nm, ty) :: rest, s, tr =>
    match file.groups.lookup nm with
    | none => .error .attribute
    | some g =>
      match readFieldT file fa fd ty g s tr with
      | .error e => .error e
      | .ok (f, s1, tr1) =>
        match readTopT file fa fd rest (regTop nm f s1) tr1 with
        | .error e => .error e
        | .ok (fs, s3, tr3) => .ok (f :: fs, s3, tr3)

def dedup (l : List String) : List String := l.foldl (fun acc x => if acc.contains x then acc else acc ++ [x]) []

/-- `W:<writable>|<tags>` -/
def info (h : Heap) (x : DS) (lvl : Nat) : String :=
  let w := if writableB h x lvl then "T" else "F"
  let omitted := if (restrictFields lvl x.fields).length < x.fields.length then ["w:field-omitted(top)"] else []
  match writeDS h x lvl with
  | .error e => s!"W:{w}|w:ERR:{showErr e}"
  | .ok file =>
    let wt := file.groups.flatMap (fun e => grpTags 0 e.2)
    let fa := h.length + 1
    let fd := fieldsDepth x.fields + 1
    let model := readBack h x file
    let twin := readTopT file fa fd file.members {} []
    let same : Bool := match model, twin with
      | .ok (h', x'), .ok (fs, s, _) => renderDS h' x' == renderDS s.heap { numObs := file.numObs, fields := fs }
      | .error e, .error e' => e == e'
      | _, _ => false
    let rt := match twin with
      | .ok (_, _, tr) => tr
      | .error e => ["r:ERR:" ++ showErr e]
    s!"W:{w}|" ++ ",".intercalate (dedup (omitted ++ wt ++ rt ++ (if same then [] else ["twin-mismatch"])))

def handle : List String → Option String
  | "c10" :: "codec" :: rest => do
    let (m, r) ← parseMeta rest
    if !r.isEmpty then none else
    match encode m with
    | none => pure "unsavable"
    | some a => match decode a with
      | none => pure "undecodable"
      | some m' => pure (showMeta m')
  | "c10" :: mode :: units :: rest => do
    let us ← parseUnits? units
    let (ops, last) ← splitLast (splitOps rest)
    let w ← build { units := us } ops
    match last with
    | ["write", d, lvl] =>
      let d ← d.toNat?
      let lvl ← lvl.toNat?
      match w.getDs d with
      | .error _ => none
      | .ok x =>
        if mode == "restrict" then
          pure ("ok:" ++ renderDS w.heap { x with fields := restrictFields lvl x.fields })
        else if mode == "rt" then
          match writeDS w.heap x lvl with
          | .error e => pure ("ERR:w:" ++ showErr e)
          | .ok file =>
            match readBack w.heap x file with
            | .error e => pure ("ERR:r:" ++ showErr e)
            | .ok (h', x') => pure ("ok:" ++ renderDS h' x')
        else if mode == "info" then pure (info w.heap x lvl)
        else none
    | _ => none
  | _ => none

end Driver.C10

def main : IO Unit := Driver.run Driver.C10.handle
