import Driver.Loop

/-! Driver for C10: placeholder until the model is written. -/
namespace Driver.C10

def handle : List String → Option String
  | _ => none

end Driver.C10

def main : IO Unit := Driver.run Driver.C10.handle
