import Driver.Loop
import Driver.DatasetProto
import Midgard.Model.H5Dataset

/-!
Driver for C10.

  `c10 rt <units> <op> | <op> | … | write <d> <level>`
      builds the world with the C09 operations, writes dataset `d` at `level` into the abstract
      store, reads it back and answers `ok:<rendering of the dataset read back>`,
      `ERR:w:<enum>` (the write raised) or `ERR:r:<enum>` (the read raised).
  `c10 restrict <units> <ops> | write <d> <level>`
      answers the rendering of the original dataset restricted to the fields of that level.
  `c10 codec <meta tokens>`
      answers the rendering of `decode (encode meta)`, `unsavable` when `encode` refuses.

Meta tokens (prefix form): `L n` / `T n` / `S n` followed by n items, `D n` followed by n key/value
pairs; atoms `i<int>` `f<rat>` `nan` `inf` `ninf` `s<hex>` `bT` `bF` `none`.
-/
namespace Driver.C10
open Midgard.Proto Midgard.Dataset Midgard.H5 Midgard.H5Attr Driver.DS

/-- run the set-up operations (all must succeed) -/
def build (w : W) : List (List String) → Option W
  | [] => some w
  | ts :: rest =>
    let ts := match ts with
      | "q" :: r => r
      | r => r
    match parseOp? ts with
    | none => none
    | some op =>
      match step w op with
      | .error _ => none
      | .ok (w', _) => build w' rest

def renderDS (h : Heap) (d : DS) : String :=
  let (sf, _) := renderField.renderFields h d.fields []
  s!"D0({d.numObs};[{sf}])"

def splitLast {α} : List α → Option (List α × α)
  | [] => none
  | [x] => some ([], x)
  | x :: xs => (splitLast xs).map (fun (i, l) => (x :: i, l))

/-! ### meta tokens -/

def parseAtom? (s : String) : Option Atom :=
  if s == "nan" then some .nan
  else if s == "inf" then some .inf
  else if s == "ninf" then some .ninf
  else if s == "none" then some .none
  else if s == "bT" then some (.bool true)
  else if s == "bF" then some (.bool false)
  else if s.startsWith "i" then ((s.drop 1).toString.toInt?).map .int
  else if s.startsWith "f" then (parseRat? (s.drop 1).toString).map .flt
  else if s.startsWith "s" then (decodeHex? (s.drop 1).toString).map .str
  else none

mutual
partial def parseMeta : List String → Option (Meta × List String)
  | "L" :: n :: rest => do let n ← n.toNat?; let (xs, r) ← parseMetas n rest; pure (.list xs, r)
  | "T" :: n :: rest => do let n ← n.toNat?; let (xs, r) ← parseMetas n rest; pure (.tuple xs, r)
  | "S" :: n :: rest => do let n ← n.toNat?; let (xs, r) ← parseMetas n rest; pure (.set xs, r)
  | "D" :: n :: rest => do
    let n ← n.toNat?
    let (xs, r) ← parseMetas (2 * n) rest
    let rec pairs : List Meta → List (Meta × Meta)
      | k :: v :: t => (k, v) :: pairs t
      | _ => []
    pure (.dict (pairs xs), r)
  | a :: rest => do let a ← parseAtom? a; pure (.atom a, rest)
  | [] => none
partial def parseMetas : Nat → List String → Option (List Meta × List String)
  | 0, ts => some ([], ts)
  | n + 1, ts => do
    let (x, r) ← parseMeta ts
    let (xs, r') ← parseMetas n r
    pure (x :: xs, r')
end

def showAtom : Atom → String
  | .int i => s!"i{i}"
  | .flt q => "f" ++ showRat q
  | .nan => "nan" | .inf => "inf" | .ninf => "ninf" | .none => "none"
  | .str s => "s" ++ encodeHex s
  | .bool b => if b then "bT" else "bF"

partial def showMeta : Meta → String
  | .atom a => showAtom a
  | .list xs => s!"L {xs.length}" ++ String.join (xs.map (fun x => " " ++ showMeta x))
  | .tuple xs => s!"T {xs.length}" ++ String.join (xs.map (fun x => " " ++ showMeta x))
  | .set xs => s!"S {xs.length}" ++ String.join (xs.map (fun x => " " ++ showMeta x))
  | .dict kvs => s!"D {kvs.length}" ++ String.join (kvs.map (fun (k, v) => " " ++ showMeta k ++ " " ++ showMeta v))

def handle : List String → Option String
  | "c10" :: "codec" :: rest => do
    let (m, r) ← parseMeta rest
    if !r.isEmpty then none else
    match encode m with
    | none => pure "unsavable"
    | some a => match decode a with
      | none => pure "undecodable"
      | some m' => pure (showMeta m')
  | "c10" :: mode :: units :: rest => do
    let us ← parseUnits? units
    let (ops, last) ← splitLast (splitOps rest)
    let w ← build { units := us } ops
    match last with
    | ["write", d, lvl] =>
      let d ← d.toNat?
      let lvl ← lvl.toNat?
      match w.getDs d with
      | .error _ => none
      | .ok x =>
        if mode == "restrict" then
          pure ("ok:" ++ renderDS w.heap { x with fields := restrictFields lvl x.fields })
        else if mode == "rt" then
          match writeDS w.heap x lvl with
          | .error e => pure ("ERR:w:" ++ showErr e)
          | .ok file =>
            match readDS 100000 100000 file with
            | .error e => pure ("ERR:r:" ++ showErr e)
            | .ok (h', x') => pure ("ok:" ++ renderDS h' x')
        else none
    | _ => none
  | _ => none

end Driver.C10

def main : IO Unit := Driver.run Driver.C10.handle
