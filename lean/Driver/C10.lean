import Driver.Loop
import Driver.DatasetProto
import Midgard.Model.H5Dataset
import Midgard.Model.H5Meta
import Midgard.Model.H5Bits
import Midgard.Model.H5Time
import Midgard.Model.H5AttrText

/-!
Driver for C10.

  `c10 rt <units> <op> | <op> | … | write <d> <level>`
      builds the world with the C09 operations, writes dataset `d` at `level` into the abstract
      store, reads it back and answers `ok:<rendering of the dataset read back>`,
      `ERR:w:<enum>` (the write raised) or `ERR:r:<enum>` (the read raised).
  `c10 restrict <units> <ops> | write <d> <level>`
      answers the rendering of the original dataset restricted to the fields of that level.
  `c10 info <units> <ops> | write <d> <level>`
      answers `W:<T|F>|<tags>`: whether the dataset satisfies the model's `WritableS` (the hypothesis of
      `Props.C10.read_write`), and which branches of the model's write / read this dataset takes (the
      write branches are read off the file — one array group per `writeArr` call —, the read branches
      come from an instrumented twin of `readDS` whose result is compared with the model's here:
      `twin-mismatch` if they ever differ).
  `c10 codec <meta tokens>`
      answers the rendering of `decode (encode meta)`, `unsavable` when `encode` refuses.

Meta tokens (prefix form): `L n` / `T n` / `S n` followed by n items, `D n` followed by n key/value
pairs; atoms `i<int>` `f<rat>` `nan` `inf` `ninf` `s<hex>` `bT` `bF` `none`.
-/
namespace Driver.C10
open Midgard.Proto Midgard.Dataset Midgard.H5 Midgard.H5Attr Driver.DS

/-- run the set-up operations (all must succeed) -/
def build (w : W) : List (List String) → Option W
  | [] => some w
  | ts :: rest =>
    let ts := match ts with
      | "q" :: r => r
      | r => r
    match parseOp? ts with
    | none => none
    | some op =>
      match step w op with
      | .error _ => none
      | .ok (w', _) => build w' rest

def renderDS (h : Heap) (d : DS) : String :=
  let (sf, _) := renderField.renderFields h d.fields []
  s!"D0({d.numObs};[{sf}])"

def splitLast {α} : List α → Option (List α × α)
  | [] => none
  | [x] => some ([], x)
  | x :: xs => (splitLast xs).map (fun (i, l) => (x :: i, l))

/-! ### meta tokens -/

def parseAtom? (s : String) : Option Atom :=
  if s == "nan" then some .nan
  else if s == "inf" then some .inf
  else if s == "ninf" then some .ninf
  else if s == "none" then some .none
  else if s == "bT" then some (.bool true)
  else if s == "bF" then some (.bool false)
  else if s.startsWith "i" then ((s.drop 1).toString.toInt?).map .int
  else if s.startsWith "f" then (parseRat? (s.drop 1).toString).map .flt
  else if s.startsWith "s" then (decodeHex? (s.drop 1).toString).map .str
  else none

mutual
partial def parseMeta : List String → Option (Meta × List String)
  | "L" :: n :: rest => do let n ← n.toNat?; let (xs, r) ← parseMetas n rest; pure (.list xs, r)
  | "T" :: n :: rest => do let n ← n.toNat?; let (xs, r) ← parseMetas n rest; pure (.tuple xs, r)
  | "S" :: n :: rest => do let n ← n.toNat?; let (xs, r) ← parseMetas n rest; pure (.set xs, r)
  | "D" :: n :: rest => do
    let n ← n.toNat?
    let (xs, r) ← parseMetas (2 * n) rest
    let rec pairs : List Meta → List (Meta × Meta)
      | k :: v :: t => (k, v) :: pairs t
      | _ => []
    pure (.dict (pairs xs), r)
  | a :: rest => do let a ← parseAtom? a; pure (.atom a, rest)
  | [] => none
partial def parseMetas : Nat → List String → Option (List Meta × List String)
  | 0, ts => some ([], ts)
  | n + 1, ts => do
    let (x, r) ← parseMeta ts
    let (xs, r') ← parseMetas n r
    pure (x :: xs, r')
end

def parseMetaDict : Nat → List String → Option (MetaDict × List String)
  | 0, ts => some ([], ts)
  | n + 1, k :: ts => do
    let key ← decodeHex? k
    let (v, r) ← parseMeta ts
    let (rest, r') ← parseMetaDict n r
    pure ((key, v) :: rest, r')
  | _, [] => none

def showAtom : Atom → String
  | .int i => s!"i{i}"
  | .flt q => "f" ++ showRat q
  | .nan => "nan" | .inf => "inf" | .ninf => "ninf" | .none => "none"
  | .str s => "s" ++ encodeHex s
  | .bool b => if b then "bT" else "bF"

partial def showMeta : Meta → String
  | .atom a => showAtom a
  | .list xs => s!"L {xs.length}" ++ String.join (xs.map (fun x => " " ++ showMeta x))
  | .tuple xs => s!"T {xs.length}" ++ String.join (xs.map (fun x => " " ++ showMeta x))
  | .set xs => s!"S {xs.length}" ++ String.join (xs.map (fun x => " " ++ showMeta x))
  | .dict kvs => s!"D {kvs.length}" ++ String.join (kvs.map (fun (k, v) => " " ++ showMeta k ++ " " ++ showMeta v))


/-! ### which branches a round trip takes (coverage of the generator; not part of the model) -/

/-- the `writeArr` branch every array group of the file was made by -/
partial def grpTags (depth : Nat) : Grp → List String
  | .mk a payload subs =>
    match payload with
    | none =>
      if a.sameAs.isSome then
        [if (a.sameAs.getD []).length > 1 then "w:same_as->nested-field" else "w:same_as->top-field"]
      else "w:collection" :: subs.flatMap (fun e => grpTags depth e.2)
    | some ob =>
      let own :=
        match attrName ob.kind, a.ref with
        | none, _ => if ob.kind.registers then "w:plain-time" else "w:plain"
        | some _, some name =>
          if name.getLastD "" == "other" || name.getLastD "" == "ref_pos" then "w:named->embedded-object"
          else if name.length > 1 then "w:named->nested-field" else "w:named->top-field"
        | some _, none => if subs.isEmpty then "w:no-attachment" else s!"w:embedded-depth={depth + 1}"
      own :: subs.flatMap (fun e => grpTags (depth + 1) e.2)

abbrev T := List String

def readArrT (file : File) : Nat → Grp → RSt → T → M (Nat × RSt × T)
  | 0, _, _, _ => .error .fuel
  | fuel + 1, .mk a payload subs, s, tr =>
    match payload with
    | none => .error .dangling
    | some ob =>
      match attrName ob.kind with
      | none =>
        let (o, s1) := s.alloc ob
        .ok (o, (if ob.kind == .time || ob.kind == .timeDelta then s1.set a.fieldname o else s1),
          tr ++ [if ob.kind.registers then "r:plain-time" else "r:plain"])
      | some nm =>
        let named := a.ref.isSome
        let refR : M (Option Nat × RSt × T) :=
          match refTarget file a subs nm with
          | none => .ok (none, s, tr ++ ["r:no-attachment"])
          | some (name, og) =>
            match s.memo.lookup name with
            | some o => .ok (some o, s, tr ++ [if named then "r:named-hit(read-before)" else "r:embedded-hit(read-before)"])
            | none =>
              match og with
              | none => .error .attribute
              | some g =>
                match readArrT file fuel g s (tr ++ [if named then "r:named-miss(read-now)" else "r:embedded-miss(read-now)"]) with
                | .error e => .error e
                | .ok (o, s', tr') => .ok (some o, s'.set name o, tr')
        match refR with
        | .error e => .error e
        | .ok (r, s1, tr1) =>
          if ob.kind.isDelta && r.isNone then .error .unsupported else
          let (o, s2) := s1.alloc (ob.withRef r)
          .ok (o, s2.set a.fieldname o, tr1)

def readMembersT (rd : Option Kind → Grp → RSt → T → M (Field × RSt × T)) :
    List (String × Option Kind) → List (String × Grp) → RSt → T → M (List Field × RSt × T)
  | [], _, s, tr => .ok ([], s, tr)
  | (nm, ty) :: rest, subs, s, tr =>
    match subs.lookup nm with
    | none => .error .attribute
    | some g =>
      match rd ty g s tr with
      | .error e => .error e
      | .ok (f, s1, tr1) =>
        match readMembersT rd rest subs s1 tr1 with
        | .error e => .error e
        | .ok (fs, s2, tr2) => .ok (f :: fs, s2, tr2)

def readFieldT (file : File) (fa : Nat) : Nat → Option Kind → Grp → RSt → T → M (Field × RSt × T)
  | 0, _, _, _, _ => .error .fuel
  | _ + 1, some k, .mk a p subs, s0, tr0 =>
    let al : M (RSt × T) := match a.sameAs with
      | none => .ok (s0, tr0)
      | some name =>
        match s0.memo.lookup name with
        | some o => .ok (s0.set a.fieldname o, tr0 ++ ["f:same_as-hit(that-field-read-before)"])
        | none =>
          match lookupGrp file.groups name with
          | none => .error .attribute
          | some g =>
            let r : M (Nat × RSt × T) := match s0.memo.lookup g.attrs.fieldname with
              | some o => .ok (o, s0, tr0)
              | none => readArrT file fa g s0 (tr0 ++ ["f:same_as-miss(that-field-read-now)"])
            match r with
            | .error e => .error e
            | .ok (o, s', tr') => .ok ((s'.set name o).set a.fieldname o, tr')
    match al with
    | .error e => .error e
    | .ok (s, tr) =>
    let r : M (Nat × RSt × T) := match s.memo.lookup a.fieldname with
      | some o => .ok (o, s, tr ++ ["f:leaf-memo-hit(read-before-through-a-reference)"])
      | none => readArrT file fa (.mk a p subs) s (tr ++ ["f:leaf-read"])
    match r with
    | .error e => .error e
    | .ok (o, s', tr') => .ok (.leaf (lastName a.fieldname) k o (objLen s'.heap o) (readUnit a.unit) a.level, s', tr')
  | depth + 1, none, .mk a _ subs, s, tr =>
    match readMembersT (readFieldT file fa depth) a.members subs s (tr ++ [if a.members.isEmpty then "f:collection-empty" else "f:collection"]) with
    | .error e => .error e
    | .ok (fs, s', tr') => .ok (.coll (lastName a.fieldname) file.numObs a.level fs, s', tr')

def readTopT (file : File) (fa fd : Nat) : List (String × Option Kind) → RSt → T → M (List Field × RSt × T)
  | [], s, tr => .ok ([], s, tr)
  | (nm, ty) :: rest, s, tr =>
    match file.groups.lookup nm with
    | none => .error .attribute
    | some g =>
      match readFieldT file fa fd ty g s tr with
      | .error e => .error e
      | .ok (f, s1, tr1) =>
        match readTopT file fa fd rest (regTop nm f s1) tr1 with
        | .error e => .error e
        | .ok (fs, s3, tr3) => .ok (f :: fs, s3, tr3)

def dedup (l : List String) : List String := l.foldl (fun acc x => if acc.contains x then acc else acc ++ [x]) []

/-- `W:<writable>|<tags>` -/
def info (h : Heap) (x : DS) (lvl : Nat) : String :=
  let w := if writableSB h x lvl then "T" else "F"
  let shared := if writableSB h x lvl && !writableB h x lvl then ["w:fields-share-an-array"] else []
  let omitted := shared ++ if (restrictFields lvl x.fields).length < x.fields.length then ["w:field-omitted(top)"] else []
  match writeDS h x lvl with
  | .error e => s!"W:{w}|w:ERR:{showErr e}"
  | .ok file =>
    let wt := file.groups.flatMap (fun e => grpTags 0 e.2)
    let fa := h.length + 1
    let fd := fieldsDepth x.fields + 1
    let model := readBack h x file
    let twin := readTopT file fa fd file.members {} []
    let same : Bool := match model, twin with
      | .ok (h', x'), .ok (fs, s, _) => renderDS h' x' == renderDS s.heap { numObs := file.numObs, fields := fs }
      | .error e, .error e' => e == e'
      | _, _ => false
    let rt := match twin with
      | .ok (_, _, tr) => tr
      | .error e => ["r:ERR:" ++ showErr e]
    s!"W:{w}|" ++ ",".intercalate (dedup (omitted ++ wt ++ rt ++ (if same then [] else ["twin-mismatch"])))

/-! ### bit patterns: the numeric arrays of the world are replaced by their IEEE-754 words before the round trip -/

/-- the objects in the order a walk over the fields meets them: an array, then its `other`, then its `ref_pos` -/
def visitObj (h : Heap) : Nat → Nat → List Nat → List Nat
  | 0, _, seen => seen
  | fuel + 1, o, seen =>
    if seen.contains o then seen else
    let seen := seen ++ [o]
    match h[o]? with
    | none => seen
    | some ob =>
      let seen := match ob.other with
        | none => seen
        | some a => visitObj h fuel a seen
      match ob.refPos with
      | none => seen
      | some a => visitObj h fuel a seen

partial def visitFields (h : Heap) : List Field → List Nat → List Nat
  | [], seen => seen
  | .leaf _ _ o _ _ _ :: fs, seen => visitFields h fs (visitObj h (h.length + 1) o seen)
  | .coll _ _ _ sub :: fs, seen => visitFields h fs (visitFields h sub seen)

def parseWords? (s : String) : Option (List (List UInt64)) :=
  if s == "[]" then some []
  else (s.splitOn ";").mapM (fun r => (r.splitOn ",").mapM (fun t => t.toNat?.map UInt64.ofNat))

/-- one token per object of the walk: `-` (left as it is: text, booleans) or the rows as decimal words -/
def patchBits (h : Heap) : List Nat → List String → Option Heap
  | [], [] => some h
  | o :: os, t :: ts =>
    if t == "-" then patchBits h os ts else
    match parseWords? t, h[o]? with
    | some ws, some ob => patchBits (h.set o { ob with rows := bitsRows ws }) os ts
    | _, _ => none
  | _, _ => none

def showBits (h : Heap) (d : DS) : String :=
  "|".intercalate ((visitFields h d.fields []).map (fun o =>
    match h[o]? with
    | none => "!"
    | some ob =>
      if ob.kind == .text || ob.kind == .bool then "-" else
      match (rowsBits ob.rows).mapM id with
      | none => "-"
      | some ws => if ws.isEmpty then "[]" else ";".intercalate (ws.map (fun r => ",".intercalate (r.map (fun w => toString w.toNat))))))

/-! ### the `time` attribute of positions (`Model/H5Time.lean`) -/

/-- as `renderObj`, with the `time` attached to an object -/
def renderObjX (h : Heap) (tm : TM) : Nat → Nat → List Nat → String × List Nat
  | 0, _, seen => ("?", seen)
  | fuel + 1, o, seen =>
    match seen.idxOf? o with
    | some i => (s!"#{i}", seen)
    | none =>
      let k := seen.length
      let seen := seen ++ [o]
      match h[o]? with
      | none => ("!", seen)
      | some ob =>
        let (so, seen) := match ob.other with
          | none => ("-", seen)
          | some a => renderObjX h tm fuel a seen
        let (sr, seen) := match ob.refPos with
          | none => ("-", seen)
          | some a => renderObjX h tm fuel a seen
        let (st, seen) := match tmOf tm o with
          | none => ("-", seen)
          | some a => renderObjX h tm fuel a seen
        (s!"#{k}\{{showKind ob.kind};{ob.ndim};{ob.cols};{showRows ob.rows}|o={so}|r={sr}|t={st}}", seen)

partial def renderFieldsX (h : Heap) (tm : TM) : List Field → List Nat → String × List Nat
  | [], seen => ("", seen)
  | f :: fs, seen =>
    let (a, seen) := match f with
      | .leaf n k o no u l =>
        let (so, seen) := renderObjX h tm (h.length + 1) o seen
        (s!"L({n};{showKind k};{no};{showOptUnit u};{l};{so})", seen)
      | .coll n no l sub =>
        let (sf, seen) := renderFieldsX h tm sub seen
        (s!"C({n};{no};{l};[{sf}])", seen)
    let (b, seen) := renderFieldsX h tm fs seen
    (if b.isEmpty then a else a ++ "," ++ b, seen)

def leafObjAt (fs : List Field) (p : Path) : Option Nat :=
  match findField fs p with
  | some (.leaf _ _ o _ _ _) => some o
  | _ => none

/-- `<path of a position field>=<o<k> | f<path of a time field>>` -/
def parseTimeAttr (w : W) (x : DS) (t : String) : Option (Nat × Nat) :=
  match t.splitOn "=" with
  | [ps, r] => do
    let p ← parsePath? ps
    let po ← leafObjAt x.fields p
    let target ← if r.startsWith "o" then do
        let k ← (r.drop 1).toString.toNat?
        w.tab[k]?
      else if r.startsWith "f" then do
        let q ← parsePath? (r.drop 1).toString
        leafObjAt x.fields q
      else none
    pure (po, target)
  | _ => none

def handle : List String → Option String
  | ["c10", "dispatch", hx] => do
    -- what `decode_h5attr` does with the text: a string, an empty container, or `_literal_eval` of a text
    let t ← decodeHex? hx
    match dispatchText t.toList with
    | .str s => pure ("S" ++ encodeHex (String.ofList s))
    | .empty tag => pure ("E:" ++ tag)
    | .eval r => pure ("P" ++ encodeHex (String.ofList r))
  | "c10" :: "rtx" :: units :: rest => do
    -- `<ops> | X <pos path>=<ref> … | write d lvl`: positions with a `time` attached
    let us ← parseUnits? units
    let (segs1, last) ← splitLast (splitOps rest)
    let (ops, xseg) ← splitLast segs1
    let w ← build { units := us } ops
    match last, xseg with
    | ["write", d, lvl], "X" :: toks =>
      let d ← d.toNat?
      let lvl ← lvl.toNat?
      match w.getDs d with
      | .error _ => none
      | .ok x =>
        let pairs ← toks.mapM (parseTimeAttr w x)
        let tm : TM := pairs.foldl (fun tm (pt : Nat × Nat) => tm.set pt.1 (some pt.2)) (List.replicate w.heap.length none)
        match writeDSX w.heap tm x lvl with
        | .error e => pure ("ERR:w:" ++ showErr e)
        | .ok file =>
          match readBackX w.heap x file with
          | .error e => pure ("ERR:r:" ++ showErr e)
          | .ok (h', tm', x') =>
            let (sf, _) := renderFieldsX h' tm' x'.fields []
            -- the hypothesis of `read_write_time` and the right-hand side of its conclusion, for this dataset
            let wx := if writableXB w.heap tm x lvl then "T" else "F"
            let (sr, _) := renderFieldsX w.heap tm (restrictFields lvl x.fields) []
            pure s!"ok:D0({x'.numObs};[{sf}])#W:{wx}#R:D0({x.numObs};[{sr}])"
    | _, _ => none
  | "c10" :: "rtbits" :: units :: rest => do
    -- `<ops> | B <token per object of the walk> | write d lvl`
    let us ← parseUnits? units
    let (segs1, last) ← splitLast (splitOps rest)
    let (ops, bseg) ← splitLast segs1
    let w ← build { units := us } ops
    match last, bseg with
    | ["write", d, lvl], "B" :: toks =>
      let d ← d.toNat?
      let lvl ← lvl.toNat?
      match w.getDs d with
      | .error _ => none
      | .ok x =>
        let h ← patchBits w.heap (visitFields w.heap x.fields []) toks
        match writeDS h x lvl with
        | .error e => pure ("ERR:w:" ++ showErr e)
        | .ok file =>
          match readBack h x file with
          | .error e => pure ("ERR:r:" ++ showErr e)
          | .ok (h', x') => pure ("ok:" ++ showBits h' x')
    | _, _ => none
  | "c10" :: "codec" :: rest => do
    let (m, r) ← parseMeta rest
    if !r.isEmpty then none else
    match encode m with
    | none => pure "unsavable"
    | some a => match decode a with
      | none => pure "undecodable"
      | some m' => pure (showMeta m')
  | "c10" :: "rtm" :: units :: rest => do
    -- the whole dataset: `<ops> | M n <hexkey> <meta> … | V n <key meta> <value meta> … | write d lvl`
    let us ← parseUnits? units
    let (segs1, last) ← splitLast (splitOps rest)
    let (segs2, vseg) ← splitLast segs1
    let (ops, mseg) ← splitLast segs2
    let w ← build { units := us } ops
    let info ← match mseg with
      | "M" :: n :: r => do let n ← n.toNat?; let (m, r') ← parseMetaDict n r; if r'.isEmpty then pure m else none
      | _ => none
    let vars ← match vseg with
      | "V" :: n :: r => do
        let n ← n.toNat?
        let (xs, r') ← parseMetas (2 * n) r
        let rec pairs : List Meta → List (Meta × Meta)
          | k :: v :: t => (k, v) :: pairs t
          | _ => []
        if r'.isEmpty then pure (pairs xs) else none
      | _ => none
    match last with
    | ["write", d, lvl] =>
      let d ← d.toNat?
      let lvl ← lvl.toNat?
      match w.getDs d with
      | .error _ => none
      | .ok x =>
        let dm : DSM := { ds := x, info := info, vars := vars }
        match writeDSM w.heap dm lvl with
        | .error e => pure ("ERR:w:" ++ showErr e)
        | .ok none => pure "ERR:w:unsavable"
        | .ok (some fm) =>
          match readBackM w.heap dm fm with
          | .error e => pure ("ERR:r:" ++ showErr e)
          | .ok (h', r) =>
            pure ("ok:" ++ renderDS h' r.ds ++ "#M:" ++ ";".intercalate (r.info.map (fun (k, v) => encodeHex k ++ "=" ++ showMeta v))
              ++ "#V:" ++ showMeta (.dict r.vars))
    | _ => none
  | "c10" :: mode :: units :: rest => do
    let us ← parseUnits? units
    let (ops, last) ← splitLast (splitOps rest)
    let w ← build { units := us } ops
    match last with
    | ["write", d, lvl] =>
      let d ← d.toNat?
      let lvl ← lvl.toNat?
      match w.getDs d with
      | .error _ => none
      | .ok x =>
        if mode == "restrict" then
          pure ("ok:" ++ renderDS w.heap { x with fields := restrictFields lvl x.fields })
        else if mode == "rt" then
          match writeDS w.heap x lvl with
          | .error e => pure ("ERR:w:" ++ showErr e)
          | .ok file =>
            match readBack w.heap x file with
            | .error e => pure ("ERR:r:" ++ showErr e)
            | .ok (h', x') => pure ("ok:" ++ renderDS h' x')
        else if mode == "info" then pure (info w.heap x lvl)
        else none
    | _ => none
  | _ => none

end Driver.C10

def main : IO Unit := Driver.run Driver.C10.handle
