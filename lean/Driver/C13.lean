import Driver.Loop
import Midgard.Model.Sp3
import Midgard.Generated.Sp3Cols

/-! Driver for C13 (SP3):  `c13 file <hexfile>` → JSON of header meta and entries (exact rationals,
`null` = NaN); `RAISES` when the model says the real code raises. -/
namespace Driver.C13
open Midgard.Proto Midgard.Text Midgard.Sp3 Midgard.Generated.Sp3

def q (s : String) : String := "\"" ++ s ++ "\""
def orat : Option Rat → String
  | some r => q (showRat r)
  | Option.none => "null"

def showMeta (m : Meta) : String :=
  "[" ++ ",".intercalate (m.map fun (k, v) => "[" ++ q (encodeHex k) ++ "," ++
    (match v with | .str s => "{\"s\":" ++ q (encodeHex (asString s)) ++ "}" | .num r => "{\"f\":" ++ q (showRat r) ++ "}") ++ "]") ++ "]"

def showEntry (e : Entry) : String :=
  "{\"time\":[" ++ ",".intercalate ([e.epoch.year, e.epoch.month, e.epoch.day, e.epoch.hour, e.epoch.minute, e.epoch.sec7].map toString) ++ "]" ++
  ",\"sat\":" ++ q (encodeHex (asString e.sat)) ++ ",\"system\":" ++ q (encodeHex (asString e.system)) ++
  ",\"pos\":[" ++ ",".intercalate (e.pos.map orat) ++ "],\"clk\":" ++ orat e.clk ++
  ",\"psig\":[" ++ ",".intercalate (e.posSigma.map orat) ++ "],\"csig\":" ++ orat e.clkSigma ++
  ",\"dsec\":" ++ q (showRat (datasetSeconds e.epoch)) ++ "}"

def handle : List String → Option String
  | ["c13", "file", h] => do
    let t ← (decodeHex? h).map ofString
    match parseFile factors headerDefs epochFields recP t with
    | Option.none => pure "RAISES"
    | some p => pure ("{\"meta\":" ++ showMeta p.hdr ++ ",\"entries\":[" ++ ",".intercalate (p.entries.map showEntry) ++ "]}")
  | _ => Option.none

end Driver.C13

def main : IO Unit := Driver.run Driver.C13.handle
