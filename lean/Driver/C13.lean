import Driver.Loop

/-! Driver for C13: placeholder until the model is written. -/
namespace Driver.C13

def handle : List String → Option String
  | _ => none

end Driver.C13

def main : IO Unit := Driver.run Driver.C13.handle
