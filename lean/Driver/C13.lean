import Driver.Loop
import Midgard.Model.Sp3
import Midgard.Model.Sp3Adv
import Midgard.Generated.Sp3Cols
import Midgard.Spec.Sp3File

/-! Driver for C13 (SP3):  `c13 file <hexfile>` → JSON of header meta and entries (exact rationals,
`null` = NaN); `RAISES` when the model says the real code raises.
`c13 text <hexfile>` → the same for the raw bytes of a file with any line ends (`parseFileText`: universal
newlines, then `parseFile`); used for the adversarial text-level files of `harness/c13_adv.py`.

`c13 model <tokens of an abstract file>` → `{"wf":…,"thm":…,"text":<hex of render F>,"parse":…}`: the abstract
file of `Spec/Sp3File.lean` is rendered by the spec writer, parsed by the model (`parseFile`), and compared
with `expectedMeta` / `expectedEntries` (`thm` = the instance of `file_roundtrip` evaluates to true).
Wire format (blank separated; texts hex, `-` = absent):
  ver  12×line1  5×line2  n n×(kind text)  filetype timesys basepos baseclk  n n×(kind text)
  nepochs { y mo d h mi sec7 nrecs { sat x y z clk  (0 | 1 sx sy sz sclk f1 f2 f3 f4)  pad80  n n×(kind text) } }
extra kinds: V EP EV, and B = a blank line (text = its blanks, `.` when there are none) -/
namespace Driver.C13
open Midgard.Proto Midgard.Text Midgard.Sp3 Midgard.Generated.Sp3

def q (s : String) : String := "\"" ++ s ++ "\""
def orat : Option Rat → String
  | some r => q (showRat r)
  | Option.none => "null"

def showMeta (m : Meta) : String :=
  "[" ++ ",".intercalate (m.map fun (k, v) => "[" ++ q (encodeHex k) ++ "," ++
    (match v with | .str s => "{\"s\":" ++ q (encodeHex (asString s)) ++ "}" | .num r => "{\"f\":" ++ q (showRat r) ++ "}") ++ "]") ++ "]"

def showEntry (e : Entry) : String :=
  "{\"time\":[" ++ ",".intercalate ([e.epoch.year, e.epoch.month, e.epoch.day, e.epoch.hour, e.epoch.minute, e.epoch.sec7].map toString) ++ "]" ++
  ",\"sat\":" ++ q (encodeHex (asString e.sat)) ++ ",\"system\":" ++ q (encodeHex (asString e.system)) ++
  ",\"pos\":[" ++ ",".intercalate (e.pos.map orat) ++ "],\"clk\":" ++ orat e.clk ++
  ",\"psig\":[" ++ ",".intercalate (e.posSigma.map orat) ++ "],\"csig\":" ++ orat e.clkSigma ++
  ",\"dsec\":" ++ q (showRat (datasetSeconds e.epoch)) ++ "}"


namespace Wire
open Midgard.Spec.Sp3File

abbrev P := StateT (List String) Option

def tok : P String := fun ts => match ts with | t :: r => some (t, r) | [] => Option.none
def hex : P Str := do let t ← tok; (decodeHex? t).map ofString
def nat : P Nat := do let t ← tok; t.toNat?
def int : P Int := do let t ← tok; t.toInt?
def onat : P (Option Nat) := do let t ← tok; if t = "-" then pure Option.none else (t.toNat?).map some
def bool : P Bool := do let t ← tok; parseBool? t
def many {α} (p : P α) : Nat → P (List α)
  | 0 => pure []
  | n + 1 => do let a ← p; let r ← many p n; pure (a :: r)
def counted {α} (p : P α) : P (List α) := do let n ← nat; many p n

def hdrKind : P HdrKind := do
  match (← tok) with
  | "p" => pure .plus | "pp" => pure .plusplus | "i" => pure .pci | "c" => pure .comment
  | _ => failure
def extraKind : P ExtraKind := do
  match (← tok) with
  | "V" => pure .vel | "EP" => pure .ep | "EV" => pure .ev | "B" => pure .blank
  | _ => failure

def header : P Header := do
  let v ← hex
  let ver ← match v with | [c] => pure c | _ => failure
  let l1 ← many hex 12
  let l2 ← many hex 5
  let sat ← counted (do let k ← hdrKind; let t ← hex; pure (k, t))
  let ft ← hex; let ts ← hex; let bp ← nat; let bc ← nat
  let tl ← counted (do let k ← hdrKind; let t ← hex; pure (k, t))
  pure ⟨ver, l1, l2, sat, ft, ts, bp, bc, tl⟩

def acc : P (Option Acc) := do
  if (← bool) then
    let sx ← onat; let sy ← onat; let sz ← onat; let sc ← onat
    let fl ← many hex 4
    pure (some ⟨sx, sy, sz, sc, fl⟩)
  else pure Option.none

def posRec : P PosRec := do
  let sat ← hex; let x ← int; let y ← int; let z ← int; let clk ← int
  let a ← acc; let pad ← bool
  let ex ← counted (do let k ← extraKind; let t ← hex; pure (k, t))
  pure ⟨sat, x, y, z, clk, a, pad, ex⟩

def block : P EpochBlock := do
  let y ← int; let mo ← int; let d ← int; let h ← int; let mi ← int; let s7 ← int
  let recs ← counted posRec
  pure ⟨⟨y, mo, d, h, mi, s7⟩, recs⟩

def file : P File := do
  let h ← header
  let eps ← counted block
  pure ⟨h, eps⟩

end Wire

def showParsed (p : Parsed) : String :=
  "{\"meta\":" ++ showMeta p.hdr ++ ",\"entries\":[" ++ ",".intercalate (p.entries.map showEntry) ++ "]}"

def handle : List String → Option String
  | ["c13", "file", h] => do
    let t ← (decodeHex? h).map ofString
    match parseFile factors headerDefs epochFields recP t with
    | Option.none => pure "RAISES"
    | some p => pure (showParsed p)
  | ["c13", "text", h] => do
    -- the bytes of a file with any line ends (CRLF, lone CR): text-mode translation, then `parseFile`
    let t ← (decodeHex? h).map ofString
    match parseFileText factors headerDefs epochFields recP t with
    | Option.none => pure "RAISES"
    | some p => pure (showParsed p)
  | "c13" :: "model" :: toks => do
    let (f, rest) ← Wire.file toks
    if !rest.isEmpty then failure
    let text := Midgard.Spec.Sp3File.render f
    let parsed := parseFile factors headerDefs epochFields recP text
    let thm := match parsed with
      | some p => decide (p.hdr = Midgard.Spec.Sp3File.expectedMeta f.hdr) &&
                  decide (p.entries = Midgard.Spec.Sp3File.expectedEntries factors f)
      | Option.none => false
    pure ("{\"wf\":" ++ (if f.wf then "true" else "false") ++ ",\"thm\":" ++ (if thm then "true" else "false") ++
      ",\"text\":" ++ q (encodeHex (asString text)) ++
      ",\"parse\":" ++ (match parsed with | some p => showParsed p | Option.none => "\"RAISES\"") ++ "}")
  | _ => Option.none

end Driver.C13

def main : IO Unit := Driver.run Driver.C13.handle
