import Driver.Loop

/-! Driver for C11: placeholder until the model is written. -/
namespace Driver.C11

def handle : List String → Option String
  | _ => none

end Driver.C11

def main : IO Unit := Driver.run Driver.C11.handle
