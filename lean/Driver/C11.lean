import Driver.Loop
import Midgard.Model.Rinex3Obs
import Midgard.Model.Rinex2Obs
import Midgard.Spec.Rinex
import Midgard.Spec.Rinex3ObsFile
import Midgard.Spec.Rinex2ObsFile

/-! Driver for C11: `c11 parse3 <rate|-> <hex text>`, `c11 parse2 …` (the parser models),
`c11 render3|render2 <records>` (the RINEX 3.04 / 2.11 spec renderer) and
`c11 file3 <rate|-> <asis|stripped|padded80> <file-model tokens>` (the abstract file of the file-level theorem:
`wf`, `render`, the instance `readData (fileLines F) = expected rate F`, and `expected` after the post-processors). -/
namespace Driver.C11
open Midgard.Proto Midgard.Text Midgard.ChainParser Midgard.RinexObs

def hx (s : Str) : String := encodeHex (asString s)

def showErr : Err → String
  | .notUnique => "ERR:not-unique"
  | .other => "ERR:other"

def optRat : Option Rat → String
  | none => "nan"
  | some q => showRat q

def col (c : Col) : String := ",".intercalate (c.map optRat)

def leafTok : Leaf → String
  | .text s => s!"T:{hx s}"
  | .num q => s!"Q:{showRat q}"
  | .int i => s!"I:{i}"
  | .list l => s!"L:{",".intercalate (l.map hx)}"
  | .empty => "E:"

def metaTokens (m : Meta) : List String :=
  m.map fun (p, l) => s!"m|{"|".intercalate (p.map hx)}={leafTok l}"

def dataTokens (d : Data) (timeScale : String) : List String :=
  (d.obs.map fun (t, c) => s!"d|obs|{hx t}=N:{col c}") ++
  (d.lli.map fun (t, c) => s!"d|cycle_slip|{hx t}=N:{col c}") ++
  (d.snr.map fun (t, c) => s!"d|signal_strength|{hx t}=N:{col c}") ++
  (match d.pos with
   | some p => [s!"d|pos=N:{",".intercalate (p.map showRat)}"]
   | none => []) ++
  [s!"d|time=L:{",".intercalate (d.time.map hx)}",
   s!"d|epoch_flag=N:{",".intercalate (d.epochFlag.map toString)}",
   s!"d|rcv_clk_offset=N:{col d.clk}",
   s!"d|text|station=L:{",".intercalate (d.station.map hx)}",
   s!"d|text|system=L:{",".intercalate (d.system.map hx)}",
   s!"d|text|satellite=L:{",".intercalate (d.satellite.map hx)}",
   s!"d|text|satnum=L:{",".intercalate (d.satnum.map hx)}",
   s!"x|time_scale=T:{encodeHex timeScale}",
   s!"ds|num_obs=I:{d.time.length}",
   s!"ds|time=IL:{",".intercalate (d.timeMicros.map toString)}",
   s!"ds|time_scale=T:{encodeHex timeScale}"]

def parseRate? (s : String) : Option (Option Rat) :=
  if s = "-" then some none else (parseRat? s).map some

def parseRecord? (tok : String) : Option (String × List Str) :=
  match tok.splitOn ":" with
  | [k, cells] =>
    if cells = "" then some (k, [])
    else do
      let cs ← (cells.splitOn ",").mapM decodeHex?
      pure (k, cs.map String.toList)
  | _ => none

/-! ### the abstract RINEX 3 file of `Spec/Rinex3ObsFile.lean`

tokens: `P:<kind>:<hex,…>` plain header record · `M:<hex>` marker name · `S:<hex sys>:<hex count>:<hex,…;hex,…>` obs types
line by line · `E:<c>,<c>,…` epoch (year month day hour minute second flag as `hex~value`, numSat as `hex`, clk as
`hex~value`) · `X:<kind>:<hex,…>` special record of an event
epoch (belongs to the last `E` token) · `R:<hex sat>:<c>,<c>,<c>;…` satellite record (value, LLI, SSI as `hex~value`, value `nan` = absent) -/
section File3
open Midgard.Spec.Rinex3ObsFile

def strOf (h : String) : Option Str := if h = "" then some [] else (decodeHex? h).map String.toList

def strList (h : String) : Option (List Str) := if h = "" then some [] else (h.splitOn ",").mapM strOf

def optRat? (v : String) : Option (Option Rat) := if v = "nan" then some none else (parseRat? v).map some

def cell? (tok : String) : Option Cell :=
  match tok.splitOn "~" with
  | [h, v] => do pure ⟨← strOf h, ← optRat? v⟩
  | _ => none

def intCell? (tok : String) : Option IntCell :=
  match tok.splitOn "~" with
  | [h, v] => do pure ⟨← strOf h, ← v.toInt?⟩
  | _ => none

def numCell? (tok : String) : Option NumCell :=
  match tok.splitOn "~" with
  | [h, v] => do pure ⟨← strOf h, ← parseRat? v⟩
  | _ => none

def obs? (tok : String) : Option Obs :=
  match tok.splitOn "," with
  | [a, b, c] => do pure ⟨← cell? a, ← cell? b, ← cell? c⟩
  | _ => none

def hdrRec? (tok : String) : Option HdrRec :=
  match tok.splitOn ":" with
  | ["P", k, cells] => do pure (.plain k (← strList cells))
  | ["M", n] => do pure (.marker (← strOf n))
  | ["S", s, c, ls] => do
    let lines ← (if ls = "" then some [] else (ls.splitOn ";").mapM strList)
    pure (.sysObs (← strOf s) (← strOf c) lines)
  | _ => none

def epochHead? (tok : String) : Option Epoch :=
  match tok.splitOn "," with
  | [y, mo, d, h, mi, s, f, n, c] => do
    pure ⟨← intCell? y, ← intCell? mo, ← intCell? d, ← intCell? h, ← intCell? mi, ← numCell? s, ← intCell? f, ← strOf n, ← cell? c, [], []⟩
  | _ => none

def satRec? (sat obs : String) : Option SatRec := do
  let os ← (if obs = "" then some [] else (obs.splitOn ";").mapM obs?)
  pure ⟨← strOf sat, os⟩

/-- header records, then epochs (an `R` token belongs to the last `E` token before it) -/
def file? (style : Style) : List String → List HdrRec → List Epoch → Option File
  | [], hdr, eps => some ⟨hdr.reverse, (eps.map fun e => { e with sats := e.sats.reverse }).reverse, style⟩
  | tok :: rest, hdr, eps =>
    match tok.splitOn ":" with
    | ["E", e] => do file? style rest hdr ((← epochHead? e) :: eps)
    | ["R", sat, obs] =>
      match eps with
      | e :: es => do file? style rest hdr ({ e with sats := (← satRec? sat obs) :: e.sats } :: es)
      | [] => none
    | ["X", k, cells] =>
      match eps with
      | e :: es => do file? style rest hdr ({ e with special := e.special ++ [(k, ← strList cells)] } :: es)
      | [] => none
    | _ => do file? style rest ((← hdrRec? tok) :: hdr) eps

def style? : String → Option Style
  | "asis" => some .asis
  | "stripped" => some .stripped
  | "padded80" => some .padded80
  | _ => none

def instanceHolds (rate : Option Rat) (F : File) : Bool :=
  match readData Midgard.Rinex3Obs.headerParser Midgard.Rinex3Obs.obsParser Midgard.Rinex3Obs.resetCache (fileLines F) true 0 { rate := rate },
        expected rate F with
  | .ok a, .ok b => a == b
  | .error a, .error b => a == b
  | _, _ => false

def file3 (rate : Option Rat) (F : File) : String :=
  let out := match expected rate F with
    | .error e => showErr e
    | .ok s =>
      match Midgard.Rinex3Obs.finish s with
      | .ok s' => " ".intercalate (metaTokens s'.metaD ++ dataTokens s'.data s'.timeScale)
      | .noRows => "ERR:no-rows"
      | .error e => showErr e
  s!"wf={if F.wf then 1 else 0} inst={if instanceHolds rate F then 1 else 0} text={hx (render F)} | {out}"

end File3

/-! ### the abstract RINEX 2 file of `Spec/Rinex2ObsFile.lean`: `c11 file2 <rate|-> <style> <tokens>` with `P:` header
tokens (every record, `TYPES2`/`TYPES2C`/`MNAME` included), `E:` epochs (two-digit year first) and `R:` satellites -/
section File2

def epoch2Head? (tok : String) : Option Midgard.Spec.Rinex2ObsFile.Epoch :=
  match tok.splitOn "," with
  | [y, mo, d, h, mi, s, f, n, c] => do
    pure ⟨← intCell? y, ← intCell? mo, ← intCell? d, ← intCell? h, ← intCell? mi, ← numCell? s, ← intCell? f, ← strOf n, ← cell? c, []⟩
  | _ => none

def file2? (style : Midgard.Spec.Rinex3ObsFile.Style) :
    List String → List (String × List Str) → List Midgard.Spec.Rinex2ObsFile.Epoch → Option Midgard.Spec.Rinex2ObsFile.File
  | [], hdr, eps => some ⟨hdr.reverse, (eps.map fun e => { e with sats := e.sats.reverse }).reverse, style⟩
  | tok :: rest, hdr, eps =>
    match tok.splitOn ":" with
    | ["E", e] => do file2? style rest hdr ((← epoch2Head? e) :: eps)
    | ["R", sat, obs] =>
      match eps with
      | e :: es => do
        let os ← (if obs = "" then some [] else (obs.splitOn ";").mapM obs?)
        file2? style rest hdr ({ e with sats := ⟨← strOf sat, os⟩ :: e.sats } :: es)
      | [] => none
    | ["P", k, cells] => do file2? style rest ((k, ← strList cells) :: hdr) eps
    | _ => none

def instance2Holds (rate : Option Rat) (F : Midgard.Spec.Rinex2ObsFile.File) : Bool :=
  match readData Midgard.Rinex2Obs.headerParser Midgard.Rinex2Obs.obsParser Midgard.Rinex2Obs.resetCache
          (Midgard.Spec.Rinex2ObsFile.fileLines F) true 0 { rate := rate },
        Midgard.Spec.Rinex2ObsFile.expected rate F with
  | .ok a, .ok b => a == b
  | .error a, .error b => a == b
  | _, _ => false

/-- `wf=` reports `F.wf` together with the header test `hdrOk2` (a consequence of `F.wf`: `hdr_ok2` in `Props/C11.lean`; still evaluated) -/
def file2 (rate : Option Rat) (F : Midgard.Spec.Rinex2ObsFile.File) : String :=
  let out := match Midgard.Spec.Rinex2ObsFile.expected rate F with
    | .error e => showErr e
    | .ok s =>
      match Midgard.Rinex2Obs.finish s with
      | .ok s' => " ".intercalate (metaTokens s'.metaD ++ dataTokens s'.data s'.timeScale)
      | .noRows => "ERR:no-rows"
      | .error e => showErr e
  s!"wf={if F.wf && Midgard.Spec.Rinex2ObsFile.hdrOk2 rate F then 1 else 0} inst={if instance2Holds rate F then 1 else 0} text={hx (Midgard.Spec.Rinex2ObsFile.render F)} | {out}"

end File2

def handle : List String → Option String
  | "c11" :: "file2" :: r :: st :: toks => do
    let rate ← parseRate? r
    let style ← style? st
    let F ← file2? style toks [] []
    pure (file2 rate F)
  | "c11" :: "file3" :: r :: st :: toks => do
    let rate ← parseRate? r
    let style ← style? st
    let F ← file? style toks [] []
    pure (file3 rate F)
  | ["c11", "parse3", r, h] => do
    let rate ← parseRate? r
    let text ← decodeHex? h
    match Midgard.Rinex3Obs.parseText rate text.toList with
    | .ok s => pure (" ".intercalate (metaTokens s.metaD ++ dataTokens s.data s.timeScale))
    | .noRows => pure "ERR:no-rows"
    | .error e => pure (showErr e)
  | ["c11", "parse2", r, h] => do
    let rate ← parseRate? r
    let text ← decodeHex? h
    match Midgard.Rinex2Obs.parseText rate text.toList with
    | .ok s => pure (" ".intercalate (metaTokens s.metaD ++ dataTokens s.data s.timeScale))
    | .noRows => pure "ERR:no-rows"
    | .error e => pure (showErr e)
  | "c11" :: "render3" :: recs => do
    let rs ← recs.mapM parseRecord?
    let text ← Midgard.Spec.Rinex.renderFile rs
    pure (hx text)
  | "c11" :: "render2" :: recs => do
    let rs ← recs.mapM parseRecord?
    let text ← Midgard.Spec.Rinex.renderFile rs
    pure (hx text)
  | _ => none

end Driver.C11

def main : IO Unit := Driver.run Driver.C11.handle
