import Driver.Loop
import Midgard.Model.Rinex3Obs
import Midgard.Model.Rinex2Obs
import Midgard.Spec.Rinex

/-! Driver for C11: `c11 parse3 <rate|-> <hex text>`, `c11 parse2 …` (the parser models) and
`c11 render3|render2 <records>` (the RINEX 3.04 / 2.11 spec renderer). -/
namespace Driver.C11
open Midgard.Proto Midgard.Text Midgard.ChainParser Midgard.RinexObs

def hx (s : Str) : String := encodeHex (asString s)

def showErr : Err → String
  | .notUnique => "ERR:not-unique"
  | .other => "ERR:other"

def optRat : Option Rat → String
  | none => "nan"
  | some q => showRat q

def col (c : Col) : String := ",".intercalate (c.map optRat)

def leafTok : Leaf → String
  | .text s => s!"T:{hx s}"
  | .num q => s!"Q:{showRat q}"
  | .int i => s!"I:{i}"
  | .list l => s!"L:{",".intercalate (l.map hx)}"
  | .empty => "E:"

def metaTokens (m : Meta) : List String :=
  m.map fun (p, l) => s!"m|{"|".intercalate (p.map hx)}={leafTok l}"

def dataTokens (d : Data) (timeScale : String) : List String :=
  (d.obs.map fun (t, c) => s!"d|obs|{hx t}=N:{col c}") ++
  (d.lli.map fun (t, c) => s!"d|cycle_slip|{hx t}=N:{col c}") ++
  (d.snr.map fun (t, c) => s!"d|signal_strength|{hx t}=N:{col c}") ++
  (match d.pos with
   | some p => [s!"d|pos=N:{",".intercalate (p.map showRat)}"]
   | none => []) ++
  [s!"d|time=L:{",".intercalate (d.time.map hx)}",
   s!"d|epoch_flag=N:{",".intercalate (d.epochFlag.map toString)}",
   s!"d|rcv_clk_offset=N:{col d.clk}",
   s!"d|text|station=L:{",".intercalate (d.station.map hx)}",
   s!"d|text|system=L:{",".intercalate (d.system.map hx)}",
   s!"d|text|satellite=L:{",".intercalate (d.satellite.map hx)}",
   s!"d|text|satnum=L:{",".intercalate (d.satnum.map hx)}",
   s!"x|time_scale=T:{encodeHex timeScale}",
   s!"ds|num_obs=I:{d.time.length}",
   s!"ds|time=IL:{",".intercalate (d.timeMicros.map toString)}",
   s!"ds|time_scale=T:{encodeHex timeScale}"]

def parseRate? (s : String) : Option (Option Rat) :=
  if s = "-" then some none else (parseRat? s).map some

def parseRecord? (tok : String) : Option (String × List Str) :=
  match tok.splitOn ":" with
  | [k, cells] =>
    if cells = "" then some (k, [])
    else do
      let cs ← (cells.splitOn ",").mapM decodeHex?
      pure (k, cs.map String.toList)
  | _ => none

def handle : List String → Option String
  | ["c11", "parse3", r, h] => do
    let rate ← parseRate? r
    let text ← decodeHex? h
    match Midgard.Rinex3Obs.parseText rate text.toList with
    | .ok s => pure (" ".intercalate (metaTokens s.metaD ++ dataTokens s.data s.timeScale))
    | .noRows => pure "ERR:no-rows"
    | .error e => pure (showErr e)
  | ["c11", "parse2", r, h] => do
    let rate ← parseRate? r
    let text ← decodeHex? h
    match Midgard.Rinex2Obs.parseText rate text.toList with
    | .ok s => pure (" ".intercalate (metaTokens s.metaD ++ dataTokens s.data s.timeScale))
    | .noRows => pure "ERR:no-rows"
    | .error e => pure (showErr e)
  | "c11" :: "render3" :: recs => do
    let rs ← recs.mapM parseRecord?
    let text ← Midgard.Spec.Rinex.renderFile rs
    pure (hx text)
  | "c11" :: "render2" :: recs => do
    let rs ← recs.mapM parseRecord?
    let text ← Midgard.Spec.Rinex.renderFile rs
    pure (hx text)
  | _ => none

end Driver.C11

def main : IO Unit := Driver.run Driver.C11.handle
