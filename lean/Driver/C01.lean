import Driver.Loop
import Midgard.Model.TimeScale
import Midgard.Generated.TimeScaleTables

/-! Driver for C01: the time-scale model instantiated at the regenerated tables. -/
namespace Driver.C01
open Midgard.Proto Midgard.TimeArith Midgard.TimeScale
open Midgard.Generated.TimeScale (taiutc consts hops)

def parseScale? : String → Option Scale
  | "utc" => some .utc | "tai" => some .tai | "gps" => some .gps
  | "tt" => some .tt | "tcg" => some .tcg | _ => none

def showScale : Scale → String
  | .utc => "utc" | .tai => "tai" | .gps => "gps" | .tt => "tt" | .tcg => "tcg"

def showJD (j : JD) : String := s!"{showRat j.jd1} {showRat j.jd2}"

def handle : List String → Option String
  | ["c01", "convert", a, b, j1, j2] => do
    let a ← parseScale? a; let b ← parseScale? b
    let j1 ← parseRat? j1; let j2 ← parseRat? j2
    match convert taiutc consts hops a b ⟨j1, j2⟩ with
    | some j => pure (showJD j)
    | none => pure "none"
  | ["c01", "route", a, b] => do
    let a ← parseScale? a; let b ← parseScale? b
    match route hops a b with
    | some r => pure (showList (fun h : Hop => s!"{showScale h.1}>{showScale h.2}") r)
    | none => pure "none"
  | ["c01", "row", s, j1, j2] => do
    -- index of the table row the lookup selects (s = utc | tai)
    let j1 ← parseRat? j1; let j2 ← parseRat? j2
    if s = "utc" then pure (toString (startedUtc taiutc consts.tol ⟨j1, j2⟩ - 1))
    else if s = "tai" then pure (toString (startedTai taiutc consts.tol ⟨j1, j2⟩ - 1))
    else none
  | _ => none

end Driver.C01

def main : IO Unit := Driver.run Driver.C01.handle
