import Driver.Loop

/-! Driver for C01: placeholder until the model is written. -/
namespace Driver.C01

def handle : List String → Option String
  | _ => none

end Driver.C01

def main : IO Unit := Driver.run Driver.C01.handle
