import Driver.Loop
import Midgard.Model.TimeScale
import Midgard.Generated.TimeScaleTables
import Midgard.Generated.SourceTimeFlow

/-! Driver for C01: the time-scale model instantiated at the regenerated tables. -/
namespace Driver.C01
open Midgard.Proto Midgard.TimeArith Midgard.TimeScale
open Midgard.Generated.TimeScale (taiutc consts hops)

def parseScale? : String → Option Scale
  | "utc" => some .utc | "tai" => some .tai | "gps" => some .gps
  | "tt" => some .tt | "tcg" => some .tcg | _ => none

def showScale : Scale → String
  | .utc => "utc" | .tai => "tai" | .gps => "gps" | .tt => "tt" | .tcg => "tcg"

def parseHop? (s : String) : Option Hop :=
  match s.splitOn ">" with
  | [x, y] => do let x ← parseScale? x; let y ← parseScale? y; pure (x, y)
  | _ => none

def showJD (j : JD) : String := s!"{showRat j.jd1} {showRat j.jd2}"

def handle : List String → Option String
  | ["c01", "convert", a, b, j1, j2] => do
    let a ← parseScale? a; let b ← parseScale? b
    let j1 ← parseRat? j1; let j2 ← parseRat? j2
    match convert taiutc consts hops a b ⟨j1, j2⟩ with
    | some j => pure (showJD j)
    | none => pure "none"
  | ["c01", "route", a, b] => do
    let a ← parseScale? a; let b ← parseScale? b
    match route hops a b with
    | some r => pure (showList (fun h : Hop => s!"{showScale h.1}>{showScale h.2}") r)
    | none => pure "none"
  | ["c01", "row", s, j1, j2] => do
    -- index of the table row the lookup selects (s = utc | tai)
    let j1 ← parseRat? j1; let j2 ← parseRat? j2
    if s = "utc" then pure (toString (startedUtc taiutc consts.tol ⟨j1, j2⟩ - 1))
    else if s = "tai" then pure (toString (startedTai taiutc consts.tol ⟨j1, j2⟩ - 1))
    else none
  | ["c01", "rowsrc", s, j1, j2] => do
    -- the same index by the regenerated transcription of `_taiutc_idx` and its call site in `delta_tai_utc`
    let j1 ← parseRat? j1; let j2 ← parseRat? j2
    let cols := taiutc.map (fun r => (r.start, r.offset, r.refMjd, r.rate))
    if s = "utc" then pure (toString (Midgard.Generated.SrcFlow.rowIndexOfUtcSrc cols consts.tol (1 / secPerDay) j1 j2))
    else if s = "tai" then pure (toString (Midgard.Generated.SrcFlow.rowIndexOfTaiSrc cols consts.tol (1 / secPerDay) j1 j2))
    else none
  | ["c01", "search", which, graph, a, b] => do
    -- `_find_conversion_hops` on an arbitrary registry `graph` = "x>y,x>y,…" (registration order); which = model | src
    let a ← parseScale? a; let b ← parseScale? b
    let g ← (if graph = "-" then some [] else (graph.splitOn ",").mapM parseHop?)
    let r := if which = "src" then Midgard.Generated.SrcFlow.findHopsSrc g a b 64
             else if a = b then some [(a, b)] else bfs g b 64 [(a, [])] []
    match r with
    | some r => pure (showList (fun h : Hop => s!"{showScale h.1}>{showScale h.2}") r)
    | none => pure "none"
  | ["c01", "toscale", graph, a, b] => do
    -- the route `to_scale` takes on an arbitrary registry: model `route` and regenerated `toScaleRouteSrc`
    let a ← parseScale? a; let b ← parseScale? b
    let g ← (if graph = "-" then some [] else (graph.splitOn ",").mapM parseHop?)
    let sh := fun (r : Option (List Hop)) => match r with
      | some r => showList (fun h : Hop => s!"{showScale h.1}>{showScale h.2}") r
      | none => "none"
    pure s!"{sh (route g a b)} {sh (Midgard.Generated.SrcFlow.toScaleRouteSrc g a b 64)}"
  | _ => none

end Driver.C01

def main : IO Unit := Driver.run Driver.C01.handle
