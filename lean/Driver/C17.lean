import Driver.Loop

/-! Driver for C17: placeholder until the model is written. -/
namespace Driver.C17

def handle : List String → Option String
  | _ => none

end Driver.C17

def main : IO Unit := Driver.run Driver.C17.handle
