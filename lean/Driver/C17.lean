import Driver.Loop
import Midgard.Model.WriterFiles
import Midgard.Model.WriterSta
import Midgard.Model.WriterCsv

/-! Driver for C17 (text travels hex-encoded; `.` = empty, `-` = absent).

  value      n:<rat> | nan | nz (the double -0.0) | s:<hex> | i:<int>
  env        NAME=value;NAME=value…           (`[]` = empty)
  c17 row <writer> <line> <env>               one formatted line of a writer  → hex | err
  c17 nominal <writer> <line>                 name:start:stop,…
  c17 conforms <writer> <line> <hex>          does a written line decompose into the nominal columns → 1 | 0
  c17 crd <0|1> <stations>   c17 vel <0|1> <stations>       station = hexkey~domes~x;y;z~plate (`,`-separated)
  c17 clu <hexkey,…>
  c17 tmscols <field,…>                       existing TIMESERIES/DATA columns for dataset fields
  c17 tmshdr <col,…>                          the `* _NAME__` line
  c17 tmsdata <col,…> <epoch|epoch…>          epoch = <int>@env
  c17 tmsrange <col,…> <epoch|epoch…>         the range predicate of `tms_data_block_roundtrip` → 1 | 0
  c17 csvparse <hexfile>                      parsers/csv_.py model: name=kind:values;…  (i: ints, f: rationals `n` or `ndm` / nan,
                                              s: hex texts, o: outside the model; values `/`-separated) | []
  c17 csvsplit <hexline>                      the line cut at `,` / `;` → hex,hex,…  (`.` = empty piece)
  c17 blocks <0|1> <0|1> <0|1>                markers of the blocks written + balanced flag
  c17 csv <fmt,…> <row|row…>                  fmt = s | d | f<prec>;  row = <hexdate>@value;value…
  c17 crdfile <hextext,…> <0|1> <stations>    the whole file (header texts: solution, stamp, datum, epoch) → hex | err
  c17 crdrange <hextext,…> <0|1> <stations>   the range predicate of `crd_file_roundtrip` → 1 | 0
  c17 velfile <hextext,…> <0|1> <stations>    (solution, stamp, datum);  c17 velrange … the range predicate of `vel_file_roundtrip`
  c17 clufile <hextext,…> <hexkey,…>          (solution, stamp)
  c17 clurange <hextext,…> <hexkey,…>         the range predicate of `clu_file_roundtrip` → 1 | 0
  c17 starecords <0|1> <hist> <hist> <hist>   TYPE 002 records for skip_firmware, receiver / antenna / eccentricity histories
                                              (hist = from:to:cls,… in dictionary order, `[]` = empty) → from:to:r:a:e,… (indices
                                              into the three histories) | []
  c17 crdparse <hexfile>   c17 cluparse <hexfile>     rows `|`-separated, values `;`-separated: f:<rat> | f:nan | u:<hex>
-/
namespace Driver.C17
open Midgard.Proto Midgard.Writers Midgard.WriterCells Midgard.Generated.WriterLayouts Midgard.WriterFiles

def hexOf (s : List Char) : String := encodeHex (String.ofList s)

def parseValue? (s : String) : Option Value :=
  if s = "nan" then some .nan
  else if s = "nz" then some .negz
  else if s.startsWith "n:" then (parseRat? (s.drop 2).toString).map .num
  else if s.startsWith "s:" then (decodeHex? (s.drop 2).toString).map fun t => .str t.toList
  else if s.startsWith "i:" then ((s.drop 2).toString.toInt?).map .int
  else none

def parseEnv? (s : String) : Option Env :=
  if s = "[]" then some [] else
  (s.splitOn ";").mapM fun kv =>
    match kv.splitOn "=" with
    | [k, v] => (parseValue? v).map fun x => (k, x)
    | _ => none

def parseOptTxt? (s : String) : Option (Option (List Char)) :=
  if s = "-" then some none else (decodeHex? s).map fun t => some t.toList

def parseStation? (s : String) : Option Station :=
  match s.splitOn "~" with
  | [k, d, c, p] => do
    let key ← decodeHex? k
    let domes ← parseOptTxt? d
    let plate ← parseOptTxt? p
    let xyz ← if c = "-" then some none else
      match c.splitOn ";" with
      | [x, y, z] => do
        let x ← parseValue? x; let y ← parseValue? y; let z ← parseValue? z
        pure (some (x, y, z))
      | _ => none
    pure { key := key.toList, xyz := xyz, domes := domes, plate := plate }
  | _ => none

def atSign : String := String.singleton (Char.ofNat 64)

def parseEpoch? (ep : String) : Option (Int × Env) :=
  match ep.splitOn atSign with
  | [t, env] => do
    let t ← t.toInt?
    let env ← parseEnv? env
    pure (t, env)
  | _ => none

def parseCsvRow? (rw : String) : Option (List Char × List Value) :=
  match rw.splitOn atSign with
  | [d, vs] => do
    let d ← decodeHex? d
    let vs ← (vs.splitOn ";").mapM parseValue?
    pure (d.toList, vs)
  | _ => none

def showLines : Option (List (List Char)) → String
  | none => "err"
  | some [] => "[]"
  | some ls => ",".intercalate (ls.map hexOf)

def parseCsvFmt? (s : String) : Option CsvFmt :=
  if s = "s" then some .s else if s = "d" then some .d
  else if s.startsWith "f" then ((s.drop 1).toString.toNat?).map .f else none

/-- does `line` decompose into the cells at their nominal widths (literals in place)? a zero-width
field — and a cell whose spec the cell model does not cover (`other`: datetime `%` specs, `e`) — takes
everything up to the next literal (or the end) -/
partial def conforms : List Cell → List Char → Bool
  | [], rest => rest.isEmpty
  | .lit t :: cs, rest =>
    let tl := t.toList
    if tl.isPrefixOf rest then conforms cs (rest.drop tl.length) else false
  | .fld _ spec :: cs, rest =>
    if spec.width = 0 then
      match cs with
      | .lit t :: _ =>
        -- shortest split such that the remainder conforms
        let n := rest.length
        (List.range (n + 1)).any fun k => (t.toList.isPrefixOf (rest.drop k)) && conforms cs (rest.drop k)
      | _ => (List.range (rest.length + 1)).any fun k => conforms cs (rest.drop k)
    else
      -- a cell may legitimately be wider than its width only by overflowing; that is non-conformant
      if rest.length < spec.width then false else conforms cs (rest.drop spec.width)
  | .other _ :: cs, rest =>
    match cs with
    | .lit t :: _ =>
      let n := rest.length
      (List.range (n + 1)).any fun k => (t.toList.isPrefixOf (rest.drop k)) && conforms cs (rest.drop k)
    | _ => (List.range (rest.length + 1)).any fun k => conforms cs (rest.drop k)

def showField : FieldVal → String
  | .f8 (some q) => "f:" ++ showRat q
  | .f8 none => "f:nan"
  | .u t => "u:" ++ (if t.isEmpty then "." else hexOf t)

def showRows (rows : List (List FieldVal)) : String :=
  if rows.isEmpty then "[]" else "|".intercalate (rows.map fun r => ";".intercalate (r.map showField))

def showFile : Option (List Char) → String
  | none => "err"
  | some t => hexOf t

def parseTexts? (s : String) : Option (List (List Char)) :=
  (parseList? (fun x => if x = "." then some "" else decodeHex? x) s).map fun l => l.map String.toList

def parseEntry? (s : String) : Option Midgard.WriterSta.Entry :=
  match s.splitOn ":" with
  | [a, b, c] => do
    let a ← a.toInt?; let b ← b.toInt?; let c ← c.toNat?
    pure ⟨a, b, c⟩
  | _ => none

def showRecord (rcv ant ecc : Midgard.WriterSta.Hist) (r : Midgard.WriterSta.Record) : String :=
  s!"{r.from_}:{r.to_}:{rcv.idxOf r.rcv}:{ant.idxOf r.ant}:{ecc.idxOf r.ecc}"

def showCol : Midgard.WriterCsv.Col → String
  | .ints l => "i:" ++ "/".intercalate (l.map toString)
  | .floats l => "f:" ++ "/".intercalate (l.map fun q => match q with | some q => (showRat q).replace "/" "d" | none => "nan")
  | .strs l => "s:" ++ "/".intercalate (l.map hexOf)
  | .other => "o:"

def handle : List String → Option String
  | ["c17", "csvparse", hx] => do
    let t ← decodeHex? hx
    let cols := Midgard.WriterCsv.csvParse t.toList
    pure (if cols.isEmpty then "[]" else ";".intercalate (cols.map fun (n, c) => encodeHex n ++ "=" ++ showCol c))
  | ["c17", "starecords", sf, rcv, ant, ecc] => do
    let sf ← parseBool? sf
    let rcv ← parseList? parseEntry? rcv
    let ant ← parseList? parseEntry? ant
    let ecc ← parseList? parseEntry? ecc
    pure (showList (showRecord rcv ant ecc) (Midgard.WriterSta.staRecords sf rcv ant ecc))
  | ["c17", "crdfile", texts, nan, sts] => do
    let ts ← parseTexts? texts
    let nan ← parseBool? nan
    let sts ← parseList? parseStation? sts
    pure (showFile (crdFile ts nan sts))
  | ["c17", "crdrange", texts, nan, sts] => do
    let ts ← parseTexts? texts
    let nan ← parseBool? nan
    let sts ← parseList? parseStation? sts
    pure (showBool (crdInRange ts nan sts))
  | ["c17", "velrange", texts, nan, sts] => do
    let ts ← parseTexts? texts
    let nan ← parseBool? nan
    let sts ← parseList? parseStation? sts
    pure (showBool (velInRange ts nan sts))
  | ["c17", "velfile", texts, nan, sts] => do
    let ts ← parseTexts? texts
    let nan ← parseBool? nan
    let sts ← parseList? parseStation? sts
    pure (showFile (velFile ts nan sts))
  | ["c17", "clufile", texts, keys] => do
    let ts ← parseTexts? texts
    let ks ← parseList? decodeHex? keys
    pure (showFile (cluFile ts (ks.map String.toList)))
  | ["c17", "clurange", texts, keys] => do
    let ts ← parseTexts? texts
    let ks ← parseList? decodeHex? keys
    pure (showBool (cluInRange ts (ks.map String.toList)))
  | ["c17", "crdparse", hx] => do
    let t ← decodeHex? hx
    pure (showRows (crdParse t.toList))
  | ["c17", "cluparse", hx] => do
    let t ← decodeHex? hx
    pure (showRows (cluParse t.toList))
  | ["c17", "row", w, line, env] => do
    let line ← line.toNat?
    let env ← parseEnv? env
    match renderNamed (rowAt w line) env with
    | some l => pure (hexOf l)
    | none => pure "err"
  | ["c17", "nominal", w, line] => do
    let line ← line.toNat?
    pure (",".intercalate ((nominal (rowAt w line)).map fun (n, a, b) => s!"{encodeHex n}:{a}:{b}"))
  | ["c17", "conforms", w, line, hx] => do
    let line ← line.toNat?
    let t ← decodeHex? hx
    pure (showBool (conforms (rowAt w line) t.toList))
  | ["c17", "crd", nan, sts] => do
    let nan ← parseBool? nan
    let sts ← parseList? parseStation? sts
    pure (showLines (crdBody nan sts))
  | ["c17", "vel", nan, sts] => do
    let nan ← parseBool? nan
    let sts ← parseList? parseStation? sts
    pure (showLines (velBody nan sts))
  | ["c17", "clu", keys] => do
    let ks ← parseList? decodeHex? keys
    pure (showLines (cluBody (ks.map String.toList)))
  | ["c17", "tmscols", fields] => do
    let fs ← parseList? some fields
    pure (showList id (tmsColumns fs))
  | ["c17", "tmshdr", cols] => do
    let cs ← parseList? some cols
    match tmsHeader cs with
    | some l => pure (hexOf l)
    | none => pure "err"
  | ["c17", "tmsdata", cols, eps] => do
    let cs ← parseList? some cols
    let es ← if eps = "[]" then some [] else (eps.splitOn "|").mapM parseEpoch?
    pure (showLines (tmsData cs es))
  | ["c17", "tmsrange", cols, eps] => do
    let cs ← parseList? some cols
    let es ← if eps = "[]" then some [] else (eps.splitOn "|").mapM parseEpoch?
    pure (showBool (tmsRowsInRange cs (es.map (·.2))))
  | ["c17", "csvsplit", hx] => do
    let t ← decodeHex? hx
    pure (",".intercalate ((splitSep t.toList).map hexOf))
  | ["c17", "blocks", a, b, c] => do
    let a ← parseBool? a; let b ← parseBool? b; let c ← parseBool? c
    let m := tmsMarkers (tmsBlocks a b c)
    pure (",".intercalate (m.map encodeHex) ++ " " ++ showBool (balanced none m))
  | ["c17", "csv", fmts, rws] => do
    let fs ← parseList? parseCsvFmt? fmts
    let rs ← if rws = "[]" then some [] else (rws.splitOn "|").mapM parseCsvRow?
    pure (showLines (csvBody fs rs))
  | _ => none

end Driver.C17

def main : IO Unit := Driver.run Driver.C17.handle
