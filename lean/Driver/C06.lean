import Driver.Loop

/-! Driver for C06: placeholder until the model is written. -/
namespace Driver.C06

def handle : List String → Option String
  | _ => none

end Driver.C06

def main : IO Unit := Driver.run Driver.C06.handle
