import Driver.GeoWire
import Midgard.Model.Rotation
import Midgard.Model.Frames
import Midgard.Model.Geodetic
import Midgard.Generated.Ellipsoids

/-! Driver for C06: the rotation / local-frame model at `Rat` (`q`) and `Float` (`f`). -/
namespace Driver.C06
open Midgard.Proto Midgard.Geo Driver.GeoWire

def ellF? (name : String) : Option (Ellipsoid Float) :=
  (Midgard.Generated.Ellipsoids.table.find? (·.1 == name)).map
    (fun r => ⟨ratToFloat r.2.a, r.2.fInv.map ratToFloat⟩)

section Alg
variable {α : Type} [Wire α] [Add α] [Sub α] [Mul α] [Neg α] [Zero α] [One α]

def axisCS? (k : String) (c s : α) : Option (M3 α) :=
  match k with
  | "1" => some (R1cs c s) | "2" => some (R2cs c s) | "3" => some (R3cs c s) | _ => none

def daxisCS? (k : String) (c s : α) : Option (M3 α) :=
  match k with
  | "1" => some (dR1cs c s) | "2" => some (dR2cs c s) | "3" => some (dR3cs c s) | _ => none

/-- commands that only need ring operations (both modes) -/
def handleAlg : List String → Option String
  | ["Rcs", k, c, s] => do
    let c ← Wire.parse? c; let s ← Wire.parse? s
    (axisCS? (α := α) k c s).map showM3
  | ["dRcs", k, c, s] => do
    let c ← Wire.parse? c; let s ← Wire.parse? s
    (daxisCS? (α := α) k c s).map showM3
  | "enu2trsCS" :: rest => do
    match ← parseAll? (α := α) rest with
    | [cl, sl, co, so] => pure (showM3 (enu2trsCS cl sl co so))
    | _ => none
  | "trs2enuCS" :: rest => do
    match ← parseAll? (α := α) rest with
    | [cl, sl, co, so] => pure (showM3 (trs2enuCS cl sl co so))
    | _ => none
  | "dtrs2enuCS" :: rest => do
    match ← parseAll? (α := α) rest with
    | [cl, sl, co, so, x, y, z] => pure (showV3 (deltaTrs2EnuCS cl sl co so ⟨x, y, z⟩))
    | _ => none
  | "denu2trsCS" :: rest => do
    match ← parseAll? (α := α) rest with
    | [cl, sl, co, so, x, y, z] => pure (showV3 (deltaEnu2TrsCS cl sl co so ⟨x, y, z⟩))
    | _ => none
  | "d6trs2enuCS" :: rest => do
    match ← parseAll? (α := α) rest with
    | [cl, sl, co, so, x, y, z, vx, vy, vz] =>
      pure (showV6 (deltaTrs2EnuPosVelCS cl sl co so ⟨⟨x, y, z⟩, ⟨vx, vy, vz⟩⟩))
    | _ => none
  | "d6enu2trsCS" :: rest => do
    match ← parseAll? (α := α) rest with
    | [cl, sl, co, so, x, y, z, vx, vy, vz] =>
      pure (showV6 (deltaEnu2TrsPosVelCS cl sl co so ⟨⟨x, y, z⟩, ⟨vx, vy, vz⟩⟩))
    | _ => none
  | "mulvec" :: rest => do
    match ← parseAll? (α := α) rest with
    | [a, b, c, d, e, f, g, h, i, x, y, z] =>
      pure (showV3 ((M3.mk ⟨a, b, c⟩ ⟨d, e, f⟩ ⟨g, h, i⟩).mulVec ⟨x, y, z⟩))
    | _ => none
  | _ => none

end Alg

/-! array level (`Model/Frames.lean`): `rows KIND K i₁ … i_K data…` — the rows `i₁ … i_K` of the reference positions and
of the values (`array[idx]`: an integer, a slice, a list or a mask written as row numbers), converted row by row, each row
in the frame of its own reference position.  One row of `data` is `lat lon | d` (ENU kinds) or `r v | w` (ACR kinds). -/

def chunk {β : Type} (k : Nat) (l : List β) : List (List β) :=
  if k = 0 then [] else go l.length l
where
  go : Nat → List β → List (List β)
    | 0, _ => []
    | _, [] => []
    | f + 1, l => l.take k :: go f (l.drop k)

def refLL? : List Float → Option (PosObj Float × List Float)
  | lat :: lon :: rest => some (⟨V3.zero, V3.zero, lat, lon, 0⟩, rest)
  | _ => none
def refRV? : List Float → Option (PosObj Float × List Float)
  | x :: y :: z :: vx :: vy :: vz :: rest => some (⟨⟨x, y, z⟩, ⟨vx, vy, vz⟩, 0, 0, 0⟩, rest)
  | _ => none
def v3? : List Float → Option (V3 Float)
  | [x, y, z] => some ⟨x, y, z⟩
  | _ => none
def v6? : List Float → Option (V6 Float)
  | [x, y, z, vx, vy, vz] => some ⟨⟨x, y, z⟩, ⟨vx, vy, vz⟩⟩
  | _ => none

def rowsCmd {β : Type} (width : Nat) (ref? : List Float → Option (PosObj Float × List Float)) (val? : List Float → Option β)
    (conv : List (PosObj Float) → List β → List β) (render : β → String) (idx : List Nat) (xs : List Float) :
    Option String := do
  let rows ← (chunk width xs).mapM (fun r => do
    let (o, rest) ← ref? r
    let v ← val? rest
    pure (o, v))
  if rows.length * width != xs.length then none
  let out := conv (takeRows (rows.map (·.1)) idx) (takeRows (rows.map (·.2)) idx)
  pure (" ".intercalate (out.map render))

/-- `rowsb KIND NREF NVAL data…`: NREF reference rows, then NVAL value rows, paired the way NumPy broadcasts them;
`refused` when the shapes are not accepted -/
def rowsBCmd {β : Type} (wref wval : Nat) (ref? : List Float → Option (PosObj Float × List Float)) (val? : List Float → Option β)
    (conv : List (PosObj Float) → List β → Option (List β)) (render : β → String) (nref nval : Nat) (xs : List Float) :
    Option String := do
  if nref * wref + nval * wval != xs.length then none
  let refs ← (chunk wref (xs.take (nref * wref))).mapM (fun r => (ref? r).map (·.1))
  let vals ← (chunk wval (xs.drop (nref * wref))).mapM val?
  match conv refs vals with
  | some out => pure (" ".intercalate (out.map render))
  | none => pure "refused"

def angles? (kind : String) (xs : List Float) : Option (Angles Float) :=
  match kind, xs with
  | "s", [a] => some (.scalar a)
  | "a", as => some (.array as)
  | _, _ => none

/-- commands through libm (`f` mode only) -/
def handleF : List String → Option String
  | "rowsb" :: kind :: nref :: nval :: rest => do
    let nref ← nref.toNat?; let nval ← nval.toNat?
    let xs ← parseAll? (α := Float) rest
    match kind with
    | "trs2enu" => rowsBCmd 2 3 refLL? v3? (rowsWithB deltaTrs2Enu) showV3 nref nval xs
    | "enu2trs" => rowsBCmd 2 3 refLL? v3? (rowsWithB deltaEnu2Trs) showV3 nref nval xs
    | "d6trs2enu" => rowsBCmd 2 6 refLL? v6? (rowsWithB deltaTrs2EnuPosVel) showV6 nref nval xs
    | "trs2acr" => rowsBCmd 6 6 refRV? v6? (rowsWithB deltaTrs2Acr) showV6 nref nval xs
    | "acr2trs" => rowsBCmd 6 6 refRV? v6? (rowsWithB deltaAcr2Trs) showV6 nref nval xs
    | _ => none
  | "rowsazelb" :: nobs :: ntgt :: rest => do
    -- NOBS observers (lat lon px py pz), then NTGT targets (qx qy qz)
    let nobs ← nobs.toNat?; let ntgt ← ntgt.toNat?
    let xs ← parseAll? (α := Float) rest
    if nobs * 5 + ntgt * 3 != xs.length then none
    let obs ← (chunk 5 (xs.take (nobs * 5))).mapM (fun r => match r with
      | [lat, lon, px, py, pz] => some (⟨⟨px, py, pz⟩, V3.zero, lat, lon, 0⟩ : PosObj Float)
      | _ => none)
    let tgt ← (chunk 3 (xs.drop (nobs * 5))).mapM (fun r => match r with
      | [qx, qy, qz] => some (⟨⟨qx, qy, qz⟩, V3.zero, 0, 0, 0⟩ : PosObj Float)
      | _ => none)
    match rowsAzElZdB obs tgt with
    | some out => pure (" ".intercalate (out.map (fun t => s!"{Wire.render t.1} {Wire.render t.2.1} {Wire.render t.2.2}")))
    | none => pure "refused"
  | "anglemats" :: which :: klat :: nlat :: klon :: rest => do
    -- enu2trs / trs2enu for a scalar (`s`) or array (`a`) latitude and longitude
    let nlat ← nlat.toNat?
    let xs ← parseAll? (α := Float) rest
    let lat ← angles? klat (xs.take nlat)
    let lon ← angles? klon (xs.drop nlat)
    let m ← match which with
      | "enu2trs" => some (enu2trs (α := Float)) | "trs2enu" => some (trs2enu (α := Float)) | _ => none
    match angleMatrices m lat lon with
    | some out => pure (" ".intercalate (out.map showM3))
    | none => pure "refused"
  | "vecs" :: rest => do
    -- vector / distance / direction of an observer given in trs (px py pz | qx qy qz) and in llh (lat lon h | lat lon h)
    match ← parseAll? (α := Float) rest with
    | [px, py, pz, qx, qy, qz, la, lo, h, la2, lo2, h2] =>
      let o : PosObj Float := ⟨⟨px, py, pz⟩, V3.zero, la, lo, h⟩
      let t : PosObj Float := ⟨⟨qx, qy, qz⟩, V3.zero, la2, lo2, h2⟩
      pure s!"{showV3 (o.vectorTo t)} {Wire.render (o.distanceTo t)} {showV3 (o.direction t)} {showV3 (o.vectorToLlh t)} {Wire.render (o.distanceToLlh t)} {showV3 (o.directionLlh t)}"
    | _ => none
  | "rows" :: kind :: k :: rest => do
    let k ← k.toNat?
    let idx ← (rest.take k).mapM String.toNat?
    let xs ← parseAll? (α := Float) (rest.drop k)
    match kind with
    | "trs2enu" => rowsCmd 5 refLL? v3? rowsTrs2Enu showV3 idx xs
    | "enu2trs" => rowsCmd 5 refLL? v3? rowsEnu2Trs showV3 idx xs
    | "d6trs2enu" => rowsCmd 8 refLL? v6? rowsTrs2EnuPosVel showV6 idx xs
    | "d6enu2trs" => rowsCmd 8 refLL? v6? rowsEnu2TrsPosVel showV6 idx xs
    | "trs2acr" => rowsCmd 12 refRV? v6? rowsTrs2Acr showV6 idx xs
    | "acr2trs" => rowsCmd 12 refRV? v6? rowsAcr2Trs showV6 idx xs
    | _ => none
  | "rowsazel" :: rest => do
    -- per row: lat lon of the observer, TRS coordinates of observer and target
    let xs ← parseAll? (α := Float) rest
    let rows ← (chunk 8 xs).mapM (fun r => match r with
      | [lat, lon, px, py, pz, qx, qy, qz] =>
        some ((⟨⟨px, py, pz⟩, V3.zero, lat, lon, 0⟩ : PosObj Float), (⟨⟨qx, qy, qz⟩, V3.zero, 0, 0, 0⟩ : PosObj Float))
      | _ => none)
    if rows.length * 8 != xs.length then none
    let out := rowsAzElZd (rows.map (·.1)) (rows.map (·.2))
    pure (" ".intercalate (out.map (fun t => s!"{Wire.render t.1} {Wire.render t.2.1} {Wire.render t.2.2}")))
  | ["R", k, a] => do
    let a : Float ← Wire.parse? a
    (axisCS? k (Trig.cos a) (Trig.sin a)).map showM3
  | ["dR", k, a] => do
    let a : Float ← Wire.parse? a
    (daxisCS? k (Trig.cos a) (Trig.sin a)).map showM3
  | ["enu2trs", lat, lon] => do
    let lat : Float ← Wire.parse? lat; let lon : Float ← Wire.parse? lon
    pure (showM3 (enu2trs lat lon))
  | ["trs2enu", lat, lon] => do
    let lat : Float ← Wire.parse? lat; let lon : Float ← Wire.parse? lon
    pure (showM3 (trs2enu lat lon))
  | "frame" :: ell :: rest => do
    -- trs2enu matrix at a reference position given in TRS on a named ellipsoid
    let E ← ellF? ell
    match ← parseAll? (α := Float) rest with
    | [x, y, z] =>
      let g := trs2llh E ⟨x, y, z⟩
      pure (showM3 (trs2enu g.lat g.lon))
    | _ => none
  | "frameP" :: hasf :: rest => do
    -- the frame of an observer on an ellipsoid given by its *parameters* (a user-built ellipsoid: semi-major axis and,
    -- when `hasf` is 1, inverse flattening): trs2enu (9 numbers), then lat lon h of the model's trs2llh
    match ← parseAll? (α := Float) rest with
    | [a, finv, x, y, z] =>
      let E : Ellipsoid Float := ⟨a, if hasf == "1" then some finv else none⟩
      let g := trs2llh E ⟨x, y, z⟩
      pure s!"{showM3 (trs2enu g.lat g.lon)} {Wire.render g.lat} {Wire.render g.lon} {Wire.render g.h}"
    | _ => none
  | "trs2acr" :: rest => do
    match ← parseAll? (α := Float) rest with
    | [x, y, z, vx, vy, vz] => pure (showM3 (trs2acr ⟨x, y, z⟩ ⟨vx, vy, vz⟩))
    | _ => none
  | "acr2trs" :: rest => do
    match ← parseAll? (α := Float) rest with
    | [x, y, z, vx, vy, vz] => pure (showM3 (acr2trs ⟨x, y, z⟩ ⟨vx, vy, vz⟩))
    | _ => none
  | "d6trs2acr" :: rest => do
    match ← parseAll? (α := Float) rest with
    | [x, y, z, vx, vy, vz, a, b, c, d, e, f] =>
      pure (showV6 (deltaTrs2AcrPosVel ⟨x, y, z⟩ ⟨vx, vy, vz⟩ ⟨⟨a, b, c⟩, ⟨d, e, f⟩⟩))
    | _ => none
  | "d6acr2trs" :: rest => do
    match ← parseAll? (α := Float) rest with
    | [x, y, z, vx, vy, vz, a, b, c, d, e, f] =>
      pure (showV6 (deltaAcr2TrsPosVel ⟨x, y, z⟩ ⟨vx, vy, vz⟩ ⟨⟨a, b, c⟩, ⟨d, e, f⟩⟩))
    | _ => none
  | "azel" :: rest => do
    -- lat lon of the reference position, then the TRS coordinates of reference and target
    match ← parseAll? (α := Float) rest with
    | [lat, lon, px, py, pz, qx, qy, qz] =>
      let cl := Trig.cos lat; let sl := Trig.sin lat; let co := Trig.cos lon; let so := Trig.sin lon
      let dir := directionTo (V3.mk px py pz) ⟨qx, qy, qz⟩
      pure s!"{Wire.render (azimuthCS cl sl co so dir)} {Wire.render (elevationCS cl sl co so dir)} {Wire.render (zenithDistanceCS cl sl co so dir)}"
    | _ => none
  | _ => none

def handle : List String → Option String
  | "c06" :: "q" :: rest => handleAlg (α := Rat) rest
  | "c06" :: "f" :: rest => (handleAlg (α := Float) rest).orElse (fun _ => handleF rest)
  | _ => none

end Driver.C06

def main : IO Unit := Driver.run Driver.C06.handle
