import Driver.GeoWire
import Midgard.Model.Rotation
import Midgard.Model.Geodetic
import Midgard.Generated.Ellipsoids

/-! Driver for C06: the rotation / local-frame model at `Rat` (`q`) and `Float` (`f`). -/
namespace Driver.C06
open Midgard.Proto Midgard.Geo Driver.GeoWire

def ellF? (name : String) : Option (Ellipsoid Float) :=
  (Midgard.Generated.Ellipsoids.table.find? (·.1 == name)).map
    (fun r => ⟨ratToFloat r.2.a, r.2.fInv.map ratToFloat⟩)

section Alg
variable {α : Type} [Wire α] [Add α] [Sub α] [Mul α] [Neg α] [Zero α] [One α]

def axisCS? (k : String) (c s : α) : Option (M3 α) :=
  match k with
  | "1" => some (R1cs c s) | "2" => some (R2cs c s) | "3" => some (R3cs c s) | _ => none

def daxisCS? (k : String) (c s : α) : Option (M3 α) :=
  match k with
  | "1" => some (dR1cs c s) | "2" => some (dR2cs c s) | "3" => some (dR3cs c s) | _ => none

/-- commands that only need ring operations (both modes) -/
def handleAlg : List String → Option String
  | ["Rcs", k, c, s] => do
    let c ← Wire.parse? c; let s ← Wire.parse? s
    (axisCS? (α := α) k c s).map showM3
  | ["dRcs", k, c, s] => do
    let c ← Wire.parse? c; let s ← Wire.parse? s
    (daxisCS? (α := α) k c s).map showM3
  | "enu2trsCS" :: rest => do
    match ← parseAll? (α := α) rest with
    | [cl, sl, co, so] => pure (showM3 (enu2trsCS cl sl co so))
    | _ => none
  | "trs2enuCS" :: rest => do
    match ← parseAll? (α := α) rest with
    | [cl, sl, co, so] => pure (showM3 (trs2enuCS cl sl co so))
    | _ => none
  | "dtrs2enuCS" :: rest => do
    match ← parseAll? (α := α) rest with
    | [cl, sl, co, so, x, y, z] => pure (showV3 (deltaTrs2EnuCS cl sl co so ⟨x, y, z⟩))
    | _ => none
  | "denu2trsCS" :: rest => do
    match ← parseAll? (α := α) rest with
    | [cl, sl, co, so, x, y, z] => pure (showV3 (deltaEnu2TrsCS cl sl co so ⟨x, y, z⟩))
    | _ => none
  | "d6trs2enuCS" :: rest => do
    match ← parseAll? (α := α) rest with
    | [cl, sl, co, so, x, y, z, vx, vy, vz] =>
      pure (showV6 (deltaTrs2EnuPosVelCS cl sl co so ⟨⟨x, y, z⟩, ⟨vx, vy, vz⟩⟩))
    | _ => none
  | "d6enu2trsCS" :: rest => do
    match ← parseAll? (α := α) rest with
    | [cl, sl, co, so, x, y, z, vx, vy, vz] =>
      pure (showV6 (deltaEnu2TrsPosVelCS cl sl co so ⟨⟨x, y, z⟩, ⟨vx, vy, vz⟩⟩))
    | _ => none
  | "mulvec" :: rest => do
    match ← parseAll? (α := α) rest with
    | [a, b, c, d, e, f, g, h, i, x, y, z] =>
      pure (showV3 ((M3.mk ⟨a, b, c⟩ ⟨d, e, f⟩ ⟨g, h, i⟩).mulVec ⟨x, y, z⟩))
    | _ => none
  | _ => none

end Alg

/-- commands through libm (`f` mode only) -/
def handleF : List String → Option String
  | ["R", k, a] => do
    let a : Float ← Wire.parse? a
    (axisCS? k (Trig.cos a) (Trig.sin a)).map showM3
  | ["dR", k, a] => do
    let a : Float ← Wire.parse? a
    (daxisCS? k (Trig.cos a) (Trig.sin a)).map showM3
  | ["enu2trs", lat, lon] => do
    let lat : Float ← Wire.parse? lat; let lon : Float ← Wire.parse? lon
    pure (showM3 (enu2trs lat lon))
  | ["trs2enu", lat, lon] => do
    let lat : Float ← Wire.parse? lat; let lon : Float ← Wire.parse? lon
    pure (showM3 (trs2enu lat lon))
  | "frame" :: ell :: rest => do
    -- trs2enu matrix at a reference position given in TRS on a named ellipsoid
    let E ← ellF? ell
    match ← parseAll? (α := Float) rest with
    | [x, y, z] =>
      let g := trs2llh E ⟨x, y, z⟩
      pure (showM3 (trs2enu g.lat g.lon))
    | _ => none
  | "trs2acr" :: rest => do
    match ← parseAll? (α := Float) rest with
    | [x, y, z, vx, vy, vz] => pure (showM3 (trs2acr ⟨x, y, z⟩ ⟨vx, vy, vz⟩))
    | _ => none
  | "acr2trs" :: rest => do
    match ← parseAll? (α := Float) rest with
    | [x, y, z, vx, vy, vz] => pure (showM3 (acr2trs ⟨x, y, z⟩ ⟨vx, vy, vz⟩))
    | _ => none
  | "d6trs2acr" :: rest => do
    match ← parseAll? (α := Float) rest with
    | [x, y, z, vx, vy, vz, a, b, c, d, e, f] =>
      pure (showV6 (deltaTrs2AcrPosVel ⟨x, y, z⟩ ⟨vx, vy, vz⟩ ⟨⟨a, b, c⟩, ⟨d, e, f⟩⟩))
    | _ => none
  | "d6acr2trs" :: rest => do
    match ← parseAll? (α := Float) rest with
    | [x, y, z, vx, vy, vz, a, b, c, d, e, f] =>
      pure (showV6 (deltaAcr2TrsPosVel ⟨x, y, z⟩ ⟨vx, vy, vz⟩ ⟨⟨a, b, c⟩, ⟨d, e, f⟩⟩))
    | _ => none
  | "azel" :: rest => do
    -- lat lon of the reference position, then the TRS coordinates of reference and target
    match ← parseAll? (α := Float) rest with
    | [lat, lon, px, py, pz, qx, qy, qz] =>
      let cl := Trig.cos lat; let sl := Trig.sin lat; let co := Trig.cos lon; let so := Trig.sin lon
      let dir := directionTo (V3.mk px py pz) ⟨qx, qy, qz⟩
      pure s!"{Wire.render (azimuthCS cl sl co so dir)} {Wire.render (elevationCS cl sl co so dir)} {Wire.render (zenithDistanceCS cl sl co so dir)}"
    | _ => none
  | _ => none

def handle : List String → Option String
  | "c06" :: "q" :: rest => handleAlg (α := Rat) rest
  | "c06" :: "f" :: rest => (handleAlg (α := Float) rest).orElse (fun _ => handleF rest)
  | _ => none

end Driver.C06

def main : IO Unit := Driver.run Driver.C06.handle
