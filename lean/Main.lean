import Driver

/-- One line in, one line out.  The first token selects the property's driver module.
Unknown or malformed commands answer `bad-op` (never a default value). -/
def dispatch (line : String) : String :=
  match Midgard.Proto.tokens line with
  | "c03" :: rest => (Driver.C03.handle rest).getD "bad-op"
  | _ => "bad-op"

partial def loop (hin hout : IO.FS.Stream) : IO Unit := do
  let line ← hin.getLine
  if line.isEmpty then return ()
  let l := (line.dropEndWhile (fun c => c == '\n' || c == '\r')).toString
  if l == "flush" then
    hout.putStrLn "flushed"
    hout.flush
  else
    hout.putStrLn (dispatch l)
  loop hin hout

def main : IO Unit := do
  let hin ← IO.getStdin
  let hout ← IO.getStdout
  loop hin hout
  hout.flush
