-- Root of the Midgard model library: imports every module so that `lake build Midgard` checks all.
import Midgard.Core.Proto
import Midgard.Model.TimeArith
import Midgard.Props.C03
