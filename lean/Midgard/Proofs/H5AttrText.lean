/-
C10 — the text layer of the attribute codec is the identity: `decodeText (encodeText m) = m`, given that `str()` and
`ast.parse` are inverse on the literals (`Printer`).
-/
import Midgard.Proofs.H5Attr
import Midgard.Model.H5AttrText

namespace Midgard.H5Attr

theorem partitionBlank_append (tag rest : List Char) (h : ' ' ∉ tag) : partitionBlank (tag ++ ' ' :: rest) = (tag, rest) := by
  induction tag with
  | nil => simp [partitionBlank]
  | cons c t ih =>
    have hc : c ≠ ' ' := fun e => h (by simp [e])
    have ht : ' ' ∉ t := fun e => h (by simp [e])
    simp [partitionBlank, hc, ih ht]

/-- CPython's `str()` on containers and `ast.parse` (after `lstrip`), as far as the codec relies on them -/
structure Printer (render : Ast → List Char) (parse : List Char → Option Ast) : Prop where
  parse_render : ∀ a, parse (render a) = some a
  nonempty : ∀ a, render a ≠ []
  special : ∀ a tag, tag ∈ containerTags → render a = (tag ++ "()").toList → evalAst a = some (emptyOf tag)

theorem dispatch_tagged (tag : String) (htag : tag ∈ containerTags) (r : List Char) (hr : r ≠ []) :
    dispatchText ((tag ++ " ").toList ++ r) = if r = (tag ++ "()").toList then .empty tag else .eval r := by
  have hp : partitionBlank ((tag ++ " ").toList ++ r) = (tag.toList, r) := by
    have : (tag ++ " ").toList ++ r = tag.toList ++ ' ' :: r := by simp
    rw [this]
    apply partitionBlank_append
    simp only [containerTags, List.mem_cons, List.mem_nil_iff, or_false] at htag
    rcases htag with rfl | rfl | rfl | rfl <;> decide
  have hc : containerTags.contains tag = true := by simpa using htag
  simp only [dispatchText, hp, String.ofList_toList, hc, if_true, hr, false_or]

theorem dispatch_str (s : String) : dispatchText ("str ".toList ++ s.toList) = .str s.toList := by
  have hp : partitionBlank ("str ".toList ++ s.toList) = ("str".toList, s.toList) := by
    have : "str ".toList ++ s.toList = "str".toList ++ ' ' :: s.toList := by simp
    rw [this]
    apply partitionBlank_append
    decide
  simp only [dispatchText, hp, String.ofList_toList]
  simp [containerTags]

/-- **`decode_h5attr (encode_h5attr m) = m` at the level of the stored text**: the tag, the blank, the splitting at the first
blank, the empty-container spellings and the `str ` prefix of strings (a string is stored with the prefix whatever it
spells, and comes back as it was) -/
theorem decodeText_encodeText {render : Ast → List Char} {parse : List Char → Option Ast} (P : Printer render parse)
    (m : Meta) (a : TAttr) (h : encodeText render m = some a) : decodeText parse a = some m := by
  have container : ∀ (tag : String) (m : Meta), tag ∈ containerTags → (emptyOf tag = m ∨ True) →
      (evalAst (toAst m) = some (emptyOf tag) → m = emptyOf tag) →
      decodeText parse (.text ((tag ++ " ").toList ++ render (toAst m))) = some m := by
    intro tag m htag _ hinj
    simp only [decodeText, dispatch_tagged tag htag _ (P.nonempty _)]
    by_cases heq : render (toAst m) = (tag ++ "()").toList
    · simp only [heq, if_true]
      exact congrArg some (hinj (P.special _ tag htag heq)).symm
    · simp only [heq, if_false, P.parse_render, Option.bind_some, evalAst_toAst]
  cases m with
  | atom x =>
    cases x with
    | str s =>
      simp only [encodeText, Option.some.injEq] at h
      subst h
      simp only [decodeText, dispatch_str, String.ofList_toList]
    | none => simp [encodeText] at h
    | int i => simp only [encodeText, Option.some.injEq] at h; subst h; rfl
    | flt q => simp only [encodeText, Option.some.injEq] at h; subst h; rfl
    | nan => simp only [encodeText, Option.some.injEq] at h; subst h; rfl
    | inf => simp only [encodeText, Option.some.injEq] at h; subst h; rfl
    | ninf => simp only [encodeText, Option.some.injEq] at h; subst h; rfl
    | bool b => simp only [encodeText, Option.some.injEq] at h; subst h; rfl
  | list xs =>
    simp only [encodeText, Option.some.injEq] at h
    subst h
    exact container "list" (.list xs) (by simp [containerTags]) (Or.inr trivial) (by
      intro he; rw [evalAst_toAst] at he; exact Option.some.inj he)
  | tuple xs =>
    simp only [encodeText, Option.some.injEq] at h
    subst h
    exact container "tuple" (.tuple xs) (by simp [containerTags]) (Or.inr trivial) (by
      intro he; rw [evalAst_toAst] at he; exact Option.some.inj he)
  | set xs =>
    simp only [encodeText, Option.some.injEq] at h
    subst h
    exact container "set" (.set xs) (by simp [containerTags]) (Or.inr trivial) (by
      intro he; rw [evalAst_toAst] at he; exact Option.some.inj he)
  | dict kvs =>
    simp only [encodeText, Option.some.injEq] at h
    subst h
    exact container "dict" (.dict kvs) (by simp [containerTags]) (Or.inr trivial) (by
      intro he; rw [evalAst_toAst] at he; exact Option.some.inj he)

end Midgard.H5Attr
