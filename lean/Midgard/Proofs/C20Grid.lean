/-
C20 — bilinear interpolation on a rectangular grid (regular_grid_interpolator) and the angles of gsdtime_sun that are
rational in the date (np.mod(·, 360)).
-/
import Midgard.Model.Numeric
import Midgard.Proofs.C20Lagrange
import Mathlib.Tactic.Ring
import Mathlib.Tactic.FieldSimp
import Mathlib.Tactic.Linarith

namespace Midgard.Proofs.C20
open Midgard.Numeric

/-! ### bilinear interpolation -/

/-- piecewise linear interpolation reproduces affine data exactly -/
theorem linearAt_affine (xs : List ℚ) (rows : List (List ℚ)) (dim c : ℕ) (hc : c < dim) (hp : xs.Pairwise (· < ·))
    (hn : 2 ≤ xs.length) (p q x : ℚ)
    (hdata : ∀ i, i < xs.length → (rows.getD i []).getD c 0 = p + q * xs.getD i 0) :
    (linearAt xs rows dim x).getD c 0 = p + q * x := by
  unfold linearAt
  simp only [List.getD_eq_getElem?_getD, List.getElem?_map, List.getElem?_range hc, Option.map_some, Option.getD_some]
  simp only [← List.getD_eq_getElem?_getD]
  have h1 : max 1 (min (searchLeft xs x) (xs.length - 1)) < xs.length := by omega
  have h0 : 1 ≤ max 1 (min (searchLeft xs x) (xs.length - 1)) := by omega
  generalize max 1 (min (searchLeft xs x) (xs.length - 1)) = idx at *
  rw [hdata idx h1, hdata (idx - 1) (by omega)]
  have hlt := getD_mem_lt xs hp (idx - 1) idx (by omega) h1
  have hne : xs.getD idx 0 - xs.getD (idx - 1) 0 ≠ 0 := by linarith
  field_simp
  ring

theorem inner_getD (_xs row : List ℚ) (i : ℕ) (c : ℕ) : ((row.map (fun v => [v])).getD i []).getD c 0 = if c = 0 then row.getD i 0 else 0 := by
  by_cases hi : i < row.length
  · simp only [List.getD_eq_getElem?_getD, List.getElem?_map, List.getElem?_eq_getElem hi, Option.map_some, Option.getD_some]
    cases c <;> simp
  · have : row.length ≤ i := by omega
    simp [List.getD_eq_getElem?_getD, List.getElem?_eq_none this]

theorem grid_rows_getD (xs : List ℚ) (grid : List (List ℚ)) (x : ℚ) (k : ℕ) (hk : k < grid.length) :
    ((grid.map (fun row => linearAt xs (row.map (fun v => [v])) 1 x)).getD k []).getD 0 0
      = (linearAt xs ((grid.getD k []).map (fun v => [v])) 1 x).getD 0 0 := by
  simp [List.getD_eq_getElem?_getD, hk]

/-- the bilinear interpolant reproduces functions `c₀ + c₁x + c₂y + c₃xy` -/
theorem bilinear_exact (xs ys : List ℚ) (grid : List (List ℚ)) (hx : xs.Pairwise (· < ·)) (hy : ys.Pairwise (· < ·))
    (hnx : 2 ≤ xs.length) (hny : 2 ≤ ys.length) (hg : grid.length = ys.length) (c0 c1 c2 c3 x y : ℚ)
    (hdata : ∀ k i, k < ys.length → i < xs.length →
      (grid.getD k []).getD i 0 = c0 + c1 * xs.getD i 0 + c2 * ys.getD k 0 + c3 * xs.getD i 0 * ys.getD k 0) :
    bilinearAt xs ys grid x y = c0 + c1 * x + c2 * y + c3 * x * y := by
  unfold bilinearAt
  have e : c0 + c1 * x + c2 * y + c3 * x * y = (c0 + c1 * x) + (c2 + c3 * x) * y := by ring
  rw [e]
  apply linearAt_affine ys _ 1 0 (by omega) hy hny
  intro k hk
  rw [grid_rows_getD xs grid x k (by omega)]
  have e' : c0 + c1 * x + (c2 + c3 * x) * ys.getD k 0 = (c0 + c2 * ys.getD k 0) + (c1 + c3 * ys.getD k 0) * x := by ring
  rw [e']
  apply linearAt_affine xs _ 1 0 (by omega) hx hnx
  intro i hi
  rw [inner_getD xs, if_pos rfl, hdata k i hk hi]
  ring

/-- … in particular the values at the grid nodes -/
theorem bilinear_node (xs ys : List ℚ) (grid : List (List ℚ)) (hx : xs.Pairwise (· < ·)) (hy : ys.Pairwise (· < ·))
    (hnx : 2 ≤ xs.length) (hny : 2 ≤ ys.length) (hg : grid.length = ys.length)
    (k i : ℕ) (hk : k < ys.length) (hi : i < xs.length) :
    bilinearAt xs ys grid (xs.getD i 0) (ys.getD k 0) = (grid.getD k []).getD i 0 := by
  unfold bilinearAt
  rw [linearAt_node ys _ 1 k hy hny hk]
  simp only [List.range_one, List.map_cons, List.map_nil, List.getD_cons_zero]
  rw [grid_rows_getD xs grid _ k (by omega), linearAt_node xs _ 1 i hx hnx hi]
  simp only [List.range_one, List.map_cons, List.map_nil, List.getD_cons_zero]
  rw [inner_getD xs, if_pos rfl]

/-- linear in the grid values -/
theorem bilinear_linear (xs ys : List ℚ) (g₁ g₂ g₃ : List (List ℚ)) (hnx : 2 ≤ xs.length) (hny : 2 ≤ ys.length)
    (l₁ : g₁.length = ys.length) (l₂ : g₂.length = ys.length) (l₃ : g₃.length = ys.length) (a b x y : ℚ)
    (hcomb : ∀ k i, k < ys.length → i < xs.length →
      (g₃.getD k []).getD i 0 = a * (g₁.getD k []).getD i 0 + b * (g₂.getD k []).getD i 0) :
    bilinearAt xs ys g₃ x y = a * bilinearAt xs ys g₁ x y + b * bilinearAt xs ys g₂ x y := by
  unfold bilinearAt
  apply linearAt_linear ys _ _ _ 1 y a b 0 (by omega) hny
  intro k hk
  rw [grid_rows_getD xs g₃ x k (by omega), grid_rows_getD xs g₁ x k (by omega), grid_rows_getD xs g₂ x k (by omega)]
  apply linearAt_linear xs _ _ _ 1 x a b 0 (by omega) hnx
  intro i hi
  rw [inner_getD xs, inner_getD xs, inner_getD xs, if_pos rfl, if_pos rfl, if_pos rfl]
  exact hcomb k i hk hi

/-! ### angles modulo 360 -/

theorem floor_add_int (x : ℚ) (k : ℤ) : (x + k).floor = x.floor + k := by
  apply le_antisymm
  · by_contra h
    have h' : x.floor + k + 1 ≤ (x + k).floor := by omega
    have := Rat.le_floor_iff.mp h'
    have h2 := Rat.lt_floor_add_one x
    push_cast at this h2
    linarith
  · apply Rat.le_floor_iff.mpr
    have := Rat.floor_le x
    push_cast
    linarith

theorem fmod360_range (q : ℚ) : 0 ≤ fmod360 q ∧ fmod360 q < 360 := by
  unfold fmod360
  have h1 := Rat.floor_le (q / 360)
  have h2 := Rat.lt_floor_add_one (q / 360)
  push_cast at h2
  constructor
  · have : ((q / 360).floor : ℚ) * 360 ≤ q := by
      have := mul_le_mul_of_nonneg_right h1 (by norm_num : (0:ℚ) ≤ 360)
      linarith [div_mul_cancel₀ q (by norm_num : (360:ℚ) ≠ 0)]
    linarith
  · have : q < ((q / 360).floor + 1 : ℚ) * 360 := by
      have := mul_lt_mul_of_pos_right h2 (by norm_num : (0:ℚ) < 360)
      linarith [div_mul_cancel₀ q (by norm_num : (360:ℚ) ≠ 0)]
    linarith

theorem fmod360_add_turns (q : ℚ) (k : ℤ) : fmod360 (q + 360 * k) = fmod360 q := by
  unfold fmod360
  have e : (q + 360 * (k : ℚ)) / 360 = q / 360 + k := by field_simp
  rw [e, floor_add_int]
  push_cast
  ring

theorem fmod360_fmod360_add (q r : ℚ) : fmod360 (fmod360 q + r) = fmod360 (q + r) := by
  have e : fmod360 q + r = (q + r) + 360 * ((-(q / 360).floor : ℤ) : ℚ) := by
    unfold fmod360; push_cast; ring
  rw [e, fmod360_add_turns]

end Midgard.Proofs.C20
