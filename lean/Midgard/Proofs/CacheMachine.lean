/-
Simulation proof for C08: the cached machine with good mechanism flags refines the cache-free
reference machine.
-/
import Midgard.Model.CacheMachine
import Mathlib.Tactic.SplitIfs
import Mathlib.Tactic.Common

set_option linter.unusedVariables false
set_option linter.unusedSimpArgs false
set_option linter.unusedTactic false
set_option linter.unreachableTactic false

namespace Midgard.CacheMachine

/-- the mechanism the property needs -/
def Flags.good (fl : Flags) : Prop :=
  fl.keyShape = true ∧ fl.keyTag = true ∧ fl.freezeArg = false ∧ (fl.copyOut = true ∨ fl.frozenOut = true)

instance (fl : Flags) : Decidable fl.good := by unfold Flags.good; infer_instance

theorem mem_evict {cap fn : Nat} : ∀ {seen : Nat} {l : List Entry} {x : Entry}, x ∈ evict cap fn seen l → x ∈ l := by
  intro seen l
  induction l generalizing seen with
  | nil => intro x h; simp [evict] at h
  | cons e es ih =>
    intro x h
    simp only [evict] at h
    split_ifs at h
    · rcases List.mem_cons.mp h with h | h
      · exact h ▸ List.mem_cons_self
      · exact List.mem_cons_of_mem _ (ih h)
    · exact List.mem_cons_of_mem _ (ih h)
    · rcases List.mem_cons.mp h with h | h
      · exact h ▸ List.mem_cons_self
      · exact List.mem_cons_of_mem _ (ih h)

/-- simulation relation between the cached machine and the reference machine -/
structure Sim (fl : Flags) (s : State) (r : RefState) : Prop where
  arrs_eq : s.arrs = r.arrs
  n_handles : s.handles.length = r.nHandles
  writable : ∀ a ∈ s.arrs, a.writable = true
  /-- every cached buffer holds the value of its key -/
  cached : ∀ e ∈ s.cache, ∃ b, s.bufs[e.buf]? = some b ∧ b.content = .app e.fn e.val e.shape e.tag ∧ b.frozen = fl.frozenOut
  /-- handed-out buffers exist -/
  handle_lt : ∀ h ∈ s.handles, h < s.bufs.length
  /-- with `copyOut` the caller never holds a cached buffer, and what it holds is writable -/
  separate : fl.copyOut = true → ∀ e ∈ s.cache, e.buf ∉ s.handles
  /-- without `copyOut` everything handed out is frozen -/
  frozen : fl.copyOut = false → ∀ h ∈ s.handles, ∃ b, s.bufs[h]? = some b ∧ b.frozen = true
  unfrozen : fl.copyOut = true → ∀ h ∈ s.handles, ∃ b, s.bufs[h]? = some b ∧ b.frozen = false

theorem sim_init (fl : Flags) : Sim fl {} {} :=
  ⟨rfl, rfl, by simp, by simp, by simp, by simp, by simp, by simp⟩

theorem matches_good {fl : Flags} (hg : fl.good) {e : Entry} {fn : Nat} {v : Val} {sh : Shape} {tag : Nat}
    (h : e.matches fl fn v sh tag = true) : e.fn = fn ∧ e.val = v ∧ e.shape = sh ∧ e.tag = tag := by
  obtain ⟨h1, h2, _, _⟩ := hg
  simp only [Entry.matches, h1, h2, Bool.not_true, Bool.false_or, Bool.and_eq_true, beq_iff_eq] at h
  exact ⟨h.1.1.1, h.1.1.2, h.1.2, h.2⟩

theorem getElem?_append_left' {α} {l m : List α} {i : Nat} {x : α} (h : l[i]? = some x) : (l ++ m)[i]? = some x := by
  have hi : i < l.length := by
    by_contra hc
    rw [List.getElem?_eq_none (by omega)] at h; cases h
  rw [List.getElem?_append_left hi]; exact h

/-- **One step of the simulation**: same visible output, relation preserved. -/
theorem sim_step {fl : Flags} (hg : fl.good) {s : State} {r : RefState} (hs : Sim fl s r) (op : Op) :
    Sim fl (step fl s op).1 (refStep fl.copyOut r op).1 ∧
      (step fl s op).2.visible = (refStep fl.copyOut r op).2.visible := by
  obtain ⟨hks, hkt, hfz, hout⟩ := hg
  have hg' : fl.good := ⟨hks, hkt, hfz, hout⟩
  cases op with
  | create v sh tag =>
    refine ⟨⟨?_, hs.n_handles, ?_, hs.cached, hs.handle_lt, hs.separate, hs.frozen, hs.unfrozen⟩, by first | rfl | trivial⟩
    · simp [step, refStep, hs.arrs_eq]
    · intro a ha
      simp only [step] at ha
      rcases List.mem_append.mp ha with ha | ha
      · exact hs.writable a ha
      · simp at ha; subst ha; rfl
  | mutate a v =>
    simp only [step, refStep, ← hs.arrs_eq]
    cases ha : s.arrs[a]? with
    | none => exact ⟨hs, by first | rfl | trivial⟩
    | some arr =>
      have hw := hs.writable arr (List.mem_of_getElem? ha)
      simp only [hw, if_true]
      refine ⟨⟨by simp [hs.arrs_eq], hs.n_handles, ?_, hs.cached, hs.handle_lt, hs.separate, hs.frozen, hs.unfrozen⟩, by first | rfl | trivial⟩
      intro x hx
      rcases List.mem_or_eq_of_mem_set hx with hx | hx
      · exact hs.writable x hx
      · subst hx; simp [hw]
  | write k j =>
    simp only [step, refStep]
    cases hk : s.handles[k]? with
    | none =>
      have : ¬ k < r.nHandles := by
        rw [← hs.n_handles]; intro hlt
        rw [List.getElem?_eq_getElem hlt] at hk; cases hk
      simp only [this, if_false]
      exact ⟨hs, by first | rfl | trivial⟩
    | some h =>
      have hmem : h ∈ s.handles := List.mem_of_getElem? hk
      have hklt : k < r.nHandles := by
        rw [← hs.n_handles]
        by_contra hc
        rw [List.getElem?_eq_none (by omega)] at hk; cases hk
      have hlt := hs.handle_lt h hmem
      simp only [hklt, if_true]
      cases hco : fl.copyOut with
      | false =>
        obtain ⟨b, hb, hfr⟩ := hs.frozen hco h hmem
        simp only [hb, hfr, if_true]
        exact ⟨hs, by first | rfl | trivial⟩
      | true =>
        obtain ⟨b, hb, hfr⟩ := hs.unfrozen hco h hmem
        simp only [hb, hfr, Bool.false_eq_true, if_false]
        refine ⟨⟨hs.arrs_eq, hs.n_handles, hs.writable, ?_, ?_, hs.separate, ?_, ?_⟩, by first | rfl | trivial⟩
        · intro e he
          obtain ⟨b', hb', hc', hf'⟩ := hs.cached e he
          have hne : e.buf ≠ h := fun heq => hs.separate hco e he (heq ▸ hmem)
          refine ⟨b', ?_, hc', hf'⟩
          simp only
          rw [List.getElem?_set_ne (Ne.symm hne)]; exact hb'
        · intro h' hh'; simp only [List.length_set]; exact hs.handle_lt h' hh'
        · intro hc; rw [hco] at hc; cases hc
        · intro _ h' hh'
          by_cases heq : h' = h
          · subst heq
            exact ⟨⟨.junk j, false⟩, by simp [List.getElem?_set_self hlt], rfl⟩
          · obtain ⟨b', hb', hf'⟩ := hs.unfrozen hco h' hh'
            exact ⟨b', by simp only; rw [List.getElem?_set_ne (Ne.symm heq)]; exact hb', hf'⟩
  | call fn a =>
    simp only [step, refStep, ← hs.arrs_eq]
    cases ha : s.arrs[a]? with
    | none => exact ⟨hs, by first | rfl | trivial⟩
    | some arr =>
      have hw := hs.writable arr (List.mem_of_getElem? ha)
      have hset : s.arrs.set a arr = s.arrs := by
        apply List.ext_getElem? ; intro i
        by_cases hi : i = a
        · subst hi
          have hlt : i < s.arrs.length := by
            by_contra hc; rw [List.getElem?_eq_none (by omega)] at ha; cases ha
          rw [List.getElem?_set_self hlt, ha]
        · rw [List.getElem?_set_ne (Ne.symm hi)]
      simp only [hfz, Bool.false_eq_true, if_false, hset]
      cases hf : s.cache.find? (fun e => e.matches fl fn arr.val arr.shape arr.tag) with
      | some e =>
        have hmem : e ∈ s.cache := List.mem_of_find?_eq_some hf
        have hm := matches_good hg' (List.find?_some (p := fun e : Entry => e.matches fl fn arr.val arr.shape arr.tag) hf)
        obtain ⟨b, hb, hcont, hfroz⟩ := hs.cached e hmem
        have hcontent : (s.bufs[e.buf]?.map (·.content)).getD (.junk 0) = .app fn arr.val arr.shape arr.tag := by
          rw [hb]; simp [hcont, hm.1, hm.2.1, hm.2.2.1, hm.2.2.2]
        have hsub : ∀ x ∈ e :: s.cache.erase e, x ∈ s.cache := by
          intro x hx
          rcases List.mem_cons.mp hx with hx | hx
          · exact hx ▸ hmem
          · exact List.mem_of_mem_erase hx
        have heblt : e.buf < s.bufs.length := by
          by_contra hc; rw [List.getElem?_eq_none (by omega)] at hb; cases hb
        simp only
        cases hco : fl.copyOut with
        | true =>
          simp only [if_true, hcontent]
          refine ⟨⟨by simp [hs.arrs_eq], by simp [hs.n_handles], hs.writable, ?_, ?_, ?_, ?_, ?_⟩, by simp [Out.visible, hw]⟩
          · intro x hx
            obtain ⟨b', hb', h1, h2⟩ := hs.cached x (hsub x hx)
            exact ⟨b', getElem?_append_left' hb', h1, h2⟩
          · intro h hh
            simp only [List.length_append, List.length_singleton]
            rcases List.mem_append.mp hh with hh | hh
            · have := hs.handle_lt h hh; omega
            · simp at hh; omega
          · intro _ x hx hxh
            rcases List.mem_append.mp hxh with hxh | hxh
            · exact hs.separate hco x (hsub x hx) hxh
            · simp at hxh
              obtain ⟨b', hb', _, _⟩ := hs.cached x (hsub x hx)
              have : x.buf < s.bufs.length := by
                by_contra hc; rw [List.getElem?_eq_none (by omega)] at hb'; cases hb'
              omega
          · intro hc; rw [hco] at hc; cases hc
          · intro _ h hh
            rcases List.mem_append.mp hh with hh | hh
            · obtain ⟨b', hb', hf'⟩ := hs.unfrozen hco h hh
              exact ⟨b', getElem?_append_left' hb', hf'⟩
            · simp at hh; subst hh
              exact ⟨⟨.app fn arr.val arr.shape arr.tag, false⟩, by simp, rfl⟩
        | false =>
          have hfo : fl.frozenOut = true := by
            rcases hout with h | h
            · rw [hco] at h; cases h
            · exact h
          simp only [Bool.false_eq_true, if_false, hcontent]
          refine ⟨⟨by simp [hs.arrs_eq], by simp [hs.n_handles], hs.writable, ?_, ?_, ?_, ?_, ?_⟩, by simp [Out.visible, hw]⟩
          · intro x hx; exact hs.cached x (hsub x hx)
          · intro h hh
            rcases List.mem_append.mp hh with hh | hh
            · exact hs.handle_lt h hh
            · simp at hh; subst hh; exact heblt
          · intro hc; rw [hco] at hc; cases hc
          · intro _ h hh
            rcases List.mem_append.mp hh with hh | hh
            · exact hs.frozen hco h hh
            · simp at hh; subst hh
              exact ⟨b, hb, by rw [hfroz, hfo]⟩
          · intro hc; rw [hco] at hc; cases hc
      | none =>
        simp only
        have hsub : ∀ x ∈ evict fl.cap fn 0 (⟨fn, arr.val, arr.shape, arr.tag, s.bufs.length⟩ :: s.cache),
            x = ⟨fn, arr.val, arr.shape, arr.tag, s.bufs.length⟩ ∨ x ∈ s.cache := by
          intro x hx
          exact List.mem_cons.mp (mem_evict hx)
        cases hco : fl.copyOut with
        | true =>
          simp only [if_true]
          refine ⟨⟨by simp [hs.arrs_eq], by simp [hs.n_handles], hs.writable, ?_, ?_, ?_, ?_, ?_⟩, by simp [Out.visible, hw]⟩
          · intro x hx
            rcases hsub x hx with hx | hx
            · subst hx
              exact ⟨⟨.app fn arr.val arr.shape arr.tag, fl.frozenOut⟩, by simp, rfl, rfl⟩
            · obtain ⟨b', hb', h1, h2⟩ := hs.cached x hx
              exact ⟨b', getElem?_append_left' hb', h1, h2⟩
          · intro h hh
            simp only [List.length_append, List.length_cons, List.length_nil]
            rcases List.mem_append.mp hh with hh | hh
            · have := hs.handle_lt h hh; omega
            · simp at hh; omega
          · intro _ x hx hxh
            rcases hsub x hx with hx | hx
            · subst hx
              rcases List.mem_append.mp hxh with hxh | hxh
              · have := hs.handle_lt _ hxh; simp at this
              · simp at hxh
            · rcases List.mem_append.mp hxh with hxh | hxh
              · exact hs.separate hco x hx hxh
              · simp at hxh
                obtain ⟨b', hb', _, _⟩ := hs.cached x hx
                have : x.buf < s.bufs.length := by
                  by_contra hc; rw [List.getElem?_eq_none (by omega)] at hb'; cases hb'
                omega
          · intro hc; rw [hco] at hc; cases hc
          · intro _ h hh
            rcases List.mem_append.mp hh with hh | hh
            · obtain ⟨b', hb', hf'⟩ := hs.unfrozen hco h hh
              exact ⟨b', getElem?_append_left' hb', hf'⟩
            · simp at hh; subst hh
              exact ⟨⟨.app fn arr.val arr.shape arr.tag, false⟩, by simp, rfl⟩
        | false =>
          have hfo : fl.frozenOut = true := by
            rcases hout with h | h
            · rw [hco] at h; cases h
            · exact h
          simp only [Bool.false_eq_true, if_false]
          refine ⟨⟨by simp [hs.arrs_eq], by simp [hs.n_handles], hs.writable, ?_, ?_, ?_, ?_, ?_⟩, by simp [Out.visible, hw]⟩
          · intro x hx
            rcases hsub x hx with hx | hx
            · subst hx
              exact ⟨⟨.app fn arr.val arr.shape arr.tag, fl.frozenOut⟩, by simp, rfl, rfl⟩
            · obtain ⟨b', hb', h1, h2⟩ := hs.cached x hx
              exact ⟨b', getElem?_append_left' hb', h1, h2⟩
          · intro h hh
            simp only [List.length_append, List.length_cons, List.length_nil]
            rcases List.mem_append.mp hh with hh | hh
            · have := hs.handle_lt h hh; omega
            · simp at hh; omega
          · intro hc; rw [hco] at hc; cases hc
          · intro _ h hh
            rcases List.mem_append.mp hh with hh | hh
            · obtain ⟨b', hb', hf'⟩ := hs.frozen hco h hh
              exact ⟨b', getElem?_append_left' hb', hf'⟩
            · simp at hh; subst hh
              exact ⟨⟨.app fn arr.val arr.shape arr.tag, fl.frozenOut⟩, by simp, hfo⟩
          · intro hc; rw [hco] at hc; cases hc

end Midgard.CacheMachine
