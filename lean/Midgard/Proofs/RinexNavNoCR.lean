/-
A rendered well-formed RINEX navigation file (RINEX 3 form `render3`, RINEX 2 form `render2`) contains no
carriage return, so the text-mode entry point (`parseNavText`, universal newlines first) comes under
`parseNav_render3` / `parseNav_render2` without a side hypothesis.
The structure follows the `NoNl` lemmas of `Proofs/RinexNavFile.lean` / `Proofs/RinexNavDispatch.lean`,
for `'\r'` instead of `'\n'`.  Self-contained (does not import the SP3 counterpart `Proofs/Sp3NoCR.lean`, so
C12 does not depend on the C13 property file).  Core Lean only.
-/
import Midgard.Proofs.RinexNavFile
import Midgard.Proofs.RinexNavDispatch

namespace Midgard.Spec.RinexNavFile
open Midgard.Text Midgard.Decimal Midgard.FixedCol Midgard.RinexNav Midgard.Spec.NumText
open Midgard.Spec.Sp3File (joinLines okText)

/-! ### no rendered line contains a carriage return -/

/-- no carriage return in the text -/
def NoCR (s : Str) : Prop := ∀ c ∈ s, c ≠ '\r'

theorem nocr_nil : NoCR [] := fun _ h => by simp at h

theorem nocr_append {a b : Str} (ha : NoCR a) (hb : NoCR b) : NoCR (a ++ b) := by
  intro c hc
  rcases List.mem_append.mp hc with h | h
  · exact ha c h
  · exact hb c h

theorem nocr_cons {c : Char} {s : Str} (hc : c ≠ '\r') (hs : NoCR s) : NoCR (c :: s) := by
  intro d hd
  rcases List.mem_cons.mp hd with h | h
  · exact h ▸ hc
  · exact hs d h

theorem nocr_blanks (n : Nat) : NoCR (blanks n) := by
  intro c hc
  have : c = ' ' := by simpa [blanks] using (List.mem_replicate.mp hc).2
  rw [this]; decide

theorem nocr_okText {s : Str} (h : okText s = true) : NoCR s := by
  intro c hc e
  simp only [okText, List.all_eq_true, Bool.and_eq_true, decide_eq_true_eq] at h
  have := (h c hc).1
  rw [e] at this
  revert this; decide

theorem isNumChar_ne_cr {c : Char} (h : isNumChar c = true) : c ≠ '\r' := by
  intro hc; subst hc; revert h; decide

theorem nocr_numChars {s : Str} (h : ∀ c ∈ s, isNumChar c = true) : NoCR s :=
  fun c hc => isNumChar_ne_cr (h c hc)

theorem nocr_rstrip {s : Str} (h : NoCR s) : NoCR (rstrip s) := by
  obtain ⟨ws, hs, _⟩ := rstrip_decomp s
  intro c hc
  exact h c (by rw [hs]; exact List.mem_append_left _ hc)

theorem nocr_rjust (w : Nat) {s : Str} (h : NoCR s) : NoCR (rjust w s) := nocr_append (nocr_blanks _) h

theorem nocr_ljust (w : Nat) {s : Str} (h : NoCR s) : NoCR (ljust w s) := nocr_append h (nocr_blanks _)

theorem nocr_num19 (n : Num19) (h : n.wf = true) : NoCR n.text := by
  cases n with
  | blank => exact nocr_nil
  | sci x lead neg m e =>
    simp only [Num19.wf, Bool.and_eq_true] at h
    intro c hc
    rcases mem_fmtSci hc with h' | h'
    · exact isNumChar_ne_cr h'
    · subst h'
      have := h.1
      simp only [isExpLetter, Bool.or_eq_true, beq_iff_eq] at this
      rcases this with ((rfl | rfl) | rfl) | rfl <;> decide

theorem nocr_cells (cells : List Num19) (h : ∀ n ∈ cells, n.wf = true) : NoCR (cells.map cell19).flatten := by
  induction cells with
  | nil => exact nocr_nil
  | cons n ns ih =>
    simp only [List.map_cons, List.flatten_cons]
    exact nocr_append (nocr_rjust _ (nocr_num19 n (h n (by simp)))) (ih (fun m hm => h m (by simp [hm])))

theorem nocr_rowLine (lead : Nat) (cells : List Num19) (cut : Bool) (h : ∀ n ∈ cells, n.wf = true) :
    NoCR (rowLine lead cells cut) := by
  unfold rowLine cutIf
  have := nocr_append (nocr_blanks lead) (nocr_cells cells h)
  split
  · exact nocr_rstrip this
  · exact this

theorem nocr_fixedDigits (p n : Nat) : NoCR (fixedDigits p n) :=
  nocr_numChars (fun c hc => by simp [isNumChar, mem_allDigits (allDigits_fixedDigits p n) hc])

theorem nocr_epochLine3 (sys : Char) (prnText : Str) (y mo d h mi s : Nat) (c1 c2 c3 : Num19)
    (hsys : sys ≠ '\r') (hp : NoCR prnText) (h1 : c1.wf = true) (h2 : c2.wf = true) (h3 : c3.wf = true) :
    NoCR (epochLine3 sys prnText y mo d h mi s c1 c2 c3) := by
  unfold epochLine3 i22
  have sp : (' ' : Char) ≠ '\r' := by decide
  refine nocr_append (nocr_append (nocr_append (nocr_append (nocr_append (nocr_append (nocr_append (nocr_append
    (nocr_append ?_ ?_) ?_) ?_) ?_) ?_) ?_) ?_) ?_) ?_
  · exact nocr_cons hsys (nocr_rjust _ hp)
  · exact nocr_cons sp (nocr_fixedDigits _ _)
  · exact nocr_cons sp (nocr_fixedDigits _ _)
  · exact nocr_cons sp (nocr_fixedDigits _ _)
  · exact nocr_cons sp (nocr_fixedDigits _ _)
  · exact nocr_cons sp (nocr_fixedDigits _ _)
  · exact nocr_cons sp (nocr_fixedDigits _ _)
  · exact nocr_rjust _ (nocr_num19 c1 h1)
  · exact nocr_rjust _ (nocr_num19 c2 h2)
  · exact nocr_rjust _ (nocr_num19 c3 h3)

/-- the seven broadcast-orbit lines of a well-formed record, with `lead` leading blanks -/
theorem nocr_orbitRows (r : NavRec) (hwf : r.wf = true) (lead : Nat) :
    NoCR (rowLine lead r.o1.cells r.o1.cut) ∧ NoCR (rowLine lead r.o2.cells r.o2.cut) ∧
    NoCR (rowLine lead r.o3.cells r.o3.cut) ∧ NoCR (rowLine lead r.o4.cells r.o4.cut) ∧
    NoCR (rowLine lead r.o5.cells r.o5.cut) ∧ NoCR (rowLine lead r.o6.cells r.o6.cut) ∧
    NoCR (rowLine lead r.o7.cells r.o7.cut) := by
  simp only [NavRec.wf, Row4.wf, Row2.wf, Bool.and_eq_true, decide_eq_true_eq] at hwf
  obtain ⟨⟨⟨⟨⟨⟨⟨_, ⟨⟨⟨h1a, h1b⟩, h1c⟩, h1d⟩⟩, ⟨⟨⟨h2a, h2b⟩, h2c⟩, h2d⟩⟩,
    ⟨⟨⟨h3a, h3b⟩, h3c⟩, h3d⟩⟩, ⟨⟨⟨h4a, h4b⟩, h4c⟩, h4d⟩⟩, ⟨⟨⟨h5a, h5b⟩, h5c⟩, h5d⟩⟩, ⟨⟨⟨h6a, h6b⟩, h6c⟩, h6d⟩⟩,
    ⟨⟨⟨h7a, h7b⟩, h7s⟩, _⟩⟩ := hwf
  refine ⟨?_, ?_, ?_, ?_, ?_, ?_, ?_⟩
  · exact nocr_rowLine _ _ _ (by simp [Row4.cells, h1a, h1b, h1c, h1d])
  · exact nocr_rowLine _ _ _ (by simp [Row4.cells, h2a, h2b, h2c, h2d])
  · exact nocr_rowLine _ _ _ (by simp [Row4.cells, h3a, h3b, h3c, h3d])
  · exact nocr_rowLine _ _ _ (by simp [Row4.cells, h4a, h4b, h4c, h4d])
  · exact nocr_rowLine _ _ _ (by simp [Row4.cells, h5a, h5b, h5c, h5d])
  · exact nocr_rowLine _ _ _ (by simp [Row4.cells, h6a, h6b, h6c, h6d])
  · refine nocr_rowLine _ _ _ ?_
    intro n hn
    simp only [Row2.cells, List.mem_cons] at hn
    rcases hn with rfl | rfl | hn
    · exact h7a
    · exact h7b
    · exact List.all_eq_true.mp h7s n hn

theorem navRec_clk_wf (r : NavRec) (hwf : r.wf = true) :
    supportedSys.contains r.sys = true ∧ r.c1.wf = true ∧ r.c2.wf = true ∧ r.c3.wf = true := by
  simp only [NavRec.wf, Bool.and_eq_true, decide_eq_true_eq] at hwf
  obtain ⟨⟨⟨⟨⟨⟨⟨⟨⟨⟨⟨⟨⟨⟨⟨⟨⟨hsys, _⟩, _⟩, _⟩, _⟩, _⟩, _⟩, _⟩, h1⟩, h2⟩, h3⟩, _⟩, _⟩, _⟩, _⟩, _⟩, _⟩, _⟩ := hwf
  exact ⟨hsys, h1, h2, h3⟩

theorem nocr_itemLines3 (it : Item) (hwf : it.wf = true) : ∀ l ∈ itemLines3 it, NoCR l := by
  cases it with
  | nav r =>
    simp only [Item.wf] at hwf
    obtain ⟨hsys, h1, h2, h3⟩ := navRec_clk_wf r hwf
    obtain ⟨r1, r2, r3, r4, r5, r6, r7⟩ := nocr_orbitRows r hwf 4
    have hs : r.sys ≠ '\r' := by
      simp only [supportedSys, List.contains_iff_mem, List.mem_cons, List.not_mem_nil, or_false] at hsys
      rcases hsys with h | h | h | h | h <;> rw [h] <;> decide
    have hpn : NoCR r.prnText := by
      unfold NavRec.prnText i22
      split
      · exact nocr_fixedDigits _ _
      · exact nocr_numChars (numChars_natDigits _)
    intro l hl
    simp only [itemLines3, navLines3, List.mem_cons, List.not_mem_nil, or_false] at hl
    rcases hl with rfl | rfl | rfl | rfl | rfl | rfl | rfl | rfl
    · exact nocr_epochLine3 _ _ _ _ _ _ _ _ _ _ _ hs hpn h1 h2 h3
    · exact r1
    · exact r2
    · exact r3
    · exact r4
    · exact r5
    · exact r6
    · exact r7
  | skip s =>
    simp only [Item.wf, SkipRec.wf, Bool.and_eq_true, decide_eq_true_eq] at hwf
    obtain ⟨⟨⟨⟨⟨hsys, _⟩, h1⟩, h2⟩, h3⟩, hrows⟩ := hwf
    have hs : s.sys ≠ '\r' := by
      simp only [Bool.or_eq_true, beq_iff_eq] at hsys
      rcases hsys with h | h <;> rw [h] <;> decide
    intro l hl
    simp only [itemLines3, skipLines3, List.mem_cons, List.mem_map] at hl
    rcases hl with rfl | ⟨row, hrow, rfl⟩
    · exact nocr_epochLine3 _ _ _ _ _ _ _ _ _ _ _ hs (by unfold i22; exact nocr_fixedDigits _ _) h1 h2 h3
    · have := List.all_eq_true.mp hrows row hrow
      exact nocr_rowLine _ _ _ (fun n hn => List.all_eq_true.mp this n hn)

theorem nocr_versionLabel : NoCR versionLabel := by intro c hc; revert hc; revert c; decide +kernel
theorem nocr_endLabel : NoCR endLabel := by intro c hc; revert hc; revert c; decide +kernel

theorem nocr_hline (h : HLine) (hwf : h.wf = true) : NoCR (hline h) := by
  simp only [HLine.wf, Bool.and_eq_true] at hwf
  exact nocr_append (nocr_ljust _ (nocr_okText hwf.1.1.1.1.1.1)) (nocr_okText hwf.1.1.1.1.2)

theorem nocr_headerLines (f : NavFile) (hwf : f.wf = true) : ∀ l ∈ headerLines f, NoCR l := by
  simp only [NavFile.wf, Bool.and_eq_true, decide_eq_true_eq, List.all_eq_true] at hwf
  obtain ⟨⟨⟨⟨⟨⟨⟨⟨⟨hv, _⟩, ht⟩, _⟩, hs⟩, _⟩, hst⟩, _⟩, hh⟩, _⟩ := hwf
  intro l hl
  simp only [headerLines, List.cons_append, List.mem_cons, List.mem_append, List.mem_map, List.not_mem_nil,
    or_false] at hl
  rcases hl with rfl | ⟨h, hmem, rfl⟩ | rfl
  · have : NoCR [f.satSys] := nocr_okText hs
    exact nocr_append (nocr_append (nocr_append (nocr_ljust _ (nocr_okText hv)) (nocr_ljust _ (nocr_okText ht)))
      (nocr_cons (this f.satSys (by simp)) (nocr_ljust _ (nocr_okText hst)))) nocr_versionLabel
  · exact nocr_hline h (hh h hmem)
  · exact nocr_append (nocr_blanks _) nocr_endLabel

theorem nocr_headerLines2 (f : NavFile) (hwf : f.wf = true) : ∀ l ∈ headerLines2 f, NoCR l := by
  simp only [NavFile.wf, Bool.and_eq_true, decide_eq_true_eq, List.all_eq_true] at hwf
  obtain ⟨⟨⟨⟨⟨⟨⟨⟨⟨hv, _⟩, ht⟩, _⟩, _⟩, _⟩, _⟩, _⟩, hh⟩, _⟩ := hwf
  intro l hl
  simp only [headerLines2, List.cons_append, List.mem_cons, List.mem_append, List.mem_map, List.not_mem_nil,
    or_false] at hl
  rcases hl with rfl | ⟨h, hmem, rfl⟩ | rfl
  · exact nocr_append (nocr_append (nocr_ljust _ (nocr_okText hv)) (nocr_ljust _ (nocr_okText ht))) nocr_versionLabel
  · exact nocr_hline h (hh h hmem)
  · exact nocr_append (nocr_blanks _) nocr_endLabel

theorem nocr_navLines2 (r : NavRec) (hwf : r.wf = true) : ∀ l ∈ navLines2 r, NoCR l := by
  obtain ⟨_, h1, h2, h3⟩ := navRec_clk_wf r hwf
  obtain ⟨r1, r2, r3, r4, r5, r6, r7⟩ := nocr_orbitRows r hwf 3
  have nd : ∀ n, NoCR (natDigits n) := fun n => nocr_numChars (numChars_natDigits n)
  have sp : (' ' : Char) ≠ '\r' := by decide
  intro l hl
  simp only [navLines2, List.mem_cons, List.not_mem_nil, or_false] at hl
  rcases hl with rfl | rfl | rfl | rfl | rfl | rfl | rfl | rfl
  · unfold epochLine2 i22
    refine nocr_append (nocr_append (nocr_append (nocr_append (nocr_append (nocr_append (nocr_append (nocr_append
      (nocr_append ?_ ?_) ?_) ?_) ?_) ?_) ?_) ?_) ?_) ?_
    · exact nocr_rjust _ (nd _)
    · exact nocr_cons sp (nocr_fixedDigits _ _)
    · exact nocr_cons sp (nocr_rjust _ (nd _))
    · exact nocr_cons sp (nocr_rjust _ (nd _))
    · exact nocr_cons sp (nocr_rjust _ (nd _))
    · exact nocr_cons sp (nocr_rjust _ (nd _))
    · exact nocr_rjust _ (nocr_numChars (fmtDec_noSpace _ _))
    · exact nocr_rjust _ (nocr_num19 _ h1)
    · exact nocr_rjust _ (nocr_num19 _ h2)
    · exact nocr_rjust _ (nocr_num19 _ h3)
  · exact r1
  · exact r2
  · exact r3
  · exact r4
  · exact r5
  · exact r6
  · exact r7

theorem nocr_fileLines3 (f : NavFile) (hwf : f.wf = true) : ∀ l ∈ fileLines3 f, NoCR l := by
  have hitems : ∀ it ∈ f.items, it.wf = true := by
    simp only [NavFile.wf, Bool.and_eq_true, List.all_eq_true] at hwf
    exact hwf.2
  intro l hl
  simp only [fileLines3, List.mem_append, List.mem_flatten, List.mem_map] at hl
  rcases hl with hl | ⟨g, ⟨it, hit, rfl⟩, hl⟩
  · exact nocr_headerLines f hwf l hl
  · exact nocr_itemLines3 it (hitems it hit) l hl

/-- the supported records of a well-formed file are well-formed -/
theorem supported_wf : ∀ (items : List Item), (∀ it ∈ items, it.wf = true) → ∀ r ∈ supported items, r.wf = true
  | [], _ => fun _ h => by simp [supported] at h
  | .nav r :: rest, h => by
    intro r' hr'
    simp only [supported, List.mem_cons] at hr'
    rcases hr' with rfl | hr'
    · exact h (.nav r') (by simp)
    · exact supported_wf rest (fun it hit => h it (by simp [hit])) r' hr'
  | .skip _ :: rest, h => by
    intro r' hr'
    simp only [supported] at hr'
    exact supported_wf rest (fun it hit => h it (by simp [hit])) r' hr'

theorem nocr_fileLines2 (f : NavFile) (hwf : f.wf = true) : ∀ l ∈ fileLines2 f, NoCR l := by
  have hitems : ∀ it ∈ f.items, it.wf = true := by
    have := hwf
    simp only [NavFile.wf, Bool.and_eq_true, List.all_eq_true] at this
    exact this.2
  intro l hl
  simp only [fileLines2, List.mem_append, List.mem_flatten, List.mem_map] at hl
  rcases hl with hl | ⟨g, ⟨r, hr, rfl⟩, hl⟩
  · exact nocr_headerLines2 f hwf l hl
  · exact nocr_navLines2 r (supported_wf f.items hitems r hr) l hl

/-- lines without a carriage return, each followed by `'\n'`, give a text without a carriage return -/
theorem nocr_joinLines : ∀ (ls : List Str), (∀ l ∈ ls, NoCR l) → NoCR (joinLines ls)
  | [], _ => nocr_nil
  | l :: ls, h => by
    simp only [joinLines]
    exact nocr_append (h l (by simp))
      (nocr_cons (by decide) (nocr_joinLines ls (fun m hm => h m (by simp [hm]))))

/-- **render3_noCR**: the RINEX 3 text of a well-formed file contains no carriage return -/
theorem render3_noCR (f : NavFile) (hwf : f.wf = true) : ∀ c ∈ render3 f, c ≠ '\r' :=
  nocr_joinLines _ (nocr_fileLines3 f hwf)

/-- the RINEX 2 text contains no carriage return already when the file is well-formed in the RINEX 3 sense
(`wf2` adds only GPS-only and the year window) -/
theorem render2_noCR_of_wf (f : NavFile) (hwf : f.wf = true) : ∀ c ∈ render2 f, c ≠ '\r' :=
  nocr_joinLines _ (nocr_fileLines2 f hwf)

/-- **render2_noCR**: the RINEX 2 text of a well-formed RINEX 2 GPS file contains no carriage return -/
theorem render2_noCR (f : NavFile) (hwf : f.wf2 = true) : ∀ c ∈ render2 f, c ≠ '\r' := by
  have hwf1 : f.wf = true := by
    simp only [NavFile.wf2, Bool.and_eq_true] at hwf
    exact hwf.1
  exact render2_noCR_of_wf f hwf1

end Midgard.Spec.RinexNavFile
