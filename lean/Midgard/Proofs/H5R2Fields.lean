/-
C10 — `Dataset.read` of a file in which arrays may be shared between fields: all fields, nested collections, the whole
dataset (`roundTrip_core2`: `read (write d ℓ) = restrict d ℓ` without "pairwise different array objects").
-/
import Midgard.Proofs.H5R2Leaf
import Midgard.Proofs.H5RoundTrip

namespace Midgard.H5
open Midgard.Dataset

abbrev pathsOf (fs : List Field) (pre : Path) : List Path := (leafPaths fs pre).map Prod.snd

theorem pathsOf_cons (f : Field) (fs : List Field) (pre : Path) : pathsOf (f :: fs) pre = pathsOf [f] pre ++ pathsOf fs pre := by
  simp only [pathsOf, leafPaths_cons f fs pre, List.map_append]

theorem leafPaths_coll_single (nm : String) (no l : Nat) (sub : List Field) (pre : Path) :
    leafPaths [Field.coll nm no l sub] pre = leafPaths sub (pre ++ [nm]) := by
  simp [leafPaths]

mutual
theorem readField_spec2 (h : Heap) (file : File) (hh : HeapWF h) (fo : FileOK h file) (fa : Nat) (hfa : h.length ≤ fa)
    (C : WMemo) : ∀ (f : Field) (pre : Path) (g : Grp) (s : RSt) (ρ : Rho) (depth : Nat) (rest : List Path),
    RInv h file ρ s → lookupGrp file.groups (pre ++ [f.name]) = some g → NamesOKG g → RepG (KFile C file) f pre g →
    fieldsOK h file.numObs [f] = true → Fr h file ρ s (pathsOf [f] pre ++ rest) → (pathsOf [f] pre ++ rest).Nodup →
    AliasOrd C (leafPaths [f] pre) rest → fieldsDepth [f] ≤ depth →
    ∃ s' ρ', readField file fa depth (fieldType f) g s = .ok (renameField (phi ρ') f, s') ∧ RPost h file [f] ρ s' ρ' ∧
      Fr h file ρ' s' rest
  | .leaf nm k o no u l, pre, g, s, ρ, depth, rest, inv, hl, _, hrep, hok, hfr, hnd, hao, hd => by
    obtain ⟨d, rfl⟩ : ∃ d, depth = d + 1 := by
      simp only [fieldsDepth] at hd
      exact ⟨depth - 1, by omega⟩
    have hT : pathsOf [Field.leaf nm k o no u l] pre ++ rest = (pre ++ [nm]) :: rest := by simp [pathsOf, leafPaths]
    rw [hT] at hfr hnd
    have hal : ∀ name, g.attrs.sameAs = some name → name ∈ rest := by
      intro name hsa
      have hrep' := hrep
      simp only [RepG] at hrep'
      obtain ⟨_, _, _, _, hcase⟩ := hrep'
      rcases hcase with ⟨_, hnone⟩ | ⟨name', _, hsa', hne, hC, _⟩
      · rw [hnone] at hsa; cases hsa
      · rw [hsa'] at hsa
        cases hsa
        simp only [leafPaths, AliasOrd, List.map_nil, List.nil_append, and_true] at hao
        rcases hao with hao | ⟨n2, hn2, hin⟩
        · rw [hC] at hao; exact absurd (Option.some.inj hao) hne
        · rw [hC] at hn2; cases hn2; exact hin
    exact readLeaf_spec2 h file hh fo fa hfa C nm k o no u l pre g s ρ d rest inv hl hrep hok hfr
      (List.nodup_cons.mp hnd).1 hal
  | .coll nm no l sub, pre, g, s, ρ, depth, rest, inv, hl, hng, hrep, hok, hfr, hnd, hao, hd => by
    obtain ⟨d, rfl, hd'⟩ : ∃ d, depth = d + 1 ∧ fieldsDepth sub ≤ d := by
      simp only [fieldsDepth] at hd
      exact ⟨depth - 1, by omega, by omega⟩
    obtain ⟨hno, hoks⟩ := fieldsOK_coll hok
    simp only [RepG] at hrep
    obtain ⟨subs, rfl, hrl⟩ := hrep
    simp only [NamesOKG] at hng
    replace hl : lookupGrp file.groups (pre ++ [nm]) = some _ := hl
    have hsubs : ∀ nm' g', (nm', g') ∈ subs → lookupGrp file.groups (pre ++ [nm] ++ [nm']) = some g' := by
      intro nm' g' hm
      rw [lookupGrp_snoc _ _ _ nm' hl]
      exact lookup_of_namesOK hng hm
    have hP : pathsOf [Field.coll nm no l sub] pre = pathsOf sub (pre ++ [nm]) := by
      simp only [pathsOf, leafPaths_coll_single]
    rw [hP] at hfr hnd
    rw [leafPaths_coll_single] at hao
    obtain ⟨s', ρ', hrd, post, hfr'⟩ := readMembers_spec2 h file hh fo fa hfa C sub (pre ++ [nm]) subs s ρ d rest inv hng hsubs
      (RepGL_mem sub _ subs hrl) hoks hfr hnd hao hd'
    refine ⟨s', ρ', ?_, ?_, hfr'⟩
    · have hft : fieldType (Field.coll nm no l sub) = none := rfl
      rw [hft]
      simp only [readField, hrd, renameField, lastName_single, hno]
    · exact ⟨post.inv, post.ext, by rw [leafObjs_coll_single]; exact post.dom,
        by rw [leafObjs_coll_single]; exact post.new⟩
theorem readMembers_spec2 (h : Heap) (file : File) (hh : HeapWF h) (fo : FileOK h file) (fa : Nat) (hfa : h.length ≤ fa)
    (C : WMemo) : ∀ (fs : List Field) (pre : Path) (subs : List (String × Grp)) (s : RSt) (ρ : Rho) (depth : Nat)
    (rest : List Path),
    RInv h file ρ s → NamesOKG.NamesOKL subs →
    (∀ nm g, (nm, g) ∈ subs → lookupGrp file.groups (pre ++ [nm]) = some g) →
    (∀ f ∈ fs, ∃ g, (f.name, g) ∈ subs ∧ RepG (KFile C file) f pre g) →
    fieldsOK h file.numObs fs = true → Fr h file ρ s (pathsOf fs pre ++ rest) → (pathsOf fs pre ++ rest).Nodup →
    AliasOrd C (leafPaths fs pre) rest → fieldsDepth fs ≤ depth →
    ∃ s' ρ', readMembers (readField file fa depth) (fs.map (fun f => (f.name, fieldType f))) subs s =
        .ok (renameFields (phi ρ') fs, s') ∧ RPost h file fs ρ s' ρ' ∧ Fr h file ρ' s' rest
  | [], pre, subs, s, ρ, depth, rest, inv, _, _, _, _, hfr, _, _, _ => by
    refine ⟨s, ρ, by simp [readMembers, renameFields], ⟨inv, Ext.refl ρ, ?_, fun z hz => Or.inl hz⟩, ?_⟩
    · intro o ho; simp [leafObjs] at ho
    · simpa [pathsOf, leafPaths] using hfr
  | f :: fs, pre, subs, s, ρ, depth, rest, inv, hns, hsubs, hrep, hok, hfr, hnd, hao, hd => by
    obtain ⟨g, hm, hrf⟩ := hrep f (by simp)
    obtain ⟨hok1, hok2⟩ := fieldsOK_cons h _ f fs hok
    obtain ⟨hd1, hd2⟩ := fieldsDepth_cons f fs hd
    rw [pathsOf_cons, List.append_assoc] at hfr hnd
    rw [leafPaths_cons, AliasOrd_append] at hao
    obtain ⟨hao1, hao2⟩ := hao
    obtain ⟨s1, ρ1, hrd1, p1, hfr1⟩ := readField_spec2 h file hh fo fa hfa C f pre g s ρ depth (pathsOf fs pre ++ rest) inv
      (hsubs _ g hm) (namesOK_of_mem hns hm) hrf hok1 hfr hnd hao1 hd1
    obtain ⟨s2, ρ2, hrd2, p2, hfr2⟩ := readMembers_spec2 h file hh fo fa hfa C fs pre subs s1 ρ1 depth rest p1.inv hns hsubs
      (fun f' hf' => hrep f' (List.mem_cons_of_mem _ hf')) hok2 hfr1 (List.nodup_append.mp hnd).2.1 hao2 hd2
    refine ⟨s2, ρ2, ?_, RPost.cons p1 p2, hfr2⟩
    have hcong : renameField (phi ρ1) f = renameField (phi ρ2) f := by
      apply renameField_congr
      intro o ho
      have := p1.dom o ho
      cases hl : ρ1.lookup o with
      | none => exact absurd hl this
      | some n => rw [phi_of_lookup hl, phi_of_lookup (p2.ext o n hl)]
    simp only [List.map_cons, readMembers, lookup_of_namesOK hns hm, hrd1, hrd2, renameFields_cons, hcong]
end

/-- `memo[fieldname] = field.data` after a top-level field -/
theorem regTop_inv2 {K : Nat → Path → Prop} {h : Heap} {file : File} {f : Field} {g : Grp} {ρ ρ1 : Rho} {s1 : RSt}
    (p1 : RPost h file [f] ρ s1 ρ1) (hl : lookupGrp file.groups [f.name] = some g) (hrf : RepG K f [] g) :
    RPost h file [f] ρ (regTop f.name (renameField (phi ρ1) f) s1) ρ1 ∧
      MemoMono s1 (regTop f.name (renameField (phi ρ1) f) s1) := by
  cases f with
  | coll nm no l sub => exact ⟨p1, MemoMono.refl _⟩
  | leaf nm k o no u l =>
    simp only [RepG] at hrf
    obtain ⟨hsrc, _⟩ := hrf
    have hdom := p1.dom o (by simp [leafObjs])
    cases hlo : ρ1.lookup o with
    | none => exact absurd hlo hdom
    | some n =>
      simp only [renameField, regTop, Field.name, phi_of_lookup hlo]
      exact ⟨⟨p1.inv.set hl (by rw [hsrc]; exact hlo), p1.ext, p1.dom, p1.new⟩, MemoMono.set _ _ _⟩

theorem readTop_spec2 (h : Heap) (file : File) (hh : HeapWF h) (fo : FileOK h file) (fa : Nat) (hfa : h.length ≤ fa)
    (C : WMemo) : ∀ (fs : List Field) (s : RSt) (ρ : Rho) (fd : Nat) (rest : List Path),
    RInv h file ρ s → (∀ f ∈ fs, ∃ g, (f.name, g) ∈ file.groups ∧ RepG (KFile C file) f [] g) →
    fieldsOK h file.numObs fs = true → Fr h file ρ s (pathsOf fs [] ++ rest) → (pathsOf fs [] ++ rest).Nodup →
    AliasOrd C (leafPaths fs []) rest → fieldsDepth fs ≤ fd →
    ∃ s' ρ', readTop file fa fd (fs.map (fun f => (f.name, fieldType f))) s = .ok (renameFields (phi ρ') fs, s') ∧
      RPost h file fs ρ s' ρ'
  | [], s, ρ, fd, rest, inv, _, _, _, _, _, _ => by
    refine ⟨s, ρ, by simp [readTop, renameFields], inv, Ext.refl ρ, ?_, fun z hz => Or.inl hz⟩
    intro o ho; simp [leafObjs] at ho
  | f :: fs, s, ρ, fd, rest, inv, hrep, hok, hfr, hnd, hao, hd => by
    obtain ⟨g, hm, hrf⟩ := hrep f (by simp)
    obtain ⟨hok1, hok2⟩ := fieldsOK_cons h _ f fs hok
    obtain ⟨hd1, hd2⟩ := fieldsDepth_cons f fs hd
    rw [pathsOf_cons, List.append_assoc] at hfr hnd
    rw [leafPaths_cons, AliasOrd_append] at hao
    obtain ⟨hao1, hao2⟩ := hao
    have hlk : file.groups.lookup f.name = some g := lookup_of_namesOK fo.names hm
    have hl : lookupGrp file.groups [f.name] = some g := by rw [lookupGrp_single]; exact hlk
    obtain ⟨s1, ρ1, hrd1, p1, hfr1⟩ := readField_spec2 h file hh fo fa hfa C f [] g s ρ fd (pathsOf fs [] ++ rest) inv
      (by simpa using hl) (namesOK_of_mem fo.names hm) hrf hok1 hfr hnd hao1 hd1
    obtain ⟨p1', hmm⟩ := regTop_inv2 p1 hl hrf
    obtain ⟨s2, ρ2, hrd2, p2⟩ := readTop_spec2 h file hh fo fa hfa C fs _ ρ1 fd rest p1'.inv
      (fun f' hf' => hrep f' (List.mem_cons_of_mem _ hf')) hok2 (hfr1.sub hmm (fun _ hP => hP))
      (List.nodup_append.mp hnd).2.1 hao2 hd2
    refine ⟨s2, ρ2, ?_, RPost.cons p1' p2⟩
    have hcong : renameField (phi ρ1) f = renameField (phi ρ2) f := by
      apply renameField_congr
      intro o ho
      have := p1.dom o ho
      cases hl : ρ1.lookup o with
      | none => exact absurd hl this
      | some n => rw [phi_of_lookup hl, phi_of_lookup (p2.ext o n hl)]
    simp only [List.map_cons, readTop, hlk, hrd1, hrd2]
    rw [renameFields_cons, hcong]

/-- **`read (write d ℓ) = restrict d ℓ` up to the numbering of the array objects, arrays shared between fields included** -/
theorem roundTrip_core2 (h : Heap) (d : DS) (lvl : Nat) (hw : WritableS h d lvl) :
    ∃ (file : File) (h' : Heap) (φ : Nat → Nat), writeDS h d lvl = .ok file ∧
      readBack h d file = .ok (h', { numObs := d.numObs, fields := renameFields φ (restrictFields lvl d.fields) }) ∧
      (∀ x, Reach h (restrictFields lvl d.fields) x → ∃ ob, h[x]? = some ob ∧ h'[φ x]? = some (ob.rename φ)) ∧
      (∀ x y, Reach h (restrictFields lvl d.fields) x → Reach h (restrictFields lvl d.fields) y → φ x = φ y → x = y) := by
  simp only [WritableS, writableSB, Bool.and_eq_true] at hw
  obtain ⟨⟨hheap, hok⟩, hnames⟩ := hw
  have hh := heapOK_wf hheap
  have hlt := leafObjs_lt h d.numObs _ hok
  obtain ⟨file, hwr, hno, hmem, hrep, fo⟩ := writeDS_ok2 h hh.below d lvl hnames hlt
  have hok' : fieldsOK h file.numObs (restrictFields lvl d.fields) = true := by rw [hno]; exact hok
  obtain ⟨s', ρ, hrd, post⟩ := readTop_spec2 h file hh fo (h.length + 1) (by omega) (constructMemo lvl d.fields [] [])
    (restrictFields lvl d.fields) {} [] (fieldsDepth d.fields + 1) [] (RInv.empty h file) (RepGL_mem _ _ _ hrep) hok'
    (by intro x _ hx; simp [List.lookup] at hx)
    (by rw [List.append_nil]; exact leafPaths_nodup _ [] hnames)
    (aliasOrd_constructMemo lvl d.fields) (by have := fieldsDepth_restrict lvl d.fields; omega)
  refine ⟨file, s'.heap, phi ρ, hwr, ?_, ?_, ?_⟩
  · simp only [readBack, readDS, hmem, hrd, hno]
  · intro x hx
    have hk := Reach.known post.inv post.dom hx
    cases hl : ρ.lookup x with
    | none => exact absurd hl hk
    | some n =>
      obtain ⟨ob, r', h1, h2, h3⟩ := post.inv.img x n hl
      refine ⟨ob, h1, ?_⟩
      rw [phi_of_lookup hl, h2, image_eq_rename (hh.normal x ob h1) h3]
  · intro x y hx hy hxy
    have hkx := Reach.known post.inv post.dom hx
    have hky := Reach.known post.inv post.dom hy
    cases hlx : ρ.lookup x with
    | none => exact absurd hlx hkx
    | some n =>
      cases hly : ρ.lookup y with
      | none => exact absurd hly hky
      | some m =>
        rw [phi_of_lookup hlx, phi_of_lookup hly] at hxy
        subst hxy
        exact post.inv.inj x y n hlx hly

end Midgard.H5
