/-
C11 file level, part 6c: the header state machine at value level — plain records (`plain_frame`), `MARKER NAME`,
`SYS / # / OBS TYPES` with continuation lines in closed form — and `hdrFacts`: what the data section needs from the
header holds for every well-formed header.  Core Lean only.
-/
import Midgard.Proofs.Rinex3ObsHandlers

namespace Midgard.Spec.Rinex3ObsFile
open Midgard.Text Midgard.FixedCol Midgard.Decimal Midgard.ChainParser Midgard.RinexObs Midgard.Rinex3Obs

/-! ### plain records -/

def nine : List String := ["_parse_string", "_parse_comment", "_parse_approx_position", "_parse_float",
  "_parse_time_of_first_obs", "_parse_time_of_last_obs", "_parse_sys_dcbs_applied", "_parse_sys_pcvs_applied",
  "_parse_leap_seconds", "_parse_integer", "_parse_glonass_slot", "_parse_glonass_code_phase_bias", "_parse_phase_shift"]

def plainOk (kh : String × String) : Bool :=
  handlerOf kh.1 == kh.2 && nine.contains kh.2 && (names kh.1).all fun n => key n != key "marker_name"

theorem plain_table : plainKinds.all plainOk = true := by decide +kernel

theorem keysOk_zip (ns : List String) (cells : List Str) (h : ns.all (fun n => key n != key "marker_name") = true) :
    keysOk (ns.zip cells) := by
  intro kv hkv
  have : kv.1 ∈ ns := (List.of_mem_zip (by rw [show kv = (kv.1, kv.2) from rfl] at hkv; exact hkv)).1
  simpa using List.all_eq_true.mp h kv.1 this

theorem plain_frame (k : String) (hk : plainKinds.any (·.1 == k) = true) (cells : List Str) (s s' : State)
    (h : handle (handlerOf k) ((names k).zip cells) s = .ok s') : Frame s s' := by
  obtain ⟨kh, hmem, hkk⟩ := List.any_eq_true.mp hk
  simp only [beq_iff_eq] at hkk
  subst hkk
  have ht := List.all_eq_true.mp plain_table kh hmem
  simp only [plainOk, Bool.and_eq_true, beq_iff_eq] at ht
  obtain ⟨⟨hh, h9⟩, hkeys⟩ := ht
  have hv := keysOk_zip (names kh.1) cells hkeys
  rw [hh] at h
  generalize (names kh.1).zip cells = v at h hv
  have h9' : kh.2 ∈ nine := by simpa using h9
  simp only [nine, List.mem_cons, List.not_mem_nil, or_false] at h9'
  rcases h9' with e | e | e | e | e | e | e | e | e | e | e | e | e <;> rw [e] at h <;>
    simp only [handle, String.reduceEq, if_false, if_true] at h
  · simp only [pure, Except.pure, Except.ok.injEq] at h; subst h; exact frame_parseString v s hv
  · exact frame_parseComment v s s' h
  · exact frame_parseApproxPosition v s s' hv h
  · exact frame_parseFloatFields v s s' hv h
  · exact frame_parseTimeOfFirstObs v s s' h
  · exact frame_parseTimeOfLastObs v s s' h
  · exact frame_parseApplied "dcbs_applied" (by decide) v s s' h
  · exact frame_parseApplied "pcvs_applied" (by decide) v s s' h
  · simp only [pure, Except.pure, Except.ok.injEq] at h; subst h; exact frame_parseLeapSeconds v s
  · exact frame_parseIntegerFields v s s' hv h
  · exact frame_parseGlonassSlot v s s' h
  · exact frame_parseGlonassBias v s s' h
  · exact frame_parsePhaseShift v s s' h


/-! ### `SYS / # / OBS TYPES`: the field dictionary -/

def typeNames : List String := ["type_01", "type_02", "type_03", "type_04", "type_05", "type_06", "type_07", "type_08",
  "type_09", "type_10", "type_11", "type_12", "type_13"]

theorem names_sysobs : names "SYSOBS" = "satellite_sys" :: "num_obstypes" :: typeNames := by decide +kernel

def isT (k : String) : Bool := "type_".toList.isPrefixOf k.toList

def keysSorted : List String → Bool
  | a :: b :: r => leChars a.toList b.toList && keysSorted (b :: r)
  | _ => true

theorem typeNames_facts : isT "satellite_sys" = false ∧ isT "num_obstypes" = false ∧ typeNames.all isT = true ∧
    keysSorted typeNames = true := by decide +kernel

theorem filter_zip_all (p : String → Bool) : ∀ (K : List String) (cs : List Str), K.all p = true →
    (K.zip cs).filter (fun kv => p kv.1) = K.zip cs := by
  intro K
  induction K with
  | nil => intro cs _; rfl
  | cons k K ih =>
    intro cs h
    cases cs with
    | nil => rfl
    | cons c cs =>
      simp only [List.all_cons, Bool.and_eq_true] at h
      simp [List.filter_cons, h.1, ih cs h.2]

theorem sortFields_zip : ∀ (K : List String) (cs : List Str), keysSorted K = true → sortFields (K.zip cs) = K.zip cs := by
  intro K
  induction K with
  | nil => intro cs _; rfl
  | cons k K ih =>
    intro cs h
    cases cs with
    | nil => rfl
    | cons c cs =>
      have hK : keysSorted K = true := by
        cases K with
        | nil => rfl
        | cons k' K' => simp only [keysSorted, Bool.and_eq_true] at h; exact h.2
      have : sortFields ((k :: K).zip (c :: cs)) = insertField (k, c) (sortFields (K.zip cs)) := rfl
      rw [this, ih cs hK]
      cases K with
      | nil => rfl
      | cons k' K' =>
        cases cs with
        | nil => rfl
        | cons c' cs' =>
          simp only [keysSorted, Bool.and_eq_true] at h
          simp [insertField, h.1]

theorem fields_sysobs (a b : Str) (cs : List Str) :
    fieldsWithPrefix ((names "SYSOBS").zip (a :: b :: cs)) "type_" = typeNames.zip cs := by
  rw [names_sysobs]
  unfold fieldsWithPrefix
  have hf : (fun (x : String × Str) => match x with | (k, _) => "type_".toList.isPrefixOf k.toList) = fun kv => isT kv.1 := by
    funext x; obtain ⟨k, c⟩ := x; rfl
  obtain ⟨h1, h2, h3, h4⟩ := typeNames_facts
  simp only [List.zip_cons_cons, hf, List.filter_cons, h1, h2, Bool.false_eq_true, if_false]
  rw [filter_zip_all isT typeNames cs h3, sortFields_zip typeNames cs h4]

theorem get_sysobs (a b : Str) (cs : List Str) :
    getv ((names "SYSOBS").zip (a :: b :: cs)) "satellite_sys" = .ok a := by
  rw [names_sysobs]
  simp [getv, Values.get, List.find?, req]
  rfl

/-! ### `SYS / # / OBS TYPES`: one type, one line -/

/-- the loop body of `_parse_sys_obs_types` for a non-empty field, as a function -/
def addTP (sy : Str) (st : State) (t : Str) : State :=
  { st with
    cache := { st.cache with obstypes := some (st.cache.obstypes.getD [] ++ [t]) },
    obstypesAll := addType st.obstypesAll t,
    metaD := st.metaD.set [key "obstypes", sy] (.list (st.cache.obstypes.getD [] ++ [t])),
    data := st.data.declareType t }

theorem sysObsStep_ok (sy : Str) (st : State) (f : String × Str) (hs : st.cache.sys = some sy)
    (ho : st.cache.obstypes.isSome = true) :
    sysObsStep (.ok st) f = .ok (if f.2 = [] then st else addTP sy st f.2) := by
  obtain ⟨lst, hl⟩ := Option.isSome_iff_exists.mp ho
  unfold sysObsStep
  by_cases hf : f.2 = []
  · simp [hf, bind, Except.bind, pure, Except.pure]
  · simp only [bind, Except.bind, hf, if_false, hl, hs, req, pure, Except.pure, addTP, Option.getD_some, addType]

theorem fold_step (sy : Str) : ∀ (kcs : List (String × Str)) (st : State), st.cache.sys = some sy →
    st.cache.obstypes.isSome = true →
    kcs.foldl sysObsStep (.ok st) = .ok (((kcs.map (·.2)).filter (fun t => decide (t ≠ []))).foldl (addTP sy) st) := by
  intro kcs
  induction kcs with
  | nil => intro st _ _; rfl
  | cons f kcs ih =>
    intro st hs ho
    simp only [List.foldl_cons, sysObsStep_ok sy st f hs ho, List.map_cons, List.filter_cons]
    by_cases hf : f.2 = []
    · simp only [hf, if_true, ne_eq, not_true_eq_false, decide_false, Bool.false_eq_true, if_false]
      exact ih st hs ho
    · simp only [hf, if_false, ne_eq, not_false_eq_true, decide_true, if_true, List.foldl_cons]
      exact ih (addTP sy st f.2) hs rfl

theorem filter_padTo (l : List Str) (h : ∀ t ∈ l, t ≠ []) (n : Nat) :
    (Spec.Rinex.padTo n l).filter (fun t => decide (t ≠ [])) = l := by
  unfold Spec.Rinex.padTo
  rw [List.filter_append]
  have h1 : l.filter (fun t => decide (t ≠ [])) = l := by
    rw [List.filter_eq_self]; intro t ht; simpa using h t ht
  have h2 : (List.replicate (n - l.length) ([] : Str)).filter (fun t => decide (t ≠ [])) = [] := by
    rw [List.filter_eq_nil_iff]; intro t ht; simp [(List.mem_replicate.mp ht).2]
  rw [h1, h2, List.append_nil]

theorem length_padTo (l : List Str) (n : Nat) (h : l.length ≤ n) : (Spec.Rinex.padTo n l).length = n := by
  simp [Spec.Rinex.padTo]; omega

/-- **one `SYS / # / OBS TYPES` line**: with the cache pointing at system `sy`, the types of the line are appended
one by one -/
theorem sysobs_line (sy a b : Str) (l : List Str) (hl : l.length ≤ 13) (hne : ∀ t ∈ l, t ≠ []) (s : State)
    (c0 : Cache) (hc0 : c0 = if a ≠ [] then { s.cache with sys := some a, obstypes := some [] } else s.cache)
    (hs : c0.sys = some sy) (ho : c0.obstypes.isSome = true) :
    parseSysObsTypes ((names "SYSOBS").zip (a :: b :: Spec.Rinex.padTo 13 l)) s =
      .ok (l.foldl (addTP sy)
        { s with data := { s.data with hasObs := true }, metaD := s.metaD.setdefaultDict [key "obstypes"], cache := c0 }) := by
  unfold parseSysObsTypes
  rw [get_sysobs, fields_sysobs]
  simp only [bind, Except.bind, pure, Except.pure, ← hc0]
  rw [fold_step sy _ _ hs ho]
  have hz : (typeNames.zip (Spec.Rinex.padTo 13 l)).map (·.2) = Spec.Rinex.padTo 13 l :=
    Midgard.RinexObs.Records.zip_snd _ _ (by rw [length_padTo l 13 hl]; rfl)
  rw [hz, filter_padTo l hne]

/-! ### `SYS / # / OBS TYPES`: the whole record -/

/-- all three groups are empty columns over `all` -/
def EmptyCols (d : Data) (all : List Str) : Prop :=
  d.obs = Cols all (fun _ => []) ∧ d.lli = Cols all (fun _ => []) ∧ d.snr = Cols all (fun _ => [])

theorem colSetEmpty_cols (all : List Str) (t : Str) :
    colSetEmpty (Cols all (fun _ => [])) t = Cols (addType all t) (fun _ => []) := by
  unfold colSetEmpty addType
  have hany : (Cols all (fun _ => ([] : Col))).any (·.1 == t) = all.contains t := by
    simp only [Cols, List.any_map, Function.comp_def]
    induction all with
    | nil => rfl
    | cons a all ih => simp only [List.any_cons, List.contains_cons, ih]; rw [Bool.beq_comm]
  rw [hany]
  cases hc : all.contains t with
  | true =>
    simp only [if_true, Cols, List.map_map]
    apply List.map_congr_left
    intro x _
    by_cases hx : x = t <;> simp [hx]
  | false => simp [Cols]

theorem declareType_empty (d : Data) (all : List Str) (t : Str) (h : EmptyCols d all) :
    EmptyCols (d.declareType t) (addType all t) := by
  obtain ⟨h1, h2, h3⟩ := h
  unfold Data.declareType
  refine ⟨?_, ?_, ?_⟩
  · show colSetEmpty d.obs t = _; rw [h1, colSetEmpty_cols]
  · show colSetEmpty d.lli t = _; rw [h2, colSetEmpty_cols]
  · show colSetEmpty d.snr t = _; rw [h3, colSetEmpty_cols]

/-- the parser state while the types of system `sy` are collected: `pre` so far, starting from `base` -/
structure Acc (sy : Str) (base : State) (pre : List Str) (st : State) : Prop where
  sys : st.cache.sys = some sy
  cur : st.cache.obstypes = some pre
  all : st.obstypesAll = pre.foldl addType base.obstypesAll
  rate : st.rate = base.rate
  cols : EmptyCols st.data st.obstypesAll
  rows : rowCols st.data = rowCols base.data
  micros : st.data.timeMicros = base.data.timeMicros
  own : pre ≠ [] → st.metaD.get [key "obstypes", sy] = some (.list pre)
  others : ∀ p, Prot p → p ≠ [key "obstypes", sy] → base.metaD.get p ≠ some .empty → st.metaD.get p = base.metaD.get p

theorem acc_step {sy : Str} {base : State} {pre : List Str} {st : State} (h : Acc sy base pre st) (t : Str) :
    Acc sy base (pre ++ [t]) (addTP sy st t) := by
  have hg : st.cache.obstypes.getD [] = pre := by rw [h.cur]; rfl
  refine ⟨h.sys, ?_, ?_, h.rate, ?_, h.rows, h.micros, ?_, ?_⟩
  · show some (st.cache.obstypes.getD [] ++ [t]) = _; rw [hg]
  · show addType st.obstypesAll t = _; rw [h.all, List.foldl_append]; rfl
  · exact declareType_empty _ _ t h.cols
  · intro _
    show (st.metaD.set [key "obstypes", sy] (.list (st.cache.obstypes.getD [] ++ [t]))).get _ = _
    rw [hg, get_set_same]
  · intro p hp hne he
    show (st.metaD.set [key "obstypes", sy] _).get p = _
    have e := h.others p hp hne he
    rw [get_set_ne _ _ _ _ (Ne.symm hne) (by rw [e]; exact he), e]

theorem acc_fold {sy : Str} {base : State} : ∀ (l pre : List Str) (st : State), Acc sy base pre st →
    Acc sy base (pre ++ l) (l.foldl (addTP sy) st) := by
  intro l
  induction l with
  | nil => intro pre st h; simpa using h
  | cons t l ih =>
    intro pre st h
    have := ih (pre ++ [t]) _ (acc_step h t)
    simpa [List.append_assoc] using this

theorem obstypes_ne (sy : Str) : ([key "obstypes"] : List Str) ≠ [key "obstypes", sy] := by simp

theorem prot_ne_obstypes {p : List Str} (hp : Prot p) : ([key "obstypes"] : List Str) ≠ p := by
  rcases hp with rfl | ⟨sy, rfl⟩
  · decide
  · simp

theorem acc_first (sy : Str) (s : State) (h : EmptyCols s.data s.obstypesAll) :
    Acc sy s []
      { s with data := { s.data with hasObs := true }, metaD := s.metaD.setdefaultDict [key "obstypes"],
               cache := { s.cache with sys := some sy, obstypes := some [] } } :=
  ⟨rfl, rfl, rfl, rfl, h, rfl, rfl, fun hh => absurd rfl hh,
   fun p hp _ _ => get_setdefault_ne _ _ _ (prot_ne_obstypes hp)⟩

theorem acc_cont {sy : Str} {base : State} {pre : List Str} {st : State} (h : Acc sy base pre st) :
    Acc sy base pre
      { st with data := { st.data with hasObs := true }, metaD := st.metaD.setdefaultDict [key "obstypes"], cache := st.cache } :=
  ⟨h.sys, h.cur, h.all, h.rate, h.cols, h.rows, h.micros,
   fun hh => by
     show (st.metaD.setdefaultDict [key "obstypes"]).get _ = _
     rw [get_setdefault_ne _ _ _ (obstypes_ne sy)]; exact h.own hh,
   fun p hp hne he => by
     show (st.metaD.setdefaultDict [key "obstypes"]).get p = _
     rw [get_setdefault_ne _ _ _ (prot_ne_obstypes hp)]; exact h.others p hp hne he⟩

theorem handle_sysobs (v : Values) (s : State) : handle (handlerOf "SYSOBS") v s = parseSysObsTypes v s := by
  simp [handlerOf, handle]

def LineOk (l : List Str) : Prop := l.length ≤ 13 ∧ ∀ t ∈ l, t ≠ []

theorem sysobs_cont_lines {sy : Str} {base : State} : ∀ (rest : List (List Str)) (pre : List Str) (st s' : State),
    Acc sy base pre st → (∀ l ∈ rest, LineOk l) →
    (rest.map fun c => ("SYSOBS", ([] : Str) :: [] :: Spec.Rinex.padTo 13 c)).foldlM
      (fun s (kc : String × List Str) => handle (handlerOf kc.1) ((names kc.1).zip kc.2) s) st = .ok s' →
    Acc sy base (pre ++ rest.flatten) s' := by
  intro rest
  induction rest with
  | nil =>
    intro pre st s' h _ hr
    simp only [List.map_nil, List.foldlM_nil, pure, Except.pure, Except.ok.injEq] at hr
    subst hr; simpa using h
  | cons l rest ih =>
    intro pre st s' h hl hr
    simp only [List.map_cons, List.foldlM_cons, handle_sysobs] at hr
    have hlo := hl l (by simp)
    have hline := sysobs_line sy [] [] l hlo.1 hlo.2 st st.cache (by simp) h.sys (by rw [h.cur]; rfl)
    rw [hline] at hr
    simp only [bind, Except.bind] at hr
    have := ih (pre ++ l) _ s' (acc_fold l pre _ (acc_cont h)) (fun l' hl' => hl l' (by simp [hl'])) hr
    simpa [List.append_assoc] using this

theorem okType_ne {t : Str} (h : okType t = true) : t ≠ [] := by
  intro e; subst e; simp [okType] at h

/-- **a `SYS / # / OBS TYPES` record with its continuation lines**: the types are declared in order for the system -/
theorem sysobs_record (sy c : Str) (ls : List (List Str)) (hwf : (HdrRec.sysObs sy c ls).wf = true) (s s' : State)
    (hcols : EmptyCols s.data s.obstypesAll) (h : hdrEffect (.sysObs sy c ls) s = .ok s') :
    Acc sy s ls.flatten s' ∧ ls.flatten ≠ [] := by
  simp only [HdrRec.wf, Bool.and_eq_true, decide_eq_true_eq, Bool.not_eq_eq_eq_not, Bool.not_true] at hwf
  obtain ⟨⟨⟨⟨hlen, hblank⟩, hne⟩, hlines⟩, _⟩ := hwf
  have hsy : sy ≠ [] := by intro e; subst e; simp at hlen
  have hlo : ∀ l ∈ ls, LineOk l ∧ l ≠ [] := by
    intro l hl
    have := List.all_eq_true.mp hlines l hl
    simp only [Bool.and_eq_true, decide_eq_true_eq, Bool.not_eq_eq_eq_not, Bool.not_true, List.isEmpty_eq_false_iff] at this
    exact ⟨⟨this.1.2, fun t ht => okType_ne (List.all_eq_true.mp this.2 t ht)⟩, this.1.1⟩
  cases ls with
  | nil => simp at hne
  | cons l0 rest =>
    have h0 := hlo l0 (by simp)
    refine ⟨?_, by simp [h0.2]⟩
    simp only [hdrEffect, hdrCells, sysObsCells, List.map_cons, List.foldlM_cons, handle_sysobs, List.map_map, Function.comp_def] at h
    have hline := sysobs_line sy sy c l0 h0.1.1 h0.1.2 s { s.cache with sys := some sy, obstypes := some [] } (by simp [hsy]) rfl rfl
    rw [hline] at h
    simp only [bind, Except.bind] at h
    have hacc := acc_fold l0 [] _ (acc_first sy s hcols)
    have := sysobs_cont_lines rest ([] ++ l0) _ s' hacc (fun l hl => (hlo l (by simp [hl])).1) h
    simpa using this

/-! ### the header, record by record -/

/-- the parser state after the header records `pre` -/
structure HInv (rate : Option Rat) (pre : List HdrRec) (s : State) : Prop where
  all : s.obstypesAll = allTypes pre
  rate : s.rate = rate
  marker : s.metaD.get [key "marker_name"] = (markerOf pre).map Leaf.text
  sys : ∀ st ∈ sysTypes pre, s.metaD.get [key "obstypes", st.1] = some (.list st.2)
  cols : EmptyCols s.data s.obstypesAll
  rows : rowCols s.data = ([], [], [], [], [], [], [])
  micros : s.data.timeMicros = []

theorem sysTypes_append (a b : List HdrRec) : sysTypes (a ++ b) = sysTypes a ++ sysTypes b := by
  simp [sysTypes, List.filterMap_append]

theorem allTypes_append (a b : List HdrRec) :
    allTypes (a ++ b) = ((sysTypes b).flatMap (·.2)).foldl addType (allTypes a) := by
  simp [allTypes, sysTypes_append, List.flatMap_append, List.foldl_append]

theorem markerOf_append_single (a : List HdrRec) (r : HdrRec) :
    markerOf (a ++ [r]) = match r with
      | .marker n => some n
      | _ => markerOf a := by
  cases r <;> simp [markerOf, List.filterMap_append]

theorem marker_not_empty (o : Option Str) : o.map Leaf.text ≠ some Leaf.empty := by
  cases o <;> simp

theorem names_mname : names "MNAME" = ["marker_name"] := by decide +kernel

theorem hinv_step (rate : Option Rat) (pre : List HdrRec) (r : HdrRec) (s s' : State) (h : HInv rate pre s)
    (hwf : r.wf = true)
    (hnew : ∀ sy c ls, r = .sysObs sy c ls → ∀ st ∈ sysTypes pre, st.1 ≠ sy)
    (he : hdrEffect r s = .ok s') : HInv rate (pre ++ [r]) s' := by
  cases r with
  | plain k cells =>
    simp only [HdrRec.wf, Bool.and_eq_true] at hwf
    have hf : Frame s s' := by
      apply plain_frame k hwf.1 cells
      simp only [hdrEffect, hdrCells, List.foldlM_cons, List.foldlM_nil, bind, Except.bind] at he
      cases hh : handle (handlerOf k) ((names k).zip cells) s with
      | error e => simp [hh] at he
      | ok v => simpa [hh, pure, Except.pure] using he
    have hst : sysTypes (pre ++ [HdrRec.plain k cells]) = sysTypes pre := by simp [sysTypes_append, sysTypes]
    have hat : allTypes (pre ++ [HdrRec.plain k cells]) = allTypes pre := by simp [allTypes_append, sysTypes]
    refine ⟨by rw [hf.all, h.all, hat], by rw [hf.rate, h.rate], ?_, ?_, ?_, by rw [hf.rows, h.rows], by rw [hf.micros, h.micros]⟩
    · rw [markerOf_append_single]
      simp only
      rw [hf.metaS _ (Or.inl rfl) (by rw [h.marker]; exact marker_not_empty _), h.marker]
    · intro st hst'
      rw [hst] at hst'
      have := h.sys st hst'
      rw [hf.metaS _ (Or.inr ⟨st.1, rfl⟩) (by rw [this]; simp), this]
    · obtain ⟨c1, c2, c3⟩ := h.cols
      exact ⟨by rw [hf.obs, hf.all, c1], by rw [hf.lli, hf.all, c2], by rw [hf.snr, hf.all, c3]⟩
  | marker n =>
    have hs' : s' = { s with metaD := s.metaD.set [key "marker_name"] (.text n) } := by
      have : hdrEffect (.marker n) s = .ok { s with metaD := s.metaD.set [key "marker_name"] (.text n) } := by
        simp [hdrEffect, hdrCells, names_mname, handlerOf, handle, parseString, pure, Except.pure, bind, Except.bind]
      rw [this] at he
      exact (Except.ok.inj he).symm
    subst hs'
    have hst : sysTypes (pre ++ [HdrRec.marker n]) = sysTypes pre := by simp [sysTypes_append, sysTypes]
    have hat : allTypes (pre ++ [HdrRec.marker n]) = allTypes pre := by simp [allTypes_append, sysTypes]
    refine ⟨by rw [hat]; exact h.all, h.rate, ?_, ?_, h.cols, h.rows, h.micros⟩
    · rw [markerOf_append_single]
      exact get_set_same _ _ _
    · intro st hst'
      rw [hst] at hst'
      have := h.sys st hst'
      show (s.metaD.set [key "marker_name"] (.text n)).get _ = _
      rw [get_set_ne _ _ _ _ (by simp) (by rw [this]; simp), this]
  | sysObs sy c ls =>
    obtain ⟨hacc, hne⟩ := sysobs_record sy c ls hwf s s' h.cols he
    have hst : sysTypes (pre ++ [HdrRec.sysObs sy c ls]) = sysTypes pre ++ [(sy, ls.flatten)] := by
      simp [sysTypes_append, sysTypes]
    have hat : allTypes (pre ++ [HdrRec.sysObs sy c ls]) = ls.flatten.foldl addType (allTypes pre) := by
      simp [allTypes_append, sysTypes]
    refine ⟨by rw [hacc.all, h.all, hat], by rw [hacc.rate, h.rate], ?_, ?_, hacc.cols, by rw [hacc.rows, h.rows],
      by rw [hacc.micros, h.micros]⟩
    · rw [markerOf_append_single]
      simp only
      rw [hacc.others _ (Or.inl rfl) (by simp) (by rw [h.marker]; exact marker_not_empty _), h.marker]
    · intro st hst'
      rw [hst] at hst'
      rcases List.mem_append.mp hst' with hm | hm
      · have hne' : st.1 ≠ sy := hnew sy c ls rfl st hm
        have := h.sys st hm
        rw [hacc.others _ (Or.inr ⟨st.1, rfl⟩) (by simp [hne']) (by rw [this]; simp), this]
      · simp only [List.mem_cons, List.not_mem_nil, or_false] at hm
        subst hm
        exact hacc.own hne

theorem hinv_fold (rate : Option Rat) : ∀ (hdr pre : List HdrRec) (s H : State), HInv rate pre s →
    (∀ r ∈ hdr, r.wf = true) → ((sysTypes (pre ++ hdr)).map (·.1)).Nodup →
    hdr.foldlM (fun s r => hdrEffect r s) s = .ok H → HInv rate (pre ++ hdr) H := by
  intro hdr
  induction hdr with
  | nil =>
    intro pre s H h _ _ hf
    simp only [List.foldlM_nil, pure, Except.pure, Except.ok.injEq] at hf
    subst hf; simpa using h
  | cons r hdr ih =>
    intro pre s H h hwf hnd hf
    simp only [List.foldlM_cons, bind, Except.bind] at hf
    cases he : hdrEffect r s with
    | error e => simp [he] at hf
    | ok s1 =>
      simp only [he] at hf
      have hstep := hinv_step rate pre r s s1 h (hwf r (by simp)) (by
        intro sy c ls hr st hst
        subst hr
        intro e
        have hnd' : ((sysTypes pre).map (·.1) ++ (sy :: (sysTypes hdr).map (·.1))).Nodup := by
          simpa [sysTypes_append, sysTypes, List.map_append] using hnd
        have := (List.nodup_append.mp hnd').2.2 st.1 (List.mem_map.mpr ⟨st, hst, rfl⟩) sy (by simp)
        exact this e) he
      have := ih (pre ++ [r]) s1 H hstep (fun r' hr' => hwf r' (by simp [hr'])) (by simpa [List.append_assoc] using hnd) hf
      simpa [List.append_assoc] using this

theorem hinv_init (rate : Option Rat) : HInv rate [] { rate := rate } :=
  ⟨rfl, rfl, rfl, fun _ h => by simp [sysTypes] at h, ⟨rfl, rfl, rfl⟩, rfl, rfl⟩

/-- **the header of a well-formed file leaves what the data section relies on** -/
theorem hdrFacts (rate : Option Rat) (F : File) (hwf : F.wf = true) (H : State) (hH : headerState rate F.hdr = .ok H) :
    HdrFacts F.hdr rate H := by
  simp only [File.wf, Bool.and_eq_true] at hwf
  obtain ⟨⟨⟨⟨hhdr, hnd⟩, _⟩, hm⟩, _⟩ := hwf
  have hinv := hinv_fold rate F.hdr [] _ H (hinv_init rate) (fun r hr => List.all_eq_true.mp hhdr r hr)
    (by simpa using nodup_of hnd) hH
  simp only [List.nil_append] at hinv
  obtain ⟨m, hmm⟩ := Option.isSome_iff_exists.mp hm
  refine ⟨hinv.all, hinv.rate, ⟨m, hmm, by rw [hinv.marker, hmm]; rfl⟩, hinv.sys, ?_⟩
  obtain ⟨c1, c2, c3⟩ := hinv.cols
  have hr := hinv.rows
  have hmi := hinv.micros
  rw [hinv.all] at c1 c2 c3
  simp only [rowCols, Prod.mk.injEq] at hr
  obtain ⟨r1, r2, r3, r4, r5, r6, r7⟩ := hr
  cases hd : H.data with
  | mk hasObs obs lli snr time timeMicros epochFlag clk station system satellite satnum pos =>
    rw [hd] at c1 c2 c3 r1 r2 r3 r4 r5 r6 r7 hmi
    simp only at c1 c2 c3 r1 r2 r3 r4 r5 r6 r7 hmi
    subst c1 c2 c3 r1 r2 r3 r4 r5 r6 r7 hmi
    rfl

/-- **the file-level round trip** for every well-formed file -/
theorem file_roundtrip (rate : Option Rat) (F : File) (hwf : F.wf = true) :
    readData headerParser obsParser resetCache (fileLines F) true 0 { rate := rate } = expected rate F := by
  have hwf' := hwf
  simp only [File.wf, Bool.and_eq_true] at hwf'
  exact file_of_header rate F hwf (typeFacts F.hdr hwf'.1.1.2) (fun H hH => hdrFacts rate F hwf H hH)

end Midgard.Spec.Rinex3ObsFile
