/-
C02 — lemmas for the decimal-year format: the calendar year of a day number (`year_window`), the length of a year
(`yearLen_eq`: 366 in leap years, else 365), floor of integer + fraction.  Core `omega` on Hinnant's formulas after
splitting off the days before a (March-based) year (`yearBase`).
-/
import Midgard.Model.TimeFormat
import Midgard.Proofs.Calendar
import Mathlib.Tactic.Linarith
import Mathlib.Tactic.Ring
import Mathlib.Tactic.NormNum
import Mathlib.Algebra.Order.Field.Rat

namespace Midgard.TimeFormat

/-- days before the March-based year `y` -/
def yearBase (y : Int) : Int := (y / 400) * 146097 + (y - (y / 400) * 400) * 365 + (y - (y / 400) * 400) / 4 - (y - (y / 400) * 400) / 100

theorem yearBase_succ (y : Int) : yearBase (y + 1) - yearBase y = 365 ∨ yearBase (y + 1) - yearBase y = 366 := by
  unfold yearBase
  omega

theorem dfc_eq (y m d : Int) : daysFromCivil1970 y m d =
    yearBase (if m ≤ 2 then y - 1 else y) + ((153 * (if m > 2 then m - 3 else m + 9) + 2) / 5 + d - 1) - 719468 := by
  simp only [daysFromCivil1970, doeOfCivil, yearBase]
  omega

theorem year_window_civil (y m d : Int) (hm1 : 1 ≤ m) (hm2 : m ≤ 12) (hd1 : 1 ≤ d) (hd2 : d ≤ 31) :
    daysFromCivil y 1 1 ≤ daysFromCivil y m d ∧ daysFromCivil y m d < daysFromCivil (y + 1) 1 1 := by
  simp only [daysFromCivil, dfc_eq]
  have h1 := yearBase_succ (y - 1)
  have h2 := yearBase_succ y
  have e : y - 1 + 1 = y := by omega
  rw [e] at h1
  have e2 : y + 1 - 1 = y := by omega
  simp only [e2]
  split_ifs <;> omega

theorem yearLen_eq (y : Int) : yearLen y = if isLeap y then 366 else 365 := by
  simp only [yearLen, daysFromCivil, dfc_eq, isLeap, yearBase]
  simp only [decide_eq_true_eq]
  split_ifs <;> omega

theorem yearLen_range (y : Int) : 365 ≤ yearLen y ∧ yearLen y ≤ 366 := by
  rw [yearLen_eq]; split_ifs <;> omega

/-- the day number lies in the year the calendar gives it -/
theorem year_window (n : Int) :
    daysFromCivil (civilFromDays n).1 1 1 ≤ n ∧ n < daysFromCivil ((civilFromDays n).1 + 1) 1 1 := by
  have h := days_civil (n + epoch2000)
  have e := daysFromCivil_civilFromDays n
  have w := year_window_civil (civilFromDays n).1 (civilFromDays n).2.1 (civilFromDays n).2.2
    (by simpa only [civilFromDays] using h.2.1) (by simpa only [civilFromDays] using h.2.2.1)
    (by simpa only [civilFromDays] using h.2.2.2.1) (by simpa only [civilFromDays] using h.2.2.2.2)
  rw [e] at w
  exact w

theorem floor_add_frac (n : Int) (x : Rat) (h0 : 0 ≤ x) (h1 : x < 1) : ((n : Rat) + x).floor = n := by
  have a : n ≤ ((n : Rat) + x).floor := Rat.le_floor_iff.mpr (by linarith)
  have b : ((n : Rat) + x).floor < n + 1 := Rat.floor_lt_iff.mpr (by push_cast; linarith)
  omega

theorem truncRat_nonneg (q : Rat) (h : 0 ≤ q) : truncRat q = q.floor := by simp [truncRat, h]

theorem yearStart_succ (y : Int) : yearStartJd1 (y + 1) = yearStartJd1 y + (yearLen y : Rat) := by
  simp only [yearStartJd1, yearLen]; push_cast; ring

theorem yearLen_cases (y : Int) : (yearLen y : Rat) = 365 ∨ (yearLen y : Rat) = 366 := by
  rcases (by have := yearLen_range y; omega : yearLen y = 365 ∨ yearLen y = 366) with h | h <;> rw [h] <;> simp


end Midgard.TimeFormat
