/-
C11, RINEX 2, part 2: the satellite list of an epoch record and of its continuation lines (`satsOf`).  Core Lean only.
-/
import Midgard.Proofs.Rinex2ObsSat

namespace Midgard.Spec.Rinex2ObsFile
open Midgard.Text Midgard.FixedCol Midgard.Decimal Midgard.ChainParser Midgard.RinexObs Midgard.Rinex2Obs

/-! ### the satellite list of an epoch record -/

theorem satsOfAux_blank : ∀ (fuel : Nat) (ws : Str) (acc : List Str), isBlank ws = true → ws.length ≤ fuel →
    satsOfAux fuel ws acc = .ok acc := by
  intro fuel
  induction fuel with
  | zero => intro ws acc _ _; rfl
  | succ fuel ih =>
    intro ws acc hb hl
    unfold satsOfAux
    cases hw : ws with
    | nil => rfl
    | cons c r =>
      rw [← hw]
      have he : ws.isEmpty = false := by rw [hw]; rfl
      have hr : rstrip (ws.take 3) = [] := rstrip_isBlank (isBlank_take hb 3)
      simp only [he, Bool.false_eq_true, if_false, hr]
      apply ih _ acc (isBlank_drop hb 3)
      rw [hw] at hl ⊢
      simp at hl ⊢; omega

/-- a satellite as printed: three characters, the last one visible -/
def Sat3 (s : Str) : Prop := ∃ a b c, s = [a, b, c] ∧ isSpace c = false

theorem rstrip_three (a b c : Char) (hc : isSpace c = false) : rstrip [a, b, c] = [a, b, c] := by
  simp [rstrip, List.dropWhile, hc]

/-- **the satellite list**: the printed identifiers, three columns each, followed by any number of blanks, are read
back in order — blank system as `G`, blank tens digit as `0` -/
theorem satsOfAux_sats : ∀ (sats : List Str) (ws : Str) (fuel : Nat) (acc : List Str), (∀ s ∈ sats, Sat3 s) →
    isBlank ws = true → (sats.flatten ++ ws).length ≤ fuel →
    satsOfAux fuel (sats.flatten ++ ws) acc = .ok (acc ++ sats.map normSat) := by
  intro sats
  induction sats with
  | nil =>
    intro ws fuel acc _ hb hl
    simp only [List.flatten_nil, List.nil_append, List.map_nil, List.append_nil] at hl ⊢
    exact satsOfAux_blank fuel ws acc hb hl
  | cons s sats ih =>
    intro ws fuel acc hs hb hl
    obtain ⟨a, b, c, rfl, hc⟩ := hs s (by simp)
    cases fuel with
    | zero => simp at hl
    | succ fuel =>
      simp only [List.flatten_cons, List.cons_append, List.nil_append] at hl ⊢
      unfold satsOfAux
      simp only [List.isEmpty_cons, Bool.false_eq_true, if_false, List.take_succ_cons, List.take_zero, rstrip_three a b c hc,
        List.drop_succ_cons, List.drop_zero]
      have := ih ws fuel (acc ++ [normSat3 a b c]) (fun s' hs' => hs s' (by simp [hs'])) hb (by simp at hl ⊢; omega)
      rw [this]
      simp [normSat, normSat3, List.append_assoc]

theorem satsOf_sats (sats : List Str) (ws : Str) (hs : ∀ s ∈ sats, Sat3 s) (hb : isBlank ws = true) :
    satsOf (sats.flatten ++ ws) = .ok (sats.map normSat) := by
  unfold satsOf
  simpa using satsOfAux_sats sats ws _ [] hs hb (Nat.le_refl _)

end Midgard.Spec.Rinex2ObsFile
