/-
C07 — coherence of the conversion cache of `PosVelArray` objects (`Model/PosCache.lean`) in every
history of conversions, views and in-place writes: the invariant `WF` and its preservation.
-/
import Midgard.Model.PosCache
import Mathlib.Tactic.Linarith

namespace Midgard.Geo.PosCache

set_option linter.unusedSectionVars false
set_option linter.unnecessarySeqFocus false

variable {A : Type} [Arr A]

/-! ### counting the objects a set has not reached yet -/

theorem countP_le_of_imp {l : List Nat} {p q : Nat → Bool} (h : ∀ x ∈ l, q x = true → p x = true) :
    l.countP q ≤ l.countP p := by
  induction l with
  | nil => simp
  | cons a l ih =>
    have ih' := ih (fun x hx => h x (List.mem_cons_of_mem _ hx))
    have ha := h a List.mem_cons_self
    simp only [List.countP_cons]
    cases hq : q a <;> cases hp : p a <;> simp_all <;> omega

theorem countP_lt_of_imp {l : List Nat} {p q : Nat → Bool} (h : ∀ x ∈ l, q x = true → p x = true)
    {x : Nat} (hx : x ∈ l) (hpx : p x = true) (hqx : q x = false) : l.countP q < l.countP p := by
  induction l with
  | nil => cases hx
  | cons a l ih =>
    have hle := countP_le_of_imp (l := l) (p := p) (q := q) (fun y hy => h y (List.mem_cons_of_mem _ hy))
    simp only [List.countP_cons]
    rcases List.mem_cons.mp hx with rfl | hx'
    · simp [hpx, hqx]; omega
    · have ih' := ih (fun y hy => h y (List.mem_cons_of_mem _ hy)) hx'
      have ha := h a List.mem_cons_self
      cases hq : q a <;> cases hp : p a <;> simp_all <;> omega

/-- how many of the objects `0 … n-1` are not in `S` -/
def missing (n : Nat) (S : List Nat) : Nat := (List.range n).countP fun i => !S.contains i

theorem missing_zero {n : Nat} {S : List Nat} (h : missing n S = 0) {i : Nat} (hi : i < n) : i ∈ S := by
  unfold missing at h
  rw [List.countP_eq_zero] at h
  have := h i (List.mem_range.mpr hi)
  simpa using this

theorem missing_lt {n : Nat} {S T : List Nat} {j : Nat} (hj : j < n) (hjS : j ∉ S) (hjT : j ∈ T) :
    missing n (S ++ T) < missing n S := by
  unfold missing
  apply countP_lt_of_imp (x := j)
  · intro x _ hx
    simp only [Bool.not_eq_true', List.contains_eq_mem, decide_eq_false_iff_not, List.mem_append, not_or] at hx ⊢
    exact hx.1
  · exact List.mem_range.mpr hj
  · simpa using hjS
  · simp [hjT]

/-! ### the set cleared by `__setitem__` is closed under `_dependent_objs` -/

/-- `S` contains the dependents of each of its members -/
def Closed (st : Store A) (S : List Nat) : Prop := ∀ i ∈ S, ∀ d ∈ (st.obj i).deps, d ∈ S

theorem newDeps_mem {st : Store A} {S : List Nat} {j : Nat} :
    j ∈ newDeps st S ↔ (∃ i ∈ S, j ∈ (st.obj i).deps) ∧ j ∉ S := by
  simp [newDeps, List.mem_filter, List.mem_flatMap]

theorem closed_of_newDeps_nil {st : Store A} {S : List Nat} (h : newDeps st S = []) : Closed st S := by
  intro i hi d hd
  by_contra hdS
  have : d ∈ newDeps st S := newDeps_mem.mpr ⟨⟨i, hi, hd⟩, hdS⟩
  rw [h] at this
  cases this

theorem sat_subset (st : Store A) : ∀ (f : Nat) (S : List Nat), S ⊆ sat st f S
  | 0, S => fun _ h => h
  | f + 1, S => by
    unfold sat
    split
    · exact fun _ h => h
    · exact fun x hx => sat_subset st f _ (List.mem_append_left _ hx)

theorem sat_closed (st : Store A) (hdeps : ∀ i, i < st.n → ∀ d ∈ (st.obj i).deps, d < st.n) :
    ∀ (f : Nat) (S : List Nat), (∀ x ∈ S, x < st.n) → missing st.n S ≤ f → Closed st (sat st f S)
  | 0, S => by
    intro hS hm i hi d hd
    unfold sat at hi ⊢
    exact missing_zero (Nat.le_zero.mp hm) (hdeps i (hS i hi) d hd)
  | f + 1, S => by
    intro hS hm
    unfold sat
    split
    · rename_i he
      exact closed_of_newDeps_nil (List.isEmpty_iff.mp he)
    · rename_i he
      have hne : newDeps st S ≠ [] := fun h => he (List.isEmpty_iff.mpr h)
      obtain ⟨j, hj⟩ := List.exists_mem_of_ne_nil _ hne
      obtain ⟨⟨i, hiS, hji⟩, hjS⟩ := newDeps_mem.mp hj
      have hjn : j < st.n := hdeps i (hS i hiS) j hji
      apply sat_closed st hdeps f
      · intro x hx
        rcases List.mem_append.mp hx with h | h
        · exact hS x h
        · obtain ⟨⟨i', hi'S, hxi'⟩, _⟩ := newDeps_mem.mp h
          exact hdeps i' (hS i' hi'S) x hxi'
      · have := missing_lt (n := st.n) hjn hjS hj
        omega

theorem missing_le (n : Nat) (S : List Nat) : missing n S ≤ n := by
  unfold missing
  exact (List.countP_le_length).trans (by simp)

/-! ### the invariant -/

/-- what holds of the store after every history -/
structure WF (st : Store A) : Prop where
  buf_lt : ∀ i, i < st.n → (st.obj i).buf < st.nbuf
  deps_lt : ∀ i, i < st.n → ∀ d ∈ (st.obj i).deps, d < st.n
  root_lt : ∀ i, i < st.n → (st.obj i).root < st.n
  /-- a view and the object it was cut from are registered as depending on each other -/
  parent : ∀ i, i < st.n → (st.obj i).path ≠ [] →
    ∃ p, p < i ∧ (st.obj p).buf = (st.obj i).buf ∧ p ∈ (st.obj i).deps ∧ i ∈ (st.obj p).deps
  /-- one owner per memory block -/
  root_unique : ∀ i j, i < st.n → j < st.n → (st.obj i).buf = (st.obj j).buf →
    (st.obj i).path = [] → (st.obj j).path = [] → i = j
  /-- a cached conversion is the conversion of the current contents, and the object it is cached in depends on it -/
  cache_ok : ∀ i, i < st.n → ∀ c, (st.obj i).cache = some c →
    c < st.n ∧ i ∈ (st.obj c).deps ∧ (st.obj c).sys = (st.obj i).sys.other ∧
      contents st c = Arr.conv (st.obj i).sys.other (contents st i) ∧ (st.obj c).buf ≠ (st.obj i).buf

theorem wf_empty (a : A) : WF (empty a) where
  buf_lt := fun _ hi => absurd hi (Nat.not_lt_zero _)
  deps_lt := fun _ hi => absurd hi (Nat.not_lt_zero _)
  root_lt := fun _ hi => absurd hi (Nat.not_lt_zero _)
  parent := fun _ hi => absurd hi (Nat.not_lt_zero _)
  root_unique := fun _ _ hi => absurd hi (Nat.not_lt_zero _)
  cache_ok := fun _ hi => absurd hi (Nat.not_lt_zero _)

/-- a closed set contains an object iff it contains the owner of its memory block -/
theorem closed_root {st : Store A} (wf : WF st) {S : List Nat} (hS : Closed st S) :
    ∀ i, i < st.n → ∃ r, r < st.n ∧ (st.obj r).path = [] ∧ (st.obj r).buf = (st.obj i).buf ∧ (i ∈ S ↔ r ∈ S) := by
  intro i
  induction i using Nat.strong_induction_on with
  | _ i ih =>
    intro hi
    by_cases hp : (st.obj i).path = []
    · exact ⟨i, hi, hp, rfl, Iff.rfl⟩
    · obtain ⟨p, hpi, hbuf, hpd, hid⟩ := wf.parent i hi hp
      obtain ⟨r, hr, hrp, hrb, hiff⟩ := ih p hpi (Nat.lt_trans hpi hi)
      refine ⟨r, hr, hrp, hrb.trans hbuf, ?_⟩
      rw [← hiff]
      exact ⟨fun h => hS i h p hpd, fun h => hS p h i hid⟩

/-- a closed set that contains an object contains every object on the same memory block -/
theorem closed_same_buf {st : Store A} (wf : WF st) {S : List Nat} (hS : Closed st S) {o j : Nat}
    (ho : o < st.n) (hj : j < st.n) (hoS : o ∈ S) (hb : (st.obj j).buf = (st.obj o).buf) : j ∈ S := by
  obtain ⟨r, hr, hrp, hrb, hiff⟩ := closed_root wf hS o ho
  obtain ⟨r', hr', hrp', hrb', hiff'⟩ := closed_root wf hS j hj
  have : r = r' := wf.root_unique r r' hr hr' (by rw [hrb, hrb', hb]) hrp hrp'
  subst this
  exact hiff'.mpr (hiff.mp hoS)

theorem clearSet_closed {st : Store A} (wf : WF st) {o : Nat} (ho : o < st.n) : Closed st (clearSet st o) :=
  sat_closed st wf.deps_lt st.n [o] (by simpa using ho) (missing_le _ _)

theorem clearSet_self (st : Store A) (o : Nat) : o ∈ clearSet st o :=
  sat_subset st st.n [o] (by simp)

/-! ### the operations keep the invariant -/

section Alloc
variable (st : Store A) (s : Sys) (a : A) (deps : List Nat)

@[simp] theorem alloc_n : (alloc st s a deps).1.n = st.n + 1 := rfl
@[simp] theorem alloc_nbuf : (alloc st s a deps).1.nbuf = st.nbuf + 1 := rfl
@[simp] theorem alloc_ret : (alloc st s a deps).2 = st.n := rfl
theorem alloc_obj_new : (alloc st s a deps).1.obj st.n = ⟨s, st.nbuf, [], none, deps, st.n⟩ := by simp [alloc]
theorem alloc_obj_old {i : Nat} (hi : i < st.n) : (alloc st s a deps).1.obj i = st.obj i := by
  simp [alloc, Nat.ne_of_lt hi]
theorem alloc_contents_new : contents (alloc st s a deps).1 st.n = a := by
  simp [contents, alloc, getPath]
theorem alloc_contents_old (wf : WF st) {i : Nat} (hi : i < st.n) :
    contents (alloc st s a deps).1 i = contents st i := by
  have hb := wf.buf_lt i hi
  simp [contents, alloc, Nat.ne_of_lt hi, Nat.ne_of_lt hb]

theorem wf_alloc (wf : WF st) (hdeps : ∀ d ∈ deps, d < st.n + 1) : WF (alloc st s a deps).1 := by
  have old : ∀ i, i < st.n + 1 → i ≠ st.n → i < st.n := fun i h1 h2 => by omega
  constructor
  · intro i hi
    simp only [alloc_n, alloc_nbuf] at hi ⊢
    by_cases h : i = st.n
    · subst h; rw [alloc_obj_new]; exact Nat.lt_succ_self _
    · rw [alloc_obj_old st s a deps (old i hi h)]; exact Nat.lt_succ_of_lt (wf.buf_lt i (old i hi h))
  · intro i hi d hd
    simp only [alloc_n] at hi ⊢
    by_cases h : i = st.n
    · subst h; rw [alloc_obj_new] at hd; exact hdeps d hd
    · rw [alloc_obj_old st s a deps (old i hi h)] at hd
      exact Nat.lt_succ_of_lt (wf.deps_lt i (old i hi h) d hd)
  · intro i hi
    simp only [alloc_n] at hi ⊢
    by_cases h : i = st.n
    · subst h; rw [alloc_obj_new]; exact Nat.lt_succ_self _
    · rw [alloc_obj_old st s a deps (old i hi h)]; exact Nat.lt_succ_of_lt (wf.root_lt i (old i hi h))
  · intro i hi hp
    simp only [alloc_n] at hi
    by_cases h : i = st.n
    · subst h; rw [alloc_obj_new] at hp; exact absurd rfl hp
    · have hi' := old i hi h
      rw [alloc_obj_old st s a deps hi'] at hp ⊢
      obtain ⟨p, hpi, h1, h2, h3⟩ := wf.parent i hi' hp
      exact ⟨p, hpi, by rw [alloc_obj_old st s a deps (Nat.lt_trans hpi hi')]; exact h1, h2,
        by rw [alloc_obj_old st s a deps (Nat.lt_trans hpi hi')]; exact h3⟩
  · intro i j hi hj hb hpi hpj
    simp only [alloc_n] at hi hj
    by_cases h : i = st.n <;> by_cases h' : j = st.n
    · rw [h, h']
    · subst h
      rw [alloc_obj_new, alloc_obj_old st s a deps (old j hj h')] at hb
      have := wf.buf_lt j (old j hj h')
      simp only at hb; omega
    · subst h'
      rw [alloc_obj_new, alloc_obj_old st s a deps (old i hi h)] at hb
      have := wf.buf_lt i (old i hi h)
      simp only at hb; omega
    · rw [alloc_obj_old st s a deps (old i hi h)] at hb hpi
      rw [alloc_obj_old st s a deps (old j hj h')] at hb hpj
      exact wf.root_unique i j (old i hi h) (old j hj h') hb hpi hpj
  · intro i hi c hc
    simp only [alloc_n] at hi ⊢
    by_cases h : i = st.n
    · subst h; rw [alloc_obj_new] at hc; cases hc
    · have hi' := old i hi h
      rw [alloc_obj_old st s a deps hi'] at hc ⊢
      obtain ⟨h1, h2, h3, h4, h5⟩ := wf.cache_ok i hi' c hc
      rw [alloc_obj_old st s a deps h1, alloc_contents_old st s a deps wf h1, alloc_contents_old st s a deps wf hi']
      exact ⟨Nat.lt_succ_of_lt h1, h2, h3, h4, h5⟩

end Alloc

section SetCache
variable (st : Store A) (o : Nat) (c : Option Nat)

@[simp] theorem setCache_n : (setCache st o c).n = st.n := rfl
@[simp] theorem setCache_nbuf : (setCache st o c).nbuf = st.nbuf := rfl
@[simp] theorem setCache_mem : (setCache st o c).mem = st.mem := rfl
@[simp] theorem setCache_buf (j : Nat) : ((setCache st o c).obj j).buf = (st.obj j).buf := by
  simp only [setCache]; split <;> simp [*]
@[simp] theorem setCache_path (j : Nat) : ((setCache st o c).obj j).path = (st.obj j).path := by
  simp only [setCache]; split <;> simp [*]
@[simp] theorem setCache_deps (j : Nat) : ((setCache st o c).obj j).deps = (st.obj j).deps := by
  simp only [setCache]; split <;> simp [*]
@[simp] theorem setCache_sys (j : Nat) : ((setCache st o c).obj j).sys = (st.obj j).sys := by
  simp only [setCache]; split <;> simp [*]
@[simp] theorem setCache_root (j : Nat) : ((setCache st o c).obj j).root = (st.obj j).root := by
  simp only [setCache]; split <;> simp [*]
theorem setCache_cache_self : ((setCache st o c).obj o).cache = c := by simp [setCache]
theorem setCache_cache_other {j : Nat} (h : j ≠ o) : ((setCache st o c).obj j).cache = (st.obj j).cache := by
  simp [setCache, h]
@[simp] theorem setCache_contents (j : Nat) : contents (setCache st o c) j = contents st j := by
  simp [contents]

theorem wf_setCache (wf : WF st) (hc : ∀ c', c = some c' →
    c' < st.n ∧ o ∈ (st.obj c').deps ∧ (st.obj c').sys = (st.obj o).sys.other ∧
      contents st c' = Arr.conv (st.obj o).sys.other (contents st o) ∧ (st.obj c').buf ≠ (st.obj o).buf) :
    WF (setCache st o c) := by
  constructor
  · intro i hi; simpa using wf.buf_lt i hi
  · intro i hi d hd; simp only [setCache_deps, setCache_n] at hd hi ⊢; exact wf.deps_lt i hi d hd
  · intro i hi; simpa using wf.root_lt i hi
  · intro i hi hp; simp only [setCache_path, setCache_n, setCache_buf, setCache_deps] at hp hi ⊢
    exact wf.parent i hi hp
  · intro i j hi hj hb hpi hpj
    simp only [setCache_path, setCache_n, setCache_buf] at hi hj hb hpi hpj
    exact wf.root_unique i j hi hj hb hpi hpj
  · intro i hi c' hc'
    simp only [setCache_n, setCache_deps, setCache_sys, setCache_contents, setCache_buf] at hi ⊢
    by_cases h : i = o
    · subst h; rw [setCache_cache_self] at hc'; exact hc c' hc'
    · rw [setCache_cache_other st o c h] at hc'; exact wf.cache_ok i hi c' hc'

end SetCache

theorem sys_other_of_ne {s t : Sys} (h : s ≠ t) : s = t.other := by
  cases s <;> cases t <;> simp_all [Sys.other]

/-- `to_system` keeps the invariant -/
theorem wf_toSystem {st : Store A} (wf : WF st) {o : Nat} (ho : o < st.n) (s : Sys) : WF (toSystem st o s).1 := by
  unfold toSystem
  split
  · exact wf
  · rename_i hs
    split
    · exact wf
    · have wfa := wf_alloc st s (Arr.conv s (contents st o)) [o] wf (by simp; omega)
      apply wf_setCache _ _ _ wfa
      intro c' hc'
      simp only [alloc_ret, Option.some.injEq] at hc'
      subst hc'
      rw [alloc_obj_new, alloc_obj_old st _ _ _ ho, alloc_contents_new, alloc_contents_old st _ _ _ wf ho]
      refine ⟨by simp, by simp, ?_, ?_, ?_⟩
      · exact sys_other_of_ne hs
      · rw [← sys_other_of_ne hs]
      · exact Nat.ne_of_gt (wf.buf_lt o ho)

/-- what `to_system` hands out holds the conversion of the current contents of the object asked, and asking
changes the contents of no object -/
theorem toSystem_spec {st : Store A} (wf : WF st) {o : Nat} (ho : o < st.n) (s : Sys) :
    contents (toSystem st o s).1 (toSystem st o s).2 =
      (if s = (st.obj o).sys then contents st o else Arr.conv s (contents st o)) ∧
    ∀ j, j < st.n → contents (toSystem st o s).1 j = contents st j := by
  unfold toSystem
  split
  · exact ⟨rfl, fun _ _ => rfl⟩
  · rename_i hs
    split
    · rename_i c hc
      obtain ⟨_, _, _, h4, _⟩ := wf.cache_ok o ho c hc
      rw [← sys_other_of_ne hs] at h4
      exact ⟨h4, fun _ _ => rfl⟩
    · simp only [setCache_contents, alloc_ret]
      exact ⟨alloc_contents_new _ _ _ _, fun j hj => alloc_contents_old st _ _ _ wf hj⟩

/-- `obj[int | slice]` keeps the invariant -/
theorem wf_view {st : Store A} (wf : WF st) {o : Nat} (ho : o < st.n) (k : String) : WF (view st o k).1 := by
  have hn : (view st o k).1.n = st.n + 1 := rfl
  have hnb : (view st o k).1.nbuf = st.nbuf := rfl
  have hnew : (view st o k).1.obj st.n =
      ⟨(st.obj o).sys, (st.obj o).buf, (st.obj o).path ++ [k], none, [(st.obj o).root, o], (st.obj o).root⟩ := by
    simp [view]
  have hcases : ∀ i, i < st.n → (view st o k).1.obj i = st.obj i ∨
      (view st o k).1.obj i = { st.obj i with deps := (st.obj i).deps ++ [st.n] } := by
    intro i hi
    by_cases h : i = o ∨ i = (st.obj o).root
    · right; simp [view, Nat.ne_of_lt hi, h]
    · left; simp [view, Nat.ne_of_lt hi, h]
  have hobjo : (view st o k).1.obj o = { st.obj o with deps := (st.obj o).deps ++ [st.n] } := by
    simp [view, Nat.ne_of_lt ho]
  have hbuf : ∀ i, i < st.n → ((view st o k).1.obj i).buf = (st.obj i).buf := by
    intro i hi; rcases hcases i hi with h | h <;> rw [h]
  have hpath : ∀ i, i < st.n → ((view st o k).1.obj i).path = (st.obj i).path := by
    intro i hi; rcases hcases i hi with h | h <;> rw [h]
  have hcache : ∀ i, i < st.n → ((view st o k).1.obj i).cache = (st.obj i).cache := by
    intro i hi; rcases hcases i hi with h | h <;> rw [h]
  have hsys : ∀ i, i < st.n → ((view st o k).1.obj i).sys = (st.obj i).sys := by
    intro i hi; rcases hcases i hi with h | h <;> rw [h]
  have hroot : ∀ i, i < st.n → ((view st o k).1.obj i).root = (st.obj i).root := by
    intro i hi; rcases hcases i hi with h | h <;> rw [h]
  have hdeps : ∀ i, i < st.n → ∀ d, d ∈ (st.obj i).deps → d ∈ ((view st o k).1.obj i).deps := by
    intro i hi d hd; rcases hcases i hi with h | h <;> rw [h]
    · exact hd
    · exact List.mem_append_left _ hd
  have hdeps' : ∀ i, i < st.n → ∀ d, d ∈ ((view st o k).1.obj i).deps → d ∈ (st.obj i).deps ∨ d = st.n := by
    intro i hi d hd; rcases hcases i hi with h | h <;> rw [h] at hd
    · exact Or.inl hd
    · simpa using hd
  have hmem : (view st o k).1.mem = st.mem := rfl
  have hcont : ∀ i, i < st.n → contents (view st o k).1 i = contents st i := by
    intro i hi; simp only [contents, hmem, hbuf i hi, hpath i hi]
  have old : ∀ i, i < st.n + 1 → i ≠ st.n → i < st.n := fun i h1 h2 => by omega
  constructor
  · intro i hi
    rw [hn] at hi; rw [hnb]
    by_cases h : i = st.n
    · subst h; rw [hnew]; exact wf.buf_lt o ho
    · rw [hbuf i (old i hi h)]; exact wf.buf_lt i (old i hi h)
  · intro i hi d hd
    rw [hn] at hi ⊢
    by_cases h : i = st.n
    · subst h; rw [hnew] at hd
      simp only [List.mem_cons, List.not_mem_nil, or_false] at hd
      have := wf.root_lt o ho
      rcases hd with hd | hd <;> omega
    · rcases hdeps' i (old i hi h) d hd with h' | h'
      · exact Nat.lt_succ_of_lt (wf.deps_lt i (old i hi h) d h')
      · omega
  · intro i hi
    rw [hn] at hi ⊢
    by_cases h : i = st.n
    · subst h; rw [hnew]; exact Nat.lt_succ_of_lt (wf.root_lt o ho)
    · rw [hroot i (old i hi h)]; exact Nat.lt_succ_of_lt (wf.root_lt i (old i hi h))
  · intro i hi hp
    rw [hn] at hi
    by_cases h : i = st.n
    · subst h
      refine ⟨o, ho, ?_, ?_, ?_⟩
      · rw [hbuf o ho, hnew]
      · rw [hnew]; simp
      · rw [hobjo]; simp
    · have hi' := old i hi h
      rw [hpath i hi'] at hp
      obtain ⟨p, hpi, h1, h2, h3⟩ := wf.parent i hi' hp
      have hp' := Nat.lt_trans hpi hi'
      exact ⟨p, hpi, by rw [hbuf p hp', hbuf i hi']; exact h1, hdeps i hi' p h2, hdeps p hp' i h3⟩
  · intro i j hi hj hb hpi hpj
    rw [hn] at hi hj
    by_cases h : i = st.n
    · subst h; rw [hnew] at hpi; simp at hpi
    · by_cases h' : j = st.n
      · subst h'; rw [hnew] at hpj; simp at hpj
      · rw [hbuf i (old i hi h), hbuf j (old j hj h')] at hb
        rw [hpath i (old i hi h)] at hpi
        rw [hpath j (old j hj h')] at hpj
        exact wf.root_unique i j (old i hi h) (old j hj h') hb hpi hpj
  · intro i hi c hc
    rw [hn] at hi ⊢
    by_cases h : i = st.n
    · subst h; rw [hnew] at hc; cases hc
    · have hi' := old i hi h
      rw [hcache i hi'] at hc
      obtain ⟨h1, h2, h3, h4, h5⟩ := wf.cache_ok i hi' c hc
      rw [hsys c h1, hsys i hi', hcont c h1, hcont i hi', hbuf c h1, hbuf i hi']
      exact ⟨Nat.lt_succ_of_lt h1, hdeps c h1 i h2, h3, h4, h5⟩

theorem view_contents {st : Store A} {o : Nat} (k : String) :
    ∀ i, i < st.n → contents (view st o k).1 i = contents st i := by
  intro i hi
  by_cases h : i = o ∨ i = (st.obj o).root
  · simp [contents, view, Nat.ne_of_lt hi, h]
  · simp [contents, view, Nat.ne_of_lt hi, h]

/-- the rows a view holds are the rows cut out of the object it was taken from -/
theorem view_contents_new {st : Store A} (o : Nat) (k : String) :
    contents (view st o k).1 (view st o k).2 = Arr.get k (contents st o) := by
  have getPath_append : ∀ (p : List String) (a : A), getPath (p ++ [k]) a = Arr.get k (getPath p a) := by
    intro p; induction p with
    | nil => intro a; rfl
    | cons x xs ih => intro a; simp [getPath, ih]
  simp [contents, view, getPath_append]

/-! ### in-place writes -/

section SetItem
variable (st : Store A) (o : Nat) (k : String) (v : A)

@[simp] theorem setItem_n : (setItem st o k v).n = st.n := rfl
@[simp] theorem setItem_nbuf : (setItem st o k v).nbuf = st.nbuf := rfl
@[simp] theorem setItem_buf (j : Nat) : ((setItem st o k v).obj j).buf = (st.obj j).buf := by
  simp only [setItem]; split <;> simp
@[simp] theorem setItem_path (j : Nat) : ((setItem st o k v).obj j).path = (st.obj j).path := by
  simp only [setItem]; split <;> simp
@[simp] theorem setItem_deps (j : Nat) : ((setItem st o k v).obj j).deps = (st.obj j).deps := by
  simp only [setItem]; split <;> simp
@[simp] theorem setItem_sys (j : Nat) : ((setItem st o k v).obj j).sys = (st.obj j).sys := by
  simp only [setItem]; split <;> simp
@[simp] theorem setItem_root (j : Nat) : ((setItem st o k v).obj j).root = (st.obj j).root := by
  simp only [setItem]; split <;> simp
theorem setItem_cache_some {j c : Nat} (h : ((setItem st o k v).obj j).cache = some c) :
    j ∉ clearSet st o ∧ (st.obj j).cache = some c := by
  simp only [setItem] at h
  split at h
  · cases h
  · rename_i hc; exact ⟨by simpa using hc, h⟩

/-- a write changes no object on another memory block -/
theorem setItem_contents_other {j : Nat} (h : (st.obj j).buf ≠ (st.obj o).buf) :
    contents (setItem st o k v) j = contents st j := by
  simp only [contents, setItem_buf, setItem_path]
  simp [setItem, h]

/-- what the object written to holds afterwards, in terms of the memory block -/
theorem setItem_contents_self :
    contents (setItem st o k v) o =
      getPath (st.obj o).path (putPath (st.obj o).path (Arr.put k v (contents st o)) (st.mem (st.obj o).buf)) := by
  simp only [contents, setItem_buf, setItem_path]
  simp [setItem]

theorem wf_setItem (wf : WF st) (ho : o < st.n) : WF (setItem st o k v) := by
  have hcl := clearSet_closed wf ho
  have hself := clearSet_self st o
  constructor
  · intro i hi; simpa using wf.buf_lt i hi
  · intro i hi d hd; simp only [setItem_deps, setItem_n] at hd hi ⊢; exact wf.deps_lt i hi d hd
  · intro i hi; simpa using wf.root_lt i hi
  · intro i hi hp; simp only [setItem_path, setItem_n, setItem_buf, setItem_deps] at hp hi ⊢
    exact wf.parent i hi hp
  · intro i j hi hj hb hpi hpj
    simp only [setItem_path, setItem_n, setItem_buf] at hi hj hb hpi hpj
    exact wf.root_unique i j hi hj hb hpi hpj
  · intro i hi c hc
    simp only [setItem_n] at hi
    obtain ⟨hiS, hc'⟩ := setItem_cache_some st o k v hc
    obtain ⟨h1, h2, h3, h4, h5⟩ := wf.cache_ok i hi c hc'
    have hbi : (st.obj i).buf ≠ (st.obj o).buf := fun hb => hiS (closed_same_buf wf hcl ho hi hself hb)
    have hbc : (st.obj c).buf ≠ (st.obj o).buf := fun hb =>
      hiS (hcl c (closed_same_buf wf hcl ho h1 hself hb) i h2)
    simp only [setItem_n, setItem_deps, setItem_sys, setItem_buf]
    rw [setItem_contents_other st o k v hbi, setItem_contents_other st o k v hbc]
    exact ⟨h1, h2, h3, h4, h5⟩

end SetItem

/-! ### histories -/

theorem wf_step {st : Store A} (wf : WF st) (op : Op A) : WF (step st op).1 := by
  cases op with
  | new s a => exact wf_alloc st s a [] wf (by simp)
  | toSys o s =>
    simp only [step]; split
    · rename_i ho; exact wf_toSystem wf ho s
    · exact wf
  | view o k =>
    simp only [step]; split
    · rename_i ho; exact wf_view wf ho k
    · exact wf
  | take o k =>
    simp only [step]; split
    · exact wf_alloc st _ _ [] wf (by simp)
    · exact wf
  | set o k v =>
    simp only [step]; split
    · rename_i ho; exact wf_setItem st o k v wf ho
    · exact wf

theorem wf_run {st : Store A} (wf : WF st) (ops : List (Op A)) : WF (run st ops) := by
  induction ops generalizing st with
  | nil => exact wf
  | cons op ops ih => exact ih (wf_step wf op)

end Midgard.Geo.PosCache
