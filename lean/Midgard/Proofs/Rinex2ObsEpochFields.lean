/-
C11, RINEX 2, part 7: `_parse_observation_epoch` on the fields of an epoch record (`epoch_handler`), the fields the parser
cuts from the rendered record (eight simple ones, the 36 satellite columns after `rstrip`, the clock offset).
Core Lean only.
-/
import Midgard.Proofs.Rinex2ObsEpochLine

namespace Midgard.Spec.Rinex2ObsFile
open Midgard.Text Midgard.FixedCol Midgard.Decimal Midgard.ChainParser Midgard.RinexObs Midgard.Rinex2Obs
open Midgard.Spec.Rinex3ObsFile (Obs Cell IntCell NumCell Style styled rstrip_styled)

/-! ### `_parse_observation_epoch` on the fields of an epoch record -/

/-- the state after an epoch record -/
def afterEpoch (s : State) (info : EpochInfo) (ns : Int) (more : List Str) : State :=
  { s with cache := { s.cache with satList := some more, epoch := some info, numSat := some ns, lenSatList := some more.length } }

theorem epoch_handler (ry rmo rd rh rmi rs rf rn rsl rc : Str) (s : State) (yt t : Str) (y mo d h mi fl ns : Int) (sec : Rat)
    (clk : Option Rat) (more : List Str)
    (hy : strip ry = yt) (hnum : isNumeric yt = true) (hmo : pyInt rmo = .ok mo) (hd : pyInt rd = .ok d) (hh : pyInt rh = .ok h)
    (hmi : pyInt rmi = .ok mi) (hs : pyFloat rs = .ok sec) (hf : pyInt rf = .ok fl) (hc : floatOpt rc = .ok clk)
    (hn : pyInt rn = .ok ns) (hsl : satsOf rsl = .ok more)
    (hal : ((Text.slice 28 29 rsl).head?.map Char.isAlpha).getD false = false)
    (hfirst : s.metaD.get [key "time_first_obs"] = some (.text t)) (hyear : pyInt (t.take 2 ++ zfill 2 yt) = .ok y) :
    parseObservationEpoch [("year", ry), ("month", rmo), ("day", rd), ("hour", rh), ("minute", rmi), ("second", rs),
        ("epoch_flag", rf), ("num_sat", rn), ("sat_list", rsl), ("rcv_clk_offset", rc)] s =
      .ok (afterEpoch s ⟨isoTime y mo d h mi sec, (datasetMicros y mo d h mi sec).getD 0,
        (match s.rate with
          | some r => if r ≠ 0 ∧ offGrid ((h : Rat) * 3600 + (mi : Rat) * 60 + sec) r then none else some ((h : Rat) * 3600 + (mi : Rat) * 60 + sec)
          | none => some ((h : Rat) * 3600 + (mi : Rat) * 60 + sec)), fl, clk⟩ ns more) := by
  have hne : yt ≠ [] := by
    intro e; subst e; simp [isNumeric] at hnum
  unfold parseObservationEpoch
  simp only [getv, Values.get, List.find?, String.reduceBEq, Option.map_some, req, bind, Except.bind, pure, Except.pure, hy, hnum,
    Bool.not_true, Bool.false_and, Bool.false_eq_true, if_false, hal, hne, ne_eq, not_false_eq_true, if_true, hfirst, hyear, hmo, hd, hh,
    hmi, hs, hf, hc, hn, hsl]
  unfold afterEpoch
  cases more with
  | nil => simp; cases s.rate <;> rfl
  | cons x xs => simp; cases s.rate <;> rfl


/-! ### the fields of a rendered epoch record -/

theorem pyInt_strip (t : Str) : pyInt (strip t) = pyInt t := by
  unfold pyInt parseInt?
  rw [strip_idem]

theorem pyFloat_strip (t : Str) : pyFloat (strip t) = pyFloat t := by
  unfold pyFloat
  rw [Midgard.RinexObs.parseFloat_strip]

theorem flatten_get_blockW (w : Nat) (bs : List Str) (hb : ∀ b ∈ bs, b.length = w) : ∀ (k i : Nat), i < w →
    (bs.flatten)[w * k + i]? = (bs[k]?).bind (·[i]?) := by
  induction bs with
  | nil => intro k i _; simp
  | cons b bs ih =>
    intro k i hi
    have hbl := hb b (by simp)
    cases k with
    | zero =>
      simp only [List.flatten_cons, Nat.mul_zero, Nat.zero_add, List.getElem?_cons_zero, Option.bind_some]
      rw [List.getElem?_append_left (by omega)]
    | succ k =>
      simp only [List.flatten_cons, List.getElem?_cons_succ]
      rw [List.getElem?_append_right (by rw [hbl, Nat.mul_succ]; omega)]
      have : w * (k + 1) + i - b.length = w * k + i := by rw [hbl, Nat.mul_succ]; omega
      rw [this]
      exact ih (fun b' hb' => hb b' (by simp [hb'])) k i hi

theorem getLast?_append_ne (a b : Str) (h : b ≠ []) : (a ++ b).getLast? = b.getLast? := by
  rw [List.getLast?_append]
  cases hb : b.getLast? with
  | none => simp at hb; exact absurd hb h
  | some x => simp

/-- a visible end: if `F` ends in a visible character and `F ++ bl = X ++ Y` with `Y` blank, then `X` is `F` plus blanks -/
theorem prefix_visible (F bl X Y : Str) (h : F ++ bl = X ++ Y) (hbl : isBlank bl = true) (hY : isBlank Y = true)
    (hF : ∀ x, F.getLast? = some x → isSpace x = false) : ∃ ws, isBlank ws = true ∧ X = F ++ ws := by
  rcases List.append_eq_append_iff.mp h with ⟨a', hX, hb⟩ | ⟨c', hFc, hYc⟩
  · refine ⟨a', ?_, hX⟩
    rw [hb, isBlank_append] at hbl
    simp only [Bool.and_eq_true] at hbl
    exact hbl.1
  · cases hc : c' with
    | nil => rw [hc] at hFc; exact ⟨[], rfl, by simpa using hFc.symm⟩
    | cons z zs =>
      exfalso
      have hlast : F.getLast? = some ((z :: zs).getLast (by simp)) := by
        rw [hFc, hc, getLast?_append_ne _ _ (by simp)]
        exact List.getLast?_eq_some_getLast (by simp)
      have hvis := hF _ hlast
      have hmem : (z :: zs).getLast (by simp) ∈ Y := by
        rw [hYc, hc]; exact List.mem_append_left _ (List.getLast_mem _)
      have := List.all_eq_true.mp hY _ hmem
      rw [hvis] at this; simp at this

/-- a printed satellite: system letter or blank, tens digit or blank, digit -/
def SatOk (s : Str) : Prop := ∃ a b c, s = [a, b, c] ∧ (a.isAlpha = true ∨ a = ' ') ∧ (isDigit b = true ∨ b = ' ') ∧ isDigit c = true

theorem satOk_sat3 {s : Str} (h : SatOk s) : Sat3 s := by
  obtain ⟨a, b, c, rfl, _, _, hc⟩ := h
  exact ⟨a, b, c, rfl, isSpace_of_isDigit hc⟩

theorem flatten_last_visible (ids : List Str) (h : ∀ s ∈ ids, SatOk s) : ∀ x, ids.flatten.getLast? = some x → isSpace x = false := by
  intro x hx
  induction ids with
  | nil => simp at hx
  | cons s ids ih =>
    cases ids with
    | nil =>
      obtain ⟨a, b, c, rfl, _, _, hc⟩ := h s (by simp)
      simp at hx; subst hx; exact isSpace_of_isDigit hc
    | cons s2 ids2 =>
      apply ih (fun s' hs' => h s' (by simp [hs']))
      rw [List.flatten_cons] at hx
      rw [getLast?_append_ne _ _ (by
        obtain ⟨a, b, c, e, _⟩ := h s2 (by simp)
        simp [e])] at hx
      exact hx

/-- the middle character of a satellite is no letter -/
theorem sat_list_guard (ids : List Str) (h : ∀ s ∈ ids, SatOk s) (ws : Str) (hws : isBlank ws = true) :
    ((Text.slice 28 29 (ids.flatten ++ ws)).head?.map Char.isAlpha).getD false = false := by
  rw [show (29 : Nat) = 28 + 1 from rfl, slice_one]
  cases hx : (ids.flatten ++ ws)[28]? with
  | none => rfl
  | some x =>
    simp only [Option.toList_some, List.head?_cons, Option.map_some, Option.getD_some]
    rcases Nat.lt_or_ge 28 ids.flatten.length with hlt | hge
    · rw [List.getElem?_append_left hlt] at hx
      have hb : ∀ b ∈ ids, b.length = 3 := by
        intro b hb; obtain ⟨a, b', c, e, _⟩ := h b hb; simp [e]
      have := flatten_get_blockW 3 ids hb 9 1 (by omega)
      rw [show 3 * 9 + 1 = 28 from rfl, hx] at this
      cases hk : ids[9]? with
      | none => rw [hk] at this; simp at this
      | some s9 =>
        rw [hk] at this
        obtain ⟨a, b, c, e, _, hbd, _⟩ := h s9 (List.mem_of_getElem? hk)
        rw [e] at this
        simp only [Option.bind_some, List.getElem?_cons_succ, List.getElem?_cons_zero, Option.some.injEq] at this
        subst this
        rcases hbd with hd | rfl
        · exact Midgard.Spec.Rinex3ObsFile.isAlpha_of_isDigit hd
        · rfl
    · rw [List.getElem?_append_right hge] at hx
      have hm := List.mem_of_getElem? hx
      have hsp := List.all_eq_true.mp hws x hm
      cases hal : x.isAlpha with
      | false => rfl
      | true => have := (Midgard.Spec.Rinex3ObsFile.alpha_facts hal).1; rw [this] at hsp; simp at hsp


/-! ### the epoch record: fields, label, effect -/

structure EpochOk (e : Epoch) : Prop where
  yy : e.yy.wf 2 = true
  mo : e.month.wf 2 = true
  dd : e.day.wf 2 = true
  hh : e.hour.wf 2 = true
  mi : e.minute.wf 2 = true
  ss : e.second.wf 11 = true
  fl : e.flag.wf 1 = true
  nsne : e.numSat ≠ []
  nsd : allDigits e.numSat = true
  nsl : e.numSat.length ≤ 3
  clk : e.clk.wf 12 = true
  ids : ∀ s ∈ e.sats.map (·.sat), SatOk s

theorem epochOk_of_wf (n : Nat) (e : Epoch) (h : e.wf n = true) : EpochOk e := by
  simp only [Epoch.wf, Bool.and_eq_true, decide_eq_true_eq, Bool.not_eq_eq_eq_not, Bool.not_true] at h
  obtain ⟨⟨⟨⟨⟨⟨⟨⟨⟨⟨⟨h1, h2⟩, h3⟩, h4⟩, h5⟩, h6⟩, h7⟩, h8⟩, h9⟩, h10⟩, h11⟩, h12⟩ := h
  refine ⟨h1, h2, h3, h4, h5, h6, h7, by intro e0; rw [e0] at h8; simp at h8, h9, h10, h11, ?_⟩
  intro s hs
  simp only [List.mem_map] at hs
  obtain ⟨r, hr, rfl⟩ := hs
  have hw := List.all_eq_true.mp h12 r hr
  simp only [SatRec.wf, Bool.and_eq_true] at hw
  have hsat := hw.1.1.1
  match hsm : r.sat, hsat with
  | [a, b, c], hsat =>
    simp only [Bool.and_eq_true, Bool.or_eq_true, beq_iff_eq] at hsat
    exact ⟨a, b, c, rfl, hsat.1.1, hsat.1.2, hsat.2⟩

open Midgard.Spec.Rinex3ObsFile (intCell_facts numCell_facts floatOpt_cell cell_fits digits_clean) in
theorem headOk (e : Epoch) (h : EpochOk e) : HeadOk e :=
  ⟨(intCell_facts h.yy).1, (intCell_facts h.mo).1, (intCell_facts h.dd).1, (intCell_facts h.hh).1, (intCell_facts h.mi).1,
   (numCell_facts h.ss).1, (intCell_facts h.fl).1, h.nsl⟩

theorem ids12_ok (e : Epoch) (h : EpochOk e) : ∀ s ∈ ids12 e, SatOk s :=
  fun s hs => h.ids s (List.mem_of_mem_take hs)

theorem satOk_len {s : Str} (h : SatOk s) : s.length = 3 := by
  obtain ⟨a, b, c, rfl, _⟩ := h; rfl

open Midgard.Spec.Rinex3ObsFile (intCell_facts numCell_facts floatOpt_cell cell_fits digits_clean) in
theorem head_fits (e : Epoch) (h : EpochOk e) : Fits P8 (rcells (head8 e)) = true := by
  have y := intCell_facts h.yy
  have mo := intCell_facts h.mo
  have d := intCell_facts h.dd
  have hh' := intCell_facts h.hh
  have mi := intCell_facts h.mi
  have s := numCell_facts h.ss
  have f := intCell_facts h.fl
  have y1 := y.1; have mo1 := mo.1; have d1 := d.1; have h1 := hh'.1; have mi1 := mi.1; have s1 := s.1; have f1 := f.1; have n1 := h.nsl
  simp only [P8, rcells, head8, List.map_cons, List.map_nil, Fits, Field.width, Bool.and_eq_true, and_true]
  refine ⟨⟨decide_eq_true (by omega), y.2.1⟩, ⟨decide_eq_true (by omega), mo.2.1⟩, ⟨decide_eq_true (by omega), d.2.1⟩,
    ⟨decide_eq_true (by omega), hh'.2.1⟩, ⟨decide_eq_true (by omega), mi.2.1⟩, ⟨decide_eq_true (by omega), s.2.1⟩,
    ⟨decide_eq_true (by omega), f.2.1⟩, ⟨decide_eq_true (by omega), digits_clean h.nsd⟩⟩

/-- the eight simple fields of an epoch record, cut with the parser's columns and stripped, are the printed cells -/
theorem head_slices (e : Epoch) (h : EpochOk e) (post : Str) :
    P8.map (fun f => FixedCol.slice f (rstrip (head32 e ++ post))) = head8 e := by
  have := slice_renderFrom P8 0 (rcells (head8 e)) [] post (by decide +kernel) (head_fits e h) rfl
  simp only [List.nil_append, rcells, List.map_map, Function.comp_def, List.map_id'] at this
  rw [← this]
  apply List.map_congr_left
  intro f _
  exact slice_rstrip f _


theorem head32_length (e : Epoch) (h : EpochOk e) : (head32 e).length = 32 := by
  have := length_renderFrom P8 0 (rcells (head8 e)) (by decide +kernel) (head_fits e h)
  simpa [head32, P8] using this

theorem satCols_length (e : Epoch) (h : EpochOk e) : (satCols e).length = 36 := by
  have hl : (ids12 e).flatten.length = 3 * (ids12 e).length := by
    have : ∀ (l : List Str), (∀ s ∈ l, s.length = 3) → l.flatten.length = 3 * l.length := by
      intro l hl
      induction l with
      | nil => rfl
      | cons s l ih => simp [hl s (by simp), ih (fun s' hs' => hl s' (by simp [hs']))]; omega
    exact this _ (fun s hs => satOk_len (ids12_ok e h s hs))
  have := ids12_le e
  simp [satCols, hl, blanks]; omega

/-- the satellite columns as the parser cuts them from the right-stripped record: the printed satellites plus blanks -/
theorem sat_list_slice (e : Epoch) (h : EpochOk e) :
    ∃ ws, isBlank ws = true ∧ Text.slice 32 68 (rstrip (head32 e ++ (satCols e ++ rjust 12 e.clk.text))) = (ids12 e).flatten ++ ws := by
  obtain ⟨w0, hE, hw0⟩ := rstrip_decomp (head32 e ++ (satCols e ++ rjust 12 e.clk.text))
  have hfull : Text.slice 32 68 (head32 e ++ (satCols e ++ rjust 12 e.clk.text)) = satCols e := by
    rw [← List.append_assoc]
    exact slice_cell (head32_length e h) (by rw [satCols_length e h])
  generalize rstrip (head32 e ++ (satCols e ++ rjust 12 e.clk.text)) = E' at hE ⊢
  rw [hE, Text.slice_append] at hfull
  exact prefix_visible _ _ _ _ hfull.symm (isBlank_blanks _) (isBlank_slice hw0 _ _)
    (flatten_last_visible _ (ids12_ok e h))

theorem clk_slice (e : Epoch) (h : EpochOk e) :
    strip (Text.slice 68 80 (rstrip (head32 e ++ (satCols e ++ rjust 12 e.clk.text)))) = e.clk.text := by
  rw [strip_slice_rstrip]
  have hc := Midgard.Spec.Rinex3ObsFile.cell_fits h.clk
  have : Text.slice 68 80 (head32 e ++ (satCols e ++ rjust 12 e.clk.text)) = rjust 12 e.clk.text := by
    have := @slice_cell (head32 e ++ satCols e) (rjust 12 e.clk.text) [] 68 80
      (by simp [head32_length e h, satCols_length e h]) (by rw [length_rjust hc.1])
    simpa [List.append_assoc] using this
  rw [this]
  exact strip_rjust hc.2

end Midgard.Spec.Rinex2ObsFile
