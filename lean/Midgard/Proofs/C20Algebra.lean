/-
C20 — helper lemmas: unit factors, degree/minute/second conversion, cross product, least squares
(field algebra over ℚ about the definitions of `Model/Numeric.lean`).
-/
import Midgard.Model.Numeric
import Mathlib.Tactic.Ring
import Mathlib.Tactic.FieldSimp
import Mathlib.Tactic.LinearCombination
import Mathlib.Tactic.Linarith
import Mathlib.Tactic.Positivity

namespace Midgard.Proofs.C20
open Midgard.Numeric Midgard.Generated.C20

/-! ### units -/

theorem convRow_recip (a b : UnitRow) (p : ℚ) (hd : a.dim = b.dim)
    (ha : unitFactor a p ≠ 0) (hb : unitFactor b p ≠ 0) :
    ∃ x y, convRow a b p = some x ∧ convRow b a p = some y ∧ x * y = 1 := by
  refine ⟨unitFactor a p / unitFactor b p, unitFactor b p / unitFactor a p, ?_, ?_, ?_⟩
  · simp [convRow, hd]
  · simp [convRow, hd]
  · field_simp

theorem convRow_trans (a b c : UnitRow) (p : ℚ) (x y : ℚ) (hb : unitFactor b p ≠ 0)
    (h1 : convRow a b p = some x) (h2 : convRow b c p = some y) :
    convRow a c p = some (x * y) := by
  unfold convRow at *
  split at h1 <;> [skip; exact absurd h1 (by simp)]
  split at h2 <;> [skip; exact absurd h2 (by simp)]
  rename_i hab hbc
  simp only [Option.some.injEq] at h1 h2
  rw [if_pos (hab.trans hbc), ← h1, ← h2]
  congr 1
  field_simp

theorem unitFactor_pos (u : UnitRow) (p : ℚ) (hq : 0 < u.q) (hp : 0 < p) : 0 < unitFactor u p := by
  unfold unitFactor
  split
  · exact mul_pos hq hp
  · exact hq

/-! ### degrees, minutes, seconds -/

theorem SF_ofRat_val (q : ℚ) (nz : Bool) : (SF.ofRat q nz).val = q := by
  unfold SF.ofRat SF.val
  split
  · simp
  · split
    · rename_i h; cases nz <;> simp [h]
    · simp

theorem SF_ofRat_mag_nonneg (q : ℚ) (nz : Bool) : 0 ≤ (SF.ofRat q nz).mag := by
  unfold SF.ofRat
  split
  · simp only; linarith
  · split
    · simp
    · simp only; linarith

theorem SF_scale_val (r : SF) (c : ℚ) : (SF.mk r.neg (r.mag * c)).val = r.val * c := by
  unfold SF.val; split <;> ring

theorem SF_ofRat_neg (q : ℚ) (nz : Bool) (hq : q ≠ 0) : (SF.ofRat q nz).neg = decide (q < 0) := by
  unfold SF.ofRat
  split
  · rename_i h; simp [h]
  · rename_i h; simp [h]

/-- the three fields recombine to the angle (pure algebra: no property of `floor` is needed) -/
theorem dms_recombine (D : ℚ) :
    (D.floor : ℚ) + ((frac1 D * 60).floor : ℚ) * (1 / 60) + frac1 (frac1 D * 60) * 60 * (1 / 3600) = D := by
  unfold frac1; ring

theorem degrees_cancel (p x : ℚ) (hp : p ≠ 0) : x * d2r p * r2d p = x := by
  unfold d2r r2d; field_simp

theorem frac1_range (x : ℚ) : 0 ≤ frac1 x ∧ frac1 x < 1 := by
  unfold frac1
  have h1 := Rat.floor_le x
  have h2 := Rat.lt_floor_add_one x
  push_cast at h2
  constructor <;> linarith

/-! ### plate motion -/

theorem cross_perp (w r : V3) : dot3 (cross w r) r = 0 ∧ dot3 (cross w r) w = 0 := by
  constructor <;> (simp only [cross, dot3]; ring)

theorem degToDms_fields (p : ℚ) (hp : 0 < p) (x : SF) :
    degToDms p x = (⟨x.neg && x.mag != 0, (x.mag.floor : ℚ)⟩, ((frac1 x.mag * 60).floor : ℚ),
      frac1 (frac1 x.mag * 60) * 60) := by
  have hd : d2r p ≠ 0 := by unfold d2r; positivity
  unfold degToDms radToDms
  simp only [degrees_cancel p x.mag (ne_of_gt hp)]
  congr 2
  have : (x.mag * d2r p != 0) = (x.mag != 0) := by
    by_cases h : x.mag = 0
    · simp [h]
    · rw [bne_iff_ne.mpr (mul_ne_zero h hd), bne_iff_ne.mpr h]
  rw [this]

theorem dms_roundtrip_val (p : ℚ) (hp : 0 < p) (x : SF) :
    (dmsToDeg p (degToDms p x).1 (degToDms p x).2.1 (degToDms p x).2.2).val = x.val := by
  rw [degToDms_fields p hp x]
  simp only [dmsToDeg, dmsToRad, SF_scale_val, SF_ofRat_val, dms_recombine]
  have hpn : p ≠ 0 := ne_of_gt hp
  rcases x with ⟨n, D⟩
  cases n
  · simp only [Bool.false_and, Bool.false_eq_true, if_false, SF.val]
    rw [one_mul, degrees_cancel p D hpn]
  · by_cases hD : D = 0
    · subst hD; simp [SF.val]
    · have : (D != 0) = true := by simpa using hD
      simp only [Bool.true_and, this, if_true, SF.val]
      rw [show (-1 : ℚ) * D * d2r p * r2d p = -(D * d2r p * r2d p) by ring, degrees_cancel p D hpn]

theorem dms_roundtrip_sign (p : ℚ) (hp : 0 < p) (x : SF) (hx : 0 < x.mag) :
    (dmsToDeg p (degToDms p x).1 (degToDms p x).2.1 (degToDms p x).2.2).neg = x.neg := by
  rw [degToDms_fields p hp x]
  simp only [dmsToDeg, dmsToRad, dms_recombine]
  have hd : 0 < d2r p := by unfold d2r; positivity
  rcases x with ⟨n, D⟩
  simp only at hx
  have hD : (D != 0) = true := by simpa using ne_of_gt hx
  cases n
  · simp only [Bool.false_and, Bool.false_eq_true, if_false, one_mul]
    rw [SF_ofRat_neg _ _ (ne_of_gt (mul_pos hx hd))]
    simpa using le_of_lt (mul_pos hx hd)
  · simp only [Bool.true_and, hD, if_true]
    have : (-1 : ℚ) * D * d2r p < 0 := by nlinarith [mul_pos hx hd]
    rw [SF_ofRat_neg _ _ (ne_of_lt this)]
    simpa using this

/-- the minute and second fields are in range: minutes a whole number in [0, 60), seconds in [0, 60) -/
theorem dms_fields_range (D : ℚ) :
    (0 : ℚ) ≤ ((frac1 D * 60).floor : ℚ) ∧ ((frac1 D * 60).floor : ℚ) < 60 ∧
    0 ≤ frac1 (frac1 D * 60) * 60 ∧ frac1 (frac1 D * 60) * 60 < 60 := by
  obtain ⟨a1, a2⟩ := frac1_range D
  obtain ⟨b1, b2⟩ := frac1_range (frac1 D * 60)
  have h0 : (0 : ℤ) ≤ (frac1 D * 60).floor := Rat.le_floor_iff.mpr (by push_cast; linarith)
  have h1 : (frac1 D * 60).floor < (60 : ℤ) := Rat.floor_lt_iff.mpr (by push_cast; linarith)
  refine ⟨by exact_mod_cast h0, by exact_mod_cast h1, by linarith, by linarith⟩

/-- Lagrange's identity: the speed is `|ω||r| sin θ`, and `v` is the right-handed rotation velocity -/
theorem cross_norm (w r : V3) :
    dot3 (cross w r) (cross w r) = dot3 w w * dot3 r r - dot3 w r * dot3 w r := by
  simp only [cross, dot3]; ring

/-! ### least squares -/

theorem sum_resid (a b : ℚ) : ∀ (xs ys : List ℚ), xs.length = ys.length →
    (List.zipWith (fun x y => y - (a + b * x)) xs ys).sum = ys.sum - (xs.length : ℚ) * a - b * xs.sum
  | [], [], _ => by simp
  | [], _ :: _, h => by simp at h
  | _ :: _, [], h => by simp at h
  | x :: xs, y :: ys, h => by
    have ih := sum_resid a b xs ys (by simpa using h)
    simp only [List.zipWith_cons_cons, List.sum_cons, List.length_cons, ih]
    push_cast; ring

theorem sum_x_resid (a b : ℚ) : ∀ (xs ys : List ℚ), xs.length = ys.length →
    (List.zipWith (· * ·) xs (List.zipWith (fun x y => y - (a + b * x)) xs ys)).sum =
      (List.zipWith (· * ·) xs ys).sum - a * xs.sum - b * (xs.map (fun x => x * x)).sum
  | [], [], _ => by simp
  | [], _ :: _, h => by simp at h
  | _ :: _, [], h => by simp at h
  | x :: xs, y :: ys, h => by
    have ih := sum_x_resid a b xs ys (by simpa using h)
    simp only [List.zipWith_cons_cons, List.sum_cons, List.map_cons, ih]
    ring

/-- the fitted line satisfies the normal equations: residuals are orthogonal to `1` and to `x` -/
theorem ols_normal_equations (xs ys : List ℚ) (f : Fit) (hl : xs.length = ys.length)
    (h : ols xs ys = some f) :
    (resid f xs ys).sum = 0 ∧ (List.zipWith (· * ·) xs (resid f xs ys)).sum = 0 := by
  unfold ols at h
  simp only at h
  split at h
  · exact absurd h (by simp)
  rename_i hden
  have hn : (xs.length : ℚ) ≠ 0 := by
    intro h0
    apply hden
    have : xs = [] := by
      have : xs.length = 0 := by exact_mod_cast h0
      exact List.length_eq_zero_iff.mp this
    subst this; simp
  injection h with h
  subst h
  unfold resid
  simp only
  rw [sum_resid _ _ xs ys hl, sum_x_resid _ _ xs ys hl]
  generalize (xs.length : ℚ) = n at *
  generalize xs.sum = sx at *
  generalize ys.sum = sy at *
  generalize (xs.map (fun x => x * x)).sum = sxx at *
  generalize (List.zipWith (· * ·) xs ys).sum = sxy at *
  have hb : (n * sxy - sx * sy) / (n * sxx - sx * sx) * (n * sxx - sx * sx) = n * sxy - sx * sy :=
    div_mul_cancel₀ _ hden
  generalize (n * sxy - sx * sy) / (n * sxx - sx * sx) = b at *
  have ha : (sy - b * sx) / n * n = sy - b * sx := div_mul_cancel₀ _ hn
  generalize (sy - b * sx) / n = a at *
  constructor
  · linear_combination (-1 : ℚ) * ha
  · have key : n * (sxy - a * sx - b * sxx) = 0 := by linear_combination (-sx) * ha - hb
    exact (mul_eq_zero.mp key).resolve_left hn

theorem sum_map_line (a b : ℚ) (xs : List ℚ) :
    (xs.map (fun x => a + b * x)).sum = (xs.length : ℚ) * a + b * xs.sum := by
  induction xs with
  | nil => simp
  | cons x xs ih => simp only [List.map_cons, List.sum_cons, List.length_cons, ih]; push_cast; ring

theorem sum_zip_line (a b : ℚ) (xs : List ℚ) :
    (List.zipWith (· * ·) xs (xs.map (fun x => a + b * x))).sum
      = a * xs.sum + b * (xs.map (fun x => x * x)).sum := by
  induction xs with
  | nil => simp
  | cons x xs ih => simp only [List.map_cons, List.zipWith_cons_cons, List.sum_cons, ih]; ring

/-- data lying exactly on a line are fitted by that line -/
theorem ols_exact_line (xs : List ℚ) (a b : ℚ)
    (hden : (xs.length : ℚ) * (xs.map (fun x => x * x)).sum - xs.sum * xs.sum ≠ 0) :
    ols xs (xs.map (fun x => a + b * x)) = some ⟨a, b⟩ := by
  have hn : (xs.length : ℚ) ≠ 0 := by
    intro h0
    apply hden
    have : xs = [] := List.length_eq_zero_iff.mp (by exact_mod_cast h0)
    subst this; simp
  unfold ols
  simp only [sum_map_line, sum_zip_line]
  rw [if_neg hden]
  have hb : ((xs.length : ℚ) * (a * xs.sum + b * (xs.map (fun x => x * x)).sum)
      - xs.sum * ((xs.length : ℚ) * a + b * xs.sum))
      / ((xs.length : ℚ) * (xs.map (fun x => x * x)).sum - xs.sum * xs.sum) = b := by
    rw [div_eq_iff hden]; ring
  rw [hb]
  have ha : ((xs.length : ℚ) * a + b * xs.sum - b * xs.sum) / (xs.length : ℚ) = a := by
    rw [div_eq_iff hn]; ring
  rw [ha]

end Midgard.Proofs.C20
