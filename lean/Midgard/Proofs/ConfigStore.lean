/-
Helper lemmas for C19 (text round trip), part E: from the options the reader returns to the updates
`update_from_file` issues and the store they leave behind.  Mathlib-free.
-/
import Midgard.Proofs.ConfigDoc

namespace Midgard.Proofs.ConfigText
open Midgard.Config

/-! ### Dictionaries -/

theorem dget?_dset_same {κ ν} [DecidableEq κ] (d : List (κ × ν)) (k : κ) (v : ν) :
    dget? (dset d k v) k = some v := by
  induction d with
  | nil => simp [dset, dget?]
  | cons p t ih =>
    obtain ⟨k', v'⟩ := p
    by_cases h : k' = k
    · simp [dset, dget?, h]
    · simp [dset, dget?, h, ih]

theorem dget?_dset_other {κ ν} [DecidableEq κ] (d : List (κ × ν)) (k k' : κ) (v : ν) (hne : k' ≠ k) :
    dget? (dset d k v) k' = dget? d k' := by
  induction d with
  | nil => simp [dset, dget?, Ne.symm hne]
  | cons p t ih =>
    obtain ⟨k0, v0⟩ := p
    by_cases h : k0 = k
    · subst h; simp [dset, dget?, Ne.symm hne]
    · by_cases h' : k0 = k'
      · subst h'; simp [dset, dget?, h]
      · simp [dset, dget?, h, h', ih]

theorem dget?_notin {κ ν} [DecidableEq κ] (d : List (κ × ν)) (k : κ) (h : k ∉ d.map (·.1)) : dget? d k = none := by
  induction d with
  | nil => rfl
  | cons p t ih =>
    obtain ⟨k', v'⟩ := p
    simp only [List.map_cons, List.mem_cons, not_or] at h
    simp [dget?, Ne.symm h.1, ih h.2]

theorem dset_notin {κ ν} [DecidableEq κ] (d : List (κ × ν)) (k : κ) (v : ν) (h : k ∉ d.map (·.1)) :
    dset d k v = d ++ [(k, v)] := by
  induction d with
  | nil => rfl
  | cons p t ih =>
    obtain ⟨k', v'⟩ := p
    simp only [List.map_cons, List.mem_cons, not_or] at h
    simp [dset, Ne.symm h.1, ih h.2]

theorem dget?_snoc {κ ν} [DecidableEq κ] (X : List (κ × ν)) (k : κ) (v : ν) (h : k ∉ X.map (·.1)) :
    dget? (X ++ [(k, v)]) k = some v := by
  induction X with
  | nil => simp [dget?]
  | cons p t ih =>
    obtain ⟨k', v'⟩ := p
    simp only [List.map_cons, List.mem_cons, not_or] at h
    simp [dget?, Ne.symm h.1, ih h.2]

theorem dset_snoc {κ ν} [DecidableEq κ] (X : List (κ × ν)) (k : κ) (v v' : ν) (h : k ∉ X.map (·.1)) :
    dset (X ++ [(k, v)]) k v' = X ++ [(k, v')] := by
  induction X with
  | nil => simp [dset]
  | cons p t ih =>
    obtain ⟨k', v0⟩ := p
    simp only [List.map_cons, List.mem_cons, not_or] at h
    simp [dset, Ne.symm h.1, ih h.2]

theorem foldl_dset_nodup {κ ν} [DecidableEq κ] (l acc : List (κ × ν)) (h : ((acc ++ l).map (·.1)).Nodup) :
    l.foldl (fun a p => dset a p.1 p.2) acc = acc ++ l := by
  induction l generalizing acc with
  | nil => simp
  | cons p t ih =>
    have hk : p.1 ∉ acc.map (·.1) := by
      intro hm
      have h' := List.nodup_append.1 (by simpa using h : (acc.map (·.1) ++ p.1 :: t.map (·.1)).Nodup)
      exact h'.2.2 _ hm _ (by simp) rfl
    rw [List.foldl_cons, dset_notin acc p.1 p.2 hk, ih (acc ++ [(p.1, p.2)]) (by simpa using h)]
    simp

/-! ### The value the reader joins from the lines of an item -/

def nl2sp (c : Char) : Char := if c = '\n' then ' ' else c

theorem isBlank_nl2sp (c : Char) : isBlank (nl2sp c) = isBlank c := by
  simp only [nl2sp]; split
  · rename_i h; subst h; decide
  · rfl

theorem dropWhile_blank_map (l : List Char) :
    (l.map nl2sp).dropWhile isBlank = (l.dropWhile isBlank).map nl2sp := by
  induction l with
  | nil => rfl
  | cons c t ih =>
    simp only [List.map_cons, List.dropWhile_cons, isBlank_nl2sp]
    split
    · exact ih
    · simp

theorem rstripBlanks_map (l : List Char) : rstripBlanks (l.map nl2sp) = (rstripBlanks l).map nl2sp := by
  simp only [rstripBlanks, ← List.map_reverse, dropWhile_blank_map]

theorem map_nl2sp_id (l : List Char) (h : '\n' ∉ l) : l.map nl2sp = l := by
  induction l with
  | nil => rfl
  | cons c t ih =>
    have hc : c ≠ '\n' := by intro e; subst e; simp at h
    simp [nl2sp, hc, ih (fun hm => h (List.mem_cons_of_mem _ hm))]

theorem unwords_append (a b : List (List Char)) (ha : a ≠ []) (hb : b ≠ []) :
    unwords (a ++ b) = unwords a ++ ' ' :: unwords b := by
  cases a with
  | nil => exact absurd rfl ha
  | cons x t =>
    cases b with
    | nil => exact absurd rfl hb
    | cons y r => simp [unwords, List.flatMap_append]

/-- lines of non-empty word groups, with line breaks turned into blanks, are the words joined by blanks -/
theorem joinLines_groups (G : List (List (List Char))) (hG : G ≠ []) (hne : ∀ g ∈ G, g ≠ [])
    (hw : ∀ g ∈ G, ∀ x ∈ g, WordOK x) :
    (joinLines (G.map unwords)).map nl2sp = unwords G.flatten := by
  induction G with
  | nil => exact absurd rfl hG
  | cons g t ih =>
    have hg : (unwords g).map nl2sp = unwords g := map_nl2sp_id _ (noNL_unwords g (hw g (by simp)))
    cases t with
    | nil => simpa [joinLines] using hg
    | cons g' t' =>
      have h1 := ih (by simp) (fun x hx => hne x (List.mem_cons_of_mem _ hx))
        (fun x hx => hw x (List.mem_cons_of_mem _ hx))
      have hrest : (g' :: t').flatten ≠ [] := by
        have := hne g' (by simp)
        cases g' with
        | nil => exact absurd rfl this
        | cons a b => simp
      simp only [List.map_cons] at h1 ⊢
      rw [joinLines_cons2, List.flatten_cons, unwords_append g _ (hne g (by simp)) hrest, ← h1]
      simp [hg, nl2sp]

theorem joinLines_blank_tail (L : List (List Char)) (hL : L ≠ []) (j : Nat) :
    joinLines (L ++ List.replicate j []) = joinLines L ++ List.replicate j '\n' := by
  induction j with
  | zero => simp
  | succ j ih =>
    rw [List.replicate_succ', ← List.append_assoc]
    have hne : L ++ List.replicate j [] ≠ [] := by simp [hL]
    have : ∀ M : List (List Char), M ≠ [] → joinLines (M ++ [[]]) = joinLines M ++ ['\n'] := by
      intro M hM
      induction M with
      | nil => exact absurd rfl hM
      | cons a r ihr =>
        cases r with
        | nil => simp [joinLines]
        | cons b r' =>
          have := ihr (by simp)
          simp only [List.cons_append] at this ⊢
          rw [joinLines_cons2, this, joinLines_cons2]
          simp
    rw [this _ hne, ih]
    simp [List.replicate_succ']

theorem strip_core (bl tr : List Char) (ws : List (List Char)) (hbl : ∀ c ∈ bl, isBlank c = true)
    (htr : ∀ c ∈ tr, isBlank c = true) (hw : ∀ x ∈ ws, WordOK x) :
    stripBlanks (rstripBlanks (bl ++ unwords ws ++ tr)) = unwords ws := by
  rw [rstripBlanks_append_blanks _ _ htr]
  cases ws with
  | nil =>
    have : rstripBlanks (bl ++ unwords []) = [] := by
      have := rstripBlanks_append_blanks [] bl hbl
      simpa [unwords, rstripBlanks] using this
    rw [this]; rfl
  | cons x t =>
    have hne : unwords (x :: t) ≠ [] := by
      have := (hw x (by simp)).1
      cases x with
      | nil => exact absurd rfl this
      | cons a b => simp [unwords]
    have hlast := unwords_getLast (x :: t) (by simp) hw
    rw [rstripBlanks_id _ (by rw [getLast?_append_ne_nil _ _ hne]; exact hlast),
      stripBlanks_blanks_append _ _ hbl, stripBlanks_unwords _ hw]

/-- **the reader's value**: the value lines, followed by any number of empty lines, join to the words
separated by single blanks -/
theorem joinValue_joins (vs : List (List Char)) (ws : List (List Char)) (j : Nat) (h : JoinsTo vs ws)
    (hw : ∀ x ∈ ws, WordOK x) : joinValue (vs ++ List.replicate j []) = String.ofList (unwords ws) := by
  obtain ⟨g0, gr, hne, hws, rfl⟩ := h
  have hw0 : ∀ x ∈ g0, WordOK x := fun x hx => hw x (by rw [← hws]; simp [hx])
  have hwr : ∀ g ∈ gr, ∀ x ∈ g, WordOK x := fun g hg x hx =>
    hw x (by rw [← hws]; exact List.mem_append_right _ (List.mem_flatten.2 ⟨g, hg, hx⟩))
  have hfun : (fun c => if c = '\n' then ' ' else c) = nl2sp := rfl
  simp only [joinValue, hfun, ← rstripBlanks_map]
  rw [joinLines_blank_tail _ (by simp), List.map_append]
  have htr : ∀ c ∈ (List.replicate j '\n').map nl2sp, isBlank c = true := by
    intro c hc
    simp only [List.map_replicate, List.mem_replicate] at hc
    rw [hc.2]; decide
  -- the lines proper
  have hbody : ∃ bl, (∀ c ∈ bl, isBlank c = true) ∧
      (joinLines (unwords g0 :: gr.map unwords)).map nl2sp = bl ++ unwords ws := by
    cases g0 with
    | nil =>
      cases gr with
      | nil => exact ⟨[], by simp, by simp [← hws, joinLines, unwords]⟩
      | cons g t =>
        refine ⟨[' '], by simp [isBlank_space], ?_⟩
        have := joinLines_groups (g :: t) (by simp) hne hwr
        simp only [List.map_cons] at this
        have h0 : nl2sp '\n' = ' ' := by decide
        rw [List.map_cons, show unwords ([] : List (List Char)) = [] from rfl, joinLines_cons2, List.nil_append,
          List.map_cons, this, h0, ← hws]
        rfl
    | cons x r =>
      refine ⟨[], by simp, ?_⟩
      have := joinLines_groups ((x :: r) :: gr) (by simp)
        (by intro g hg; rcases List.mem_cons.1 hg with h | h
            · subst h; simp
            · exact hne g h)
        (by intro g hg; rcases List.mem_cons.1 hg with h | h
            · subst h; exact hw0
            · exact hwr g h)
      simpa [← hws] using this
  obtain ⟨bl, hbl, hb⟩ := hbody
  rw [hb, strip_core bl _ ws hbl htr hw]

/-! ### Normalised options -/

/-- an option as `update_from_file` sees it: name and joined value -/
def normOpt (o : RawOpt) : List Char × Option String := (o.key, o.value.map joinValue)

def itemNorm (it : Item) : List Char × Option String :=
  (it.key, it.value.map (fun ws => String.ofList (unwords ws)))

theorem normOpt_item (o : RawOpt) (it : Item) (h : ItemRaw o it)
    (hw : ∀ ws, it.value = some ws → ∀ x ∈ ws, WordOK x) : normOpt o = itemNorm it := by
  obtain ⟨hk, hv⟩ := h
  simp only [normOpt, itemNorm, hk, Prod.mk.injEq, true_and]
  cases hval : it.value with
  | none => rw [hval] at hv; simp [hv]
  | some ws =>
    rw [hval] at hv
    obtain ⟨vs, j, e, hj⟩ := hv
    simp only [e, Option.map_some, Option.some.injEq]
    exact joinValue_joins vs ws j hj (hw ws hval)

theorem normOpt_items (os : List RawOpt) (items : List Item) (h : RawItems os items)
    (hw : ∀ it ∈ items, ∀ ws, it.value = some ws → ∀ x ∈ ws, WordOK x) :
    os.map normOpt = items.map itemNorm := by
  induction os generalizing items with
  | nil => cases items with
    | nil => rfl
    | cons a t => exact absurd h (by simp [RawItems])
  | cons o os ih => cases items with
    | nil => exact absurd h (by simp [RawItems])
    | cons a t =>
      simp only [List.map_cons]
      rw [normOpt_item o a h.1 (hw a (by simp)), ih t h.2 (fun it hit => hw it (List.mem_cons_of_mem _ hit))]

/-- the options of a section as they are read back: `(key, value)`, `(key:meta, value)` … -/
def flatOpts (s : Section) : List (List Char × Option String) :=
  s.flatMap (fun ke => (ke.1.toList, some ke.2.value) :: ke.2.metas.map (fun m => (metaKey ke.1 m.1, m.2)))

theorem itemNorm_section (lower : Bool) (w kw : Nat) (s : Section)
    (hs : ∀ ke ∈ s, wfEntryB lower w kw ke.1 ke.2 = true) : (sectionItems s).map itemNorm = flatOpts s := by
  induction s with
  | nil => rfl
  | cons ke t ih =>
    have hke := hs ke (by simp)
    simp only [wfEntryB, Bool.and_eq_true, List.all_eq_true] at hke
    obtain ⟨⟨⟨_, h4⟩, h5⟩, _⟩ := hke
    simp only [sectionItems, flatOpts, List.flatMap_cons, List.map_append] at ih ⊢
    rw [ih (fun x hx => hs x (List.mem_cons_of_mem _ hx))]
    congr 1
    simp only [entryItems, List.map_cons, List.map_map, itemNorm, Option.map_some, (wfValueB_spec h4).1,
      String.ofList_toList, List.cons.injEq, true_and]
    apply List.map_congr_left
    intro m hm
    have hm' := h5 m hm
    simp only [wfMetaB, Bool.and_eq_true] at hm'
    cases hv : m.2 with
    | none => simp [itemNorm, metaKey, hv]
    | some v =>
      have h2 := hm'.2
      rw [hv] at h2
      simp only [Bool.and_eq_true] at h2
      simp [itemNorm, metaKey, hv, (wfValueB_spec h2.2).1]

theorem words_of_entryItems (lower : Bool) (w kw : Nat) (s : Section)
    (hs : ∀ ke ∈ s, wfEntryB lower w kw ke.1 ke.2 = true) :
    ∀ it ∈ sectionItems s, ∀ ws, it.value = some ws → ∀ x ∈ ws, WordOK x := by
  intro it hit ws hws x hx
  obtain ⟨ke, hke, hit'⟩ := List.mem_flatMap.1 hit
  exact (((itemOK_entry lower w kw ke.1 ke.2 (hs ke hke) it hit').2 ws hws).2 x hx).1

/-! ### The updates of one section -/

def metaOfN (nopts : List (List Char × Option String)) (key : List Char) : List (String × Option String) :=
  (nopts.filterMap fun m =>
    if isPrefix (key ++ [':']) m.1 then some (String.ofList (partitionAt ':' m.1).2.2, m.2) else none).foldl
      (fun acc p => dset acc p.1 p.2) []

def sectionUpdatesN (source : String) (allowNew : Bool) (cfgSection : String)
    (nopts : List (List Char × Option String)) : List (String × Upd) :=
  let pd := partDunder cfgSection.toList
  if pd.1.isEmpty then [] else
  nopts.filterMap fun o =>
    if o.1.contains ':' then none else
    some (String.ofList o.1,
      ⟨String.ofList pd.1, String.ofList o.1, o.2.getD "None",
       if pd.2.1 then some (String.ofList pd.2.2) else none, source, metaOfN nopts o.1, allowNew⟩)

theorem metaOf_norm (opts : List RawOpt) (key : List Char) : metaOf opts key = metaOfN (opts.map normOpt) key := by
  simp only [metaOf, metaOfN, List.filterMap_map]
  rfl

theorem sectionUpdates_norm (source : String) (allowNew : Bool) (cfgSection : String) (opts : List RawOpt) :
    sectionUpdates source allowNew cfgSection opts = sectionUpdatesN source allowNew cfgSection (opts.map normOpt) := by
  simp only [sectionUpdates, sectionUpdatesN, List.filterMap_map, metaOf_norm]
  rfl

theorem isPrefix_spec (a b : List Char) : isPrefix a b = true ↔ ∃ r, b = a ++ r := by
  induction a generalizing b with
  | nil => simp [isPrefix]
  | cons x t ih =>
    cases b with
    | nil => simp [isPrefix]
    | cons y r =>
      simp only [isPrefix, Bool.and_eq_true, decide_eq_true_eq, ih, List.cons_append, List.cons.injEq]
      constructor
      · rintro ⟨rfl, r', rfl⟩; exact ⟨r', rfl, rfl⟩
      · rintro ⟨r', rfl, rfl⟩; exact ⟨rfl, r', rfl⟩

theorem filterMap_some_id {α} (l : List α) (f : α → Option α) (h : ∀ x ∈ l, f x = some x) : l.filterMap f = l := by
  induction l with
  | nil => rfl
  | cons a t ih =>
    rw [List.filterMap_cons, h a (by simp), ih (fun x hx => h x (List.mem_cons_of_mem _ hx))]

/-- the metadata filter of key `k` picks nothing from the options of another key -/
theorem metaFilter_other (k : List Char) (k' : String) (e' : Entry) (hk : ':' ∉ k) (hk' : ':' ∉ k'.toList)
    (hne : k'.toList ≠ k) :
    ((k'.toList, some e'.value) :: e'.metas.map (fun m => (metaKey k' m.1, m.2))).filterMap
      (fun m : List Char × Option String =>
        if isPrefix (k ++ [':']) m.1 then some (String.ofList (partitionAt ':' m.1).2.2, m.2) else none) = [] := by
  have hno : ∀ x : List Char, (partitionAt ':' x).1 = k'.toList → isPrefix (k ++ [':']) x = false := by
    intro x hx
    cases h : isPrefix (k ++ [':']) x with
    | false => rfl
    | true =>
      obtain ⟨r, rfl⟩ := (isPrefix_spec _ _).1 h
      rw [show k ++ [':'] ++ r = k ++ ':' :: r by simp, partitionAt_append ':' k r hk] at hx
      exact absurd hx.symm hne
  rw [List.filterMap_cons, hno _ (keyOf_key _ hk')]
  simp only [Bool.false_eq_true, if_false]
  rw [List.filterMap_map]
  apply List.filterMap_eq_nil_iff.2
  intro m _
  simp [Function.comp, hno _ (keyOf_meta k' m.1 hk')]

/-- … and exactly the metadata from the options of its own key -/
theorem metaFilter_same (k : String) (e : Entry) (hk : ':' ∉ k.toList) :
    ((k.toList, some e.value) :: e.metas.map (fun m => (metaKey k m.1, m.2))).filterMap
      (fun m : List Char × Option String =>
        if isPrefix (k.toList ++ [':']) m.1 then some (String.ofList (partitionAt ':' m.1).2.2, m.2) else none) =
      e.metas := by
  have h0 : isPrefix (k.toList ++ [':']) k.toList = false := by
    cases h : isPrefix (k.toList ++ [':']) k.toList with
    | false => rfl
    | true =>
      obtain ⟨r, hr⟩ := (isPrefix_spec _ _).1 h
      have : ':' ∈ k.toList := by rw [hr]; simp
      exact absurd this hk
  rw [List.filterMap_cons, h0]
  simp only [Bool.false_eq_true, if_false]
  rw [List.filterMap_map]
  apply filterMap_some_id
  intro m _
  have hp : isPrefix (k.toList ++ [':']) (metaKey k m.1) = true :=
    (isPrefix_spec _ _).2 ⟨m.1.toList, by simp [metaKey]⟩
  simp only [Function.comp, hp, if_true]
  simp [metaKey, partitionAt_append ':' _ _ hk]

theorem metaOfN_flatOpts (lower : Bool) (w kw : Nat) (s : Section)
    (hs : ∀ ke ∈ s, wfEntryB lower w kw ke.1 ke.2 = true) (hk : (s.map (·.1)).Nodup)
    (k : String) (e : Entry) (hke : (k, e) ∈ s) : metaOfN (flatOpts s) k.toList = e.metas := by
  have hkc := (colon_of_wfEntry (hs (k, e) hke)).1
  have hfilter : (flatOpts s).filterMap (fun m : List Char × Option String =>
      if isPrefix (k.toList ++ [':']) m.1 then some (String.ofList (partitionAt ':' m.1).2.2, m.2) else none) =
      e.metas := by
    induction s with
    | nil => simp at hke
    | cons ke' t ih =>
      obtain ⟨k', e'⟩ := ke'
      simp only [List.map_cons, List.nodup_cons] at hk
      simp only [flatOpts, List.flatMap_cons, List.filterMap_append] at ih ⊢
      rcases List.mem_cons.1 hke with h | h
      · simp only [Prod.mk.injEq] at h
        obtain ⟨rfl, rfl⟩ := h
        rw [metaFilter_same k e hkc]
        -- nothing from the other entries
        have hrest : ∀ (r : Section), (∀ x ∈ r, wfEntryB lower w kw x.1 x.2 = true) → k ∉ r.map (·.1) →
            (r.flatMap (fun ke => (ke.1.toList, some ke.2.value) :: ke.2.metas.map (fun m => (metaKey ke.1 m.1, m.2)))).filterMap
              (fun m : List Char × Option String =>
                if isPrefix (k.toList ++ [':']) m.1 then some (String.ofList (partitionAt ':' m.1).2.2, m.2) else none) = [] := by
          intro r hr hnot
          induction r with
          | nil => rfl
          | cons x r' ihr =>
            simp only [List.map_cons, List.mem_cons, not_or] at hnot
            rw [List.flatMap_cons, List.filterMap_append,
              metaFilter_other k.toList x.1 x.2 hkc (colon_of_wfEntry (hr x (by simp))).1
                (fun h => hnot.1 (toList_inj h).symm),
              ihr (fun y hy => hr y (List.mem_cons_of_mem _ hy)) hnot.2]
            rfl
        rw [hrest t (fun x hx => hs x (List.mem_cons_of_mem _ hx)) hk.1]
        simp
      · have hne : k'.toList ≠ k.toList := by
          intro heq
          have : k' = k := toList_inj heq
          subst this
          exact hk.1 (List.mem_map.2 ⟨(k', e), h, rfl⟩)
        rw [metaFilter_other k.toList k' e' hkc (colon_of_wfEntry (hs (k', e') (by simp))).1 hne,
          ih (fun x hx => hs x (List.mem_cons_of_mem _ hx)) hk.2 h]
        rfl
  rw [metaOfN, hfilter, foldl_dset_nodup e.metas [] (by simpa using (colon_of_wfEntry (hs (k, e) hke)).2)]
  rfl

/-- the profile a section name stands for (`name__profile`) -/
def profileOf (n : String) : Profile :=
  if (partDunder n.toList).2.1 then some (String.ofList (partDunder n.toList).2.2) else none

/-- the section a section name stands for -/
def baseOf (n : String) : String := String.ofList (partDunder n.toList).1

/-- the update one entry of the written section `n` becomes -/
def updOf (src : String) (allowNew : Bool) (n : String) (ke : String × Entry) : String × Upd :=
  (ke.1, ⟨baseOf n, ke.1, ke.2.value, profileOf n, src, ke.2.metas, allowNew⟩)

/-- the filter of `sectionUpdates` on one normalised option, the metadata lookup abstracted -/
def updFilter (src : String) (allowNew : Bool) (n : String) (M : List Char → List (String × Option String))
    (o : List Char × Option String) : Option (String × Upd) :=
  if o.1.contains ':' then none else
  some (String.ofList o.1,
    ⟨String.ofList (partDunder n.toList).1, String.ofList o.1, o.2.getD "None",
     if (partDunder n.toList).2.1 then some (String.ofList (partDunder n.toList).2.2) else none, src, M o.1, allowNew⟩)

theorem sectionUpdatesN_eq (src : String) (allowNew : Bool) (n : String) (nopts : List (List Char × Option String)) :
    sectionUpdatesN src allowNew n nopts =
      if (partDunder n.toList).1.isEmpty then [] else nopts.filterMap (updFilter src allowNew n (metaOfN nopts)) := rfl

theorem flatOpts_cons (ke : String × Entry) (t : Section) :
    flatOpts (ke :: t) =
      (ke.1.toList, some ke.2.value) :: (ke.2.metas.map (fun m => (metaKey ke.1 m.1, m.2)) ++ flatOpts t) := by
  simp [flatOpts]

/-- **the updates of one section** -/
theorem sectionUpdatesN_flatOpts (lower : Bool) (w kw : Nat) (src : String) (allowNew : Bool) (n : String)
    (s : Section) (hn : wfNameB n = true)
    (hs : ∀ ke ∈ s, wfEntryB lower w kw ke.1 ke.2 = true) (hk : (s.map (·.1)).Nodup) :
    sectionUpdatesN src allowNew n (flatOpts s) = s.map (updOf src allowNew n) := by
  have hbase : (partDunder n.toList).1.isEmpty = false := by
    simp only [wfNameB, Bool.and_eq_true, Bool.not_eq_true'] at hn
    exact hn.1.2
  rw [sectionUpdatesN_eq]
  simp only [hbase, Bool.false_eq_true, if_false]
  -- the filter keeps the entry lines, with the metadata found in the whole section
  have hgen : ∀ (M : List Char → List (String × Option String)), (∀ k e, (k, e) ∈ s → M k.toList = e.metas) →
      ∀ (r : Section), (∀ ke ∈ r, ke ∈ s) →
      (flatOpts r).filterMap (updFilter src allowNew n M) = r.map (updOf src allowNew n) := by
    intro M hM r hr
    induction r with
    | nil => rfl
    | cons ke t ih =>
      obtain ⟨k, e⟩ := ke
      have hmem := hr (k, e) (by simp)
      have hkc := (colon_of_wfEntry (hs (k, e) hmem)).1
      have hc1 : k.toList.contains ':' = false := by simpa using hkc
      have hmetas : (e.metas.map (fun m => (metaKey k m.1, m.2))).filterMap (updFilter src allowNew n M) = [] := by
        rw [List.filterMap_map]
        apply List.filterMap_eq_nil_iff.2
        intro m _
        simp [Function.comp, metaKey, updFilter]
      have hhead : updFilter src allowNew n M (k.toList, some e.value) = some (updOf src allowNew n (k, e)) := by
        simp only [updFilter, hc1, Bool.false_eq_true, if_false, updOf, baseOf, profileOf, String.ofList_toList,
          Option.getD_some, hM k e hmem]
      rw [flatOpts_cons, List.filterMap_cons, hhead, List.filterMap_append, hmetas,
        ih (fun x hx => hr x (List.mem_cons_of_mem _ hx))]
      rfl
  exact hgen (metaOfN (flatOpts s)) (fun k e h => metaOfN_flatOpts lower w kw s hs hk k e h) s (fun _ h => h)

/-! ### The store the updates leave behind -/

def sourceFor (src : String) (p : Profile) : String :=
  match p with
  | none => src
  | some p => s!"{src} ({p})"

/-- the profile's sections -/
def storeView (ps : List (Profile × Sections)) (p : Profile) : Sections := (dget? ps p).getD []

/-- `_profile_sections[profile][section][key] = entry` -/
def putE (ps : List (Profile × Sections)) (p : Profile) (b k : String) (e : Entry) : List (Profile × Sections) :=
  dset ps p (dset (storeView ps p) b (dset ((dget? (storeView ps p) b).getD []) k e))

def putU (ps : List (Profile × Sections)) (u : Upd) : List (Profile × Sections) :=
  putE ps u.profile u.sect u.key ⟨u.value, sourceFor u.source u.profile, u.metas⟩

theorem updateRaw_ok (c : Cfg) (u : Upd) (h : u.allowNew = true) :
    ∃ n, c.updateRaw u = .ok { c with profileSections := putU c.profileSections u, updateCount := n } := by
  simp only [Cfg.updateRaw, h, if_true]
  exact ⟨_, rfl⟩

theorem updateMany_ok (ups : List (String × Upd)) (h : ∀ tu ∈ ups, tu.2.allowNew = true) :
    ∀ (c : Cfg) (done : List String), ∃ n,
      (c.updateMany false ups done).1 =
        ({ c with profileSections := ups.foldl (fun ps tu => putU ps tu.2) c.profileSections,
                  updateCount := n } : Cfg).refresh ∧
      (c.updateMany false ups done).2.1 = none := by
  induction ups with
  | nil => intro c done; exact ⟨c.updateCount, rfl, rfl⟩
  | cons tu t ih =>
    intro c done
    obtain ⟨n1, h1⟩ := updateRaw_ok c tu.2 (h tu (by simp))
    obtain ⟨n, h2, h3⟩ := ih (fun x hx => h x (List.mem_cons_of_mem _ hx))
      { c with profileSections := putU c.profileSections tu.2, updateCount := n1 } (done ++ [tu.1])
    refine ⟨n, ?_, ?_⟩
    · simp only [Cfg.updateMany, h1]; exact h2
    · simp only [Cfg.updateMany, h1]; exact h3

theorem storeView_put_same (ps : List (Profile × Sections)) (p : Profile) (b k : String) (e : Entry) :
    storeView (putE ps p b k e) p =
      dset (storeView ps p) b (dset ((dget? (storeView ps p) b).getD []) k e) := by
  simp only [storeView, putE, dget?_dset_same, Option.getD_some]

theorem storeView_put_other (ps : List (Profile × Sections)) (p q : Profile) (b k : String) (e : Entry)
    (h : q ≠ p) : storeView (putE ps p b k e) q = storeView ps q := by
  simp only [storeView, putE, dget?_dset_other _ _ _ _ h]

/-- the entries of one section, written one after the other into a section that is the last of its profile -/
theorem store_section (p : Profile) (b : String) (E : Entry → Entry) (X : Sections) (hb : b ∉ X.map (·.1))
    (t : Section) :
    ∀ (ps : List (Profile × Sections)) (acc : Section),
      storeView ps p = X ++ [(b, acc)] → ((acc ++ t).map (·.1)).Nodup →
      storeView (t.foldl (fun ps ke => putE ps p b ke.1 (E ke.2)) ps) p =
          X ++ [(b, acc ++ t.map (fun ke => (ke.1, E ke.2)))] ∧
        ∀ q, q ≠ p → storeView (t.foldl (fun ps ke => putE ps p b ke.1 (E ke.2)) ps) q = storeView ps q := by
  induction t with
  | nil => intro ps acc h _; exact ⟨by simpa using h, fun _ _ => rfl⟩
  | cons ke r ih =>
    intro ps acc h hnd
    have hk : ke.1 ∉ acc.map (·.1) := by
      intro hm
      have h' := List.nodup_append.1 (by simpa using hnd : (acc.map (·.1) ++ ke.1 :: r.map (·.1)).Nodup)
      exact h'.2.2 _ hm _ (by simp) rfl
    have h1 : storeView (putE ps p b ke.1 (E ke.2)) p = X ++ [(b, acc ++ [(ke.1, E ke.2)])] := by
      rw [storeView_put_same, h, dget?_snoc X b acc hb, Option.getD_some, dset_notin acc _ _ hk, dset_snoc X b _ _ hb]
    obtain ⟨h2, h3⟩ := ih (putE ps p b ke.1 (E ke.2)) (acc ++ [(ke.1, E ke.2)]) h1 (by simpa using hnd)
    rw [List.foldl_cons]
    refine ⟨by rw [h2]; simp, fun q hq => ?_⟩
    rw [h3 q hq, storeView_put_other _ _ _ _ _ _ hq]

/-- a whole, non-empty section written into a profile that does not have it yet -/
theorem store_new_section (p : Profile) (b : String) (E : Entry → Entry) (s : Section) (hs : s ≠ [])
    (hnd : (s.map (·.1)).Nodup) (ps : List (Profile × Sections)) (hb : b ∉ (storeView ps p).map (·.1)) :
    storeView (s.foldl (fun ps ke => putE ps p b ke.1 (E ke.2)) ps) p =
        storeView ps p ++ [(b, s.map (fun ke => (ke.1, E ke.2)))] ∧
      ∀ q, q ≠ p → storeView (s.foldl (fun ps ke => putE ps p b ke.1 (E ke.2)) ps) q = storeView ps q := by
  cases s with
  | nil => exact absurd rfl hs
  | cons ke r =>
    have h1 : storeView (putE ps p b ke.1 (E ke.2)) p = storeView ps p ++ [(b, [(ke.1, E ke.2)])] := by
      rw [storeView_put_same, dget?_notin _ b hb, dset_notin _ b _ hb]
      rfl
    obtain ⟨h2, h3⟩ := store_section p b E (storeView ps p) hb r (putE ps p b ke.1 (E ke.2)) [(ke.1, E ke.2)] h1
      (by simpa using hnd)
    rw [List.foldl_cons]
    refine ⟨by rw [h2]; simp, fun q hq => ?_⟩
    rw [h3 q hq, storeView_put_other _ _ _ _ _ _ hq]

/-! ### Section names, sections and profiles -/

theorem partDunder_spec (l : List Char) :
    l = (partDunder l).1 ++ (if (partDunder l).2.1 then '_' :: '_' :: (partDunder l).2.2 else []) := by
  induction l using partDunder.induct with
  | case1 => simp [partDunder]
  | case2 t => simp [partDunder]
  | case3 c t h ih =>
    rw [partDunder.eq_3 c t h]
    simp only [List.cons_append, List.cons.injEq, true_and]
    exact ih

theorem ofList_inj {a b : List Char} (h : String.ofList a = String.ofList b) : a = b := by
  have := congrArg String.toList h
  simpa using this

/-- a section name is determined by the section and the profile it stands for -/
theorem name_inj (n n' : String) (hb : baseOf n = baseOf n') (hp : profileOf n = profileOf n') : n = n' := by
  apply toList_inj
  rw [partDunder_spec n.toList, partDunder_spec n'.toList, ofList_inj hb]
  simp only [profileOf] at hp
  cases h1 : (partDunder n.toList).2.1 <;> cases h2 : (partDunder n'.toList).2.1 <;> simp_all
  exact ofList_inj hp

/-- what is read back for a profile: the sections written under that profile, in order, the entries with
the file as their source -/
def readEntry (src : String) (p : Profile) (e : Entry) : Entry := ⟨e.value, sourceFor src p, e.metas⟩

def readBack (src : String) (p : Profile) (secs : Sections) : Sections :=
  (secs.filter (fun ns => decide (profileOf ns.1 = p))).map
    (fun ns => (baseOf ns.1, ns.2.map (fun ke => (ke.1, readEntry src p ke.2))))

theorem readBack_append (src : String) (p : Profile) (a b : Sections) :
    readBack src p (a ++ b) = readBack src p a ++ readBack src p b := by
  simp [readBack, List.filter_append]

theorem base_notin (src : String) (L : Sections) (n : String) (h : n ∉ L.map (·.1)) :
    baseOf n ∉ (readBack src (profileOf n) L).map (·.1) := by
  intro hm
  simp only [readBack, List.map_map, List.mem_map, List.mem_filter, decide_eq_true_eq, Function.comp] at hm
  obtain ⟨ns, ⟨hns, hp⟩, hb⟩ := hm
  have : ns.1 = n := name_inj ns.1 n hb hp
  exact h (List.mem_map.2 ⟨ns, hns, this⟩)

/-- **the store after the updates of a written configuration** -/
theorem store_file (src : String) (allowNew : Bool) (secs : Sections) :
    ∀ (done : Sections) (ps : List (Profile × Sections)),
      (∀ q, storeView ps q = readBack src q done) →
      ((done ++ secs).map (·.1)).Nodup →
      (∀ ns ∈ secs, ns.2 ≠ [] ∧ (ns.2.map (·.1)).Nodup) →
      ∀ q, storeView ((secs.flatMap (fun ns => ns.2.map (updOf src allowNew ns.1))).foldl
          (fun ps tu => putU ps tu.2) ps) q = readBack src q (done ++ secs) := by
  induction secs with
  | nil => intro done ps h _ _ q; simpa using h q
  | cons ns t ih =>
    intro done ps h hnd hs q
    obtain ⟨n, s⟩ := ns
    obtain ⟨hne, hk⟩ := hs (n, s) (by simp)
    simp only at hne hk
    have hnew : n ∉ done.map (·.1) := by
      intro hm
      have h' := List.nodup_append.1 (by simpa using hnd : (done.map (·.1) ++ n :: t.map (·.1)).Nodup)
      exact h'.2.2 _ hm _ (by simp) rfl
    have hb : baseOf n ∉ (storeView ps (profileOf n)).map (·.1) := by
      rw [h]; exact base_notin src done n hnew
    rw [List.flatMap_cons, List.foldl_append]
    -- the updates of this section
    have hfold : (s.map (updOf src allowNew n)).foldl (fun ps tu => putU ps tu.2) ps =
        s.foldl (fun ps ke => putE ps (profileOf n) (baseOf n) ke.1 (readEntry src (profileOf n) ke.2)) ps := by
      rw [List.foldl_map]; rfl
    obtain ⟨h1, h2⟩ := store_new_section (profileOf n) (baseOf n) (readEntry src (profileOf n)) s hne hk ps hb
    have hinv : ∀ q, storeView ((s.map (updOf src allowNew n)).foldl (fun ps tu => putU ps tu.2) ps) q =
        readBack src q (done ++ [(n, s)]) := by
      intro q
      rw [hfold, readBack_append]
      by_cases hq : q = profileOf n
      · subst hq
        rw [h1, h]
        simp [readBack]
      · rw [h2 q hq, h]
        have : decide (profileOf n = q) = false := by simpa using fun e => hq e.symm
        simp [readBack, this]
    have := ih (done ++ [(n, s)]) _ hinv (by simpa using hnd) (fun x hx => hs x (List.mem_cons_of_mem _ hx)) q
    simpa using this

/-! ### The flattened view of a store with the profile-less level only -/

theorem mergeSection_append (acc s : Section) (h : ((acc ++ s).map (·.1)).Nodup) : mergeSection acc s = acc ++ s := by
  induction s generalizing acc with
  | nil => simp [mergeSection]
  | cons ke t ih =>
    obtain ⟨k, e⟩ := ke
    have hk : k ∉ acc.map (·.1) := by
      intro hm
      have h' := List.nodup_append.1 (by simpa using h : (acc.map (·.1) ++ k :: t.map (·.1)).Nodup)
      exact h'.2.2 _ hm _ (by simp) rfl
    rw [mergeSection, dset_notin acc k e hk, ih (acc ++ [(k, e)]) (by simpa using h)]
    simp

theorem mergeProfile_append (acc P : Sections) (h : ((acc ++ P).map (·.1)).Nodup)
    (hin : ∀ ns ∈ P, (ns.2.map (·.1)).Nodup) : mergeProfile acc P = acc ++ P := by
  induction P generalizing acc with
  | nil => simp [mergeProfile]
  | cons ns t ih =>
    obtain ⟨n, s⟩ := ns
    have hk : n ∉ acc.map (·.1) := by
      intro hm
      have h' := List.nodup_append.1 (by simpa using h : (acc.map (·.1) ++ n :: t.map (·.1)).Nodup)
      exact h'.2.2 _ hm _ (by simp) rfl
    rw [mergeProfile]
    simp only [dget?_notin acc n hk, Option.getD_none]
    rw [mergeSection_append [] s (by simpa using hin (n, s) (by simp)), dset_notin acc n _ hk,
      ih (acc ++ [(n, [] ++ s)]) (by simpa using h) (fun x hx => hin x (List.mem_cons_of_mem _ hx))]
    simp

theorem flatten_none (ps : List (Profile × Sections)) (h : ((storeView ps none).map (·.1)).Nodup)
    (hin : ∀ ns ∈ storeView ps none, (ns.2.map (·.1)).Nodup) : flatten [none] ps = storeView ps none := by
  simp only [flatten, List.reverse_cons, List.reverse_nil, List.nil_append, flattenFrom]
  rw [show (dget? ps none).getD [] = storeView ps none from rfl, mergeProfile_append [] _ (by simpa using h) hin]
  rfl

theorem readBack_nodup (src : String) (p : Profile) (secs : Sections) (h : (secs.map (·.1)).Nodup) :
    ((readBack src p secs).map (·.1)).Nodup := by
  induction secs with
  | nil => simp [readBack]
  | cons ns t ih =>
    simp only [List.map_cons, List.nodup_cons] at h
    have ht := ih h.2
    by_cases hp : profileOf ns.1 = p
    · have : readBack src p (ns :: t) =
          (baseOf ns.1, ns.2.map (fun ke => (ke.1, readEntry src p ke.2))) :: readBack src p t := by
        simp [readBack, hp]
      rw [this, List.map_cons, List.nodup_cons]
      refine ⟨?_, ht⟩
      subst hp
      exact base_notin src t ns.1 h.1
    · have : readBack src p (ns :: t) = readBack src p t := by
        simp [readBack, hp]
      rw [this]; exact ht

theorem readBack_inner_nodup (src : String) (p : Profile) (secs : Sections)
    (h : ∀ ns ∈ secs, (ns.2.map (·.1)).Nodup) : ∀ ns ∈ readBack src p secs, (ns.2.map (·.1)).Nodup := by
  intro ns hns
  simp only [readBack, List.mem_map, List.mem_filter] at hns
  obtain ⟨ns', ⟨hm, _⟩, rfl⟩ := hns
  simp only [List.map_map]
  exact h ns' hm

end Midgard.Proofs.ConfigText
