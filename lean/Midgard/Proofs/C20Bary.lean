/-
C20 — SciPy's BarycentricInterpolator, specified as the full-window Lagrange interpolant: nodes, permutation,
polynomial reproduction, linearity, and equality with Mathlib's `Lagrange.interpolate` through the samples as given.
-/
import Midgard.Model.Numeric
import Midgard.Proofs.C20Lagrange

namespace Midgard.Proofs.C20
open Midgard.Numeric Polynomial

theorem barycentric_ok_form (xs : List ℚ) (rows : List (List ℚ)) (dim : ℕ)
    (xnew : List ℚ) (out : List (List ℚ)) (h : barycentric xs rows dim xnew = .ok out) :
    rows.length = xs.length ∧ 0 < xs.length ∧
    strictInc ((sortedPairs xs rows false).map (·.1)) = true ∧
    out = xnew.map (fun x => lagrangeAt ((sortedPairs xs rows false).map (·.1)) ((sortedPairs xs rows false).map (·.2))
      dim ((sortedPairs xs rows false).map (·.1)).length (mean ((sortedPairs xs rows false).map (·.1))) 1 x) := by
  simp only [barycentric, sortedPairs, Bool.false_eq_true, ↓reduceIte] at h ⊢
  split at h
  · exact absurd h (by simp)
  rename_i h1
  split at h
  · exact absurd h (by simp)
  rename_i h2
  split at h
  · exact absurd h (by simp)
  rename_i h4
  refine ⟨by simpa using h1, by omega, by simpa using h4, ?_⟩
  injection h with h
  exact h.symm

theorem getD_map_at {α} (l : List ℚ) (f : ℚ → α) (d : α) (j : ℕ) (hj : j < l.length) :
    (l.map f).getD j d = f (l.getD j 0) := by
  simp [List.getD_eq_getElem?_getD, hj]

theorem barycentric_nodes (xs : List ℚ) (rows : List (List ℚ)) (dim : ℕ)
    (xnew : List ℚ) (out : List (List ℚ)) (h : barycentric xs rows dim xnew = .ok out)
    (i j : ℕ) (hi : i < xs.length) (hj : j < xnew.length) (hx : xnew.getD j 0 = xs.getD i 0) :
    out.getD j [] = (List.range dim).map (fun c => (rows.getD i []).getD c 0) := by
  obtain ⟨hl, hpos, hinc, rfl⟩ := barycentric_ok_form _ _ _ _ _ h
  obtain ⟨k, hk, hk1, hk2⟩ := sortedPairs_index xs rows false hl i hi
  have hlen := sortedPairs_length xs rows false hl
  rw [getD_map_at _ _ _ _ hj, hx, ← hk1,
    lagrangeAt_node _ _ _ _ _ _ k one_ne_zero (strictInc_pairwise _ hinc) (by simpa using hk)
      (by simp [hlen]; omega) (le_refl _) (by simp), hk2]

theorem barycentric_poly (xs : List ℚ) (rows : List (List ℚ)) (dim : ℕ)
    (xnew : List ℚ) (out : List (List ℚ)) (h : barycentric xs rows dim xnew = .ok out)
    (c : ℕ) (hc : c < dim) (P : Polynomial ℚ) (hdeg : P.degree < (xs.length : ℕ))
    (hdata : ∀ i, i < xs.length → (rows.getD i []).getD c 0 = P.eval (xs.getD i 0))
    (j : ℕ) (hj : j < xnew.length) :
    (out.getD j []).getD c 0 = P.eval (xnew.getD j 0) := by
  obtain ⟨hl, hpos, hinc, rfl⟩ := barycentric_ok_form _ _ _ _ _ h
  have hlen := sortedPairs_length xs rows false hl
  rw [getD_map_at _ _ _ _ hj]
  apply lagrangeAt_poly _ _ _ _ _ _ _ _ one_ne_zero (strictInc_pairwise _ hinc) (le_refl _) (by simp) hc P
    (by simpa [hlen] using hdeg)
  intro k hk
  exact sortedPairs_forall xs rows false (fun x r => r.getD c 0 = P.eval x) hdata hl k (by simpa using hk)

theorem barycentric_perm (xs xs' : List ℚ) (rows rows' : List (List ℚ)) (dim : ℕ)
    (xnew : List ℚ) (hl : rows.length = xs.length) (hl' : rows'.length = xs'.length)
    (hperm : (xs.zip rows).Perm (xs'.zip rows'))
    (hdist : strictInc ((sortBy (xs.zip rows)).map (·.1)) = true) :
    barycentric xs' rows' dim xnew = barycentric xs rows dim xnew := by
  have hlen : xs'.length = xs.length := by
    have := hperm.length_eq
    simp [List.length_zip, hl, hl'] at this
    omega
  have hsort := sortBy_eq_of_perm _ _ hperm hdist
  simp only [barycentric, hl, hl', hlen, hsort]

/-- the abscissae of a successful call are pairwise distinct -/
theorem barycentric_nodup (xs : List ℚ) (rows : List (List ℚ)) (dim : ℕ)
    (xnew : List ℚ) (out : List (List ℚ)) (h : barycentric xs rows dim xnew = .ok out) : xs.Nodup := by
  obtain ⟨hl, _, hinc, _⟩ := barycentric_ok_form _ _ _ _ _ h
  have hn := nodup_of_pairwise_lt _ (strictInc_pairwise _ hinc)
  have hp : ((sortedPairs xs rows false).map (·.1)).Perm xs := by
    have := (sortedPairs_perm xs rows false).map (·.1)
    rwa [List.map_fst_zip (by omega)] at this
  exact hp.nodup_iff.mp hn

/-- the result is the value of Mathlib's Lagrange interpolant through the samples *as given* -/
theorem barycentric_eq_interpolate (xs : List ℚ) (rows : List (List ℚ)) (dim : ℕ)
    (xnew : List ℚ) (out : List (List ℚ)) (h : barycentric xs rows dim xnew = .ok out)
    (c : ℕ) (hc : c < dim) (j : ℕ) (hj : j < xnew.length) :
    (out.getD j []).getD c 0 = (Lagrange.interpolate (Finset.range xs.length) (nodeFn xs)
      (fun i => (rows.getD i []).getD c 0)).eval (xnew.getD j 0) := by
  have hinj := nodeFn_injOn xs (barycentric_nodup _ _ _ _ _ h)
  obtain ⟨_, hpos, _, _⟩ := barycentric_ok_form _ _ _ _ _ h
  apply barycentric_poly xs rows dim xnew out h c hc _ _ _ j hj
  · have := Lagrange.degree_interpolate_lt (fun i => (rows.getD i []).getD c 0) hinj
    simpa using this
  · intro i hi
    exact (Lagrange.eval_interpolate_at_node (fun i => (rows.getD i []).getD c 0) hinj (Finset.mem_range.mpr hi)).symm

theorem barycentric_linear (xs : List ℚ) (r₁ r₂ r₃ : List (List ℚ)) (dim : ℕ)
    (xnew : List ℚ) (a b : ℚ) (o₁ o₂ o₃ : List (List ℚ))
    (h₁ : barycentric xs r₁ dim xnew = .ok o₁)
    (h₂ : barycentric xs r₂ dim xnew = .ok o₂)
    (h₃ : barycentric xs r₃ dim xnew = .ok o₃)
    (c : ℕ) (hc : c < dim)
    (hcomb : ∀ i, i < xs.length →
      (r₃.getD i []).getD c 0 = a * (r₁.getD i []).getD c 0 + b * (r₂.getD i []).getD c 0)
    (j : ℕ) (hj : j < xnew.length) :
    (o₃.getD j []).getD c 0 = a * (o₁.getD j []).getD c 0 + b * (o₂.getD j []).getD c 0 := by
  rw [barycentric_eq_interpolate _ _ _ _ _ h₁ c hc j hj, barycentric_eq_interpolate _ _ _ _ _ h₂ c hc j hj,
    barycentric_eq_interpolate _ _ _ _ _ h₃ c hc j hj]
  simp only [Lagrange.interpolate_apply, eval_finsetSum, eval_mul, eval_C, Finset.mul_sum, ← Finset.sum_add_distrib]
  apply Finset.sum_congr rfl
  intro i hi
  rw [hcomb i (Finset.mem_range.mp hi)]
  ring

end Midgard.Proofs.C20
