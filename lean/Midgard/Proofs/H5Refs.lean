/-
C10 — consequences of the round trip stated on field paths: which field an attached object is, sharing
of attached objects, and which fields are omitted.
-/
import Midgard.Proofs.H5RoundTrip

namespace Midgard.H5
open Midgard.Dataset

/-- the array object of the leaf field `dset[path]` -/
def leafAt (fs : List Field) (p : Path) : Option Nat :=
  match findField fs p with
  | some (.leaf _ _ o _ _ _) => some o
  | _ => none

@[simp] theorem renameField_name (φ : Nat → Nat) (f : Field) : (renameField φ f).name = f.name := by
  cases f <;> rfl

theorem getField_rename (φ : Nat → Nat) (n : String) : ∀ (fs : List Field),
    getField (renameFields φ fs) n = (getField fs n).map (renameField φ)
  | [] => by simp [getField, renameFields]
  | f :: fs => by
    have ih := getField_rename φ n fs
    simp only [getField] at ih ⊢
    rw [renameFields_cons, List.find?_cons, List.find?_cons, renameField_name]
    cases hfn : f.name == n
    · simpa using ih
    · simp

theorem findField_rename (φ : Nat → Nat) : ∀ (p : Path) (fs : List Field),
    findField (renameFields φ fs) p = (findField fs p).map (renameField φ)
  | [], fs => by simp [findField]
  | [n], fs => by simp only [findField]; exact getField_rename φ n fs
  | n :: m :: rest, fs => by
    simp only [findField]
    rw [getField_rename]
    cases getField fs n with
    | none => rfl
    | some f =>
      cases f with
      | leaf nm k o no u l => simp [renameField]
      | coll nm no l sub =>
        simp only [Option.map_some, renameField]
        exact findField_rename φ (m :: rest) sub

theorem leafAt_rename (φ : Nat → Nat) (fs : List Field) (p : Path) :
    leafAt (renameFields φ fs) p = (leafAt fs p).map φ := by
  simp only [leafAt, findField_rename]
  cases findField fs p with
  | none => rfl
  | some f => cases f <;> simp [renameField]

theorem leafObjs_of_mem : ∀ (fs : List Field) (f : Field), f ∈ fs → ∀ o ∈ leafObjs [f], o ∈ leafObjs fs
  | [], _, hf, _, _ => by simp at hf
  | g :: gs, f, hf, o, ho => by
    rw [leafObjs_cons]
    rcases List.mem_cons.mp hf with rfl | hf
    · exact List.mem_append_left _ ho
    · exact List.mem_append_right _ (leafObjs_of_mem gs f hf o ho)

theorem getField_mem {fs : List Field} {n : String} {f : Field} (h : getField fs n = some f) : f ∈ fs := by
  simp only [getField] at h
  exact List.mem_of_find?_eq_some h

theorem findField_leaf_mem : ∀ (p : Path) (fs : List Field) {nm : String} {k : Kind} {o no : Nat} {u : Option (List String)}
    {l : Nat}, findField fs p = some (.leaf nm k o no u l) → o ∈ leafObjs fs
  | [], fs, _, _, _, _, _, _, h => by simp [findField] at h
  | [n], fs, _, _, _, _, _, _, h => by
    simp only [findField] at h
    exact leafObjs_of_mem fs _ (getField_mem h) _ (by simp [leafObjs])
  | n :: m :: rest, fs, _, _, _, _, _, _, h => by
    simp only [findField] at h
    cases hg : getField fs n with
    | none => simp [hg] at h
    | some f =>
      cases f with
      | leaf => simp [hg] at h
      | coll nm' no' l' sub =>
        simp only [hg] at h
        have := findField_leaf_mem (m :: rest) sub h
        exact leafObjs_of_mem fs _ (getField_mem hg) _ (by rw [leafObjs_coll_single]; exact this)

theorem leafAt_mem {fs : List Field} {p : Path} {o : Nat} (h : leafAt fs p = some o) : o ∈ leafObjs fs := by
  simp only [leafAt] at h
  cases hf : findField fs p with
  | none => simp [hf] at h
  | some f =>
    cases f with
    | coll => simp [hf] at h
    | leaf nm k o' no u l =>
      simp only [hf, Option.some.injEq] at h
      subst h
      exact findField_leaf_mem p fs hf

/-! ### which field an attached object is -/

/-- the facts `roundTrip_core` gives about the renumbering -/
structure IsoOn (h h' : Heap) (fs : List Field) (φ : Nat → Nat) : Prop where
  img : ∀ x, Reach h fs x → ∃ ob, h[x]? = some ob ∧ h'[φ x]? = some (ob.rename φ)
  inj : ∀ x y, Reach h fs x → Reach h fs y → φ x = φ y → x = y

theorem IsoOn.fieldness {h h' : Heap} {fs : List Field} {φ : Nat → Nat} (iso : IsoOn h h' fs φ) {x : Nat}
    (hx : Reach h fs x) (q : Path) : leafAt (renameFields φ fs) q = some (φ x) ↔ leafAt fs q = some x := by
  rw [leafAt_rename]
  constructor
  · intro hq
    cases ho : leafAt fs q with
    | none => simp [ho] at hq
    | some o =>
      simp only [ho, Option.map_some, Option.some.injEq] at hq
      rw [iso.inj o x (.field (leafAt_mem ho)) hx hq]
  · intro hq; simp [hq]

/-- a reference of a reachable object is, after the read, the image of what it was (chains included) -/
theorem IsoOn.ref {h h' : Heap} {fs : List Field} {φ : Nat → Nat} (iso : IsoOn h h' fs φ) {z y : Nat} {ob : Obj}
    (hz : Reach h fs z) (hob : h[z]? = some ob) (hr : ob.ref = some y) :
    ∃ ob', h'[φ z]? = some ob' ∧ ob'.ref = some (φ y) ∧ Reach h fs y := by
  obtain ⟨ob0, h1, h2⟩ := iso.img z hz
  rw [hob] at h1
  cases h1
  exact ⟨_, h2, by rw [rename_ref, hr]; rfl, .ref hz hob hr⟩

/-- **field `p`'s attached object is field `q` after the read iff it was before** -/
theorem IsoOn.refs_paths {h h' : Heap} {fs : List Field} {φ : Nat → Nat} (iso : IsoOn h h' fs φ) (p q : Path) :
    (∃ o ob x, leafAt fs p = some o ∧ h[o]? = some ob ∧ ob.ref = some x ∧ leafAt fs q = some x) ↔
    (∃ o' ob' x', leafAt (renameFields φ fs) p = some o' ∧ h'[o']? = some ob' ∧ ob'.ref = some x' ∧
      leafAt (renameFields φ fs) q = some x') := by
  constructor
  · rintro ⟨o, ob, x, hp, hob, hr, hq⟩
    have ho : Reach h fs o := .field (leafAt_mem hp)
    obtain ⟨ob', h1, h2, hx⟩ := iso.ref ho hob hr
    exact ⟨φ o, ob', φ x, by rw [leafAt_rename, hp]; rfl, h1, h2, (iso.fieldness hx q).mpr hq⟩
  · rintro ⟨o', ob', x', hp, hob', hr', hq⟩
    rw [leafAt_rename] at hp
    cases ho : leafAt fs p with
    | none => simp [ho] at hp
    | some o =>
      simp only [ho, Option.map_some, Option.some.injEq] at hp
      subst hp
      have hor : Reach h fs o := .field (leafAt_mem ho)
      obtain ⟨ob, h1, h2⟩ := iso.img o hor
      rw [h2] at hob'
      cases hob'
      rw [rename_ref] at hr'
      cases hro : ob.ref with
      | none => simp [hro] at hr'
      | some x =>
        simp only [hro, Option.map_some, Option.some.injEq] at hr'
        subst hr'
        exact ⟨o, ob, x, rfl, h1, hro, (iso.fieldness (.ref hor h1 hro) q).mp hq⟩

/-- **two fields share one attached object after the read iff they did before** -/
theorem IsoOn.sharing {h h' : Heap} {fs : List Field} {φ : Nat → Nat} (iso : IsoOn h h' fs φ) (p1 p2 : Path)
    {o1 o2 x1 x2 : Nat} {ob1 ob2 : Obj} (hp1 : leafAt fs p1 = some o1) (hp2 : leafAt fs p2 = some o2)
    (hob1 : h[o1]? = some ob1) (hob2 : h[o2]? = some ob2) (hr1 : ob1.ref = some x1) (hr2 : ob2.ref = some x2) :
    ∃ o1' o2' ob1' ob2' x1' x2', leafAt (renameFields φ fs) p1 = some o1' ∧ leafAt (renameFields φ fs) p2 = some o2' ∧
      h'[o1']? = some ob1' ∧ h'[o2']? = some ob2' ∧ ob1'.ref = some x1' ∧ ob2'.ref = some x2' ∧ (x1' = x2' ↔ x1 = x2) := by
  have r1 : Reach h fs o1 := .field (leafAt_mem hp1)
  have r2 : Reach h fs o2 := .field (leafAt_mem hp2)
  obtain ⟨ob1', a1, b1, c1⟩ := iso.ref r1 hob1 hr1
  obtain ⟨ob2', a2, b2, c2⟩ := iso.ref r2 hob2 hr2
  refine ⟨φ o1, φ o2, ob1', ob2', φ x1, φ x2, by rw [leafAt_rename, hp1]; rfl, by rw [leafAt_rename, hp2]; rfl,
    a1, a2, b1, b2, ?_⟩
  exact ⟨iso.inj x1 x2 c1 c2, fun e => by rw [e]⟩

/-! ### which fields are omitted -/

/-- `dset[path]` exists and the field and every collection around it has write level ≥ `lvl` -/
def visible (lvl : Nat) : List Field → Path → Bool
  | _, [] => false
  | fs, [n] =>
    match getField fs n with
    | some f => decide (lvl ≤ Field.level f)
    | none => false
  | fs, n :: rest =>
    match getField fs n with
    | some (.coll _ _ l sub) => decide (lvl ≤ l) && visible lvl sub rest
    | _ => false

theorem names_restrict_sub (lvl : Nat) : ∀ (fs : List Field) (n : String),
    n ∈ Midgard.Dataset.names (restrictFields lvl fs) → n ∈ Midgard.Dataset.names fs
  | [], n, h => by simp [restrictFields, Midgard.Dataset.names] at h
  | f :: fs, n, h => by
    simp only [Midgard.Dataset.names, List.map_cons, List.mem_cons]
    by_cases hlv : Field.level f < lvl
    · rw [restrict_skip hlv] at h
      exact Or.inr (names_restrict_sub lvl fs n h)
    · rw [restrict_keep hlv] at h
      simp only [Midgard.Dataset.names, List.map_cons, List.mem_cons, restrictField_name] at h
      rcases h with h | h
      · exact Or.inl h
      · exact Or.inr (names_restrict_sub lvl fs n h)

theorem getField_none_of_not_mem {fs : List Field} {n : String} (h : n ∉ Midgard.Dataset.names fs) : getField fs n = none := by
  simp only [getField, List.find?_eq_none]
  intro f hf hfn
  apply h
  simp only [Midgard.Dataset.names, List.mem_map]
  exact ⟨f, hf, by simpa using hfn⟩

/-- with unique names, `restrict` keeps the field of a name iff its level allows -/
theorem getField_restrict (lvl : Nat) (n : String) : ∀ (fs : List Field), namesOK fs = true →
    getField (restrictFields lvl fs) n =
      (getField fs n).bind (fun f => if Field.level f < lvl then none else some (restrictField lvl f))
  | [], _ => by simp [getField, restrictFields]
  | f :: fs, hn => by
    obtain ⟨hname, _, hn2⟩ := namesOK_cons f fs hn
    have ih := getField_restrict lvl n fs hn2
    by_cases hfn : f.name = n
    · have hg : getField (f :: fs) n = some f := by simp [getField, hfn]
      rw [hg]
      simp only [Option.bind_some]
      by_cases hlv : Field.level f < lvl
      · rw [restrict_skip hlv]
        simp only [hlv, if_true]
        apply getField_none_of_not_mem
        intro hmem
        exact hname (hfn ▸ names_restrict_sub lvl fs n hmem)
      · rw [restrict_keep hlv]
        simp [hlv, getField, hfn]
    · have hg : getField (f :: fs) n = getField fs n := by
        simp only [getField, List.find?_cons]
        have : (f.name == n) = false := by simpa using hfn
        simp [this]
      rw [hg, ← ih]
      by_cases hlv : Field.level f < lvl
      · rw [restrict_skip hlv]
      · rw [restrict_keep hlv]
        simp only [getField, List.find?_cons, restrictField_name]
        have : (f.name == n) = false := by simpa using hfn
        simp [this]

theorem namesOK_coll_of_mem : ∀ (fs : List Field) {nm : String} {no l : Nat} {sub : List Field}, namesOK fs = true →
    Field.coll nm no l sub ∈ fs → namesOK sub = true
  | [], _, _, _, _, _, h => by simp at h
  | f :: fs, nm, no, l, sub, hn, h => by
    obtain ⟨_, hn1, hn2⟩ := namesOK_cons f fs hn
    rcases List.mem_cons.mp h with rfl | h
    · simpa [namesOK, Midgard.Dataset.names] using hn1
    · exact namesOK_coll_of_mem fs hn2 h

/-- field names unique at every depth (`namesOK` of the whole tree) -/
theorem findField_restrict (lvl : Nat) : ∀ (p : Path) (fs : List Field), namesOK fs = true →
    (findField (restrictFields lvl fs) p).isSome = visible lvl fs p
  | [], fs, _ => by simp [findField, visible]
  | [n], fs, hn => by
    simp only [findField, visible]
    rw [getField_restrict lvl n fs hn]
    cases getField fs n with
    | none => rfl
    | some f =>
      simp only [Option.bind_some]
      by_cases hlv : Field.level f < lvl
      · simp [hlv] <;> omega
      · simp [hlv] <;> omega
  | n :: m :: rest, fs, hn => by
    simp only [findField, visible]
    rw [getField_restrict lvl n fs hn]
    cases hg : getField fs n with
    | none => rfl
    | some f =>
      simp only [Option.bind_some]
      cases f with
      | leaf nm k o no u l =>
        by_cases hlv : l < lvl <;> simp [Field.level, hlv, restrictField]
      | coll nm no l sub =>
        have hns := namesOK_coll_of_mem fs hn (getField_mem hg)
        by_cases hlv : l < lvl
        · simp [Field.level, hlv] <;> omega
        · simp only [Field.level, hlv, if_false, restrictField]
          rw [findField_restrict lvl (m :: rest) sub hns]
          have : decide (lvl ≤ l) = true := by simp <;> omega
          simp [this]

theorem findField_rename_isSome (φ : Nat → Nat) (p : Path) (fs : List Field) :
    (findField (renameFields φ fs) p).isSome = (findField fs p).isSome := by
  rw [findField_rename]; cases findField fs p <;> rfl

end Midgard.H5
