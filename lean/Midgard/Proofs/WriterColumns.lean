/-
C17 — what a parser column reads of a written line (semantics of the alignment tables): `column_reads_cell` — the columns
`[a, b)` of a rendered line, stripped, are the text of a writer cell when the table says that everything else in `[a, b)` is a
literal blank and `[a, b)` contains the part of the cell its text occupies (helper of Props/C17).
-/
import Midgard.Proofs.WriterFiles

namespace Midgard.WriterFiles
open Midgard.Text Midgard.Decimal Midgard.FixedCol Midgard.WriterCells Midgard.Writers

/-! ### a cell between blank margins -/

/-- all columns `≥ a` of the cells (laid out from column `pos`) are literal blanks -/
def blankFrom (a pos : Nat) : List Cell → Bool
  | [] => true
  | .lit t :: cs => (t.toList.drop (a - pos)).all (· = ' ') && blankFrom a (pos + t.toList.length) cs
  | .fld _ sp :: cs => decide (pos + sp.width ≤ a) && blankFrom a (pos + sp.width) cs
  | .other _ :: _ => false

/-- all columns `< b` of the cells (laid out from column `pos`) are literal blanks -/
def blankUpTo (b pos : Nat) : List Cell → Bool
  | [] => true
  | .lit t :: cs => (t.toList.take (b - pos)).all (· = ' ') && blankUpTo b (pos + t.toList.length) cs
  | .fld _ _ :: _ => decide (b ≤ pos)
  | .other _ :: _ => decide (b ≤ pos)

theorem isBlank_of_all_space {s : Str} (h : s.all (· = ' ') = true) : isBlank s = true := isBlank_of_spaces h

theorem blankFrom_sem (a : Nat) (cells : List Cell) : ∀ (pos : Nat) (vals : List Value) (P : Str),
    blankFrom a pos cells = true → allFit cells vals = true → renderCells cells vals = some P →
    isBlank (P.drop (a - pos)) = true := by
  induction cells with
  | nil => intro pos vals P _ _ h; simp [renderCells] at h; subst h; simp [isBlank]
  | cons c cs ih =>
    intro pos vals P hb hf hr
    cases c with
    | lit t =>
      simp only [blankFrom, Bool.and_eq_true, allFit] at hb hf
      simp only [renderCells, Option.map_eq_some_iff] at hr
      obtain ⟨P', hP', rfl⟩ := hr
      have := ih (pos + t.toList.length) vals P' hb.2 hf hP'
      rw [List.drop_append, isBlank_append, isBlank_of_all_space hb.1]
      have e : a - pos - t.toList.length = a - (pos + t.toList.length) := by omega
      rw [e, this]; rfl
    | other n => simp [blankFrom] at hb
    | fld n sp =>
      cases vals with
      | nil => simp [allFit] at hf
      | cons v vs =>
        simp only [blankFrom, Bool.and_eq_true, decide_eq_true_eq, allFit] at hb hf
        simp only [renderCells, hf.1.1, if_true, Option.map_eq_some_iff] at hr
        obtain ⟨P', hP', rfl⟩ := hr
        have hw := length_fmtValue sp v hf.1.2
        have := ih (pos + sp.width) vs P' hb.2 hf.2 hP'
        rw [List.drop_append, hw]
        have e1 : List.drop (a - pos) (fmtValue sp v) = [] := by apply List.drop_eq_nil_of_le; rw [hw]; omega
        have e : a - pos - sp.width = a - (pos + sp.width) := by omega
        rw [e1, e]; simpa using this

theorem blankUpTo_sem (b : Nat) (cells : List Cell) : ∀ (pos : Nat) (vals : List Value) (Q : Str),
    blankUpTo b pos cells = true → renderCells cells vals = some Q → isBlank (Q.take (b - pos)) = true := by
  induction cells with
  | nil => intro pos vals Q _ h; simp [renderCells] at h; subst h; simp [isBlank]
  | cons c cs ih =>
    intro pos vals Q hb hr
    cases c with
    | lit t =>
      simp only [blankUpTo, Bool.and_eq_true] at hb
      simp only [renderCells, Option.map_eq_some_iff] at hr
      obtain ⟨Q', hQ', rfl⟩ := hr
      have := ih (pos + t.toList.length) vals Q' hb.2 hQ'
      rw [List.take_append, isBlank_append, isBlank_of_all_space hb.1]
      have e : b - pos - t.toList.length = b - (pos + t.toList.length) := by omega
      rw [e, this]; rfl
    | other n =>
      simp only [blankUpTo, decide_eq_true_eq] at hb
      have : b - pos = 0 := by omega
      rw [this]; rfl
    | fld n sp =>
      simp only [blankUpTo, decide_eq_true_eq] at hb
      have : b - pos = 0 := by omega
      rw [this]; rfl

/-- a right-aligned cell: everything from column `a` (inside its padding or before it) to `b` (after it) strips to the text -/
theorem strip_slice_right (P Q t : Str) (k a b : Nat) (ht : Clean t = true)
    (ha : a ≤ P.length + k) (hb : P.length + k + t.length ≤ b)
    (hP : isBlank (P.drop a) = true) (hQ : isBlank (Q.take (b - (P.length + k + t.length))) = true) :
    strip (Text.slice a b (P ++ (blanks k ++ t) ++ Q)) = t := by
  unfold Text.slice
  have hlen : (P ++ (blanks k ++ t)).length = P.length + k + t.length := by simp [blanks]; omega
  rw [List.take_append, hlen]
  have htk : List.take b (P ++ (blanks k ++ t)) = P ++ (blanks k ++ t) := List.take_of_length_le (by rw [hlen]; exact hb)
  rw [htk, List.drop_append, List.drop_append]
  have hd : List.drop (a - P.length) (blanks k ++ t) = blanks (k - (a - P.length)) ++ t := by
    rw [List.drop_append]
    have h1 : List.drop (a - P.length) (blanks k) = blanks (k - (a - P.length)) := by simp [blanks]
    have h2 : a - P.length - (blanks k).length = 0 := by simp [blanks]; omega
    rw [h1, h2]; rfl
  rw [hd]
  have hdq : a - (P ++ (blanks k ++ t)).length = 0 := by rw [hlen]; omega
  rw [hdq, List.drop_zero]
  rw [strip_append_isBlank hQ, strip_blank_append hP, strip_blank_append (isBlank_blanks _), strip_of_clean ht]

/-- a left-aligned cell: from a column before it to a column after its text -/
theorem strip_slice_left (P Q t : Str) (k a b : Nat) (ht : Clean t = true)
    (ha : a ≤ P.length) (hb : P.length + t.length ≤ b)
    (hP : isBlank (P.drop a) = true) (hQ : isBlank (Q.take (b - (P.length + t.length + k))) = true) :
    strip (Text.slice a b (P ++ (t ++ blanks k) ++ Q)) = t := by
  unfold Text.slice
  have hlen : (P ++ (t ++ blanks k)).length = P.length + t.length + k := by simp [blanks]; omega
  rw [List.take_append, hlen, List.take_append]
  have htp : List.take b P = P := List.take_of_length_le (by omega)
  have htt : List.take (b - P.length) (t ++ blanks k) = t ++ blanks (min (b - P.length - t.length) k) := by
    rw [List.take_append, List.take_of_length_le (by omega : t.length ≤ b - P.length)]
    simp [blanks, List.take_replicate]
  rw [htp, htt, List.drop_append, List.drop_append]
  have h0 : a - P.length = 0 := by omega
  have h1 : a - (P ++ (t ++ blanks (min (b - P.length - t.length) k))).length = 0 := by simp; omega
  rw [h0, h1, List.drop_zero, List.drop_zero]
  rw [strip_append_isBlank hQ, strip_blank_append hP, strip_append_isBlank (isBlank_blanks _), strip_of_clean ht]

/-! ### splitting a rendered line at a cell -/

def fieldCount : List Cell → Nat
  | [] => 0
  | .fld _ _ :: cs => fieldCount cs + 1
  | _ :: cs => fieldCount cs

theorem render_append_some (xs ys : List Cell) : ∀ (vals : List Value) (line : Str),
    renderCells (xs ++ ys) vals = some line →
    ∃ P Q, renderCells xs vals = some P ∧ renderCells ys (vals.drop (fieldCount xs)) = some Q ∧ line = P ++ Q := by
  induction xs with
  | nil => intro vals line h; exact ⟨[], line, rfl, by simpa [fieldCount] using h, rfl⟩
  | cons c cs ih =>
    intro vals line h
    cases c with
    | lit t =>
      simp only [List.cons_append, renderCells, Option.map_eq_some_iff] at h
      obtain ⟨l, hl, rfl⟩ := h
      obtain ⟨P, Q, h1, h2, rfl⟩ := ih vals l hl
      exact ⟨t.toList ++ P, Q, by simp [renderCells, h1], by simpa [fieldCount] using h2, by simp⟩
    | other n => simp [renderCells] at h
    | fld n sp =>
      cases vals with
      | nil => simp [renderCells] at h
      | cons v vs =>
        simp only [List.cons_append, renderCells] at h
        split at h
        · rename_i hok
          simp only [Option.map_eq_some_iff] at h
          obtain ⟨l, hl, rfl⟩ := h
          obtain ⟨P, Q, h1, h2, rfl⟩ := ih vs l hl
          exact ⟨fmtValue sp v ++ P, Q, by simp [renderCells, hok, h1], by simpa [fieldCount] using h2, by simp⟩
        · simp at h

theorem allFit_append (xs ys : List Cell) : ∀ (vals : List Value), allFit (xs ++ ys) vals = true →
    allFit xs vals = true ∧ allFit ys (vals.drop (fieldCount xs)) = true := by
  induction xs with
  | nil => intro vals h; exact ⟨rfl, by simpa [fieldCount] using h⟩
  | cons c cs ih =>
    intro vals h
    cases c with
    | lit t => simp only [List.cons_append, allFit] at h; simpa [allFit, fieldCount] using ih vals h
    | other n => simp [allFit] at h
    | fld n sp =>
      cases vals with
      | nil => simp [allFit] at h
      | cons v vs =>
        simp only [List.cons_append, allFit, Bool.and_eq_true] at h
        obtain ⟨i1, i2⟩ := ih vs h.2
        exact ⟨by simp [allFit, h.1, i1], by simpa [fieldCount] using i2⟩

theorem render_length (xs : List Cell) (vals : List Value) (P : Str) (hf : allFit xs vals = true)
    (h : renderCells xs vals = some P) : P.length = nominalWidth xs := by
  obtain ⟨l, h1, h2, _⟩ := fields_in_columns_aux xs vals hf
  rw [h] at h1; cases h1; exact h2

/-- how a cell pads its text: the side the blanks are on -/
def padsRight (sp : Spec) (v : Value) : Bool := (sp.align.getD v.defaultAlign) == Align.right

/-- **a parser column reads a writer cell**: the columns `[a, b)` of a rendered line, stripped, are the text of the cell
`fld n sp` when — on the table — everything of the line before the cell that lies in `[a, ·)` and everything after it that lies
in `[·, b)` is a literal blank, and `[a, b)` contains the part of the cell its text occupies (right-aligned: its end;
left-aligned: its start).  Only the cells up to and including this one have to fit their widths. -/
theorem column_reads_cell (pre post : List Cell) (n : String) (sp : Spec) (vals : List Value) (line : Str) (a b : Nat)
    (hfit : allFit (pre ++ [.fld n sp]) vals = true)
    (hr : renderCells (pre ++ .fld n sp :: post) vals = some line)
    (hpre : blankFrom a 0 pre = true) (hpost : blankUpTo b (nominalWidth pre + sp.width) post = true) :
    ∃ v rest, vals.drop (fieldCount pre) = v :: rest ∧
      (Clean (v.text sp) = true →
       (if padsRight sp v then a + (v.text sp).length ≤ nominalWidth pre + sp.width ∧ nominalWidth pre + sp.width ≤ b
        else a ≤ nominalWidth pre ∧ nominalWidth pre + (v.text sp).length ≤ b) →
       strip (Text.slice a b line) = v.text sp) := by
  obtain ⟨hfpre, hfc⟩ := allFit_append pre [.fld n sp] vals hfit
  obtain ⟨P, R, hP, hR, rfl⟩ := render_append_some pre (.fld n sp :: post) vals line hr
  have hPlen := render_length pre vals P hfpre hP
  cases hd : vals.drop (fieldCount pre) with
  | nil => rw [hd] at hfc; simp [allFit] at hfc
  | cons v rest =>
    rw [hd] at hfc hR
    simp only [allFit, Bool.and_eq_true] at hfc
    simp only [renderCells, hfc.1.1, if_true, Option.map_eq_some_iff] at hR
    obtain ⟨Q, hQ, rfl⟩ := hR
    refine ⟨v, rest, rfl, ?_⟩
    intro hclean hcond
    have hw : (v.text sp).length ≤ sp.width := by simpa [fitsCell] using hfc.1.2
    have hPb := blankFrom_sem a pre 0 vals P hpre hfpre hP
    simp only [Nat.sub_zero] at hPb
    have hQb := blankUpTo_sem b post (nominalWidth pre + sp.width) rest Q hpost hQ
    have hassoc : P ++ (fmtValue sp v ++ Q) = P ++ fmtValue sp v ++ Q := by simp
    rw [hassoc]
    by_cases hright : padsRight sp v = true
    · simp only [hright, if_true] at hcond
      have hC : fmtValue sp v = blanks (sp.width - (v.text sp).length) ++ v.text sp := by
        unfold fmtValue; unfold padsRight at hright
        have : sp.align.getD v.defaultAlign = Align.right := by simpa using hright
        rw [this]; rfl
      rw [hC]
      apply strip_slice_right P Q (v.text sp) _ a b hclean
      · rw [hPlen]; omega
      · rw [hPlen]; omega
      · exact hPb
      · have e : P.length + (sp.width - (v.text sp).length) + (v.text sp).length = nominalWidth pre + sp.width := by
          rw [hPlen]; omega
        rw [e]; exact hQb
    · simp only [hright, if_false, Bool.false_eq_true] at hcond
      have hC : fmtValue sp v = v.text sp ++ blanks (sp.width - (v.text sp).length) := by
        unfold fmtValue; unfold padsRight at hright
        have : sp.align.getD v.defaultAlign = Align.left := by
          cases h : sp.align.getD v.defaultAlign
          · rfl
          · rw [h] at hright; simp at hright
        rw [this]; rfl
      rw [hC]
      apply strip_slice_left P Q (v.text sp) _ a b hclean
      · rw [hPlen]; exact hcond.1
      · rw [hPlen]; exact hcond.2
      · exact hPb
      · have e : P.length + (v.text sp).length + (sp.width - (v.text sp).length) = nominalWidth pre + sp.width := by
          rw [hPlen]; omega
        rw [e]; exact hQb

end Midgard.WriterFiles
