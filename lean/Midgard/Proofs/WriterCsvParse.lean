/-
C17 — parsers/csv_.py (model `Model/WriterCsv.lean`, pandas behaviours P1–P10 as probed assumptions) on what the csv_ writer
produces: the token rows of a written file and the dtype inference of the writer's `%d`, `%.pf`, `%s` columns (helper of
Props/C17).
-/
import Midgard.Proofs.WriterFilesCsv
import Midgard.Model.WriterCsv

namespace Midgard.WriterCsv
open Midgard.Text Midgard.Decimal Midgard.WriterFiles Midgard.Writers Midgard.WriterCells

/-- a text made of digits, `-` and `.` that starts with a digit or `-digit…` is no NA token -/
theorem numeric_not_NA (t : Str) (hne : t ≠ []) (h : ∀ c ∈ t, isDigit c = true ∨ c = '-' ∨ c = '.')
    (hd : ∃ c ∈ t, isDigit c = true) : isNA t = false := by
  have key : ∀ na ∈ naTokens, na = [] ∨ ∃ c ∈ na, ¬ (isDigit c = true ∨ c = '-' ∨ c = '.') ∨ na = "-".toList := by decide +kernel
  cases hna : isNA t with
  | false => rfl
  | true =>
    exfalso
    have hm : t ∈ naTokens := by simpa [isNA] using hna
    rcases key t hm with h0 | ⟨c, hc, hbad⟩
    · exact hne h0
    · rcases hbad with hbad | hbad
      · exact hbad (h c hc)
      · obtain ⟨d, hdm, hdd⟩ := hd
        rw [hbad] at hdm
        simp at hdm; subst hdm; revert hdd; decide

theorem fmtInt_chars (i : Int) : (∀ c ∈ fmtInt i, isDigit c = true ∨ c = '-' ∨ c = '.') ∧ (∃ c ∈ fmtInt i, isDigit c = true) := by
  have hd : ∀ c ∈ natDigits i.natAbs, isDigit c = true := fun c hc => isDigit_of_mem (allDigits_natDigits' _) hc
  obtain ⟨c0, r, hcr, hc0⟩ := natDigits_head_digit i.natAbs
  unfold fmtInt
  split
  · exact ⟨fun c hc => by rcases List.mem_cons.mp hc with rfl | hc; exact Or.inr (Or.inl rfl); exact Or.inl (hd c hc),
      c0, by rw [hcr]; simp, hc0⟩
  · exact ⟨fun c hc => Or.inl (hd c hc), c0, by rw [hcr]; simp, hc0⟩

theorem isIntTok_fmtInt (i : Int) : isIntTok (fmtInt i) = true := by
  unfold isIntTok
  rw [strip_of_no_space (no_space_fmtInt i)]
  unfold fmtInt
  split
  · simp [takeSign, natDigits_ne_nil', allDigits_natDigits']
  · obtain ⟨c, r, h, hd⟩ := natDigits_head_digit i.natAbs
    rw [h, takeSign_of_digit hd, ← h]
    simp [natDigits_ne_nil', allDigits_natDigits']

/-- **P2 for the writer's `%d` columns**: a non-empty column of printed integers is read as exactly these integers -/
theorem infer_int_column (is : List Int) (hne : is ≠ []) : inferCol (is.map fmtInt) = some (.ints is) := by
  have hna : ∀ t ∈ is.map fmtInt, isNA t = false := by
    intro t ht
    obtain ⟨i, _, rfl⟩ := List.mem_map.mp ht
    exact numeric_not_NA _ (fmtInt_ne_nil i) (fmtInt_chars i).1 (fmtInt_chars i).2
  have h1 : (is.map fmtInt).all isNA = false := by
    cases is with
    | nil => exact absurd rfl hne
    | cons i rest => simp [hna (fmtInt i) (by simp)]
  have h2 : (is.map fmtInt).all (fun t => isNA t || isIntTok t) = true := by
    rw [List.all_eq_true]; intro t ht
    obtain ⟨i, _, rfl⟩ := List.mem_map.mp ht
    simp [isIntTok_fmtInt]
  have h3 : (is.map fmtInt).any isNA = false := by
    rw [List.any_eq_false]; intro t ht; simp [hna t ht]
  unfold inferCol
  simp only [h1, h2, h3, Bool.false_eq_true, if_false, if_true, Option.some.injEq, Col.ints.injEq]
  rw [List.map_map]
  conv => rhs; rw [← List.map_id is]
  apply List.map_congr_left
  intro i _
  simp [parseInt_fmtInt]

/-- **P6 for the writer**: a column printed as `nan` throughout is dropped -/
theorem infer_nan_column (n : Nat) : inferCol (List.replicate n "nan".toList) = none := by
  have : (List.replicate n "nan".toList).all isNA = true := by
    rw [List.all_eq_true]; intro t ht
    rw [(List.mem_replicate.mp ht).2]; decide +kernel
  unfold inferCol
  rw [if_pos this]

theorem fmtFixedCore_chars (q : Rat) (p : Nat) :
    (∀ c ∈ fmtFixedCore q p, isDigit c = true ∨ c = '-' ∨ c = '.') ∧ (∃ c ∈ fmtFixedCore q p, isDigit c = true) := by
  rw [fmtFixedCore_eq]
  obtain ⟨c0, r, hcr, hc0⟩ := fixedBody_head p (fixedScaled q p)
  constructor
  · intro c hc
    rcases List.mem_append.mp hc with h | h
    · split at h
      · simp at h; exact Or.inr (Or.inl h)
      · simp at h
    · rcases fixedBody_chars _ _ c h with h | h
      · exact Or.inl h
      · exact Or.inr (Or.inr h)
  · exact ⟨c0, by rw [hcr]; simp, hc0⟩

/-- the token of a `%.pf` cell -/
def floatTok (p : Nat) : Option Rat → Str
  | some q => fmtFixedCore q p
  | none => "nan".toList

theorem isNA_nan : isNA "nan".toList = true := by decide +kernel
theorem isNA_nan' : isNA ['n', 'a', 'n'] = true := isNA_nan

theorem floatTok_facts (p : Nat) (hp : 0 < p) (v : Option Rat) :
    (isNA (floatTok p v) = v.isNone) ∧ (v.isSome → isIntTok (floatTok p v) = false ∧ isFloatTok (floatTok p v) = true) := by
  cases v with
  | none => exact ⟨isNA_nan, by simp⟩
  | some q =>
    refine ⟨numeric_not_NA _ (fmtFixedCore_ne_nil q p) (fmtFixedCore_chars q p).1 (fmtFixedCore_chars q p).2, fun _ => ⟨?_, ?_⟩⟩
    · -- the text contains a point: no integer token
      have hpoint : '.' ∈ fmtFixedCore q p := by
        rw [fmtFixedCore_eq]
        simp only [List.mem_append]
        right
        unfold fixedBody
        have : p ≠ 0 := by omega
        simp [this]
      show isIntTok (fmtFixedCore q p) = false
      unfold isIntTok
      rw [strip_of_no_space (no_space_fmtFixedCore q p)]
      cases hall : allDigits (takeSign (fmtFixedCore q p)).2 with
      | false => simp [hall]
      | true =>
        exfalso
        have hmem : '.' ∈ (takeSign (fmtFixedCore q p)).2 := by
          generalize fmtFixedCore q p = t at hpoint ⊢
          cases t with
          | nil => simp at hpoint
          | cons c r =>
            by_cases h1 : c = '-'
            · subst h1; simp [takeSign] at hpoint ⊢; exact hpoint
            · by_cases h2 : c = '+'
              · subst h2; simp [takeSign] at hpoint ⊢; exact hpoint
              · have : takeSign (c :: r) = (false, c :: r) := by
                  unfold takeSign; split <;> simp_all
                rw [this]; exact hpoint
        have := isDigit_of_mem hall hmem
        revert this; decide
    · simp [isFloatTok, floatTok, parseFloat_fmtFixedCore]

/-- **P3 for the writer's `%.pf` columns** (`p > 0`, not all NaN): read as a float column holding every value rounded to `p`
decimals (exactly, in the model: pandas' own rounding is the known finding) and NaN for NaN -/
theorem infer_float_column (p : Nat) (hp : 0 < p) (vs : List (Option Rat)) (hsome : ∃ v ∈ vs, v.isSome = true) :
    inferCol (vs.map (floatTok p)) = some (.floats (vs.map fun v => v.map fun q => fixedValue q p)) := by
  obtain ⟨v0, hv0, hs0⟩ := hsome
  have h1 : (vs.map (floatTok p)).all isNA = false := by
    rw [List.all_eq_false]
    refine ⟨floatTok p v0, List.mem_map.mpr ⟨v0, hv0, rfl⟩, ?_⟩
    rw [(floatTok_facts p hp v0).1]
    cases v0 <;> simp_all
  have h2 : (vs.map (floatTok p)).all (fun t => isNA t || isIntTok t) = false := by
    rw [List.all_eq_false]
    refine ⟨floatTok p v0, List.mem_map.mpr ⟨v0, hv0, rfl⟩, ?_⟩
    rw [(floatTok_facts p hp v0).1, ((floatTok_facts p hp v0).2 hs0).1]
    cases v0 <;> simp_all
  have h3 : (vs.map (floatTok p)).all (fun t => isNA t || isFloatTok t) = true := by
    rw [List.all_eq_true]; intro t ht
    obtain ⟨v, _, rfl⟩ := List.mem_map.mp ht
    cases v with
    | none => simp [floatTok, isNA_nan']
    | some q => simp [((floatTok_facts p hp (some q)).2 rfl).2]
  unfold inferCol
  simp only [h1, h2, h3, Bool.false_eq_true, if_false, if_true, Option.some.injEq, Col.floats.injEq, List.map_map]
  apply List.map_congr_left
  intro v _
  cases v with
  | none => simp [floatTok, isNA_nan']
  | some q =>
    have := (floatTok_facts p hp (some q)).1
    simp only [Function.comp, this, Option.isNone_some, Bool.false_eq_true, if_false]
    simp [floatTok, parseFloat_fmtFixedCore]

/-- **P4 for the writer's `%s` columns**: tokens none of which is an NA token, one of which is no number (and not
`True`/`False`): a text column of exactly these tokens -/
theorem infer_text_column (toks : List Str) (hna : ∀ t ∈ toks, isNA t = false)
    (hx : ∃ t ∈ toks, isFloatTok t = false ∧ isIntTok t = false ∧ isBoolTok t = false) :
    inferCol toks = some (.strs toks) := by
  obtain ⟨t0, ht0, hf, hi, hb⟩ := hx
  have h1 : toks.all isNA = false := List.all_eq_false.mpr ⟨t0, ht0, by simp [hna t0 ht0]⟩
  have h2 : toks.all (fun t => isNA t || isIntTok t) = false := List.all_eq_false.mpr ⟨t0, ht0, by simp [hna t0 ht0, hi]⟩
  have h3 : toks.all (fun t => isNA t || isFloatTok t) = false := List.all_eq_false.mpr ⟨t0, ht0, by simp [hna t0 ht0, hf]⟩
  have h4 : toks.all isBoolTok = false := List.all_eq_false.mpr ⟨t0, ht0, by simp [hb]⟩
  unfold inferCol
  simp only [h1, h2, h3, h4, Bool.false_eq_true, if_false, Option.some.injEq, Col.strs.injEq]
  conv => rhs; rw [← List.map_id toks]
  apply List.map_congr_left
  intro t ht
  simp [hna t ht]

/-! ### the token rows of a written file -/

/-- a token the writer may put into a line without changing how the line is cut: no separator, no `#`, no line break, no
leading blank -/
def plainTok (t : Str) : Bool :=
  t.all (fun c => !isCsvSep c && c != '#' && c != '\n' && c != '\r') && t.head? != some ' '

theorem rstripNl_line (l : Str) (h : ∀ c ∈ l, c ≠ '\n' ∧ c ≠ '\r') : rstripNl (l ++ ['\n']) = l := by
  unfold rstripNl
  rw [List.reverse_append]
  simp only [List.reverse_cons, List.reverse_nil, List.nil_append, List.singleton_append]
  have h1 : (('\n' :: l.reverse).dropWhile fun c => c = '\n' || c = '\r') = l.reverse := by
    simp only [List.dropWhile_cons, decide_true, Bool.true_or, if_true]
    cases hr : l.reverse with
    | nil => rfl
    | cons c r =>
      have hc : c ∈ l := by
        have : c ∈ l.reverse := by rw [hr]; simp
        simpa using this
      have := h c hc
      simp [this.1, this.2]
  rw [h1, List.reverse_reverse]

/-- **the token rows of a written file** (P1, P7, P8, P10 on the writer's side): header line and data lines joined with
commas from plain tokens come back as exactly these token rows -/
theorem csvRows_written (rows : List (List Str)) (hne : ∀ r ∈ rows, r ≠ [])
    (hplain : ∀ r ∈ rows, ∀ t ∈ r, plainTok t = true)
    (hkeep : ∀ r ∈ rows, ¬ (r.length = 1 ∧ isBlank (r.headD []) = true)) :
    csvRows ((rows.map fun r => joinWith ',' r ++ ['\n']).flatten) = rows := by
  have hchar : ∀ r ∈ rows, ∀ t ∈ r, ∀ c ∈ t, isCsvSep c = false ∧ c ≠ '#' ∧ c ≠ '\n' ∧ c ≠ '\r' := by
    intro r hr t ht c hc
    have := hplain r hr t ht
    simp only [plainTok, Bool.and_eq_true, List.all_eq_true, Bool.not_eq_true', bne_iff_ne, ne_eq] at this
    have := this.1 c hc
    exact ⟨this.1.1.1, this.1.1.2, this.1.2, this.2⟩
  have hjoin : ∀ (r : List Str), (∀ t ∈ r, ∀ c ∈ t, c ≠ '#' ∧ c ≠ '\n' ∧ c ≠ '\r') →
      ∀ c ∈ joinWith ',' r, c ≠ '#' ∧ c ≠ '\n' ∧ c ≠ '\r' := by
    intro r
    induction r with
    | nil => intro _ c hc; simp [joinWith] at hc
    | cons t rest ih =>
      intro h c hc
      cases rest with
      | nil => simp only [joinWith] at hc; exact h t (by simp) c hc
      | cons u rest' =>
        simp only [joinWith, List.mem_append, List.mem_cons] at hc
        rcases hc with hc | rfl | hc
        · exact h t (by simp) c hc
        · exact ⟨by decide, by decide, by decide⟩
        · exact ih (fun x hx => h x (by simp [hx])) c hc
  have hline : ∀ r ∈ rows, ∀ c ∈ joinWith ',' r, c ≠ '#' ∧ c ≠ '\n' ∧ c ≠ '\r' :=
    fun r hr => hjoin r (fun t ht c hc => (hchar r hr t ht c hc).2)
  have hfile : (rows.map fun r => joinWith ',' r ++ ['\n']).flatten = ((rows.map (joinWith ',')).map (· ++ ['\n'])).flatten := by
    rw [List.map_map]; rfl
  have hnocr : ∀ c ∈ ((rows.map (joinWith ',')).map (· ++ ['\n'])).flatten, c ≠ '\r' := by
    intro c hc
    obtain ⟨l, hl, hcl⟩ := List.mem_flatten.mp hc
    obtain ⟨b, hb, rfl⟩ := List.mem_map.mp hl
    obtain ⟨r, hr, rfl⟩ := List.mem_map.mp hb
    rcases List.mem_append.mp hcl with h | h
    · exact (hline r hr c h).2.2
    · simp at h; subst h; decide
  unfold csvRows
  rw [hfile, universalNewlines_of_noCR _ hnocr, fileLines_lines _ (by
    intro l hl c hc
    obtain ⟨r, hr, rfl⟩ := List.mem_map.mp hl
    exact (hline r hr c hc).2.1)]
  simp only [List.map_map]
  have hmap : (rows.map ((fun l => (splitSep l).map dropLeadingBlanks) ∘ (fun l => (rstripNl l).takeWhile (· ≠ '#')) ∘
      (· ++ ['\n']) ∘ joinWith ',')) = rows := by
    conv => rhs; rw [← List.map_id rows]
    apply List.map_congr_left
    intro r hr
    simp only [Function.comp, id]
    rw [rstripNl_line _ (fun c hc => ⟨(hline r hr c hc).2.1, (hline r hr c hc).2.2⟩),
      takeWhile_eq_self _ _ (fun c hc => by simpa using (hline r hr c hc).1),
      splitSep_joinWith r (hne r hr) (fun t ht c hc => (hchar r hr t ht c hc).1)]
    conv => rhs; rw [← List.map_id r]
    apply List.map_congr_left
    intro t ht
    have := hplain r hr t ht
    simp only [plainTok, Bool.and_eq_true, bne_iff_ne, ne_eq] at this
    unfold dropLeadingBlanks
    cases t with
    | nil => rfl
    | cons c rest =>
      have hc : c ≠ ' ' := by intro e; subst e; simp at this
      simp [hc]
  rw [hmap]
  apply List.filter_eq_self.mpr
  intro r hr
  have := hkeep r hr
  simp only [Bool.not_eq_true', Bool.and_eq_false_iff, beq_eq_false_iff_ne, ne_eq]
  by_cases h1 : r.length = 1
  · right
    cases hb : isBlank (r.headD []) with
    | false => rfl
    | true => exact absurd ⟨h1, hb⟩ this
  · left; exact h1

end Midgard.WriterCsv
