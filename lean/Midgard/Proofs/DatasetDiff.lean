/-
C09 — `Dataset.difference`: indexing without a memo builds images; what every field of the result is
(`DiffOf`: row k = row k of the self selection − row k of the other selection · unit factor, with ONE pair of
row indices for the whole field tree); the result is a rectangular, well-formed table.
-/
import Midgard.Proofs.DatasetExtendFields

namespace Midgard.Dataset

/-! ### `array[idx]` builds images -/

/-- one unfolding of `Img` -/
theorem Img.dest {idx : Index} {h : Heap} {o o' : Nat} (hi : Img idx h o o') :
    ∃ ob ob', h[o]? = some ob ∧ h[o']? = some ob' ∧ pick idx ob.rows = .ok ob'.rows ∧ ob'.kind = ob.kind ∧
      ob'.ndim = ob.ndim ∧ ob'.cols = ob.cols ∧
      (ob.kind.hasOther = true → OptRel (Img idx h) ob.other ob'.other) ∧
      (ob.kind.isDelta = true → OptRel (Img idx h) ob.refPos ob'.refPos) := by
  obtain ⟨f, hf⟩ := hi
  cases f with
  | zero => simp [ImgF] at hf
  | succ f =>
    obtain ⟨ob, ob', h1, h2, h3, h4, h5, h6, h7, h8⟩ := hf
    exact ⟨ob, ob', h1, h2, h3, h4, h5, h6, fun hk => (h7 hk).mono (fun _ _ hh => ⟨f, hh⟩),
      fun hk => (h8 hk).mono (fun _ _ hh => ⟨f, hh⟩)⟩

theorem getItemOpt_spec {idx : Index} {rec : Nat → Heap → M (Nat × Heap)}
    (hrec : ∀ a h a' h', rec a h = .ok (a', h') → HeapExt h h' ∧ Img idx h' a a')
    {r : Option Nat} {h : Heap} {r' : Option Nat} {h' : Heap}
    (hh : getItemOpt rec r h = .ok (r', h')) : HeapExt h h' ∧ OptRel (Img idx h') r r' := by
  cases r with
  | none =>
    simp only [getItemOpt, Except.ok.injEq, Prod.mk.injEq] at hh
    obtain ⟨rfl, rfl⟩ := hh
    exact ⟨HeapExt.refl _, .none⟩
  | some a =>
    simp only [getItemOpt] at hh
    split at hh
    · simp at hh
    · rename_i a' h1 hr
      simp only [Except.ok.injEq, Prod.mk.injEq] at hh
      obtain ⟨rfl, rfl⟩ := hh
      obtain ⟨e, hi⟩ := hrec _ _ _ _ hr
      exact ⟨e, .some hi⟩

theorem getElem?_append_self (h : Heap) (o : Obj) : (h ++ [o])[h.length]? = some o := by simp

theorem HeapExt.snoc (h : Heap) (x : Obj) : HeapExt h (h ++ [x]) := ⟨⟨[x], rfl⟩⟩

/-- **`array[idx]` builds the image of the array** (and of everything attached to it); the heap only grows -/
theorem getItemObj_spec (idx : Index) : ∀ (fuel o : Nat) (h : Heap) (o' : Nat) (h' : Heap),
    getItemObj idx fuel o h = .ok (o', h') → HeapExt h h' ∧ Img idx h' o o'
  | 0, _, _, _, _, hh => by simp [getItemObj] at hh
  | fuel + 1, o, h, o', h', hh => by
    simp only [getItemObj] at hh
    split at hh
    · simp at hh
    · rename_i obj hobj
      split at hh
      · simp at hh
      · rename_i rows hrows
        split at hh
        · simp at hh
        · rename_i oth h1 q1
          split at hh
          · simp at hh
          · rename_i rp h2 q2
            simp only [Except.ok.injEq, Prod.mk.injEq] at hh
            obtain ⟨rfl, rfl⟩ := hh
            have k1 : HeapExt h h1 ∧ (obj.kind.hasOther = true → OptRel (Img idx h1) obj.other oth) := by
              by_cases hk : obj.kind.hasOther = true
              · simp only [hk, if_true] at q1
                obtain ⟨a, b⟩ := getItemOpt_spec (getItemObj_spec idx fuel) q1
                exact ⟨a, fun _ => b⟩
              · simp only [hk] at q1
                simp only [Bool.false_eq_true, if_false, Except.ok.injEq, Prod.mk.injEq] at q1
                obtain ⟨rfl, rfl⟩ := q1
                exact ⟨HeapExt.refl _, fun h' => absurd h' hk⟩
            obtain ⟨e1, r1⟩ := k1
            have k2 : HeapExt h1 h2 ∧ (obj.kind.isDelta = true → OptRel (Img idx h2) obj.refPos rp) := by
              by_cases hk : obj.kind.isDelta = true
              · simp only [hk, if_true] at q2
                obtain ⟨a, b⟩ := getItemOpt_spec (getItemObj_spec idx fuel) q2
                exact ⟨a, fun _ => b⟩
              · simp only [hk] at q2
                simp only [Bool.false_eq_true, if_false, Except.ok.injEq, Prod.mk.injEq] at q2
                obtain ⟨rfl, rfl⟩ := q2
                exact ⟨HeapExt.refl _, fun h' => absurd h' hk⟩
            obtain ⟨e2, r2⟩ := k2
            let new : Obj := { obj with rows := rows, other := oth, refPos := rp }
            have e3 : HeapExt h2 (h2 ++ [new]) := ⟨⟨[new], rfl⟩⟩
            have e13 : HeapExt h (h2 ++ [new]) := (e1.trans e2).trans e3
            refine ⟨e13, ?_⟩
            refine Img.mk (ob := obj) (ob' := new) (e13.get hobj) (getElem?_append_self h2 new) hrows rfl rfl rfl ?_ ?_
            · exact fun hk => ((r1 hk).mono (fun _ _ => Img.ext e2)).mono (fun _ _ => Img.ext e3)
            · exact fun hk => (r2 hk).mono (fun _ _ => Img.ext e3)

/-! ### what a field of the result is -/

/-- the array `r` of a subtracted field: its rows are, position by position, the rows `si` selects from the
array `o` of self minus the rows `oi` selects from the array `o2` of other times the unit factors; it has no
`other`; a position difference refers to the selected rows of self (`Img si`), a difference of deltas keeps
the (selected) reference position of self -/
def DiffObj (us : Units) (si oi : Index) (h : Heap) (k : Kind) (u u2 : Option (List String)) (o o2 r : Nat) : Prop :=
  ∃ oa ob orr ra rb fs, h[o]? = some oa ∧ h[o2]? = some ob ∧ h[r]? = some orr ∧
    pick si oa.rows = .ok ra ∧ pick oi ob.rows = .ok rb ∧ diffFactors us u u2 = .ok fs ∧
    orr.rows = List.zipWith subRow ra (rb.map (scaleRow fs)) ∧ orr.other = none ∧
    (k.diffKind = some orr.kind ∧ orr.ndim = oa.ndim ∧ orr.cols = oa.cols) ∧
    (k.hasOther = true → ∃ a, orr.refPos = some a ∧ Img si h o a) ∧
    (k.isDelta = true → OptRel (Img si h) oa.refPos orr.refPos) ∧
    (k.hasOther = false → k.isDelta = false → orr.refPos = none)

theorem DiffObj.ext {us si oi h h' k u u2 o o2 r} (e : HeapExt h h') (d : DiffObj us si oi h k u u2 o o2 r) :
    DiffObj us si oi h' k u u2 o o2 r := by
  obtain ⟨oa, ob, orr, ra, rb, fs, h1, h2, h3, h4, h5, h6, h7, h8, hk', h9, h10, h11⟩ := d
  refine ⟨oa, ob, orr, ra, rb, fs, e.get h1, e.get h2, e.get h3, h4, h5, h6, h7, h8, hk', ?_, ?_, h11⟩
  · intro hk; obtain ⟨a, ha, hi⟩ := h9 hk; exact ⟨a, ha, hi.ext e⟩
  · intro hk; exact (h10 hk).mono (fun _ _ => Img.ext e)

/-- `r` is what `Collection._difference` makes of the common field pair `f` (self) / `g` (other), with the row
indices `si` / `oi` and `cnt` paired rows: the difference field, or a `_self` / `_other` copy of a field that
does not support `-`, or — for collections — a collection of such fields **built with the same `si`, `oi`** -/
def DiffOf (us : Units) (si oi : Index) (cnt : Nat) (h : Heap) : Field → Field → Field → Prop
  | .leaf nm k o _ u l, .leaf _ k2 o2 _ u2 l2, r => k2 = k ∧
      ((∃ k' ro, k.diffKind = some k' ∧ r = .leaf nm k' ro cnt u l ∧ DiffObj us si oi h k u u2 o o2 ro) ∨
       (k.diffKind = none ∧ ∃ a, r = .leaf (nm ++ "_self") k a cnt u l ∧ Img si h o a) ∨
       (k.diffKind = none ∧ ∃ b, r = .leaf (nm ++ "_other") k b cnt u2 l2 ∧ Img oi h o2 b))
  | .coll nm _ l fs, .coll _ _ _ gs, r =>
      ∃ rs, r = .coll nm cnt l rs ∧ (names rs).Nodup ∧ ∀ x ∈ rs, DiffAny fs gs x
  | .leaf .., .coll .., _ => False
  | .coll .., .leaf .., _ => False
where
  /-- `r` comes from one of the fields of `fs` and the field of the same name in `gs` -/
  DiffAny : List Field → List Field → Field → Prop
    | [], _, _ => False
    | f :: fs, gs, r => (∃ g, getField gs f.name = some g ∧ DiffOf us si oi cnt h f g r) ∨ DiffAny fs gs r

theorem DiffAny.iff {us si oi cnt h} : ∀ (fs gs : List Field) (r : Field),
    DiffOf.DiffAny us si oi cnt h fs gs r ↔ ∃ f ∈ fs, ∃ g, getField gs f.name = some g ∧ DiffOf us si oi cnt h f g r
  | [], _, _ => by simp [DiffOf.DiffAny]
  | f :: fs, gs, r => by
    simp only [DiffOf.DiffAny, DiffAny.iff fs gs r, List.mem_cons]
    constructor
    · rintro (⟨g, hg, hd⟩ | ⟨f', hf', g, hg, hd⟩)
      · exact ⟨f, Or.inl rfl, g, hg, hd⟩
      · exact ⟨f', Or.inr hf', g, hg, hd⟩
    · rintro ⟨f', (rfl | hf'), g, hg, hd⟩
      · exact Or.inl ⟨g, hg, hd⟩
      · exact Or.inr ⟨f', hf', g, hg, hd⟩

mutual
theorem DiffOf.ext {us si oi cnt h h'} (e : HeapExt h h') : ∀ (f g r : Field),
    DiffOf us si oi cnt h f g r → DiffOf us si oi cnt h' f g r
  | .leaf nm k o no u l, .leaf nm2 k2 o2 no2 u2 l2, r, hd => by
    simp only [DiffOf] at hd ⊢
    obtain ⟨hk, hd⟩ := hd
    refine ⟨hk, ?_⟩
    rcases hd with ⟨k', ro, a, b, c⟩ | ⟨a, x, b, c⟩ | ⟨a, x, b, c⟩
    · exact Or.inl ⟨k', ro, a, b, c.ext e⟩
    · exact Or.inr (Or.inl ⟨a, x, b, c.ext e⟩)
    · exact Or.inr (Or.inr ⟨a, x, b, c.ext e⟩)
  | .coll nm no l fs, .coll nm2 no2 l2 gs, r, hd => by
    simp only [DiffOf] at hd ⊢
    obtain ⟨rs, a, b, c⟩ := hd
    exact ⟨rs, a, b, fun x hx => DiffAny.ext e fs gs x (c x hx)⟩
  | .leaf .., .coll .., _, hd => by simp [DiffOf] at hd
  | .coll .., .leaf .., _, hd => by simp [DiffOf] at hd
theorem DiffAny.ext {us si oi cnt h h'} (e : HeapExt h h') : ∀ (fs gs : List Field) (r : Field),
    DiffOf.DiffAny us si oi cnt h fs gs r → DiffOf.DiffAny us si oi cnt h' fs gs r
  | [], _, _, hd => by simp [DiffOf.DiffAny] at hd
  | f :: fs, gs, r, hd => by
    simp only [DiffOf.DiffAny] at hd ⊢
    rcases hd with ⟨g, hg, hd⟩ | hd
    · exact Or.inl ⟨g, hg, DiffOf.ext e f g r hd⟩
    · exact Or.inr (DiffAny.ext e fs gs r hd)
end

/-! the result fields have unique names in every collection -/
mutual
theorem DiffOf.wff {us si oi cnt h} : ∀ (f g r : Field), DiffOf us si oi cnt h f g r → WFF r
  | .leaf nm k o no u l, .leaf nm2 k2 o2 no2 u2 l2, r, hd => by
    simp only [DiffOf] at hd
    rcases hd.2 with ⟨k', ro, _, rfl, _⟩ | ⟨_, x, rfl, _⟩ | ⟨_, x, rfl, _⟩ <;> simp [WFF]
  | .coll nm no l fs, .coll nm2 no2 l2 gs, r, hd => by
    simp only [DiffOf] at hd
    obtain ⟨rs, rfl, b, c⟩ := hd
    simp only [WFF]
    exact ⟨b, (WFFs_iff rs).mpr (fun x hx => DiffAny.wff fs gs x (c x hx))⟩
  | .leaf .., .coll .., _, hd => by simp [DiffOf] at hd
  | .coll .., .leaf .., _, hd => by simp [DiffOf] at hd
theorem DiffAny.wff {us si oi cnt h} : ∀ (fs gs : List Field) (r : Field),
    DiffOf.DiffAny us si oi cnt h fs gs r → WFF r
  | [], _, _, hd => by simp [DiffOf.DiffAny] at hd
  | f :: fs, gs, r, hd => by
    simp only [DiffOf.DiffAny] at hd
    rcases hd with ⟨g, _, hd⟩ | hd
    · exact DiffOf.wff f g r hd
    · exact DiffAny.wff fs gs r hd
end

theorem length_zipWith_subRow (a b : List Row) : (List.zipWith subRow a b).length = min a.length b.length := by
  simp

/-- a subtracted array (with what it refers to) has `cnt` rows when both selections have `cnt` rows -/
theorem DiffObj.good {us si oi h k u u2 o o2 r} {cnt : Nat} (hs : si.count = cnt) (ho : oi.count = cnt)
    (d : DiffObj us si oi h k u u2 o o2 r) : Good h cnt r := by
  obtain ⟨oa, ob, orr, ra, rb, fs, h1, h2, h3, h4, h5, h6, h7, h8, hk', h9, h10, h11⟩ := d
  have hkind : orr.kind.isDelta = true → k.hasOther = true ∨ k.isDelta = true := by
    intro hd
    have := hk'.1
    cases k <;> simp [Kind.diffKind] at this <;> simp [← this, Kind.isDelta, Kind.hasOther] at hd ⊢
  have la : ra.length = cnt := by rw [pick_length si _ _ h4, hs]
  have lb : rb.length = cnt := by rw [pick_length oi _ _ h5, ho]
  refine Good.mk h3 (by rw [h7]; simp [la, lb]) ?_ ?_
  · intro a _ ha; rw [h8] at ha; cases ha
  · intro a hk ha
    rcases hkind hk with hh | hh
    · obtain ⟨a', ha', hi⟩ := h9 hh
      rw [ha] at ha'; cases ha'
      rw [← hs]; exact hi.good
    · have := h10 hh
      rw [ha] at this
      obtain ⟨x, _, hi⟩ := this.of_some_right
      rw [← hs]; exact hi.good

/-! every field of the result is rectangular with `cnt` rows -/
mutual
theorem DiffOf.rect {us si oi cnt h} (hs : si.count = cnt) (ho : oi.count = cnt) : ∀ (f g r : Field),
    DiffOf us si oi cnt h f g r → RectField h cnt r
  | .leaf nm k o no u l, .leaf nm2 k2 o2 no2 u2 l2, r, hd => by
    simp only [DiffOf] at hd
    rcases hd.2 with ⟨k', ro, _, rfl, c⟩ | ⟨_, x, rfl, c⟩ | ⟨_, x, rfl, c⟩
    · simp only [RectField]; exact ⟨c.good hs ho, trivial⟩
    · simp only [RectField]; exact ⟨hs ▸ c.good, trivial⟩
    · simp only [RectField]; exact ⟨ho ▸ c.good, trivial⟩
  | .coll nm no l fs, .coll nm2 no2 l2 gs, r, hd => by
    simp only [DiffOf] at hd
    obtain ⟨rs, rfl, _, c⟩ := hd
    simp only [RectField]
    exact ⟨(rectFields_iff rs).mpr (fun x hx => DiffAny.rect hs ho fs gs x (c x hx)), trivial⟩
  | .leaf .., .coll .., _, hd => by simp [DiffOf] at hd
  | .coll .., .leaf .., _, hd => by simp [DiffOf] at hd
theorem DiffAny.rect {us si oi cnt h} (hs : si.count = cnt) (ho : oi.count = cnt) : ∀ (fs gs : List Field) (r : Field),
    DiffOf.DiffAny us si oi cnt h fs gs r → RectField h cnt r
  | [], _, _, hd => by simp [DiffOf.DiffAny] at hd
  | f :: fs, gs, r, hd => by
    simp only [DiffOf.DiffAny] at hd
    rcases hd with ⟨g, _, hd⟩ | hd
    · exact DiffOf.rect hs ho f g r hd
    · exact DiffAny.rect hs ho fs gs r hd
end

/-! ### `dict[name] = field` for a list of new fields -/

theorem mem_foldl_setField : ∀ (new acc : List Field) (x : Field), x ∈ new.foldl setField acc → x ∈ acc ∨ x ∈ new
  | [], acc, x, hx => Or.inl hx
  | f :: new, acc, x, hx => by
    simp only [List.foldl_cons] at hx
    rcases mem_foldl_setField new (setField acc f) x hx with h1 | h1
    · rcases mem_setField h1 with h2 | h2 | h2
      · exact Or.inr (by simp [h2])
      · exact Or.inl h2.1
      · exact Or.inl h2
    · exact Or.inr (List.mem_cons_of_mem _ h1)

theorem nodup_foldl_setField : ∀ (new acc : List Field), (names acc).Nodup → (names (new.foldl setField acc)).Nodup
  | [], _, hn => hn
  | f :: new, acc, hn => by
    simp only [List.foldl_cons]
    exact nodup_foldl_setField new (setField acc f) (nodup_setField hn)

theorem delField_sub' (fs : List Field) (n : String) : ∀ c ∈ delField fs n, c ∈ fs := by
  intro c hc; simp only [delField, List.mem_filter] at hc; exact hc.1

/-! ### one common leaf -/

/-- **a common leaf field**: every field `Collection._difference` adds for it is its difference (`DiffOf`) -/
theorem diffLeaf_spec (us : Units) (si oi : Index) (cnt : Nat) (cs co : Bool) (nm : String) (k : Kind) (o no : Nat)
    (u : Option (List String)) (l : Nat) (nm2 : String) (k2 : Kind) (o2 no2 : Nat) (u2 : Option (List String)) (l2 : Nat)
    (h : Heap) (new : List Field) (h' : Heap)
    (hh : diffLeaf us si oi cnt cs co nm k o u l k2 o2 u2 l2 h = .ok (new, h')) :
    HeapExt h h' ∧ ∀ r ∈ new, DiffOf us si oi cnt h' (.leaf nm k o no u l) (.leaf nm2 k2 o2 no2 u2 l2) r := by
  simp only [diffLeaf] at hh
  split at hh
  · simp at hh
  · rename_i fs hfs
    split at hh
    · simp at hh
    · rename_i hkk
      have hk2 : k2 = k := by
        have h0 : ¬ ((k != k2) = true) := hkk
        simp only [bne_iff_ne, ne_eq, Decidable.not_not] at h0
        exact h0.symm
      split at hh
      · simp at hh
      · rename_i a h1 ha
        split at hh
        · simp at hh
        · rename_i b h2 hb
          obtain ⟨e1, ia⟩ := getItemObj_spec si _ o h a h1 ha
          obtain ⟨e2, ib⟩ := getItemObj_spec oi _ o2 h1 b h2 hb
          have ia2 : Img si h2 o a := ia.ext e2
          split at hh
          · rename_i oa ob hoa hob
            split at hh
            · simp at hh
            · rename_i hkinds
              have hka : oa.kind = k ∧ ob.kind = k := by
                have h0 : ¬ ((oa.kind != k || ob.kind != k) = true) := hkinds
                simp only [Bool.or_eq_true, bne_iff_ne, ne_eq, not_or, Decidable.not_not] at h0
                exact h0
              split at hh
              · -- TypeError branch: copies
                rename_i hdk
                simp only [Except.ok.injEq, Prod.mk.injEq] at hh
                obtain ⟨rfl, rfl⟩ := hh
                refine ⟨e1.trans e2, ?_⟩
                intro r hr
                simp only [DiffOf]
                refine ⟨hk2, ?_⟩
                rcases List.mem_append.mp hr with hr | hr
                · split at hr
                  · simp only [List.mem_singleton] at hr
                    exact Or.inr (Or.inl ⟨hdk, a, hr, ia2⟩)
                  · simp at hr
                · split at hr
                  · simp only [List.mem_singleton] at hr
                    exact Or.inr (Or.inr ⟨hdk, b, hr, ib⟩)
                  · simp at hr
              · rename_i k' hdk
                split at hh
                · simp at hh
                · split at hh
                  · simp at hh
                  · simp only [Except.ok.injEq, Prod.mk.injEq] at hh
                    obtain ⟨rfl, rfl⟩ := hh
                    have key : ∀ X : Obj, X.rows = List.zipWith subRow oa.rows (ob.rows.map (scaleRow fs)) →
                        X.other = none → X.kind = k' → X.ndim = oa.ndim → X.cols = oa.cols →
                        X.refPos = (if k.hasOther then some a else if k.isDelta then oa.refPos else none) →
                        DiffObj us si oi (h2 ++ [X]) k u u2 o o2 h2.length := by
                      intro X x1 x2 x3 x4 x5 x6
                      have e3 := HeapExt.snoc h2 X
                      obtain ⟨xa, xa', a1, a2, a3, a4, a5, a6, _, a8⟩ := ia2.dest
                      obtain ⟨xb, xb', b1, b2, b3, _, _, _, _, _⟩ := ib.dest
                      rw [hoa] at a2; cases a2
                      rw [hob] at b2; cases b2
                      refine ⟨xa, xb, X, oa.rows, ob.rows, fs, e3.get a1, e3.get b1, getElem?_append_self h2 X, a3, b3,
                        hfs, x1, x2, ⟨by rw [x3]; exact hdk, x4.trans a5, x5.trans a6⟩, ?_, ?_, ?_⟩
                      · intro hk
                        exact ⟨a, by rw [x6]; simp [hk], ia2.ext e3⟩
                      · intro hk
                        have hno : k.hasOther = false := by cases k <;> simp_all [Kind.isDelta, Kind.hasOther]
                        rw [x6]
                        simp only [hno, Bool.false_eq_true, if_false, hk, if_true]
                        have := a8 (by rw [← a4, hka.1]; exact hk)
                        exact this.mono (fun _ _ => Img.ext e3)
                      · intro hk1 hk2'
                        rw [x6]; simp [hk1, hk2']
                    refine ⟨(e1.trans e2).trans (HeapExt.snoc h2 _), ?_⟩
                    intro r hr
                    simp only [List.mem_singleton] at hr
                    subst hr
                    simp only [DiffOf]
                    exact ⟨hk2, Or.inl ⟨k', h2.length, hdk, rfl, key _ rfl rfl rfl rfl rfl rfl⟩⟩
          · simp at hh

/-! ### `Collection._difference` -/

mutual
/-- **one common field** (leaf or collection): what is added for it is its difference, built with `si`, `oi` -/
theorem diffField_spec (us : Units) (si oi : Index) (cnt : Nat) (cs co : Bool) : ∀ (f g : Field) (h : Heap)
    (new : List Field) (h' : Heap), diffField us si oi cnt cs co f g h = .ok (new, h') →
    HeapExt h h' ∧ ∀ r ∈ new, DiffOf us si oi cnt h' f g r
  | .leaf nm k o no u l, .leaf nm2 k2 o2 no2 u2 l2, h, new, h', hh => by
    simp only [diffField] at hh
    exact diffLeaf_spec us si oi cnt cs co nm k o no u l nm2 k2 o2 no2 u2 l2 h new h' hh
  | .coll nm no l fs, .coll nm2 no2 l2 gs, h, new, h', hh => by
    simp only [diffField] at hh
    split at hh
    · simp at hh
    · rename_i rs h1 hloop
      simp only [Except.ok.injEq, Prod.mk.injEq] at hh
      obtain ⟨rfl, rfl⟩ := hh
      obtain ⟨e, hn, hall⟩ := diffLoop_spec us si oi cnt cs co fs gs [] h rs h1 hloop (by simp [names])
      refine ⟨e, ?_⟩
      intro r hr
      simp only [List.mem_singleton] at hr
      subst hr
      simp only [DiffOf]
      refine ⟨rs, rfl, hn, fun x hx => ?_⟩
      rcases hall x hx with h0 | h0
      · simp at h0
      · exact h0
  | .leaf .., .coll .., _, _, _, hh => by simp [diffField] at hh
  | .coll .., .leaf .., _, _, _, hh => by simp [diffField] at hh
/-- **the loop over the fields of self**: every field of the resulting dict was there before or is the
difference of a common pair; names stay unique -/
theorem diffLoop_spec (us : Units) (si oi : Index) (cnt : Nat) (cs co : Bool) : ∀ (fs gs acc : List Field) (h : Heap)
    (acc' : List Field) (h' : Heap), diffField.diffLoop us si oi cnt cs co fs gs acc h = .ok (acc', h') →
    (names acc).Nodup →
    HeapExt h h' ∧ (names acc').Nodup ∧ ∀ r ∈ acc', r ∈ acc ∨ DiffOf.DiffAny us si oi cnt h' fs gs r
  | [], gs, acc, h, acc', h', hh, hn => by
    simp only [diffField.diffLoop, Except.ok.injEq, Prod.mk.injEq] at hh
    obtain ⟨rfl, rfl⟩ := hh
    exact ⟨HeapExt.refl _, hn, fun r hr => Or.inl hr⟩
  | f :: fs, gs, acc, h, acc', h', hh, hn => by
    simp only [diffField.diffLoop] at hh
    split at hh
    · -- the field is missing in other: dropped
      obtain ⟨e, n', hall⟩ := diffLoop_spec us si oi cnt cs co fs gs acc h acc' h' hh hn
      refine ⟨e, n', fun r hr => ?_⟩
      rcases hall r hr with h0 | h0
      · exact Or.inl h0
      · exact Or.inr (by simp only [DiffOf.DiffAny]; exact Or.inr h0)
    · rename_i g hget
      split at hh
      · simp at hh
      · rename_i new h1 hstep
        obtain ⟨e1, hnew⟩ := diffField_spec us si oi cnt cs co f g h new h1 hstep
        obtain ⟨e2, n', hall⟩ := diffLoop_spec us si oi cnt cs co fs gs (new.foldl setField acc) h1 acc' h' hh
          (nodup_foldl_setField new acc hn)
        refine ⟨e1.trans e2, n', fun r hr => ?_⟩
        rcases hall r hr with h0 | h0
        · rcases mem_foldl_setField new acc r h0 with h3 | h3
          · exact Or.inl h3
          · refine Or.inr ?_
            simp only [DiffOf.DiffAny]
            exact Or.inl ⟨g, hget, DiffOf.ext e2 f g r (hnew r h3)⟩
        · exact Or.inr (by simp only [DiffOf.DiffAny]; exact Or.inr h0)
end

/-! ### the index fields -/

/-- an index field of the result: the field of that name in self with the rows `si` selects (`Img si`) -/
def IndexCopy (si : Index) (cnt : Nat) (h : Heap) (selfFields : List Field) (r : Field) : Prop :=
  ∃ nm k o no u l a, getField selfFields nm = some (.leaf nm k o no u l) ∧ r = .leaf nm k a cnt u l ∧ Img si h o a

theorem IndexCopy.ext {si cnt h h' fs r} (e : HeapExt h h') (c : IndexCopy si cnt h fs r) : IndexCopy si cnt h' fs r := by
  obtain ⟨nm, k, o, no, u, l, a, h1, h2, h3⟩ := c
  exact ⟨nm, k, o, no, u, l, a, h1, h2, h3.ext e⟩

theorem names_delField_append_nodup {fs : List Field} {n : String} {f : Field} (hn : (names fs).Nodup) (hf : f.name = n) :
    (names (delField fs n ++ [f])).Nodup := by
  simp only [names, List.map_append, List.map_cons, List.map_nil]
  refine List.nodup_append.mpr ⟨?_, by simp, ?_⟩
  · exact (List.Sublist.map Field.name List.filter_sublist).nodup hn
  · intro a ha b hb
    simp only [List.mem_singleton] at hb
    subst hb
    simp only [delField, List.mem_map, List.mem_filter] at ha
    obtain ⟨c, ⟨_, hc⟩, rfl⟩ := ha
    intro he
    rw [hf] at he
    simp [he] at hc

/-- **the tail of `Dataset.difference`**: the index fields are replaced by copies of self's -/
theorem indexFields_spec (si : Index) (cnt : Nat) (selfFields : List Field) : ∀ (nms : List String) (acc : List Field)
    (h : Heap) (acc' : List Field) (h' : Heap), indexFields si cnt selfFields nms acc h = .ok (acc', h') →
    (names acc).Nodup →
    HeapExt h h' ∧ (names acc').Nodup ∧ ∀ r ∈ acc', r ∈ acc ∨ (IndexCopy si cnt h' selfFields r ∧ r.name ∈ nms)
  | [], acc, h, acc', h', hh, hn => by
    simp only [indexFields, Except.ok.injEq, Prod.mk.injEq] at hh
    obtain ⟨rfl, rfl⟩ := hh
    exact ⟨HeapExt.refl _, hn, fun r hr => Or.inl hr⟩
  | nm :: rest, acc, h, acc', h', hh, hn => by
    simp only [indexFields] at hh
    split at hh
    · rename_i nm' k o no u l hget
      split at hh
      · simp at hh
      · rename_i a h1 ha
        obtain ⟨e1, ia⟩ := getItemObj_spec si _ o h a h1 ha
        have hnm : nm' = nm := (getField_some hget).2
        subst hnm
        obtain ⟨e2, n', hall⟩ := indexFields_spec si cnt selfFields rest _ h1 acc' h' hh
          (names_delField_append_nodup (f := .leaf nm' k a cnt u l) hn rfl)
        refine ⟨e1.trans e2, n', fun r hr => ?_⟩
        rcases hall r hr with h0 | h0
        · rcases List.mem_append.mp h0 with h3 | h3
          · exact Or.inl (delField_sub' _ _ r h3)
          · simp only [List.mem_singleton] at h3
            exact Or.inr ⟨⟨nm', k, o, no, u, l, a, hget, h3, ia.ext e2⟩, by subst h3; simp [Field.name]⟩
        · exact Or.inr ⟨h0.1, List.mem_cons_of_mem _ h0.2⟩
    · simp at hh

/-! ### the order of the keys and `np.intersect1d` -/

theorem Scalar.le_antisymm {a b : Scalar} (h1 : a.le b = true) (h2 : b.le a = true) : a = b := by
  cases a <;> cases b <;> simp_all [Scalar.le, Scalar.rank]
  · exact Rat.le_antisymm h1 h2
  · exact String.le_antisymm h1 h2
  · rename_i x y; cases x <;> cases y <;> simp_all

theorem keyLe_total : ∀ (a b : Key), keyLe a b = true ∨ keyLe b a = true
  | [], _ => Or.inl (by simp [keyLe])
  | _ :: _, [] => Or.inr (by simp [keyLe])
  | x :: xs, y :: ys => by
    simp only [keyLe]
    by_cases hxy : x = y
    · subst hxy; simp only [beq_self_eq_true, if_true]; exact keyLe_total xs ys
    · have h1 : (x == y) = false := by simpa using hxy
      have h2 : (y == x) = false := by simpa using (Ne.symm hxy)
      simp only [h1, h2, Bool.false_eq_true, if_false]
      exact Scalar.le_total x y

theorem keyLe_antisymm : ∀ (a b : Key), keyLe a b = true → keyLe b a = true → a = b
  | [], [], _, _ => rfl
  | [], _ :: _, _, h2 => by simp [keyLe] at h2
  | _ :: _, [], h1, _ => by simp [keyLe] at h1
  | x :: xs, y :: ys, h1, h2 => by
    simp only [keyLe] at h1 h2
    by_cases hxy : x = y
    · subst hxy
      simp only [beq_self_eq_true, if_true] at h1 h2
      rw [keyLe_antisymm xs ys h1 h2]
    · have e1 : (x == y) = false := by simpa using hxy
      have e2 : (y == x) = false := by simpa using (Ne.symm hxy)
      simp only [e1, e2, Bool.false_eq_true, if_false] at h1 h2
      exact absurd (Scalar.le_antisymm h1 h2) hxy

theorem keyLe_trans : ∀ (a b c : Key), keyLe a b = true → keyLe b c = true → keyLe a c = true
  | [], _, _, _, _ => by simp [keyLe]
  | _ :: _, [], _, h1, _ => by simp [keyLe] at h1
  | _ :: _, _ :: _, [], _, h2 => by simp [keyLe] at h2
  | x :: xs, y :: ys, z :: zs, h1, h2 => by
    simp only [keyLe] at h1 h2 ⊢
    by_cases hxy : x = y
    · subst hxy
      simp only [beq_self_eq_true, if_true] at h1
      by_cases hxz : x = z
      · subst hxz
        simp only [beq_self_eq_true, if_true] at h2 ⊢
        exact keyLe_trans xs ys zs h1 h2
      · have e : (x == z) = false := by simpa using hxz
        simp only [e, Bool.false_eq_true, if_false] at h2 ⊢
        exact h2
    · have e1 : (x == y) = false := by simpa using hxy
      simp only [e1, Bool.false_eq_true, if_false] at h1
      by_cases hyz : y = z
      · subst hyz
        simp only [e1, Bool.false_eq_true, if_false]
        exact h1
      · have e2 : (y == z) = false := by simpa using hyz
        simp only [e2, Bool.false_eq_true, if_false] at h2
        by_cases hxz : x = z
        · subst hxz
          exact absurd (Scalar.le_antisymm h1 h2) hxy
        · have e3 : (x == z) = false := by simpa using hxz
          simp only [e3, Bool.false_eq_true, if_false]
          exact Scalar.le_trans h1 h2

/-- strictly before, in the order of the key tuples -/
def KeyLt (a b : Key) : Prop := keyLe a b = true ∧ a ≠ b

theorem KeyLt.trans {a b c : Key} (h1 : KeyLt a b) (h2 : KeyLt b c) : KeyLt a c := by
  refine ⟨keyLe_trans a b c h1.1 h2.1, ?_⟩
  intro hac
  subst hac
  exact h1.2 (keyLe_antisymm a b h1.1 h2.1)

theorem mem_insertKey (k : Key) : ∀ (l : List Key) (y : Key), y ∈ insertKey k l ↔ y = k ∨ y ∈ l
  | [], y => by simp [insertKey]
  | x :: xs, y => by
    simp only [insertKey]
    split
    · rename_i hkx
      have : k = x := by simpa using hkx
      subst this
      simp
    · split
      · simp
      · simp only [List.mem_cons, mem_insertKey k xs y]
        constructor
        · rintro (h | h | h)
          · exact Or.inr (Or.inl h)
          · exact Or.inl h
          · exact Or.inr (Or.inr h)
        · rintro (h | h | h)
          · exact Or.inr (Or.inl h)
          · exact Or.inl h
          · exact Or.inr (Or.inr h)

theorem insertKey_sorted (k : Key) : ∀ (l : List Key), l.Pairwise KeyLt → (insertKey k l).Pairwise KeyLt
  | [], _ => by simp [insertKey]
  | x :: xs, hp => by
    simp only [insertKey]
    have hp' := List.pairwise_cons.mp hp
    split
    · exact hp
    · rename_i hkx
      have hne : k ≠ x := by simpa using hkx
      split
      · rename_i hle
        have hkx' : KeyLt k x := ⟨hle, hne⟩
        exact List.pairwise_cons.mpr ⟨fun y hy => by
          rcases List.mem_cons.mp hy with rfl | hy
          · exact hkx'
          · exact hkx'.trans (hp'.1 y hy), hp⟩
      · rename_i hnle
        have hxk : KeyLt x k := by
          rcases keyLe_total k x with h | h
          · exact absurd h hnle
          · exact ⟨h, fun e => hne e.symm⟩
        refine List.pairwise_cons.mpr ⟨fun y hy => ?_, insertKey_sorted k xs hp'.2⟩
        rcases (mem_insertKey k xs y).mp hy with rfl | hy
        · exact hxk
        · exact hp'.1 y hy

theorem mem_sortDedup : ∀ (ks : List Key) (y : Key), y ∈ sortDedup ks ↔ y ∈ ks
  | [], y => by simp [sortDedup]
  | k :: ks, y => by
    have ih := mem_sortDedup ks y
    simp only [sortDedup, List.foldr_cons] at ih ⊢
    rw [mem_insertKey, ih]
    simp

theorem sortDedup_sorted : ∀ (ks : List Key), (sortDedup ks).Pairwise KeyLt
  | [] => by simp [sortDedup]
  | k :: ks => by
    have ih := sortDedup_sorted ks
    simp only [sortDedup, List.foldr_cons] at ih ⊢
    exact insertKey_sorted k _ ih

/-- the common keys of `A` and `B` in ascending order, without repetition -/
def commonKeys (A B : List Key) : List Key := (sortDedup A).filter (fun k => B.contains k)

theorem commonKeys_sorted (A B : List Key) : (commonKeys A B).Pairwise KeyLt :=
  (sortDedup_sorted A).filter _

theorem mem_commonKeys (A B : List Key) (k : Key) : k ∈ commonKeys A B ↔ k ∈ A ∧ k ∈ B := by
  simp [commonKeys, mem_sortDedup]

theorem intersectKeys_eq (A B : List Key) :
    intersectKeys A B = (commonKeys A B).map (fun k => (A.idxOf k, B.idxOf k)) := rfl

/-- `idxOf` is the *first* row carrying the key -/
theorem idxOf_first {α} [BEq α] [LawfulBEq α] : ∀ (l : List α) (a : α) (j : Nat), j < l.idxOf a → l[j]? ≠ some a
  | [], a, j, hj => by simp at hj
  | b :: l, a, j, hj => by
    rw [List.idxOf_cons] at hj
    by_cases hba : b = a
    · subst hba; simp at hj
    · have e : (b == a) = false := by simpa using hba
      simp only [e, cond_false] at hj
      cases j with
      | zero => simp [hba]
      | succ j =>
        simp only [List.getElem?_cons_succ]
        exact idxOf_first l a j (by omega)

theorem getElem?_idxOf {α} [BEq α] [LawfulBEq α] {l : List α} {a : α} (h : a ∈ l) : l[l.idxOf a]? = some a := by
  have hl := List.idxOf_lt_length_of_mem h
  rw [List.getElem?_eq_getElem hl, List.getElem_idxOf hl]

/-! ### the two row indices -/

theorem count_mask_true (n : Nat) : (Index.mask (List.replicate n true)).count = n := by
  simp [Index.count]

/-- both row indices of `Dataset.difference` select `cnt` rows -/
theorem diffIndex_counts {h : Heap} {d e : DS} {ib : Option (List String)} {si oi : Index} {cnt : Nat}
    (hh : diffIndex h d e ib = .ok (si, oi, cnt)) : si.count = cnt ∧ oi.count = cnt := by
  cases ib with
  | none =>
    simp only [diffIndex] at hh
    split at hh
    · simp at hh
    · rename_i hne
      have heq : d.numObs = e.numObs := by simpa using hne
      simp only [Except.ok.injEq, Prod.mk.injEq] at hh
      obtain ⟨rfl, rfl, rfl⟩ := hh
      exact ⟨count_mask_true _, by rw [count_mask_true, heq]⟩
  | some names =>
    simp only [diffIndex] at hh
    split at hh
    · simp at hh
    · split at hh
      · simp at hh
      · split at hh
        · simp only [Except.ok.injEq, Prod.mk.injEq] at hh
          obtain ⟨rfl, rfl, rfl⟩ := hh
          simp [Index.count]
        · simp at hh
        · simp at hh

/-! ### the dataset level -/

/-- **`Dataset.difference`**: the result has `cnt` = number of paired rows observations, its heap only grew,
names are unique, and every field is the difference of a common pair of fields (at any depth, all built with
the one pair of row indices `diffIndex` returned) or an index field copied from self. -/
theorem dsDifference_spec (us : Units) (h : Heap) (d e : DS) (ib : Option (List String)) (cs co : Bool) (h' : Heap) (r : DS)
    (hok : dsDifference us h d e ib cs co = .ok (h', r)) :
    ∃ si oi cnt, diffIndex h d e ib = .ok (si, oi, cnt) ∧ cnt ≠ 0 ∧ r.numObs = cnt ∧ HeapExt h h' ∧
      (names r.fields).Nodup ∧
      ∀ x ∈ r.fields, DiffOf.DiffAny us si oi cnt h' d.fields e.fields x ∨
        (IndexCopy si cnt h' d.fields x ∧ x.name ∈ ib.getD []) := by
  simp only [dsDifference] at hok
  split at hok
  · simp at hok
  · rename_i si oi cnt hidx
    split at hok
    · simp at hok
    · rename_i hcnt
      split at hok
      · simp at hok
      · rename_i fs h1 hloop
        split at hok
        · simp at hok
        · rename_i fs' h2 hix
          simp only [Except.ok.injEq, Prod.mk.injEq] at hok
          obtain ⟨rfl, rfl⟩ := hok
          obtain ⟨e1, n1, hall1⟩ := diffLoop_spec us si oi cnt cs co d.fields e.fields [] h fs h1 hloop (by simp [names])
          obtain ⟨e2, n2, hall2⟩ := indexFields_spec si cnt d.fields _ fs h1 fs' h2 hix n1
          refine ⟨si, oi, cnt, hidx, by simpa using hcnt, rfl, e1.trans e2, n2, fun x hx => ?_⟩
          rcases hall2 x hx with h0 | h0
          · rcases hall1 x h0 with h3 | h3
            · simp at h3
            · exact Or.inl (DiffAny.ext e2 _ _ x h3)
          · exact Or.inr h0

theorem IndexCopy.rect {si : Index} {cnt : Nat} {h : Heap} {fs : List Field} {r : Field} (hs : si.count = cnt)
    (c : IndexCopy si cnt h fs r) : RectField h cnt r ∧ WFF r := by
  obtain ⟨nm, k, o, no, u, l, a, _, rfl, h3⟩ := c
  exact ⟨by simp only [RectField]; exact ⟨hs ▸ h3.good, trivial⟩, by simp [WFF]⟩

/-! ### reading the rows off the indices -/

theorem normIdx_ofNat (n i : Nat) : normIdx n (Int.ofNat i) = if i < n then some i else none := by
  simp only [normIdx, Int.ofNat_eq_natCast]
  by_cases h : i < n
  · have h1 : (0 : Int) ≤ (i : Int) ∧ (i : Int) < (n : Int) := ⟨by omega, by omega⟩
    rw [if_pos h1, if_pos h]; simp
  · have h1 : ¬ ((0 : Int) ≤ (i : Int) ∧ (i : Int) < (n : Int)) := by omega
    have h2 : ¬ (-(n : Int) ≤ (i : Int) ∧ (i : Int) < 0) := by omega
    rw [if_neg h1, if_neg h2, if_neg h]

theorem pickInts_ofNat {α} (xs : List α) : ∀ (is : List Nat) (r : List α), pickInts xs (is.map Int.ofNat) = some r →
    r.length = is.length ∧ ∀ k (hk : k < is.length), r[k]? = xs[is[k]]? ∧ is[k] < xs.length
  | [], r, h => by
    simp only [List.map_nil, pickInts, Option.some.injEq] at h
    subst h
    exact ⟨rfl, fun k hk => by simp at hk⟩
  | i :: is, r, h => by
    simp only [List.map_cons, pickInts] at h
    split at h
    · simp at h
    · rename_i j hj
      split at h
      · rename_i x r' hx hr'
        simp only [Option.some.injEq] at h
        subst h
        rw [normIdx_ofNat] at hj
        have hil : i < xs.length := by
          by_cases hlt : i < xs.length
          · exact hlt
          · rw [if_neg hlt] at hj; cases hj
        have hji : j = i := by
          rw [if_pos hil] at hj
          exact (Option.some.inj hj).symm
        subst hji
        obtain ⟨l', g'⟩ := pickInts_ofNat xs is r' hr'
        refine ⟨by simp [l'], fun k hk => ?_⟩
        cases k with
        | zero => simp only [List.getElem?_cons_zero, List.getElem_cons_zero]; exact ⟨hx.symm, hil⟩
        | succ k =>
          simp only [List.getElem?_cons_succ, List.getElem_cons_succ]
          exact g' k (by simpa using hk)
      · simp at h

/-- an index array of row numbers: entry `k` of the selection is row `is[k]` -/
theorem pick_nats {α} (is : List Nat) (xs r : List α) (h : pick (.ints (is.map Int.ofNat)) xs = .ok r) :
    r.length = is.length ∧ ∀ k (hk : k < is.length), r[k]? = xs[is[k]]? ∧ is[k] < xs.length := by
  simp only [pick] at h
  split at h
  · rename_i r' hr
    simp only [Except.ok.injEq] at h; subst h
    exact pickInts_ofNat xs is r' hr
  · simp at h

theorem pickMask_all_true {α} : ∀ (xs : List α), pickMask (List.replicate xs.length true) xs = xs
  | [] => by simp [pickMask]
  | x :: xs => by simp [List.replicate_succ, pickMask, pickMask_all_true xs]

/-- the all-true mask of `Dataset.difference` without `index_by` selects every row, in place -/
theorem pick_mask_all {α} (n : Nat) (xs r : List α) (h : pick (.mask (List.replicate n true)) xs = .ok r) :
    r = xs ∧ xs.length = n := by
  simp only [pick] at h
  split at h
  · rename_i hl
    simp only [List.length_replicate] at hl
    simp only [Except.ok.injEq] at h
    subst hl
    exact ⟨by rw [← h, pickMask_all_true], rfl⟩
  · simp at h

/-- with `index_by`: the indices are the `intersect1d` indices of the key tuples of the two datasets -/
theorem diffIndex_keyed {h : Heap} {d e : DS} {nms : List String} {si oi : Index} {cnt : Nat}
    (hh : diffIndex h d e (some nms) = .ok (si, oi, cnt)) :
    ∃ ca cb A B, nms.mapM (indexColumn h d) = .ok ca ∧ nms.mapM (indexColumn h e) = .ok cb ∧
      keyRows ca = .ok A ∧ keyRows cb = .ok B ∧
      si = .ints ((commonKeys A B).map (fun k => Int.ofNat (A.idxOf k))) ∧
      oi = .ints ((commonKeys A B).map (fun k => Int.ofNat (B.idxOf k))) ∧ cnt = (commonKeys A B).length := by
  simp only [diffIndex] at hh
  split at hh
  · simp at hh
  · rename_i ca hca
    split at hh
    · simp at hh
    · rename_i cb hcb
      split at hh
      · rename_i A B hA hB
        simp only [Except.ok.injEq, Prod.mk.injEq] at hh
        obtain ⟨rfl, rfl, rfl⟩ := hh
        refine ⟨ca, cb, A, B, hca, hcb, hA, hB, ?_, ?_, ?_⟩
        · simp [intersectKeys_eq, List.map_map, Function.comp_def]
        · simp [intersectKeys_eq, List.map_map, Function.comp_def]
        · simp [intersectKeys_eq]
      · simp at hh
      · simp at hh

/-- without `index_by`: the numbers of observations agree and both indices are all-true masks -/
theorem diffIndex_positional {h : Heap} {d e : DS} {si oi : Index} {cnt : Nat}
    (hh : diffIndex h d e none = .ok (si, oi, cnt)) :
    d.numObs = e.numObs ∧ cnt = d.numObs ∧ si = .mask (List.replicate cnt true) ∧ oi = .mask (List.replicate cnt true) := by
  simp only [diffIndex] at hh
  split at hh
  · simp at hh
  · rename_i hne
    have heq : d.numObs = e.numObs := by simpa using hne
    simp only [Except.ok.injEq, Prod.mk.injEq] at hh
    obtain ⟨rfl, rfl, rfl⟩ := hh
    exact ⟨heq, rfl, rfl, by rw [heq]⟩

end Midgard.Dataset
