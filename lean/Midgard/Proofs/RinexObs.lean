/-
Slice algebra for the 16-character observation fields of RINEX observation records, the sampling
grid, and small arithmetic helpers (core Lean only).
-/
import Midgard.Model.Rinex3Obs
import Midgard.Model.Rinex2Obs
import Midgard.Spec.Rinex
import Midgard.Proofs.ChainParser

namespace Midgard.Text

theorem slice_slice (a b c d : Nat) (s : Str) :
    slice a b (slice c d s) = slice (c + a) (min (c + b) d) s := by
  unfold slice
  rw [List.take_drop, List.take_take, List.drop_drop]

theorem slice_drop (a b n : Nat) (s : Str) : slice a b (s.drop n) = slice (a + n) (b + n) s := by
  unfold slice
  rw [List.take_drop, List.drop_drop, Nat.add_comm n a, Nat.add_comm n b]

theorem strip_slice_ljust (a b w : Nat) (s : Str) : strip (slice a b (ljust w s)) = strip (slice a b s) := by
  unfold ljust
  exact strip_slice_append_isBlank a b s _ (isBlank_blanks _)

end Midgard.Text

namespace Midgard.RinexObs
open Midgard.Text Midgard.FixedCol Midgard.ChainParser Midgard.Decimal

theorem roundHalfEven_int (n : Int) : roundHalfEven (n : Rat) = n := by
  have h0 : ((n : Rat) - (n : Rat)) = 0 := by grind
  have h1 : (0 : Rat) < 1 / 2 := by decide +kernel
  simp [roundHalfEven, Rat.floor_intCast, h0, h1]

theorem int_small_zero (z : Int) (h1 : ((z : Int) : Rat) < 1/2) (h2 : -(1/2 : Rat) < ((z:Int):Rat)) : z = 0 := by
  have a1 : ((z : Int) : Rat) < ((1 : Int) : Rat) := by
    have : (1/2 : Rat) < ((1:Int):Rat) := by decide +kernel
    grind
  have a2 : (((-1 : Int)) : Rat) < ((z : Int) : Rat) := by
    have : (((-1 : Int)) : Rat) < -(1/2 : Rat) := by decide +kernel
    grind
  rw [Rat.intCast_lt_intCast] at a1 a2
  omega

theorem gridDist_units (a b k : Int) :
    ((a : Rat) / 10000000) - ((k : Int) : Rat) * ((b : Rat) / 10000000) = (((a - k * b : Int)) : Rat) / 10000000 := by
  rw [Rat.intCast_sub, Rat.intCast_mul]; grind

/-- epochs and rates that are whole multiples of 10⁻⁷ s (what RINEX prints): the sampling test keeps
the epoch exactly when it lies on the grid -/
theorem offGrid_units (a b : Int) (hb : 0 < b) :
    offGrid ((a : Rat) / 10000000) ((b : Rat) / 10000000) = false ↔ b ∣ a := by
  have hbq : (b : Rat) ≠ 0 := by
    intro h
    have : ((b : Int) : Rat) = ((0 : Int) : Rat) := by simpa using h
    rw [Rat.intCast_inj] at this; omega
  have hq : ((a : Rat) / 10000000) / ((b : Rat) / 10000000) = (a : Rat) / (b : Rat) := by grind
  unfold offGrid gridDist
  simp only [decide_eq_false_iff_not, ge_iff_le, Rat.not_le]
  rw [hq]
  generalize hk : roundHalfEven ((a : Rat) / (b : Rat)) = k
  rw [gridDist_units]
  constructor
  · intro h
    have hz : a - k * b = 0 := by
      apply int_small_zero
      · split at h <;> grind
      · split at h <;> grind
    exact ⟨k, by rw [Int.mul_comm]; omega⟩
  · rintro ⟨m, rfl⟩
    have : ((b * m : Int) : Rat) / (b : Rat) = (m : Rat) := by
      rw [Rat.intCast_mul]; grind
    rw [this, roundHalfEven_int] at hk
    subst hk
    have e1 : ((b * m : Int) : Rat) = (b : Rat) * (m : Rat) := Rat.intCast_mul _ _
    have e2 : (((b * m - m * b : Int)) : Rat) = 0 := by
      have : b * m - m * b = 0 := by rw [Int.mul_comm]; omega
      rw [this]; rfl
    rw [e2]
    have h5 : (0 : Rat) < 5 / 100000000 := by decide +kernel
    split <;> grind

/-- `_float` looks at the text only up to surrounding blanks -/
theorem isBlank_strip (s : Str) : isBlank (strip s) = isBlank s := by
  obtain ⟨ws1, h1, hb1⟩ := lstrip_decomp s
  obtain ⟨ws2, h2, hb2⟩ := rstrip_decomp (lstrip s)
  have hs : s = ws1 ++ (strip s ++ ws2) := by
    unfold strip
    rw [← h2]; exact h1
  have : isBlank s = isBlank (ws1 ++ (strip s ++ ws2)) := congrArg isBlank hs
  rw [this, isBlank_append, isBlank_append, hb1, hb2]
  simp

theorem parseFloat_strip (s : Str) : parseFloat (strip s) = parseFloat s := by
  unfold parseFloat parseDecimalWith
  rw [strip_idem]

theorem floatOpt_strip (s : Str) : floatOpt (strip s) = floatOpt s := by
  unfold floatOpt
  rw [isBlank_strip, parseFloat_strip]

end Midgard.RinexObs
