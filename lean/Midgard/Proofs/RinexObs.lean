/-
Slice algebra for the 16-character observation fields of RINEX observation records, the sampling
grid, and small arithmetic helpers (core Lean only).
-/
import Midgard.Model.Rinex3Obs
import Midgard.Model.Rinex2Obs
import Midgard.Spec.Rinex
import Midgard.Proofs.ChainParser

namespace Midgard.Text

theorem slice_slice (a b c d : Nat) (s : Str) :
    slice a b (slice c d s) = slice (c + a) (min (c + b) d) s := by
  unfold slice
  rw [List.take_drop, List.take_take, List.drop_drop]

theorem slice_drop (a b n : Nat) (s : Str) : slice a b (s.drop n) = slice (a + n) (b + n) s := by
  unfold slice
  rw [List.take_drop, List.drop_drop, Nat.add_comm n a, Nat.add_comm n b]

theorem strip_slice_ljust (a b w : Nat) (s : Str) : strip (slice a b (ljust w s)) = strip (slice a b s) := by
  unfold ljust
  exact strip_slice_append_isBlank a b s _ (isBlank_blanks _)

end Midgard.Text

namespace Midgard.RinexObs
open Midgard.Text Midgard.FixedCol Midgard.ChainParser Midgard.Decimal

theorem roundHalfEven_int (n : Int) : roundHalfEven (n : Rat) = n := by
  have h0 : ((n : Rat) - (n : Rat)) = 0 := by grind
  have h1 : (0 : Rat) < 1 / 2 := by decide +kernel
  simp [roundHalfEven, Rat.floor_intCast, h0, h1]

theorem int_small_zero (z : Int) (h1 : ((z : Int) : Rat) < 1/2) (h2 : -(1/2 : Rat) < ((z:Int):Rat)) : z = 0 := by
  have a1 : ((z : Int) : Rat) < ((1 : Int) : Rat) := by
    have : (1/2 : Rat) < ((1:Int):Rat) := by decide +kernel
    grind
  have a2 : (((-1 : Int)) : Rat) < ((z : Int) : Rat) := by
    have : (((-1 : Int)) : Rat) < -(1/2 : Rat) := by decide +kernel
    grind
  rw [Rat.intCast_lt_intCast] at a1 a2
  omega

theorem gridDist_units (a b k : Int) :
    ((a : Rat) / 10000000) - ((k : Int) : Rat) * ((b : Rat) / 10000000) = (((a - k * b : Int)) : Rat) / 10000000 := by
  rw [Rat.intCast_sub, Rat.intCast_mul]; grind

/-- epochs and rates that are whole multiples of 10⁻⁷ s (what RINEX prints): the sampling test keeps
the epoch exactly when it lies on the grid -/
theorem offGrid_units (a b : Int) (hb : 0 < b) :
    offGrid ((a : Rat) / 10000000) ((b : Rat) / 10000000) = false ↔ b ∣ a := by
  have hbq : (b : Rat) ≠ 0 := by
    intro h
    have : ((b : Int) : Rat) = ((0 : Int) : Rat) := by simpa using h
    rw [Rat.intCast_inj] at this; omega
  have hq : ((a : Rat) / 10000000) / ((b : Rat) / 10000000) = (a : Rat) / (b : Rat) := by grind
  unfold offGrid gridDist
  simp only [decide_eq_false_iff_not, ge_iff_le, Rat.not_le]
  rw [hq]
  generalize hk : roundHalfEven ((a : Rat) / (b : Rat)) = k
  rw [gridDist_units]
  constructor
  · intro h
    have hz : a - k * b = 0 := by
      apply int_small_zero
      · split at h <;> grind
      · split at h <;> grind
    exact ⟨k, by rw [Int.mul_comm]; omega⟩
  · rintro ⟨m, rfl⟩
    have : ((b * m : Int) : Rat) / (b : Rat) = (m : Rat) := by
      rw [Rat.intCast_mul]; grind
    rw [this, roundHalfEven_int] at hk
    subst hk
    have e1 : ((b * m : Int) : Rat) = (b : Rat) * (m : Rat) := Rat.intCast_mul _ _
    have e2 : (((b * m - m * b : Int)) : Rat) = 0 := by
      have : b * m - m * b = 0 := by rw [Int.mul_comm]; omega
      rw [this]; rfl
    rw [e2]
    have h5 : (0 : Rat) < 5 / 100000000 := by decide +kernel
    split <;> grind

/-- `_float` looks at the text only up to surrounding blanks -/
theorem isBlank_strip (s : Str) : isBlank (strip s) = isBlank s := by
  obtain ⟨ws1, h1, hb1⟩ := lstrip_decomp s
  obtain ⟨ws2, h2, hb2⟩ := rstrip_decomp (lstrip s)
  have hs : s = ws1 ++ (strip s ++ ws2) := by
    unfold strip
    rw [← h2]; exact h1
  have : isBlank s = isBlank (ws1 ++ (strip s ++ ws2)) := congrArg isBlank hs
  rw [this, isBlank_append, isBlank_append, hb1, hb2]
  simp

theorem parseFloat_strip (s : Str) : parseFloat (strip s) = parseFloat s := by
  unfold parseFloat parseDecimalWith
  rw [strip_idem]

theorem floatOpt_strip (s : Str) : floatOpt (strip s) = floatOpt s := by
  unfold floatOpt
  rw [isBlank_strip, parseFloat_strip]


/-! ### Column lengths under `appendAll` -/

def bump (t : Str) (v : Option Rat) (kc : Str × Col) : Str × Col := if kc.1 == t then (kc.1, kc.2 ++ [v]) else kc

theorem colAppend_eq {d : List (Str × Col)} {t : Str} {v : Option Rat} {d' : List (Str × Col)}
    (h : colAppend d t v = some d') : d' = d.map (bump t v) := by
  unfold colAppend at h
  split at h
  · have := Option.some.inj h
    rw [← this]
    apply List.map_congr_left
    intro kc _
    obtain ⟨k, c⟩ := kc
    simp [bump]
  · simp at h

/-- length of the column(s) named `k` after the appends: +1 for each occurrence of `k` in `names` -/
def grown (names : List Str) (kn : Str × Nat) : Str × Nat := (kn.1, kn.2 + names.count kn.1)

def lensOf (d : List (Str × Col)) : List (Str × Nat) := d.map fun kc => (kc.1, kc.2.length)

theorem lensOf_bump (d : List (Str × Col)) (t : Str) (v : Option Rat) :
    lensOf (d.map (bump t v)) = (lensOf d).map (grown [t]) := by
  unfold lensOf
  rw [List.map_map, List.map_map]
  apply List.map_congr_left
  intro kc _
  obtain ⟨k, c⟩ := kc
  by_cases hk : k = t
  · subst hk; simp [bump, grown]
  · have : (t == k) = false := by simp [Ne.symm hk]
    simp [bump, grown, hk, List.count_cons, this]

theorem grown_grown (a b : List Str) (kn : Str × Nat) : grown b (grown a kn) = grown (a ++ b) kn := by
  simp [grown, List.count_append]; omega

theorem appendObs_lens {d d' : Data} {t : Str} {a b c : Option Rat} (h : d.appendObs t a b c = .ok d') :
    lensOf d'.obs = (lensOf d.obs).map (grown [t]) ∧ lensOf d'.lli = (lensOf d.lli).map (grown [t]) ∧
    lensOf d'.snr = (lensOf d.snr).map (grown [t]) ∧
    d'.time = d.time := by
  unfold Data.appendObs at h
  cases ho : colAppend d.obs t a with
  | none => simp [ho, req, bind, Except.bind, pure, Except.pure, throw, throwThe, MonadExcept.throw, MonadExceptOf.throw] at h
  | some o =>
    cases hl : colAppend d.lli t b with
    | none => simp [ho, hl, req, bind, Except.bind, pure, Except.pure, throw, throwThe, MonadExcept.throw, MonadExceptOf.throw] at h
    | some l =>
      cases hs : colAppend d.snr t c with
      | none => simp [ho, hl, hs, req, bind, Except.bind, pure, Except.pure, throw, throwThe, MonadExcept.throw, MonadExceptOf.throw] at h
      | some s =>
        simp [ho, hl, hs, req, bind, Except.bind, pure, Except.pure] at h
        subst h
        simp only
        rw [colAppend_eq ho, colAppend_eq hl, colAppend_eq hs]
        exact ⟨lensOf_bump _ _ _, lensOf_bump _ _ _, lensOf_bump _ _ _, trivial⟩

theorem appendAll_lens (ts : List (Str × Option Rat × Option Rat × Option Rat)) :
    ∀ (d d' : Data), appendAll d ts = .ok d' →
      lensOf d'.obs = (lensOf d.obs).map (grown (ts.map (·.1))) ∧
      lensOf d'.lli = (lensOf d.lli).map (grown (ts.map (·.1))) ∧
      lensOf d'.snr = (lensOf d.snr).map (grown (ts.map (·.1))) ∧ d'.time = d.time := by
  induction ts with
  | nil =>
    intro d d' h
    simp [appendAll, pure, Except.pure] at h
    subst h
    simp [grown, lensOf]
  | cons x rest ih =>
    intro d d' h
    simp only [appendAll, List.foldlM_cons, bind, Except.bind] at h
    cases h1 : d.appendObs x.1 x.2.1 x.2.2.1 x.2.2.2 with
    | error e => simp [h1] at h
    | ok d1 =>
      simp only [h1] at h
      have hr := ih d1 d' h
      have h0 := appendObs_lens h1
      obtain ⟨r1, r2, r3, r4⟩ := hr
      obtain ⟨o1, o2, o3, o4⟩ := h0
      refine ⟨?_, ?_, ?_, by rw [r4, o4]⟩
      · rw [r1, o1, List.map_map]; apply List.map_congr_left; intro kn _; simp [grown_grown]
      · rw [r2, o2, List.map_map]; apply List.map_congr_left; intro kn _; simp [grown_grown]
      · rw [r3, o3, List.map_map]; apply List.map_congr_left; intro kn _; simp [grown_grown]



def rowCols (d : Data) : List Str × List Int × Col × List Str × List Str × List Str × List Str :=
  (d.time, d.epochFlag, d.clk, d.station, d.system, d.satellite, d.satnum)

theorem appendObs_rows {d d' : Data} {t : Str} {a b c : Option Rat} (h : d.appendObs t a b c = .ok d') :
    rowCols d' = rowCols d := by
  unfold Data.appendObs at h
  cases ho : colAppend d.obs t a with
  | none => simp [ho, req, bind, Except.bind, pure, Except.pure, throw, throwThe, MonadExcept.throw, MonadExceptOf.throw] at h
  | some o =>
    cases hl : colAppend d.lli t b with
    | none => simp [ho, hl, req, bind, Except.bind, pure, Except.pure, throw, throwThe, MonadExcept.throw, MonadExceptOf.throw] at h
    | some l =>
      cases hs : colAppend d.snr t c with
      | none => simp [ho, hl, hs, req, bind, Except.bind, pure, Except.pure, throw, throwThe, MonadExcept.throw, MonadExceptOf.throw] at h
      | some s =>
        simp [ho, hl, hs, req, bind, Except.bind, pure, Except.pure] at h
        subst h
        rfl

theorem appendAll_rows (ts : List (Str × Option Rat × Option Rat × Option Rat)) :
    ∀ (d d' : Data), appendAll d ts = .ok d' → rowCols d' = rowCols d := by
  induction ts with
  | nil =>
    intro d d' h
    simp [appendAll, pure, Except.pure] at h
    subst h; rfl
  | cons x rest ih =>
    intro d d' h
    simp only [appendAll, List.foldlM_cons, bind, Except.bind] at h
    cases h1 : d.appendObs x.1 x.2.1 x.2.2.1 x.2.2.2 with
    | error e => simp [h1] at h
    | ok d1 =>
      simp only [h1] at h
      rw [ih d1 d' h, appendObs_rows h1]

theorem nodup_count {l : List Str} (h : l.Nodup) (a : Str) : l.count a = if a ∈ l then 1 else 0 := by
  induction l with
  | nil => simp
  | cons x rest ih =>
    rw [List.nodup_cons] at h
    have := ih h.2
    by_cases hx : x = a
    · subst hx
      simp [List.count_cons, this, h.1]
    · have hne : (x == a) = false := by simp [hx]
      have hne' : ¬ a = x := fun h' => hx h'.symm
      simp [List.count_cons, this, hne, hne']

theorem count_filter_not_mem (all types : List Str) (a : Str) :
    (all.filter fun t => !types.contains t).count a = if a ∈ types then 0 else all.count a := by
  induction all with
  | nil => simp
  | cons x rest ih =>
    by_cases hx : x ∈ types
    · have : (!types.contains x) = false := by simp [hx]
      rw [List.filter_cons, this]
      simp only [Bool.false_eq_true, if_false]
      rw [ih]
      by_cases ha : a ∈ types
      · simp [ha]
      · have : ¬ x = a := fun h => ha (h ▸ hx)
        have hb : (x == a) = false := by simp [this]
        simp [ha, List.count_cons, hb]
    · have : (!types.contains x) = true := by simp [hx]
      rw [List.filter_cons, this]
      simp only [if_true]
      rw [List.count_cons, List.count_cons, ih]
      by_cases ha : a ∈ types
      · have : ¬ x = a := fun h => hx (h ▸ ha)
        have hb : (x == a) = false := by simp [this]
        simp [ha, hb]
      · simp [ha]

/-- every type of the file is appended to exactly once per record: the types of the system, then the
types the system does not have -/
theorem count_types_unused {all types : List Str} (hall : all.Nodup) (htypes : types.Nodup)
    (hsub : ∀ t ∈ types, t ∈ all) (a : Str) (ha : a ∈ all) :
    (types ++ all.filter fun t => !types.contains t).count a = 1 := by
  rw [List.count_append, nodup_count htypes, count_filter_not_mem, nodup_count hall]
  by_cases h : a ∈ types <;> simp [h, ha]

theorem grown_all {l : List (Str × Nat)} {names : List Str} {n : Nat}
    (hn : ∀ kn ∈ l, kn.2 = n) (hc : ∀ kn ∈ l, names.count kn.1 = 1) :
    ∀ kn ∈ l.map (grown names), kn.2 = n + 1 := by
  intro kn hkn
  rw [List.mem_map] at hkn
  obtain ⟨k0, hk0, rfl⟩ := hkn
  simp [grown, hn k0 hk0, hc k0 hk0]

end Midgard.RinexObs
