import Mathlib.Tactic.Ring
import Mathlib.Tactic.LinearCombination
import Mathlib.Tactic.NormNum
import Mathlib.Data.Real.Basic
/-
C05 — the third-order (Halley) structure of the one-step scheme: polynomial cofactors computed with sympy and checked
by `ring` / `linear_combination` (own file of C05).
-/
namespace Midgard.Geo.Acc

/-- cofactor polynomials of the Halley step (computed with sympy, checked below by `ring`) -/
noncomputable def K0 (A P q : ℝ) : ℝ := 2*A^5 - 3*A^3*P^2*q^6 + 8*A^3*P^2*q^4 - 5*A^3*P^2*q^2 + 3*A^2*P^2*q^7 - 4*A^2*P^2*q^5 + A^2*P^2*q^3 + 3*A*P^4*q^8 - 6*A*P^4*q^6 + 3*A*P^4*q^4 - P^4*q^9 + 2*P^4*q^7 - P^4*q^5
noncomputable def K1 (A P q : ℝ) : ℝ := 2*A^6*q - 2*A^5*q^2 + 2*A^5 - A^3*P^2*q^6 + 6*A^3*P^2*q^4 - 5*A^3*P^2*q^2 + A^2*P^2*q^7 - 2*A^2*P^2*q^5 + A^2*P^2*q^3 + 3*A*P^4*q^8 - 6*A*P^4*q^6 + 3*A*P^4*q^4 - P^4*q^9 + 2*P^4*q^7 - P^4*q^5
noncomputable def K2 (A P q : ℝ) : ℝ := 2*A^6 - 3*A^3*P^2*q^7 + 10*A^3*P^2*q^5 - 7*A^3*P^2*q^3 + 3*A^2*P^2*q^8 - 6*A^2*P^2*q^6 + 3*A^2*P^2*q^4 + 3*A*P^4*q^9 - 6*A*P^4*q^7 + 3*A*P^4*q^5 - P^4*q^10 + 2*P^4*q^8 - P^4*q^6
noncomputable def H0 (A P q : ℝ) : ℝ := 48*A^17*q^4 + 16*A^17*q^2 - 48*A^16*q^5 + 48*A^16*q^3 - 1400*A^12*P^4*q^9 - 2556*A^10*P^6*q^13 - 1764*A^8*P^8*q^13 - 1503*A^8*P^6*q^13 - 2478*A^6*P^8*q^17 - 1266*A^4*P^10*q^21 + P^12*q^29 - 5*P^12*q^27 + 10*P^12*q^25 - 10*P^12*q^23 + 5*P^12*q^21 - P^12*q^19
noncomputable def H1 (A P q : ℝ) : ℝ := -324*A^12*P^4*q^13 - 864*A^10*P^6*q^9 - 756*A^10*P^4*q^13 - 510*A^9*P^6*q^16 - 1260*A^8*P^8*q^17 - 842*A^8*P^6*q^17 - 549*A^7*P^8*q^14 - 810*A^7*P^6*q^16 - 648*A^6*P^10*q^17 - 553*A^6*P^8*q^21 - 425*A^6*P^8*q^13 - 882*A^5*P^10*q^18 - 966*A^5*P^8*q^20 - 651*A^5*P^8*q^16 - 801*A^4*P^10*q^17 - 566*A^3*P^10*q^20
noncomputable def H2 (A P q : ℝ) : ℝ := -288*A^14*P^2*q^5 - 136*A^11*P^4*q^10 - 180*A^10*P^6*q^17 - 216*A^10*P^4*q^9 - 155*A^9*P^6*q^10 - 144*A^9*P^4*q^16 - 144*A^9*P^4*q^12 - 162*A^7*P^8*q^18 - 165*A^7*P^6*q^20 - 297*A^5*P^10*q^22 - 150*A^4*P^8*q^19 - 270*A^3*P^12*q^22 - 135*A^3*P^12*q^18 - 251*A^3*P^10*q^24 - 135*A^2*P^12*q^25 - 270*A^2*P^12*q^21
noncomputable def H3 (A P q : ℝ) : ℝ := -64*A^15*P^2*q^6 - 64*A^15*P^2*q^4 - 108*A^14*P^2*q^9 - 120*A^13*P^4*q^10 - 84*A^13*P^2*q^10 - 108*A^12*P^2*q^9 - 129*A^7*P^6*q^12 - 108*A^6*P^10*q^21 - 108*A^6*P^10*q^13 - 90*A^6*P^6*q^19 - 117*A^5*P^10*q^14 - 93*A^4*P^10*q^25 - 75*A^4*P^8*q^23 - 63*A^3*P^10*q^16 - 70*A^2*P^10*q^23 - 90*A*P^12*q^24
noncomputable def H4 (A P q : ℝ) : ℝ := -36*A^15*P^2*q^10 - 36*A^13*P^4*q^8 - 12*A^13*P^2*q^6 - 36*A^12*P^2*q^13 - 36*A^11*P^6*q^14 - 36*A^11*P^6*q^8 - 36*A^11*P^4*q^16 - 36*A^10*P^4*q^17 - 45*A^6*P^6*q^15 - 63*A^5*P^8*q^24 - 15*A^4*P^8*q^15 - 27*A^3*P^12*q^26 - 27*A^2*P^12*q^17 - 35*A^2*P^10*q^19 - 9*A*P^12*q^28 - 45*A*P^12*q^20
noncomputable def H5 (A P q : ℝ) : ℝ := 32*A^11*P^4*q^12 - 9*A^9*P^6*q^20 + 36*A^9*P^4*q^10 + 9*A^8*P^6*q^21 - 9*A^7*P^8*q^22 + 9*A^7*P^8*q^20 + 9*A^7*P^6*q^22 - 9*A^6*P^6*q^23 + 9*A^6*P^6*q^13 + 15*A^4*P^8*q^25 + 27*A^3*P^12*q^16 + 27*A^2*P^12*q^27 - 7*A^2*P^10*q^27 + 35*A^2*P^10*q^25 + 7*A^2*P^10*q^17 + 9*A*P^12*q^18
noncomputable def H6 (A P q : ℝ) : ℝ := 36*A^14*P^2*q^11 + 36*A^13*P^2*q^12 + 60*A^13*P^2*q^8 + 36*A^12*P^4*q^15 + 36*A^12*P^2*q^7 + 36*A^11*P^6*q^12 + 36*A^11*P^6*q^10 + 72*A^11*P^4*q^14 + 68*A^11*P^4*q^8 + 36*A^9*P^4*q^18 + 57*A^6*P^8*q^23 + 45*A^6*P^6*q^21 + 45*A^5*P^10*q^24 + 47*A^3*P^10*q^26 + 70*A^2*P^10*q^21 + 45*A*P^12*q^26
noncomputable def H7 (A P q : ℝ) : ℝ := 84*A^15*P^2*q^8 + 72*A^13*P^4*q^12 + 84*A^13*P^4*q^6 + 108*A^12*P^2*q^11 + 189*A^9*P^6*q^18 + 151*A^9*P^6*q^12 + 111*A^8*P^6*q^19 + 189*A^7*P^8*q^12 + 90*A^6*P^6*q^17 + 147*A^5*P^8*q^14 + 177*A^4*P^10*q^15 + 150*A^4*P^8*q^21 + 75*A^4*P^8*q^17 + 135*A^3*P^12*q^24 + 135*A^2*P^12*q^19 + 90*A*P^12*q^22
noncomputable def H8 (A P q : ℝ) : ℝ := 360*A^14*P^2*q^7 + 324*A^10*P^4*q^15 + 334*A^9*P^6*q^14 + 216*A^9*P^4*q^14 + 252*A^8*P^8*q^19 + 504*A^8*P^8*q^11 + 455*A^8*P^6*q^11 + 522*A^7*P^8*q^16 + 525*A^7*P^6*q^14 + 432*A^6*P^10*q^19 + 432*A^6*P^10*q^15 + 513*A^5*P^10*q^16 + 399*A^5*P^8*q^22 + 270*A^3*P^12*q^20 + 299*A^3*P^10*q^18 + 270*A^2*P^12*q^23
noncomputable def H9 (A P q : ℝ) : ℝ := 980*A^12*P^4*q^11 + 708*A^12*P^4*q^7 + 1116*A^10*P^6*q^15 + 2484*A^10*P^6*q^11 + 684*A^10*P^4*q^11 + 2268*A^8*P^8*q^15 + 1770*A^8*P^6*q^15 + 570*A^7*P^6*q^18 + 1742*A^6*P^8*q^19 + 1657*A^6*P^8*q^15 + 738*A^5*P^10*q^20 + 1134*A^5*P^8*q^18 + 549*A^4*P^10*q^23 + 1434*A^4*P^10*q^19 + 534*A^3*P^10*q^22
noncomputable def HH (A P q : ℝ) : ℝ := H0 A P q + H1 A P q + H2 A P q + H3 A P q + H4 A P q + H5 A P q + H6 A P q + H7 A P q + H8 A P q + H9 A P q

set_option maxHeartbeats 8000000 in
/-- the third-order identity: `K0²·q²(S²K1² + P²K2²) − q²K1²K2² = P²·S²·e³·(A − q)³·H` with `S² = A² − q²P²`, `e = 1 − q²` -/
theorem third_order_identity (A P q : ℝ) :
    K0 A P q ^ 2 * (q ^ 2 * (A ^ 2 - q ^ 2 * P ^ 2) * K1 A P q ^ 2 + P ^ 2 * q ^ 2 * K2 A P q ^ 2) - q ^ 2 * K1 A P q ^ 2 * K2 A P q ^ 2
      = P ^ 2 * (A ^ 2 - q ^ 2 * P ^ 2) * (1 - q ^ 2) ^ 3 * (A - q) ^ 3 * HH A P q := by
  unfold HH H0 H1 H2 H3 H4 H5 H6 H7 H8 H9 K0 K1 K2
  ring

/-- the numerator and denominator of the Halley step in terms of the cofactors: `s1 = P·S·K1/2`, `cc = P²·q·K2/2`
(`A² = (qP)² + S²`) -/
theorem halley_as_cofactors (q P S A e d0 f0 b0 : ℝ)
    (hAA : A * A = q * P * (q * P) + S * S) (hE : e = 1 - q ^ 2)
    (hD : d0 = q * S * (A * A * A) + e * (S * S * S))
    (hF : f0 = P * (A * A * A) - e * (q * P * (q * P) * (q * P)))
    (hB : b0 = e * e * 1.5 * (S * S) * (q * P * (q * P)) * P * (A - q)) :
    d0 * f0 - b0 * S = P * S * K1 A P q / 2 ∧ q * (f0 * f0 - b0 * (q * P)) = P ^ 2 * q * K2 A P q / 2 := by
  have h15 : (1.5 : ℝ) = 3 / 2 := by norm_num
  subst hE hD hF hB
  rw [h15]
  unfold K1 K2
  constructor
  · linear_combination (A^3*P*S*q^2 - A^3*P*S + 3*A*P^3*S*q^6/2 - 3*A*P^3*S*q^4 + 3*A*P^3*S*q^2/2 - P^3*S*q^7/2 + P^3*S*q^5 - P^3*S*q^3/2) * hAA
  · linear_combination (3*A*P^4*q^8/2 - 3*A*P^4*q^6 + 3*A*P^4*q^4/2 - 3*P^4*q^9/2 + 3*P^4*q^7 - 3*P^4*q^5/2) * hAA

/-- **the Halley (third-order) property of the one-step scheme, made explicit**: with `M = P·s1 − S·cc` and
`W² = q²s1² + cc²`, `(e·s1·cc)² − M²·W² = −e⁵·P⁸·S⁴·(A − q)³·H/16` — the latitude error vanishes to third order in
`A − q` (zero on the ellipsoid) and carries the factor `e⁵·e⁻¹` -/
theorem third_order (q P S A s1 cc : ℝ) (hAA : A * A = q * P * (q * P) + S * S)
    (hs1 : s1 = P * S * K1 A P q / 2) (hcc : cc = P ^ 2 * q * K2 A P q / 2)
    (hM : P * s1 - S * cc = (1 - q ^ 2) * P ^ 2 * S * K0 A P q / 2) :
    ((1 - q ^ 2) * s1 * cc) ^ 2 - (P * s1 - S * cc) ^ 2 * (q ^ 2 * (s1 * s1) + cc * cc)
      = -((1 - q ^ 2) ^ 5 * P ^ 8 * (S * S) ^ 2 * (A - q) ^ 3 * HH A P q / 16) := by
  have hS2 : S * S = A ^ 2 - q ^ 2 * P ^ 2 := by linear_combination (-1 : ℝ) * hAA
  have key := third_order_identity A P q
  rw [hM, hs1, hcc]
  have e1 : ((1 - q ^ 2) * (P * S * K1 A P q / 2) * (P ^ 2 * q * K2 A P q / 2)) ^ 2
      - ((1 - q ^ 2) * P ^ 2 * S * K0 A P q / 2) ^ 2 *
        (q ^ 2 * (P * S * K1 A P q / 2 * (P * S * K1 A P q / 2)) + P ^ 2 * q * K2 A P q / 2 * (P ^ 2 * q * K2 A P q / 2))
      = -((1 - q ^ 2) ^ 2 * P ^ 6 * (S * S) / 16 *
          (K0 A P q ^ 2 * (q ^ 2 * (S * S) * K1 A P q ^ 2 + P ^ 2 * q ^ 2 * K2 A P q ^ 2) - q ^ 2 * K1 A P q ^ 2 * K2 A P q ^ 2)) := by
    ring
  rw [e1, hS2, key]
  ring

/-- `M = P·s1 − S·cc = e·P²·S·K0/2` -/
theorem M_as_cofactor (q P S A : ℝ) :
    P * (P * S * K1 A P q / 2) - S * (P ^ 2 * q * K2 A P q / 2) = (1 - q ^ 2) * P ^ 2 * S * K0 A P q / 2 := by
  unfold K0 K1 K2
  ring

end Midgard.Geo.Acc
