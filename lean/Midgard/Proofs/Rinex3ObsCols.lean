/-
C11 file level, part 2: the column store under `appendAll` in closed form, and what one observation record adds
(`addRecord_cols`): exactly one entry in every column of the file — the record's observation for the types of
its system, absent for the others.  Core Lean only.
-/
import Midgard.Proofs.Rinex3ObsLines

namespace Midgard.Spec.Rinex3ObsFile
open Midgard.Text Midgard.FixedCol Midgard.Decimal Midgard.ChainParser Midgard.RinexObs Midgard.Rinex3Obs

/-! ### the column store -/

/-- one column `f t` per type of `all` -/
def Cols (all : List Str) (f : Str → Col) : List (Str × Col) := all.map fun t => (t, f t)

def upd (f : Str → Col) (t : Str) (v : Option Rat) : Str → Col := fun t' => if t' = t then f t' ++ [v] else f t'

theorem colAppend_cols (all : List Str) (f : Str → Col) (t : Str) (v : Option Rat) (ht : t ∈ all) :
    colAppend (Cols all f) t v = some (Cols all (upd f t v)) := by
  unfold colAppend
  have hany : (Cols all f).any (·.1 == t) = true := by
    simp only [Cols, List.any_map, List.any_eq_true]
    exact ⟨t, ht, by simp⟩
  rw [hany]
  simp only [if_true, Cols, List.map_map, Option.some.injEq]
  apply List.map_congr_left
  intro t' _
  by_cases h : t' = t
  · simp [upd, h]
  · simp [upd, h]

theorem appendObs_cols (all : List Str) (d : Data) (fo fl fs : Str → Col)
    (ho : d.obs = Cols all fo) (hl : d.lli = Cols all fl) (hs : d.snr = Cols all fs)
    (t : Str) (a b c : Option Rat) (ht : t ∈ all) :
    d.appendObs t a b c = .ok { d with obs := Cols all (upd fo t a), lli := Cols all (upd fl t b), snr := Cols all (upd fs t c) } := by
  unfold Data.appendObs
  rw [ho, hl, hs, colAppend_cols all fo t a ht, colAppend_cols all fl t b ht, colAppend_cols all fs t c ht]
  rfl

/-- the entries of `l` under the name `t`, in order -/
def under (l : List (Str × Option Rat)) (t : Str) : Col := (l.filter fun x => x.1 = t).map (·.2)

theorem appendAll_cols (all : List Str) : ∀ (ts : List (Str × Option Rat × Option Rat × Option Rat)) (d : Data)
    (fo fl fs : Str → Col), d.obs = Cols all fo → d.lli = Cols all fl → d.snr = Cols all fs → (∀ x ∈ ts, x.1 ∈ all) →
    appendAll d ts = .ok { d with
      obs := Cols all fun t => fo t ++ under (ts.map fun x => (x.1, x.2.1)) t,
      lli := Cols all fun t => fl t ++ under (ts.map fun x => (x.1, x.2.2.1)) t,
      snr := Cols all fun t => fs t ++ under (ts.map fun x => (x.1, x.2.2.2)) t } := by
  intro ts
  induction ts with
  | nil =>
    intro d fo fl fs ho hl hs _
    simp only [appendAll, List.foldlM_nil, pure, Except.pure, List.map_nil, under, List.filter_nil, List.append_nil]
    rw [← ho, ← hl, ← hs]
  | cons x rest ih =>
    intro d fo fl fs ho hl hs hx
    simp only [appendAll, List.foldlM_cons, bind, Except.bind]
    rw [appendObs_cols all d fo fl fs ho hl hs x.1 x.2.1 x.2.2.1 x.2.2.2 (hx x (by simp))]
    simp only
    have := ih { d with obs := Cols all (upd fo x.1 x.2.1), lli := Cols all (upd fl x.1 x.2.2.1), snr := Cols all (upd fs x.1 x.2.2.2) }
      (upd fo x.1 x.2.1) (upd fl x.1 x.2.2.1) (upd fs x.1 x.2.2.2) rfl rfl rfl (fun y hy => hx y (by simp [hy]))
    simp only [appendAll] at this
    rw [this]
    have key : ∀ (f : Str → Col) (v : Option Rat) (l : List (Str × Option Rat)),
        (fun t => upd f x.1 v t ++ under l t) = fun t => f t ++ under ((x.1, v) :: l) t := by
      intro f v l
      funext t
      by_cases h : t = x.1
      · subst h; simp [upd, under, List.filter_cons]
      · have h' : ¬ x.1 = t := fun e => h e.symm
        simp [upd, under, List.filter_cons, h, h']
    simp only [List.map_cons, key]

/-! ### one record, from its values -/

theorem under_zip_nodup (sel : Obs → Option Rat) : ∀ (types : List Str) (obs : List Obs), types.Nodup → (t : Str) →
    under ((types.zip obs).map fun to => (to.1, sel to.2)) t =
      (((types.zip obs).find? (·.1 == t)).map fun x => sel x.2).toList := by
  intro types
  induction types with
  | nil => intro obs _ t; rfl
  | cons n ns ih =>
    intro obs hnd t
    cases obs with
    | nil => rfl
    | cons o os =>
      rw [List.nodup_cons] at hnd
      simp only [List.zip_cons_cons, List.map_cons, under, List.filter_cons, List.find?_cons]
      by_cases h : n = t
      · subst h
        have hrest : (List.filter (fun x => decide (x.1 = n)) (List.map (fun to => (to.1, sel to.2)) (ns.zip os))) = [] := by
          rw [List.filter_eq_nil_iff]
          intro x hx
          simp only [List.mem_map] at hx
          obtain ⟨to, hto, rfl⟩ := hx
          have : to.1 ∈ ns := (List.of_mem_zip (by rw [show to = (to.1, to.2) from rfl] at hto; exact hto)).1
          simp only [decide_eq_true_eq]
          intro e; exact hnd.1 (e ▸ this)
        simp [hrest]
      · have hb : (n == t) = false := by simp [h]
        simp only [h, decide_false, Bool.false_eq_true, if_false, hb]
        exact ih os hnd.2 t

theorem under_none_nodup : ∀ (us : List Str), us.Nodup → (t : Str) →
    under (us.map fun u => (u, (none : Option Rat))) t = if t ∈ us then [none] else [] := by
  intro us
  induction us with
  | nil => intro _ t; rfl
  | cons u us ih =>
    intro hnd t
    rw [List.nodup_cons] at hnd
    have := ih hnd.2 t
    simp only [under] at this ⊢
    simp only [List.map_cons, List.filter_cons]
    by_cases h : u = t
    · subst h
      simp [hnd.1] at this
      simp
      exact this
    · have h' : ¬ t = u := fun e => h e.symm
      simp [h, h', this]

/-- what record `r` says about type `t` when its system has the types `types` -/
def look (types : List Str) (r : SatRec) (sel : Obs → Option Rat) (t : Str) : Option Rat :=
  ((types.zip r.obs).find? (·.1 == t)).bind fun x => sel x.2

theorem find_zip_none {types : List Str} {obs : List Obs} {t : Str} (h : t ∉ types) :
    (types.zip obs).find? (·.1 == t) = none := by
  rw [List.find?_eq_none]
  intro x hx
  have : x.1 ∈ types := (List.of_mem_zip (by rw [show x = (x.1, x.2) from rfl] at hx; exact hx)).1
  simp only [beq_iff_eq]
  intro e; exact h (e ▸ this)

theorem find_zip_some {types : List Str} {obs : List Obs} {t : Str} (h : t ∈ types) (hl : types.length = obs.length) :
    ((types.zip obs).find? (·.1 == t)).isSome = true := by
  rw [List.find?_isSome]
  induction types generalizing obs with
  | nil => simp at h
  | cons n ns ih =>
    cases obs with
    | nil => simp at hl
    | cons o os =>
      rcases List.mem_cons.mp h with rfl | h'
      · exact ⟨(t, o), by simp, by simp⟩
      · obtain ⟨x, hx, hxt⟩ := ih h' (by simpa using hl)
        exact ⟨x, by simp [hx], hxt⟩

/-- the data after one more record: a new entry in every column, one more row -/
def recData (d : Data) (all types : List Str) (fo fl fs : Str → Col) (r : SatRec) (e : EpochInfo) (station : Str) : Data :=
  Data.appendRow
    { d with
      obs := Cols all (fun t => fo t ++ [look types r (·.value.val) t]),
      lli := Cols all (fun t => fl t ++ [look types r (·.lli.val) t]),
      snr := Cols all (fun t => fs t ++ [look types r (·.ssi.val) t]) }
    e station (r.sat.take 1) r.sat (Text.slice 1 3 r.sat)

/-- **one record, closed form**: every column of the file gets exactly one new entry — the record's
observation for the types of its system, absent for the others — and the row-level columns one entry -/
theorem addRecord_cols (all types : List Str) (hall : all.Nodup) (htn : types.Nodup) (hsub : ∀ t ∈ types, t ∈ all)
    (r : SatRec) (hlen : types.length = r.obs.length) (station : Str) (e : EpochInfo) (s : State) (hs : s.obstypesAll = all)
    (fo fl fs : Str → Col) (ho : s.data.obs = Cols all fo) (hl : s.data.lli = Cols all fl) (hsn : s.data.snr = Cols all fs) :
    addRecord types station e r s = .ok { s with data := recData s.data all types fo fl fs r e station } := by
  unfold addRecord
  have h1 := appendAll_cols all ((types.zip r.obs).map fun to => (to.1, to.2.value.val, to.2.lli.val, to.2.ssi.val)) s.data fo fl fs ho hl hsn
    (by
      intro x hx
      simp only [List.mem_map] at hx
      obtain ⟨to, hto, rfl⟩ := hx
      exact hsub _ (List.of_mem_zip (by rw [show to = (to.1, to.2) from rfl] at hto; exact hto)).1)
  simp only [bind, Except.bind, h1, hs]
  have hun : ∀ x ∈ (all.filter fun t => !types.contains t).map fun t => (t, (none : Option Rat), (none : Option Rat), (none : Option Rat)),
      x.1 ∈ all := by
    intro x hx
    simp only [List.mem_map, List.mem_filter] at hx
    obtain ⟨t, ⟨ht, _⟩, rfl⟩ := hx
    exact ht
  have h2 : ∀ (fo' fl' fs' : Str → Col),
      appendAll { s.data with obs := Cols all fo', lli := Cols all fl', snr := Cols all fs' }
        ((all.filter fun t => !types.contains t).map fun t => (t, (none : Option Rat), (none : Option Rat), (none : Option Rat))) = _ :=
    fun fo' fl' fs' => appendAll_cols all _ _ fo' fl' fs' rfl rfl rfl hun
  simp only [h2, pure, Except.pure, List.map_map, Function.comp_def]
  have hund : (all.filter fun t => !types.contains t).Nodup := hall.filter _
  have col : ∀ (sel : Obs → Option Rat) (f : Str → Col),
      Cols all (fun t => (f t ++ under (List.map (fun to => (to.1, sel to.2)) (types.zip r.obs)) t) ++
        under (List.map (fun t => (t, (none : Option Rat))) (all.filter fun t => !types.contains t)) t) =
      Cols all (fun t => f t ++ [look types r sel t]) := by
    intro sel f
    unfold Cols
    apply List.map_congr_left
    intro t ht
    dsimp only
    rw [under_zip_nodup sel types r.obs htn t, under_none_nodup _ hund t]
    congr 1
    rw [List.append_assoc]
    congr 1
    by_cases hin : t ∈ types
    · have hnot : t ∉ all.filter fun t => !types.contains t := by simp [hin]
      have hsome := find_zip_some hin hlen
      cases hf : (types.zip r.obs).find? (·.1 == t) with
      | none => simp [hf] at hsome
      | some x => simp [look, hf]; exact fun _ => hin
    · have hmem : t ∈ all.filter fun t => !types.contains t := by simp [ht, hin]
      simp [look, find_zip_none hin]; exact ⟨ht, hin⟩
  have c1 := col (·.value.val) fo
  have c2 := col (·.lli.val) fl
  have c3 := col (·.ssi.val) fs
  simp only [c1, c2, c3, recData]


end Midgard.Spec.Rinex3ObsFile
