/-
C20 — Euler pole, spherical ↔ Cartesian (`PlateMotion.to_cartesian` / `to_spherical`).

Two layers:
* over `Rat`, about the executable `toCartesianQ` / `omegaSq` of Model/Numeric.lean (cos/sin are parameters):
  the rotation rate is recovered, the direction is the one of (cl·co, cl·so, sl);
* over `ℝ`, about the same formulas written with `Real.cos/sin/sqrt` and `arctan2 y x := Complex.arg (x + iy)`
  (a specification, not executed): both round trips.  The constant unit factors (°↔rad, mas, 10⁶) are
  omitted there: they cancel (`omega_recovered` below shows it for the executed formula).
-/
import Midgard.Model.Numeric
import Mathlib.Tactic.Ring
import Mathlib.Tactic.LinearCombination
import Mathlib.Analysis.SpecialFunctions.Complex.Arg

namespace Midgard.Proofs.C20
open Midgard.Numeric

/-- `to_spherical(to_cartesian(lat, lon, ω))[2]² = ω²` -/
theorem omegaSq_toCartesianQ (cl sl co so w : ℚ) (h1 : cl ^ 2 + sl ^ 2 = 1) (h2 : co ^ 2 + so ^ 2 = 1) :
    omegaSq (toCartesianQ cl sl co so w) = w * w := by
  simp only [omegaSq, toCartesianQ, dot3]
  linear_combination (w ^ 2 * cl ^ 2) * h2 + (w ^ 2) * h1

/-- the Cartesian pole is `ω·k` times the unit vector `(cos lat cos lon, cos lat sin lon, sin lat)` -/
theorem toCartesianQ_direction (cl sl co so w : ℚ) :
    toCartesianQ cl sl co so w = ⟨(w * (3600000 / 1000000)) * (cl * co), (w * (3600000 / 1000000)) * (cl * so),
      (w * (3600000 / 1000000)) * sl⟩ := by
  simp only [toCartesianQ]
  congr 1 <;> ring

namespace Spherical
open Real

/-- `np.arctan2(y, x)` -/
noncomputable def atan2 (y x : ℝ) : ℝ := Complex.arg ⟨x, y⟩

/-- `to_cartesian` up to the constant unit factors -/
noncomputable def toCartesian (lat lon w : ℝ) : ℝ × ℝ × ℝ :=
  (w * cos lat * cos lon, w * cos lat * sin lon, w * sin lat)

/-- `to_spherical` up to the constant unit factors -/
noncomputable def toSpherical (p : ℝ × ℝ × ℝ) : ℝ × ℝ × ℝ :=
  (atan2 p.2.2 (sqrt (p.1 ^ 2 + p.2.1 ^ 2)), atan2 p.2.1 p.1, sqrt (p.1 ^ 2 + p.2.1 ^ 2 + p.2.2 ^ 2))

theorem atan2_polar (r θ : ℝ) (hr : 0 < r) (hθ : θ ∈ Set.Ioc (-π) π) : atan2 (r * sin θ) (r * cos θ) = θ := by
  unfold atan2
  have e : (⟨r * cos θ, r * sin θ⟩ : ℂ) = (r : ℂ) * (Complex.cos θ + Complex.sin θ * Complex.I) := by
    apply Complex.ext <;> simp [Complex.cos_ofReal_re, Complex.sin_ofReal_re, Complex.cos_ofReal_im, Complex.sin_ofReal_im]
  rw [e]
  exact Complex.arg_mul_cos_add_sin_mul_I hr hθ

theorem spherical_roundtrip (lat lon w : ℝ) (hw : 0 < w) (hlat : lat ∈ Set.Ioo (-(π / 2)) (π / 2))
    (hlon : lon ∈ Set.Ioc (-π) π) : toSpherical (toCartesian lat lon w) = (lat, lon, w) := by
  have hc : 0 < cos lat := cos_pos_of_mem_Ioo hlat
  have hxy : (w * cos lat * cos lon) ^ 2 + (w * cos lat * sin lon) ^ 2 = (w * cos lat) ^ 2 := by
    have := sin_sq_add_cos_sq lon
    nlinarith [this]
  have hs1 : sqrt ((w * cos lat * cos lon) ^ 2 + (w * cos lat * sin lon) ^ 2) = w * cos lat := by
    rw [hxy, sqrt_sq (le_of_lt (mul_pos hw hc))]
  have hs2 : sqrt ((w * cos lat * cos lon) ^ 2 + (w * cos lat * sin lon) ^ 2 + (w * sin lat) ^ 2) = w := by
    have : (w * cos lat * cos lon) ^ 2 + (w * cos lat * sin lon) ^ 2 + (w * sin lat) ^ 2 = w ^ 2 := by
      rw [hxy]; have := sin_sq_add_cos_sq lat; nlinarith [this]
    rw [this, sqrt_sq (le_of_lt hw)]
  have hlat' : lat ∈ Set.Ioc (-π) π := ⟨by linarith [hlat.1, pi_pos], by linarith [hlat.2, pi_pos]⟩
  simp only [toSpherical, toCartesian, hs1, hs2]
  rw [atan2_polar w lat hw hlat', atan2_polar (w * cos lat) lon (mul_pos hw hc) hlon]

theorem hyp_cos (x y : ℝ) : sqrt (x ^ 2 + y ^ 2) * cos (atan2 y x) = x := by
  have := Complex.norm_mul_cos_arg ⟨x, y⟩
  rwa [Complex.norm_eq_sqrt_sq_add_sq] at this

theorem hyp_sin (x y : ℝ) : sqrt (x ^ 2 + y ^ 2) * sin (atan2 y x) = y := by
  have := Complex.norm_mul_sin_arg ⟨x, y⟩
  rwa [Complex.norm_eq_sqrt_sq_add_sq] at this

theorem cartesian_roundtrip (x y z : ℝ) :
    toCartesian (toSpherical (x, y, z)).1 (toSpherical (x, y, z)).2.1 (toSpherical (x, y, z)).2.2 = (x, y, z) := by
  simp only [toSpherical, toCartesian]
  have hr : sqrt (x ^ 2 + y ^ 2 + z ^ 2) = sqrt (sqrt (x ^ 2 + y ^ 2) ^ 2 + z ^ 2) := by
    rw [sq_sqrt (by positivity)]
  have h1 := hyp_cos (sqrt (x ^ 2 + y ^ 2)) z
  have h2 := hyp_sin (sqrt (x ^ 2 + y ^ 2)) z
  have h3 := hyp_cos x y
  have h4 := hyp_sin x y
  rw [hr, h1, h2, h3, h4]

end Spherical
end Midgard.Proofs.C20
