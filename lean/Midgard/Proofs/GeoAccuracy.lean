/-
C05 — helper theorems for the sign / longitude / residual statements of Props/C05.lean (own file of C05; imports the
shared real-number instance `Proofs/GeoReal.lean` read-only).

* `halley_core_pos` … `halley_pos`: numerator and denominator of the one-step Halley latitude are positive at every
  height (any point not within `e²(1−f)a` ≈ 43 km of the centre), for every ellipsoid with `0 ≤ f ≤ 1/3`;
* `trs2llh_lat_sign`, `trs2llh_equator`, `trs2llh_meridian180`, `trs2llh_lon_range`, `roundtrip_lon`;
* `roundtrip_residual`: `llh2trs (trs2llh v) − v` in closed form (the tangential offset `R`).
-/
import Midgard.Proofs.GeoReal
import Midgard.Model.Geodetic
import Midgard.Model.GeoSelect
import Mathlib.Tactic.Positivity
import Mathlib.Tactic.Linarith

namespace Midgard.Geo.Acc
open Midgard.Geo

/-- `x ≤ A` and `x² ≤ A²` from `A² = x² + S²` -/
theorem x_le_A (x S A : ℝ) (_hx0 : 0 < x) (hA : 0 < A) (hAA : A * A = x * x + S * S) : x ≤ A ∧ x * x ≤ A * A := by
  have hxx : x * x ≤ A * A := by rw [hAA]; linarith [mul_self_nonneg S]
  refine ⟨?_, hxx⟩
  by_contra h
  have h' : A < x := not_le.1 h
  have := mul_lt_mul'' h' h' hA.le hA.le
  linarith

/-- `f0 ≥ P·A²·(A − e·q)` -/
theorem f0_lower (q P S A e f0 : ℝ) (hq0 : 0 < q) (hP : 0 < P) (hA : 0 < A) (he0 : 0 ≤ e)
    (hAA : A * A = q * P * (q * P) + S * S)
    (hF : f0 = P * (A * A * A) - e * (q * P * (q * P) * (q * P))) :
    P * (A * A) * (A - e * q) ≤ f0 := by
  have hx0 : 0 < q * P := by positivity
  obtain ⟨_, hxx⟩ := x_le_A (q * P) S A hx0 hA hAA
  have : f0 - P * (A * A) * (A - e * q) = e * (q * P) * (A * A - q * P * (q * P)) := by rw [hF]; ring
  have h2 : 0 ≤ e * (q * P) * (A * A - q * P * (q * P)) := mul_nonneg (mul_nonneg he0 hx0.le) (by linarith)
  linarith

/-- inside the ellipsoid (`A < q`) but not within `e²·(1−f)` of the centre -/
theorem core_inside (q P S A e d0 f0 b0 : ℝ) (hq0 : 0 < q) (hP : 0 < P) (hS : 0 ≤ S) (hA : 0 < A) (he0 : 0 ≤ e)
    (hAA : A * A = q * P * (q * P) + S * S) (hdeep : e * q < A) (hAq : A < q)
    (hD : d0 = q * S * (A * A * A) + e * (S * S * S))
    (hF : f0 = P * (A * A * A) - e * (q * P * (q * P) * (q * P)))
    (hB : b0 = e * e * 1.5 * (S * S) * (q * P * (q * P)) * P * (A - q)) :
    0 < f0 * f0 - b0 * (q * P) ∧ 0 ≤ d0 * f0 - b0 * S ∧ (0 < S → 0 < d0 * f0 - b0 * S) := by
  have hx0 : 0 < q * P := by positivity
  have hf0' := f0_lower q P S A e f0 hq0 hP hA he0 hAA hF
  have hf0pos : 0 < f0 := lt_of_lt_of_le (mul_pos (by positivity) (by linarith)) hf0'
  have hd0 : q * S * (A * A * A) ≤ d0 := by
    have : 0 ≤ e * (S * S * S) := by positivity
    rw [hD]; linarith
  have hd00 : 0 ≤ d0 := le_trans (by positivity) hd0
  have hb0 : b0 ≤ 0 := by
    have h1 : b0 = -(1.5 * (e * e) * P * ((S * S) * (q * P * (q * P))) * (q - A)) := by rw [hB]; ring
    have h2 : 0 ≤ 1.5 * (e * e) * P * ((S * S) * (q * P * (q * P))) * (q - A) := by
      have : 0 ≤ q - A := by linarith
      positivity
    linarith
  have hff : 0 < f0 * f0 := mul_pos hf0pos hf0pos
  have hdf : 0 ≤ d0 * f0 := mul_nonneg hd00 hf0pos.le
  have hbx : 0 ≤ -b0 * (q * P) := mul_nonneg (by linarith) hx0.le
  have hbS : 0 ≤ -b0 * S := mul_nonneg (by linarith) hS
  refine ⟨by linarith, by linarith, ?_⟩
  intro hS'
  have hd0' : 0 < d0 := lt_of_lt_of_le (by positivity) hd0
  have := mul_pos hd0' hf0pos
  linarith

/-- on or outside the ellipsoid (`q ≤ A`): every height above the surface -/
theorem core_outside (q P S A e d0 f0 b0 : ℝ) (hq : 2 / 3 ≤ q) (hq1 : q ≤ 1) (hP : 0 < P) (hS : 0 ≤ S) (hA : 0 < A)
    (hAA : A * A = q * P * (q * P) + S * S) (hE : e = 1 - q ^ 2) (hqA : q ≤ A)
    (hD : d0 = q * S * (A * A * A) + e * (S * S * S))
    (hF : f0 = P * (A * A * A) - e * (q * P * (q * P) * (q * P)))
    (hB : b0 = e * e * 1.5 * (S * S) * (q * P * (q * P)) * P * (A - q)) :
    0 < f0 * f0 - b0 * (q * P) ∧ 0 ≤ d0 * f0 - b0 * S ∧ (0 < S → 0 < d0 * f0 - b0 * S) := by
  have hq0 : 0 < q := by linarith
  have hx0 : 0 < q * P := by positivity
  have hqq : 4 / 9 ≤ q * q := by nlinarith
  have hqq1 : q * q ≤ 1 := by nlinarith
  have he0 : 0 ≤ e := by rw [hE]; linarith [sq q]
  have he1 : e ≤ 5 / 9 := by rw [hE]; linarith [sq q]
  have hee : e * e ≤ 25 / 81 := by nlinarith
  have hq4 : 16 / 81 ≤ q * q * (q * q) := by nlinarith
  have hf0' := f0_lower q P S A e f0 hq0 hP hA he0 hAA hF
  have hf0 : P * (A * A * A) * (q * q) ≤ f0 := by
    have h1 : A * (q * q) ≤ A - e * q := by
      have h3 : e * q ≤ e * A := mul_le_mul_of_nonneg_left hqA he0
      have h4 : A * (q * q) = A - e * A := by rw [hE]; ring
      linarith
    have h2 : P * (A * A) * (A * (q * q)) ≤ P * (A * A) * (A - e * q) := mul_le_mul_of_nonneg_left h1 (by positivity)
    have h5 : P * (A * A * A) * (q * q) = P * (A * A) * (A * (q * q)) := by ring
    linarith
  have hf0pos : 0 < f0 := lt_of_lt_of_le (by positivity) hf0
  have hd0 : q * S * (A * A * A) ≤ d0 := by
    have : 0 ≤ e * (S * S * S) := by positivity
    rw [hD]; linarith
  have hd00 : 0 ≤ d0 := le_trans (by positivity) hd0
  have hT : (S * S) * (q * P * (q * P)) ≤ (A * A) * (A * A) / 4 := by
    rw [hAA]; nlinarith [mul_self_nonneg (q * P * (q * P) - S * S)]
  have hG0 : 0 ≤ A - q := by linarith
  have hG1 : A - q ≤ A := by linarith
  have hb0 : b0 = 1.5 * (e * e) * P * ((S * S) * (q * P * (q * P)) * (A - q)) := by rw [hB]; ring
  have hb1 : b0 ≤ 0.375 * (e * e) * P * ((A * A) * (A * A)) * A := by
    rw [hb0]
    have hc : 0 ≤ 1.5 * (e * e) * P := by positivity
    have h1 : (S * S) * (q * P * (q * P)) * (A - q) ≤ ((A * A) * (A * A) / 4) * A :=
      mul_le_mul hT hG1 hG0 (by positivity)
    have h2 := mul_le_mul_of_nonneg_left h1 hc
    have h3 : 1.5 * (e * e) * P * (((A * A) * (A * A) / 4) * A) = 0.375 * (e * e) * P * ((A * A) * (A * A)) * A := by ring
    linarith
  have hmargin : 0 < q * q * q * A - 0.375 * (e * e) := by
    have h1 : q * q * q * q ≤ q * q * q * A := mul_le_mul_of_nonneg_left hqA (by positivity)
    have h2 : q * q * q * q = q * q * (q * q) := by ring
    linarith
  have hA5 : 0 < (A * A) * (A * A) * A := by positivity
  have key1 : 0 < (P * (A * A * A) * (q * q)) * (P * (A * A * A) * (q * q)) - 0.375 * (e * e) * P * ((A * A) * (A * A)) * A * (q * P) := by
    have : (P * (A * A * A) * (q * q)) * (P * (A * A * A) * (q * q)) - 0.375 * (e * e) * P * ((A * A) * (A * A)) * A * (q * P)
        = P * P * q * ((A * A) * (A * A) * A) * (q * q * q * A - 0.375 * (e * e)) := by ring
    rw [this]; positivity
  have key2 : (q * S * (A * A * A)) * (P * (A * A * A) * (q * q)) - 0.375 * (e * e) * P * ((A * A) * (A * A)) * A * S
      = S * P * ((A * A) * (A * A) * A) * (q * q * q * A - 0.375 * (e * e)) := by ring
  have h1 : (P * (A * A * A) * (q * q)) * (P * (A * A * A) * (q * q)) ≤ f0 * f0 :=
    mul_le_mul hf0 hf0 (by positivity) hf0pos.le
  have h2 : b0 * (q * P) ≤ 0.375 * (e * e) * P * ((A * A) * (A * A)) * A * (q * P) :=
    mul_le_mul_of_nonneg_right hb1 hx0.le
  have h3 : (q * S * (A * A * A)) * (P * (A * A * A) * (q * q)) ≤ d0 * f0 :=
    mul_le_mul hd0 hf0 (by positivity) hd00
  have h4 : b0 * S ≤ 0.375 * (e * e) * P * ((A * A) * (A * A)) * A * S :=
    mul_le_mul_of_nonneg_right hb1 hS
  refine ⟨by linarith, ?_, ?_⟩
  · have : 0 ≤ S * P * ((A * A) * (A * A) * A) * (q * q * q * A - 0.375 * (e * e)) := by positivity
    linarith
  · intro hS'
    have : 0 < S * P * ((A * A) * (A * A) * A) * (q * q * q * A - 0.375 * (e * e)) := by positivity
    linarith

/-- the algebraic core of the sign statement: with `q = 1 − f ∈ [2/3, 1]`, `e = 1 − q²`, `A² = (qP)² + S²`, and the
point not within `e·q` (≈ 43 km for the Earth) of the centre, the quantities `f0² − b0·c0` and `d0·f0 − b0·s0` of the
Halley step are positive -/
theorem halley_core_pos (q P S A e d0 f0 b0 : ℝ) (hq : 2 / 3 ≤ q) (hq1 : q ≤ 1) (hP : 0 < P) (hS : 0 ≤ S) (hA : 0 < A)
    (hAA : A * A = q * P * (q * P) + S * S)
    (hE : e = 1 - q ^ 2) (hdeep : e * q < A)
    (hD : d0 = q * S * (A * A * A) + e * (S * S * S))
    (hF : f0 = P * (A * A * A) - e * (q * P * (q * P) * (q * P)))
    (hB : b0 = e * e * 1.5 * (S * S) * (q * P * (q * P)) * P * (A - q)) :
    0 < f0 * f0 - b0 * (q * P) ∧ 0 ≤ d0 * f0 - b0 * S ∧ (0 < S → 0 < d0 * f0 - b0 * S) := by
  rcases le_or_gt q A with hqA | hAq
  · exact core_outside q P S A e d0 f0 b0 hq hq1 hP hS hA hAA hE hqA hD hF hB
  · have he0 : 0 ≤ e := by rw [hE]; nlinarith
    exact core_inside q P S A e d0 f0 b0 (by linarith) hP hS hA he0 hAA hdeep hAq hD hF hB


/-- hypotheses on an ellipsoid under which the sign / residual statements are proved: `a > 0`, `0 ≤ f ≤ 1/3`
(every registered ellipsoid: `f_inv > 3` or the sphere) -/
structure Mild (E : Ellipsoid ℝ) : Prop where
  ha : 0 < E.a
  hf0 : 0 ≤ E.f
  hf : E.f ≤ 1 / 3

theorem e2_eq (E : Ellipsoid ℝ) (ha : E.a ≠ 0) : E.e2 = 1 - (1 - E.f) ^ 2 := by
  simp only [Ellipsoid.e2, Ellipsoid.b]; field_simp

/-- **the Halley step has positive numerator and denominator** at every point off the axis that is not within
`e²·(1−f)·a` of the centre: `cc > 0`, `s1 ≥ 0`, and `s1 > 0` when `|z| > 0` -/
theorem halley_pos (E : Ellipsoid ℝ) (hE : Mild E) (p z : ℝ) (hp : 0 < p) (hz : 0 ≤ z)
    (hdeep : (E.e2 * (1 - E.f) * E.a) ^ 2 < (1 - E.f) ^ 2 * (p * p) + z * z) :
    0 < (halley E p z).2 ∧ 0 ≤ (halley E p z).1 ∧ (0 < z → 0 < (halley E p z).1) := by
  obtain ⟨ha, hf0, hf⟩ := hE
  set q := 1 - E.f with hq
  have hq23 : 2 / 3 ≤ q := by linarith
  have hq1 : q ≤ 1 := by linarith
  have hq0 : 0 < q := by linarith
  have he2 : E.e2 = 1 - q ^ 2 := e2_eq E ha.ne'
  have hec : Real.sqrt (1 - E.e2) = q := by
    rw [he2, show 1 - (1 - q ^ 2) = q ^ 2 by ring, Real.sqrt_sq hq0.le]
  set P := p / E.a with hP
  set S := z / E.a with hS
  have hP0 : 0 < P := div_pos hp ha
  have hS0 : 0 ≤ S := div_nonneg hz ha.le
  set A := Real.sqrt (q * P * (q * P) + S * S) with hA
  have hrad : 0 < q * P * (q * P) + S * S := by positivity
  have hA0 : 0 < A := Real.sqrt_pos.2 hrad
  have hAA : A * A = q * P * (q * P) + S * S := Real.mul_self_sqrt hrad.le
  have he0 : 0 ≤ E.e2 := by rw [he2]; nlinarith
  -- not too deep
  have hdeep' : E.e2 * q < A := by
    have h1 : (E.e2 * q) ^ 2 < A * A := by
      rw [hAA, hP, hS]
      have : (E.e2 * q * E.a) ^ 2 < q ^ 2 * (p * p) + z * z := hdeep
      have ha2 : 0 < E.a ^ 2 := by positivity
      have : (E.e2 * q) ^ 2 * E.a ^ 2 < (q * (p / E.a) * (q * (p / E.a)) + z / E.a * (z / E.a)) * E.a ^ 2 := by
        have e1 : (q * (p / E.a) * (q * (p / E.a)) + z / E.a * (z / E.a)) * E.a ^ 2 = q ^ 2 * (p * p) + z * z := by
          field_simp
        rw [e1]; nlinarith
      exact lt_of_mul_lt_mul_right this ha2.le
    have h2 : 0 ≤ E.e2 * q := by positivity
    nlinarith [abs_lt_of_sq_lt_sq' (by nlinarith : (E.e2 * q) ^ 2 < A ^ 2) hA0.le]
  have core := halley_core_pos q P S A E.e2
    (q * S * (A * A * A) + E.e2 * (S * S * S))
    (P * (A * A * A) - E.e2 * (q * P * (q * P) * (q * P)))
    (E.e2 * E.e2 * 1.5 * (S * S) * (q * P * (q * P)) * P * (A - q))
    hq23 hq1 hP0 hS0 hA0 hAA he2 hdeep' rfl rfl rfl
  have h1 : (halley E p z).1 =
      (q * S * (A * A * A) + E.e2 * (S * S * S)) * (P * (A * A * A) - E.e2 * (q * P * (q * P) * (q * P)))
        - (E.e2 * E.e2 * 1.5 * (S * S) * (q * P * (q * P)) * P * (A - q)) * S := by
    simp only [halley, trig_sqrt, cube, hec]
    rfl
  have h2 : (halley E p z).2 = q *
      ((P * (A * A * A) - E.e2 * (q * P * (q * P) * (q * P))) * (P * (A * A * A) - E.e2 * (q * P * (q * P) * (q * P)))
        - (E.e2 * E.e2 * 1.5 * (S * S) * (q * P * (q * P)) * P * (A - q)) * (q * P)) := by
    simp only [halley, trig_sqrt, cube, hec]
    rfl
  rw [h1, h2]
  refine ⟨mul_pos hq0 core.1, core.2.1, fun hz' => core.2.2 (div_pos hz' ha)⟩


theorem absOf_nonneg (z : ℝ) : 0 ≤ absOf z := by unfold absOf; split <;> linarith
theorem absOf_sq (z : ℝ) : absOf z * absOf z = z * z := by unfold absOf; split <;> ring
theorem absOf_pos {z : ℝ} (h : z ≠ 0) : 0 < absOf z := by
  unfold absOf; split
  · linarith
  · rename_i h'; exact lt_of_le_of_ne (not_lt.1 h') (Ne.symm h)
theorem signOf_pos {z : ℝ} (h : 0 < z) : signOf z = 1 := by
  unfold signOf; simp [h, not_lt.2 h.le]
theorem signOf_neg' {z : ℝ} (h : z < 0) : signOf z = -1 := by unfold signOf; simp [h]
theorem signOf_zero : signOf (0 : ℝ) = 0 := by unfold signOf; simp

/-- **the latitude has the sign of `z` at every height** (pole branch and Halley branch alike), is `0` exactly on
the equatorial plane, and lies in `[-π/2, π/2]` -/
theorem trs2llh_lat_sign (E : Ellipsoid ℝ) (hE : Mild E) (v : V3 ℝ)
    (hdeep : (E.e2 * (1 - E.f) * E.a) ^ 2 < (1 - E.f) ^ 2 * (v.x * v.x + v.y * v.y) + v.z * v.z) :
    (0 < v.z → 0 < (trs2llh E v).lat ∧ (trs2llh E v).lat ≤ Real.pi / 2) ∧
    (v.z < 0 → (trs2llh E v).lat < 0 ∧ -(Real.pi / 2) ≤ (trs2llh E v).lat) ∧
    (v.z = 0 → (trs2llh E v).lat = 0) := by
  have hpi : 0 < Real.pi / 2 := by positivity
  by_cases hpole : v.x * v.x + v.y * v.y ≤ E.a * E.a * 1e-32
  · have hlat : (trs2llh E v).lat = Real.pi / 2 * signOf v.z := by
      simp only [trs2llh, latHeightOf, hpole, if_true, trig_pi]; norm_num
    refine ⟨fun h => ?_, fun h => ?_, fun h => ?_⟩
    · rw [hlat, signOf_pos h]; constructor <;> linarith
    · rw [hlat, signOf_neg' h]; constructor <;> linarith
    · rw [hlat, h, signOf_zero, mul_zero]
  · have hp2 : 0 < v.x * v.x + v.y * v.y := by
      have : (0:ℝ) ≤ E.a * E.a * 1e-32 := by have := hE.ha; positivity
      linarith [not_le.1 hpole]
    set p := Real.sqrt (v.x * v.x + v.y * v.y) with hp
    have hp0 : 0 < p := Real.sqrt_pos.2 hp2
    have hpp : p * p = v.x * v.x + v.y * v.y := Real.mul_self_sqrt hp2.le
    have hd : (E.e2 * (1 - E.f) * E.a) ^ 2 < (1 - E.f) ^ 2 * (p * p) + absOf v.z * absOf v.z := by
      rw [hpp, absOf_sq]; exact hdeep
    obtain ⟨hcc, hs0, hs1⟩ := halley_pos E hE p (absOf v.z) hp0 (absOf_nonneg _) hd
    have hlat : (trs2llh E v).lat =
        Real.arctan ((halley E p (absOf v.z)).1 / (halley E p (absOf v.z)).2) * signOf v.z := by
      simp only [trs2llh, latHeightOf, hpole, if_false, trig_atan, trig_sqrt, ← hp]
    have hub := Real.arctan_lt_pi_div_two ((halley E p (absOf v.z)).1 / (halley E p (absOf v.z)).2)
    refine ⟨fun h => ?_, fun h => ?_, fun h => ?_⟩
    · have := Real.arctan_pos.2 (div_pos (hs1 (absOf_pos h.ne')) hcc)
      rw [hlat, signOf_pos h, mul_one]; exact ⟨this, hub.le⟩
    · have := Real.arctan_pos.2 (div_pos (hs1 (absOf_pos h.ne)) hcc)
      rw [hlat, signOf_neg' h]; constructor <;> linarith
    · rw [hlat, h, signOf_zero, mul_zero]

/-- the ±180° meridian: `y = 0`, `x < 0` gives longitude `π` exactly, on every ellipsoid at every height -/
theorem trs2llh_meridian180 (E : Ellipsoid ℝ) (x z : ℝ) (hx : x < 0) : (trs2llh E ⟨x, 0, z⟩).lon = Real.pi := by
  show Trig.atan2 (0 : ℝ) x = Real.pi
  rw [trig_atan2, Complex.arg_eq_pi_iff]; exact ⟨hx, rfl⟩

/-- the 0° meridian and the longitude range -/
theorem trs2llh_lon_range (E : Ellipsoid ℝ) (v : V3 ℝ) :
    -Real.pi < (trs2llh E v).lon ∧ (trs2llh E v).lon ≤ Real.pi := by
  show -Real.pi < Trig.atan2 v.y v.x ∧ Trig.atan2 v.y v.x ≤ Real.pi
  rw [trig_atan2]; exact ⟨Complex.neg_pi_lt_arg _, Complex.arg_le_pi _⟩

/-- **the longitude of a round trip is exact at every height**: for `λ ∈ (−π, π]`, `cos φ > 0` and `h > −a`,
`trs2llh (llh2trs (φ, λ, h))` has longitude `λ` -/
theorem roundtrip_lon (E : Ellipsoid ℝ) (ha : 0 < E.a) (hf0 : 0 ≤ E.f) (hf1 : E.f < 1) (g : LLH ℝ)
    (hlon : g.lon ∈ Set.Ioc (-Real.pi) Real.pi) (hcos : 0 < Real.cos g.lat) (hh : -E.a < g.h) :
    (trs2llh E (llh2trs E g)).lon = g.lon := by
  set w := (1 - E.f) * (1 - E.f) with hw
  have hw0 : 0 < w := by have : 0 < 1 - E.f := by linarith
                         positivity
  have hw1 : w ≤ 1 := by rw [hw]; nlinarith
  set rad := Real.cos g.lat * Real.cos g.lat + w * (Real.sin g.lat * Real.sin g.lat) with hrad
  have hcs := Real.sin_sq_add_cos_sq g.lat
  have hrad0 : 0 < rad := by rw [hrad]; nlinarith [mul_self_nonneg (Real.sin g.lat), mul_pos hcos hcos]
  have hrad1 : rad ≤ 1 := by rw [hrad]; nlinarith [mul_self_nonneg (Real.sin g.lat)]
  have hs0 : 0 < Real.sqrt rad := Real.sqrt_pos.2 hrad0
  have hs1 : Real.sqrt rad ≤ 1 := by rw [← Real.sqrt_one]; exact Real.sqrt_le_sqrt hrad1
  have hac : E.a ≤ E.a / Real.sqrt rad := by rw [le_div_iff₀ hs0]; nlinarith
  have hk : 0 < (E.a / Real.sqrt rad + g.h) * Real.cos g.lat := mul_pos (by linarith) hcos
  have := atan2_pos_mul ((E.a / Real.sqrt rad + g.h) * Real.cos g.lat) g.lon hk hlon
  simpa only [trs2llh, llh2trs, llh2trsCS, trig_cos, trig_sin, trig_sqrt] using this


/-- the equatorial plane is exact at every height: `z = 0` gives latitude 0 and height `p − a` -/
theorem trs2llh_equator (E : Ellipsoid ℝ) (hE : Mild E) (x y : ℝ)
    (hoff : ¬ x * x + y * y ≤ E.a * E.a * 1e-32)
    (hdeep : (E.e2 * (1 - E.f) * E.a) ^ 2 < (1 - E.f) ^ 2 * (x * x + y * y)) :
    (trs2llh E ⟨x, y, 0⟩).lat = 0 ∧ (trs2llh E ⟨x, y, 0⟩).h = Real.sqrt (x * x + y * y) - E.a := by
  have hp2 : 0 < x * x + y * y := by
    have : (0:ℝ) ≤ E.a * E.a * 1e-32 := by have := hE.ha; positivity
    linarith [not_le.1 hoff]
  set p := Real.sqrt (x * x + y * y) with hp
  have hp0 : 0 < p := Real.sqrt_pos.2 hp2
  have hpp : p * p = x * x + y * y := Real.mul_self_sqrt hp2.le
  have hd : (E.e2 * (1 - E.f) * E.a) ^ 2 < (1 - E.f) ^ 2 * (p * p) + (0:ℝ) * 0 := by rw [hpp]; simpa using hdeep
  obtain ⟨hcc, _, _⟩ := halley_pos E hE p 0 hp0 le_rfl hd
  have habs : absOf (0 : ℝ) = 0 := by unfold absOf; simp
  have hs1 : (halley E p 0).1 = 0 := by simp [halley, cube]
  constructor
  · simp only [trs2llh, signOf_zero, mul_zero]
  · simp only [trs2llh, latHeightOf, hoff, if_false, trig_sqrt, ← hp, habs, halleyHeight, hs1]
    set cc := (halley E p 0).2 with hccd
    have h1 : Real.sqrt ((1 - E.e2) * (0 * 0) + cc * cc) = cc := by
      rw [show (1 - E.e2) * (0 * 0) + cc * cc = cc ^ 2 by ring, Real.sqrt_sq hcc.le]
    have h2 : Real.sqrt (0 * 0 + cc * cc) = cc := by
      rw [show (0:ℝ) * 0 + cc * cc = cc ^ 2 by ring, Real.sqrt_sq hcc.le]
    rw [h1, h2]; field_simp; ring

/-- the tangential offset `R` of the one-step answer (the model function `tangentialOffsetOf`, which the driver
executes at `Float`, at `ℝ`): the component of `input − foot(φ₁)` along the meridian tangent at the computed latitude
`φ₁` (`tan φ₁ = s1/cc`); `R = 0` iff `φ₁` is the exact geodetic latitude -/
noncomputable def tangentialOffset (E : Ellipsoid ℝ) (p z : ℝ) : ℝ := tangentialOffsetOf E p z

/-- meridian-plane identity behind the residual theorem: with `cos φ = cc/D`, `sin φ = s1/D`, the height formula of
`_trs2llh` and `llh2trs` give back `(p + R·s1/D, z − R·cc/D)` -/
theorem meridian_residual (a f e2 p z s1 cc D W : ℝ) (hD : 0 < D) (hW : 0 < W)
    (hDD : D * D = s1 * s1 + cc * cc) (hWW : W * W = (1 - e2) * (s1 * s1) + cc * cc)
    (hw : (1 - f) * (1 - f) = 1 - e2)
    (hrad : Real.sqrt (cc / D * (cc / D) + (1 - f) * (1 - f) * (s1 / D * (s1 / D))) = W / D) :
    let h := (p * cc + z * s1 - a * W) / D
    let R := (z * cc - p * s1) / D + e2 * a * s1 * cc / (D * W)
    (a / Real.sqrt (cc / D * (cc / D) + (1 - f) * (1 - f) * (s1 / D * (s1 / D))) + h) * (cc / D) = p + R * s1 / D ∧
    ((1 - f) * (1 - f) * (a / Real.sqrt (cc / D * (cc / D) + (1 - f) * (1 - f) * (s1 / D * (s1 / D)))) + h) * (s1 / D)
      = z - R * cc / D := by
  intro h R
  rw [hrad, hw]
  have hD' := hD.ne'
  have hW' := hW.ne'
  constructor
  · simp only [h, R]
    field_simp
    linear_combination (cc * a - W * p) * hDD - (cc * a) * hWW
  · simp only [h, R]
    field_simp
    linear_combination (-(W*z) + a*s1*(1-e2)) * hDD - (a*s1) * hWW


/-- **the round-trip error of the one-step scheme in closed form** (northern half space; the southern one is its
mirror image by `trs2llh_reflect_z`): `llh2trs (trs2llh v)` differs from `v` exactly by the tangential offset `R` along
the meridian tangent at the computed latitude — radially by `R·sin φ₁`, in `z` by `−R·cos φ₁` — so the distance between
`llh2trs (trs2llh v)` and `v` is `|R|`; the longitude contributes nothing -/
theorem roundtrip_residual (E : Ellipsoid ℝ) (hE : Mild E) (v : V3 ℝ)
    (hoff : ¬ v.x * v.x + v.y * v.y ≤ E.a * E.a * 1e-32) (hz : 0 < v.z)
    (hdeep : (E.e2 * (1 - E.f) * E.a) ^ 2 < (1 - E.f) ^ 2 * (v.x * v.x + v.y * v.y) + v.z * v.z) :
    ∃ k : ℝ, ∃ c : ℝ,   -- k = R·sin φ₁ / p,  c = R·cos φ₁
      llh2trs E (trs2llh E v) = ⟨v.x * (1 + k), v.y * (1 + k), v.z - c⟩ ∧
      (v.x * k) ^ 2 + (v.y * k) ^ 2 + c ^ 2 = (tangentialOffset E (Real.sqrt (v.x * v.x + v.y * v.y)) v.z) ^ 2 := by
  obtain ⟨ha, hf0, hf⟩ := id hE
  have hp2 : 0 < v.x * v.x + v.y * v.y := by
    have : (0:ℝ) ≤ E.a * E.a * 1e-32 := by positivity
    linarith [not_le.1 hoff]
  set p := Real.sqrt (v.x * v.x + v.y * v.y) with hp
  have hp0 : 0 < p := Real.sqrt_pos.2 hp2
  have hpp : p * p = v.x * v.x + v.y * v.y := Real.mul_self_sqrt hp2.le
  have habs : absOf v.z = v.z := by unfold absOf; simp [not_lt.2 hz.le]
  have hd : (E.e2 * (1 - E.f) * E.a) ^ 2 < (1 - E.f) ^ 2 * (p * p) + v.z * v.z := by rw [hpp]; exact hdeep
  obtain ⟨hcc, hs0, _⟩ := halley_pos E hE p v.z hp0 hz.le hd
  set s1 := (halley E p v.z).1 with hs1d
  set cc := (halley E p v.z).2 with hccd
  set D := Real.sqrt (s1 * s1 + cc * cc) with hDd
  have hD0 : 0 < D := Real.sqrt_pos.2 (by positivity)
  have hDD : D * D = s1 * s1 + cc * cc := Real.mul_self_sqrt (by positivity)
  have he2 : E.e2 = 1 - (1 - E.f) ^ 2 := e2_eq E ha.ne'
  have hw : (1 - E.f) * (1 - E.f) = 1 - E.e2 := by rw [he2]; ring
  have hw0 : 0 < 1 - E.e2 := by
    rw [← hw]
    have : 0 < 1 - E.f := by linarith
    positivity
  set W := Real.sqrt ((1 - E.e2) * (s1 * s1) + cc * cc) with hWd
  have hWrad : 0 < (1 - E.e2) * (s1 * s1) + cc * cc := by positivity
  have hW0 : 0 < W := Real.sqrt_pos.2 hWrad
  have hWW : W * W = (1 - E.e2) * (s1 * s1) + cc * cc := Real.mul_self_sqrt hWrad.le
  have hrad : Real.sqrt (cc / D * (cc / D) + (1 - E.f) * (1 - E.f) * (s1 / D * (s1 / D))) = W / D := by
    rw [hw, show cc / D * (cc / D) + (1 - E.e2) * (s1 / D * (s1 / D)) = (W / D) ^ 2 by
      rw [div_pow, pow_two W, hWW]; field_simp; ring]
    exact Real.sqrt_sq (by positivity)
  -- cos / sin of the computed latitude
  have h1t : Real.sqrt (1 + (s1 / cc) ^ 2) = D / cc := by
    rw [show 1 + (s1 / cc) ^ 2 = (D / cc) ^ 2 by rw [div_pow, div_pow, pow_two D, hDD]; field_simp; ring]
    exact Real.sqrt_sq (by positivity)
  have hcos : Real.cos (Real.arctan (s1 / cc)) = cc / D := by rw [Real.cos_arctan, h1t]; field_simp
  have hsin : Real.sin (Real.arctan (s1 / cc)) = s1 / D := by rw [Real.sin_arctan, h1t]; field_simp
  -- cos / sin of the longitude
  have hne : (⟨v.x, v.y⟩ : ℂ) ≠ 0 := by
    intro h; have := congrArg Complex.normSq h
    simp [Complex.normSq_mk] at this; linarith
  have hnorm : ‖(⟨v.x, v.y⟩ : ℂ)‖ = p := by rw [Complex.norm_def, Complex.normSq_mk]
  have hco : Real.cos (Complex.arg ⟨v.x, v.y⟩) = v.x / p := by rw [Complex.cos_arg hne, hnorm]
  have hso : Real.sin (Complex.arg ⟨v.x, v.y⟩) = v.y / p := by rw [Complex.sin_arg, hnorm]
  have hlat : (trs2llh E v).lat = Real.arctan (s1 / cc) := by
    simp only [trs2llh, latHeightOf, hoff, if_false, trig_atan, trig_sqrt, ← hp, habs, signOf_pos hz, mul_one]
    try rfl
  have hlon : (trs2llh E v).lon = Complex.arg ⟨v.x, v.y⟩ := by simp only [trs2llh, trig_atan2]
  have hh : (trs2llh E v).h = (p * cc + v.z * s1 - E.a * W) / D := by
    simp only [trs2llh, latHeightOf, hoff, if_false, trig_sqrt, ← hp, habs, halleyHeight]
    try rfl
  obtain ⟨hr, hzz⟩ := meridian_residual E.a E.f E.e2 p v.z s1 cc D W hD0 hW0 hDD hWW hw hrad
  have hR : tangentialOffset E p v.z = (v.z * cc - p * s1) / D + E.e2 * E.a * s1 * cc / (D * W) := rfl
  set R := tangentialOffset E p v.z with hRd
  refine ⟨R * s1 / D / p, R * cc / D, ?_, ?_⟩
  · simp only [llh2trs, llh2trsCS, trig_cos, trig_sin, trig_sqrt, hlat, hlon, hh, hcos, hsin, hco, hso]
    rw [hR] at *
    apply V3.ext'
    · show _ * (v.x / p) = _
      rw [hr]; field_simp
    · show _ * (v.y / p) = _
      rw [hr]; field_simp
    · exact hzz
  · have : (v.x * (R * s1 / D / p)) ^ 2 + (v.y * (R * s1 / D / p)) ^ 2 + (R * cc / D) ^ 2
        = R ^ 2 * ((v.x * v.x + v.y * v.y) / (p * p) * (s1 * s1) + cc * cc) / (D * D) := by
      field_simp
    rw [this, ← hpp, hDD]
    field_simp


/-- `llh2trs` of the mirrored latitude is the mirror image -/
theorem llh2trs_neg_lat (E : Ellipsoid ℝ) (lat lon h : ℝ) :
    llh2trs E ⟨-lat, lon, h⟩ =
      ⟨(llh2trs E ⟨lat, lon, h⟩).x, (llh2trs E ⟨lat, lon, h⟩).y, -(llh2trs E ⟨lat, lon, h⟩).z⟩ := by
  have hsq : -Real.sin lat * -Real.sin lat = Real.sin lat * Real.sin lat := neg_mul_neg _ _
  simp only [llh2trs, llh2trsCS, trig_cos, trig_sin, Real.cos_neg, Real.sin_neg, hsq, mul_neg]

/-- `trs2llh` of the mirrored point: latitude negated, longitude and height unchanged -/
theorem trs2llh_neg_z (E : Ellipsoid ℝ) (x y z : ℝ) :
    trs2llh E ⟨x, y, -z⟩ = ⟨-(trs2llh E ⟨x, y, z⟩).lat, (trs2llh E ⟨x, y, z⟩).lon, (trs2llh E ⟨x, y, z⟩).h⟩ := by
  have ha : absOf (-z) = absOf z := by
    unfold absOf
    rcases lt_trichotomy z 0 with h | h | h
    · have : ¬ (-z < 0) := by linarith
      simp [h, this]
    · simp [h]
    · have h' : -z < 0 := by linarith
      have : ¬ (z < 0) := by linarith
      simp [h', this]
  have hs : signOf (-z) = -signOf z := by
    unfold signOf
    rcases lt_trichotomy z 0 with h | h | h
    · have h1 : ¬ (-z < 0) := by linarith
      have h2 : 0 < -z := by linarith
      simp [h, h1, h2]
    · simp [h]
    · have h1 : -z < 0 := by linarith
      have h2 : ¬ (z < 0) := by linarith
      simp [h, h1, h2]
  simp only [trs2llh, ha, hs, mul_neg]

/-- the southern half space: the mirror image of `roundtrip_residual` -/
theorem roundtrip_residual_south (E : Ellipsoid ℝ) (hE : Mild E) (v : V3 ℝ)
    (hoff : ¬ v.x * v.x + v.y * v.y ≤ E.a * E.a * 1e-32) (hz : v.z < 0)
    (hdeep : (E.e2 * (1 - E.f) * E.a) ^ 2 < (1 - E.f) ^ 2 * (v.x * v.x + v.y * v.y) + v.z * v.z) :
    ∃ k : ℝ, ∃ c : ℝ,
      llh2trs E (trs2llh E v) = ⟨v.x * (1 + k), v.y * (1 + k), v.z + c⟩ ∧
      (v.x * k) ^ 2 + (v.y * k) ^ 2 + c ^ 2 = (tangentialOffset E (Real.sqrt (v.x * v.x + v.y * v.y)) (-v.z)) ^ 2 := by
  have hd : (E.e2 * (1 - E.f) * E.a) ^ 2 < (1 - E.f) ^ 2 * (v.x * v.x + v.y * v.y) + (-v.z) * (-v.z) := by
    rw [neg_mul_neg]; exact hdeep
  obtain ⟨k, c, h1, h2⟩ := roundtrip_residual E hE ⟨v.x, v.y, -v.z⟩ hoff (by show 0 < -v.z; linarith) hd
  refine ⟨k, c, ?_, h2⟩
  have hv : v = ⟨v.x, v.y, -(-v.z)⟩ := by cases v; simp
  rw [hv, trs2llh_neg_z, llh2trs_neg_lat]
  have h1' : llh2trs E ⟨(trs2llh E ⟨v.x, v.y, -v.z⟩).lat, (trs2llh E ⟨v.x, v.y, -v.z⟩).lon, (trs2llh E ⟨v.x, v.y, -v.z⟩).h⟩
      = ⟨v.x * (1 + k), v.y * (1 + k), -v.z - c⟩ := h1
  rw [h1']
  apply V3.ext' <;> simp
  ring

/-- the equatorial plane: the round trip is the identity at every height -/
theorem equator_roundtrip (E : Ellipsoid ℝ) (hE : Mild E) (x y : ℝ)
    (hoff : ¬ x * x + y * y ≤ E.a * E.a * 1e-32)
    (hdeep : (E.e2 * (1 - E.f) * E.a) ^ 2 < (1 - E.f) ^ 2 * (x * x + y * y)) :
    llh2trs E (trs2llh E ⟨x, y, 0⟩) = ⟨x, y, 0⟩ := by
  obtain ⟨hlat, hh⟩ := trs2llh_equator E hE x y hoff hdeep
  have hp2 : 0 < x * x + y * y := by
    have : (0:ℝ) ≤ E.a * E.a * 1e-32 := by have := hE.ha; positivity
    linarith [not_le.1 hoff]
  set p := Real.sqrt (x * x + y * y) with hp
  have hp0 : 0 < p := Real.sqrt_pos.2 hp2
  have hne : (⟨x, y⟩ : ℂ) ≠ 0 := by
    intro h; have := congrArg Complex.normSq h
    simp [Complex.normSq_mk] at this; linarith
  have hnorm : ‖(⟨x, y⟩ : ℂ)‖ = p := by rw [Complex.norm_def, Complex.normSq_mk]
  have hco : Real.cos (Complex.arg ⟨x, y⟩) = x / p := by rw [Complex.cos_arg hne, hnorm]
  have hso : Real.sin (Complex.arg ⟨x, y⟩) = y / p := by rw [Complex.sin_arg, hnorm]
  have hlon : (trs2llh E ⟨x, y, 0⟩).lon = Complex.arg ⟨x, y⟩ := by simp only [trs2llh, trig_atan2]
  have ha := hE.ha
  simp only [llh2trs, llh2trsCS, trig_cos, trig_sin, trig_sqrt, hlat, hlon, hh, hco, hso, Real.cos_zero, Real.sin_zero]
  apply V3.ext' <;> simp <;> field_simp


/-- **the exact geodetic latitude is the zero of the tangential offset**: for the point at geodetic `(φ, h)` —
`p = (N + h) cos φ`, `z = (N(1 − e²) + h) sin φ`, `N = a/√(1 − e² sin² φ)` — and any positive multiple `(k sin φ, k cos φ)`
of the exact `(sin, cos)`, `offsetAt` vanishes; so `R = tangentialOffset` measures nothing but the latitude error of the
single Halley step -/
theorem offsetAt_true_latitude (E : Ellipsoid ℝ) (he0 : 0 ≤ E.e2) (he1 : E.e2 < 1) (s c h k : ℝ)
    (hsc : s ^ 2 + c ^ 2 = 1) (hk : 0 < k) :
    let N := E.a / Real.sqrt (1 - E.e2 * s ^ 2)
    offsetAt E ((N + h) * c) ((N * (1 - E.e2) + h) * s) (k * s) (k * c) = 0 := by
  intro N
  have hs2 : s ^ 2 ≤ 1 := by nlinarith [sq_nonneg c]
  have hrad : 0 < 1 - E.e2 * s ^ 2 := by nlinarith [sq_nonneg s]
  set w := Real.sqrt (1 - E.e2 * s ^ 2) with hw
  have hw0 : 0 < w := Real.sqrt_pos.2 hrad
  have hD : Real.sqrt (k * s * (k * s) + k * c * (k * c)) = k := by
    rw [show k * s * (k * s) + k * c * (k * c) = k ^ 2 by linear_combination (k ^ 2) * hsc]
    exact Real.sqrt_sq hk.le
  have hW : Real.sqrt ((1 - E.e2) * (k * s * (k * s)) + k * c * (k * c)) = k * w := by
    rw [show (1 - E.e2) * (k * s * (k * s)) + k * c * (k * c) = k ^ 2 * (1 - E.e2 * s ^ 2) by
      linear_combination (k ^ 2) * hsc]
    rw [Real.sqrt_mul (by positivity), Real.sqrt_sq hk.le]
  simp only [offsetAt, trig_sqrt, hD, hW, N]
  field_simp
  ring

/-- the start value of the scheme, `T₀ = (|z|/a) / (√(1−e²)·p/a)`, against the exact tangent of the reduced latitude
`q·tan φ` (`q = √(1−e²)`): the error is exactly `e²·h·tan φ / (q·(N + h))` — zero on the surface and on the sphere -/
theorem start_value_error (a q N h s c : ℝ) (ha : a ≠ 0) (hq : q ≠ 0) (hc : c ≠ 0) (hNh : N + h ≠ 0) :
    ((N * q ^ 2 + h) * s / a) / (q * ((N + h) * c / a)) - q * (s / c) = (1 - q ^ 2) * h * s / (q * (N + h) * c) := by
  field_simp
  ring

end Midgard.Geo.Acc
