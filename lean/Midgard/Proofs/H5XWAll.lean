/-
C10 — what `Dataset.write` puts into the file, for the model with the `time` attribute of positions (`writeDSX`): the
statements of `Proofs/H5W2All.lean` / `H5W2DS.lean` over `writeArrX` (generated from them by renaming, the leaf case and
the file-level node property are new).
-/
import Midgard.Proofs.H5XW

namespace Midgard.H5
open Midgard.Dataset

theorem writeFieldsX_names (h : Heap) (tm : TM) (lvl : Nat) : ∀ (fs : List Field) (pre : Path) (memo : WMemo)
    (groups : List (String × Grp)) (mem : List (String × Option Kind)) (memo' : WMemo),
    writeFieldX.writeFieldsX h tm lvl fs pre memo = .ok (groups, mem, memo') →
    groups.map (·.1) = (restrictFields lvl fs).map Field.name ∧
    mem = (restrictFields lvl fs).map (fun f => (f.name, fieldType f))
  | [], pre, memo, groups, mem, memo', hw => by
    simp only [writeFieldX.writeFieldsX, Except.ok.injEq, Prod.mk.injEq] at hw
    obtain ⟨rfl, rfl, _⟩ := hw
    simp [restrictFields]
  | f :: fs, pre, memo, groups, mem, memo', hw => by
    simp only [writeFieldX.writeFieldsX] at hw
    split at hw
    · rename_i hlt
      have ih := writeFieldsX_names h tm lvl fs pre memo groups mem memo' hw
      have : restrictFields lvl (f :: fs) = restrictFields lvl fs := by
        cases f <;> simp [restrictFields, hlt]
      rw [this]; exact ih
    · rename_i hlt
      split at hw
      · simp at hw
      · rename_i g memo1 _
        split at hw
        · simp at hw
        · rename_i subs mem2 memo2 hrest
          simp only [Except.ok.injEq, Prod.mk.injEq] at hw
          obtain ⟨rfl, rfl, _⟩ := hw
          have ih := writeFieldsX_names h tm lvl fs pre memo1 subs mem2 memo2 hrest
          cases f with
          | leaf nm k o no u l =>
            have : restrictFields lvl (Field.leaf nm k o no u l :: fs) =
                Field.leaf nm k o no u l :: restrictFields lvl fs := by simp [restrictFields, hlt]
            rw [this]
            simp only [List.map_cons, ih.1, ih.2, Field.name, fieldType, and_self]
          | coll nm no l sub =>
            have : restrictFields lvl (Field.coll nm no l sub :: fs) =
                Field.coll nm no l (restrictFields lvl sub) :: restrictFields lvl fs := by simp [restrictFields, hlt]
            rw [this]
            simp only [List.map_cons, ih.1, ih.2, Field.name, fieldType, and_self]


/-! ### what the loop over the fields guarantees -/

structure WLX (h : Heap) (tm : TM) (fs : List Field) (pre : Path) (memo : WMemo) (groups : List (String × Grp)) (memo' : WMemo) :
    Prop where
  rep : RepG.RepGL (fun o name => memo'.lookup o = some name) fs pre groups
  stable : Stable memo memo'
  newIn : ∀ x q, memo'.lookup x = some q → memo.lookup x = some q ∨ ∃ g', (q, g') ∈ Grp.nodes.nodesL pre groups ∧ g'.src = x
  node : ∀ q g', (q, g') ∈ Grp.nodes.nodesL pre groups → NodeW (fun q x => memo'.lookup x = some q) h tm q g'
  own : ∀ q g', (q, g') ∈ Grp.nodes.nodesL pre groups → memo'.lookup g'.src = some q
  names : NamesOKG.NamesOKL groups
  written : ∀ e ∈ leafPaths fs pre, memo.lookup e.1 = some e.2 → ∃ g', (e.2, g') ∈ Grp.nodes.nodesL pre groups ∧ g'.src = e.1

theorem WLX.nil (h : Heap) (tm : TM) (pre : Path) (memo : WMemo) : WLX h tm [] pre memo [] memo where
  rep := by simp [RepG.RepGL]
  stable := Stable.refl _
  newIn := fun _ _ hx => Or.inl hx
  node := by intro q g' hm; simp [Grp.nodes.nodesL] at hm
  own := by intro q g' hm; simp [Grp.nodes.nodesL] at hm
  names := by simp [NamesOKG.NamesOKL]
  written := by intro e he; simp [leafPaths] at he

/-- one field, then the others -/
theorem WLX.cons {h : Heap} {tm : TM} {f : Field} {fs : List Field} {pre : Path} {memo memo1 memo2 : WMemo} {g : Grp}
    {groups : List (String × Grp)}
    (w1 : WLX h tm [f] pre memo [(f.name, g)] memo1) (w2 : WLX h tm fs pre memo1 groups memo2)
    (hname : f.name ∉ Midgard.Dataset.names fs) : WLX h tm (f :: fs) pre memo ((f.name, g) :: groups) memo2 := by
  have hg1 : ∃ g1 r1, [(f.name, g)] = (f.name, g1) :: r1 ∧ RepG (fun o name => memo1.lookup o = some name) f pre g1 ∧
      RepG.RepGL (fun o name => memo1.lookup o = some name) [] pre r1 := by
    simpa only [RepG.RepGL] using w1.rep
  obtain ⟨g1, r1, he, hrf, _⟩ := hg1
  have : g1 = g := by simp at he; exact he.1.symm
  subst this
  refine ⟨?_, w1.stable.trans w2.stable, ?_, ?_, ?_, ?_, ?_⟩
  · simp only [RepG.RepGL]
    exact ⟨g1, groups, rfl, RepG.mono f pre g1 (fun o _ n hn => w2.stable o n hn) hrf, w2.rep⟩
  · intro x q hx
    rw [nodesL_cons]
    rcases w2.newIn x q hx with hx | ⟨g', hg', hs⟩
    · rcases w1.newIn x q hx with hx | ⟨g', hg', hs⟩
      · exact Or.inl hx
      · exact Or.inr ⟨g', List.mem_append_left _ hg', hs⟩
    · exact Or.inr ⟨g', List.mem_append_right _ hg', hs⟩
  · intro q g' hm
    rw [nodesL_cons] at hm
    rcases List.mem_append.mp hm with hm | hm
    · exact (w1.node q g' hm).mono (fun q x hx => w2.stable x q hx)
    · exact w2.node q g' hm
  · intro q g' hm
    rw [nodesL_cons] at hm
    rcases List.mem_append.mp hm with hm | hm
    · exact w2.stable _ _ (w1.own q g' hm)
    · exact w2.own q g' hm
  · simp only [NamesOKG.NamesOKL]
    have hn1 : NamesOKG g1 := by
      have := w1.names
      simp only [NamesOKG.NamesOKL] at this
      exact this.1
    refine ⟨hn1, ?_, w2.names⟩
    intro e he heq
    apply hname
    rw [← RepGL_names fs pre groups w2.rep]
    exact List.mem_map.mpr ⟨e, he, heq⟩
  · intro e he hlk
    rw [leafPaths_cons] at he
    rw [nodesL_cons]
    rcases List.mem_append.mp he with he | he
    · obtain ⟨g', hg', hs⟩ := w1.written e he hlk
      exact ⟨g', List.mem_append_left _ hg', hs⟩
    · obtain ⟨g', hg', hs⟩ := w2.written e he (w1.stable _ _ hlk)
      exact ⟨g', List.mem_append_right _ hg', hs⟩

/-! ### one field -/

theorem writeArrX_attrs (h : Heap) (tm : TM) : ∀ (fuel : Nat) (u : Option (List String)) (l : Nat) (o : Nat) (p : Path)
    (memo : WMemo) (g : Grp) (memo' : WMemo), writeArrX h tm u l fuel o p memo = .ok (g, memo') →
    g.attrs.unit = u ∧ g.attrs.level = l ∧ g.attrs.sameAs = none
  | 0, _, _, _, _, _, _, _, hw => by simp [writeArrX] at hw
  | fuel + 1, u, l, o, p, memo, g, memo', hw => by
    simp only [writeArrX] at hw
    split at hw
    · simp at hw
    · split at hw
      · cases hw; exact ⟨rfl, rfl, rfl⟩
      · split at hw
        · simp at hw
        · split at hw
          · simp at hw
          · cases hw; exact ⟨rfl, rfl, rfl⟩

/-- the heap conditions for the model with `time`: references point to older objects, a `time` is a time object -/
structure HeapX (h : Heap) (tm : TM) : Prop where
  below : Below h
  tmOK : ∀ o t, tmE h tm o = some t → ∃ tb, h[t]? = some tb ∧ tb.kind = .time

theorem slotWrite_total {rec : Nat → Path → WMemo → M (Grp × WMemo)} (p : Path) (nm : String) (x : Option Nat) (memo : WMemo)
    (hrec : ∀ y, x = some y → ∀ q m, ∃ g m', rec y q m = .ok (g, m')) :
    ∃ r, slotWrite rec p nm x memo = .ok r := by
  cases x with
  | none => exact ⟨_, rfl⟩
  | some y =>
    simp only [slotWrite]
    split
    · exact ⟨_, rfl⟩
    · obtain ⟨g, m', hw⟩ := hrec y rfl (p ++ [nm]) ((y, p ++ [nm]) :: memo)
      rw [hw]
      exact ⟨_, rfl⟩

theorem writeArrX_total (h : Heap) (tm : TM) (hx : HeapX h tm) : ∀ (fuel : Nat) (u : Option (List String)) (l : Nat) (o : Nat)
    (p : Path) (memo : WMemo) (ob : Obj), h[o]? = some ob → (attrName ob.kind = none ∧ 1 ≤ fuel ∨ o + 2 ≤ fuel) →
    ∃ g memo', writeArrX h tm u l fuel o p memo = .ok (g, memo')
  | 0, _, _, _, _, _, _, _, hf => by omega
  | fuel + 1, u, l, o, p, memo, ob, hob, hf => by
    simp only [writeArrX, hob]
    cases hat : attrName ob.kind with
    | none => exact ⟨_, _, rfl⟩
    | some nm =>
      have hfu : o + 2 ≤ fuel + 1 := by
        rcases hf with ⟨hn, _⟩ | hf
        · rw [hat] at hn; cases hn
        · exact hf
      simp only
      obtain ⟨⟨r1, subs1, memo1⟩, hs1⟩ := slotWrite_total (rec := writeArrX h tm none 3 fuel) p nm ob.ref memo (by
        intro y hy q m
        have hy' : y < o := hx.below o ob y hob hy
        have hyl : y < h.length := by
          have := (List.getElem?_eq_some_iff.mp hob).1; omega
        exact writeArrX_total h tm hx fuel none 3 y q m h[y] (List.getElem?_eq_getElem hyl) (Or.inr (by omega)))
      rw [hs1]
      simp only
      obtain ⟨⟨r2, subs2, memo2⟩, hs2⟩ := slotWrite_total (rec := writeArrX h tm none 3 fuel) p "time"
        (if ob.kind.hasOther then tmOf tm o else none) memo1 (by
        intro y hy q m
        rw [tmE_of hob] at hy
        obtain ⟨tb, htb, hk⟩ := hx.tmOK o y hy
        exact writeArrX_total h tm hx fuel none 3 y q m tb htb (Or.inl ⟨by simp [attrName, hk, Kind.hasOther, Kind.isDelta], by omega⟩))
      rw [hs2]
      exact ⟨_, _, rfl⟩

theorem writeLeaf_specX (h : Heap) (tm : TM) (hx : HeapX h tm) (lvl : Nat) (nm : String) (k : Kind) (o no : Nat)
    (u : Option (List String)) (l : Nat) (pre : Path) (memo : WMemo) (ho : o < h.length) (hk : o ∈ keys memo) :
    ∃ g memo', writeFieldX h tm lvl (.leaf nm k o no u l) pre memo = .ok (g, memo') ∧
      WLX h tm [.leaf nm k o no u l] pre memo [(nm, g)] memo' := by
  obtain ⟨q, hq⟩ : ∃ q, memo.lookup o = some q := by
    cases hl : memo.lookup o with
    | none => exact absurd hk ((lookup_none_iff memo o).mp hl)
    | some q => exact ⟨q, rfl⟩
  by_cases hqp : q = pre ++ [nm]
  · subst hqp
    obtain ⟨g, m', hw⟩ := writeArrX_total h tm hx (h.length + 1) u l o (pre ++ [nm]) memo h[o]
      (List.getElem?_eq_getElem ho) (Or.inr (by omega))
    have sp := writeArrX_spec h tm _ u l o (pre ++ [nm]) memo g m' hw hq
    obtain ⟨a3, a4, a6⟩ := writeArrX_attrs h tm _ u l o _ memo g m' hw
    have hlk : (m'.lookup o).isNone = false := by rw [sp.stable o _ hq]; rfl
    refine ⟨g, m', ?_, ?_⟩
    · simp only [writeFieldX, aliasOf, hq, beq_self_eq_true, if_true, hw, hlk, Bool.false_eq_true, if_false]
    · refine ⟨?_, sp.stable, ?_, ?_, ?_, ?_, ?_⟩
      · simp only [RepG.RepGL, RepG, Field.name]
        exact ⟨g, [], rfl, ⟨sp.src, sp.fn, a3, a4, Or.inl ⟨sp.isArr, a6⟩⟩, rfl⟩
      · rw [nodesL_single]; exact sp.newIn
      · rw [nodesL_single]; exact sp.node
      · rw [nodesL_single]; exact sp.own
      · simp only [NamesOKG.NamesOKL]
        exact ⟨sp.names, by simp, trivial⟩
      · intro e he _
        simp only [leafPaths, List.mem_singleton] at he
        subst he
        rw [nodesL_single]
        exact ⟨g, root_mem_nodes _ sp.isArr, sp.src⟩
  · have hbeq : (q == pre ++ [nm]) = false := by simpa using hqp
    refine ⟨.mk { fieldname := pre ++ [nm], src := o, unit := u, level := l, sameAs := some q } none [], memo, ?_, ?_⟩
    · simp only [writeFieldX, aliasOf, hq, hbeq, Bool.false_eq_true, if_false]
    · have hnodes : ∀ (a0 : GAttrs), Grp.nodes.nodesL pre [(nm, Grp.mk a0 none [])] = [] := by
        intro a0; simp [Grp.nodes.nodesL, Grp.nodes]
      refine ⟨?_, Stable.refl _, fun x q' hx => Or.inl hx, ?_, ?_, ?_, ?_⟩
      · simp only [RepG.RepGL, RepG, Field.name]
        exact ⟨_, [], rfl, ⟨rfl, rfl, rfl, rfl, Or.inr ⟨q, rfl, rfl, hqp, hq⟩⟩, rfl⟩
      · intro q' g' hm; rw [hnodes] at hm; simp at hm
      · intro q' g' hm; rw [hnodes] at hm; simp at hm
      · simp [NamesOKG.NamesOKL, NamesOKG]
      · intro e he hlk
        simp only [leafPaths, List.mem_singleton] at he
        subst he
        simp only at hlk
        rw [hq] at hlk
        exact absurd (Option.some.inj hlk) hqp


/-! ### all fields -/

mutual
theorem writeField_specX (h : Heap) (tm : TM) (hx : HeapX h tm) (lvl : Nat) : ∀ (f : Field) (pre : Path) (memo : WMemo),
    (∀ o ∈ leafObjs [restrictField lvl f], o ∈ keys memo) →
    namesOK [restrictField lvl f] = true → (∀ o ∈ leafObjs [restrictField lvl f], o < h.length) →
    ∃ g memo', writeFieldX h tm lvl f pre memo = .ok (g, memo') ∧
      WLX h tm [restrictField lvl f] pre memo [((restrictField lvl f).name, g)] memo'
  | .leaf nm k o no u l, pre, memo, hp, _, hlt => by
    have ho : o < h.length := hlt o (by simp [restrictField, leafObjs])
    have hk : o ∈ keys memo := hp o (by simp [restrictField, leafObjs])
    exact writeLeaf_specX h tm hx lvl nm k o no u l pre memo ho hk
  | .coll nm no l sub, pre, memo, hp, hn, hlt => by
    have hp' : ∀ o ∈ leafObjs (restrictFields lvl sub), o ∈ keys memo := by
      intro o ho; apply hp; simpa [restrictField, leafObjs] using ho
    have hn' : namesOK (restrictFields lvl sub) = true := by
      simp only [restrictField, namesOK, Midgard.Dataset.names, List.map_nil, List.contains_nil, Bool.not_false,
        Bool.and_true, Bool.true_and] at hn
      exact hn
    have hlt' : ∀ o ∈ leafObjs (restrictFields lvl sub), o < h.length := by
      intro o ho; apply hlt; simpa [restrictField, leafObjs] using ho
    obtain ⟨subs, mem, memo', hw, w⟩ := writeFields_specX h tm hx lvl sub (pre ++ [nm]) memo hp' hn' hlt'
    have hmem := (writeFieldsX_names h tm lvl sub (pre ++ [nm]) memo subs mem memo' hw).2
    refine ⟨Grp.mk { fieldname := [nm], level := l, members := mem } none subs, memo', by simp only [writeFieldX, hw], ?_⟩
    simp only [restrictField, Field.name]
    refine ⟨?_, w.stable, ?_, ?_, ?_, ?_, ?_⟩
    · simp only [RepG.RepGL, RepG]
      exact ⟨_, [], rfl, ⟨subs, by rw [hmem], w.rep⟩, rfl⟩
    · rw [nodesL_single, nodes_coll]; exact w.newIn
    · rw [nodesL_single, nodes_coll]; exact w.node
    · rw [nodesL_single, nodes_coll]; exact w.own
    · simp only [NamesOKG.NamesOKL, NamesOKG]
      exact ⟨w.names, by simp, trivial⟩
    · intro e he hlk
      rw [nodesL_single, nodes_coll]
      apply w.written _ _ hlk
      simpa [leafPaths] using he
theorem writeFields_specX (h : Heap) (tm : TM) (hx : HeapX h tm) (lvl : Nat) : ∀ (fs : List Field) (pre : Path) (memo : WMemo),
    (∀ o ∈ leafObjs (restrictFields lvl fs), o ∈ keys memo) →
    namesOK (restrictFields lvl fs) = true → (∀ o ∈ leafObjs (restrictFields lvl fs), o < h.length) →
    ∃ groups mem memo', writeFieldX.writeFieldsX h tm lvl fs pre memo = .ok (groups, mem, memo') ∧
      WLX h tm (restrictFields lvl fs) pre memo groups memo'
  | [], pre, memo, _, _, _ => by
    refine ⟨[], [], memo, by simp [writeFieldX.writeFieldsX], ?_⟩
    simp only [restrictFields]
    exact WLX.nil h tm pre memo
  | f :: fs, pre, memo, hp, hn, hlt => by
    by_cases hlv : Field.level f < lvl
    · rw [restrict_skip hlv] at hp hn hlt ⊢
      obtain ⟨groups, mem, memo', hw, w⟩ := writeFields_specX h tm hx lvl fs pre memo hp hn hlt
      exact ⟨groups, mem, memo', by simp only [writeFieldX.writeFieldsX, hlv, if_true, hw], w⟩
    · rw [restrict_keep hlv] at hp hn hlt ⊢
      obtain ⟨hname, hn1, hn2⟩ := namesOK_cons _ _ hn
      have hp1 : ∀ o ∈ leafObjs [restrictField lvl f], o ∈ keys memo := by
        intro o ho; apply hp; rw [leafObjs_cons]; exact List.mem_append_left _ ho
      have hp2 : ∀ o ∈ leafObjs (restrictFields lvl fs), o ∈ keys memo := by
        intro o ho; apply hp; rw [leafObjs_cons]; exact List.mem_append_right _ ho
      have hlt1 : ∀ o ∈ leafObjs [restrictField lvl f], o < h.length := by
        intro o ho; apply hlt; rw [leafObjs_cons]; exact List.mem_append_left _ ho
      have hlt2 : ∀ o ∈ leafObjs (restrictFields lvl fs), o < h.length := by
        intro o ho; apply hlt; rw [leafObjs_cons]; exact List.mem_append_right _ ho
      obtain ⟨g, memo1, hw1, w1⟩ := writeField_specX h tm hx lvl f pre memo hp1 hn1 hlt1
      obtain ⟨groups, mem, memo2, hw2, w2⟩ := writeFields_specX h tm hx lvl fs pre memo1
        (promise_keys2 hp2 w1.stable) hn2 hlt2
      refine ⟨(f.name, g) :: groups, _, memo2, by simp only [writeFieldX.writeFieldsX, hlv, if_false, hw1, hw2]; rfl, ?_⟩
      have := WLX.cons w1 w2 hname
      rw [restrictField_name] at this
      exact this
end


/-! ### the file as `Dataset.read` will see it -/

/-- where `_read` finds an attribute: the reference by name `r`, else the embedded sub-group `nm` -/
def slotTarget (file : File) (r : Option Path) (fn : Path) (subs : List (String × Grp)) (nm : String) : Option (Path × Option Grp) :=
  match r with
  | some name => some (name, lookupGrp file.groups name)
  | none => match subs.lookup nm with
    | some g => some (fn ++ [nm], some g)
    | none => none

theorem refTarget_eq (file : File) (a : GAttrs) (subs : List (String × Grp)) (nm : String) :
    refTarget file a subs nm = slotTarget file a.ref a.fieldname subs nm := rfl
theorem refTargetT_eq (file : File) (a : GAttrs) (subs : List (String × Grp)) :
    refTargetT file a subs = slotTarget file a.tref a.fieldname subs "time" := rfl

def SlotF (file : File) (r : Option Path) (fn : Path) (subs : List (String × Grp)) (nm : String) (x : Option Nat) : Prop :=
  match x with
  | none => slotTarget file r fn subs nm = none
  | some y => ∃ qy gy, slotTarget file r fn subs nm = some (qy, some gy) ∧ lookupGrp file.groups qy = some gy ∧
      gy.isArr = true ∧ gy.src = y

def NodeOKX (h : Heap) (tm : TM) (file : File) (q : Path) (g : Grp) : Prop :=
  ∃ a ob subs, g = .mk a (some ob.strip) subs ∧ h[a.src]? = some ob ∧ a.fieldname = q ∧
    match attrName ob.kind with
    | none => True
    | some nm => SlotF file a.ref q subs nm ob.ref ∧ SlotF file a.tref q subs "time" (tmE h tm a.src)

structure FileOKX (h : Heap) (tm : TM) (file : File) : Prop where
  names : NamesOKG.NamesOKL file.groups
  uniq : ∀ q1 g1 q2 g2, lookupGrp file.groups q1 = some g1 → lookupGrp file.groups q2 = some g2 → g1.isArr = true →
    g2.isArr = true → g1.src = g2.src → q1 = q2
  node : ∀ q g, lookupGrp file.groups q = some g → g.isArr = true → NodeOKX h tm file q g

theorem SlotF.of_slotW {file : File} {q : Path} {a : GAttrs} {pl : Option Obj} {subs : List (String × Grp)} {nm : String}
    {x : Option Nat} {r : Option Path}
    (hl : lookupGrp file.groups q = some (.mk a pl subs))
    (s : SlotW (fun qx x => ∃ g', lookupGrp file.groups qx = some g' ∧ g'.isArr = true ∧ g'.src = x) q subs nm x r) :
    SlotF file r q subs nm x := by
  cases x with
  | none =>
    obtain ⟨rfl, hn⟩ := s
    simp [SlotF, slotTarget, hn]
  | some y =>
    rcases s with ⟨qx, rfl, ⟨g', h1, h2, h3⟩, _⟩ | ⟨rfl, g', hsl, ha, hs, _⟩
    · exact ⟨qx, g', by simp [slotTarget, h1], h1, h2, h3⟩
    · refine ⟨q ++ [nm], g', by simp [slotTarget, hsl], ?_, ha, hs⟩
      rw [lookupGrp_snoc q _ _ nm hl]
      exact hsl

theorem NodeOKX.of_nodeW {h : Heap} {tm : TM} {file : File} {q : Path} {g : Grp}
    (n : NodeW (fun qx x => ∃ g', lookupGrp file.groups qx = some g' ∧ g'.isArr = true ∧ g'.src = x) h tm q g)
    (hl : lookupGrp file.groups q = some g) : NodeOKX h tm file q g := by
  obtain ⟨a, ob, subs, rfl, hob, hf, hc⟩ := n
  refine ⟨a, ob, subs, rfl, hob, hf, ?_⟩
  cases hat : attrName ob.kind with
  | none => trivial
  | some nm =>
    rw [hat] at hc
    exact ⟨SlotF.of_slotW hl hc.1, SlotF.of_slotW hl hc.2⟩

theorem writeDS_okX (h : Heap) (tm : TM) (hx : HeapX h tm) (d : DS) (lvl : Nat)
    (hn : namesOK (restrictFields lvl d.fields) = true)
    (hlt : ∀ o ∈ leafObjs (restrictFields lvl d.fields), o < h.length) :
    ∃ file, writeDSX h tm d lvl = .ok file ∧ file.numObs = d.numObs ∧
      file.members = (restrictFields lvl d.fields).map (fun f => (f.name, fieldType f)) ∧
      RepG.RepGL (KFile (constructMemo lvl d.fields [] []) file) (restrictFields lvl d.fields) [] file.groups ∧
      FileOKX h tm file := by
  have hp : ∀ o ∈ leafObjs (restrictFields lvl d.fields), o ∈ keys (constructMemo lvl d.fields [] []) := by
    intro o ho
    rw [← leafPaths_fst _ []] at ho
    obtain ⟨⟨a, q⟩, he, rfl⟩ := List.mem_map.mp ho
    exact mem_keys ((constructMemo_mem lvl d.fields [] [] (a, q)).mpr (Or.inr he))
  obtain ⟨groups, mem, memo', hw, w⟩ := writeFields_specX h tm hx lvl d.fields [] _ hp hn hlt
  have hmem := (writeFieldsX_names h tm lvl d.fields [] _ groups mem memo' hw).2
  have real : ∀ x qx, memo'.lookup x = some qx → ∃ g', lookupGrp groups qx = some g' ∧ g'.isArr = true ∧ g'.src = x := by
    intro x qx hx
    have hnode : ∃ g', (qx, g') ∈ Grp.nodes.nodesL [] groups ∧ g'.src = x := by
      rcases w.newIn x qx hx with hx | hx
      · rcases (constructMemo_mem lvl d.fields [] [] (x, qx)).mp (wlookup_mem _ x qx hx) with hm | hm
        · simp at hm
        · exact w.written (x, qx) hm hx
      · exact hx
    obtain ⟨g', hg', hs⟩ := hnode
    obtain ⟨rel, _, hq, hl, ha⟩ := lookup_of_nodesL groups [] qx g' w.names hg'
    simp only [List.nil_append] at hq
    subst hq
    exact ⟨g', hl, ha, hs⟩
  refine ⟨{ numObs := d.numObs, members := mem, groups := groups }, by simp only [writeDSX, hw], rfl, hmem, ?_, ?_⟩
  · refine RepGL.mono _ _ _ ?_ w.rep
    intro o ho n hlk
    refine ⟨?_, real o n hlk⟩
    have hko := hp o ho
    cases hl : (constructMemo lvl d.fields [] []).lookup o with
    | none => exact absurd hko ((lookup_none_iff _ o).mp hl)
    | some q =>
      have := w.stable o q hl
      rw [hlk] at this
      rw [← Option.some.inj this]
  · refine ⟨w.names, ?_, ?_⟩
    · intro q1 g1 q2 g2 h1 h2 a1 a2 hs
      have m1 := nodes_of_lookup q1 groups [] g1 h1 a1
      have m2 := nodes_of_lookup q2 groups [] g2 h2 a2
      simp only [List.nil_append] at m1 m2
      have e1 := w.own q1 g1 m1
      have e2 := w.own q2 g2 m2
      rw [hs, e2] at e1
      exact (Option.some.inj e1).symm
    · intro q g hl ha
      have hm := nodes_of_lookup q groups [] g hl ha
      simp only [List.nil_append] at hm
      exact NodeOKX.of_nodeW ((w.node q g hm).mono (fun qx x hx => real x qx hx)) hl


end Midgard.H5
