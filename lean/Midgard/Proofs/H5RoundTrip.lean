/-
C10 — the round trip assembled: `Dataset.read (Dataset.write d ℓ)` of a writable dataset is
`restrict d ℓ` with the array objects renumbered by an injection `φ` that maps every reachable object
to an object of the same content whose reference is the image of the old reference.
-/
import Midgard.Proofs.H5ReadFields

namespace Midgard.H5
open Midgard.Dataset

/-! ### the loop of `Dataset.read` -/

theorem regTop_inv {h : Heap} {file : File} {f : Field} {g : Grp} {ρ ρ1 : Rho} {s1 : RSt}
    (p1 : RPost h file [f] ρ s1 ρ1) (hl : lookupGrp file.groups [f.name] = some g) (hrf : RepF f [] g) :
    RPost h file [f] ρ (regTop f.name (renameField (phi ρ1) f) s1) ρ1 := by
  cases f with
  | coll nm no l sub => exact p1
  | leaf nm k o no u l =>
    simp only [RepF] at hrf
    obtain ⟨ha, hsrc, _⟩ := hrf
    have hdom := p1.dom o (by simp [leafObjs])
    cases hlo : ρ1.lookup o with
    | none => exact absurd hlo hdom
    | some n =>
      refine ⟨?_, p1.ext, p1.dom, p1.new⟩
      simp only [renameField, regTop, Field.name, phi_of_lookup hlo]
      exact p1.inv.set hl (by rw [hsrc]; exact hlo)

theorem readTop_spec (h : Heap) (file : File) (hh : HeapWF h) (fo : FileOK h file) (fa : Nat) (hfa : h.length ≤ fa) :
    ∀ (fs : List Field) (s : RSt) (ρ : Rho) (fd : Nat),
    RInv h file ρ s → (∀ f ∈ fs, ∃ g, (f.name, g) ∈ file.groups ∧ RepF f [] g) →
    fieldsOK h file.numObs fs = true → (leafObjs fs).Nodup →
    (∀ o ∈ leafObjs fs, ¬ Registers h o → ρ.lookup o = none) → fieldsDepth fs ≤ fd →
    ∃ s' ρ', readTop file fa fd (fs.map (fun f => (f.name, fieldType f))) s = .ok (renameFields (phi ρ') fs, s') ∧
      RPost h file fs ρ s' ρ'
  | [], s, ρ, fd, inv, _, _, _, _, _ => by
    refine ⟨s, ρ, by simp [readTop, renameFields], inv, Ext.refl ρ, ?_, fun z hz => Or.inl hz⟩
    intro o ho; simp [leafObjs] at ho
  | f :: fs, s, ρ, fd, inv, hrep, hok, hnd, hfresh, hd => by
    obtain ⟨g, hm, hrf⟩ := hrep f (by simp)
    obtain ⟨hok1, hok2⟩ := fieldsOK_cons h _ f fs hok
    obtain ⟨hd1, hd2⟩ := fieldsDepth_cons f fs hd
    have hnd0 := hnd
    rw [leafObjs_cons] at hnd
    obtain ⟨hnd1, hnd2, _⟩ := List.nodup_append.mp hnd
    have hlk : file.groups.lookup f.name = some g := lookup_of_namesOK fo.names hm
    have hl : lookupGrp file.groups [f.name] = some g := by rw [lookupGrp_single]; exact hlk
    obtain ⟨s1, ρ1, hrd1, p1⟩ := readField_spec h file hh fo fa hfa f [] g s ρ fd inv (by simpa using hl)
      (namesOK_of_mem fo.names hm) hrf hok1 hnd1
      (fun o ho => hfresh o (by rw [leafObjs_cons]; exact List.mem_append_left _ ho)) hd1
    have p1' := regTop_inv p1 hl hrf
    obtain ⟨s2, ρ2, hrd2, p2⟩ := readTop_spec h file hh fo fa hfa fs _ ρ1 fd p1'.inv
      (fun f' hf' => hrep f' (List.mem_cons_of_mem _ hf')) hok2 hnd2 (fresh_step p1' hnd0 hfresh) hd2
    refine ⟨s2, ρ2, ?_, RPost.cons p1' p2⟩
    have hcong : renameField (phi ρ1) f = renameField (phi ρ2) f := by
      apply renameField_congr
      intro o ho
      have := p1.dom o ho
      cases hl : ρ1.lookup o with
      | none => exact absurd hl this
      | some n => rw [phi_of_lookup hl, phi_of_lookup (p2.ext o n hl)]
    simp only [List.map_cons, readTop, hlk, hrd1, hrd2]
    rw [renameFields_cons, hcong]

/-! ### `Writable` unpacked -/

theorem nodupB_nodup : ∀ (l : List Nat), nodupB l = true → l.Nodup
  | [], _ => List.nodup_nil
  | x :: xs, hn => by
    simp only [nodupB, Bool.and_eq_true, Bool.not_eq_true', List.contains_eq_mem, decide_eq_false_iff_not] at hn
    exact List.nodup_cons.mpr ⟨hn.1, nodupB_nodup xs hn.2⟩

theorem heapOK_obj {h : Heap} (hk : heapOK h = true) {o : Nat} {ob : Obj} (hob : h[o]? = some ob) : objOK h o ob = true := by
  have ho : o < h.length := by
    rcases Nat.lt_or_ge o h.length with hlt | hge
    · exact hlt
    · rw [List.getElem?_eq_none hge] at hob; cases hob
  simp only [heapOK, List.all_eq_true, List.mem_range] at hk
  have := hk o ho
  rw [hob] at this
  exact this

theorem heapOK_wf {h : Heap} (hk : heapOK h = true) : HeapWF h where
  below := by
    intro o ob x hob hr
    have := heapOK_obj hk hob
    simp only [objOK, hr, Bool.and_eq_true, decide_eq_true_eq] at this
    exact this.2.1
  delta := by
    intro o ob hob hd hr
    have := heapOK_obj hk hob
    simp [objOK, hr, hd] at this
  refReg := by
    intro o ob x hob hr
    have := heapOK_obj hk hob
    simp only [objOK, hr, Bool.and_eq_true, decide_eq_true_eq] at this
    have h2 := this.2.2
    cases hx : h[x]? with
    | none => simp [hx] at h2
    | some t => simp only [hx] at h2; exact ⟨t, hx, h2⟩
  normal := by
    intro o ob hob
    have := heapOK_obj hk hob
    simp only [objOK, Bool.and_eq_true] at this
    exact this.1.1

/-! ### objects up to renumbering -/

/-- the same array object over other object numbers -/
def _root_.Midgard.Dataset.Obj.rename (φ : Nat → Nat) (ob : Obj) : Obj :=
  { ob with other := ob.other.map φ, refPos := ob.refPos.map φ }

theorem rename_ref (φ : Nat → Nat) (ob : Obj) : (ob.rename φ).ref = ob.ref.map φ := by
  by_cases h1 : ob.kind.hasOther = true <;> by_cases h2 : ob.kind.isDelta = true <;>
    simp [Obj.ref, Obj.rename, h1, h2]

theorem image_eq_rename {ρ : Rho} {ob : Obj} {r' : Option Nat} (hn : ob.normal = true) (hr : RefRel ρ ob.ref r') :
    ob.strip.withRef r' = ob.rename (phi ρ) := by
  have hr' : r' = ob.ref.map (phi ρ) := by
    cases hro : ob.ref with
    | none => rw [hro] at hr; exact hr
    | some y =>
      rw [hro] at hr
      obtain ⟨m, h1, h2⟩ := hr
      simp [h1, phi_of_lookup h2]
  subst hr'
  cases ob with
  | mk k nd c rows ot rp =>
    simp only [Obj.normal, Bool.and_eq_true, Bool.or_eq_true, Option.isNone_iff_eq_none] at hn
    cases k <;> simp_all [Obj.withRef, Obj.strip, Obj.rename, Obj.ref, Kind.hasOther, Kind.isDelta]

/-- the array objects a list of fields can reach: the arrays of the fields and, from a reachable array,
the object attached to it (`other` / `ref_pos`), to any depth -/
inductive Reach (h : Heap) (fs : List Field) : Nat → Prop
  | field {o : Nat} : o ∈ leafObjs fs → Reach h fs o
  | ref {x y : Nat} {ob : Obj} : Reach h fs x → h[x]? = some ob → ob.ref = some y → Reach h fs y

theorem Reach.known {h : Heap} {file : File} {fs : List Field} {ρ : Rho} {s : RSt} (inv : RInv h file ρ s)
    (hdom : ∀ o ∈ leafObjs fs, ρ.lookup o ≠ none) {x : Nat} (hx : Reach h fs x) : ρ.lookup x ≠ none := by
  induction hx with
  | field ho => exact hdom _ ho
  | @ref x y ob _ hob hr ih =>
    cases hl : ρ.lookup x with
    | none => exact absurd hl ih
    | some n =>
      obtain ⟨ob', r', h1, _, h3⟩ := inv.img x n hl
      rw [hob] at h1
      cases h1
      rw [hr] at h3
      obtain ⟨m, _, hm⟩ := h3
      rw [hm]; simp

theorem fieldsDepth_restrict (lvl : Nat) : ∀ (fs : List Field), fieldsDepth (restrictFields lvl fs) ≤ fieldsDepth fs
  | [] => by simp [restrictFields]
  | .leaf nm k o no u l :: fs => by
    have ih := fieldsDepth_restrict lvl fs
    simp only [restrictFields]
    split
    · simp only [fieldsDepth]; omega
    · simp only [fieldsDepth]; omega
  | .coll nm no l sub :: fs => by
    have ih := fieldsDepth_restrict lvl fs
    have ih2 := fieldsDepth_restrict lvl sub
    simp only [restrictFields]
    split
    · simp only [fieldsDepth]; omega
    · simp only [fieldsDepth]; omega

theorem leafObjs_lt (h : Heap) (n : Nat) : ∀ (fs : List Field), fieldsOK h n fs = true → ∀ o ∈ leafObjs fs, o < h.length
  | [], _, o, ho => by simp [leafObjs] at ho
  | .leaf nm k o' no u l :: fs, hk, o, ho => by
    obtain ⟨h1, h2⟩ := fieldsOK_cons h _ _ fs hk
    simp only [leafObjs, List.mem_cons] at ho
    rcases ho with rfl | ho
    · exact (fieldsOK_leaf h1).1
    · exact leafObjs_lt h n fs h2 o ho
  | .coll nm no l sub :: fs, hk, o, ho => by
    obtain ⟨h1, h2⟩ := fieldsOK_cons h _ _ fs hk
    simp only [leafObjs, List.mem_append] at ho
    rcases ho with ho | ho
    · exact leafObjs_lt h n sub (fieldsOK_coll h1).2 o ho
    · exact leafObjs_lt h n fs h2 o ho

/-- **`read (write d ℓ) = restrict d ℓ` up to the numbering of the array objects** -/
theorem roundTrip_core (h : Heap) (d : DS) (lvl : Nat) (hw : Writable h d lvl) :
    ∃ (file : File) (h' : Heap) (φ : Nat → Nat), writeDS h d lvl = .ok file ∧
      readBack h d file = .ok (h', { numObs := d.numObs, fields := renameFields φ (restrictFields lvl d.fields) }) ∧
      (∀ x, Reach h (restrictFields lvl d.fields) x → ∃ ob, h[x]? = some ob ∧ h'[φ x]? = some (ob.rename φ)) ∧
      (∀ x y, Reach h (restrictFields lvl d.fields) x → Reach h (restrictFields lvl d.fields) y → φ x = φ y → x = y) := by
  simp only [Writable, writableB, Bool.and_eq_true] at hw
  obtain ⟨⟨⟨hheap, hok⟩, hnames⟩, hndb⟩ := hw
  have hh := heapOK_wf hheap
  have hnd := nodupB_nodup _ hndb
  have hlt := leafObjs_lt h d.numObs _ hok
  obtain ⟨file, hwr, hno, hmem, hrep, fo⟩ := writeDS_ok h hh.below d lvl hnd hnames hlt
  have hok' : fieldsOK h file.numObs (restrictFields lvl d.fields) = true := by rw [hno]; exact hok
  obtain ⟨s', ρ, hrd, post⟩ := readTop_spec h file hh fo (h.length + 1) (by omega) (restrictFields lvl d.fields) {} []
    (fieldsDepth d.fields + 1) (RInv.empty h file) (RepL_mem _ _ _ hrep) hok' hnd
    (by intro o _ _; simp [List.lookup]) (by have := fieldsDepth_restrict lvl d.fields; omega)
  refine ⟨file, s'.heap, phi ρ, hwr, ?_, ?_, ?_⟩
  · simp only [readBack, readDS, hmem, hrd, hno]
  · intro x hx
    have hk := Reach.known post.inv post.dom hx
    cases hl : ρ.lookup x with
    | none => exact absurd hl hk
    | some n =>
      obtain ⟨ob, r', h1, h2, h3⟩ := post.inv.img x n hl
      refine ⟨ob, h1, ?_⟩
      rw [phi_of_lookup hl, h2, image_eq_rename (hh.normal x ob h1) h3]
  · intro x y hx hy hxy
    have hkx := Reach.known post.inv post.dom hx
    have hky := Reach.known post.inv post.dom hy
    cases hlx : ρ.lookup x with
    | none => exact absurd hlx hkx
    | some n =>
      cases hly : ρ.lookup y with
      | none => exact absurd hly hky
      | some m =>
        rw [phi_of_lookup hlx, phi_of_lookup hly] at hxy
        subst hxy
        exact post.inv.inj x y n hlx hly

end Midgard.H5
