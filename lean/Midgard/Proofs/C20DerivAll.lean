/-
C20 — interpolate_with_derivative for any interpolator of the model (interpDeriv): spline kinds, barycentric.
-/
import Midgard.Model.Numeric
import Midgard.Proofs.C20Spline
import Midgard.Proofs.C20Bary
import Midgard.Proofs.C20Deriv

namespace Midgard.Proofs.C20
open Midgard.Numeric

/-- `f` returns, when it succeeds, one row of `dim` entries per new abscissa -/
def ShapeOK (f : List ℚ → Except Err (List (List ℚ))) (dim : ℕ) : Prop :=
  ∀ xnew out, f xnew = .ok out → out.length = xnew.length ∧ ∀ j, j < xnew.length → (out.getD j []).length = dim

theorem interpDeriv_entry (f : List ℚ → Except Err (List (List ℚ))) (dim : ℕ) (hf : ShapeOK f dim)
    (xnew : List ℚ) (dx : ℚ) (v d : List (List ℚ)) (h : interpDeriv f xnew dx = .ok (v, d)) :
    ∃ hi lo, f xnew = .ok v ∧ f (xnew.map (· + dx)) = .ok hi ∧ f (xnew.map (· - dx)) = .ok lo ∧
      ∀ j c, j < xnew.length → c < dim →
        (d.getD j []).getD c 0 = ((hi.getD j []).getD c 0 - (lo.getD j []).getD c 0) / (2 * dx) := by
  unfold interpDeriv at h
  split at h
  · exact absurd h (by simp)
  rename_i v' h1
  split at h
  · exact absurd h (by simp)
  rename_i hi h2
  split at h
  · exact absurd h (by simp)
  rename_i lo h3
  injection h with h
  injection h with ha hb
  refine ⟨hi, lo, by rw [h1, ha], h2, h3, ?_⟩
  intro j c hj hc
  obtain ⟨l1, e1⟩ := hf _ _ h2
  obtain ⟨l2, e2⟩ := hf _ _ h3
  rw [← hb]
  exact centralDiff_getD hi lo dx xnew.length dim (by simpa using l1) (by simpa using l2)
    (fun j hj => e1 j (by simpa using hj)) (fun j hj => e2 j (by simpa using hj)) j c hj hc

theorem nakSpline_shape (xs : List ℚ) (rows : List (List ℚ)) (dim : ℕ) : ShapeOK (nakSpline xs rows dim) dim := by
  intro xnew out h
  obtain ⟨_, _, _, _, rfl⟩ := nakSpline_ok_form _ _ _ _ _ h
  refine ⟨by simp, ?_⟩
  intro j hj
  rw [getD_map_at' _ _ _ _ hj]
  simp

theorem barycentric_shape (xs : List ℚ) (rows : List (List ℚ)) (dim : ℕ) : ShapeOK (barycentric xs rows dim) dim := by
  intro xnew out h
  obtain ⟨_, _, _, rfl⟩ := barycentric_ok_form _ _ _ _ _ h
  refine ⟨by simp, ?_⟩
  intro j hj
  rw [getD_map_at' _ _ _ _ hj]
  simp [lagrangeAt, combine_length]

/-- the central difference of a cubic: the derivative plus `c₃·dx²` -/
theorem central_diff_cubic (c0 c1 c2 c3 x d : ℚ) (hd : d ≠ 0) :
    (cubicAt c0 c1 c2 c3 (x + d) - cubicAt c0 c1 c2 c3 (x - d)) / (2 * d) = c1 + 2 * c2 * x + 3 * c3 * x * x + c3 * d * d := by
  unfold cubicAt
  field_simp
  ring

/-- `interpolate_with_derivative` with a spline interpolator, data on a cubic: the derivative of the cubic plus
`c₃·dx²` — exact for parabolas and lines -/
theorem splineDeriv_cubic (xs : List ℚ) (rows : List (List ℚ)) (dim : ℕ) (xnew : List ℚ) (dx : ℚ) (hdx : dx ≠ 0)
    (v d : List (List ℚ)) (h : interpDeriv (nakSpline xs rows dim) xnew dx = .ok (v, d)) (c : ℕ) (hc : c < dim)
    (c0 c1 c2 c3 : ℚ)
    (hdata : ∀ i, i < xs.length → (rows.getD i []).getD c 0 = cubicAt c0 c1 c2 c3 (xs.getD i 0))
    (j : ℕ) (hj : j < xnew.length) :
    (d.getD j []).getD c 0 = c1 + 2 * c2 * xnew.getD j 0 + 3 * c3 * xnew.getD j 0 * xnew.getD j 0 + c3 * dx * dx := by
  obtain ⟨hi, lo, _, h1, h2, he⟩ := interpDeriv_entry _ dim (nakSpline_shape xs rows dim) xnew dx v d h
  rw [he j c hj hc,
    nakSpline_cubic xs rows dim _ hi h1 c hc c0 c1 c2 c3 hdata j (by simpa using hj),
    nakSpline_cubic xs rows dim _ lo h2 c hc c0 c1 c2 c3 hdata j (by simpa using hj),
    getD_map_lt _ _ _ hj, getD_map_lt _ _ _ hj]
  exact central_diff_cubic c0 c1 c2 c3 _ dx hdx

theorem splineDeriv_linear (xs : List ℚ) (r₁ r₂ r₃ : List (List ℚ)) (dim : ℕ) (xnew : List ℚ) (dx a b : ℚ)
    (v₁ v₂ v₃ d₁ d₂ d₃ : List (List ℚ))
    (h₁ : interpDeriv (nakSpline xs r₁ dim) xnew dx = .ok (v₁, d₁))
    (h₂ : interpDeriv (nakSpline xs r₂ dim) xnew dx = .ok (v₂, d₂))
    (h₃ : interpDeriv (nakSpline xs r₃ dim) xnew dx = .ok (v₃, d₃))
    (c : ℕ) (hc : c < dim)
    (hcomb : ∀ i, i < xs.length →
      (r₃.getD i []).getD c 0 = a * (r₁.getD i []).getD c 0 + b * (r₂.getD i []).getD c 0)
    (j : ℕ) (hj : j < xnew.length) :
    (d₃.getD j []).getD c 0 = a * (d₁.getD j []).getD c 0 + b * (d₂.getD j []).getD c 0 := by
  obtain ⟨hi₁, lo₁, _, p₁, q₁, e₁⟩ := interpDeriv_entry _ dim (nakSpline_shape xs r₁ dim) xnew dx v₁ d₁ h₁
  obtain ⟨hi₂, lo₂, _, p₂, q₂, e₂⟩ := interpDeriv_entry _ dim (nakSpline_shape xs r₂ dim) xnew dx v₂ d₂ h₂
  obtain ⟨hi₃, lo₃, _, p₃, q₃, e₃⟩ := interpDeriv_entry _ dim (nakSpline_shape xs r₃ dim) xnew dx v₃ d₃ h₃
  rw [e₁ j c hj hc, e₂ j c hj hc, e₃ j c hj hc,
    nakSpline_linear xs r₁ r₂ r₃ dim _ a b hi₁ hi₂ hi₃ p₁ p₂ p₃ c hc hcomb j (by simpa using hj),
    nakSpline_linear xs r₁ r₂ r₃ dim _ a b lo₁ lo₂ lo₃ q₁ q₂ q₃ c hc hcomb j (by simpa using hj)]
  ring

/-- the same for the interpolating polynomial (`barycentric_interpolator`): central difference of `P`, hence `P'`
for degree ≤ 2 -/
theorem barycentricDeriv_poly (xs : List ℚ) (rows : List (List ℚ)) (dim : ℕ) (xnew : List ℚ) (dx : ℚ)
    (v d : List (List ℚ)) (h : interpDeriv (barycentric xs rows dim) xnew dx = .ok (v, d)) (c : ℕ) (hc : c < dim)
    (P : Polynomial ℚ) (hdeg : P.degree < (xs.length : ℕ))
    (hdata : ∀ i, i < xs.length → (rows.getD i []).getD c 0 = P.eval (xs.getD i 0))
    (j : ℕ) (hj : j < xnew.length) :
    (d.getD j []).getD c 0 = (P.eval (xnew.getD j 0 + dx) - P.eval (xnew.getD j 0 - dx)) / (2 * dx) := by
  obtain ⟨hi, lo, _, h1, h2, he⟩ := interpDeriv_entry _ dim (barycentric_shape xs rows dim) xnew dx v d h
  rw [he j c hj hc,
    barycentric_poly xs rows dim _ hi h1 c hc P hdeg hdata j (by simpa using hj),
    barycentric_poly xs rows dim _ lo h2 c hc P hdeg hdata j (by simpa using hj),
    getD_map_lt _ _ _ hj, getD_map_lt _ _ _ hj]

theorem lagrangeDeriv_eq_interpDeriv (xs : List ℚ) (rows : List (List ℚ)) (dim w : ℕ) (be srt : Bool) (s : ℚ)
    (xnew : List ℚ) (dx : ℚ) :
    lagrangeDeriv xs rows dim w be srt s xnew dx = interpDeriv (lagrange xs rows dim w be srt s) xnew dx := rfl

end Midgard.Proofs.C20
