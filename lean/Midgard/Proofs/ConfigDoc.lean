/-
Helper lemmas for C19 (text round trip), part D: the text `as_str` writes for a whole configuration,
as sections of items and empty lines; the decidable well-formedness predicate; what the reader
returns for it.  Mathlib-free.
-/
import Midgard.Proofs.ConfigFile

namespace Midgard.Proofs.ConfigText
open Midgard.Config

/-! ### A configuration as items and empty lines -/

/-- the words of a value, as `str.split()` sees them -/
def valueWords (v : String) : List (List Char) := splitBlanks v.toList []

/-- the option lines of one entry: `key = value`, then one `key:meta = value` / `key:meta` per metadata item -/
def entryItems (k : String) (e : Entry) : List Item :=
  ⟨k.toList, some (valueWords e.value)⟩ ::
    e.metas.map (fun m => ⟨k.toList ++ ':' :: m.1.toList, m.2.map valueWords⟩)

/-- … followed by an empty line when there is metadata -/
def entryBlocks (k : String) (e : Entry) : List Block :=
  (entryItems k e).map Block.item ++ (if e.metas.isEmpty then [] else [Block.blank])

def sectionBlocks (s : Section) : List Block := s.flatMap (fun ke => entryBlocks ke.1 ke.2)

def sectionItems (s : Section) : List Item := s.flatMap (fun ke => entryItems ke.1 ke.2)

/-! ### Well-formedness (decidable) -/

/-- a word of a value: not empty, no blank of any kind, no `%` (interpolation), and — because any word may
be the first of a continuation line — not starting like a comment -/
def wordVB (x : List Char) : Bool :=
  !x.isEmpty && x.all (fun c => !isBlank c && c != '%') && x.head? != some '#' && x.head? != some ';'

/-- a value: its words joined by single blanks (the empty text included) -/
def wfValueB (v : String) : Bool :=
  (unwords (valueWords v) == v.toList) && (valueWords v).all wordVB

/-- an option name the reader returns unchanged: not empty, no blank, no `=`, lower case unless the reader
is case sensitive, not starting like a section header or a comment -/
def keyOKB (lower : Bool) (k : List Char) : Bool :=
  !k.isEmpty && k.all (fun c => !isBlank c && c != '=') && (!lower || k.map lowerChar == k) &&
  k.head? != some '[' && k.head? != some '#' && k.head? != some ';'

/-- the option name, the padding to the key column and `=` fit on a line -/
def fitsB (w kw : Nat) (k : List Char) : Bool := decide (max kw k.length + 2 ≤ w)

def metaKey (k : String) (mk : String) : List Char := k.toList ++ ':' :: mk.toList

def wfMetaB (lower : Bool) (w kw : Nat) (k : String) (m : String × Option String) : Bool :=
  keyOKB lower (metaKey k m.1) &&
  match m.2 with
  | none => true
  | some v => fitsB w kw (metaKey k m.1) && wfValueB v

def wfEntryB (lower : Bool) (w kw : Nat) (k : String) (e : Entry) : Bool :=
  keyOKB lower k.toList && !k.toList.contains ':' && fitsB w kw k.toList && wfValueB e.value &&
  e.metas.all (wfMetaB lower w kw k) && decide (e.metas.map (·.1)).Nodup

/-- a section name: no blank, a non-empty part before the first `__` (what follows is the profile), and not
the parser's `DEFAULT` -/
def wfNameB (n : String) : Bool :=
  n.toList.all (fun c => !isBlank c) && !(partDunder n.toList).1.isEmpty && n != "DEFAULT"

def wfSectionB (lower : Bool) (w kw : Nat) (n : String) (s : Section) : Bool :=
  wfNameB n && !s.isEmpty && s.all (fun ke => wfEntryB lower w kw ke.1 ke.2) && decide (s.map (·.1)).Nodup

/-- **the configurations whose text form reads back** (reader lower-casing keys iff `lower`; line width
`w`, key column `kw`) -/
def WfText (lower : Bool) (w kw : Nat) (secs : Sections) : Bool :=
  secs.all (fun ns => wfSectionB lower w kw ns.1 ns.2) && decide (secs.map (·.1)).Nodup

/-! ### From the decidable predicate to the hypotheses of the reader lemmas -/

theorem wordVB_spec {x : List Char} (h : wordVB x = true) : WordV x := by
  simp only [wordVB, Bool.and_eq_true, Bool.not_eq_true', List.all_eq_true, bne_iff_ne, ne_eq] at h
  obtain ⟨⟨⟨h1, h2⟩, h3⟩, h4⟩ := h
  refine ⟨⟨?_, fun c hc => ?_⟩, h3, h4⟩
  · intro e; subst e; simp at h1
  · exact (h2 c hc).1

theorem keyOKB_spec {lower : Bool} {k : List Char} (h : keyOKB lower k = true) : KeyOK lower k := by
  simp only [keyOKB, Bool.and_eq_true, Bool.not_eq_true', List.all_eq_true, bne_iff_ne, ne_eq, Bool.or_eq_true,
    beq_iff_eq] at h
  obtain ⟨⟨⟨⟨⟨h1, h2⟩, h3⟩, h4⟩, h5⟩, h6⟩ := h
  refine ⟨?_, fun c hc => h2 c hc, ?_, h4, h5, h6⟩
  · intro e; subst e; simp at h1
  · intro hl; rcases h3 with h3 | h3
    · rw [hl] at h3; simp at h3
    · exact h3

theorem fitsB_spec {w kw : Nat} {k : List Char} (h : fitsB w kw k = true) :
    k.length + (padOf kw k).length + 1 ≤ w := by
  simp only [fitsB, decide_eq_true_eq] at h
  simp only [padOf, List.length_append, List.length_replicate, List.length_cons, List.length_nil]
  omega

theorem wfValueB_spec {v : String} (h : wfValueB v = true) :
    unwords (valueWords v) = v.toList ∧ ∀ x ∈ valueWords v, WordV x := by
  simp only [wfValueB, Bool.and_eq_true, beq_iff_eq, List.all_eq_true] at h
  exact ⟨h.1, fun x hx => wordVB_spec (h.2 x hx)⟩

theorem itemOK_entry (lower : Bool) (w kw : Nat) (k : String) (e : Entry) (h : wfEntryB lower w kw k e = true) :
    ∀ it ∈ entryItems k e, ItemOK lower w kw it := by
  simp only [wfEntryB, Bool.and_eq_true, List.all_eq_true] at h
  obtain ⟨⟨⟨⟨⟨h1, _⟩, h3⟩, h4⟩, h5⟩, _⟩ := h
  intro it hit
  simp only [entryItems, List.mem_cons, List.mem_map] at hit
  rcases hit with rfl | ⟨m, hm, rfl⟩
  · refine ⟨keyOKB_spec h1, fun ws hws => ?_⟩
    simp only [Option.some.injEq] at hws
    subst hws
    exact ⟨fitsB_spec h3, (wfValueB_spec h4).2⟩
  · have hm' := h5 m hm
    simp only [wfMetaB, Bool.and_eq_true] at hm'
    refine ⟨keyOKB_spec hm'.1, fun ws hws => ?_⟩
    cases hv : m.2 with
    | none => rw [hv] at hws; simp at hws
    | some v =>
      rw [hv] at hws
      have h2 := hm'.2
      rw [hv] at h2
      simp only [Bool.and_eq_true] at h2
      simp only [Option.map_some, Option.some.injEq] at hws
      subst hws
      exact ⟨fitsB_spec h2.1, (wfValueB_spec h2.2).2⟩

/-! ### Option names of a section are pairwise different -/

theorem keyOf_key (k : List Char) (h : ':' ∉ k) : (partitionAt ':' k).1 = k := by
  rw [partitionAt_none ':' k h]

theorem keyOf_meta (k : String) (mk : String) (h : ':' ∉ k.toList) : (partitionAt ':' (metaKey k mk)).1 = k.toList := by
  rw [metaKey, partitionAt_append ':' _ _ h]

theorem keyOf_entryItems (k : String) (e : Entry) (h : ':' ∉ k.toList) :
    ∀ it ∈ entryItems k e, (partitionAt ':' it.key).1 = k.toList := by
  intro it hit
  simp only [entryItems, List.mem_cons, List.mem_map] at hit
  rcases hit with rfl | ⟨m, _, rfl⟩
  · exact keyOf_key _ h
  · exact keyOf_meta k m.1 h

theorem toList_inj {a b : String} (h : a.toList = b.toList) : a = b := by
  rw [← String.ofList_toList (s := a), ← String.ofList_toList (s := b), h]

theorem nodup_entryItems (k : String) (e : Entry) (h : ':' ∉ k.toList) (hm : (e.metas.map (·.1)).Nodup) :
    ((entryItems k e).map (·.key)).Nodup := by
  simp only [entryItems, List.map_cons, List.map_map, List.nodup_cons, List.mem_map, Function.comp]
  refine ⟨?_, ?_⟩
  · rintro ⟨m, _, hk⟩
    have : ':' ∈ k.toList := by rw [← hk]; simp
    exact h this
  · have hinj : ∀ a b : String × Option String, k.toList ++ ':' :: a.1.toList = k.toList ++ ':' :: b.1.toList →
        a.1 = b.1 := by
      intro a b hab
      have := List.append_cancel_left hab
      simp only [List.cons.injEq, true_and] at this
      exact toList_inj this
    generalize e.metas = ms at hm
    induction ms with
    | nil => simp
    | cons a t ih =>
      simp only [List.map_cons, List.nodup_cons, List.mem_map] at hm ⊢
      refine ⟨?_, ih hm.2⟩
      rintro ⟨b, hb, hab⟩
      exact hm.1 ⟨b, hb, (hinj a b hab.symm).symm⟩

theorem colon_of_wfEntry {lower : Bool} {w kw : Nat} {k : String} {e : Entry} (h : wfEntryB lower w kw k e = true) :
    ':' ∉ k.toList ∧ (e.metas.map (·.1)).Nodup := by
  simp only [wfEntryB, Bool.and_eq_true, Bool.not_eq_true', decide_eq_true_eq] at h
  exact ⟨by simpa using h.1.1.1.1.2, h.2⟩

theorem nodup_sectionItems (lower : Bool) (w kw : Nat) (s : Section)
    (hs : ∀ ke ∈ s, wfEntryB lower w kw ke.1 ke.2 = true) (hk : (s.map (·.1)).Nodup) :
    ((sectionItems s).map (·.key)).Nodup := by
  induction s with
  | nil => simp [sectionItems]
  | cons ke t ih =>
    obtain ⟨k, e⟩ := ke
    have hke := colon_of_wfEntry (hs (k, e) (by simp))
    simp only [List.map_cons, List.nodup_cons] at hk
    have ht := ih (fun x hx => hs x (List.mem_cons_of_mem _ hx)) hk.2
    simp only [sectionItems, List.flatMap_cons, List.map_append] at ht ⊢
    refine List.nodup_append.2 ⟨nodup_entryItems k e hke.1 hke.2, ht, ?_⟩
    intro a ha b hb hab
    subst hab
    obtain ⟨ia, hia, rfl⟩ := List.mem_map.1 ha
    obtain ⟨ib, hib, hkey⟩ := List.mem_map.1 hb
    obtain ⟨ke', hke', hib'⟩ := List.mem_flatMap.1 hib
    have h1 := keyOf_entryItems k e hke.1 ia hia
    have h2 := keyOf_entryItems ke'.1 ke'.2 (colon_of_wfEntry (hs ke' (List.mem_cons_of_mem _ hke'))).1 ib hib'
    rw [hkey, h1] at h2
    exact hk.1 (by rw [toList_inj h2]; exact List.mem_map.2 ⟨ke', hke', rfl⟩)

/-! ### The lines `as_str` writes -/

theorem blockItems_append (a b : List Block) : blockItems (a ++ b) = blockItems a ++ blockItems b := by
  induction a with
  | nil => rfl
  | cons x t ih => cases x <;> simp [blockItems, ih]

theorem blockItems_items (its : List Item) : blockItems (its.map Block.item) = its := by
  induction its with
  | nil => rfl
  | cons x t ih => simp [blockItems, ih]

theorem blockItems_entry (k : String) (e : Entry) : blockItems (entryBlocks k e) = entryItems k e := by
  simp only [entryBlocks, blockItems_append, blockItems_items]
  split <;> simp [blockItems]

theorem blockItems_section (s : Section) : blockItems (sectionBlocks s) = sectionItems s := by
  induction s with
  | nil => rfl
  | cons ke t ih =>
    simp only [sectionBlocks, sectionItems, List.flatMap_cons, blockItems_append, blockItems_entry] at ih ⊢
    rw [ih]

theorem flatMap_items (w kw : Nat) (its : List Item) :
    (its.map Block.item).flatMap (blockLines w kw) = its.flatMap (itemLines w kw) := by
  induction its with
  | nil => rfl
  | cons x t ih => simp [blockLines, ih]

theorem flatMap_congr' {α β} (l : List α) (f g : α → List β) (h : ∀ x ∈ l, f x = g x) :
    l.flatMap f = l.flatMap g := by
  induction l with
  | nil => rfl
  | cons a t ih =>
    simp only [List.flatMap_cons, h a (by simp), ih (fun x hx => h x (List.mem_cons_of_mem _ hx))]

/-- the lines of one metadata item -/
def metaLines (w kw : Nat) (k : String) (m : String × Option String) : List (List Char) :=
  match m.2 with
  | none => fill w (kw + 3) (k.toList ++ ':' :: m.1.toList)
  | some v => fill w (kw + 3) (ljust kw (k.toList ++ ':' :: m.1.toList) ++ " = ".toList ++ v.toList)

theorem entryLines_eq (w kw : Nat) (k : String) (e : Entry) :
    entryLines w kw k e =
      if e.metas.isEmpty then fill w (kw + 3) (ljust kw k.toList ++ " = ".toList ++ e.value.toList)
      else fill w (kw + 3) (ljust kw k.toList ++ " = ".toList ++ e.value.toList) ++
        e.metas.flatMap (metaLines w kw k) ++ [[]] := by
  simp only [entryLines]
  rfl

/-- the lines of one entry are the lines of its items and, with metadata, an empty line -/
theorem entryLines_blocks (lower : Bool) (w kw : Nat) (k : String) (e : Entry) (h : wfEntryB lower w kw k e = true) :
    entryLines w kw k e = (entryBlocks k e).flatMap (blockLines w kw) := by
  simp only [wfEntryB, Bool.and_eq_true, List.all_eq_true] at h
  obtain ⟨⟨⟨_, h4⟩, h5⟩, _⟩ := h
  have hv := (wfValueB_spec h4).1
  have hmetas : e.metas.flatMap (metaLines w kw k) =
      (e.metas.map (fun m => (⟨k.toList ++ ':' :: m.1.toList, m.2.map valueWords⟩ : Item))).flatMap (itemLines w kw) := by
    rw [List.flatMap_map]
    apply flatMap_congr'
    intro m hm
    obtain ⟨mk, mv⟩ := m
    have hm' := h5 (mk, mv) hm
    simp only [wfMetaB, Bool.and_eq_true] at hm'
    cases mv with
    | none => simp [itemLines, metaLines]
    | some v =>
      have h2 := hm'.2
      simp only [Bool.and_eq_true] at h2
      simp only [itemLines, metaLines, Option.map_some, entryText, (wfValueB_spec h2.2).1]
  have hfirst : fill w (kw + 3) (ljust kw k.toList ++ " = ".toList ++ e.value.toList) =
      itemLines w kw ⟨k.toList, some (valueWords e.value)⟩ := by
    simp only [itemLines, entryText, hv]
  rw [entryLines_eq, hmetas, hfirst]
  simp only [entryBlocks, List.flatMap_append, flatMap_items, entryItems, List.flatMap_cons]
  cases hme : e.metas.isEmpty
  · simp [blockLines]
  · have : e.metas = [] := by simpa using hme
    simp [this]

theorem entryBlocks_lines_ne_nil (lower : Bool) (w kw : Nat) (k : String) (e : Entry)
    (h : wfEntryB lower w kw k e = true) : (entryBlocks k e).flatMap (blockLines w kw) ≠ [] := by
  have hok := itemOK_entry lower w kw k e h
  have := itemLines_ne_nil lower w kw ⟨k.toList, some (valueWords e.value)⟩ (hok _ (by simp [entryItems]))
  simp only [entryBlocks, entryItems, List.map_cons, List.cons_append, List.flatMap_cons, blockLines]
  intro hc
  exact this (List.append_eq_nil_iff.1 hc).1

/-- the lines of one section: the header line, then the blocks of its entries -/
def sectionLinesOf (w kw : Nat) (ns : String × Section) : List (List Char) :=
  headerText ns.1 :: (sectionBlocks ns.2).flatMap (blockLines w kw)

theorem sectionStr_nl (lower : Bool) (w kw : Nat) (n : String) (s : Section) (hs : s ≠ [])
    (hwf : ∀ ke ∈ s, wfEntryB lower w kw ke.1 ke.2 = true) :
    sectionStr w kw n s ++ ['\n'] = linesText (sectionLinesOf w kw (n, s)) := by
  have hmap : (s.map fun (x : String × Entry) => match x with | (k, e) => joinLines (entryLines w kw k e)) =
      (s.map (fun ke => (entryBlocks ke.1 ke.2).flatMap (blockLines w kw))).map joinLines := by
    rw [List.map_map]
    apply List.map_congr_left
    intro ke hke
    obtain ⟨k, e⟩ := ke
    simp only [Function.comp, entryLines_blocks lower w kw k e (hwf (k, e) hke)]
  have hne : (s.map fun (x : String × Entry) => match x with | (k, e) => joinLines (entryLines w kw k e)).isEmpty = false := by
    cases s with
    | nil => exact absurd rfl hs
    | cons a t => simp
  simp only [sectionStr, hne, Bool.false_eq_true, if_false]
  rw [hmap, List.append_assoc, joinLines_join_nl _ (by simpa using hs)]
  · have hfl : ∀ t : Section, (t.map (fun ke => (entryBlocks ke.1 ke.2).flatMap (blockLines w kw))).flatten =
        (t.flatMap (fun ke => entryBlocks ke.1 ke.2)).flatMap (blockLines w kw) := by
      intro t
      induction t with
      | nil => rfl
      | cons a r ih => simp only [List.map_cons, List.flatten_cons, List.flatMap_cons, List.flatMap_append, ih]
    rw [hfl]
    simp [sectionLinesOf, headerText, linesText_cons, sectionBlocks]
  · intro x hx
    obtain ⟨ke, hke, rfl⟩ := List.mem_map.1 hx
    exact entryBlocks_lines_ne_nil lower w kw ke.1 ke.2 (hwf ke hke)

theorem sectionStr_ne_nil (w kw : Nat) (n : String) (s : Section) (hs : s ≠ []) :
    (sectionStr w kw n s).isEmpty = false := by
  cases s with
  | nil => exact absurd rfl hs
  | cons a t => simp [sectionStr]

/-- two empty lines after every section but the last, one after the last (the break that ends the file) -/
def padBlocks : List (String × List Block) → List (String × List Block)
  | [] => []
  | [sb] => [(sb.1, sb.2 ++ [Block.blank])]
  | sb :: r => (sb.1, sb.2 ++ [Block.blank, Block.blank]) :: padBlocks r

theorem padBlocks_cons2 (a b : String × List Block) (r : List (String × List Block)) :
    padBlocks (a :: b :: r) = (a.1, a.2 ++ [Block.blank, Block.blank]) :: padBlocks (b :: r) := rfl

theorem padBlocks_items (X : List (String × List Block)) :
    (padBlocks X).map (fun sb => (sb.1, blockItems sb.2)) = X.map (fun sb => (sb.1, blockItems sb.2)) := by
  induction X with
  | nil => rfl
  | cons a t ih =>
    cases t with
    | nil => simp [padBlocks, blockItems_append, blockItems]
    | cons b r =>
      rw [padBlocks_cons2, List.map_cons, ih]
      simp [blockItems_append, blockItems]

theorem padBlocks_names (X : List (String × List Block)) : (padBlocks X).map (·.1) = X.map (·.1) := by
  induction X with
  | nil => rfl
  | cons a t ih =>
    cases t with
    | nil => simp [padBlocks]
    | cons b r => rw [padBlocks_cons2, List.map_cons, ih]; simp

theorem sepLines_pad (w kw : Nat) (X : List (String × List Block)) (hX : X ≠ []) :
    sepLines (X.map (fun sb => headerText sb.1 :: sb.2.flatMap (blockLines w kw))) ++ [[]] =
      fileLines w kw (padBlocks X) := by
  induction X with
  | nil => exact absurd rfl hX
  | cons a t ih =>
    cases t with
    | nil => simp [sepLines, padBlocks, fileLines, List.flatMap_append, blockLines]
    | cons b r =>
      have h := ih (by simp)
      rw [padBlocks_cons2, fileLines_cons, ← h]
      simp only [List.map_cons, sepLines_cons2, List.flatMap_append, List.flatMap_cons, blockLines,
        List.flatMap_nil, List.append_nil, List.cons_append, List.append_assoc, List.nil_append]

theorem mem_sepLines (Ls : List (List (List Char))) (l : List Char) (h : l ∈ sepLines Ls) :
    l = [] ∨ ∃ L ∈ Ls, l ∈ L := by
  induction Ls with
  | nil => simp [sepLines] at h
  | cons a t ih =>
    cases t with
    | nil => exact Or.inr ⟨a, by simp, by simpa [sepLines] using h⟩
    | cons b r =>
      rw [sepLines_cons2] at h
      simp only [List.mem_append, List.mem_cons, List.not_mem_nil, or_false] at h
      rcases h with (h | h | h) | h
      · exact Or.inr ⟨a, by simp, h⟩
      · exact Or.inl h
      · exact Or.inl h
      · rcases ih h with h | ⟨L, hL, hl⟩
        · exact Or.inl h
        · exact Or.inr ⟨L, List.mem_cons_of_mem _ hL, hl⟩

/-- the sections of a configuration as named blocks -/
def docBlocks (secs : Sections) : List (String × List Block) := secs.map (fun ns => (ns.1, sectionBlocks ns.2))

theorem wfSection_parts {lower : Bool} {w kw : Nat} {n : String} {s : Section} (h : wfSectionB lower w kw n s = true) :
    wfNameB n = true ∧ s ≠ [] ∧ (∀ ke ∈ s, wfEntryB lower w kw ke.1 ke.2 = true) ∧ (s.map (·.1)).Nodup := by
  simp only [wfSectionB, Bool.and_eq_true, Bool.not_eq_true', List.all_eq_true, decide_eq_true_eq] at h
  obtain ⟨⟨⟨h1, h2⟩, h3⟩, h4⟩ := h
  exact ⟨h1, by intro e; subst e; simp at h2, h3, h4⟩

theorem wfText_parts {lower : Bool} {w kw : Nat} {secs : Sections} (h : WfText lower w kw secs = true) :
    (∀ ns ∈ secs, wfSectionB lower w kw ns.1 ns.2 = true) ∧ (secs.map (·.1)).Nodup := by
  simpa [WfText] using h

theorem noNL_header (n : String) (h : wfNameB n = true) : '\n' ∉ headerText n := by
  simp only [wfNameB, Bool.and_eq_true, List.all_eq_true, Bool.not_eq_true'] at h
  intro hm
  have hm' : '\n' ∈ n.toList := by simpa [headerText] using hm
  have := h.1.1 _ hm'
  rw [nl_blank] at this; simp at this

theorem name_ne_nil (n : String) (h : wfNameB n = true) : n.toList ≠ [] := by
  simp only [wfNameB, Bool.and_eq_true, Bool.not_eq_true'] at h
  intro e
  rw [e] at h
  simp [partDunder] at h

/-- **the lines of the written text**: `as_str` followed by the line break `write_to_file` adds is, line by
line, the sections' header lines, items and empty lines -/
theorem asStr_lines (lower : Bool) (w kw : Nat) (secs : Sections) (hne : secs ≠ [])
    (hwf : WfText lower w kw secs = true) :
    splitLines (asStr w kw secs ++ "\n").toList = fileLines w kw (padBlocks (docBlocks secs)) := by
  obtain ⟨hsec, _⟩ := wfText_parts hwf
  have hfilter : ((secs.map fun (x : String × Section) => match x with | (n, s) => sectionStr w kw n s).filter
      (fun t => !t.isEmpty)) = secs.map (fun ns => sectionStr w kw ns.1 ns.2) := by
    have hf : ∀ t ∈ (secs.map fun (x : String × Section) => match x with | (n, s) => sectionStr w kw n s),
        (!t.isEmpty) = true := by
      intro t ht
      obtain ⟨ns, hns, rfl⟩ := List.mem_map.1 ht
      obtain ⟨n, s⟩ := ns
      simp [sectionStr_ne_nil w kw n s (wfSection_parts (hsec (n, s) hns)).2.1]
    rw [List.filter_eq_self.2 hf]
  have htext : (asStr w kw secs ++ "\n").toList =
      linesText (sepLines (secs.map (sectionLinesOf w kw))) := by
    simp only [asStr, hfilter, String.toList_append, String.toList_ofList]
    rw [show "\n".toList = ['\n'] from rfl]
    exact joinWith_nl (fun ns => sectionStr w kw ns.1 ns.2) (sectionLinesOf w kw) secs hne (fun ns hns => by
      obtain ⟨_, h2, h3, _⟩ := wfSection_parts (hsec ns hns)
      exact sectionStr_nl lower w kw ns.1 ns.2 h2 h3)
  rw [htext, splitLines_linesText]
  · have := sepLines_pad w kw (docBlocks secs) (by simpa [docBlocks] using hne)
    rw [← this]
    simp only [docBlocks, List.map_map]
    rfl
  · intro l hl
    rcases mem_sepLines _ l hl with rfl | ⟨L, hL, hl⟩
    · simp
    · obtain ⟨ns, hns, rfl⟩ := List.mem_map.1 hL
      obtain ⟨h1, _, h3, _⟩ := wfSection_parts (hsec ns hns)
      simp only [sectionLinesOf, List.mem_cons, List.mem_flatMap] at hl
      rcases hl with rfl | ⟨b, hb, hl⟩
      · exact noNL_header ns.1 h1
      · cases b with
        | blank => simp [blockLines] at hl; subst hl; simp
        | item it =>
          have hit : it ∈ sectionItems ns.2 := by
            rw [← blockItems_section]
            clear hl
            generalize sectionBlocks ns.2 = bs at hb
            induction bs with
            | nil => simp at hb
            | cons x t ih =>
              rcases List.mem_cons.1 hb with h | h
              · subst h; simp [blockItems]
              · cases x <;> simp [blockItems, ih h]
          obtain ⟨ke, hke, hit'⟩ := List.mem_flatMap.1 hit
          exact itemLines_noNL lower w kw it (itemOK_entry lower w kw ke.1 ke.2 (h3 ke hke) it hit') l hl

/-- **what the reader returns for the written text**: the sections in order, each with the options of its
entries and metadata in order (`RawSecs`) -/
theorem read_asStr (lower : Bool) (w kw : Nat) (secs : Sections) (hne : secs ≠ [])
    (hwf : WfText lower w kw secs = true) :
    ∃ raw, readIniRaw lower (asStr w kw secs ++ "\n") = .ok raw ∧
      RawSecs raw (secs.map (fun ns => (ns.1, sectionItems ns.2))) := by
  obtain ⟨hsec, hnd⟩ := wfText_parts hwf
  obtain ⟨raw, h1, h2⟩ := readIniRaw_sections lower w kw (padBlocks (docBlocks secs)) _
    (asStr_lines lower w kw secs hne hwf) (by
      intro sb hsb
      have hmem : (sb.1, blockItems sb.2) ∈ (docBlocks secs).map (fun sb => (sb.1, blockItems sb.2)) := by
        rw [← padBlocks_items]; exact List.mem_map.2 ⟨sb, hsb, rfl⟩
      simp only [docBlocks, List.map_map, Function.comp, List.mem_map, blockItems_section] at hmem
      obtain ⟨ns, hns, heq⟩ := hmem
      simp only [Prod.mk.injEq] at heq
      obtain ⟨h1, _, h3, h4⟩ := wfSection_parts (hsec ns hns)
      rw [← heq.1, ← heq.2]
      refine ⟨name_ne_nil ns.1 h1, ?_, nodup_sectionItems lower w kw ns.2 h3 h4⟩
      intro it hit
      obtain ⟨ke, hke, hit'⟩ := List.mem_flatMap.1 hit
      exact itemOK_entry lower w kw ke.1 ke.2 (h3 ke hke) it hit')
    (by rw [padBlocks_names]; simp only [docBlocks, List.map_map]; exact hnd)
  refine ⟨raw, h1, ?_⟩
  have hmap : (docBlocks secs).map (fun sb => (sb.1, blockItems sb.2)) = secs.map (fun ns => (ns.1, sectionItems ns.2)) := by
    simp only [docBlocks, List.map_map]
    apply List.map_congr_left
    intro ns _
    simp [blockItems_section]
  rw [padBlocks_items, hmap] at h2
  exact h2

end Midgard.Proofs.ConfigText
