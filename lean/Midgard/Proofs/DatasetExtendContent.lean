/-
C09 — the content half of the `extend` refinement, for the plain array kinds (bool, float, text, at any
nesting depth): the heap/memo model of `Dataset.extend` refines a heap-free list-of-records function.

`AField` is a column tree without heap, memo and `num_obs`: names, kinds, units, levels and the rows
themselves.  `aExtendFields us n m self other` is the list-of-records statement of "append the other
table": a column in both tables gets the other rows appended (float: times the unit factor
`Unit(other unit, own unit)` column by column), a column only in self gets `m` empty values at the end, a
column only in other gets `n` empty values in front, collections recurse, the order of the columns is the
order of self followed by the new columns of other.
-/
import Midgard.Proofs.DatasetExtendRows
import Midgard.Model.DatasetRecords

namespace Midgard.Dataset

/-! ### basic facts about the abstraction -/

theorem absFields_eq_map (h : Heap) : ∀ (fs : List Field), absField.absFields h fs = fs.map (absField h)
  | [] => rfl
  | f :: fs => by simp [absField.absFields, absFields_eq_map h fs]

theorem absField_name (h : Heap) : ∀ (f : Field), (absField h f).name = f.name
  | .leaf n k o no u l => by
    simp only [absField]
    split <;> rfl
  | .coll .. => rfl

theorem aNames_abs (h : Heap) (fs : List Field) : aNames (absField.absFields h fs) = names fs := by
  simp [aNames, names, absFields_eq_map, absField_name]

theorem aGet_abs (h : Heap) : ∀ (fs : List Field) (n : String),
    aGet (absField.absFields h fs) n = (getField fs n).map (absField h)
  | [], n => by simp [aGet, getField, absField.absFields]
  | f :: fs, n => by
    have ih := aGet_abs h fs n
    simp only [aGet, getField, absField.absFields, List.find?_cons, absField_name] at ih ⊢
    split
    · rfl
    · exact ih

theorem aSet_abs (h : Heap) : ∀ (acc : List Field) (f : Field),
    absField.absFields h (setField acc f) = aSet (absField.absFields h acc) (absField h f)
  | [], f => by simp [setField, aSet, absField.absFields]
  | g :: gs, f => by
    simp only [setField, absField.absFields, aSet, absField_name]
    split
    · simp [absField.absFields]
    · simp [absField.absFields, aSet_abs h gs f]

/-! the abstraction of a field whose arrays exist does not change when the heap grows -/
mutual
theorem absField_ext {h h' : Heap} {n : Nat} (e : HeapExt h h') : ∀ (f : Field), RectField h n f →
    absField h' f = absField h f
  | .leaf nm k o no u l, hr => by
    simp only [RectField] at hr
    obtain ⟨ob, h1, _⟩ := hr.1.dest
    simp only [absField, h1, e.get h1]
  | .coll nm no l fs, hr => by
    simp only [RectField] at hr
    simp only [absField, absFields_ext e fs hr.1]
theorem absFields_ext {h h' : Heap} {n : Nat} (e : HeapExt h h') : ∀ (fs : List Field), RectField.RectFields h n fs →
    absField.absFields h' fs = absField.absFields h fs
  | [], _ => rfl
  | f :: fs, hr => by
    simp only [RectField.RectFields] at hr
    simp only [absField.absFields, absField_ext e f hr.1, absFields_ext e fs hr.2]
end

theorem aPad_zero (front : Bool) : ∀ (f : AField), aPad front 0 f = f
  | .leaf .. => by simp [aPad]
  | .coll n l fs => by
    simp only [aPad]
    congr
    exact aPads_zero front fs
where aPads_zero (front : Bool) : ∀ (fs : List AField), aPad.aPads front 0 fs = fs
  | [] => rfl
  | f :: fs => by simp [aPad.aPads, aPad_zero front f, aPads_zero front fs]

/-! ### `prepend_empty` / `append_empty` -/
mutual
theorem padField_abs (front : Bool) (n k : Nat) : ∀ (f : Field) (s : St) (f' : Field) (s' : St),
    padField front k f s = .ok (f', s') → MemoGood (n + k) s → RectField s.heap n f → WFF f →
    f.plain = true →
    absField s'.heap f' = aPad front k (absField s.heap f)
  | .leaf nm kd o no u l, s, f', s', h, _, hr, _, hp => by
    simp only [padField] at h
    · simp only [RectField] at hr
      obtain ⟨go, hno⟩ := hr
      obtain ⟨ob0, hb1, hb2, _, _⟩ := go.dest
      have hpl : kd.isPlain = true := by simpa [Field.plain] using hp
      split at h
      · simp at h
      · rename_i ob hob
        rw [hb1] at hob; cases hob
        split at h
        · split at h <;> simp at h
        · split at h
          · simp at h
          · rename_i o' s1 hr1
            simp only [Except.ok.injEq, Prod.mk.injEq] at h
            obtain ⟨rfl, rfl⟩ := h
            obtain ⟨oa, orr, q1, q2, q3, _, q5, q6⟩ := insertPlain_rows o _ _ s o' s1 hr1
            rw [hb1] at q1; cases q1
            simp only [absField, q2, hb1, aPad, q5, q6, q3]
            congr 1
            have hlen : no = ob0.rows.length := by rw [hb2, hno]
            cases front with
            | true => simp [insertAt_zero]
            | false => simp only [Bool.false_eq_true, if_false]; rw [hlen, insertAt_end]
  | .coll nm no l fs, s, f', s', h, hm, hr, hw, hp => by
    simp only [padField] at h
    · split at h
      · simp at h
      · rename_i fs' s1 hr1
        simp only [Except.ok.injEq, Prod.mk.injEq] at h
        obtain ⟨rfl, rfl⟩ := h
        simp only [RectField] at hr
        simp only [WFF] at hw
        simp only [absField, aPad]
        congr 1
        exact padFields_abs front n k fs s fs' s1 hr1 hm hr.1 hw.2 (by simpa [Field.plain] using hp)
theorem padFields_abs (front : Bool) (n k : Nat) : ∀ (fs : List Field) (s : St) (fs' : List Field) (s' : St),
    padField.padFields front k fs s = .ok (fs', s') → MemoGood (n + k) s → RectField.RectFields s.heap n fs →
    WFF.WFFs fs → Field.plain.plainL fs = true →
    absField.absFields s'.heap fs' = aPad.aPads front k (absField.absFields s.heap fs)
  | [], s, fs', s', h, _, _, _, _ => by
    simp only [padField.padFields, Except.ok.injEq, Prod.mk.injEq] at h
    obtain ⟨rfl, rfl⟩ := h
    rfl
  | f :: fs, s, fs', s', h, hm, hr, hw, hp => by
    simp only [padField.padFields] at h
    split at h
    · simp at h
    · rename_i f1 s1 h1
      split at h
      · simp at h
      · rename_i fs1 s2 h2
        simp only [Except.ok.injEq, Prod.mk.injEq] at h
        obtain ⟨rfl, rfl⟩ := h
        simp only [RectField.RectFields] at hr
        simp only [WFF.WFFs] at hw
        have hp1 : f.plain = true := by
          have := hp; simp only [Field.plain.plainL, Bool.and_eq_true] at this; exact this.1
        have hp2 : Field.plain.plainL fs = true := by
          have := hp; simp only [Field.plain.plainL, Bool.and_eq_true] at this; exact this.2
        obtain ⟨⟨e1, m1⟩, r1, _⟩ := padField_spec front n k f s f1 s1 h1 hm hr.1 hw.1
        have hr2 := RectFields.ext e1 fs hr.2
        obtain ⟨⟨e2, _⟩, _, _⟩ := padFields_spec front n k fs s1 fs1 s2 h2 m1 hr2 hw.2
        have a1 := padField_abs front n k f s f1 s1 h1 hm hr.1 hw.1 hp1
        have a2 := padFields_abs front n k fs s1 fs1 s2 h2 m1 hr2 hw.2 hp2
        simp only [absField.absFields, aPad.aPads]
        rw [absField_ext e2 f1 r1, a1, a2, absFields_ext e1 fs hr.2]
end

/-! ### a leaf of self extended by the leaf of other -/

theorem extendLeaf_abs (us : Units) (n m : Nat) (nm : String) (k : Kind) (o no : Nat) (u : Option (List String)) (l : Nat)
    (g : Field) (s : St) (f' : Field) (s' : St)
    (h : extendLeaf us nm k o no u l g s = .ok (f', s'))
    (hr : RectField s.heap n (.leaf nm k o no u l)) (hp : k.isPlain = true) :
    aExtend us n m (absField s.heap (.leaf nm k o no u l)) (absField s.heap g) = some (absField s'.heap f') := by
  simp only [extendLeaf] at h
  split at h
  · simp at h
  · rename_i nm2 k2 o2 no2 u2 l2
    split at h
    · simp at h
    · rename_i hkk
      have hk2 : k2 = k := by
        have h0 : ¬ ((k != k2) = true) := hkk
        simp only [bne_iff_ne, ne_eq, Decidable.not_not] at h0
        exact h0.symm
      subst hk2
      simp only [RectField] at hr
      obtain ⟨go, hno⟩ := hr
      obtain ⟨oa0, ha1, ha2, _, _⟩ := go.dest
      split at h
      · rename_i oa ob hoa hob
        rw [ha1] at hoa; cases hoa
        split at h
        · simp at h
        · split at h
          · simp at h
          · rename_i o' s1 hr1
            simp only [Except.ok.injEq, Prod.mk.injEq] at h
            obtain ⟨rfl, rfl⟩ := h
            have hnd : k2.isDelta = false := by cases k2 <;> simp_all [Kind.isPlain, Kind.isDelta]
            have hns : (k2 == Kind.sigma) = false := by cases k2 <;> simp_all [Kind.isPlain]
            have hlen : no = oa0.rows.length := by rw [ha2, hno]
            simp only [hnd, Bool.false_eq_true, if_false] at hr1
            split at hr1
            · simp at hr1
            · rename_i hndim
              have endim : oa0.ndim = ob.ndim := by simpa using hndim
              simp only [absField, ha1, hob, aExtend, aExtendLeaf, bne_self_eq_false, Bool.false_or]
              by_cases hf : (k2 == Kind.float) = true
              · simp only [hf, if_true] at hr1 ⊢
                split at hr1
                · simp at hr1
                · rename_i fs hfs
                  split at hr1
                  · simp at hr1
                  · rename_i hcols
                    have ecols : oa0.cols = ob.cols := by simpa using hcols
                    obtain ⟨oa', orr, q1, q2, q3, _, q5, q6⟩ := insertPlain_rows o no _ s o' s1 hr1
                    rw [ha1] at q1; cases q1
                    have hcond : (oa0.ndim != ob.ndim || oa0.cols != ob.cols) = false := by simp [endim, ecols]
                    simp only [hcond, Bool.false_eq_true, if_false, hfs, q2, q5, q6, q3, hlen, insertAt_end]
              · have hf' : (k2 == Kind.float) = false := by simpa using hf
                simp only [hf', hns, Bool.false_eq_true, if_false, hp, if_true] at hr1 ⊢
                split at hr1
                · simp at hr1
                · rename_i hcols
                  have ecols : oa0.cols = ob.cols := by simpa using hcols
                  obtain ⟨oa', orr, q1, q2, q3, _, q5, q6⟩ := insertPlain_rows o no _ s o' s1 hr1
                  rw [ha1] at q1; cases q1
                  have hcond : (oa0.ndim != ob.ndim || oa0.cols != ob.cols) = false := by simp [endim, ecols]
                  simp only [hcond, Bool.false_eq_true, if_false, q2, q5, q6, q3, hlen, insertAt_end]
      · simp at h

theorem absFields_ext' {h h' : Heap} (e : HeapExt h h') : ∀ (fs : List Field), (∀ f ∈ fs, ∃ k, RectField h k f) →
    absField.absFields h' fs = absField.absFields h fs
  | [], _ => rfl
  | f :: fs, hr => by
    obtain ⟨k, hk⟩ := hr f (by simp)
    simp only [absField.absFields, absField_ext e f hk,
      absFields_ext' e fs (fun c hc => hr c (List.mem_cons_of_mem _ hc))]

theorem mem_plainL : ∀ (fs : List Field), Field.plain.plainL fs = true → ∀ f ∈ fs, f.plain = true
  | [], _, f, hf => by simp at hf
  | c :: cs, hp, f, hf => by
    simp only [Field.plain.plainL, Bool.and_eq_true] at hp
    rcases List.mem_cons.mp hf with rfl | hf
    · exact hp.1
    · exact mem_plainL cs hp.2 f hf

/-! ### the second loop of `Collection._extend` -/

theorem appendLoop_abs (n m : Nat) (p : String → Bool) : ∀ (acc : List Field) (s : St)
    (acc' : List Field) (s' : St), appendLoop p m acc s = .ok (acc', s') → MemoGood (n + m) s →
    (∀ f ∈ acc, WFF f ∧ (p f.name = true → RectField s.heap n f ∧ f.plain = true) ∧
      (p f.name = false → RectField s.heap (n + m) f)) →
    absField.absFields s'.heap acc' =
      (absField.absFields s.heap acc).map (fun f => if p f.name then aPad false m f else f)
  | [], s, acc', s', h, _, _ => by
    simp only [appendLoop, Except.ok.injEq, Prod.mk.injEq] at h
    obtain ⟨rfl, rfl⟩ := h
    rfl
  | f :: fs, s, acc', s', h, hm, hall => by
    simp only [appendLoop] at h
    split at h
    · simp at h
    · rename_i f1 s1 hstep
      split at h
      · simp at h
      · rename_i fs1 s2 hrest
        simp only [Except.ok.injEq, Prod.mk.injEq] at h
        obtain ⟨rfl, rfl⟩ := h
        obtain ⟨w, hp1, hp0⟩ := hall f (by simp)
        have key : ExtOK (n + m) s s1 ∧ RectField s1.heap (n + m) f1 ∧
            absField s1.heap f1 = (if p f.name then aPad false m (absField s.heap f) else absField s.heap f) := by
          split at hstep
          · rename_i hp
            obtain ⟨a, b, _⟩ := padField_spec false n m f s f1 s1 hstep hm (hp1 hp).1 w
            exact ⟨a, b, by rw [if_pos hp]; exact padField_abs false n m f s f1 s1 hstep hm (hp1 hp).1 w (hp1 hp).2⟩
          · rename_i hp
            simp only [Except.ok.injEq, Prod.mk.injEq] at hstep
            obtain ⟨rfl, rfl⟩ := hstep
            exact ⟨⟨HeapExt.refl _, hm⟩, hp0 (by simpa using hp), by rw [if_neg hp]⟩
        obtain ⟨⟨e1, m1⟩, r1, a1⟩ := key
        have hall' : ∀ c ∈ fs, WFF c ∧ (p c.name = true → RectField s1.heap n c ∧ c.plain = true) ∧
            (p c.name = false → RectField s1.heap (n + m) c) := fun c hc => by
          obtain ⟨a, c1, c0⟩ := hall c (List.mem_cons_of_mem _ hc)
          exact ⟨a, fun hp => ⟨RectField.ext e1 c (c1 hp).1, (c1 hp).2⟩, fun hp => RectField.ext e1 c (c0 hp)⟩
        obtain ⟨⟨e2, _⟩, _, _⟩ := appendLoop_spec n m p fs s1 fs1 s2 hrest m1 (fun c hc => by
          obtain ⟨a, c1, c0⟩ := hall' c hc
          exact ⟨a, fun hp => (c1 hp).1, c0⟩)
        have a2 := appendLoop_abs n m p fs s1 fs1 s2 hrest m1 hall'
        have hfs : absField.absFields s1.heap fs = absField.absFields s.heap fs :=
          absFields_ext' e1 fs (fun c hc => by
            obtain ⟨_, c1, c0⟩ := hall c (List.mem_cons_of_mem _ hc)
            cases hp : p c.name with
            | true => exact ⟨n, (c1 hp).1⟩
            | false => exact ⟨n + m, c0 hp⟩)
        simp only [absField.absFields, List.map_cons, absField_name]
        rw [absField_ext e2 f1 r1, a1, a2, hfs]

/-! ### `Collection._extend`: the loop over the other collection, and `FieldType.extend` -/
mutual
theorem extendField_abs (us : Units) (n m : Nat) : ∀ (g f : Field) (s : St) (f' : Field) (s' : St),
    extendField us f g s = .ok (f', s') → MemoGood (n + m) s →
    RectField s.heap n f → RectField s.heap m g → WFF f → WFF g → f.plain = true → g.plain = true →
    aExtend us n m (absField s.heap f) (absField s.heap g) = some (absField s'.heap f')
  | g, .leaf nm k o no u l, s, f', s', h, _, hrf, _, _, _, hpf, _ => by
    simp only [extendField] at h
    exact extendLeaf_abs us n m nm k o no u l g s f' s' h hrf (by simpa [Field.plain] using hpf)
  | .leaf .., .coll .., s, f', s', h, _, _, _, _, _, _, _ => by
    simp [extendField] at h
  | .coll nm2 no2 l2 gs, .coll nm no l fs, s, f', s', h, hm, hrf, hrg, hwf, hwg, hpf, hpg => by
    simp only [extendField] at h
    split at h
    · simp at h
    · rename_i fs' s2 hfin
      simp only [Except.ok.injEq, Prod.mk.injEq] at h
      obtain ⟨rfl, rfl⟩ := h
      have hsl : collRows s.heap no fs = n := collRows_eq hrf
      have hol : collRows s.heap no2 gs = m := collRows_eq hrg
      rw [hsl, hol] at hfin
      simp only [extendFinish] at hfin
      split at hfin
      · simp at hfin
      · rename_i acc1 s1 hloop
        simp only [RectField] at hrf hrg
        simp only [WFF] at hwf hwg
        have hf_each := (WFFs_iff fs).mp hwf.2
        have hg_each := (WFFs_iff gs).mp hwg.2
        have hf_rect := (rectFields_iff fs).mp hrf.1
        have hg_rect := (rectFields_iff gs).mp hrg.1
        have hpf' : Field.plain.plainL fs = true := by simpa [Field.plain] using hpf
        have hpg' : Field.plain.plainL gs = true := by simpa [Field.plain] using hpg
        have inv0 : AccInv s.heap n m (names fs) (fun _ => False) fs :=
          ⟨hwf.1, fun c hc => ⟨hf_each c hc, fun hd => absurd hd id,
            fun _ => ⟨hf_rect c hc, List.mem_map_of_mem hc⟩⟩⟩
        have hgs : ∀ g ∈ gs, RectField s.heap m g ∧ WFF g := fun g hg => ⟨hg_rect g hg, hg_each g hg⟩
        obtain ⟨⟨e1, m1⟩, inv1⟩ := loop1_spec us n m (names fs) gs (fun _ => False) fs s acc1 s1 hloop hm inv0
          hgs hwg.1 (fun g _ hd => hd)
        obtain ⟨a1, pl1⟩ := loop1_abs us n m (names fs) gs (fun _ => False) fs s acc1 s1 hloop hm inv0
          hgs hwg.1 (fun g _ hd => hd) (fun c hc _ => mem_plainL fs hpf' c hc) hpg'
        have a2 := appendLoop_abs n m (onlyInSelf (names fs) (names gs) m) acc1 s1 fs' s2 hfin m1 (by
          intro c hc
          obtain ⟨c1, c3, c4⟩ := inv1.each c hc
          refine ⟨c1, ?_, ?_⟩
          · intro hp
            by_cases hd : (False ∨ c.name ∈ names gs)
            · have hd' : c.name ∈ names gs := by simpa using hd
              exfalso
              simp only [onlyInSelf, Bool.and_eq_true, Bool.not_eq_true',
                List.contains_eq_mem, decide_eq_true_eq, decide_eq_false_iff_not] at hp
              exact hp.2 hd'
            · exact ⟨(c4 hd).1, pl1 c hc hd⟩
          · intro hp
            by_cases hd : (False ∨ c.name ∈ names gs)
            · exact c3 hd
            · exfalso
              have hd' : c.name ∉ names gs := by simpa using hd
              have hin := (c4 hd).2
              simp only [onlyInSelf, Bool.and_eq_false_iff, Bool.not_eq_false',
                List.contains_eq_mem, decide_eq_false_iff_not, decide_eq_true_eq] at hp
              rcases hp with h0 | h0
              · exact h0 hin
              · exact hd' h0)
        simp only [absField, aExtend, aNames_abs, a1, aFinish, a2]
theorem loop1_abs (us : Units) (n m : Nat) (selfKeys : List String) :
    ∀ (gs : List Field) (done : String → Prop) (acc : List Field) (s : St) (acc' : List Field) (s' : St),
    extendField.loop1 us selfKeys n acc gs s = .ok (acc', s') → MemoGood (n + m) s →
    AccInv s.heap n m selfKeys done acc →
    (∀ g ∈ gs, RectField s.heap m g ∧ WFF g) → (names gs).Nodup →
    (∀ g ∈ gs, ¬ done g.name) →
    (∀ f ∈ acc, ¬ done f.name → f.plain = true) → Field.plain.plainL gs = true →
    aExtend.aLoop us n m selfKeys (absField.absFields s.heap acc) (absField.absFields s.heap gs) =
        some (absField.absFields s'.heap acc') ∧
      (∀ f ∈ acc', ¬ (done f.name ∨ f.name ∈ names gs) → f.plain = true)
  | [], done, acc, s, acc', s', h, _, _, _, _, _, hpa, _ => by
    simp only [extendField.loop1, Except.ok.injEq, Prod.mk.injEq] at h
    obtain ⟨rfl, rfl⟩ := h
    exact ⟨rfl, fun f hf hd => hpa f hf (fun h0 => hd (Or.inl h0))⟩
  | g :: gs, done, acc, s, acc', s', h, hm, inv, hgs, hnd, hdone, hpa, hpg => by
    simp only [extendField.loop1] at h
    split at h
    · simp at h
    · rename_i f1 s1 hstep
      obtain ⟨hg_rect, hg_wff⟩ := hgs g (by simp)
      have hgd : ¬ done g.name := hdone g (by simp)
      simp only [names, List.map_cons, List.nodup_cons] at hnd
      simp only [Field.plain.plainL, Bool.and_eq_true] at hpg
      -- the field made for the name of `g`, and its abstraction
      have key : ExtOK (n + m) s s1 ∧ RectField s1.heap (n + m) f1 ∧ WFF f1 ∧ f1.name = g.name ∧
          (((!selfKeys.contains g.name || n == 0) = true ∧ absField s1.heap f1 = aPad true n (absField s.heap g)) ∨
           (¬ (!selfKeys.contains g.name || n == 0) = true ∧ ∃ f, getField acc g.name = some f ∧
              aExtend us n m (absField s.heap f) (absField s.heap g) = some (absField s1.heap f1))) := by
        split at hstep
        · rename_i hc
          have hm' : MemoGood (m + n) s := by rw [Nat.add_comm]; exact hm
          obtain ⟨⟨e, mm⟩, r, sh⟩ := padField_spec true m n g s f1 s1 hstep hm' hg_rect hg_wff
          have ab := padField_abs true m n g s f1 s1 hstep hm' hg_rect hg_wff hpg.1
          rw [Nat.add_comm] at mm r
          exact ⟨⟨e, mm⟩, r, SameShape.wff g f1 sh hg_wff, sh.name, Or.inl ⟨hc, ab⟩⟩
        · rename_i hc
          split at hstep
          · simp at hstep
          · rename_i f hget
            obtain ⟨hfin, hfname⟩ := getField_some hget
            obtain ⟨c1, _, c4⟩ := inv.each f hfin
            have hfd : ¬ done f.name := by rw [hfname]; exact hgd
            obtain ⟨e, r, w, nmq⟩ := extendField_spec us n m g f s f1 s1 hstep hm (c4 hfd).1 hg_rect c1 hg_wff
            have ab := extendField_abs us n m g f s f1 s1 hstep hm (c4 hfd).1 hg_rect c1 hg_wff (hpa f hfin hfd) hpg.1
            exact ⟨e, r, w, by rw [nmq, hfname], Or.inr ⟨hc, f, hget, ab⟩⟩
      obtain ⟨⟨e1, m1⟩, r1, w1, nm1, ab1⟩ := key
      have inv1 := (inv.ext e1).step (f' := f1) (nm := g.name) nm1 w1 r1
      have hgs1 : ∀ g' ∈ gs, RectField s1.heap m g' ∧ WFF g' := fun g' hg' => by
        obtain ⟨a, b⟩ := hgs g' (List.mem_cons_of_mem _ hg')
        exact ⟨RectField.ext e1 g' a, b⟩
      have hdone1 : ∀ g' ∈ gs, ¬ (done g'.name ∨ g'.name = g.name) := fun g' hg' hd => by
        rcases hd with hd | hd
        · exact hdone g' (List.mem_cons_of_mem _ hg') hd
        · exact hnd.1 (hd ▸ List.mem_map_of_mem hg')
      have hpa1 : ∀ f ∈ setField acc f1, ¬ (done f.name ∨ f.name = g.name) → f.plain = true := fun f hf hd => by
        rcases mem_setField_nodup inv.nodup hf with rfl | ⟨hin, _⟩
        · exact absurd (Or.inr nm1) hd
        · exact hpa f hin (fun h0 => hd (Or.inl h0))
      obtain ⟨a2, pl2⟩ := loop1_abs us n m selfKeys gs _ (setField acc f1) s1 acc' s' h m1 inv1 hgs1
        (by simpa [names] using hnd.2) hdone1 hpa1 hpg.2
      refine ⟨?_, fun f hf hd => pl2 f hf (fun h0 => hd (by
        rcases h0 with (h0 | h0) | h0
        · exact Or.inl h0
        · exact Or.inr (by simp [names, h0])
        · exact Or.inr (by simp only [names, List.map_cons, List.mem_cons]; exact Or.inr h0)))⟩
      -- one step of the abstract loop
      have hacc : absField.absFields s1.heap acc = absField.absFields s.heap acc :=
        absFields_ext' e1 acc (fun c hc => by
          obtain ⟨_, c3, c4⟩ := inv.each c hc
          by_cases hd : done c.name
          · exact ⟨n + m, c3 hd⟩
          · exact ⟨n, (c4 hd).1⟩)
      have hgs' : absField.absFields s1.heap gs = absField.absFields s.heap gs :=
        absFields_ext' e1 gs (fun c hc => ⟨m, (hgs c (List.mem_cons_of_mem _ hc)).1⟩)
      rw [aSet_abs, hacc, hgs'] at a2
      simp only [absField.absFields, aExtend.aLoop, absField_name]
      rcases ab1 with ⟨hc, ab⟩ | ⟨hc, f, hget, ab⟩
      · rw [if_pos hc, ← ab]
        exact a2
      · rw [if_neg hc, aGet_abs, hget]
        simp only [Option.map_some]
        rw [ab]
        exact a2
end

/-- **`Dataset.extend` refines the list-of-records `extend`** for datasets of plain columns -/
theorem dsExtend_abs (us : Units) (h : Heap) (d e : DS) (h' : Heap) (d' : DS)
    (hok : dsExtend us h d e = .ok (h', d')) (hd : Rect h d) (he : Rect h e) (okd : DSOK d) (oke : DSOK e)
    (hpd : Field.plain.plainL d.fields = true) (hpe : Field.plain.plainL e.fields = true) :
    aExtendFields us d.numObs e.numObs (absField.absFields h d.fields) (absField.absFields h e.fields) =
      some (absField.absFields h' d'.fields) := by
  simp only [dsExtend] at hok
  split at hok
  · simp at hok
  · rename_i fs' s2 hfin
    simp only [Except.ok.injEq, Prod.mk.injEq] at hok
    obtain ⟨rfl, rfl⟩ := hok
    simp only [extendFields, extendFinish] at hfin
    split at hfin
    · simp at hfin
    · rename_i acc1 s1 hloop
      have hm : MemoGood (d.numObs + e.numObs) { heap := h, conv := us.conv } := by intro a v hav; simp at hav
      have hf_rect := (rectFields_iff d.fields).mp hd
      have hg_rect := (rectFields_iff e.fields).mp he
      have inv0 : AccInv h d.numObs e.numObs (names d.fields) (fun _ => False) d.fields :=
        ⟨okd.nodup, fun c hc => ⟨okd.wff c hc, fun hx => absurd hx id,
          fun _ => ⟨hf_rect c hc, List.mem_map_of_mem hc⟩⟩⟩
      have hgs : ∀ g ∈ e.fields, RectField h e.numObs g ∧ WFF g := fun g hg => ⟨hg_rect g hg, oke.wff g hg⟩
      obtain ⟨⟨e1, m1⟩, inv1⟩ := loop1_spec us d.numObs e.numObs (names d.fields) e.fields (fun _ => False)
        d.fields { heap := h, conv := us.conv } acc1 s1 hloop hm inv0 hgs oke.nodup (fun g _ hx => hx)
      obtain ⟨a1, pl1⟩ := loop1_abs us d.numObs e.numObs (names d.fields) e.fields (fun _ => False)
        d.fields { heap := h, conv := us.conv } acc1 s1 hloop hm inv0 hgs oke.nodup (fun g _ hx => hx)
        (fun c hc _ => mem_plainL d.fields hpd c hc) hpe
      have a2 := appendLoop_abs d.numObs e.numObs (onlyInSelf (names d.fields) (names e.fields) e.numObs) acc1 s1 fs' s2
        hfin m1 (by
        intro c hc
        obtain ⟨c1, c3, c4⟩ := inv1.each c hc
        refine ⟨c1, ?_, ?_⟩
        · intro hp
          by_cases hx : (False ∨ c.name ∈ names e.fields)
          · have hx' : c.name ∈ names e.fields := by simpa using hx
            exfalso
            simp only [onlyInSelf, Bool.and_eq_true, Bool.not_eq_true',
              List.contains_eq_mem, decide_eq_true_eq, decide_eq_false_iff_not] at hp
            exact hp.2 hx'
          · exact ⟨(c4 hx).1, pl1 c hc hx⟩
        · intro hp
          by_cases hx : (False ∨ c.name ∈ names e.fields)
          · exact c3 hx
          · exfalso
            have hx' : c.name ∉ names e.fields := by simpa using hx
            have hin := (c4 hx).2
            simp only [onlyInSelf, Bool.and_eq_false_iff, Bool.not_eq_false',
              List.contains_eq_mem, decide_eq_false_iff_not, decide_eq_true_eq] at hp
            rcases hp with h0 | h0
            · exact h0 hin
            · exact hx' h0)
      simp only [aExtendFields, aNames_abs]
      have a1' : aExtend.aLoop us d.numObs e.numObs (names d.fields) (absField.absFields h d.fields)
          (absField.absFields h e.fields) = some (absField.absFields s1.heap acc1) := a1
      rw [a1']
      simp only [aFinish, a2]

end Midgard.Dataset
