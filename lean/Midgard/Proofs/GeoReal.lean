/-
The real-number instance of the analytic models' `Trig` class and entrywise extensionality
lemmas for the small vector/matrix structures (used by Props/C05, C06, C07).
-/
import Mathlib.Analysis.SpecialFunctions.Trigonometric.Basic
import Mathlib.Analysis.SpecialFunctions.Trigonometric.Inverse
import Mathlib.Analysis.SpecialFunctions.Trigonometric.Arctan
import Mathlib.Analysis.SpecialFunctions.Trigonometric.Deriv
import Mathlib.Analysis.SpecialFunctions.Complex.Arg
import Mathlib.Analysis.Real.Sqrt
import Mathlib.Tactic.Ring
import Mathlib.Tactic.LinearCombination
import Mathlib.Tactic.FieldSimp
import Mathlib.Tactic.Linarith
import Mathlib.Tactic.Positivity
import Mathlib.Tactic.NormNum
import Midgard.Model.Vec3

namespace Midgard.Geo

/-- `Trig ℝ`: the functions the `Float` instance approximates.  `atan2 y x` is the argument of
`x + i y` (NumPy's `arctan2`, range (-π, π]). -/
noncomputable instance instTrigReal : Trig ℝ where
  sin := Real.sin
  cos := Real.cos
  sqrt := Real.sqrt
  atan := Real.arctan
  asin := Real.arcsin
  atan2 := fun y x => Complex.arg ⟨x, y⟩
  pi := Real.pi

@[simp] theorem trig_sin (x : ℝ) : Trig.sin x = Real.sin x := rfl
@[simp] theorem trig_cos (x : ℝ) : Trig.cos x = Real.cos x := rfl
@[simp] theorem trig_sqrt (x : ℝ) : Trig.sqrt x = Real.sqrt x := rfl
@[simp] theorem trig_atan (x : ℝ) : Trig.atan x = Real.arctan x := rfl
@[simp] theorem trig_asin (x : ℝ) : Trig.asin x = Real.arcsin x := rfl
@[simp] theorem trig_pi : (Trig.pi : ℝ) = Real.pi := rfl
theorem trig_atan2 (y x : ℝ) : Trig.atan2 y x = Complex.arg ⟨x, y⟩ := rfl

theorem V3.ext' {α : Type} {u v : V3 α} (hx : u.x = v.x) (hy : u.y = v.y) (hz : u.z = v.z) : u = v := by
  cases u; cases v; simp_all

theorem M3.ext' {α : Type} {m n : M3 α} (h1 : m.r1 = n.r1) (h2 : m.r2 = n.r2) (h3 : m.r3 = n.r3) : m = n := by
  cases m; cases n; simp_all

theorem V6.ext' {α : Type} {u v : V6 α} (hp : u.p = v.p) (hv : u.v = v.v) : u = v := by
  cases u; cases v; simp_all

/-- entry `(i, j)` of a 3×3 matrix -/
def M3.entry {α : Type} (m : M3 α) (i j : Fin 3) : α :=
  let r := match i with | 0 => m.r1 | 1 => m.r2 | 2 => m.r3
  match j with | 0 => r.x | 1 => r.y | 2 => r.z

end Midgard.Geo
