/-
The real-number instance of the analytic models' `Trig` class and entrywise extensionality
lemmas for the small vector/matrix structures (used by Props/C05, C06, C07).
-/
import Mathlib.Analysis.SpecialFunctions.Trigonometric.Basic
import Mathlib.Analysis.SpecialFunctions.Trigonometric.Inverse
import Mathlib.Analysis.SpecialFunctions.Trigonometric.Arctan
import Mathlib.Analysis.SpecialFunctions.Trigonometric.Deriv
import Mathlib.Analysis.SpecialFunctions.Complex.Arg
import Mathlib.Analysis.Real.Sqrt
import Mathlib.Tactic.Ring
import Mathlib.Tactic.LinearCombination
import Mathlib.Tactic.FieldSimp
import Mathlib.Tactic.Linarith
import Mathlib.Tactic.Positivity
import Mathlib.Tactic.NormNum
import Midgard.Model.Vec3

namespace Midgard.Geo

/-- `Trig ℝ`: the functions the `Float` instance approximates.  `atan2 y x` is the argument of
`x + i y` (NumPy's `arctan2`, range (-π, π]). -/
noncomputable instance instTrigReal : Trig ℝ where
  sin := Real.sin
  cos := Real.cos
  sqrt := Real.sqrt
  atan := Real.arctan
  asin := Real.arcsin
  atan2 := fun y x => Complex.arg ⟨x, y⟩
  pi := Real.pi

@[simp] theorem trig_sin (x : ℝ) : Trig.sin x = Real.sin x := rfl
@[simp] theorem trig_cos (x : ℝ) : Trig.cos x = Real.cos x := rfl
@[simp] theorem trig_sqrt (x : ℝ) : Trig.sqrt x = Real.sqrt x := rfl
@[simp] theorem trig_atan (x : ℝ) : Trig.atan x = Real.arctan x := rfl
@[simp] theorem trig_asin (x : ℝ) : Trig.asin x = Real.arcsin x := rfl
@[simp] theorem trig_pi : (Trig.pi : ℝ) = Real.pi := rfl
theorem trig_atan2 (y x : ℝ) : Trig.atan2 y x = Complex.arg ⟨x, y⟩ := rfl

theorem V3.ext' {α : Type} {u v : V3 α} (hx : u.x = v.x) (hy : u.y = v.y) (hz : u.z = v.z) : u = v := by
  cases u; cases v; simp_all

theorem M3.ext' {α : Type} {m n : M3 α} (h1 : m.r1 = n.r1) (h2 : m.r2 = n.r2) (h3 : m.r3 = n.r3) : m = n := by
  cases m; cases n; simp_all

theorem V6.ext' {α : Type} {u v : V6 α} (hp : u.p = v.p) (hv : u.v = v.v) : u = v := by
  cases u; cases v; simp_all

/-- entry `(i, j)` of a 3×3 matrix -/
def M3.entry {α : Type} (m : M3 α) (i j : Fin 3) : α :=
  let r := match i with | 0 => m.r1 | 1 => m.r2 | 2 => m.r3
  match j with | 0 => r.x | 1 => r.y | 2 => r.z

end Midgard.Geo

namespace Midgard.Geo

/-! ### Euclidean norm of a real 3-vector -/

theorem V3.norm2_nonneg (u : V3 ℝ) : 0 ≤ u.norm2 := by
  simp only [V3.norm2, V3.dot]; nlinarith [mul_self_nonneg u.x, mul_self_nonneg u.y, mul_self_nonneg u.z]

theorem V3.norm_eq (u : V3 ℝ) : u.norm = Real.sqrt u.norm2 := by
  simp only [V3.norm, trig_sqrt, V3.norm2, V3.dot]

theorem V3.norm_sq (u : V3 ℝ) : u.norm ^ 2 = u.norm2 := by
  rw [V3.norm_eq, Real.sq_sqrt u.norm2_nonneg]

theorem V3.norm_pos {u : V3 ℝ} (h : u.norm2 ≠ 0) : 0 < u.norm := by
  rw [V3.norm_eq]
  exact Real.sqrt_pos.mpr (lt_of_le_of_ne u.norm2_nonneg (Ne.symm h))

theorem V3.norm2_eq_zero {u : V3 ℝ} (h : u.norm2 = 0) : u = ⟨0, 0, 0⟩ := by
  simp only [V3.norm2, V3.dot] at h
  have hx : u.x = 0 := by nlinarith [mul_self_nonneg u.x, mul_self_nonneg u.y, mul_self_nonneg u.z]
  have hy : u.y = 0 := by nlinarith [mul_self_nonneg u.x, mul_self_nonneg u.y, mul_self_nonneg u.z]
  have hz : u.z = 0 := by nlinarith [mul_self_nonneg u.x, mul_self_nonneg u.y, mul_self_nonneg u.z]
  exact V3.ext' hx hy hz

/-- `unit u` has length 1 -/
theorem V3.unit_norm2 {u : V3 ℝ} (h : u.norm2 ≠ 0) : u.unit.norm2 = 1 := by
  have hp := V3.norm_pos h
  have hs := V3.norm_sq u
  simp only [V3.unit, V3.sdiv, V3.norm2, V3.dot] at hs ⊢
  field_simp
  linear_combination -hs

/-- `unit u = u` when `u` already has length 1 -/
theorem V3.unit_of_norm2_one {u : V3 ℝ} (h : u.norm2 = 1) : u.unit = u := by
  have : u.norm = 1 := by rw [V3.norm_eq, h, Real.sqrt_one]
  apply V3.ext' <;> simp [V3.unit, V3.sdiv, this]

end Midgard.Geo

namespace Midgard.Geo

/-! ### `arctan2` of a positive multiple of a `(sin, cos)` pair -/

theorem atan2_pair_eq (k θ : ℝ) :
    (⟨k * Real.cos θ, k * Real.sin θ⟩ : ℂ) = (k : ℂ) * (Complex.cos θ + Complex.sin θ * Complex.I) := by
  apply Complex.ext <;>
    simp [Complex.cos_ofReal_re, Complex.sin_ofReal_re, Complex.cos_ofReal_im, Complex.sin_ofReal_im]

/-- `arctan2(k sin θ, k cos θ) = θ` for `k > 0`, `θ ∈ (−π, π]` -/
theorem atan2_pos_mul (k θ : ℝ) (hk : 0 < k) (hθ : θ ∈ Set.Ioc (-Real.pi) Real.pi) :
    Trig.atan2 (k * Real.sin θ) (k * Real.cos θ) = θ := by
  rw [trig_atan2, atan2_pair_eq, Complex.arg_mul_cos_add_sin_mul_I hk hθ]

/-- in general it differs from `θ` by a whole number of turns and lies in `(−π, π]` -/
theorem atan2_pos_mul_mod (k θ : ℝ) (hk : 0 < k) :
    (∃ n : ℤ, Trig.atan2 (k * Real.sin θ) (k * Real.cos θ) = θ + 2 * Real.pi * n) ∧
    -Real.pi < Trig.atan2 (k * Real.sin θ) (k * Real.cos θ) ∧
    Trig.atan2 (k * Real.sin θ) (k * Real.cos θ) ≤ Real.pi := by
  rw [trig_atan2]
  refine ⟨?_, Complex.neg_pi_lt_arg _, Complex.arg_le_pi _⟩
  rw [atan2_pair_eq]
  exact ⟨_, by linarith [Complex.arg_mul_cos_add_sin_mul_I_sub hk θ]⟩

end Midgard.Geo
