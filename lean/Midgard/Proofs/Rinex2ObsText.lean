/-
C11, RINEX 2, part 15: the text — no rendered line contains a line break, so the lines of `render F` are `fileLines F`.
Core Lean only.
-/
import Midgard.Proofs.Rinex2ObsFile
import Midgard.Proofs.Rinex3ObsText

namespace Midgard.Spec.Rinex2ObsFile
open Midgard.Text Midgard.FixedCol Midgard.Decimal Midgard.ChainParser Midgard.RinexObs Midgard.Rinex2Obs
open Midgard.Spec.Rinex (renderLabelled renderCells)
open Midgard.Spec.Rinex3ObsFile (Style styled NoNl nonl_append nonl_blanks nonl_renderA nonl_zip nonl_label nonl_okText' nonl_styled
  nonl_eoh fileLines_joinLines rec spec numChar_not_space)

/-! ### the text of a RINEX 2 file -/

theorem nonl_rec2 (k : String) (cells : List Str) (hok : okCells k cells = true) : NoNl (rec k cells) := by
  simp only [okCells, Bool.and_eq_true] at hok
  unfold rec renderLabelled renderCells ljust
  refine nonl_append (nonl_append (nonl_renderA _ _ (nonl_zip _ _ ?_)) (nonl_blanks _)) (nonl_label k)
  exact fun t ht => nonl_okText' (List.all_eq_true.mp hok.2 t ht)

theorem nonl_obsLine (c : List Midgard.Spec.Rinex3ObsFile.Obs) (h : c.all Midgard.Spec.Rinex3ObsFile.Obs.wf = true) : NoNl (obsLine c) := by
  intro x hx
  rcases obsLine_chars c h x hx with rfl | hn
  · decide
  · intro e; have := numChar_not_space hn; rw [e] at this; revert this; decide

theorem nonl_contLine (c : List Str) (hne : c ≠ []) (hl : c.length ≤ 12) (h : ∀ s ∈ c, SatOk s) : NoNl (contLine c) := by
  rw [contLine_struct c hne hl (fun s hs => satOk_len (h s hs))]
  refine nonl_append (nonl_blanks _) ?_
  intro x hx
  obtain ⟨s0, hs0, hx0⟩ := List.mem_flatten.mp hx
  exact satOk_chars (h s0 hs0) x hx0

theorem nonl_fileLines2 (F : File) (hwf : F.wf = true) : ∀ l ∈ fileLines F, NoNl l := by
  obtain ⟨_, hpairs, heps⟩ := epochWf_of_wf F hwf
  have hb : F.epochs.flatMap blockLines = F.epochs.flatMap blockLinesR :=
    Midgard.Spec.Rinex3ObsFile.flatMap_congr' (fun e _ => blockLines_eq e)
  intro l hl
  simp only [fileLines, List.mem_map] at hl
  obtain ⟨l0, hl0, rfl⟩ := hl
  apply nonl_styled
  simp only [rawLines, hb, List.mem_append, List.mem_map, List.mem_cons, List.not_mem_nil, or_false, List.mem_flatMap] at hl0
  rcases hl0 with (⟨kc, hkc, rfl⟩ | rfl) | ⟨e, he, hl0⟩
  · exact nonl_rec2 kc.1 kc.2 (hpairs kc hkc).2.1
  · exact nonl_eoh
  · have hew := heps e he
    simp only [blockLinesR, List.mem_cons, List.mem_append, List.mem_map, List.mem_flatMap, satLinesR] at hl0
    rcases hl0 with rfl | ⟨cc, hcc, rfl⟩ | ⟨r, hr, ck, hck, rfl⟩
    · exact epochLine_nonl e hew.ok
    · have hsub := chunks_sub 12 _ _ cc hcc
      exact nonl_contLine cc (chunks_ne 12 (by omega) _ _ cc hcc) (chunks_len 12 _ _ cc hcc)
        (fun s hs => hew.ok.ids s (List.mem_of_mem_drop (hsub s hs)))
    · have hsub := chunks_sub 5 _ _ ck hck
      exact nonl_obsLine ck (List.all_eq_true.mpr fun o ho => List.all_eq_true.mp (hew.sats r hr).2.2.2.1 o (hsub o ho))

/-- the lines Python's text-mode iteration yields for the rendered RINEX 2 text are the rendered lines -/
theorem lines_render2 (F : File) (hwf : F.wf = true) : ChainParser.fileLines (render F) = fileLines F :=
  fileLines_joinLines _ (nonl_fileLines2 F hwf)

end Midgard.Spec.Rinex2ObsFile
