/-
C17 x C14 — SINEX-TMS TIMESERIES/DATA: the lines the sinex_tms *writer* produces (Model/Writers.lean `tmsLine`) are records
in the sense of the sinex_tms *parser* model of C14 (Model/SinexFile.lean `tmsData`), so `Props/C14.tms_data_roundtrip`
reads them back (helper of Props/C17; imports Props/C14).
-/
import Midgard.Proofs.WriterFiles
import Midgard.Props.C14

namespace Midgard.WriterFiles
open Midgard.Text Midgard.Decimal Midgard.FixedCol Midgard.WriterCells Midgard.Writers
open Midgard.Generated.WriterLayouts

/-! ### SINEX-TMS TIMESERIES/DATA: the writer's lines as the records `Props/C14.tms_data_roundtrip` reads -/

theorem fmtValue_split (sv : Spec × Value) : fmtValue sv.1 sv.2 = leftBlanks sv ++ sv.2.text sv.1 ++ rightBlanks sv := by
  unfold fmtValue leftBlanks rightBlanks rightAligned
  cases h : sv.1.align.getD sv.2.defaultAlign <;> simp [pad, ljust, rjust]

theorem padded_toPads : ∀ (cells : List (Spec × Value)) (carry : Str),
    padded (toPads carry cells).1 ++ (toPads carry cells).2 = carry ++ (cells.map fun sv => fmtValue sv.1 sv.2).flatten := by
  intro cells
  induction cells with
  | nil => intro carry; simp [toPads, padded]
  | cons sv rest ih =>
    intro carry
    simp only [toPads, padded, List.map_cons, List.flatten_cons, List.append_assoc]
    rw [ih, fmtValue_split]
    simp [List.append_assoc]

theorem isToken_eq (t : Str) : isToken t = Token t := rfl

theorem isBlank_leftBlanks (sv : Spec × Value) : isBlank (leftBlanks sv) = true := by
  unfold leftBlanks; split
  · exact isBlank_blanks _
  · rfl

theorem isBlank_rightBlanks (sv : Spec × Value) : isBlank (rightBlanks sv) = true := by
  unfold rightBlanks; split
  · rfl
  · exact isBlank_blanks _

theorem toPads_rest_ok : ∀ (rest : List (Spec × Value)) (carry : Str), isBlank carry = true →
    (rest.all fun x => isToken (x.2.text x.1) && rightAligned x && decide ((x.2.text x.1).length < x.1.width)) = true →
    PadsOk (toPads carry rest).1 = true ∧ (toPads carry rest).1.all (fun x => !x.1.isEmpty) = true ∧
    isBlank (toPads carry rest).2 = true ∧ (toPads carry rest).1.map (·.2) = rest.map fun sv => sv.2.text sv.1 := by
  intro rest
  induction rest with
  | nil => intro carry hc _; exact ⟨rfl, rfl, hc, rfl⟩
  | cons sv rest ih =>
    intro carry hc h
    simp only [List.all_cons, Bool.and_eq_true, decide_eq_true_eq] at h
    obtain ⟨⟨⟨htok, hra⟩, hlt⟩, hrest⟩ := h
    have hrb : rightBlanks sv = [] := by simp [rightBlanks, hra]
    obtain ⟨i1, i2, i3, i4⟩ := ih (rightBlanks sv) (isBlank_rightBlanks sv) (by simpa [Bool.and_eq_true] using hrest)
    have hlb : leftBlanks sv ≠ [] := by
      simp only [leftBlanks, hra, if_true, blanks]
      intro hnil
      have := congrArg List.length hnil
      simp at this; omega
    refine ⟨?_, ?_, i3, ?_⟩
    · simp only [toPads, PadsOk, Bool.and_eq_true]
      exact ⟨⟨⟨by rw [isBlank_append, hc, isBlank_leftBlanks]; rfl, by rw [← isToken_eq]; exact htok⟩, i2⟩, i1⟩
    · simp only [toPads, List.all_cons, Bool.and_eq_true]
      refine ⟨?_, i2⟩
      cases hcl : carry ++ leftBlanks sv with
      | nil => simp at hcl; exact absurd hcl.2 hlb
      | cons _ _ => rfl
    · simp [toPads, i4]

/-- **a TIMESERIES/DATA line of the writer is a record in the sense of `Props/C14`**: blank-separated tokens, the
tokens being the texts of the values -/
theorem tmsLine_record (cells : List (Spec × Value)) (h : tmsCellsOk cells = true) (hne : cells ≠ []) :
    ∃ r : List (Str × Str) × Str, tmsLineOf cells = Midgard.Props.C14.wsLine r ∧ PadsOk r.1 = true ∧ isBlank r.2 = true ∧
      Midgard.Props.C14.wsTokens r = cells.map fun sv => sv.2.text sv.1 := by
  cases cells with
  | nil => exact absurd rfl hne
  | cons sv rest =>
    simp only [tmsCellsOk, Bool.and_eq_true] at h
    obtain ⟨i1, i2, i3, i4⟩ := toPads_rest_ok rest (rightBlanks sv) (isBlank_rightBlanks sv) h.2
    refine ⟨toPads [' '] (sv :: rest), ?_, ?_, i3, ?_⟩
    · unfold tmsLineOf Midgard.Props.C14.wsLine
      rw [padded_toPads]; rfl
    · simp only [toPads, PadsOk, Bool.and_eq_true]
      exact ⟨⟨⟨by rw [isBlank_append, isBlank_leftBlanks]; rfl, by rw [← isToken_eq]; exact h.1⟩, i2⟩, i1⟩
    · simp [Midgard.Props.C14.wsTokens, toPads, i4]

/-- the records behind all lines of a data block -/
theorem tms_records (rows : List (List (Spec × Value))) (n : Nat) (hn : 0 < n)
    (hrows : ∀ r ∈ rows, tmsCellsOk r = true ∧ r.length = n) :
    ∃ recs : List (List (Str × Str) × Str), recs.map Midgard.Props.C14.wsLine = rows.map tmsLineOf ∧
      (∀ r ∈ recs, PadsOk r.1 = true ∧ isBlank r.2 = true ∧ r.1.length = n) ∧
      recs.map Midgard.Props.C14.wsTokens = rows.map fun r => r.map fun sv => sv.2.text sv.1 := by
  induction rows with
  | nil => exact ⟨[], rfl, by simp, rfl⟩
  | cons r rest ih =>
    obtain ⟨recs, h1, h2, h3⟩ := ih (fun x hx => hrows x (by simp [hx]))
    obtain ⟨hok, hlen⟩ := hrows r (by simp)
    have hne : r ≠ [] := by intro h; subst h; simp at hlen; omega
    obtain ⟨rec, e1, e2, e3, e4⟩ := tmsLine_record r hok hne
    refine ⟨rec :: recs, by simp [h1, e1], ?_, by simp [h3, e4]⟩
    intro x hx
    rcases List.mem_cons.mp hx with rfl | hx
    · refine ⟨e2, e3, ?_⟩
      have := congrArg List.length e4
      simp [Midgard.Props.C14.wsTokens] at this
      omega
    · exact h2 x hx

/-- **TIMESERIES/DATA, block level: the sinex_tms parser's `parse_timeseries_data` (model and theorem of C14) applied to
the lines the sinex_tms writer produces** returns, under the lower-cased name of the `j`-th column, the conversion of the
texts of the `j`-th value of every line, in line order -/
theorem tms_block_aux (names : List Str) (rows : List (List (Spec × Value))) (n : Nat) (hn : 0 < n)
    (hrows : ∀ r ∈ rows, tmsCellsOk r = true ∧ r.length = n) (hne : rows ≠ [])
    (hnd : (names.map fun nm => asString (lower nm)).Nodup) (hlen : names.length ≤ n)
    (D : List (String × Midgard.Sinex.Val)) (h : Midgard.Sinex.tmsData names (rows.map tmsLineOf) = some D)
    (j : Nat) (hj : j < names.length) :
    Midgard.Sinex.dget? D (asString (lower names[j])) =
      Midgard.Sinex.tmsCol names[j] (rows.map fun r => (r.map fun sv => sv.2.text sv.1).getD j []) := by
  obtain ⟨recs, h1, h2, h3⟩ := tms_records rows n hn hrows
  have hne' : recs ≠ [] := by
    intro e; subst e; simp at h1
    exact hne h1
  rw [← h1] at h
  rw [Midgard.Props.C14.tms_data_roundtrip names recs n hn h2 hne' hnd hlen D h j hj]
  congr 1
  have : (recs.map fun r => (Midgard.Props.C14.wsTokens r).getD j []) =
      (recs.map Midgard.Props.C14.wsTokens).map fun t => t.getD j [] := by simp [List.map_map, Function.comp_def]
  rw [this, h3, List.map_map]
  rfl

/-- a float column whose values are numbers reads back as those numbers rounded to the printed decimals -/
theorem tms_float_column (name : Str) (p : Nat) (qs : List Rat) (hn : Midgard.Sinex.dtypeStr.contains name = false) :
    Midgard.Sinex.tmsCol name (qs.map fun q => fmtFixedCore q p) =
      some (.col (qs.map fun q => Midgard.Sinex.Cell.flt (some (fixedValue q p)))) := by
  have := Midgard.Props.C14.tmsCol_float name (qs.map fun q => fmtFixedCore q p) (qs.map fun q => fixedValue q p) hn
    (by simp [List.map_map, Function.comp_def, parseFloat_fmtFixedCore])
  simpa [List.map_map, Function.comp_def] using this

/-- the writer's line is `tmsLineOf` of its cells -/
theorem tmsLine_eq (cols : List String) (vals : Env) : tmsLine cols vals = (tmsCells cols vals).map tmsLineOf := by
  unfold tmsLine tmsCells tmsLineOf
  generalize hm : (cols.mapM fun c => (do let sp ← specOf c; let v ← vals.lookup c; if v.okFor sp then pure (sp, v) else none : Option (Spec × Value))) = m
  have key : ∀ (cs : List String), (cs.mapM fun c => (do let sp ← specOf c; let v ← vals.lookup c; if v.okFor sp then pure (fmtValue sp v) else none : Option Str)) =
      (cs.mapM fun c => (do let sp ← specOf c; let v ← vals.lookup c; if v.okFor sp then pure (sp, v) else none : Option (Spec × Value))).map
        (fun cells => cells.map fun sv => fmtValue sv.1 sv.2) := by
    intro cs
    induction cs with
    | nil => rfl
    | cons c cs ih =>
      simp only [List.mapM_cons, ih]
      cases specOf c <;> simp
      cases List.lookup c vals <;> simp
      split <;> simp
      cases (cs.mapM fun c => (do let sp ← specOf c; let v ← vals.lookup c; if v.okFor sp then pure (sp, v) else none : Option (Spec × Value))) <;> simp
  rw [key cols, hm]
  cases m <;> rfl

theorem mapM_length_opt {α β} (f : α → Option β) : ∀ (l : List α) (r : List β), l.mapM f = some r → r.length = l.length := by
  intro l
  induction l with
  | nil => intro r h; simp at h; subst h; rfl
  | cons a l ih =>
    intro r h
    simp only [List.mapM_cons, Option.bind_eq_bind] at h
    cases ha : f a with
    | none => simp [ha] at h
    | some b =>
      cases hl : l.mapM f with
      | none => simp [ha, hl] at h
      | some bs =>
        simp [ha, hl] at h
        subst h
        simp [ih bs hl]

theorem tms_rows_exist (cols : List String) : ∀ (epochs : List Env), tmsRowsInRange cols epochs = true →
    ∃ rows, epochs.mapM (tmsCells cols) = some rows ∧ epochs.mapM (tmsLine cols) = some (rows.map tmsLineOf) ∧
      ∀ r ∈ rows, tmsCellsOk r = true ∧ r.length = cols.length := by
  intro epochs
  induction epochs with
  | nil => intro _; exact ⟨[], rfl, rfl, by simp⟩
  | cons env rest ih =>
    intro h
    simp only [tmsRowsInRange, List.all_cons, Bool.and_eq_true] at h
    obtain ⟨rows, h1, h2, h3⟩ := ih (by simpa [tmsRowsInRange] using h.2)
    cases hc : tmsCells cols env with
    | none => simp [hc] at h
    | some cells =>
      simp only [hc] at h
      refine ⟨cells :: rows, by simp [List.mapM_cons, hc, h1], by simp [List.mapM_cons, tmsLine_eq, hc, h2], ?_⟩
      intro r hr
      rcases List.mem_cons.mp hr with rfl | hr
      · exact ⟨h.1, mapM_length_opt _ _ _ hc⟩
      · exact h3 r hr

theorem tms_data_block_aux (cols : List String) (epochs : List Env) (hr : tmsRowsInRange cols epochs = true)
    (hne : epochs ≠ []) (hc : cols ≠ [])
    (hnd : ((cols.map String.toList).map fun nm => asString (lower nm)).Nodup) :
    ∃ rows lines, epochs.mapM (tmsCells cols) = some rows ∧ epochs.mapM (tmsLine cols) = some lines ∧
      ∀ D, Midgard.Sinex.tmsData (cols.map String.toList) lines = some D →
        ∀ (j : Nat) (hj : j < (cols.map String.toList).length),
          Midgard.Sinex.dget? D (asString (lower (cols.map String.toList)[j])) =
            Midgard.Sinex.tmsCol (cols.map String.toList)[j]
              (rows.map fun r => (r.map fun sv => sv.2.text sv.1).getD j []) := by
  obtain ⟨rows, h1, h2, h3⟩ := tms_rows_exist cols epochs hr
  refine ⟨rows, rows.map tmsLineOf, h1, h2, ?_⟩
  intro D hD j hj
  have hn : 0 < cols.length := by cases cols with | nil => exact absurd rfl hc | cons _ _ => simp
  have hrne : rows ≠ [] := by
    intro e; subst e
    have := mapM_length_opt _ _ _ h1
    cases epochs with
    | nil => exact hne rfl
    | cons _ _ => simp at this
  exact tms_block_aux (cols.map String.toList) rows cols.length hn h3 hrne hnd (by simp) D hD j hj

end Midgard.WriterFiles
