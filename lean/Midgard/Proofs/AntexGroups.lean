/-
C15 file level, part 3: antenna sections (with unread lines woven in) through `ChainParser.read_data`, the trailer,
and all antenna sections of a file.
-/
import Midgard.Proofs.AntexSection
set_option linter.unusedSimpArgs false
namespace Midgard.Antex.File
open Midgard.Text Midgard.FixedCol Midgard.ChainParser Midgard.Antex Midgard.Decimal Midgard.Antex.Records
open Midgard.Spec.Antex14 (RecSpec specs renderLabelled renderRow findKind findLabel)
open Midgard.Spec.AntexFile

/-! ### unread lines woven into a section -/

theorem weave_map {α β} (f : α → β) : ∀ (xs : List α) (ds : List (List α)),
    (weave xs ds).map f = weave (xs.map f) (ds.map (·.map f))
  | [], _ => rfl
  | x :: xs, [] => rfl
  | x :: xs, d :: ds => by simp [weave, weave_map f xs ds]

theorem weave_snoc {α} (last : α) : ∀ (g : List α) (ds : List (List α)),
    ∃ g', weave (g ++ [last]) ds = g' ++ [last] ∧ ∀ x ∈ g', x ∈ g ∨ ∃ d ∈ ds, x ∈ d
  | [], [] => ⟨[], rfl, fun _ h => by simp at h⟩
  | [], d :: ds => ⟨d, by simp [weave], fun x hx => Or.inr ⟨d, by simp, hx⟩⟩
  | y :: g, [] => ⟨y :: g, rfl, fun x hx => Or.inl hx⟩
  | y :: g, d :: ds => by
    obtain ⟨g', h1, h2⟩ := weave_snoc last g ds
    refine ⟨d ++ y :: g', by simp [weave, h1], ?_⟩
    intro x hx
    simp only [List.mem_append, List.mem_cons] at hx
    rcases hx with hx | rfl | hx
    · exact Or.inr ⟨d, by simp, hx⟩
    · exact Or.inl (by simp)
    · rcases h2 x hx with h | ⟨d', hd', hx'⟩
      · exact Or.inl (by simp [h])
      · exact Or.inr ⟨d', by simp [hd'], hx'⟩

theorem runFx_ids (d : List Fx) (hd : ∀ f ∈ d, f = idFx) (rest : List Fx) (s : State) : runFx (d ++ rest) s = runFx rest s := by
  induction d with
  | nil => rfl
  | cons f d ih =>
    have hf := hd f (by simp)
    subst hf
    exact ih (fun g hg => hd g (by simp [hg]))

theorem runFx_weave : ∀ (xs : List Fx) (ds : List (List Fx)), (∀ d ∈ ds, ∀ f ∈ d, f = idFx) → ∀ s,
    runFx (weave xs ds) s = runFx xs s
  | [], _, _, _ => rfl
  | x :: xs, [], _, _ => rfl
  | x :: xs, d :: ds, h, s => by
    simp only [weave]
    rw [runFx_ids d (h d (by simp))]
    simp only [runFx]
    cases x s with
    | error e => rfl
    | ok s' => exact runFx_weave xs ds (fun d' hd' => h d' (by simp [hd'])) s'

def inertFx (i : Inert) : Str × Fx := (inertLine i, idFx)

/-- **antenna section through `read_data`**: the lines of one antenna section (records and unread lines) are
consumed as one group; what is stored is `storeAntenna`, and reading goes on with an empty cache -/
theorem antenna_group (a : AntM) (ha : a.wf = true) (more : List Str) (s : State) (hc : s.cache = {}) (n : Nat) :
    readData headerParser corrParser resetCache (antennaLines a ++ more) false n s =
      match storeAntenna a s with
      | .error e => .error e
      | .ok s' => readData headerParser corrParser resetCache more false 0 s' := by
  have hdeco : ∀ d ∈ a.deco, ∀ i ∈ d, i.wf = true := by
    simp only [AntM.wf, Bool.and_eq_true, List.all_eq_true] at ha
    exact ha.2
  have hlines : antennaLines a = (weave (sigFx a ++ [eoaFx]) (a.deco.map (·.map inertFx))).map (·.1) := by
    rw [weave_map, sigFx_lines]
    simp [antennaLines, List.map_map, Function.comp_def, inertFx]
  obtain ⟨g', hg, hmem⟩ := weave_snoc eoaFx (sigFx a) (a.deco.map (·.map inertFx))
  rw [hlines, hg]
  have hok : ∀ x ∈ g', LineOk x := by
    intro x hx
    rcases hmem x hx with h | ⟨d, hd, hxd⟩
    · exact sig_ok a ha x h
    · obtain ⟨d0, hd0, rfl⟩ := List.mem_map.mp hd
      obtain ⟨i, hi, rfl⟩ := List.mem_map.mp hxd
      exact inert_lineOk i (hdeco d0 hd0 i hi)
  have hgrp := readData_group headerParser corrParser resetCache false g' eoaFx more
    (by
      intro x hx n s
      simp only [Bool.false_eq_true, if_false]
      rcases List.mem_append.mp hx with h | h
      · exact (hok x h).1 n s
      · rw [List.mem_singleton.mp h]; exact eoa_ok.1 n s)
    (by
      intro x hx n nx
      simp only [Bool.false_eq_true, if_false]
      exact (hok x hx).2 n nx)
    (by
      intro n nx
      simp only [Bool.false_eq_true, if_false]
      exact eoa_ok.2 n nx)
    n s
  rw [hgrp]
  have hrun : runFx ((g' ++ [eoaFx]).map (·.2)) s = runFx ((sigFx a ++ [eoaFx]).map (·.2)) s := by
    rw [← hg, weave_map]
    apply runFx_weave
    intro d hd f hf
    simp only [List.map_map, List.mem_map, Function.comp_def] at hd
    obtain ⟨d0, _, rfl⟩ := hd
    simp only [List.map_map, List.mem_map, Function.comp_def, inertFx] at hf
    obtain ⟨i, _, rfl⟩ := hf
    rfl
  rw [hrun]
  have hant := antenna_run a s hc
  cases hr : runFx ((sigFx a ++ [eoaFx]).map (·.2)) s with
  | error e =>
    rw [hr] at hant
    simp only [mapR] at hant
    rw [← hant]
  | ok s' =>
    rw [hr] at hant
    simp only [mapR] at hant
    rw [← hant]

theorem resetCache_of_empty (s : State) (hc : s.cache = {}) : resetCache s = s := by
  cases s
  simp only at hc
  subst hc
  rfl

/-- unread lines after the last antenna section change nothing -/
theorem trailer_run : ∀ (tr : List Inert), (∀ i ∈ tr, i.wf = true) → ∀ (n : Nat) (s : State), s.cache = {} →
    readData headerParser corrParser resetCache (tr.map inertLine) false n s = .ok s
  | [], _, _, _, _ => rfl
  | i :: tr, h, n, s, hc => by
    have hi := inert_lineOk i (h i (by simp))
    have h1 : parseLine corrParser (rstrip (inertLine i)) (n + 1) s = .ok s := hi.1 (n + 1) s
    simp only [List.map_cons, readData, Bool.false_eq_true, if_false, h1]
    cases htr : tr.map inertLine with
    | nil => simp [resetCache_of_empty s hc, pure, Except.pure]
    | cons nx rest =>
      have h2 : corrParser.endMarker (rstrip (inertLine i)) (n + 1) (nx ++ ['\n']) = false := hi.2 _ _
      simp only [h2, Bool.false_eq_true, if_false]
      rw [← htr]
      exact trailer_run tr (fun j hj => h j (by simp [hj])) (n + 1) s hc

theorem storeAntenna_cache {a : AntM} {s s' : State} (h : storeAntenna a s = .ok s') : s'.cache = {} := by
  unfold storeAntenna at h
  cases hf : storeFreqs a a.freqs 0 s with
  | error e => simp [hf] at h
  | ok t =>
    simp only [hf, pure, Except.pure, Except.ok.injEq] at h
    rw [← h]; rfl

/-- all antenna sections and the trailer -/
theorem antennas_run (trailer : List Inert) (htr : ∀ i ∈ trailer, i.wf = true) :
    ∀ (as : List AntM), (∀ a ∈ as, a.wf = true) → ∀ (s : State), s.cache = {} →
      readData headerParser corrParser resetCache ((as.map antennaLines).flatten ++ trailer.map inertLine) false 0 s =
        storeAntennas as s
  | [], _, s, hc => by
    simp only [List.map_nil, List.flatten_nil, List.nil_append, storeAntennas, pure, Except.pure]
    exact trailer_run trailer htr 0 s hc
  | a :: as, h, s, hc => by
    simp only [List.map_cons, List.flatten_cons, List.append_assoc, storeAntennas]
    rw [antenna_group a (h a (by simp)) _ s hc 0]
    cases hs : storeAntenna a s with
    | error e => rfl
    | ok s' => exact antennas_run trailer htr as (fun b hb => h b (by simp [hb])) s' (storeAntenna_cache hs)

end Midgard.Antex.File
