/-
C11, RINEX 2, part 10: the end marker of the data section ("the next line is an epoch record": digit in column 3, blank in
column 4) on the lines as written — true for epoch records, false for continuation records and observation lines.
Core Lean only.
-/
import Midgard.Proofs.Rinex2ObsCont

namespace Midgard.Spec.Rinex2ObsFile
open Midgard.Text Midgard.FixedCol Midgard.Decimal Midgard.ChainParser Midgard.RinexObs Midgard.Rinex2Obs
open Midgard.Spec.Rinex3ObsFile (Obs Style styled)

/-! ### the end marker: "the next line is an epoch record" -/

/-- a visible character of a line is still there in the line as written (any style) and followed by the newline -/
theorem styled_get_visible (st : Style) (l : Str) (i : Nat) (x : Char) (h : l[i]? = some x) (hx : isSpace x = false) :
    (styled st l ++ ['\n'])[i]? = some x := by
  have hi : i < l.length := by
    rcases Nat.lt_or_ge i l.length with hh | hh
    · exact hh
    · rw [List.getElem?_eq_none hh] at h; simp at h
  cases st
  · show (l ++ ['\n'])[i]? = some x
    rw [List.getElem?_append_left hi]; exact h
  · show (rstrip l ++ ['\n'])[i]? = some x
    have h' := get_rstrip_of_visible h hx
    have hi' : i < (rstrip l).length := by
      rcases Nat.lt_or_ge i (rstrip l).length with hh | hh
      · exact hh
      · rw [List.getElem?_eq_none hh] at h'; simp at h'
    rw [List.getElem?_append_left hi']; exact h'
  · show (ljust 80 l ++ ['\n'])[i]? = some x
    unfold ljust
    rw [List.append_assoc, List.getElem?_append_left hi]; exact h

/-- a digit of the written line is a digit of the line -/
theorem styled_get_digit (st : Style) (l : Str) (i : Nat) (d : Char) (h : (styled st l ++ ['\n'])[i]? = some d) (hd : isDigit d = true) :
    l[i]? = some d := by
  have hnl : d ≠ '\n' := by intro e; subst e; revert hd; decide
  have hsp : d ≠ ' ' := by intro e; subst e; revert hd; decide
  have tail : ∀ (a : Str), (a ++ ['\n'])[i]? = some d → a[i]? = some d := by
    intro a ha
    rcases Nat.lt_or_ge i a.length with hh | hh
    · rw [List.getElem?_append_left hh] at ha; exact ha
    · rw [List.getElem?_append_right hh] at ha
      have := List.mem_of_getElem? ha
      simp at this; exact absurd this hnl
  cases st
  · exact tail l h
  · exact get_rstrip_some (tail (rstrip l) h)
  · have := tail (ljust 80 l) h
    unfold ljust at this
    rcases Nat.lt_or_ge i l.length with hh | hh
    · rw [List.getElem?_append_left hh] at this; exact this
    · rw [List.getElem?_append_right hh] at this
      have hm := List.mem_of_getElem? this
      have : d = ' ' := by simpa [blanks] using (List.mem_replicate.mp hm).2
      exact absurd this hsp

def isEnd (next : Str) : Bool := digitAt next 2 && spaceAt next 3

theorem obsParser_end (l : Str) (n : Nat) (next : Str) : obsParser.endMarker l n next = isEnd next := rfl

/-- a line whose third column holds no digit, or whose third column's digit is followed by a visible character, does
not look like an epoch record -/
theorem not_end_of (st : Style) (l : Str)
    (h : ∀ d, l[2]? = some d → isDigit d = true → ∃ y, l[3]? = some y ∧ isSpace y = false) :
    isEnd (styled st l ++ ['\n']) = false := by
  unfold isEnd
  cases hdg : digitAt (styled st l ++ ['\n']) 2 with
  | false => rfl
  | true =>
    obtain ⟨d, hd, hdig⟩ := digitAt_get _ _ hdg
    obtain ⟨y, hy, hys⟩ := h d (styled_get_digit st l 2 d hd hdig) hdig
    have := styled_get_visible st l 3 y hy hys
    simp [spaceAt, charAt_get, this, hys]

theorem obsLine_not_end (st : Style) (c : List Obs) (h : c.all Obs.wf = true) : isEnd (styled st (obsLine c) ++ ['\n']) = false :=
  not_end_of st _ (fun d hd hdig => by
    have := obsLine_digit_next c h 0 2 (by omega) d (by simpa using hd) hdig
    simpa using this)

theorem contLine_not_end (st : Style) (c : List Str) (hne : c ≠ []) (hl : c.length ≤ 12) (h : ∀ s ∈ c, SatOk s) :
    isEnd (styled st (contLine c) ++ ['\n']) = false :=
  not_end_of st _ (fun d hd hdig => by
    rw [contLine_struct c hne hl (fun s hs => satOk_len (h s hs)), List.getElem?_append_left (by simp [blanks])] at hd
    have hm := List.mem_of_getElem? hd
    have : d = ' ' := by simpa [blanks] using (List.mem_replicate.mp hm).2
    subst this; exact absurd hdig (by decide))

/-- an epoch record looks like one: a digit in column 3, a blank (or the end of the line) in column 4 -/
theorem epochLine_end (st : Style) (e : Epoch) (h : EpochOk e) : isEnd (styled st (epochLine e) ++ ['\n']) = true := by
  rw [epochLine_struct e (headOk e h) (fun s hs => satOk_len (ids12_ok e h s hs))]
  obtain ⟨d, hd, hdig⟩ := epoch_col3 e h (satCols e ++ rjust 12 e.clk.text)
  have h3 := epoch_col4 e h (satCols e ++ rjust 12 e.clk.text)
  generalize head32 e ++ (satCols e ++ rjust 12 e.clk.text) = E at hd h3
  have hdv := isSpace_of_isDigit hdig
  have g2 := styled_get_visible st E 2 d hd hdv
  have hdigit : digitAt (styled st E ++ ['\n']) 2 = true := by simp [digitAt, charAt_get, g2, hdig]
  have hspace : spaceAt (styled st E ++ ['\n']) 3 = true := by
    unfold spaceAt
    rw [charAt_get]
    have hi : 3 < E.length := by
      rcases Nat.lt_or_ge 3 E.length with hh | hh
      · exact hh
      · rw [List.getElem?_eq_none hh] at h3; simp at h3
    cases st
    · show (Option.map isSpace (E ++ ['\n'])[3]?).getD false = true
      rw [List.getElem?_append_left hi, h3]; rfl
    · show (Option.map isSpace (rstrip E ++ ['\n'])[3]?).getD false = true
      have hr2 := get_rstrip_of_visible hd hdv
      have hlen : 2 < (rstrip E).length := by
        rcases Nat.lt_or_ge 2 (rstrip E).length with hh | hh
        · exact hh
        · rw [List.getElem?_eq_none hh] at hr2; simp at hr2
      rcases Nat.lt_or_ge 3 (rstrip E).length with hh | hh
      · rw [List.getElem?_append_left hh]
        obtain ⟨ws, hE, _⟩ := rstrip_decomp E
        have : (rstrip E)[3]? = some ' ' := by
          rw [hE, List.getElem?_append_left hh] at h3; exact h3
        rw [this]; rfl
      · have : (rstrip E).length = 3 := by omega
        rw [List.getElem?_append_right (by omega), this]
        rfl
    · show (Option.map isSpace (ljust 80 E ++ ['\n'])[3]?).getD false = true
      unfold ljust
      rw [List.append_assoc, List.getElem?_append_left hi, h3]; rfl
  unfold isEnd
  rw [hdigit, hspace]; rfl


/-- **Group lemma for the RINEX 2 data section.**  A group starts at its first line and runs as long as the next line
does not look like an epoch record. -/
theorem readData_block2 : ∀ (ls : List Str) (l0 : Str) (more : List Str),
    (∀ l ∈ ls, isEnd (l ++ ['\n']) = false) →
    (more = [] ∨ ∃ m ms, more = m :: ms ∧ isEnd (m ++ ['\n']) = true) →
    ∀ (n : Nat) (s : State), readData headerParser obsParser resetCache (l0 :: (ls ++ more)) false n s =
      match runObs (l0 :: ls) s with
      | .error e => .error e
      | .ok s' =>
        match more with
        | [] => .ok (resetCache s')
        | _ :: _ => readData headerParser obsParser resetCache more false 0 (resetCache s') := by
  intro ls
  induction ls with
  | nil =>
    intro l0 more _ hmore n s
    have hp : parseLine obsParser (rstrip l0) (n + 1) s = parseLine obsParser (rstrip l0) 0 s := rfl
    simp only [List.nil_append, readData, Bool.false_eq_true, if_false, hp, runObs_cons]
    cases parseLine obsParser (rstrip l0) 0 s with
    | error e => rfl
    | ok s' =>
      simp only [runObs, List.foldlM_nil, pure, Except.pure]
      rcases hmore with rfl | ⟨m, ms, rfl, hm⟩
      · rfl
      · have : obsParser.endMarker (rstrip l0) (n + 1) (m ++ ['\n']) = true := hm
        simp only [this, if_true]
  | cons l1 ls ih =>
    intro l0 more hls hmore n s
    have hp : parseLine obsParser (rstrip l0) (n + 1) s = parseLine obsParser (rstrip l0) 0 s := rfl
    have h1 : obsParser.endMarker (rstrip l0) (n + 1) (l1 ++ ['\n']) = false := hls l1 (by simp)
    simp only [List.cons_append, readData, Bool.false_eq_true, if_false, hp, h1]
    rw [runObs_cons l0 (l1 :: ls) s]
    cases parseLine obsParser (rstrip l0) 0 s with
    | error e => rfl
    | ok s' =>
      simp only
      exact ih l1 more (fun l hl => hls l (by simp [hl])) hmore (n + 1) s'

end Midgard.Spec.Rinex2ObsFile
