/-
C11 file level, part 3: `read_data` over the data section of a rendered RINEX 3 observation file — the group lemma
for "the next line starts with `>`", one observation record, one epoch group, all epochs by induction — given
what the header left in the parser state (`HdrFacts`).  Core Lean only.
-/
import Midgard.Proofs.Rinex3ObsCols

namespace Midgard.Spec.Rinex3ObsFile
open Midgard.Text Midgard.FixedCol Midgard.Decimal Midgard.ChainParser Midgard.RinexObs Midgard.Rinex3Obs

/-! ### `read_data` over the epoch groups -/

/-- the lines of a group applied in order -/
def runObs (ls : List Str) (s : State) : Except Err State :=
  ls.foldlM (fun s l => parseLine obsParser (rstrip l) 0 s) s

theorem runObs_cons (l : Str) (ls : List Str) (s : State) :
    runObs (l :: ls) s = match parseLine obsParser (rstrip l) 0 s with
      | .ok s' => runObs ls s'
      | .error e => .error e := by
  simp only [runObs, List.foldlM_cons, bind, Except.bind]
  cases parseLine obsParser (rstrip l) 0 s <;> rfl

/-- **Group lemma for the data section.**  A group starts at its first line and runs as long as the next line
does not start with `>`: `read_data` applies the lines in order, resets the cache and starts the next group. -/
theorem readData_block : ∀ (ls : List Str) (l0 : Str) (more : List Str),
    (∀ l ∈ ls, startsWith ['>'] (l ++ ['\n']) = false) →
    (more = [] ∨ ∃ m ms, more = m :: ms ∧ startsWith ['>'] (m ++ ['\n']) = true) →
    ∀ (n : Nat) (s : State), readData headerParser obsParser resetCache (l0 :: (ls ++ more)) false n s =
      match runObs (l0 :: ls) s with
      | .error e => .error e
      | .ok s' =>
        match more with
        | [] => .ok (resetCache s')
        | _ :: _ => readData headerParser obsParser resetCache more false 0 (resetCache s') := by
  intro ls
  induction ls with
  | nil =>
    intro l0 more _ hmore n s
    have hp : parseLine obsParser (rstrip l0) (n + 1) s = parseLine obsParser (rstrip l0) 0 s := rfl
    simp only [List.cons_append, List.nil_append, readData, Bool.false_eq_true, if_false, hp, runObs_cons]
    cases parseLine obsParser (rstrip l0) 0 s with
    | error e => rfl
    | ok s' =>
      simp only [runObs, List.foldlM_nil, pure, Except.pure]
      rcases hmore with rfl | ⟨m, ms, rfl, hm⟩
      · rfl
      · have : obsParser.endMarker (rstrip l0) (n + 1) (m ++ ['\n']) = true := hm
        simp only [this, if_true]
  | cons l1 ls ih =>
    intro l0 more hls hmore n s
    have hp : parseLine obsParser (rstrip l0) (n + 1) s = parseLine obsParser (rstrip l0) 0 s := rfl
    have h1 : obsParser.endMarker (rstrip l0) (n + 1) (l1 ++ ['\n']) = false := hls l1 (by simp)
    simp only [List.cons_append, readData, Bool.false_eq_true, if_false, hp, h1]
    rw [runObs_cons l0 (l1 :: ls) s]
    cases parseLine obsParser (rstrip l0) 0 s with
    | error e => rfl
    | ok s' =>
      simp only
      exact ih l1 more (fun l hl => hls l (by simp [hl])) hmore (n + 1) s'

/-! ### the state during the data section -/

def mk (H : State) (d : Data) (c : Cache) : State := { H with data := d, cache := c }

/-- the data after the rows `rs` -/
def dataOf (hdr : List HdrRec) (rate : Option Rat) (rs : List (Epoch × SatRec)) (d0 : Data) : Data :=
  let station := lower ((markerOf hdr).getD [])
  { d0 with
    obs := Cols (allTypes hdr) fun t => rs.map fun er => lookup hdr (·.value.val) t er.2,
    lli := Cols (allTypes hdr) fun t => rs.map fun er => lookup hdr (·.lli.val) t er.2,
    snr := Cols (allTypes hdr) fun t => rs.map fun er => lookup hdr (·.ssi.val) t er.2,
    time := rs.map fun er => (info rate er.1).obsTime,
    timeMicros := rs.map fun er => (info rate er.1).micros,
    epochFlag := rs.map fun er => (info rate er.1).epochFlag,
    clk := rs.map fun er => (info rate er.1).clk,
    station := rs.map fun _ => station,
    system := rs.map fun er => er.2.sat.take 1,
    satellite := rs.map fun er => er.2.sat,
    satnum := rs.map fun er => Text.slice 1 3 er.2.sat }

theorem expectedData_eq (rate : Option Rat) (F : File) (d0 : Data) :
    expectedData rate F d0 = dataOf F.hdr rate (rows rate F) d0 := rfl

/-- what the data section needs from the header -/
structure HdrFacts (hdr : List HdrRec) (rate : Option Rat) (H : State) : Prop where
  htypes : H.obstypesAll = allTypes hdr
  hrate : H.rate = rate
  hmarker : ∃ m, markerOf hdr = some m ∧ H.metaD.get [key "marker_name"] = some (.text m)
  hsys : ∀ st ∈ sysTypes hdr, H.metaD.get [key "obstypes", st.1] = some (.list st.2)
  hdata : H.data = dataOf hdr rate [] H.data

/-- what the well-formedness test says about the type lists -/
structure TypeFacts (hdr : List HdrRec) : Prop where
  all : (allTypes hdr).Nodup
  each : ∀ st ∈ sysTypes hdr, st.2.Nodup ∧ ∀ t ∈ st.2, t ∈ allTypes hdr

theorem styled_head (st : Style) (c : Char) (t : Str) (hc : isSpace c = false) : ∃ t', styled st (c :: t) = c :: t' := by
  cases st
  · exact ⟨t, rfl⟩
  · exact ⟨_, rstrip_cons t hc⟩
  · exact ⟨_, rfl⟩

theorem starts_gt (c : Char) (t : Str) : startsWith ['>'] (c :: t ++ ['\n']) = decide (c = '>') := by
  by_cases h : c = '>'
  · subst h; simp [startsWith, List.isPrefixOf]
  · have : ('>' == c) = false := by simp [Ne.symm h]
    simp [startsWith, List.isPrefixOf, h, this]

theorem epochLine_starts (st : Style) (e : Epoch) : startsWith ['>'] (styled st (epochLine e) ++ ['\n']) = true := by
  obtain ⟨t, ht⟩ := epochLine_head e
  obtain ⟨t', ht'⟩ := styled_head st '>' t (by decide)
  rw [ht, ht', starts_gt]; rfl

theorem satLine_starts (hdr : List HdrRec) (st : Style) (r : SatRec) (hr : r.wf hdr = true) :
    startsWith ['>'] (styled st (satLine r) ++ ['\n']) = false := by
  simp only [SatRec.wf, Bool.and_eq_true, decide_eq_true_eq] at hr
  obtain ⟨⟨⟨⟨hsat, _⟩, _⟩, _⟩, _⟩ := hr
  match hsm : r.sat, hsat with
  | [c, d1, d2], hsat =>
  simp only [Bool.and_eq_true] at hsat
  obtain ⟨hcs, hcgt, _⟩ := alpha_facts hsat.1.1
  obtain ⟨t', ht'⟩ := styled_head st c (d1 :: d2 :: satBody r) hcs
  rw [satLine_eq r c d1 d2 hsm, ht', starts_gt]
  simp [hcgt]

/-! ### one epoch group -/

theorem typesOf_mem (hdr : List HdrRec) (sy : Str) (h : (sysTypes hdr).any (·.1 == sy) = true) :
    (sy, typesOf hdr sy) ∈ sysTypes hdr := by
  unfold typesOf
  cases hf : (sysTypes hdr).find? (·.1 == sy) with
  | none =>
    rw [List.find?_eq_none] at hf
    rw [List.any_eq_true] at h
    obtain ⟨x, hx, hxs⟩ := h
    exact absurd hxs (hf x hx)
  | some x =>
    have hm := List.mem_of_find?_eq_some hf
    have hb := List.find?_some hf
    simp only [beq_iff_eq] at hb
    simp only [Option.map_some, Option.getD_some]
    rw [← hb]
    exact hm

/-- an observation record of a kept epoch adds its row; of a decimated epoch nothing -/
theorem sat_step (hdr : List HdrRec) (rate : Option Rat) (H : State) (hH : HdrFacts hdr rate H) (hT : TypeFacts hdr)
    (st : Style) (e : Epoch) (r : SatRec) (hr : r.wf hdr = true) (rs : List (Epoch × SatRec)) (c : Cache)
    (hc : c.epoch = some (info rate e)) :
    parseLine obsParser (rstrip (styled st (satLine r))) 0 (mk H (dataOf hdr rate rs H.data) c) =
      .ok (mk H (dataOf hdr rate (rs ++ if kept rate e then [(e, r)] else []) H.data) c) := by
  rw [rstrip_styled]
  have hwf := hr
  simp only [SatRec.wf, Bool.and_eq_true, decide_eq_true_eq] at hr
  obtain ⟨⟨⟨⟨_, hany⟩, hlen⟩, _⟩, _⟩ := hr
  have hmem := typesOf_mem hdr (r.sat.take 1) hany
  obtain ⟨m, hm1, hm2⟩ := hH.hmarker
  have hsys := hH.hsys _ hmem
  have := sat_line hdr r hwf 0 (mk H (dataOf hdr rate rs H.data) c) (info rate e) (typesOf hdr (r.sat.take 1)) m hc hsys hlen.symm hm2
  rw [this]
  by_cases hk : kept rate e = true
  · have hsec : (info rate e).obsSec = some (obsSec e) := by simp [info, hk]
    simp only [hsec, hk, if_true]
    have htf := hT.each _ hmem
    rw [addRecord_cols (allTypes hdr) (typesOf hdr (r.sat.take 1)) hT.all htf.1 htf.2 r hlen.symm (lower m) (info rate e)
      (mk H (dataOf hdr rate rs H.data) c) hH.htypes _ _ _ rfl rfl rfl]
    simp only [mk, recData, Data.appendRow, dataOf, List.map_append, List.map_cons, List.map_nil, hm1, Option.getD_some, look,
      lookup]
  · have hk' : kept rate e = false := by simpa using hk
    have hsec : (info rate e).obsSec = none := by simp [info, hk']
    simp only [hsec, hk', Bool.false_eq_true, if_false, List.append_nil]

theorem sats_run (hdr : List HdrRec) (rate : Option Rat) (H : State) (hH : HdrFacts hdr rate H) (hT : TypeFacts hdr)
    (st : Style) (e : Epoch) (c : Cache) (hc : c.epoch = some (info rate e)) :
    ∀ (sats : List SatRec) (rs : List (Epoch × SatRec)), (∀ r ∈ sats, r.wf hdr = true) →
      runObs (sats.map fun r => styled st (satLine r)) (mk H (dataOf hdr rate rs H.data) c) =
        .ok (mk H (dataOf hdr rate (rs ++ if kept rate e then sats.map (fun r => (e, r)) else []) H.data) c) := by
  intro sats
  induction sats with
  | nil => intro rs _; simp [runObs, pure, Except.pure]
  | cons r sats ih =>
    intro rs hw
    rw [List.map_cons, runObs_cons, sat_step hdr rate H hH hT st e r (hw r (by simp)) rs c hc]
    simp only
    rw [ih _ (fun r' hr' => hw r' (by simp [hr']))]
    by_cases hk : kept rate e = true
    · simp [hk, List.append_assoc]
    · have hk' : kept rate e = false := by simpa using hk
      simp [hk']

/-- the lines of an epoch group after the epoch record: special records (event epochs), then satellites -/
def blockTail (e : Epoch) : List Str := (e.special.map fun kc => rec kc.1 kc.2) ++ e.sats.map satLine

theorem blockLines_eq (e : Epoch) : blockLines e = epochLine e :: blockTail e := rfl

theorem runObs_append (a b : List Str) (s : State) :
    runObs (a ++ b) s = match runObs a s with
      | .ok s' => runObs b s'
      | .error e => .error e := by
  induction a generalizing s with
  | nil => rfl
  | cons l a ih =>
    rw [List.cons_append, runObs_cons, runObs_cons]
    cases parseLine obsParser (rstrip l) 0 s with
    | error e => rfl
    | ok s' => exact ih s'

theorem specials_run (st : Style) : ∀ (sp : List (String × List Str)) (s : State), (∀ kc ∈ sp, specialOk kc = true) →
    runObs (sp.map fun kc => styled st (rec kc.1 kc.2)) s = .ok s := by
  intro sp
  induction sp with
  | nil => intro s _; rfl
  | cons kc sp ih =>
    intro s h
    rw [List.map_cons, runObs_cons, rstrip_styled, special_line kc (h kc (by simp))]
    exact ih s (fun kc' hkc' => h kc' (by simp [hkc']))

theorem epoch_parts (hdr : List HdrRec) (e : Epoch) (he : e.wf hdr = true) :
    (∀ kc ∈ e.special, specialOk kc = true) ∧ (∀ r ∈ e.sats, r.wf hdr = true) := by
  simp only [Epoch.wf, Bool.and_eq_true] at he
  obtain ⟨⟨⟨⟨⟨⟨⟨⟨⟨⟨⟨hsp, _⟩, _⟩, _⟩, _⟩, _⟩, _⟩, _⟩, _⟩, _⟩, _⟩, hsats⟩ := he
  exact ⟨fun kc hkc => List.all_eq_true.mp hsp kc hkc, fun r hr => List.all_eq_true.mp hsats r hr⟩

/-- **one epoch group**: the epoch record, the special records of an event epoch (ignored) and the observation
records add one row per satellite (none when the sampling rate decimates the epoch) -/
theorem block_run (hdr : List HdrRec) (rate : Option Rat) (H : State) (hH : HdrFacts hdr rate H) (hT : TypeFacts hdr)
    (st : Style) (e : Epoch) (he : e.wf hdr = true) (rs : List (Epoch × SatRec)) :
    runObs (styled st (epochLine e) :: (blockTail e).map (styled st)) (mk H (dataOf hdr rate rs H.data) {}) =
      .ok (mk H (dataOf hdr rate (rs ++ if kept rate e then e.sats.map (fun r => (e, r)) else []) H.data)
        { epoch := some (info rate e) }) := by
  obtain ⟨hsp, hsats⟩ := epoch_parts hdr e he
  rw [runObs_cons, rstrip_styled, epoch_line hdr e he]
  simp only
  have hst : ({ (mk H (dataOf hdr rate rs H.data) {}) with
      cache := { (mk H (dataOf hdr rate rs H.data) {}).cache with
        epoch := some (info (mk H (dataOf hdr rate rs H.data) {}).rate e) } } : State) =
      mk H (dataOf hdr rate rs H.data) { epoch := some (info rate e) } := by
    have hrate : (mk H (dataOf hdr rate rs H.data) {}).rate = rate := hH.hrate
    rw [hrate]; rfl
  rw [hst]
  simp only [blockTail, List.map_append, List.map_map, Function.comp_def]
  rw [runObs_append, specials_run st e.special _ hsp]
  exact sats_run hdr rate H hH hT st e { epoch := some (info rate e) } rfl e.sats rs hsats

/-- the rows of a list of epochs -/
def rowsOf (rate : Option Rat) (eps : List Epoch) : List (Epoch × SatRec) :=
  (eps.filter (kept rate)).flatMap fun e => e.sats.map fun r => (e, r)

theorem rowsOf_cons (rate : Option Rat) (e : Epoch) (eps : List Epoch) :
    rowsOf rate (e :: eps) = (if kept rate e then e.sats.map (fun r => (e, r)) else []) ++ rowsOf rate eps := by
  unfold rowsOf
  by_cases hk : kept rate e = true
  · simp [List.filter_cons, hk]
  · have hk' : kept rate e = false := by simpa using hk
    simp [List.filter_cons, hk']

/-- **the data section**, by induction over the epochs -/
theorem blocks_run (hdr : List HdrRec) (rate : Option Rat) (H : State) (hH : HdrFacts hdr rate H) (hT : TypeFacts hdr)
    (st : Style) : ∀ (eps : List Epoch) (rs : List (Epoch × SatRec)), (∀ e ∈ eps, e.wf hdr = true) →
      readData headerParser obsParser resetCache ((eps.flatMap blockLines).map (styled st)) false 0
          (mk H (dataOf hdr rate rs H.data) {}) =
        .ok (mk H (dataOf hdr rate (rs ++ rowsOf rate eps) H.data) {}) := by
  intro eps
  induction eps with
  | nil => intro rs _; simp [readData, rowsOf, pure, Except.pure]
  | cons e eps ih =>
    intro rs hw
    have he := hw e (by simp)
    obtain ⟨hsp, hsats⟩ := epoch_parts hdr e he
    have hb := block_run hdr rate H hH hT st e he rs
    have hbl : ((e :: eps).flatMap blockLines).map (styled st) =
        styled st (epochLine e) :: ((blockTail e).map (styled st) ++ (eps.flatMap blockLines).map (styled st)) := by
      simp [List.flatMap_cons, blockLines_eq]
    have hmore : ((eps.flatMap blockLines).map (styled st)) = [] ∨ ∃ m ms, ((eps.flatMap blockLines).map (styled st)) = m :: ms ∧
        startsWith ['>'] (m ++ ['\n']) = true := by
      cases eps with
      | nil => left; rfl
      | cons e' eps' =>
        right
        exact ⟨styled st (epochLine e'), List.map (styled st) (blockTail e' ++ eps'.flatMap blockLines),
          by simp [List.flatMap_cons, blockLines_eq], epochLine_starts st e'⟩
    have hls : ∀ l ∈ (blockTail e).map (styled st), startsWith ['>'] (l ++ ['\n']) = false := by
      intro l hl
      simp only [blockTail, List.map_append, List.map_map, List.mem_append, List.mem_map, Function.comp] at hl
      rcases hl with ⟨kc, hkc, rfl⟩ | ⟨r, hr, rfl⟩
      · exact special_starts st kc (hsp kc hkc)
      · exact satLine_starts hdr st r (hsats r hr)
    rw [hbl, readData_block _ _ _ hls hmore 0, hb]
    simp only
    have ih' := ih (rs ++ if kept rate e then e.sats.map (fun r => (e, r)) else []) (fun e' he' => hw e' (by simp [he']))
    rw [rowsOf_cons, ← List.append_assoc]
    cases hm : (eps.flatMap blockLines).map (styled st) with
    | nil =>
      have hnil : eps = [] := by
        cases eps with
        | nil => rfl
        | cons e' eps' => simp [List.flatMap_cons, blockLines_eq] at hm
      subst hnil
      simp [rowsOf, resetCache, mk]
    | cons m ms =>
      simp only
      rw [← hm]
      exact ih'

end Midgard.Spec.Rinex3ObsFile
