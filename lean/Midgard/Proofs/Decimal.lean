/-
Lemmas about `Midgard.Core.Decimal` (core Lean only).
-/
import Midgard.Core.Decimal
import Midgard.Proofs.Text

namespace Midgard.Decimal
open Midgard.Text

/-! ### single digits -/

theorem digit_facts : ∀ k < 10, isSpace (Char.ofNat (48 + k)) = false ∧ isDigit (Char.ofNat (48 + k)) = true
    ∧ digitVal (Char.ofNat (48 + k)) = k ∧ Char.ofNat (48 + k) ≠ '-' ∧ Char.ofNat (48 + k) ≠ '+'
    ∧ Char.ofNat (48 + k) ≠ '.' := by
  decide +kernel

theorem isSpace_digitChar (n : Nat) : isSpace (digitChar n) = false :=
  (digit_facts (n % 10) (Nat.mod_lt _ (by decide))).1

theorem isDigit_digitChar (n : Nat) : isDigit (digitChar n) = true :=
  (digit_facts (n % 10) (Nat.mod_lt _ (by decide))).2.1

theorem digitVal_digitChar (n : Nat) : digitVal (digitChar n) = n % 10 :=
  (digit_facts (n % 10) (Nat.mod_lt _ (by decide))).2.2.1

theorem digitChar_ne_minus (n : Nat) : digitChar n ≠ '-' :=
  (digit_facts (n % 10) (Nat.mod_lt _ (by decide))).2.2.2.1

theorem digitChar_ne_plus (n : Nat) : digitChar n ≠ '+' :=
  (digit_facts (n % 10) (Nat.mod_lt _ (by decide))).2.2.2.2.1

theorem digitChar_ne_point (n : Nat) : digitChar n ≠ '.' :=
  (digit_facts (n % 10) (Nat.mod_lt _ (by decide))).2.2.2.2.2

theorem isSpace_of_isDigit {c : Char} (h : isDigit c = true) : isSpace c = false := by
  simp only [isDigit, Bool.and_eq_true, decide_eq_true_eq] at h
  have h1 : 48 ≤ c.toNat := h.1
  have h2 : c.toNat ≤ 57 := h.2
  have ne : ∀ d : Char, d.toNat < 48 → c ≠ d := by
    intro d hd hc; subst hc; omega
  have e1 : (c = ' ') = False := eq_false (ne ' ' (by decide))
  have e2 : (c = '\t') = False := eq_false (ne '\t' (by decide))
  have e3 : (c = '\n') = False := eq_false (ne '\n' (by decide))
  have e4 : (c = '\r') = False := eq_false (ne '\r' (by decide))
  have e5 : (c.toNat = 11) = False := eq_false (by omega)
  have e6 : (c.toNat = 12) = False := eq_false (by omega)
  have e7 : (c.toNat ≤ 31) = False := eq_false (by omega)
  simp only [isSpace, e1, e2, e3, e4, e5, e6, e7, decide_false, Bool.or_false, Bool.and_false]

/-! ### digit strings -/

theorem digitsValAux_append (acc : Nat) (s : Str) (c : Char) :
    digitsValAux acc (s ++ [c]) = digitsValAux acc s * 10 + digitVal c := by
  induction s generalizing acc with
  | nil => rfl
  | cons d s ih =>
    show digitsValAux (acc * 10 + digitVal d) (s ++ [c]) = digitsValAux (acc * 10 + digitVal d) s * 10 + digitVal c
    exact ih (acc * 10 + digitVal d)

theorem digitsVal_append_digit (s : Str) (c : Char) : digitsVal (s ++ [c]) = digitsVal s * 10 + digitVal c :=
  digitsValAux_append 0 s c

theorem length_fixedDigits (p n : Nat) : (fixedDigits p n).length = p := by
  induction p generalizing n with
  | zero => rfl
  | succ p ih => simp [fixedDigits, ih]

theorem allDigits_fixedDigits (p n : Nat) : allDigits (fixedDigits p n) = true := by
  induction p generalizing n with
  | zero => rfl
  | succ p ih =>
    simp only [fixedDigits, allDigits, List.all_append, List.all_cons, List.all_nil, Bool.and_true,
      Bool.and_eq_true]
    exact ⟨ih _, isDigit_digitChar n⟩

theorem digitsVal_fixedDigits (p n : Nat) : digitsVal (fixedDigits p n) = n % 10 ^ p := by
  induction p generalizing n with
  | zero =>
    show digitsVal [] = n % 10 ^ 0
    rw [Nat.pow_zero, Nat.mod_one]; rfl
  | succ p ih =>
    rw [fixedDigits, digitsVal_append_digit, ih, digitVal_digitChar]
    have : (10 : Nat) ^ (p + 1) = 10 * 10 ^ p := by rw [Nat.pow_succ, Nat.mul_comm]
    rw [this, Nat.mod_mul]
    omega

theorem fixedDigits_ne_nil {p : Nat} (hp : 0 < p) (n : Nat) : fixedDigits p n ≠ [] := by
  intro h
  have := length_fixedDigits p n
  rw [h] at this
  simp at this
  omega

theorem parseNat_fixedDigits {p : Nat} (hp : 0 < p) (n : Nat) :
    parseNat? (fixedDigits p n) = some (n % 10 ^ p) := by
  unfold parseNat?
  have h1 : (fixedDigits p n).isEmpty = false := by
    cases h : fixedDigits p n with
    | nil => exact absurd h (fixedDigits_ne_nil hp n)
    | cons _ _ => rfl
  simp [h1, allDigits_fixedDigits, digitsVal_fixedDigits]

/-! ### text without blanks is its own strip -/

theorem lstrip_of_no_space {s : Str} (h : ∀ c ∈ s, isSpace c = false) : lstrip s = s := by
  cases s with
  | nil => rfl
  | cons c r => exact lstrip_of_head (h c (by simp))

theorem rstrip_of_no_space {s : Str} (h : ∀ c ∈ s, isSpace c = false) : rstrip s = s := by
  unfold rstrip
  have : s.reverse.dropWhile isSpace = s.reverse := by
    have := lstrip_of_no_space (s := s.reverse) (fun c hc => h c (by simpa using hc))
    exact this
  rw [this, List.reverse_reverse]

theorem strip_of_no_space {s : Str} (h : ∀ c ∈ s, isSpace c = false) : strip s = s := by
  unfold strip; rw [lstrip_of_no_space h, rstrip_of_no_space h]

theorem strip_of_allDigits {s : Str} (h : allDigits s = true) : strip s = s := by
  apply strip_of_no_space
  intro c hc
  simp only [allDigits, List.all_eq_true] at h
  exact isSpace_of_isDigit (h c hc)

theorem takeSign_of_digit {c : Char} {r : Str} (h : isDigit c = true) : takeSign (c :: r) = (false, c :: r) := by
  have h1 : c ≠ '-' := by intro hc; subst hc; revert h; decide
  have h2 : c ≠ '+' := by intro hc; subst hc; revert h; decide
  unfold takeSign
  split
  · rename_i heq; simp only [List.cons.injEq] at heq; exact absurd heq.1 h1
  · rename_i heq; simp only [List.cons.injEq] at heq; exact absurd heq.1 h2
  · rfl

/-- `int("0…0n")`: a fixed-width digit field parses to its number -/
theorem parseInt_fixedDigits {p : Nat} (hp : 0 < p) (n : Nat) :
    parseInt? (fixedDigits p n) = some ((n % 10 ^ p : Nat) : Int) := by
  unfold parseInt?
  rw [strip_of_allDigits (allDigits_fixedDigits p n)]
  cases h : fixedDigits p n with
  | nil => exact absurd h (fixedDigits_ne_nil hp n)
  | cons c r =>
    have hd : isDigit c = true := by
      have := allDigits_fixedDigits p n
      rw [h] at this
      simp only [allDigits, List.all_cons, Bool.and_eq_true] at this
      exact this.1
    rw [takeSign_of_digit hd, ← h]
    simp [parseNat_fixedDigits hp n]

end Midgard.Decimal
