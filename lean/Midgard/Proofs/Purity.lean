/-
Helper lemmas of C16 (Mathlib-free): the unwinding argument behind `noninterference`, list-lookup
facts for memo tables and registries, and the prefix-independence of the RINEX header cache.
-/
import Midgard.Model.Purity

namespace Midgard.Purity

section generic
variable {Id Loc Cell Val Path Bytes Op Obs : Type} [DecidableEq Id]


/-- the relation kept between the full run and the run without the other instances -/
def Rel (i : Id) (rel : Cell → Prop) (Good : (Cell → Val) → Prop)
    (w v : World Id Loc Cell Val Path Bytes) : Prop :=
  w.files = v.files ∧ w.inst i = v.inst i ∧ (∀ c, rel c → w.shared c = v.shared c) ∧
    Good w.shared ∧ Good v.shared

theorem unwinding {sem : Sem Loc Cell Val Path Bytes Op Obs} {rel : Cell → Prop}
    {Good : (Cell → Val) → Prop} (H : NonInterfering sem rel Good) (i : Id) :
    ∀ (h : List (Event Id Op)) (w v : World Id Loc Cell Val Path Bytes), Rel i rel Good w v →
      obsOf i (run sem w h).2 = obsOf i (run sem v (purge i h)).2 ∧
      Rel i rel Good (run sem w h).1 (run sem v (purge i h)).1 := by
  intro h
  induction h with
  | nil => intro w v r; exact ⟨rfl, r⟩
  | cons e h ih =>
    intro w v ⟨hf, hi, hs, gw, gv⟩
    obtain ⟨who, op⟩ := e
    by_cases he : who = i
    · -- an event of instance i: both runs take it, from related worlds
      subst he
      have hp : purge who (⟨who, op⟩ :: h) = ⟨who, op⟩ :: purge who h := by simp [purge]
      rw [hp]
      have hrs := H.reads_sound op w.files (w.inst who) w.shared v.shared gw gv hs
      have hobs : (step sem w ⟨who, op⟩).2 = (step sem v ⟨who, op⟩).2 := by
        simp only [step]; rw [← hf, ← hi]; exact hrs.1
      have r' : Rel who rel Good (step sem w ⟨who, op⟩).1 (step sem v ⟨who, op⟩).1 := by
        refine ⟨?_, ?_, ?_, ?_, ?_⟩
        · simp [step, H.files_kept, hf]
        · simp only [step, setInst, if_true]
          rw [← hf, ← hi]; exact hrs.2
        · intro c hc
          simp only [step]
          rw [H.rel_kept _ _ _ _ c gw hc, H.rel_kept _ _ _ _ c gv hc]; exact hs c hc
        · exact H.good_step _ _ _ _ gw
        · exact H.good_step _ _ _ _ gv
      have := ih (step sem w ⟨who, op⟩).1 (step sem v ⟨who, op⟩).1 r'
      refine ⟨?_, this.2⟩
      simp only [run, obsOf, List.filter_cons, decide_true, if_true, List.map_cons]
      rw [hobs]
      have h1 := this.1
      simp only [obsOf] at h1
      rw [h1]
    · -- an event of another instance: only the full run moves; the relation survives
      have hp : purge i (⟨who, op⟩ :: h) = purge i h := by simp [purge, he]
      rw [hp]
      have r' : Rel i rel Good (step sem w ⟨who, op⟩).1 v := by
        refine ⟨?_, ?_, ?_, ?_, gv⟩
        · simp [step, H.files_kept, hf]
        · have : i ≠ who := fun x => he x.symm
          simp [step, setInst, this, hi]
        · intro c hc
          simp only [step]
          rw [H.rel_kept _ _ _ _ c gw hc]; exact hs c hc
        · exact H.good_step _ _ _ _ gw
      have := ih (step sem w ⟨who, op⟩).1 v r'
      refine ⟨?_, this.2⟩
      simp only [run, obsOf, List.filter_cons, he, decide_false]
      have h1 := this.1
      simp only [obsOf] at h1
      simpa using h1

end generic

section memo
variable {α β : Type} [DecidableEq α]


theorem lookup_mem : ∀ {c : List (α × β)} {x : α} {v : β}, c.lookup x = some v → (x, v) ∈ c := by
  intro c
  induction c with
  | nil => intro x v h; simp [List.lookup] at h
  | cons p c ih =>
    intro x v h
    obtain ⟨a, b⟩ := p
    by_cases hx : x = a
    · subst hx; simp [List.lookup] at h; simp [h]
    · have : (x == a) = false := by simp [hx]
      simp [List.lookup, this] at h
      exact List.mem_cons_of_mem _ (ih h)

end memo

section registry
variable {N P : Type} [DecidableEq N]


theorem lookup_mem' : ∀ {c : List (N × P)} {x : N} {v : P}, c.lookup x = some v → (x, v) ∈ c := by
  intro c
  induction c with
  | nil => intro x v h; simp [List.lookup] at h
  | cons p c ih =>
    intro x v h
    obtain ⟨a, b⟩ := p
    by_cases hx : x = a
    · subst hx; simp [List.lookup] at h; simp [h]
    · have : (x == a) = false := by simp [hx]
      simp [List.lookup, this] at h
      exact List.mem_cons_of_mem _ (ih h)

theorem lookup_append_none {c : List (N × P)} {x : N} {p : P} (h : c.lookup x = none) :
    (c ++ [(x, p)]).lookup x = some p := by
  induction c with
  | nil => simp [List.lookup]
  | cons q c ih =>
    obtain ⟨a, b⟩ := q
    by_cases hx : x = a
    · subst hx; simp [List.lookup] at h
    · have hb : (x == a) = false := by simp [hx]
      simp only [List.lookup, hb, List.cons_append] at h ⊢
      exact ih h

theorem lookup_append_some {c d : List (N × P)} {x : N} {v : P} (h : c.lookup x = some v) :
    (c ++ d).lookup x = some v := by
  induction c with
  | nil => simp [List.lookup] at h
  | cons q c ih =>
    obtain ⟨a, b⟩ := q
    by_cases hx : x = a
    · subst hx; simp [List.lookup] at h ⊢; exact h
    · have hb : (x == a) = false := by simp [hx]
      simp only [List.cons_append, List.lookup, hb] at h ⊢
      exact ih h

theorem regAdd_sound (defn : N → Option P) (reg : List (N × P)) (n : N)
    (h : RegSound defn reg) : RegSound defn (regAdd defn reg n) := by
  unfold regAdd
  split
  · exact h
  · cases hd : defn n with
    | none => exact h
    | some p =>
      intro q hq
      simp at hq
      rcases hq with hq | rfl
      · exact h q hq
      · exact hd

/-- looking `x` up after `regAdd n`: a present entry is never replaced -/
theorem regAdd_lookup_some (defn : N → Option P) (reg : List (N × P)) (n x : N) (v : P)
    (h : reg.lookup x = some v) : (regAdd defn reg n).lookup x = some v := by
  unfold regAdd
  split
  · exact h
  · cases defn n with
    | none => exact h
    | some p =>
      exact lookup_append_some h

theorem foldl_regAdd_sound (defn : N → Option P) (ns : List N) :
    ∀ reg : List (N × P), RegSound defn reg → RegSound defn (ns.foldl (regAdd defn) reg) := by
  induction ns with
  | nil => intro reg h; exact h
  | cons n ns ih => intro reg h; exact ih _ (regAdd_sound defn reg n h)

theorem foldl_regAdd_lookup_some (defn : N → Option P) (ns : List N) (x : N) (v : P) :
    ∀ reg : List (N × P), reg.lookup x = some v → (ns.foldl (regAdd defn) reg).lookup x = some v := by
  induction ns with
  | nil => intro reg h; exact h
  | cons n ns ih => intro reg h; exact ih _ (regAdd_lookup_some defn reg n x v h)

theorem regAdd_self (defn : N → Option P) (reg : List (N × P)) (n : N) (h : RegSound defn reg) :
    (regAdd defn reg n).lookup n = defn n := by
  unfold regAdd
  cases hl : reg.lookup n with
  | some v =>
    simp
    rw [hl]
    exact (h (n, v) (lookup_mem' hl)).symm
  | none =>
    simp
    cases hd : defn n with
    | none => simpa using hl
    | some p => simpa using lookup_append_none hl

theorem foldl_snoc_lookup (defn : N → Option P) (ns : List N) (n : N) (reg : List (N × P))
    (h : RegSound defn reg) : ((ns ++ [n]).foldl (regAdd defn) reg).lookup n = defn n := by
  rw [List.foldl_append]
  simp only [List.foldl]
  exact regAdd_self defn _ n (foldl_regAdd_sound defn ns reg h)

end registry


theorem find_rev_append (pre own : List ObsLine)
    (h : own.any (fun c => decide (c.sys ≠ [])) = true) :
    ((pre ++ own).reverse.find? (fun c => decide (c.sys ≠ []))) =
      (own.reverse.find? (fun c => decide (c.sys ≠ []))) := by
  rw [List.reverse_append, List.find?_append]
  have : (own.reverse.find? (fun c => decide (c.sys ≠ []))).isSome = true := by
    rw [List.find?_isSome]
    rw [List.any_eq_true] at h
    obtain ⟨x, hx, hp⟩ := h
    exact ⟨x, List.mem_reverse.mpr hx, hp⟩
  cases hf : own.reverse.find? (fun c => decide (c.sys ≠ [])) with
  | none => rw [hf] at this; simp at this
  | some v => simp

theorem resolve_append (pre own : List ObsLine) (l : ObsLine)
    (h : l.sys ≠ [] ∨ own.any (fun c => decide (c.sys ≠ [])) = true) :
    resolveSys (pre ++ own) l = resolveSys own l := by
  unfold resolveSys
  by_cases hl : l.sys ≠ []
  · simp [hl]
  · simp only [hl, if_false]
    rcases h with h | h
    · exact absurd h hl
    · rw [find_rev_append pre own h]

theorem parseFrom_prefix (pre : List ObsLine) :
    ∀ (lines own : List ObsLine) (hd : ObsTypes),
      (own.any (fun c => decide (c.sys ≠ [])) = true ∨ wfHeader lines = true) →
      (parseFrom (pre ++ own) hd lines).1 = (parseFrom own hd lines).1 ∧
      (parseFrom (pre ++ own) hd lines).2 = pre ++ (parseFrom own hd lines).2 := by
  intro lines
  induction lines with
  | nil => intro own hd _; simp [parseFrom]
  | cons l rest ih =>
    intro own hd h
    have hres : resolveSys (pre ++ own) l = resolveSys own l := by
      apply resolve_append
      rcases h with h | h
      · exact Or.inr h
      · left; simpa [wfHeader] using h
    simp only [parseFrom, hres]
    cases hr : resolveSys own l with
    | none => simp
    | some sys =>
      simp only []
      have hown : (own ++ [l]).any (fun c => decide (c.sys ≠ [])) = true := by
        rw [List.any_append]
        rcases h with h | h
        · rw [h]; rfl
        · have : l.sys ≠ [] := by simpa [wfHeader] using h
          simp [this]
      have := ih (own ++ [l]) (obsAppend hd sys (l.types.filter (· ≠ []))) (Or.inl hown)
      rw [List.append_assoc] at *
      exact this

end Midgard.Purity
