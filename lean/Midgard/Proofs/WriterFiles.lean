/-
C17 — whole files (helper lemmas of Props/C17): text-mode reading and line iteration of a file made of
newline-terminated lines, skipping a header of complete lines, cutting a formatted line into the parser's
fixed widths (segments = literal blanks + one cell), what `np.genfromtxt`'s converters make of a written cell
(`expectField`), and the file-level statement `gft_file` for any writer line whose segment widths are the parser's
`delimiter` widths.
-/
import Midgard.Model.WriterFiles
import Midgard.Proofs.Writers
import Midgard.Proofs.WriterNumbers
import Midgard.Proofs.Digits

namespace Midgard.WriterFiles
open Midgard.Text Midgard.Decimal Midgard.FixedCol Midgard.WriterCells Midgard.Writers
open Midgard.Generated.WriterLayouts

/-! ### text mode, lines -/

theorem unlAux_of_noCR (s : Str) (h : ∀ c ∈ s, c ≠ '\r') : unlAux false s = s := by
  induction s with
  | nil => rfl
  | cons c r ih =>
    have hc : c ≠ '\r' := h c (by simp)
    simp [unlAux, hc, ih (fun d hd => h d (by simp [hd]))]

theorem universalNewlines_of_noCR (s : Str) (h : ∀ c ∈ s, c ≠ '\r') : universalNewlines s = s :=
  unlAux_of_noCR s h

theorem fileLinesAux_line (l : Str) (hl : ∀ c ∈ l, c ≠ '\n') :
    ∀ (cur rest : Str), fileLinesAux (l ++ '\n' :: rest) cur = (cur.reverse ++ l ++ ['\n']) :: fileLinesAux rest [] := by
  induction l with
  | nil => intro cur rest; simp [fileLinesAux]
  | cons c l ih =>
    intro cur rest
    have hc : c ≠ '\n' := hl c (by simp)
    have := ih (fun d hd => hl d (by simp [hd])) (c :: cur) rest
    simp [fileLinesAux, hc, this]

/-- a file made of newline-terminated lines iterates into exactly these lines -/
theorem fileLines_lines (ls : List Str) (h : ∀ l ∈ ls, ∀ c ∈ l, c ≠ '\n') :
    fileLines ((ls.map (· ++ ['\n'])).flatten) = ls.map (· ++ ['\n']) := by
  unfold fileLines
  induction ls with
  | nil => rfl
  | cons l ls ih =>
    have := fileLinesAux_line l (h l (by simp)) [] ((ls.map (· ++ ['\n'])).flatten)
    simp only [List.map_cons, List.flatten_cons, List.append_assoc, List.singleton_append]
    rw [this, ih (fun m hm => h m (by simp [hm]))]
    simp

/-- skipping a header of `k` complete lines -/
theorem fileLinesAux_drop_header (body : Str) : ∀ (hdr cur : Str) (k : Nat), hdr.count '\n' = k →
    (hdr = [] ∨ hdr.getLast? = some '\n') →
    (fileLinesAux (hdr ++ body) cur).drop k = if hdr = [] then fileLinesAux body cur else fileLines body := by
  intro hdr
  induction hdr with
  | nil => intro cur k hk _; simp at hk; subst hk; simp
  | cons c r ih =>
    intro cur k hk hlast
    have hlast' : (c :: r).getLast? = some '\n' := by
      rcases hlast with h | h
      · simp at h
      · exact h
    by_cases hc : c = '\n'
    · subst hc
      have hk' : r.count '\n' + 1 = k := by simpa [List.count_cons] using hk
      subst hk'
      have hr : r = [] ∨ r.getLast? = some '\n' := by
        cases r with
        | nil => exact Or.inl rfl
        | cons d r' => right; simpa [List.getLast?_cons_cons] using hlast'
      have := ih [] (r.count '\n') rfl hr
      simp only [List.cons_append, fileLinesAux, if_true, List.drop_succ_cons]
      rw [this]
      simp [fileLines]
    · have hk' : r.count '\n' = k := by simpa [List.count_cons, hc] using hk
      have hrne : r ≠ [] := by
        intro hr; subst hr; simp at hlast'; exact hc hlast'
      have hr : r = [] ∨ r.getLast? = some '\n' := by
        cases r with
        | nil => exact absurd rfl hrne
        | cons d r' => right; simpa [List.getLast?_cons_cons] using hlast'
      have := ih (c :: cur) k hk' hr
      simp only [List.cons_append, fileLinesAux, hc, if_false]
      rw [this]
      simp [hrne]

theorem fileLines_drop_header (hdr body : Str) (k : Nat) (hk : hdr.count '\n' = k) (hl : hdr.getLast? = some '\n') :
    (fileLines (hdr ++ body)).drop k = fileLines body := by
  have hne : hdr ≠ [] := by intro h; subst h; simp at hl
  have := fileLinesAux_drop_header body hdr [] k hk (Or.inr hl)
  simpa [fileLines, hne] using this

/-! ### fixed widths -/

theorem cutWidths_flatten (ss : List Str) (tl : Str) : cutWidths (ss.map List.length) (ss.flatten ++ tl) = ss := by
  induction ss with
  | nil => rfl
  | cons s ss ih =>
    simp only [List.map_cons, List.flatten_cons, cutWidths, List.append_assoc]
    rw [List.take_left', List.drop_left']
    · rw [ih]
    · rfl
    · rfl

/-- a rendered line is its segments followed by the tail literal -/
theorem render_segs (cells : List Cell) : ∀ (vals : List Value) (pre line : Str),
    renderCells cells vals = some line →
    pre ++ line = (segsFrom pre cells vals).flatten ++ tailLitFrom pre cells := by
  induction cells with
  | nil => intro vals pre line h; simp [renderCells] at h; subst h; simp [segsFrom, tailLitFrom]
  | cons c cs ih =>
    intro vals pre line h
    cases c with
    | lit t =>
      simp only [renderCells, Option.map_eq_some_iff] at h
      obtain ⟨l', hl', rfl⟩ := h
      have := ih vals (pre ++ t.toList) l' hl'
      simp only [segsFrom, tailLitFrom]
      rw [← this]; simp
    | other n => simp [renderCells] at h
    | fld n spec =>
      cases vals with
      | nil => simp [renderCells] at h
      | cons v vs =>
        simp only [renderCells] at h
        split at h
        · simp only [Option.map_eq_some_iff] at h
          obtain ⟨l', hl', rfl⟩ := h
          have := ih vs [] l' hl'
          simp only [segsFrom, tailLitFrom, List.flatten_cons, List.nil_append] at this ⊢
          rw [List.append_assoc, ← this]; simp
        · simp at h

theorem segs_length (cells : List Cell) : ∀ (vals : List Value) (pre : Str), allFit cells vals = true →
    (segsFrom pre cells vals).map List.length = segWidthsFrom pre.length cells := by
  induction cells with
  | nil => intro vals pre _; rfl
  | cons c cs ih =>
    intro vals pre h
    cases c with
    | lit t =>
      simp only [allFit] at h
      have := ih vals (pre ++ t.toList) h
      simpa [segsFrom, segWidthsFrom] using this
    | other n => simp [allFit] at h
    | fld n spec =>
      cases vals with
      | nil => simp [allFit] at h
      | cons v vs =>
        simp only [allFit, Bool.and_eq_true] at h
        have hw := length_fmtValue spec v h.1.2
        have := ih vs [] h.2
        simp only [segsFrom, segWidthsFrom, List.map_cons, List.length_append, hw, List.cons.injEq, true_and]
        simpa using this

theorem isBlank_of_spaces {s : Str} (h : s.all (· = ' ') = true) : isBlank s = true := by
  simp only [isBlank, List.all_eq_true] at h ⊢
  intro c hc
  have := h c hc
  simp at this; subst this; decide

theorem segs_strip (cells : List Cell) : ∀ (vals : List Value) (pre : Str), allFit cells vals = true →
    leadSpacesFrom pre cells = true →
    (segsFrom pre cells vals).map strip = (cellValues cells vals).map fun sv => strip (fmtValue sv.1 sv.2) := by
  induction cells with
  | nil => intro vals pre _ _; rfl
  | cons c cs ih =>
    intro vals pre h hs
    cases c with
    | lit t =>
      simp only [allFit, leadSpacesFrom] at h hs
      simpa [segsFrom, cellValues] using ih vals (pre ++ t.toList) h hs
    | other n => simp [allFit] at h
    | fld n spec =>
      cases vals with
      | nil => simp [allFit] at h
      | cons v vs =>
        simp only [allFit, leadSpacesFrom, Bool.and_eq_true] at h hs
        simp only [segsFrom, cellValues, List.map_cons, List.cons.injEq]
        exact ⟨strip_blank_append (isBlank_of_spaces hs.1), ih vs [] h.2 hs.2⟩

theorem all_pad (P : Char → Bool) (hP : P ' ' = true) (a : Align) (w : Nat) (v : Str) (hv : v.all P = true) :
    (pad a w v).all P = true := by
  cases a <;> simp [pad, ljust, rjust, blanks, List.all_append, hv, hP]

theorem segs_all (P : Char → Bool) (hP : P ' ' = true) (cells : List Cell) : ∀ (vals : List Value) (pre : Str),
    allFit cells vals = true → leadSpacesFrom pre cells = true → textsAll P cells vals = true →
    ∀ s ∈ segsFrom pre cells vals, s.all P = true := by
  induction cells with
  | nil => intro vals pre _ _ _ s hs; simp [segsFrom] at hs
  | cons c cs ih =>
    intro vals pre h hs ht
    cases c with
    | lit t =>
      simp only [allFit, leadSpacesFrom, textsAll] at h hs ht
      simpa [segsFrom] using ih vals (pre ++ t.toList) h hs ht
    | other n => simp [allFit] at h
    | fld n spec =>
      cases vals with
      | nil => simp [allFit] at h
      | cons v vs =>
        simp only [allFit, leadSpacesFrom, textsAll, Bool.and_eq_true] at h hs ht
        intro s hsm
        simp only [segsFrom, List.mem_cons] at hsm
        rcases hsm with rfl | hsm
        · rw [List.all_append, Bool.and_eq_true]
          refine ⟨?_, all_pad P hP _ _ _ ht.1⟩
          simp only [List.all_eq_true] at hs ⊢
          intro c hc
          have := hs.1 c hc
          simp at this; subst this; exact hP
        · exact ih vs [] h.2 hs.2 ht.2 s hsm

/-- keyword arguments → positional values -/
theorem renderNamed_of_envValues (cells : List Cell) (env : Env) : ∀ (vals : List Value),
    envValues cells env = some vals → renderNamed cells env = renderCells cells vals := by
  induction cells with
  | nil => intro vals _; rfl
  | cons c cs ih =>
    intro vals h
    cases c with
    | lit t =>
      have h' : envValues cs env = some vals := by simpa [envValues, fieldNames] using h
      simp [renderNamed, renderCells, ih vals h']
    | other n => rfl
    | fld n spec =>
      simp only [envValues, fieldNames, List.filterMap_cons, List.mapM_cons] at h
      cases hl : env.lookup n with
      | none => simp [hl] at h
      | some v =>
        simp only [hl, Option.bind_eq_bind, Option.bind_some, Option.pure_def] at h
        obtain ⟨vs, hvs, hv⟩ := Option.bind_eq_some_iff.mp h
        simp only [Option.some.injEq] at hv
        subst hv
        have h' : envValues cs env = some vs := hvs
        simp [renderNamed, renderCells, hl, ih vs h']



/-! ### one line through the fixed-width splitter -/

theorem gftRow_line (sp : GftSpec) (cells : List Cell) (vals : List Value) (line : Str)
    (hr : renderCells cells vals = some line) (hfit : allFit cells vals = true)
    (hw : segWidthsFrom 0 cells = sp.widths) (hlead : leadSpacesFrom [] cells = true)
    (htail : tailLitFrom [] cells = ['\n'])
    (hplain : textsAll (plainFor sp.comment) cells vals = true)
    (hcm : sp.comment ≠ ' ' ∧ sp.comment ≠ '\n') (hauto : sp.autostrip = true) :
    gftRow sp line = some ((cellValues cells vals).map fun sv => strip (fmtValue sv.1 sv.2)) ∧
    ∃ body, line = body ++ ['\n'] ∧ (∀ c ∈ body, c ≠ '\n') ∧ (∀ c ∈ line, c ≠ '\r') := by
  have hsp : plainFor sp.comment ' ' = true := by
    simp only [plainFor, Bool.and_eq_true, bne_iff_ne, ne_eq]
    exact ⟨⟨fun h => hcm.1 h.symm, by decide⟩, by decide⟩
  have hline := render_segs cells vals [] line hr
  simp only [List.nil_append, htail] at hline
  have hall := segs_all (plainFor sp.comment) hsp cells vals [] hfit hlead hplain
  have hbody : ∀ c ∈ (segsFrom [] cells vals).flatten, plainFor sp.comment c = true := by
    intro c hc
    obtain ⟨s, hs, hcs⟩ := List.mem_flatten.mp hc
    exact List.all_eq_true.mp (hall s hs) c hcs
  have hplainc : ∀ c, plainFor sp.comment c = true → c ≠ sp.comment ∧ c ≠ '\n' ∧ c ≠ '\r' := by
    intro c h
    simp only [plainFor, Bool.and_eq_true, bne_iff_ne, ne_eq] at h
    exact ⟨h.1.1, h.1.2, h.2⟩
  have hnc : ∀ c ∈ line, (decide (c ≠ sp.comment)) = true := by
    intro c hc
    rw [hline] at hc
    rcases List.mem_append.mp hc with h | h
    · simpa using (hplainc c (hbody c h)).1
    · simp at h; subst h; simpa using fun h => hcm.2 h.symm
  refine ⟨?_, (segsFrom [] cells vals).flatten, hline, fun c hc => (hplainc c (hbody c hc)).2.1, ?_⟩
  · unfold gftRow
    simp only [takeWhile_eq_self _ _ hnc, hauto, if_true]
    have hne : line.isEmpty = false := by rw [hline]; simp
    simp only [hne, Bool.false_eq_true, if_false, Option.some.injEq]
    have hcut : cutWidths sp.widths line = segsFrom [] cells vals := by
      rw [← hw, ← List.length_nil (α := Char), ← segs_length cells vals [] hfit, hline]
      exact cutWidths_flatten _ _
    rw [hcut]
    exact segs_strip cells vals [] hfit hlead
  · intro c hc
    rw [hline] at hc
    rcases List.mem_append.mp hc with h | h
    · exact (hplainc c (hbody c h)).2.2
    · simp at h; subst h; decide

/-! ### converted values -/

theorem parseFloat_fmtInt (i : Int) : parseFloat (fmtInt i) = some (i : Rat) := by
  unfold fmtInt
  have hd := allDigits_natDigits' i.natAbs
  have hne := natDigits_ne_nil' i.natAbs
  by_cases hi : i < 0
  · simp only [hi, if_true]
    have hhead : ∃ c r, natDigits i.natAbs = c :: r ∧ isDigit c = true := natDigits_head_digit _
    have := parseFloat_body true (natDigits i.natAbs) (natDigits i.natAbs) 0 (parseMantissa_digits hd hne)
      (fun c hc => Or.inl (isDigit_of_mem hd hc)) hhead
    simp only [if_true, List.singleton_append, digitsVal_natDigits', pow10_zero] at this
    rw [this]
    have : ((i.natAbs : Nat) : Rat) = -(i : Rat) := by
      have h1 : (i.natAbs : Int) = -i := by omega
      have h2 : ((i.natAbs : Int) : Rat) = ((-i : Int) : Rat) := by rw [h1]
      simpa using h2
    rw [this]; simp
  · simp only [hi, if_false]
    rw [parseFloat_digits hd hne, digitsVal_natDigits']
    have h1 : (i.natAbs : Int) = i := by omega
    have h2 : ((i.natAbs : Int) : Rat) = (i : Rat) := by rw [h1]
    simpa using h2

/-- what the parser's converter makes of a written cell -/
def expectField : Dtype → Spec × Value → FieldVal
  | .f8, (sp, .num q) => .f8 (some (fixedValue q (sp.prec.getD 6)))
  | .f8, (_, .int i) => .f8 (some (i : Rat))
  | .f8, (_, .negz) => .f8 (some 0)
  | .f8, (_, .nan) => .f8 none
  | .f8, (sp, .str s) => .f8 (parseFloat (Value.text sp (.str s)))
  | .u n, (sp, v) => .u ((v.text sp).take n)

theorem parseFloat_nan : parseFloat "nan".toList = none := by decide +kernel

theorem convert_cell (d : Dtype) (sp : Spec) (v : Value) (hc : Clean (v.text sp) = true) :
    convert d (strip (fmtValue sp v)) = expectField d (sp, v) := by
  have hs : strip (fmtValue sp v) = v.text sp := by unfold fmtValue; exact strip_pad_cell _ _ hc
  rw [hs]
  cases d with
  | u n => rfl
  | f8 =>
    cases v with
    | num q => simp [convert, expectField, Value.text, parseFloat_fmtFixedCore]
    | int i => simp [convert, expectField, Value.text, parseFloat_fmtInt]
    | negz => simp [convert, expectField, Value.text, Writers.parseFloat_negz]
    | nan => show FieldVal.f8 (parseFloat "nan".toList) = FieldVal.f8 none; rw [parseFloat_nan]
    | str s => rfl

theorem convertRow_cells : ∀ (l : List (Spec × Value)) (dts : List Dtype),
    (∀ sv ∈ l, Clean (sv.2.text sv.1) = true) →
    convertRow dts (l.map fun sv => strip (fmtValue sv.1 sv.2)) = List.zipWith expectField dts l := by
  intro l
  induction l with
  | nil => intro dts _; simp [convertRow]
  | cons sv l ih =>
    intro dts h
    cases dts with
    | nil => simp [convertRow]
    | cons d dts =>
      have := ih dts (fun x hx => h x (by simp [hx]))
      simp only [convertRow] at this ⊢
      simp only [List.map_cons, List.zipWith_cons_cons, List.cons.injEq]
      exact ⟨convert_cell d sv.1 sv.2 (h sv (by simp)), this⟩

theorem clean_cellValues (cells : List Cell) : ∀ (vals : List Value), allClean cells vals = true →
    ∀ sv ∈ cellValues cells vals, Clean (sv.2.text sv.1) = true := by
  induction cells with
  | nil => intro vals _ sv h; simp [cellValues] at h
  | cons c cs ih =>
    intro vals hc sv h
    cases c with
    | lit t => simp only [allClean, cellValues] at hc h; exact ih vals hc sv h
    | other n => simp [cellValues] at h
    | fld n spec =>
      cases vals with
      | nil => simp [cellValues] at h
      | cons v vs =>
        simp only [allClean, Bool.and_eq_true, cellValues, List.mem_cons] at hc h
        rcases h with rfl | h
        · exact hc.1
        · exact ih vs hc.2 sv h

/-! ### whole files -/

theorem lines_rows (sp : GftSpec) (cells : List Cell) (hm : lineMatches sp cells = true) :
    ∀ (rowsVals : List (List Value)), (∀ vals ∈ rowsVals, valsOk sp cells vals = true) →
    ∃ bodies : List Str, rowsVals.mapM (renderCells cells) = some (bodies.map (· ++ ['\n'])) ∧
      (∀ b ∈ bodies, ∀ c ∈ b, c ≠ '\n') ∧ (∀ b ∈ bodies, ∀ c ∈ b, c ≠ '\r') ∧
      (bodies.map (· ++ ['\n'])).filterMap (gftRow sp) =
        rowsVals.map fun vals => (cellValues cells vals).map fun sv => strip (fmtValue sv.1 sv.2) := by
  simp only [lineMatches, Bool.and_eq_true, beq_iff_eq, bne_iff_ne, ne_eq] at hm
  obtain ⟨⟨⟨⟨⟨hw, hlead⟩, htail⟩, hc1⟩, hc2⟩, hauto⟩ := hm
  intro rowsVals
  induction rowsVals with
  | nil => intro _; exact ⟨[], rfl, by simp, by simp, rfl⟩
  | cons vals rest ih =>
    intro h
    obtain ⟨bodies, hb1, hb2, hb3, hb4⟩ := ih (fun v hv => h v (by simp [hv]))
    have hv := h vals (by simp)
    simp only [valsOk, Bool.and_eq_true] at hv
    obtain ⟨line, hline, _, _⟩ := fields_in_columns_aux cells vals hv.1.1
    obtain ⟨hrow, body, hbody, hnl, hcr⟩ :=
      gftRow_line sp cells vals line hline hv.1.1 hw hlead htail hv.2 ⟨hc1, hc2⟩ hauto
    refine ⟨body :: bodies, ?_, ?_, ?_, ?_⟩
    · simp [List.mapM_cons, hline, hb1, hbody]
    · intro b hb
      rcases List.mem_cons.mp hb with rfl | hb
      · exact hnl
      · exact hb2 b hb
    · intro b hb
      rcases List.mem_cons.mp hb with rfl | hb
      · intro c hc; exact hcr c (by rw [hbody]; simp [hc])
      · exact hb3 b hb
    · simp only [List.map_cons, List.filterMap_cons]
      rw [← hbody, hrow]
      simp [hb4]

/-- **`parse (header ++ lines) = the written values, cell by cell as the converters read them`**, for every
fixed-width `np.genfromtxt` parser whose widths are the segment widths of the writer's line -/
theorem gft_file (sp : GftSpec) (cells : List Cell) (hm : lineMatches sp cells = true) (hdr : Str)
    (hh : headerOk sp hdr = true) (rowsVals : List (List Value))
    (hv : ∀ vals ∈ rowsVals, valsOk sp cells vals = true) :
    ∃ lines, rowsVals.mapM (renderCells cells) = some lines ∧
      gftParse sp (hdr ++ lines.flatten) =
        rowsVals.map fun vals => List.zipWith expectField sp.dtypes (cellValues cells vals) := by
  obtain ⟨bodies, hb1, hb2, hb3, hb4⟩ := lines_rows sp cells hm rowsVals hv
  refine ⟨_, hb1, ?_⟩
  simp only [headerOk, Bool.and_eq_true, beq_iff_eq, List.all_eq_true, bne_iff_ne, ne_eq] at hh
  obtain ⟨⟨hcount, hlast⟩, hcr⟩ := hh
  have hnocr : ∀ c ∈ hdr ++ (bodies.map (· ++ ['\n'])).flatten, c ≠ '\r' := by
    intro c hc
    rcases List.mem_append.mp hc with h | h
    · exact hcr c h
    · obtain ⟨l, hl, hcl⟩ := List.mem_flatten.mp h
      obtain ⟨b, hb, rfl⟩ := List.mem_map.mp hl
      rcases List.mem_append.mp hcl with h' | h'
      · exact hb3 b hb c h'
      · simp at h'; subst h'; decide
  unfold gftParse gftRows
  rw [universalNewlines_of_noCR _ hnocr, fileLines_drop_header hdr _ sp.skip hcount hlast, fileLines_lines bodies hb2, hb4,
    List.map_map]
  apply List.map_congr_left
  intro vals hvals
  have hvv := hv vals hvals
  simp only [valsOk, Bool.and_eq_true] at hvv
  exact convertRow_cells _ _ (clean_cellValues cells vals hvv.1.2)

/-- the file-level statement from a per-line statement, for any way of rendering a line from an item -/
theorem gft_file_of {α} (sp : GftSpec) (render : α → Option Str) (R : α → List Str) (hdr : Str)
    (hh : headerOk sp hdr = true) (items : List α)
    (hline : ∀ a ∈ items, ∃ body, render a = some (body ++ ['\n']) ∧ (∀ c ∈ body, c ≠ '\n') ∧ (∀ c ∈ body, c ≠ '\r') ∧
      gftRow sp (body ++ ['\n']) = some (R a)) :
    ∃ lines, items.mapM render = some lines ∧
      gftParse sp (hdr ++ lines.flatten) = items.map fun a => convertRow sp.dtypes (R a) := by
  have hb : ∃ bodies : List Str, items.mapM render = some (bodies.map (· ++ ['\n'])) ∧
      (∀ b ∈ bodies, ∀ c ∈ b, c ≠ '\n') ∧ (∀ b ∈ bodies, ∀ c ∈ b, c ≠ '\r') ∧
      (bodies.map (· ++ ['\n'])).filterMap (gftRow sp) = items.map R := by
    induction items with
    | nil => exact ⟨[], rfl, by simp, by simp, rfl⟩
    | cons a rest ih =>
      obtain ⟨bodies, hb1, hb2, hb3, hb4⟩ := ih (fun x hx => hline x (by simp [hx]))
      obtain ⟨body, hr, hnl, hcr, hrow⟩ := hline a (by simp)
      refine ⟨body :: bodies, by simp [List.mapM_cons, hr, hb1], ?_, ?_, ?_⟩
      · intro b hb
        rcases List.mem_cons.mp hb with rfl | hb
        · exact hnl
        · exact hb2 b hb
      · intro b hb
        rcases List.mem_cons.mp hb with rfl | hb
        · exact hcr
        · exact hb3 b hb
      · simp only [List.map_cons, List.filterMap_cons, hrow]
        simp [hb4]
  obtain ⟨bodies, hb1, hb2, hb3, hb4⟩ := hb
  refine ⟨_, hb1, ?_⟩
  simp only [headerOk, Bool.and_eq_true, beq_iff_eq, List.all_eq_true, bne_iff_ne, ne_eq] at hh
  obtain ⟨⟨hcount, hlast⟩, hcr⟩ := hh
  have hnocr : ∀ c ∈ hdr ++ (bodies.map (· ++ ['\n'])).flatten, c ≠ '\r' := by
    intro c hc
    rcases List.mem_append.mp hc with h | h
    · exact hcr c h
    · obtain ⟨l, hl, hcl⟩ := List.mem_flatten.mp h
      obtain ⟨b, hb, rfl⟩ := List.mem_map.mp hl
      rcases List.mem_append.mp hcl with h' | h'
      · exact hb3 b hb c h'
      · simp at h'; subst h'; decide
  unfold gftParse gftRows
  rw [universalNewlines_of_noCR _ hnocr, fileLines_drop_header hdr _ sp.skip hcount hlast, fileLines_lines bodies hb2, hb4,
    List.map_map]
  rfl

end Midgard.WriterFiles
